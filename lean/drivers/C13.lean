import PdsVerif.DriverLoop
import PdsVerif.Model.ShortenDrv
open PdsVerif
def dispatch (line : String) : String :=
  (Model.ShortenDrv.handle (tokens line)).getD "bad-op"
def main : IO Unit := driverMain dispatch

/-
  C08 driver.  Line protocol (space separated tokens; strings are `s:<text>`, possibly empty):

    resolve  <tree> <root id> s:<alias>          ->  ok <class id> | err:ValueError | err:out-of-fuel
    order    <tree> <root id>                     ->  ids in `Cls.order`, comma separated
    fromarg  <tree> <factory id> <arg>            ->  <result> | <arg afterwards>
    registry.resolve <qualified family name> s:<alias>   (on the generated live registry)
                                                  ->  ok <qualified class name> | err:…

    <tree> ::= ( <id> <0|1 concrete> <alias,alias,…|-> <tree>* )         subclasses in __subclasses__() order
    <arg>  ::= inst <class id> <object id> | str s:<text> | map <key>=<val>* | other
    <val>  ::= s:<text> | h:<repr> | u:<repr>
    <result> ::= same <object id> | new <class id> <key>=<val>* | err:<Exception>

  A tree with a repeated class id is answered `bad-op` (identities must be distinct).
-/
import PdsVerif.DriverLoop
import PdsVerif.Model.Alias
import PdsVerif.Generated.Registry
open PdsVerif PdsVerif.Model.Alias

partial def parseTree : List String → Option (Cls × List String)
  | "(" :: id :: conc :: al :: rest => do
    let id ← id.toNat?
    let conc ← (if conc == "1" then some true else if conc == "0" then some false else none)
    let aliases := if al == "-" then [] else al.splitOn ","
    let rec kids (acc : List Cls) : List String → Option (List Cls × List String)
      | ")" :: rest => some (acc.reverse, rest)
      | toks => do
        let (c, rest) ← parseTree toks
        kids (c :: acc) rest
    let (cs, rest) ← kids [] rest
    some (.mk ⟨id, s!"c{id}", conc, aliases⟩ cs, rest)
  | _ => none

def nodupNat : List Nat → Bool
  | [] => true
  | x :: xs => !xs.contains x && nodupNat xs

def parseStr (t : String) : Option String :=
  if t.startsWith "s:" then some (t.drop 2).toString else none

def parseVal (t : String) : Option Val :=
  if t.startsWith "s:" then some (.str (t.drop 2).toString)
  else if t.startsWith "h:" then some (.hashable (t.drop 2).toString)
  else if t.startsWith "u:" then some (.unhashable (t.drop 2).toString)
  else none

def parseEntry (t : String) : Option (String × Val) :=
  match t.splitOn "=" with
  | k :: v :: vs => do
    let v ← parseVal ("=".intercalate (v :: vs))
    some (k, v)
  | _ => none

def parseArg : List String → Option Arg
  | ["inst", c, o] => do some (.inst (← c.toNat?) (← o.toNat?))
  | ["str", s] => do some (.str (← parseStr s))
  | "map" :: es => do some (.map (← es.mapM parseEntry))
  | ["other"] => some .other
  | _ => none

def showVal : Val → String
  | .str s => "s:" ++ s
  | .hashable r => "h:" ++ r
  | .unhashable r => "u:" ++ r

def showMap (m : Mapping) : String :=
  " ".intercalate (m.map (fun (k, v) => k ++ "=" ++ showVal v))

def showArg : Arg → String
  | .inst c o => s!"inst {c} {o}"
  | .str s => "str s:" ++ s
  | .map [] => "map"
  | .map m => "map " ++ showMap m
  | .other => "other"

def showOut : Except Err Out → String
  | .ok (.same o) => s!"same {o}"
  | .ok (.construct c []) => s!"new {c.id}"
  | .ok (.construct c kw) => s!"new {c.id} " ++ showMap kw
  | .error e => "err:" ++ e.toString

def findId (t : Cls) (i : Nat) : Option Cls := t.classes.find? (fun c => c.id == i)

def withTree (toks : List String) (k : Cls → List String → Option String) : String :=
  (do
    let (t, rest) ← parseTree toks
    if !nodupNat t.ids then none
    k t rest).getD "bad-op"

def dispatch (line : String) : String :=
  match tokens line with
  | "resolve" :: toks => withTree toks fun t rest =>
      match rest with
      | [r, a] => do
        let root ← findId t (← r.toNat?)
        let a ← parseStr a
        match resolve root a with
        | .ok c => some s!"ok {c.id}"
        | .error e => some ("err:" ++ e.toString)
      | _ => none
  | "order" :: toks => withTree toks fun t rest =>
      match rest with
      | [r] => do
        let root ← findId t (← r.toNat?)
        some (showNats (root.order.map Cls.id))
      | _ => none
  | "fromarg" :: toks => withTree toks fun t rest =>
      match rest with
      | f :: argToks => do
        let fac ← findId t (← f.toNat?)
        let arg ← parseArg argToks
        let (out, after) := fromArg fac arg
        some (showOut out ++ " | " ++ showArg after)
      | _ => none
  | ["registry.resolve", fam, a] => (do
      let F ← Gen.Registry.root.findName fam
      let a ← parseStr a
      match resolve F a with
      | .ok c => some ("ok " ++ c.name)
      | .error e => some ("err:" ++ e.toString)).getD "bad-op"
  | _ => "bad-op"

def main : IO Unit := driverMain dispatch

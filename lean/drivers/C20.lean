/-
  C20 driver: one operation per line, one answer per line (floats travel as IEEE bit patterns).

    win  <bartlett|blackman|hamming|hann> <width> <all|i,j,...>   ->  len;bits,bits,...
    gam  <order> <peak> <width> <all|i,j,...>                      ->  len;bits,...  |  err:ValueError
    gq   <p> <mu> <std>      h2a <hertz> <rate>      a2h <angle> <rate>            ->  bits
    cs   <shift> <start> <D|none> <copy 0|1> <c128 0|1> <re,im,re,im,...|->
         ->  D s' sameObject k,k,.. r,r,.. out(re,im,..) filtAfter(re,im,..)  |  err:ZeroDivisionError
-/
import PdsVerif.DriverLoop
import PdsVerif.Model.Windows
import PdsVerif.Model.Circshift
open PdsVerif PdsVerif.Gen.UtilFns

namespace C20Drv
open Model.Windows Model.Circshift

def parseKind : String → Option Kind
  | "bartlett" => some .bartlett
  | "blackman" => some .blackman
  | "hamming" => some .hamming
  | "hann" => some .hann
  | _ => none

/-- `"all"` or a comma separated index list; answers `len;bits,bits,...` -/
def showSel (l : List Float) (sel : String) : Option String := do
  let a := l.toArray
  let idx ← if sel == "all" then some (List.range a.size) else parseNats sel
  let vals ← idx.mapM fun i => if h : i < a.size then some (floatBits a[i]) else none
  some (toString a.size ++ ";" ++ ",".intercalate vals)

def handleWin : List String → Option String
  | [k, w, sel] => do
    let k ← parseKind k
    let w ← w.toNat?
    showSel (window (α := Float) k w) sel
  | _ => none

def handleGamma : List String → Option String
  | [o, p, w, sel] => do
    let o ← o.toNat?
    let p ← floatOfBits? p
    let w ← w.toNat?
    match gamma (α := Float) o p w with
    | .error .valueError => some "err:ValueError"
    | .ok l => showSel l sel
  | _ => none

def handleScalar (fn : String) (args : List String) : Option String := do
  let xs ← args.mapM floatOfBits?
  let r : Float ← match fn, xs with
    | "gq", [p, mu, std] => some (gauss_quant_odeh_evans p mu std)
    | "h2a", [hz, rate] => some (hertz_to_angular hz rate)
    | "a2h", [an, rate] => some (angular_to_hertz an rate)
    | _, _ => none
  some (floatBits r)

def pairs : List Float → Option (List (Float × Float))
  | [] => some []
  | a :: b :: t => (pairs t).map ((a, b) :: ·)
  | _ => none

def showPairs (l : List (Float × Float)) : String :=
  if l.isEmpty then "-" else ",".intercalate (l.map fun p => floatBits p.1 ++ "," ++ floatBits p.2)

def handleCs : List String → Option String
  | [shift, start, dft, copy, c128, vals] => do
    let shift ← shift.toInt?
    let start ← start.toNat?
    let dft ← if dft == "none" then some none else dft.toNat?.map some
    let copy ← if copy == "1" then some true else if copy == "0" then some false else none
    let c128 ← if c128 == "1" then some true else if c128 == "0" then some false else none
    let fl ← if vals == "-" then some [] else (vals.splitOn ",").mapM floatOfBits?
    let filt ← pairs fl
    match plan filt.length shift start dft with
    | .error .zeroDivision => some "err:ZeroDivisionError"
    | .ok p =>
      match run (mulPhasePair (α := Float)) filt shift start dft copy c128 with
      | .error .zeroDivision => some "err:ZeroDivisionError"
      | .ok r =>
        some (" ".intercalate [toString p.D, toString p.s, if r.sameObject then "1" else "0",
          showNats p.ks, showNats (residues p), showPairs r.out, showPairs r.filtAfter])
  | _ => none

end C20Drv

def dispatch (line : String) : String :=
  match tokens line with
  | "win" :: args => (C20Drv.handleWin args).getD "bad-op"
  | "gam" :: args => (C20Drv.handleGamma args).getD "bad-op"
  | "cs" :: args => (C20Drv.handleCs args).getD "bad-op"
  | fn :: args => (C20Drv.handleScalar fn args).getD "bad-op"
  | _ => "bad-op"

def main : IO Unit := driverMain dispatch

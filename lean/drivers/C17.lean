import PdsVerif.DriverLoop
import PdsVerif.Model.StandardizeDrv
open PdsVerif
def dispatch (line : String) : String :=
  match tokens line with
  | "seq" :: args => (Model.StandardizeDrv.handleSeq args).getD "bad-op"
  | _ => "bad-op"
def main : IO Unit := driverMain dispatch

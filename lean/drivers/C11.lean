/-
  C11 driver.  Line protocol (space separated tokens).

  Strings travel as comma separated code points (`97,46,119`), `-` is the empty string, `~` is Python `None`.

    infer   <name> <extra>                      -> ok <force_as> | err:IOError
    read    <0|1 stream> <name> <force_as|~> <key> <dtype|~> <extra>
                                                -> ok reader=<r> key=<sel> dec=<dtype|~> cast=<dtype|~> steps=<ops> | err:<Exception>
    wds     <name> <extra> <0|1 decoder fails>  -> some <reader> | none | raise:<Exception>
    lastseg <name>                              -> <string>
    h5first <tree>                              -> ok <dataset id> | err:IOError | err:out-of-fuel
    table   <key> <k₁> <v₁> … <kₙ> <vₙ>         -> ok <v> | err:KeyError | err:decoder-error
    sfdtype <subtype>                           -> <dtype> | none
    wavframes <width> <channels> <bytes>        -> ok <shape> <samples> | err:IOError | err:ValueError | err:TypeError
                                                   (`_wave_read_signal` on the frames `wave` hands it; bytes comma separated)

    <extra> ::= the non-ASCII code points of <name> that Python's `\w` accepts (`-` when there are none)
    <key>   ::= ~ | s:<string> | i:<nat>
    <tree>  ::= d <name> <id> | ( <name> <tree>* )

  The generated configuration (`PdsVerif.Gen.ReadSig.config`, soundfile types and missing packages of this
  installation) is what is run; only the classification of non-ASCII word characters comes from the caller.
-/
import PdsVerif.DriverLoop
import PdsVerif.Model.ReadSignal
import PdsVerif.Generated.ReadSig
import PdsVerif.Model.WavFrames
open PdsVerif PdsVerif.Model.ReadSignal PdsVerif.Gen.ReadSig

def parseStr (t : String) : Option Str :=
  if t == "-" then some [] else (parseNats t).map (·.map Char.ofNat)

def parseOptStr (t : String) : Option (Option Str) :=
  if t == "~" then some none else (parseStr t).map some

def showStr (s : Str) : String :=
  if s.isEmpty then "-" else ",".intercalate (s.map (fun c => toString c.toNat))

def showOptStr : Option Str → String
  | none => "~"
  | some s => showStr s

def parseKey (t : String) : Option Key :=
  if t == "~" then some .none
  else if t.startsWith "s:" then (parseStr (t.drop 2).toString).map .str
  else if t.startsWith "i:" then (t.drop 2).toString.toNat?.map .int
  else none

def showKey : Key → String
  | .none => "~"
  | .str s => "s:" ++ showStr s
  | .int n => s!"i:{n}"

def showSel : KeySel → String
  | .unused => "unused"
  | .entry k => "entry:" ++ showKey k
  | .firstDataset => "first"
  | .tableLookup s => "lookup:" ++ showStr s
  | .tableIndex n => s!"index:{n}"

def showOp : Op → String
  | .select => "select" | .reshape => "reshape" | .toNumpy => "toNumpy" | .cast => "cast"

def showPlan (p : Plan) : String :=
  s!"ok reader={p.reader.name} key={showSel p.key} dec={showOptStr p.decoderDtype} cast={showOptStr p.finalCast} steps=" ++
    (if p.steps.isEmpty then "-" else ",".intercalate (p.steps.map showOp))

def envWith (extra : Str) : Env := { env with wordExtra := fun c => extra.contains c }

/-- codecs that only say which decoder was reached (and fail on request) -/
def echoPrims (fails : Bool) : Prims String where
  decode r _ := if fails then .error .decoder else .ok r.name
  select _ a := .ok a
  reshape a := .ok a
  toNumpy a := .ok a
  cast _ a := .ok a

partial def parseTree : List String → Option (H5 × List String)
  | "d" :: n :: id :: rest => do some (.dataset (← parseStr n) (← id.toNat?), rest)
  | "(" :: n :: rest => do
    let n ← parseStr n
    let rec kids (acc : List H5) : List String → Option (List H5 × List String)
      | ")" :: rest => some (acc.reverse, rest)
      | toks => do
        let (c, rest) ← parseTree toks
        kids (c :: acc) rest
    let (cs, rest) ← kids [] rest
    some (.group n cs, rest)
  | _ => none

def parseEntries : List String → Option (List (Str × Nat))
  | [] => some []
  | k :: v :: rest => do
    let k ← parseStr k
    let v ← v.toNat?
    let r ← parseEntries rest
    some ((k, v) :: r)
  | _ => none

def showErr (e : Err) : String := "err:" ++ e.name

def dispatchLine (line : String) : String :=
  match tokens line with
  | ["infer", name, extra] =>
    match parseStr name, parseStr extra with
    | some n, some x =>
      match inferForceAs config.rules config.inferElse (envWith x) n with
      | .ok fa => "ok " ++ showStr fa
      | .error e => showErr e
    | _, _ => "bad-op"
  | ["read", st, name, fa, key, dt, extra] =>
    match parseStr name, parseOptStr fa, parseKey key, parseOptStr dt, parseStr extra with
    | some n, some fa, some k, some dt, some x =>
      if st != "0" && st != "1" then "bad-op" else
      match dispatch config (envWith x) (st == "1") n fa k dt with
      | .ok p => showPlan p
      | .error e => showErr e
    | _, _, _, _, _ => "bad-op"
  | ["wds", name, extra, fails] =>
    match parseStr name, parseStr extra with
    | some n, some x =>
      if fails != "0" && fails != "1" then "bad-op" else
      match wdsRead config (envWith x) (echoPrims (fails == "1")) n with
      | .ok (some r) => "some " ++ r
      | .ok none => "none"
      | .error e => "raise:" ++ e.name
    | _, _ => "bad-op"
  | ["lastseg", name] =>
    match parseStr name with
    | some n => showStr (lastSeg n)
    | none => "bad-op"
  | "h5first" :: toks =>
    match parseTree toks with
    | some (t, []) =>
      match h5First t with
      | .ok id => s!"ok {id}"
      | .error e => showErr e
    | _ => "bad-op"
  | "table" :: key :: toks =>
    match parseKey key, parseEntries toks with
    | some k, some es =>
      match info_kaldiTable.plan k none with
      | .ok p =>
        match tableGet es p.key with
        | .ok v => s!"ok {v}"
        | .error e => showErr e
      | .error e => showErr e
    | _, _ => "bad-op"
  | ["wavframes", w, c, bytes] =>
    match w.toNat?, c.toNat?, parseNats bytes with
    | some w, some c, some bs =>
      if c == 0 || !bs.all (· < 256) then "bad-op" else
      match PdsVerif.Model.WavFrames.waveRead w c bs with
      | .ok (shape, xs) => "ok " ++ showNats shape ++ " " ++ showInts xs
      | .error .io => "err:IOError"
      | .error .value => "err:ValueError"
      | .error .type => "err:TypeError"
    | _, _, _ => "bad-op"
  | ["sfdtype", sub] =>
    match parseStr sub with
    | some s =>
      match sfDtype sfSubtypes s with
      | some d => showStr d
      | none => "none"
    | none => "bad-op"
  | _ => "bad-op"

def main : IO Unit := PdsVerif.driverMain dispatchLine

import PdsVerif.DriverLoop
import PdsVerif.Model.ScalesDrv
open PdsVerif
def dispatch (line : String) : String :=
  match tokens line with
  | "scale" :: args => (Model.ScalesDrv.handle args).getD "bad-op"
  | _ => "bad-op"
def main : IO Unit := driverMain dispatch

import PdsVerif.DriverLoop
import PdsVerif.Model.Pre
open PdsVerif
def dispatch (line : String) : String :=
  (Model.Pre.handle (tokens line)).getD "bad-op"
def main : IO Unit := driverMain dispatch

/-
  Line protocol for the short-integration model (`PdsVerif/Model/Si.lean`), run over Gaussian
  integers (real banks have zero imaginary parts):

    si S M tr D centered power <window> <nfilt> <filt_1> … <filt_n> <signal> <op> …

  * `<window>`, `<signal>`: comma separated integers (`-` = empty); a filter: comma separated taps, a tap
    is `re` or `re:im`;
  * ops: `c<n>` compute_chunk on the next n samples of the signal, `z` finalize, `F` compute_full on the
    whole signal, `P` the specification on the whole signal (no state), `d<code>` dtype of the chunks from
    now on (16/32/64: floating; anything else: not floating);
  * answer: per op (joined by `;`) the frames (joined by `|`, coefficients by `,`, `-` = no frame)
    followed by `/` and the result dtype code, or `E:value` / `E:assert`.
  `phi` = `y·conj y` (power = 1) or `|y|` (power = 0; a non-square norm prints as `?`), `post` = identity
  (use_log = False).  The buffers of the fresh computer hold junk (`999983`), as `np.empty` may.
-/
import PdsVerif.DriverLoop
import PdsVerif.Model.Si
open PdsVerif PdsVerif.Model.Si

def ofInt (z : Int) : GInt := ⟨z, 0⟩

/-- integer square root with an exactness flag carried in the imaginary part -/
def magG (y : GInt) : GInt :=
  let n := (y.re * y.re + y.im * y.im).toNat
  let r := Nat.sqrt n
  if r * r = n then ⟨r, 0⟩ else ⟨r, 1⟩

def powG (y : GInt) : GInt := ⟨y.re * y.re + y.im * y.im, 0⟩

def parseTap (s : String) : Option GInt :=
  match s.splitOn ":" with
  | [a] => do some ⟨← a.toInt?, 0⟩
  | [a, b] => do some ⟨← a.toInt?, ← b.toInt?⟩
  | _ => none

def parseTaps (s : String) : Option (List GInt) :=
  if s == "-" then some [] else (s.splitOn ",").mapM parseTap

def showCoef (g : GInt) : String := if g.im == 0 then toString g.re else "?"

def showFrames (fs : List (List GInt)) : String :=
  if fs.isEmpty then "-" else "|".intercalate (fs.map fun f => ",".intercalate (f.map showCoef))

def showRes (r : Except Err (St GInt × List (List GInt))) : String :=
  match r with
  | .ok (st, fs) => showFrames fs ++ "/" ++ toString st.dtype.code
  | .error .value => "E:value"
  | .error .assertion => "E:assert"

def mkDType (code : Nat) : DType := ⟨code == 16 || code == 32 || code == 64, code⟩

def runOps (c : Cfg) (B : Bank GInt) (x : List GInt) :
    St GInt → DType → Nat → List String → Option (List String)
  | _, _, _, [] => some []
  | st, dt, off, op :: rest => do
    let body := (op.drop 1).toString
    match op.front with
    | 'c' =>
      let n ← body.toNat?
      let r := chunk c B st dt ((x.drop off).take n)
      let st' := match r with | .ok (s, _) => s | .error _ => st
      let tl ← runOps c B x st' dt (off + n) rest
      some (showRes r :: tl)
    | 'z' =>
      if body ≠ "" then none else
      let r := finalize c B st
      let st' := match r with | .ok (s, _) => s | .error _ => st
      let tl ← runOps c B x st' dt 0 rest
      some (showRes r :: tl)
    | 'F' =>
      if body ≠ "" then none else
      let r := full c B st dt x
      -- after an exception inside `finalize` the computer keeps the state `compute_chunk` left
      let st' := match r with
        | .ok (s, _) => s
        | .error _ => if st.started then st else
            match chunk c B st dt x with | .ok (s1, _) => s1 | .error _ => st
      let tl ← runOps c B x st' dt off rest
      some (showRes r :: tl)
    | 'P' =>
      if body ≠ "" then none else
      let tl ← runOps c B x st dt off rest
      some ((showFrames (spec c B x) ++ "/0") :: tl)
    | 'd' =>
      let code ← body.toNat?
      let tl ← runOps c B x st (mkDType code) off rest
      some (("-/" ++ toString code) :: tl)
    | _ => none

def parseBool (s : String) : Option Bool :=
  if s == "1" then some true else if s == "0" then some false else none

def handleSi (args : List String) : Option String := do
  match args with
  | s :: m :: tr :: d :: ce :: pw :: win :: nf :: rest =>
    let c : Cfg := { S := ← s.toNat?, M := ← m.toNat?, tr := ← tr.toNat?, D := ← d.toNat?,
                     centered := ← parseBool ce }
    let power ← parseBool pw
    let window ← parseTaps win
    let n ← nf.toNat?
    if rest.length < n + 1 then none else
    let filts ← (rest.take n).mapM parseTaps
    let x ← parseTaps (rest.getD n "-")
    let ops := rest.drop (n + 1)
    if c.S = 0 ∨ c.D = 0 then none else
    let B : Bank GInt := { filts, window, phi := if power then powG else magG, post := id }
    let junk : GInt := ⟨999983, 0⟩
    let st0 : St GInt := fresh (List.replicate c.D junk)
      (filts.map fun _ => List.replicate (yBlocks c) (junk, junk))
    let outs ← runOps c B x st0 f64 0 ops
    some (";".intercalate outs)
  | _ => none

def dispatch (line : String) : String :=
  match tokens line with
  | "si" :: args => (handleSi args).getD "bad-op"
  | _ => "bad-op"

def main : IO Unit := PdsVerif.driverMain dispatch

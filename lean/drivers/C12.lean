import PdsVerif.DriverLoop
import PdsVerif.Model.Sphere
open PdsVerif PdsVerif.Model.Sphere PdsVerif.Gen.Sphere

/-
  line protocol (one line in, one line out):
    dec <readSize|-> <dtype|none> <hex of the whole file>
        -> ok <dtype> <shape> <warn 0/1> <samples>  |  err <Class>[:<stage>]  |  unmodelled <why>
       (`-` = the generated BUF_SIZE)
    tab <ulaw|alaw> <code>         -> <generated table entry | none> <G.711 expansion>
    enc <pcm|ulaw|alaw> <be 0/1> <chans> <rate> <hdrSize> <count> <padLen> <pad byte> <items>
        -> hex of `encode`
-/

def hexVal (c : Char) : Option Nat :=
  if '0' ≤ c ∧ c ≤ '9' then some (c.toNat - 48)
  else if 'a' ≤ c ∧ c ≤ 'f' then some (c.toNat - 87)
  else none

def parseHexGo : List Char → List Nat → Option (List Nat)
  | [], acc => some acc.reverse
  | [_], _ => none
  | a :: b :: t, acc => do
    let x ← hexVal a
    let y ← hexVal b
    parseHexGo t ((16 * x + y) :: acc)

def parseHex (s : String) : Option (List Nat) :=
  if s == "-" then some [] else parseHexGo s.toList []

def hexDigit (n : Nat) : Char := if n < 10 then Char.ofNat (48 + n) else Char.ofNat (87 + n)

def showHex (l : List Nat) : String :=
  if l.isEmpty then "-" else String.ofList (l.flatMap (fun b => [hexDigit (b / 16), hexDigit (b % 16)]))

def parseDT : String → Option (Option DT)
  | "none" => some none
  | "u8" => some (some .u8)
  | "i8" => some (some .i8)
  | "u16" => some (some .u16)
  | "i16" => some (some .i16)
  | "u32" => some (some .u32)
  | "i32" => some (some .i32)
  | "i64" => some (some .i64)
  | "f64" => some (some .f64)
  | _ => none

def showDT : DT → String
  | .u8 => "u8" | .i8 => "i8" | .u16 => "u16" | .i16 => "i16"
  | .u32 => "u32" | .i32 => "i32" | .i64 => "i64" | .f64 => "f64"

def showErr : Err → String
  | .io .header => "err IOError:header"
  | .io .data => "err IOError:data"
  | .value => "err ValueError"
  | .type => "err TypeError"
  | .attribute => "err AttributeError"
  | .index => "err IndexError"
  | .unmodelled why => "unmodelled " ++ why.replace " " "-"

def showResult : Except Err Result → String
  | .error e => showErr e
  | .ok r => s!"ok {showDT r.dtype} {showNats r.shape} {if r.warn then 1 else 0} {showInts r.samples}"

def parseCoding : String → Option Coding
  | "pcm" => some .pcm
  | "ulaw" => some .ulaw
  | "alaw" => some .alaw
  | _ => none

def handle : List String → Option String
  | ["dec", rs, dt, hex] => do
    let r ← if rs == "-" then some BUF_SIZE else rs.toNat?
    let d ← parseDT dt
    let b ← parseHex hex
    some (showResult (decode r d b))
  | ["tab", which, code] => do
    let c ← code.toNat?
    match which with
    | "ulaw" => some s!"{(ULAW2PCM[c]?).map toString |>.getD "none"} {G711.ulawExpand c}"
    | "alaw" => some s!"{(ALAW2PCM[c]?).map toString |>.getD "none"} {G711.alawExpand c}"
    | _ => none
  | ["enc", coding, be, chans, rate, hs, count, padLen, padByte, items] => do
    let c ← parseCoding coding
    let be ← be.toNat?
    let chans ← chans.toNat?
    let rate ← rate.toNat?
    let hs ← hs.toNat?
    let count ← count.toNat?
    let padLen ← padLen.toNat?
    let padByte ← padByte.toNat?
    let items ← parseInts items
    let spec : Spec := { coding := c, be := be != 0, chans := chans, rate := rate, hdrSize := hs }
    some (showHex (encode spec count (List.replicate padLen padByte) items))
  | _ => none

def dispatch (line : String) : String := (handle (tokens line)).getD "bad-op"

def main : IO Unit := driverMain dispatch

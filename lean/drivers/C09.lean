/-
  Line protocol for the command-line-tool model (`Model/Cli.lean`).  One run per line.

    kaldi <minDur> <channel> <rate> <L>,<S>,<centered 0|1>,<kaldi_shift 0|1> <pres> <posts> <utts>
        <utts>  : `-` or `;`-joined  id:chans:samples:rate:dur:readable(0|1)
    torch <channel> <none | L,S,c,k> <pres> <posts> <none | manifest ids> <seed> <lines>
        <lines> : `-` or `;`-joined  b (blank) | x (malformed) | id:v:<samples>:r | id:m:<chans>:<samples>:r

  <pres>/<posts>/<manifest ids>: comma separated naturals, `-` for the empty list.
  The number of rows `compute_full` yields is `stftRows` = the length of `Model.Stft.full` (`C09.stftRows_eq_full`).

  answer (kaldi): `<outcome> <written>`            written items  id:rows:term
  answer (torch): `<outcome> <written> <manifest>` written items  id:rows:seed:term
  <outcome> : exit=<code> | raise=<PythonExceptionName>@<id>
-/
import PdsVerif.DriverLoop
import PdsVerif.Model.Cli
import PdsVerif.Model.Stft
open PdsVerif PdsVerif.Model PdsVerif.Model.Cli

def parseBool (s : String) : Option Bool :=
  match s with | "0" => some false | "1" => some true | _ => none

def parseFrames (s : String) : Option (Nat → Nat) :=
  match s.splitOn "," with
  | [l, sh, c, k] => do
    let l ← l.toNat?; let sh ← sh.toNat?; let c ← parseBool c; let k ← parseBool k
    if l = 0 ∨ sh = 0 ∨ sh > l then none
    let _cfg : Stft.Cfg := { L := l, S := sh, centered := c, kaldi := k }
    some (stftRows l sh)
  | _ => none

def parseList {α} (f : String → Option α) (s : String) : Option (List α) :=
  if s == "-" then some [] else (s.splitOn ";").mapM f

def parseKUtt (s : String) : Option KUtt :=
  match s.splitOn ":" with
  | [i, c, n, r, d, rd] => do
    some { id := ← i.toNat?, chans := ← c.toNat?, samples := ← n.toNat?, rate := ← r.toNat?,
           dur := ← d.toNat?, readable := ← parseBool rd }
  | _ => none

def showOutcome : Outcome → String
  | .exit c => "exit=" ++ toString c
  | .raised e i => "raise=" ++ e.name ++ "@" ++ toString i

def showItems (l : List String) : String := if l.isEmpty then "-" else ";".intercalate l

def handleKaldi (args : List String) : Option String :=
  match args with
  | [md, ch, rate, fr, pres, posts, utts] => do
    let o : KOpts := { minDur := ← md.toNat?, channel := ← ch.toInt?, rate := ← rate.toNat?,
                       frames := ← parseFrames fr, pres := ← parseNats pres, posts := ← parseNats posts }
    let us ← parseList parseKUtt utts
    let r := kaldiRun o us
    some (showOutcome r.outcome ++ " " ++
      showItems (r.written.map fun s => toString s.id ++ ":" ++ toString s.rows ++ ":" ++ s.term.show))
  | _ => none

def parseMapLine (s : String) : Option MapLine :=
  if s == "b" then some .blank
  else if s == "x" then some .malformed
  else match s.splitOn ":" with
    | [i, "v", n, rd] => do
      some (.entry { id := ← i.toNat?, shape := .vec (← n.toNat?), readable := ← parseBool rd })
    | [i, "m", c, n, rd] => do
      some (.entry { id := ← i.toNat?, shape := .mat (← c.toNat?) (← n.toNat?), readable := ← parseBool rd })
    | _ => none

def handleTorch (args : List String) : Option String :=
  match args with
  | [ch, comp, pres, posts, man, seed, lines] => do
    let computer ← (if comp == "none" then some none else (parseFrames comp).map some)
    let manifest ← (if man == "none" then some none else (parseNats man).map some)
    let o : TOpts := { channel := ← ch.toInt?, computer := computer, pres := ← parseNats pres,
                       posts := ← parseNats posts, manifest := manifest, seed := ← seed.toNat? }
    let ls ← parseList parseMapLine lines
    let r := torchRun o ls
    some (showOutcome r.outcome ++ " " ++
      showItems (r.written.map fun s =>
        toString s.id ++ ":" ++ toString s.rows ++ ":" ++ toString s.seed ++ ":" ++ s.term.show)
      ++ " " ++ showNats r.manifestOut)
  | _ => none

def dispatch (line : String) : String :=
  match tokens line with
  | "kaldi" :: args => (handleKaldi args).getD "bad-op"
  | "torch" :: args => (handleTorch args).getD "bad-op"
  | _ => "bad-op"

def main : IO Unit := driverMain dispatch

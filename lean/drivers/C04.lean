import PdsVerif.Model.StftDrv
def main : IO Unit := PdsVerif.driverMain PdsVerif.Model.StftDrv.dispatch

/-
  Line protocol for the Deltas / Stack model, run at `Rat` (exact).

    deltas <num_deltas> <context_window> <target_axis> <concatenate 0|1> <pad> <cast id|trunc> <axis> <shape> <data>
    stack  <num_vectors> <time_axis> <pad|none> <in_place 0|1> <axis> <shape> <data>

  <pad>   : constant:<l>:<r> | edge | reflect | symmetric | wrap | maximum | minimum | mean | median
            | linear_ramp:<l>:<r>          (constants are integers)
  <shape> : comma separated naturals, `-` for rank 0;  <data> : comma separated integers, `-` for none
  answer  : `ok <shape> <data>` with data as `p` or `p/q`, or `err:<PythonExceptionName>`, or `bad-op`
-/
import PdsVerif.DriverLoop
import PdsVerif.Model.Post
open PdsVerif PdsVerif.Model PdsVerif.Model.Tensor PdsVerif.Model.Post

instance : Inhabited Rat := ⟨0⟩

def showRat (q : Rat) : String :=
  if q.den == 1 then toString q.num else toString q.num ++ "/" ++ toString q.den

def showRats (l : List Rat) : String :=
  if l.isEmpty then "-" else ",".intercalate (l.map showRat)

def truncRat (q : Rat) : Rat := if q < 0 then ((-((-q).floor) : Int) : Rat) else ((q.floor : Int) : Rat)

def parsePad (s : String) : Option (PadMode Rat) :=
  match s.splitOn ":" with
  | ["constant", l, r] => do
    let l ← l.toInt?; let r ← r.toInt?
    some (.constant (l : Rat) (r : Rat))
  | ["edge"] => some .edge
  | ["reflect"] => some .reflect
  | ["symmetric"] => some .symmetric
  | ["wrap"] => some .wrap
  | ["maximum"] => some (Pad.stat Pad.maximum)
  | ["minimum"] => some (Pad.stat Pad.minimum)
  | ["mean"] => some (Pad.stat Pad.mean)
  | ["median"] => some (Pad.stat (Pad.median fun a b => decide (a ≤ b)))
  | ["linear_ramp", l, r] => do
    let l ← l.toInt?; let r ← r.toInt?
    some (Pad.linearRamp (l : Rat) (r : Rat))
  | _ => none

def parseTensor (shape data : String) : Option (Tensor Rat) := do
  let sh ← parseNats shape
  let d ← parseInts data
  if d.length = Tensor.numel sh then some ⟨sh, d.map fun (z : Int) => (z : Rat)⟩ else none

def showResult (r : Except Err (Tensor Rat)) : String :=
  match r with
  | .ok t => "ok " ++ showNats t.shape ++ " " ++ showRats t.data
  | .error e => "err:" ++ e.name

def handleDeltas (args : List String) : Option String :=
  match args with
  | [nd, w, ta, cc, pad, cast, axis, shape, data] => do
    let nd ← nd.toNat?
    let w ← w.toNat?
    if w = 0 then none   -- 0/0 filter taps: outside the model (NumPy gives nan)
    let ta ← ta.toInt?
    let cc ← (match cc with | "0" => some false | "1" => some true | _ => none)
    let pad ← parsePad pad
    let cast ← (match cast with
      | "id" => some (id : Rat → Rat) | "trunc" => some truncRat | _ => none)
    let axis ← axis.toInt?
    let x ← parseTensor shape data
    let c : Deltas Rat := { numDeltas := nd, targetAxis := ta, concatenate := cc, contextWindow := w,
                            padMode := pad, cast := cast }
    some (showResult (c.apply x axis))
  | _ => none

def handleStack (args : List String) : Option String :=
  match args with
  | [n, ta, pad, ip, axis, shape, data] => do
    let n ← n.toInt?
    let ta ← ta.toInt?
    let ip ← (match ip with | "0" => some false | "1" => some true | _ => none)
    let pad ← (if pad == "none" then some none else (parsePad pad).map some)
    let axis ← axis.toInt?
    let x ← parseTensor shape data
    match Stack.new n ta pad with
    | .error e => some ("err:" ++ e.name)
    | .ok c => some (showResult (c.apply x axis ip))
  | _ => none

def dispatch (line : String) : String :=
  match tokens line with
  | "deltas" :: args => (handleDeltas args).getD "bad-op"
  | "stack" :: args => (handleStack args).getD "bad-op"
  | _ => "bad-op"

def main : IO Unit := driverMain dispatch

/-
  C06 driver: exact evaluation of the bank index model.

  compact  <tri|fbank> <W> <analytic 0|1> <lo p/q> <hi p/q> <arrays 0|1>
      -> <start> <len> <halfLen> <full> <half> <rebuilt-eq-full 0|1>     | err
         (arrays = 0: `~ ~ ~` instead of the three array fields — index arithmetic only)
         full / half: `bin:idx,…` — which loop index's value each bin of
         get_frequency_response(…, half=False/True) holds (absent = zero)
  periodic <gabor|gammatone> <W> <lo p/q> <hi p/q> <wrap p/q>
      -> <start> <len> <fallback 0|1> <halfLen> <periods-trunc> <periods-full>   | err
  recipe   <complex|real> <W> <start> <len>
      -> `bin:tap,…` (real: a mirrored tap j is printed as -(j+1))      | err
  consts   gabor <l2 0|1> <eps> <std>                   (IEEE bit patterns)
      -> <diff_ang> <wrap_diff_ang>
  consts   gammatone <order> <logPeak> <logAlpha> <eps>
      -> <diff_ang> <wrap_diff_ang>
-/
import PdsVerif.DriverLoop
import PdsVerif.Model.BankIndex
open PdsVerif PdsVerif.Model.BankIndex

def parseFrac (s : String) : Option Frac :=
  match s.splitOn "/" with
  | [p, q] => do
    let p ← p.toInt?
    let q ← q.toInt?
    if q > 0 then some ⟨p, q⟩ else none
  | _ => none

def parseBool (s : String) : Option Bool :=
  if s == "1" then some true else if s == "0" then some false else none

/-- `bin:idx` for every bin that holds a value (`-1` is the model's zero) -/
def showBins (l : List Int) : String :=
  let ps := (l.zipIdx.filter fun p => p.1 ≠ -1).map fun p => s!"{p.2}:{p.1}"
  if ps.isEmpty then "-" else ",".intercalate ps

def compact (k : Compact) (W : Nat) (analytic : Bool) (lo hi : Frac) (arrays : Bool) : Option String := do
  if !arrays then
    let L := leftIdx W lo
    let R := rightIdx W hi
    if !assertsOk W lo hi L R then none
    let n := truncLen k W L R
    if n < 0 then none
    return s!"{L} {n} {halfLen W} ~ ~ ~"
  let (start, tr) ← truncCompact k (-1 : Int) (fun i => i) W lo hi
  let full ← fullCompact (-1 : Int) (fun i => i) W lo hi analytic false
  let half ← fullCompact (-1 : Int) (fun i => i) W lo hi analytic true
  let rb := rebuildCompact (-1 : Int) (fun i => i) W analytic start tr
  let eq := if rb == some full then "1" else "0"
  some s!"{start} {tr.length} {halfLen W} {showBins full} {showBins half} {eq}"

def periodic (gab : Bool) (W : Nat) (lo hi wrap : Frac) : Option String := do
  let fb := if gab then gaborFallback wrap else gammatoneFallback lo hi wrap
  let (start, len) ← truncPeriodicIdx W lo hi fb
  let pt := if gab then gaborPeriodsTrunc lo hi else [0]
  let pf := if gab then gaborPeriodsFull lo hi else gammatonePeriodsFull lo hi
  some s!"{start} {len} {if fb then 1 else 0} {halfLen W} {showInts pt} {showInts pf}"

def recipe (real : Bool) (W start len : Nat) : Option String := do
  let taps : List Int := (List.range len).map fun (j : Nat) => (j : Int)
  let full ← if real then rebuildReal (fun t => -(t + 1)) (-1000000 : Int) W start taps
             else rebuildComplex (-1000000 : Int) W start taps
  let ps := (full.zipIdx.filter fun p => p.1 ≠ -1000000).map fun p => s!"{p.2}:{p.1}"
  some (if ps.isEmpty then "-" else ",".intercalate ps)

def consts (args : List String) : Option String := do
  match args with
  | ["gabor", l2, eps, std] =>
    let l2 ← parseBool l2
    let eps ← floatOfBits? eps
    let std ← floatOfBits? std
    some s!"{floatBits (gaborDiffAng l2 eps std)} {floatBits (gaborWrapDiffAng l2 eps std)}"
  | ["gammatone", n, lp, la, eps] =>
    let n ← floatOfBits? n
    let lp ← floatOfBits? lp
    let la ← floatOfBits? la
    let eps ← floatOfBits? eps
    some s!"{floatBits (gammatoneDiffAng n lp la eps)} {floatBits (gammatoneWrapDiffAng n lp la eps)}"
  | _ => none

def dispatch (line : String) : String :=
  let r : Option String :=
    match tokens line with
    | ["compact", k, w, an, lo, hi, arr] => do
      let k ← if k == "tri" then some Compact.tri else if k == "fbank" then some Compact.fbank else none
      let w ← w.toNat?
      let an ← parseBool an
      let lo ← parseFrac lo
      let hi ← parseFrac hi
      let arr ← parseBool arr
      some ((compact k w an lo hi arr).getD "err")
    | ["periodic", k, w, lo, hi, wr] => do
      let g ← if k == "gabor" then some true else if k == "gammatone" then some false else none
      let w ← w.toNat?
      let lo ← parseFrac lo
      let hi ← parseFrac hi
      let wr ← parseFrac wr
      some ((periodic g w lo hi wr).getD "err")
    | ["recipe", k, w, s, n] => do
      let real ← if k == "real" then some true else if k == "complex" then some false else none
      let w ← w.toNat?
      let s ← s.toNat?
      let n ← n.toNat?
      some ((recipe real w s n).getD "err")
    | "consts" :: args => consts args
    | _ => none
  r.getD "bad-op"

def main : IO Unit := driverMain dispatch

import PdsVerif.DriverLoop
import PdsVerif.Model.FeatDir
open PdsVerif
def dispatch (line : String) : String :=
  match tokens line with
  | "fd" :: args => (Model.FeatDir.handle args).getD "bad-op"
  | _ => "bad-op"
def main : IO Unit := driverMain dispatch

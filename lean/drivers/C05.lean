import PdsVerif.DriverLoop
import PdsVerif.Model.BankLayout
open PdsVerif
def dispatch (line : String) : String :=
  (Model.BankLayout.handle (tokens line)).getD "bad-op"
def main : IO Unit := driverMain dispatch

import PdsVerif.DriverLoop
import PdsVerif.Model.StandardizeDrv
open PdsVerif
def dispatch (line : String) : String :=
  match tokens line with
  | "acc" :: args => (Model.StandardizeDrv.handleAcc args).getD "bad-op"
  | "apply" :: args => (Model.StandardizeDrv.handleApply args).getD "bad-op"
  | _ => "bad-op"
def main : IO Unit := driverMain dispatch

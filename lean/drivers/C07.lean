import PdsVerif.DriverLoop
import PdsVerif.Model.BankTime
open PdsVerif PdsVerif.Model.BankTime PdsVerif.Gen.BankTime

/-
  Line protocol of the C07 model (floats are IEEE bit patterns, booleans 0/1):

  thr                                      -> threshold
  tbl  <tri|fbank|gabor|gammatone> a w     -> is_real is_analytic is_zero_phase impulse_dtype_real
  trisup l m r | fbsup l m r               -> L R
  gabsup l2 std                            -> L R | err:ValueError
  gabimp l2 std ca k W                     -> re im          (res[k] of get_impulse_response(.., W))
  gtoff  mc order alpha                    -> offset
  gtsup  order1 c alpha n offset           -> L R iters fuel | nofuel
  gtimp  c alpha n xi offset L R W idx     -> re im
  triimp analytic l m r k W                -> re im
  gtenv  c alpha n offset t                -> |_h(t)|
  gabenv l2 std t                          -> envelope
-/

def b? (s : String) : Option Bool :=
  if s == "1" then some true else if s == "0" then some false else none

def showB (b : Bool) : String := if b then "1" else "0"

def fin (x : Float) : Bool := x.isFinite

def pairF (p : Float × Float) : String := floatBits p.1 ++ " " ++ floatBits p.2

def pairI (p : Int × Int) : String := toString p.1 ++ " " ++ toString p.2

def bank? : String → Option Bank
  | "tri" => some .tri
  | "fbank" => some .fbank
  | "gabor" => some .gabor
  | "gammatone" => some .gammatone
  | _ => none

/-- number of loop-body executions of the Newton search (for the evidence histogram) -/
def newtonIters (c alpha n offset : Float) : Nat → Float → Nat → Nat
  | 0, _, acc => acc
  | k + 1, right, acc =>
    let h0 := gt_newton_h c alpha n offset right
    if gt_newton_continue h0 = true then newtonIters c alpha n offset k (gt_newton_step c alpha n right h0) (acc + 1)
    else acc

def handle (toks : List String) : Option String := do
  match toks with
  | ["thr"] => some (floatBits (threshold : Float))
  | ["tbl", b, a, w] =>
    let b ← bank? b; let a ← b? a; let w ← b? w
    some (" ".intercalate ([isReal b a w, isAnalytic b a w, isZeroPhase b a w, impulseDtypeReal b a w].map showB))
  | ["trisup", l, m, r] =>
    let l ← floatOfBits? l; let m ← floatOfBits? m; let r ← floatOfBits? r
    if fin (tri_K l m r) then some (pairI (triSupport l m r)) else some "err:nonfinite"
  | ["fbsup", l, m, r] =>
    let l ← floatOfBits? l; let m ← floatOfBits? m; let r ← floatOfBits? r
    if fin (fbank_K l m r) then some (pairI (fbankSupport l m r)) else some "err:nonfinite"
  | ["gabsup", l2, std] =>
    let l2 ← b? l2; let std ← floatOfBits? std
    match gaborSupport l2 std with
    | some p => some (pairI p)
    | none => some "err:ValueError"
  | ["gabimp", l2, std, ca, k, w] =>
    let l2 ← b? l2; let std ← floatOfBits? std; let ca ← floatOfBits? ca
    let k ← k.toNat?; let w ← w.toNat?
    if k < w then some (pairF (gaborImpulse l2 std ca (Float.ofNat k) (Float.ofNat (w - k)))) else none
  | ["gabenv", l2, std, t] =>
    let l2 ← b? l2; let std ← floatOfBits? std; let t ← floatOfBits? t
    some (floatBits (gabor_env l2 std t))
  | ["gtoff", mc, order, alpha] =>
    let mc ← b? mc; let order ← floatOfBits? order; let alpha ← floatOfBits? alpha
    some (floatBits (gt_offset mc order alpha))
  | ["gtsup", o1, c, alpha, n, offset] =>
    let o1 ← b? o1; let c ← floatOfBits? c; let alpha ← floatOfBits? alpha
    let n ← floatOfBits? n; let offset ← floatOfBits? offset
    let fuel := if o1 then 1 else newtonFuel c alpha n
    match gtSupport o1 fuel c alpha n offset with
    | some p =>
      let it := if o1 then 0 else newtonIters c alpha n offset fuel (gt_newton_start alpha n) 0
      some (pairI p ++ " " ++ toString it ++ " " ++ toString fuel)
    | none => some "nofuel"
  | ["gtimp", c, alpha, n, xi, offset, l, r, w, idx] =>
    let c ← floatOfBits? c; let alpha ← floatOfBits? alpha; let n ← floatOfBits? n
    let xi ← floatOfBits? xi; let offset ← floatOfBits? offset
    let l ← l.toInt?; let r ← r.toInt?; let w ← w.toNat?; let idx ← idx.toNat?
    if w = 0 ∨ idx ≥ w then none
    else some (pairF (gtImpulse Float.ofInt c alpha n xi offset (l, r) w idx))
  | ["gtenv", c, alpha, n, offset, t] =>
    let c ← floatOfBits? c; let alpha ← floatOfBits? alpha; let n ← floatOfBits? n
    let offset ← floatOfBits? offset; let t ← floatOfBits? t
    some (floatBits (gt_h_env c alpha n offset t))
  | ["triimp", a, l, m, r, k, w] =>
    let a ← b? a; let l ← floatOfBits? l; let m ← floatOfBits? m; let r ← floatOfBits? r
    let k ← k.toNat?; let w ← w.toNat?
    if w = 0 ∨ k ≥ w then none
    else if k = 0 then some (pairF (triImpulse0 a l m r (Float.ofNat w)))
    else some (pairF (triImpulse a l m r (Float.ofNat k) (Float.ofNat (w - k))))
  | _ => none

def dispatch (line : String) : String := (handle (tokens line)).getD "bad-op"

def main : IO Unit := driverMain dispatch

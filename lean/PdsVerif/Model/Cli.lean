/-
  Executable model of the per-utterance decision procedure and feature pipeline of the two
  command-line tools of `/repo/src/pydrobert/speech/command_line.py`:

  * `compute_feats_from_kaldi_tables`  (the `for utt_id, (buff, samp_freq, duration) in ...` loop)
  * `signals_to_torch_feat_dir`        (map parsing, manifest filtering, `_FeatureProcessorDataset.__getitem__`,
                                        the `for utt_ids, feats in loader` loop)

  The stages themselves (reading a signal, a pre-processor, `compute_full`, a post-processor, the
  float32 cast) are *abstract*: a stored feature matrix is a symbolic `Term` that records which stage
  was applied to what, so order and application count are observable.  `Term.trace` reads a term
  innermost-first.  What the model decides is everything the tools decide themselves: which
  utterances are skipped and why, which channel is picked, in which order the stages are chained,
  whether the post-processors run (not on a zero-frame matrix), under which id a result is stored,
  the per-utterance seed, the exit code, and where an error ends the run.

  Modelled primitives (trusted semantics, exercised by the correspondence runs):
  * Python indexing `a[i]` on an axis of size `n`              = `pyIndex`
  * `dict` insertion order, `dict.pop(key, None)`               = lists without duplicate ids, `popId`
  * `list(reader.items())` loads every table entry before the loop body first runs
  * `DataLoader(dataset, num_workers=0)` yields the items in index order, one at a time
  Not modelled (run-time residue): argparse, config parsing and object construction (C08), the
  table / file codecs, `torch.save`, what the stages compute.
-/
namespace PdsVerif.Model.Cli

/-! ### symbolic feature terms -/

inductive Term where
  | sig (id : Nat)               -- what the reader returns for utterance `id`
  | pick (ch : Nat) (t : Term)   -- `t[ch]` (row `ch`, counted from 0)
  | pre (k : Nat) (t : Term)     -- pre-processor tagged `k` applied to `t`
  | full (t : Term)              -- `computer.compute_full(t)` / `computer(t)`
  | column (t : Term)            -- `t.unsqueeze(1)`
  | post (k : Nat) (t : Term)    -- post-processor tagged `k` applied to `t`
  | cast32 (t : Term)            -- `.astype(np.float32)` / `.float()`
  deriving DecidableEq, Repr, Inhabited

inductive Stage where
  | sig (id : Nat) | pick (ch : Nat) | pre (k : Nat) | full | column | post (k : Nat) | cast32
  deriving DecidableEq, Repr

/-- the stages of a term, innermost (first applied) first -/
def Term.trace : Term → List Stage
  | .sig i => [.sig i]
  | .pick c t => t.trace ++ [.pick c]
  | .pre k t => t.trace ++ [.pre k]
  | .full t => t.trace ++ [.full]
  | .column t => t.trace ++ [.column]
  | .post k t => t.trace ++ [.post k]
  | .cast32 t => t.trace ++ [.cast32]

/-- wire syntax: `c(P2(P1(F(p7(k0(s3))))))` -/
def Term.show : Term → String
  | .sig i => "s" ++ toString i
  | .pick c t => "k" ++ toString c ++ "(" ++ t.show ++ ")"
  | .pre k t => "p" ++ toString k ++ "(" ++ t.show ++ ")"
  | .full t => "F(" ++ t.show ++ ")"
  | .column t => "U(" ++ t.show ++ ")"
  | .post k t => "P" ++ toString k ++ "(" ++ t.show ++ ")"
  | .cast32 t => "c(" ++ t.show ++ ")"

/-- `for p in preprocessors: x = p.apply(x)` -/
def applyPres (ks : List Nat) (t : Term) : Term := ks.foldl (fun t k => .pre k t) t

/-- `for p in postprocessors: feats = p.apply(feats)` -/
def applyPosts (ks : List Nat) (t : Term) : Term := ks.foldl (fun t k => .post k t) t

/-- Python `a[i]` on an axis of size `n`: the row read, or `none` = IndexError -/
def pyIndex (n : Nat) (i : Int) : Option Nat :=
  if 0 ≤ i then (if i < (n : Int) then some i.toNat else none)
  else if 0 ≤ (n : Int) + i then some ((n : Int) + i).toNat else none

/-- rows the STFT computer's `compute_full` yields for `n` samples (frame length `L`, shift `S`; any
frame style): the length of `Model.Stft.full`, see `C09.stftRows_eq_full` -/
def stftRows (L S n : Nat) : Nat := if n < L / 2 + 1 then 0 else (n + S / 2) / S

inductive Err where
  | runtimeError | indexError | ioError | valueError
  deriving DecidableEq, Repr

def Err.name : Err → String
  | .runtimeError => "RuntimeError" | .indexError => "IndexError"
  | .ioError => "OSError" | .valueError => "ValueError"

inductive Outcome where
  | exit (code : Nat)            -- the entry point returned `code`
  | raised (e : Err) (id : Nat)  -- an exception left the entry point while utterance `id` was processed
  deriving DecidableEq, Repr

/-! ### compute-feats-from-kaldi-tables -/

structure KUtt where
  id : Nat
  chans : Nat        -- `buff.shape[0]`
  samples : Nat      -- `buff.shape[1]`
  rate : Nat         -- `samp_freq`
  dur : Nat          -- `duration`, in the unit of `KOpts.minDur`
  readable : Bool    -- the table reader can load the entry
  deriving DecidableEq, Repr

structure KOpts where
  minDur : Nat         -- `--min-duration`
  channel : Int        -- `--channel`
  rate : Nat           -- `computer.bank.sampling_rate`
  frames : Nat → Nat   -- rows `compute_full` yields for a signal of `n` samples
  pres : List Nat      -- `--preprocess`, in list order
  posts : List Nat     -- `--postprocess`, in list order

inductive SkipWhy where
  | tooShort | rateMismatch | channelRange
  deriving DecidableEq, Repr

structure Stored where
  id : Nat
  rows : Nat
  term : Term
  deriving DecidableEq, Repr

inductive KStep where
  | skip (why : SkipWhy)
  | store (s : Stored)
  deriving DecidableEq, Repr

/-- the channel the loop body settles on: `none` = "producing no output" -/
def kaldiCurChan (o : KOpts) (u : KUtt) : Option Int :=
  if o.channel = -1 ∧ u.chans > 1 then some 0       -- warning, "defaulting to zero"
  else if o.channel ≥ (u.chans : Int) then none
  else some o.channel

/-- one iteration of the loop body (the part after `num_utts += 1`) -/
def kaldiStep (o : KOpts) (u : KUtt) : Except Err KStep :=
  if u.dur < o.minDur then .ok (.skip .tooShort)
  else if u.rate ≠ o.rate then .ok (.skip .rateMismatch)
  else
    match kaldiCurChan o u with
    | none => .ok (.skip .channelRange)
    | some cur =>
      match pyIndex u.chans cur with                 -- buff[cur_chan]
      | none => .error .indexError
      | some ch =>
        let buff := applyPres o.pres (.pick ch (.sig u.id))
        let rows := o.frames u.samples
        let feats := Term.full buff
        let feats := if rows ≠ 0 then applyPosts o.posts feats else feats
        .ok (.store { id := u.id, rows := rows, term := .cast32 feats })

structure KState where
  numUtts : Nat
  numSuccess : Nat
  written : List Stored      -- the feature table, in write order
  deriving DecidableEq, Repr

def kaldiLoop (o : KOpts) : List KUtt → KState → KState × Option (Err × Nat)
  | [], st => (st, none)
  | u :: us, st =>
    let st := { st with numUtts := st.numUtts + 1 }
    match kaldiStep o u with
    | .error e => (st, some (e, u.id))
    | .ok (.skip _) => kaldiLoop o us st
    | .ok (.store s) =>
      kaldiLoop o us { st with numSuccess := st.numSuccess + 1, written := st.written ++ [s] }

structure KRun where
  written : List Stored
  outcome : Outcome
  deriving DecidableEq, Repr

def kaldiRun (o : KOpts) (utts : List KUtt) : KRun :=
  -- `list(wav_reader.items())`: every entry is loaded before the first iteration
  match utts.find? (fun u => !u.readable) with
  | some u => { written := [], outcome := .raised .runtimeError u.id }
  | none =>
    match kaldiLoop o utts { numUtts := 0, numSuccess := 0, written := [] } with
    | (st, some (e, i)) => { written := st.written, outcome := .raised e i }
    | (st, none) => { written := st.written, outcome := .exit (if st.numSuccess ≠ 0 then 0 else 1) }

/-! ### signals-to-torch-feat-dir -/

inductive Shape where
  | vec (s : Nat)        -- 1-D signal of `s` samples
  | mat (c s : Nat)      -- `(c, s)`: channels first
  deriving DecidableEq, Repr

def Shape.ndim : Shape → Nat
  | .vec _ => 1 | .mat _ _ => 2
def Shape.dim0 : Shape → Nat
  | .vec s => s | .mat c _ => c
def Shape.samples : Shape → Nat
  | .vec s => s | .mat _ s => s

structure TUtt where
  id : Nat
  shape : Shape
  readable : Bool      -- `read_signal` succeeds
  deriving DecidableEq, Repr

inductive MapLine where
  | blank                  -- empty after `strip()`
  | malformed              -- fewer than two fields
  | entry (u : TUtt)
  deriving DecidableEq, Repr

structure TOpts where
  channel : Int
  computer : Option (Nat → Nat)   -- `none`: no computer_config; `some frames`: rows for `n` samples
  pres : List Nat
  posts : List Nat
  manifest : Option (List Nat)    -- the lines of the `--manifest` file when the run starts
  seed : Nat

structure TStored where
  id : Nat
  rows : Nat
  seed : Nat        -- argument of `torch.manual_seed` while this utterance was computed
  term : Term
  deriving DecidableEq, Repr

/-- the map-file loop: `none` = "return 1" (malformed line or repeated utterance id) -/
def parseMap : List MapLine → List TUtt → Option (List TUtt)
  | [], acc => some acc
  | .blank :: ls, acc => parseMap ls acc
  | .malformed :: _, _ => none
  | .entry u :: ls, acc =>
    if acc.any (fun v => v.id == u.id) then none else parseMap ls (acc ++ [u])

/-- `utt2path.pop(id, None)` -/
def popId : List TUtt → Nat → List TUtt
  | [], _ => []
  | u :: r, id => if u.id = id then r else u :: popId r id

/-- `utt2idx[id]`: position of `id` in the map as parsed (before the manifest is applied) -/
def uttIdx (m : List TUtt) (id : Nat) : Nat := (m.map (·.id)).idxOf id

/-- `_FeatureProcessorDataset.__getitem__` for utterance `u` -/
def torchItem (o : TOpts) (m : List TUtt) (u : TUtt) : Except Err TStored :=
  let seed := o.seed + uttIdx m u.id                      -- torch.manual_seed(seed + utt2idx[utt_id])
  if !u.readable then .error .ioError
  else if o.channel = -1 ∧ u.shape.ndim > 1 ∧ u.shape.dim0 > 1 then .error .valueError
  else if (o.channel ≠ -1 ∧ u.shape.ndim = 1) ∨ o.channel ≥ (u.shape.dim0 : Int) then .error .valueError
  else
    let picked : Option Term :=
      if u.shape.ndim ≠ 1 then (pyIndex u.shape.dim0 o.channel).map fun ch => Term.pick ch (.sig u.id)
      else some (.sig u.id)
    match picked with
    | none => .error .indexError
    | some signal =>
      let signal := applyPres o.pres signal
      let (feats, rows) := match o.computer with
        | none => (Term.column signal, u.shape.samples)
        | some frames => (Term.full signal, frames u.shape.samples)
      let feats := if rows ≠ 0 then applyPosts o.posts feats else feats
      .ok { id := u.id, rows := rows, seed := seed, term := .cast32 feats }

/-- `for utt_ids, feats in loader: torch.save(...)`; an exception in an item ends the run -/
def torchLoop (o : TOpts) (m : List TUtt) : List TUtt → List TStored → List TStored × Option (Err × Nat)
  | [], acc => (acc, none)
  | u :: us, acc =>
    match torchItem o m u with
    | .error e => (acc, some (e, u.id))
    | .ok s => torchLoop o m us (acc ++ [s])

structure TRun where
  written : List TStored        -- files written by this run, in order
  manifestOut : List Nat        -- lines this run appended to the manifest
  outcome : Outcome
  deriving DecidableEq, Repr

/-- what is left to do: the parsed map minus the manifest lines -/
def torchTodo (o : TOpts) (m : List TUtt) : List TUtt :=
  match o.manifest with
  | none => m
  | some man => man.foldl popId m

def torchRun (o : TOpts) (lines : List MapLine) : TRun :=
  match parseMap lines [] with
  | none => { written := [], manifestOut := [], outcome := .exit 1 }
  | some m =>
    match torchLoop o m (torchTodo o m) [] with
    | (w, e) =>
      { written := w
        manifestOut := if o.manifest.isSome then w.map (·.id) else []
        outcome := match e with
          | none => .exit 0
          | some (e, i) => .raised e i }

end PdsVerif.Model.Cli

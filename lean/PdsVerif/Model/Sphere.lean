/-
  Executable model of the uncompressed NIST SPHERE reader
  (`/repo/src/pydrobert/speech/_sphere.py`: `read_header`, `copy_samples`, `sphere_read_signal`),
  written line by line after the (repaired) source.  Core Lean only.

  * bytes are `List Nat` (every element `< 256` for a real file; where that matters it is a hypothesis);
  * Python values of header fields are `Val` (`int` / `str`), exceptions are `Err`;
  * every literal of the source comes from `PdsVerif.Gen.Sphere` (regenerated on every check);
  * `copyLoop` is the `while sampsdone < sampcount` loop, by structural recursion over the
    sequence of values returned by the successive `file_.read(buf_size)` calls; the read size is a
    parameter (`BUF_SIZE` in the driver, small values in examples);
  * what the model does *not* describe answers `Err.unmodelled` (shorten data, non-ASCII header
    text, non-integer / non-positive counts, exotic dtypes): never equated with a real outcome.

  Spec side: `G711.ulawExpand` / `G711.alawExpand` (ITU-T G.711 from sign, segment, mantissa) and
  the writer `encode`.
-/
import PdsVerif.Generated.SphereConsts

namespace PdsVerif.Model.Sphere
open PdsVerif.Gen.Sphere

abbrev Bytes := List Nat

/-- which of the two `IOError`s of `sphere_read_signal` -/
inductive Stage | header | data
  deriving DecidableEq, Repr

inductive Err
  | io (s : Stage)          -- IOError("... header could not be read" / "... data could not be read ...")
  | value                   -- ValueError escaping from `int(...)`, tuple unpacking
  | type                    -- TypeError (`len(int)`, `str & int`)
  | attribute               -- AttributeError (`int.startswith`)
  | index                   -- IndexError (table lookup out of range)
  | unmodelled (why : String)
  deriving DecidableEq, Repr

/-- a Python value held by a header field -/
inductive Val
  | int (i : Int)
  | str (s : Bytes)
  deriving DecidableEq, Repr

instance {ε α : Type} [DecidableEq ε] [DecidableEq α] : DecidableEq (Except ε α) := fun a b =>
  match a, b with
  | .ok x, .ok y => if h : x = y then isTrue (by rw [h]) else isFalse (fun e => h (by injection e))
  | .error x, .error y => if h : x = y then isTrue (by rw [h]) else isFalse (fun e => h (by injection e))
  | .ok _, .error _ => isFalse (fun e => by cases e)
  | .error _, .ok _ => isFalse (fun e => by cases e)

/-- `not v` -/
def Val.falsy : Val → Bool
  | .int i => i == 0
  | .str s => s.isEmpty

def falsy : Option Val → Bool
  | none => true
  | some v => v.falsy

/-! ## text primitives (bytes.split, str.split, int) -/

/-- split at every element satisfying `p` (`bytes.split(sep)`: never returns `[]`) -/
def splitBy (p : Nat → Bool) : Bytes → List Bytes
  | [] => [[]]
  | b :: t =>
    if p b then [] :: splitBy p t
    else match splitBy p t with
      | [] => [[b]]
      | h :: r => (b :: h) :: r

def splitOn (sep : Nat) (l : Bytes) : List Bytes := splitBy (· == sep) l

/-- `str.isspace` on ASCII: `\t \n \v \f \r`, `\x1c..\x1f`, space -/
def isStrWs (b : Nat) : Bool := (9 ≤ b && b ≤ 13) || (28 ≤ b && b ≤ 32)

/-- `Py_ISSPACE` (what `int(bytes)` strips): `\t \n \v \f \r`, space -/
def isBytesWs (b : Nat) : Bool := (9 ≤ b && b ≤ 13) || b == 32

/-- `str.split()` -/
def words (l : Bytes) : List Bytes := (splitBy isStrWs l).filter (fun w => !w.isEmpty)

def isDigit (b : Nat) : Bool := 48 ≤ b && b ≤ 57

/-- digits with single underscores strictly between digits: `acc`, "previous char was a digit" -/
def intBody : Nat → Bool → Bytes → Option Nat
  | acc, ld, [] => if ld then some acc else none
  | acc, ld, b :: t =>
    if isDigit b then intBody (acc * 10 + (b - 48)) true t
    else if b == 95 && ld then intBody acc false t
    else none

/-- CPython refuses decimal strings of more than 4300 digits (ValueError as well) -/
def maxStrDigits : Nat := 4300

/-- `int(s)` for a string without surrounding white space: `[+-]? digit (_? digit)*` -/
def pyIntTok (s : Bytes) : Option Int :=
  if (s.filter isDigit).length > maxStrDigits then none else
  match s with
  | 43 :: t => (intBody 0 false t).map Int.ofNat
  | 45 :: t => (intBody 0 false t).map (fun n => - Int.ofNat n)
  | _ => (intBody 0 false s).map Int.ofNat

def stripLeft (p : Nat → Bool) : Bytes → Bytes
  | [] => []
  | b :: t => if p b then stripLeft p t else b :: t

def strip (p : Nat → Bool) (l : Bytes) : Bytes :=
  (stripLeft p (stripLeft p l).reverse).reverse

/-- `int(b)` for `bytes` -/
def pyIntBytes (s : Bytes) : Option Int := pyIntTok (strip isBytesWs s)

def intercalate (sep : Bytes) : List Bytes → Bytes
  | [] => []
  | [w] => w
  | w :: ws => w ++ sep ++ intercalate sep ws

/-! ## `read_header` -/

structure Fields where
  samptype : Option Bytes := none
  sampsize : Option Val := none
  sampcount : Option Val := none
  samprate : Option Val := none
  chancount : Option Val := none
  inporder : Option Val := none
  deriving DecidableEq, Repr

/-- `field.decode().split()`, `key, fmt = field[:2]`, `value = " ".join(field[2:])`, `int(value)` if `fmt == "-i"` -/
def parseField (line : Bytes) : Except Err (Bytes × Val) :=
  if line.any (· ≥ 128) then .error (.unmodelled "non-ascii header text") else
  match words line with
  | key :: fmt :: rest =>
    let value := intercalate [32] rest
    if fmt = INT_FMT then
      match pyIntTok value with
      | some i => .ok (key, .int i)
      | none => .error .value
    else .ok (key, .str value)
  | _ => .error .value

/-- `for prefix in {...}: if value.startswith(prefix): samptype = prefix` -/
def applyCoding (value : Bytes) (cur : Option Bytes) : Option Bytes :=
  CODING_PREFIXES.foldl (fun acc p => if p.isPrefixOf value then some p else acc) cur

/-- the `if key == ... elif ...` chain -/
def setField (f : Fields) (key : Bytes) (v : Val) : Except Err Fields :=
  if key = KEY_chancount then .ok { f with chancount := some v }
  else if key = KEY_sampcount then .ok { f with sampcount := some v }
  else if key = KEY_samprate then .ok { f with samprate := some v }
  else if key = KEY_sampsize then .ok { f with sampsize := some v }
  else if key = KEY_inporder then .ok { f with inporder := some v }
  else if key = KEY_samptype then
    match v with
    | .int _ => .error .attribute
    | .str s => .ok { f with samptype := applyCoding s f.samptype }
  else .ok f

/-- the `for field in ...` loop; the flag says whether it left through `break` at `end_head` -/
def scanFields : List Bytes → Fields → Except Err (Fields × Bool)
  | [], f => .ok (f, false)
  | l :: ls, f =>
    if l = END_HEAD then .ok (f, true) else
    match parseField l with
    | .error e => .error e
    | .ok (k, v) =>
      match setField f k v with
      | .error e => .error e
      | .ok f' => scanFields ls f'

structure Header where
  samptype : Bytes
  sampsize : Val
  sampcount : Val
  samprate : Val
  chancount : Val
  inporder : Option Val
  deriving DecidableEq, Repr

/-- the checks after the loop -/
def validate (f : Fields) : Except Err Header :=
  -- if not samptype and (sampsize == 2 or (inporder and len(inporder) == 2)): samptype = "pcm"
  let st : Except Err (Option Bytes) :=
    match f.samptype with
    | some s => if s.isEmpty then .ok none else .ok (some s)
    | none =>
      if f.sampsize = some (.int PCM_DEFAULT_SIZE) then .ok (some PCM_DEFAULT_NAME)
      else match f.inporder with
        | none => .ok none
        | some (.int i) => if i == 0 then .ok none else .error .type      -- len(int)
        | some (.str s) =>
          if s.isEmpty then .ok none
          else if s.length = PCM_DEFAULT_ORDER_LEN then .ok (some PCM_DEFAULT_NAME) else .ok none
  match st with
  | .error e => .error e
  | .ok none => .error (.io .header)
  | .ok (some samptype) =>
    match f.sampcount, f.samprate, f.chancount with
    | some sc, some sr, some cc =>
      if sc.falsy || sr.falsy || cc.falsy || (samptype = PCM_NAME && falsy f.inporder) then .error (.io .header)
      else match f.sampsize with
        | none => .error .type                               -- `samptype & 3` on a str
        | some ss =>
          if ss.falsy then .error .type
          else .ok { samptype := samptype, sampsize := ss, sampcount := sc, samprate := sr,
                     chancount := cc, inporder := f.inporder }
    | _, _, _ => .error (.io .header)

/-- `file_.read(n)`: negative `n` reads everything -/
def readN (n : Int) (s : Bytes) : Bytes × Bytes :=
  if n < 0 then (s, []) else (s.take n.toNat, s.drop n.toNat)

/-- reads larger than this are not modelled (OverflowError / MemoryError territory) -/
def readCap : Int := 2 ^ 26

/-- `read_header(file_, error)`; returns the header and what is left of the stream -/
def readHeader (file : Bytes) : Except Err (Header × Bytes) :=
  let (inpbuf, rest) := readN HDR_READ file
  if inpbuf.length ≠ HDR_LEN ∨ inpbuf.take MAGIC_LEN ≠ MAGIC then .error (.io .header) else
  match (splitOn LINE_SEP inpbuf)[SIZE_LINE_INDEX]? with
  | none => .error (.io .header)                     -- IndexError -> error
  | some sizeLine =>
    match pyIntBytes sizeLine with
    | none => .error (.io .header)                   -- ValueError -> error
    | some hdrsize =>
      if hdrsize < HDR_MIN then .error (.io .header) else
      let want : Int := hdrsize - inpbuf.length
      if want > readCap then .error (.unmodelled "huge header size") else
      let (more, rest') := readN want rest
      let hdr := inpbuf ++ more
      match scanFields ((splitOn LINE_SEP hdr).drop FIELDS_FROM) {} with
      | .error e => .error e
      | .ok (_, false) => .error (.io .header)       -- `field != b"end_head"`
      | .ok (f, true) =>
        match validate f with
        | .error e => .error e
        | .ok h => .ok (h, rest')

/-! ## `copy_samples` -/

/-- output item types the model knows -/
inductive DT | u8 | i8 | u16 | i16 | u32 | i32 | i64 | f64
  deriving DecidableEq, Repr

def DT.itemsize : DT → Nat
  | .u8 | .i8 => 1
  | .u16 | .i16 => 2
  | .u32 | .i32 => 4
  | .i64 | .f64 => 8

def wrapU (bits : Nat) (x : Int) : Int := x % (2 : Int) ^ bits
def wrapS (bits : Nat) (x : Int) : Int := (x + (2 : Int) ^ (bits - 1)) % (2 : Int) ^ bits - (2 : Int) ^ (bits - 1)

/-- NumPy assignment into an array of this type (C cast: modular); every value met here is exact in f64 -/
def DT.cast : DT → Int → Int
  | .u8, x => wrapU 8 x
  | .i8, x => wrapS 8 x
  | .u16, x => wrapU 16 x
  | .i16, x => wrapS 16 x
  | .u32, x => wrapU 32 x
  | .i32, x => wrapS 32 x
  | .i64, x => wrapS 64 x
  | .f64, x => x

def DT.ofKind : Nat × Bool → Option DT
  | (1, false) => some .u8
  | (1, true) => some .i8
  | (2, false) => some .u16
  | (2, true) => some .i16
  | (4, false) => some .u32
  | (4, true) => some .i32
  | (8, true) => some .i64
  | _ => none

def unsignedLE : Bytes → Nat
  | [] => 0
  | b :: t => b + 256 * unsignedLE t

/-- one item of `np.frombuffer(..., dtype=in_type)` -/
def decItem (nbytes : Nat) (signed be : Bool) (bs : Bytes) : Int :=
  let u := unsignedLE (if be then bs.reverse else bs)
  if signed && u ≥ 2 ^ (8 * nbytes - 1) then (u : Int) - (2 : Int) ^ (8 * nbytes) else (u : Int)

/-- `np.frombuffer(buf, dtype, count)`: item after item -/
def unpack (k : Nat) (dec : Bytes → Int) : Nat → Bytes → List Int
  | 0, _ => []
  | c + 1, buf => dec (buf.take k) :: unpack k dec c (buf.drop k)

/-- `TABLE[x]` with NumPy's index rules -/
def lookup (table : List Int) (x : Int) : Except Err Int :=
  let n : Int := table.length
  let i : Int := if x < 0 then x + n else x
  if 0 ≤ i ∧ i < n then
    match table[i.toNat]? with
    | some v => .ok v
    | none => .error .index
  else .error .index

def mapE {α β : Type} (f : α → Except Err β) : List α → Except Err (List β)
  | [] => .ok []
  | a :: t =>
    match f a with
    | .error e => .error e
    | .ok b =>
      match mapE f t with
      | .error e => .error e
      | .ok bs => .ok (b :: bs)

def ALAW : Bytes := [97, 108, 97, 119]
def ULAW : Bytes := [117, 108, 97, 119]

/-- everything the loop needs, fixed before it starts -/
structure Plan where
  frame : Nat                   -- chancount * sampsize
  chans : Nat
  count : Nat                   -- sampcount
  itemBytes : Nat
  dec : Bytes → Int
  item : Int → Except Err Int   -- table lookup (if converting) then cast into `data`
  dtype : DT

structure St where
  left : Bytes := []            -- `leftover`
  done : Nat := 0               -- `sampsdone`
  out : List Int := []          -- `data[: sampsdone * chancount]`

/-- `while sampsdone < sampcount:` over the values returned by successive `file_.read(buf_size)` -/
def copyLoop (p : Plan) : List Bytes → St → Except Err St
  | [], st => .ok st                                    -- read returned b"" (or the loop condition failed)
  | r :: rs, st =>
    if st.done < p.count then
      if r.isEmpty then .ok st else                     -- `if not nb: break`
      let buf := st.left ++ r
      if st.done = 0 ∧ buf.take SHN_MAGIC_LEN = SHN_MAGIC then .error (.unmodelled "shorten") else
      let ns0 := buf.length / p.frame
      let ns := if st.done + ns0 > p.count then p.count - st.done else ns0
      let nb := ns * p.frame
      match mapE p.item (unpack p.itemBytes p.dec (ns * p.chans) buf) with
      | .error e => .error e
      | .ok xs => copyLoop p rs { left := buf.drop nb, done := st.done + ns, out := st.out ++ xs }
    else .ok st

/-- the reads of a regular file / `BytesIO`: `n` bytes at a time until nothing is left -/
def chunks (n : Nat) : Nat → Bytes → List Bytes
  | 0, _ => []
  | fuel + 1, d => if d.isEmpty ∨ n = 0 then [] else d.take n :: chunks n fuel (d.drop n)

def reads (n : Nat) (d : Bytes) : List Bytes := chunks n d.length d

structure Result where
  dtype : DT
  shape : List Nat
  samples : List Int            -- C order
  warn : Bool                   -- "{} samples read, {} samples expected"
  deriving DecidableEq, Repr

def shapeOf (chans n : Nat) : List Nat := if chans > 1 then [n, chans] else [n]

/-- the part of `copy_samples` before the loop -/
def mkPlan (h : Header) (dtype : Option DT) : Except Err Plan :=
  match h.sampsize with
  | .str _ => .error (.io .data)
  | .int ss =>
    match IN_TYPES.find? (fun t => t.1 == ss) with
    | none => .error (.io .data)
    | some (_, kind) =>
      match DT.ofKind kind with
      | none => .error (.unmodelled "input type")
      | some inDT =>
        let g711 : Bool := h.samptype = ALAW || h.samptype = ULAW
        match (match dtype with
               | some d => some d
               | none => if g711 then DT.ofKind G711_DEFAULT_DTYPE else some inDT) with
        | none => .error (.unmodelled "default dtype")
        | some dt =>
          let convert : Bool := decide (ss < (dt.itemsize : Int)) && g711
          match h.sampcount, h.chancount with
          | .int sc, .int cc =>
            if sc ≤ 0 ∨ cc ≤ 0 ∨ ss ≤ 0 then .error (.unmodelled "non-positive count") else
            let be : Bool := h.inporder = some (.str BE_FLAG)
            let table := if h.samptype = ALAW then ALAW2PCM else ULAW2PCM
            .ok { frame := cc.toNat * ss.toNat, chans := cc.toNat, count := sc.toNat,
                  itemBytes := kind.1,
                  dec := decItem kind.1 kind.2 be,
                  item := fun x => if convert then (lookup table x).map dt.cast else .ok (dt.cast x),
                  dtype := dt }
          | _, _ => .error (.unmodelled "non-integer count")

/-- `copy_samples` given the sequence of reads -/
def copySamplesReads (h : Header) (dtype : Option DT) (rs : List Bytes) : Except Err Result :=
  match mkPlan h dtype with
  | .error e => .error e
  | .ok p =>
    match copyLoop p rs {} with
    | .error e => .error e
    | .ok st =>
      .ok { dtype := p.dtype, shape := shapeOf p.chans st.done, samples := st.out,
            warn := st.done != p.count }

/-- `copy_samples(file_, header, dtype, error)` on a stream holding `data`, reading `readSize` bytes at a time -/
def copySamples (readSize : Nat) (h : Header) (dtype : Option DT) (data : Bytes) : Except Err Result :=
  copySamplesReads h dtype (reads readSize data)

/-- `sphere_read_signal` on the bytes of a file -/
def decode (readSize : Nat) (dtype : Option DT) (file : Bytes) : Except Err Result :=
  match readHeader file with
  | .error e => .error e
  | .ok (h, rest) => copySamples readSize h dtype rest

/-! ## ITU-T G.711, from the standard's definition

  A character signal has a polarity bit (1 = positive), a 3-bit segment and a 4-bit mantissa.
  mu-law transmits all bits inverted, A-law the even bits inverted (XOR 0x55).  Decoder output in the
  uniform code: mu-law `(2m+33)·2^s − 33` (14-bit), A-law `2m+1` in segment 0 and `(2m+33)·2^(s−1)`
  above (13-bit); scaled to 16-bit PCM by 4 and 8.
-/
namespace G711

def polarityPositive (c : Nat) : Bool := c / 128 % 2 == 1
def segment (c : Nat) : Nat := c / 16 % 8
def mantissa (c : Nat) : Nat := c % 16

def ulawExpand (code : Nat) : Int :=
  let c := 255 - code % 256                       -- all bits inverted; now bit 7 set = negative
  let mag : Nat := (2 * mantissa c + 33) * 2 ^ segment c - 33
  let v : Int := 4 * (mag : Int)
  if polarityPositive c then -v else v

def alawExpand (code : Nat) : Int :=
  let c := Nat.xor (code % 256) 85                -- even bits inverted
  let mag : Nat := if segment c = 0 then 2 * mantissa c + 1 else (2 * mantissa c + 33) * 2 ^ (segment c - 1)
  let v : Int := 8 * (mag : Int)
  if polarityPositive c then v else -v

end G711

/-! ## spec-side writer -/

inductive Coding | pcm | ulaw | alaw
  deriving DecidableEq, Repr

/-- decimal digits (fuel `n` is always enough) -/
def decFuel : Nat → Nat → Bytes
  | 0, n => [48 + n % 10]
  | f + 1, n => if n < 10 then [48 + n] else decFuel f (n / 10) ++ [48 + n % 10]

def dec (n : Nat) : Bytes := decFuel n n

def padLeft (w : Nat) (l : Bytes) : Bytes := List.replicate (w - l.length) 32 ++ l

/-- one item, `k` bytes little-endian two's complement -/
def encLE : Nat → Int → Bytes
  | 0, _ => []
  | k + 1, x => (x % 256).toNat :: encLE k (x / 256)

def encItem (k : Nat) (be : Bool) (x : Int) : Bytes :=
  if be then (encLE k x).reverse else encLE k x

structure Spec where
  coding : Coding
  be : Bool                -- 16-bit PCM byte order ("10" big-endian, "01" little-endian)
  chans : Nat
  rate : Nat
  hdrSize : Nat
  deriving Repr

def Spec.nbytes (s : Spec) : Nat := match s.coding with | .pcm => 2 | _ => 1
def Spec.orderText (s : Spec) : Bytes :=
  match s.coding with
  | .pcm => if s.be then [49, 48] else [48, 49]      -- "10" / "01"
  | _ => [49]                                        -- "1"
def Spec.codingText (s : Spec) : Bytes :=
  match s.coding with
  | .pcm => [112, 99, 109]                           -- "pcm"
  | .ulaw => [117, 108, 97, 119]                     -- "ulaw"
  | .alaw => [97, 108, 97, 119]                      -- "alaw"

def kNIST : Bytes := [78, 73, 83, 84, 95, 49, 65]                                                         -- NIST_1A
def kChannelCount : Bytes := [99, 104, 97, 110, 110, 101, 108, 95, 99, 111, 117, 110, 116]              -- channel_count
def kSampleCount : Bytes := [115, 97, 109, 112, 108, 101, 95, 99, 111, 117, 110, 116]                   -- sample_count
def kSampleRate : Bytes := [115, 97, 109, 112, 108, 101, 95, 114, 97, 116, 101]                         -- sample_rate
def kSampleNBytes : Bytes := [115, 97, 109, 112, 108, 101, 95, 110, 95, 98, 121, 116, 101, 115]         -- sample_n_bytes
def kSampleByteFormat : Bytes :=
  [115, 97, 109, 112, 108, 101, 95, 98, 121, 116, 101, 95, 102, 111, 114, 109, 97, 116]                  -- sample_byte_format
def kSampleCoding : Bytes := [115, 97, 109, 112, 108, 101, 95, 99, 111, 100, 105, 110, 103]             -- sample_coding
def kEndHead : Bytes := [101, 110, 100, 95, 104, 101, 97, 100]                                          -- end_head

/-- `<key> -i <n>` -/
def intLine (key : Bytes) (n : Nat) : Bytes := key ++ [32, 45, 105, 32] ++ dec n
/-- `<key> -s<len> <text>` -/
def strLine (key : Bytes) (v : Bytes) : Bytes := key ++ [32, 45, 115] ++ dec v.length ++ [32] ++ v

/-- the header text up to and including the line `end_head` (the rest of the header is padding) -/
def headerText (s : Spec) (count : Nat) : Bytes :=
  kNIST ++ [10] ++ padLeft 7 (dec s.hdrSize) ++ [10]
    ++ intLine kChannelCount s.chans ++ [10]
    ++ intLine kSampleCount count ++ [10]
    ++ intLine kSampleRate s.rate ++ [10]
    ++ intLine kSampleNBytes s.nbytes ++ [10]
    ++ strLine kSampleByteFormat s.orderText ++ [10]
    ++ strLine kSampleCoding s.codingText ++ [10]
    ++ kEndHead ++ [10]

/-- interleaved items -> data section -/
def payload (s : Spec) (items : List Int) : Bytes :=
  items.flatMap (encItem s.nbytes s.be)

/-- a SPHERE file promising `count` samples per channel; `pad` fills the header up to `hdrSize` -/
def encode (s : Spec) (count : Nat) (pad : Bytes) (items : List Int) : Bytes :=
  headerText s count ++ pad ++ payload s items

/-- "starts with a NIST_1A header of at least 1024 bytes": 1024 bytes are there, they begin with the magic,
    and their second line is an integer (as Python's `int` reads one) that is at least 1024 -/
def StartsWithNistHeader (file : Bytes) : Prop :=
  1024 ≤ file.length ∧ file.take 7 = kNIST ∧
    ∃ line n, (splitOn 10 (file.take 1024))[1]? = some line ∧ pyIntBytes line = some n ∧ 1024 ≤ n

end PdsVerif.Model.Sphere

/-
  Executable model of the half-spectrum *segment walk* in
  `ShortTimeFourierTransformFrameComputer._compute_frame` (and its PyTorch port
  `pytorch_stft_frame_computer`): the `while consumed < trunc_len` loop that pairs every tap of a
  truncated frequency response with a bin of the one-sided spectrum `rfft(frame, D)`.

  The loop alternates between a *direct* pass over bins `0 .. half_len-1` and a *mirrored*
  (conjugated) pass that stands for bins `half_len .. D-1` of the full spectrum, read backwards
  from the half spectrum (a real signal has `X[D-b] = conj X[b]`).

  Output: for each tap, in the order the code multiplies them, the triple
  `(index into the half spectrum, conjugated?, tap index)`.
-/
namespace PdsVerif.Model.Walk

/-- `len(np.fft.rfft(frame, n=D))` -/
def halfLen (D : Nat) : Nat := D / 2 + 1

/-- length of the mirrored pass, `half_len - 2 + dft_size % 2` -/
def mirLen (D : Nat) : Nat := halfLen D + D % 2 - 2

structure Hit where
  idx : Nat      -- index into the half spectrum
  conj : Bool
  tap : Nat
  deriving Repr, DecidableEq

/-- one `while` iteration.  State: `(start_idx, consumed, conjugate)`. Returns the new state and the
hits of this segment. `par` is the parity used by the code (`dft_size % 2`). -/
def iter (D len : Nat) (start consumed : Nat) (conj : Bool) : (Nat × Nat × Bool) × List Hit :=
  let half := halfLen D
  if conj then
    -- seg_len = max(0, min(start + trunc_len - consumed, half_len - 2 + par) - start)
    let seg := min (start + len - consumed) (mirLen D) - start
    -- half_spect[(-2 + par - start) : (-2 + par - start - seg) : -1]  (negative = from the end)
    let hits := (List.range seg).map fun t =>
      ({ idx := half + D % 2 - 2 - start - t, conj := true, tap := consumed + t } : Hit)
    -- start_idx -= half_len - 2 + par ; start_idx = max(0, start_idx)
    ((start - mirLen D, consumed + seg, false), hits)
  else
    let seg := min (start + len - consumed) half - start
    let hits := (List.range seg).map fun t =>
      ({ idx := start + t, conj := false, tap := consumed + t } : Hit)
    ((start - half, consumed + seg, true), hits)

/-- the loop, with fuel -/
def loop (D len : Nat) : Nat → Nat → Nat → Bool → List Hit
  | 0, _, _, _ => []
  | fuel + 1, start, consumed, conj =>
    if consumed < len then
      let r := iter D len start consumed conj
      r.2 ++ loop D len fuel r.1.1 r.1.2.1 r.1.2.2
    else []

/-- fuel that is proved sufficient in `Props/C02.lean` -/
def fuelFor (start len : Nat) : Nat := 2 * (start + len) + 2

def run (D start len : Nat) : List Hit :=
  loop D len (fuelFor start len) start 0 false

/-- specification: tap `j` meets full-spectrum bin `(start + j) mod D`, read from the half
spectrum directly when that bin is `< half_len`, else conjugated from bin `D - b`. -/
def spec (D start len : Nat) : List Hit :=
  (List.range len).map fun j =>
    let b := (start + j) % D
    if b < halfLen D then { idx := b, conj := false, tap := j }
    else { idx := D - b, conj := true, tap := j }

/-- the PyTorch port after the repair: mirrored slice `[seg_end - seg : seg_end]`, flipped, with
`seg_end = half_len - 1 + par - start` -/
def iterTorch (D len : Nat) (start consumed : Nat) (conj : Bool) : (Nat × Nat × Bool) × List Hit :=
  let half := halfLen D
  if conj then
    let seg := min (start + len - consumed) (mirLen D) - start
    let segEnd := half + D % 2 - 1 - start
    -- spect[seg_end - seg : seg_end].flip : element t of the flipped slice is index seg_end-1-t
    let hits := (List.range seg).map fun t =>
      ({ idx := segEnd - 1 - t, conj := true, tap := consumed + t } : Hit)
    ((start - mirLen D, consumed + seg, false), hits)
  else
    let seg := min (start + len - consumed) half - start
    let hits := (List.range seg).map fun t =>
      ({ idx := start + t, conj := false, tap := consumed + t } : Hit)
    ((start - half, consumed + seg, true), hits)

def loopTorch (D len : Nat) : Nat → Nat → Nat → Bool → List Hit
  | 0, _, _, _ => []
  | fuel + 1, start, consumed, conj =>
    if consumed < len then
      let r := iterTorch D len start consumed conj
      r.2 ++ loopTorch D len fuel r.1.1 r.1.2.1 r.1.2.2
    else []

def runTorch (D start len : Nat) : List Hit :=
  loopTorch D len (fuelFor start len) start 0 false

end PdsVerif.Model.Walk

/-
  Lower-level model of the streaming STFT state, with the *physical* ring buffer:
  `_buf` is a fixed array of `frame_length` cells (`np.empty` — arbitrary initial content, and
  stale content after `finalize`), of which only the last `_hist_len` are meaningful.

  This is the model the driver executes (so it is what the correspondence runs tie to the code);
  `Lemmas/StftRaw.lean` proves it refines `Model/Stft.lean` through `Raw.abs`, i.e. that stale
  cells, and nothing else of an earlier utterance, are never read (C04).
-/
import PdsVerif.Model.Stft
namespace PdsVerif.Model.StftRaw
open PdsVerif.Model.Stft

structure Raw (α : Type) where
  cells : List α      -- `_buf`, always `frame_length` cells
  hist : Nat          -- `_hist_len`
  rem : Nat           -- `_buf_len`
  first : Bool        -- `_first_frame`
  started : Bool      -- `_started`
  deriving Repr

/-- what the abstract model sees: the meaningful cells only -/
def Raw.abs {α} (r : Raw α) : St α :=
  { buf := takeLast r.cells r.hist, rem := r.rem, first := r.first, started := r.started }

/-- a freshly constructed computer whose buffer holds arbitrary `junk` -/
def fresh {α} (junk : List α) : Raw α :=
  { cells := junk, hist := 0, rem := 0, first := true, started := false }

/-- frame `k` as the loop body builds it: buffer tail then chunk head, or a chunk slice -/
def frameOf {α} (cells ch : List α) (rem S flen k : Nat) : List α :=
  let fsi := k * S
  if fsi < rem then takeLast cells (rem - fsi) ++ ch.take (flen - rem + fsi)
  else (ch.drop (fsi - rem)).take flen

/-- slide the history: `_buf[:L-n] = _buf[n:]; _buf[L-n:] = chunk` (or the chunk's tail) -/
def slide {α} (L : Nat) (cells ch : List α) : List α :=
  if ch.length ≥ L then ch.drop (ch.length - L)
  else if ch.length > 0 then cells.drop ch.length ++ ch
  else cells

def chunk {α} [Inhabited α] (c : Cfg) (r : Raw α) (ch : List α) : Raw α × List (List α) :=
  let bufLen := r.rem
  let total := ch.length + bufLen
  let ncf := c.centered && r.first
  let flen := if ncf then flen0 c else c.L
  let nf0 := if total < flen then 0 else (total - flen) / c.S + 1
  let nf := if ncf && total < c.L / 2 + 1 then 0 else nf0
  if ncf && nf ≥ 1 then
    let frame0 := frameOf r.cells ch bufLen c.S flen 0
    let ch' := ch.drop (flen - bufLen)
    let cells' := symPad frame0 (c.L - flen) 0        -- `_buf[:] = np.pad(frame, (pad_left, 0), 'symmetric')`
    let frames := cells' :: (List.range (nf - 1)).map fun k => frameOf cells' ch' c.L c.S c.L (k + 1)
    let total' := ch'.length + c.L
    ({ cells := slide c.L cells' ch', hist := min c.L (c.L + ch'.length), rem := total' - nf * c.S,
       first := false, started := true }, frames)
  else
    let frames := (List.range nf).map fun k => frameOf r.cells ch bufLen c.S c.L k
    ({ cells := slide c.L r.cells ch, hist := min c.L (r.hist + ch.length), rem := total - nf * c.S,
       first := r.first && nf == 0, started := true }, frames)

def finalize {α} [Inhabited α] (c : Cfg) (r : Raw α) : Raw α × List (List α) :=
  let bufLen := r.rem
  let pl0 := padL c
  let num : Int := (bufLen : Int) + c.S / 2 - (if r.first then 0 else pl0)
  let pl := if r.first then pl0 else 0
  let nf0 := (num / c.S).toNat
  let nf := if r.first && bufLen < c.L / 2 + 1 then 0 else nf0
  let frames :=
    if nf ≥ 1 then
      let pr := ((((nf : Int) - 1) * c.S + c.L - bufLen) - pl).toNat
      -- np.pad(self._buf[L - hist:], (pl, pr), 'symmetric')[hist - buf_len:]
      let padded := (symPad (r.cells.drop (c.L - r.hist)) pl pr).drop (r.hist - bufLen)
      cut c padded nf
    else []
  ({ cells := r.cells, hist := 0, rem := 0, first := true, started := false }, frames)

def streamFrom {α} [Inhabited α] (c : Cfg) (r : Raw α) : List (List α) → Raw α × List (List α)
  | [] => finalize c r
  | ch :: rest =>
    let a := chunk c r ch
    let b := streamFrom c a.1 rest
    (b.1, a.2 ++ b.2)

/-- one public call -/
def step {α} [Inhabited α] (c : Cfg) (r : Raw α) : Op α → Raw α × Out α
  | .chunk ch => let a := chunk c r ch; (a.1, .frames a.2)
  | .finalize => let a := finalize c r; (a.1, .frames a.2)
  | .full x => if r.started then (r, .valueError) else (r, .frames (full c x))
  | .fbf x k =>
    if r.started then (r, .valueError)
    else let a := streamFrom c r (splitEvery k x); (a.1, .frames a.2)

def run {α} [Inhabited α] (c : Cfg) (r : Raw α) : List (Op α) → Raw α × List (Out α)
  | [] => (r, [])
  | op :: ops =>
    let a := step c r op
    let b := run c a.1 ops
    (b.1, a.2 :: b.2)

end PdsVerif.Model.StftRaw

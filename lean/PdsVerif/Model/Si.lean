/-
  Executable model of `ShortIntegrationFrameComputer` (`/repo/src/pydrobert/speech/compute.py`):
  `compute_chunk`, `finalize`, `compute_full`, `_compute_preamble`, `_handle_skip`, `_fill_y_buf`,
  `_compute_frame`, and the *specification* (`spec`) = the documented formula.

  Value-polymorphic: samples, filter taps, window taps and accumulators live in one type `α` with
  `+`, `*`, `0` (no laws assumed here; the theorems take a commutative ring, the driver runs `Int`
  and Gaussian integers).  `phi` is the point-wise non-linearity (`|y|` or `y·conj y`, real part),
  `post` what `_compute_frame` does to a finished sum (`log (max · LOG_FLOOR_VALUE)` or nothing);
  both are arbitrary functions as far as the theorems are concerned.

  What is fixed at construction (`__init__`) enters as data:
  * `Cfg`: `S = _frame_shift`, `M = _max_support`, `tr = _translation`, `D = _dft_size`, frame style;
  * `Bank.filts`: per coefficient the `M` taps `filt[:M]` of the periodised, rolled impulse response
    (the unit impulse at index `tr` first when `include_energy`); the harness derives them from the
    bank by an index formula and the correspondence runs tie that to `__init__`;
  * `Bank.window`: the `2·S` window taps; `reshape(2, S)` = (`take S`, `drop S`).

  Modelled primitives (trusted semantics, exercised by the correspondence runs)
  * `irfft(rfft(buf, D) * rfft(h, D))` (resp. `ifft(fft·fft)`) = `circConv D buf h`, the circular
    convolution of the `D`-cell buffer with `h` zero-padded to `D` cells — the DFT convolution theorem;
    the zero padding contributes nothing, so the sum runs over the taps of `h` only;
  * Python slicing `a[i:j]` = `take`/`drop` (clamping), `a[-k:]` = `lastK` (whole array when `k = 0`);
  * `range(a, b, s)` has `⌈(b-a)/s⌉` elements `a + t·s`; `zip(…, count(k))` pairs element `t` with `k + t`;
  * `y_buf[b, a, i]` is stored as `ybuf[i][b]` (first / second component for `a = 0 / 1`): the model
    keeps the accumulator blocks per filter, the code per block — a transposition of the same cells.
  Everything the code would answer with an exception (`assert`, `IndexError` on `y_buf`/`coeffs`,
  `ValueError`) is an `Except` error here; `ok`-flags collect the run-time checks of one call.
-/
namespace PdsVerif.Model.Si

structure Cfg where
  S : Nat          -- _frame_shift
  M : Nat          -- _max_support
  tr : Nat         -- _translation
  D : Nat          -- _dft_size
  centered : Bool  -- _frame_style == "centered"
  deriving Repr, DecidableEq

structure Bank (α : Type) where
  filts : List (List α)   -- `_filts` in the time domain: M taps each
  window : List α         -- 2·S taps
  phi : α → α             -- y ↦ |y| or y·conj(y)
  post : α → α            -- coefficient ↦ log(max(·, LOG_FLOOR_VALUE)) or identity

inductive Err where
  | value       -- ValueError
  | assertion   -- AssertionError / IndexError: an internal check of the code failed
  deriving Repr, DecidableEq

/-- dtype tag of a chunk: `isFloat = np.issubdtype(dtype, np.floating)`, `code` identifies the dtype -/
structure DType where
  isFloat : Bool
  code : Nat
  deriving Repr, DecidableEq

def f64 : DType := ⟨true, 64⟩

variable {α : Type} [Add α] [Mul α] [Zero α]

/-- `valid_samples_per_dft` -/
def vPerDft (c : Cfg) : Nat := c.D - c.M + 1

/-- `y_blocks = ceil((D - M + 2S) / S)` -/
def yBlocks (c : Cfg) : Nat := (c.D - c.M + 2 * c.S + c.S - 1) / c.S

/-- `np.sum(a * b)` of two equally long 1-D arrays -/
def dot (a b : List α) : α := (List.zipWith (· * ·) a b).sum

/-- `a[-k:]` -/
def lastK (l : List α) (k : Nat) : List α := if k = 0 then l else l.drop (l.length - k)

/-- circular convolution of a `D`-cell buffer with `h` (zero-padded to `D`): stands for
`idft(dft(buf, D) * dft(h, D))` -/
def circConv (D : Nat) (buf h : List α) : List α :=
  (List.range D).map fun p =>
    ((List.range h.length).map fun j => h.getD j 0 * buf.getD ((p + D - j) % D) 0).sum

/-- `a[i:j]` for `0 ≤ i`, `0 ≤ j` -/
def slice (l : List α) (i j : Nat) : List α := (l.take j).drop i

/-! ### state -/

structure St (α : Type) where
  xbuf : List α                  -- `_x_buf`, D cells
  ybuf : List (List (α × α))     -- `_y_buf[b, 0/1, i]` as `ybuf[i][b].1/.2`
  xRem : Nat
  yRem : Nat
  skip : Nat
  started : Bool
  dtype : DType                  -- `_ret_dtype`

/-- a freshly constructed computer (`np.empty` buffers: arbitrary content `jx`, `jy`) -/
def fresh (jx : List α) (jy : List (List (α × α))) : St α :=
  { xbuf := jx, ybuf := jy, xRem := 0, yRem := 0, skip := 0, started := false, dtype := f64 }

/-- the reset part of `_compute_preamble` (first chunk of an utterance) -/
def reset (c : Cfg) (B : Bank α) (dt : DType) : St α :=
  let sk : Int := (c.tr : Int) - c.S
  { xbuf := List.replicate c.D 0
    ybuf := B.filts.map fun _ => List.replicate (yBlocks c) (0, 0)
    xRem := if c.centered then (if sk < 0 then (-sk).toNat else 0) else 0
    yRem := 0
    skip := if c.centered then (if sk < 0 then 0 else sk.toNat) else c.tr
    started := true
    dtype := dt }

/-- `_handle_skip`: returns the new `_x_buf`, `_skip`, what is left of the chunk, and the assertion -/
def handleSkip (xbuf : List α) (skip xRem : Nat) (ch : List α) : List α × Nat × List α × Bool :=
  if skip = 0 then (xbuf, skip, ch, true)
  else
    let consumed := min skip ch.length
    let xLen := xbuf.length
    let xbuf' :=
      if consumed < xLen then xbuf.drop consumed ++ ch.take consumed
      else slice ch (consumed - xLen) consumed
    (xbuf', skip - consumed, ch.drop consumed, xRem == 0)

/-! ### `_fill_y_buf` -/

/-- one filter's share of `_fill_y_buf`: `yv = |idft(...)[-y_keep:]|^p` is spread over the blocks -/
def fillOne (S : Nat) (w0 w1 : List α) (yRem yKeep : Nat) (yv : List α) (acc : List (α × α)) :
    List (α × α) × Bool :=
  let blockOffs := yRem / S
  let secondBlockStart := (blockOffs + 1) * S - yRem
  -- range(second_block_start, y_keep + S, S)
  let nBlocks := (yKeep + S - secondBlockStart + S - 1) / S
  (List.range nBlocks).foldl (fun (r : List (α × α) × Bool) t =>
      let blockEnd := secondBlockStart + t * S
      let blockIdx := blockOffs + t
      let activeEnd := min blockEnd yKeep
      let activeStart := blockEnd - S                   -- max(0, block_end - S)
      let yActive := slice yv activeStart blockEnd
      let windowStart := S - blockEnd                   -- max(0, S - block_end)
      let windowEnd := S + activeEnd - blockEnd         -- S - block_end + active_end  (> 0: block_end < y_keep + S)
      let a0 := dot yActive (slice w0 windowStart windowEnd)
      let a1 := dot yActive (slice w1 windowStart windowEnd)
      (r.1.modify blockIdx (fun p => (p.1 + a0, p.2 + a1)), r.2 && decide (blockIdx < r.1.length)))
    (acc, true)

/-- `_fill_y_buf` over all coefficients; `cur` is the buffer handed to `_compute_dft` -/
def fillYBuf (c : Cfg) (B : Bank α) (cur : List α) (yKeep yRem : Nat) (ybuf : List (List (α × α))) :
    List (List (α × α)) × Bool :=
  let w0 := B.window.take c.S
  let w1 := B.window.drop c.S
  let rs := List.zipWith (fun h acc =>
      fillOne c.S w0 w1 yRem yKeep ((lastK (circConv c.D cur h) yKeep).map B.phi) acc) B.filts ybuf
  (rs.map (·.1), rs.all (·.2))

/-! ### `_compute_frame` and the `while self._y_rem >= 2 * self._frame_shift` loop -/

def computeFrame (B : Bank α) (ybuf : List (List (α × α))) : List α :=
  ybuf.map fun acc => B.post ((acc.getD 0 (0, 0)).1 + (acc.getD 1 (0, 0)).2)

/-- `_y_buf[:-1] = _y_buf[1:]; _y_buf[-1] = 0` -/
def shiftBlocks (ybuf : List (List (α × α))) : List (List (α × α)) :=
  ybuf.map fun acc => acc.drop 1 ++ [(0, 0)]

/-- the frame loop; `fuel` bounds the iterations (each one lowers `yRem` by `S ≥ 1`) -/
def frameLoop (c : Cfg) (B : Bank α) :
    Nat → List (List (α × α)) → Nat → List (List α) → List (List (α × α)) × Nat × List (List α)
  | 0, ybuf, yRem, frames => (ybuf, yRem, frames)
  | fuel + 1, ybuf, yRem, frames =>
    if yRem ≥ 2 * c.S then
      frameLoop c B fuel (shiftBlocks ybuf) (yRem - c.S) (frames ++ [computeFrame B ybuf])
    else (ybuf, yRem, frames)

/-! ### `compute_chunk` -/

/-- loop-carried variables of the DFT loop -/
structure Loop (α : Type) where
  xbuf : List α
  copied : Nat
  ybuf : List (List (α × α))
  yRem : Nat
  frames : List (List α)
  ok : Bool

/-- the `_x_buf` part of the loop body: returns `_x_buf`, `chunk_copied`, `cur_buf` and the assertions.
`endIdx < D` is `start_idx < 0`. -/
def xStep (D : Nat) (ch xbuf : List α) (copied endIdx : Nat) : List α × Nat × List α × Bool :=
  if endIdx < D then
    let toCopy := endIdx - copied
    let xb := xbuf.drop toCopy ++ slice ch copied endIdx
    (xb, endIdx, xb, decide (copied ≤ endIdx) && decide (toCopy < D))
  else (xbuf, copied, slice ch (endIdx - D) endIdx, true)

/-- `end_idx` (an `int` in the code: asserted non-negative) -/
def endIdxI (c : Cfg) (chunkLen xRem d : Nat) : Int :=
  min (((d : Int) + 1) * vPerDft c - xRem) chunkLen

/-- `y_keep` -/
def yKeepI (c : Cfg) (chunkLen xRem d : Nat) : Int :=
  endIdxI c chunkLen xRem d - (d : Int) * vPerDft c + xRem

/-- body of `for dft_idx in range(num_dfts)`; `ch` is the chunk after `_handle_skip`, `xRem` the
`_x_rem` on entry -/
def dftStep (c : Cfg) (B : Bank α) (ch : List α) (xRem : Nat) (d : Nat) (s : Loop α) : Loop α :=
  let e := endIdxI c ch.length xRem d
  let k := yKeepI c ch.length xRem d
  let x := xStep c.D ch s.xbuf s.copied e.toNat
  let y := fillYBuf c B x.2.2.1 k.toNat s.yRem s.ybuf
  let f := frameLoop c B (s.yRem + k.toNat) y.1 (s.yRem + k.toNat) s.frames
  { xbuf := x.1, copied := x.2.1, ybuf := f.1, yRem := f.2.1, frames := f.2.2,
    ok := s.ok && decide (0 ≤ e) && decide (0 ≤ k) && x.2.2.2 && y.2 }

def dftLoop (c : Cfg) (B : Bank α) (ch : List α) (xRem : Nat) : Nat → Nat → Loop α → Loop α
  | 0, _, s => s
  | n + 1, d, s => dftLoop c B ch xRem n (d + 1) (dftStep c B ch xRem d s)

/-- `compute_chunk` after `_compute_preamble` -/
def chunkCore (c : Cfg) (B : Bank α) (st : St α) (chunk : List α) : Except Err (St α × List (List α)) :=
  let (xbuf0, skip, ch, okSkip) := handleSkip st.xbuf st.skip st.xRem chunk
  let chunkLen := ch.length
  let V := vPerDft c
  let numRaw := st.xRem + chunkLen
  let numDfts0 := numRaw / V
  let numFrames := (numRaw + st.yRem) / c.S - 1            -- max(0, · - 1)
  let numProcessed := if numFrames ≠ 0 then (numFrames + 1) * c.S else st.yRem
  let numDfts := if numProcessed - st.yRem > numDfts0 * V then numDfts0 + 1 else numDfts0
  let r := dftLoop c B ch st.xRem numDfts 0
    { xbuf := xbuf0, copied := 0, ybuf := st.ybuf, yRem := st.yRem, frames := [], ok := okSkip }
  let xbuf :=
    if chunkLen - r.copied ≠ 0 then
      let k := min c.D (chunkLen - r.copied)
      r.xbuf.drop k ++ ch.drop (chunkLen - k)
    else r.xbuf
  if r.ok && r.frames.length == numFrames then
    .ok ({ xbuf, ybuf := r.ybuf, xRem := numRaw - numDfts * V, yRem := r.yRem, skip,
           started := true, dtype := st.dtype }, r.frames)
  else .error .assertion

/-- `compute_chunk` (with `_compute_preamble`'s dtype checks and reset) -/
def chunk (c : Cfg) (B : Bank α) (st : St α) (dt : DType) (ch : List α) :
    Except Err (St α × List (List α)) :=
  if st.started then
    if dt ≠ st.dtype then .error .value else chunkCore c B st ch
  else
    if !dt.isFloat then .error .value else chunkCore c B (reset c B dt) ch

/-- `finalize` -/
def finalize (c : Cfg) (B : Bank α) (st : St α) : Except Err (St α × List (List α)) :=
  if st.started then
    let borrowed : Int := if c.centered then c.S else 0
    let bufLen : Int := (c.tr : Int) - st.skip + st.xRem + st.yRem - borrowed
    let numFrames : Int := max 0 ((bufLen + (c.S / 2 : Nat)) / c.S)
    if numFrames ≥ 1 then
      let padRight : Int := (numFrames - 1) * c.S + ((c.M : Int) + c.S - 1) - bufLen
      if padRight < 0 then .error .value     -- np.zeros(negative): ValueError
      else
        match chunk c B st st.dtype (List.replicate padRight.toNat 0) with
        | .ok (st', frames) => .ok ({ st' with started := false }, frames.take numFrames.toNat)
        | .error e => .error e
    else .ok ({ st with started := false }, [])
  else .ok (st, [])

/-- `compute_full` -/
def full (c : Cfg) (B : Bank α) (st : St α) (dt : DType) (x : List α) :
    Except Err (St α × List (List α)) :=
  if st.started then .error .value
  else
    match chunk c B st dt x with
    | .error e => .error e
    | .ok (st1, f1) =>
      match finalize c B st1 with
      | .error e => .error e
      | .ok (st2, f2) => .ok (st2, f1 ++ f2)

/-- `compute_chunk` over the chunks, then `finalize`; all outputs concatenated -/
def streamFrom (c : Cfg) (B : Bank α) (dt : DType) : St α → List (List α) → Except Err (St α × List (List α))
  | st, [] => finalize c B st
  | st, ch :: rest =>
    match chunk c B st dt ch with
    | .error e => .error e
    | .ok (st1, f1) =>
      match streamFrom c B dt st1 rest with
      | .error e => .error e
      | .ok (st2, f2) => .ok (st2, f1 ++ f2)

/-! ### specification: the documented formula -/

/-- the signal, zero beyond its ends -/
def sigZ (x : List α) (p : Int) : α := if p < 0 then 0 else x.getD p.toNat 0

/-- signal position of raw sample 0: `tr` (causal) / `tr - S` (centred) -/
def offs (c : Cfg) : Int := if c.centered then (c.tr : Int) - c.S else c.tr

/-- filtered sample `q` of the translated time base: `Σ_{j<M} h[j] · X[q + offs - j]` -/
def linY (c : Cfg) (X : Int → α) (h : List α) (q : Int) : α :=
  ((List.range h.length).map fun j => h.getD j 0 * X (q + offs c - j)).sum

/-- coefficient of frame `k` for filter `h`: `post (Σ_{u<2S} w[u] · phi (y[k·S + u]))` -/
def coef (c : Cfg) (B : Bank α) (X : Int → α) (h : List α) (k : Nat) : α :=
  B.post (((List.range (2 * c.S)).map fun u =>
    B.window.getD u 0 * B.phi (linY c X h ((k : Int) * c.S + u))).sum)

def specFrame (c : Cfg) (B : Bank α) (X : Int → α) (k : Nat) : List α :=
  B.filts.map fun h => coef c B X h k

/-- what `compute_full` is documented to return for the signal `x` -/
def spec (c : Cfg) (B : Bank α) (x : List α) : List (List α) :=
  (List.range ((x.length + c.S / 2) / c.S)).map (specFrame c B (sigZ x))

/-! ### the ring the driver computes in: Gaussian integers (real banks have zero imaginary parts) -/

structure GInt where
  re : Int
  im : Int
  deriving Repr, DecidableEq

instance : Add GInt := ⟨fun a b => ⟨a.re + b.re, a.im + b.im⟩⟩
instance : Mul GInt := ⟨fun a b => ⟨a.re * b.re - a.im * b.im, a.re * b.im + a.im * b.re⟩⟩
instance : Neg GInt := ⟨fun a => ⟨-a.re, -a.im⟩⟩
instance : Zero GInt := ⟨⟨0, 0⟩⟩
instance : One GInt := ⟨⟨1, 0⟩⟩

end PdsVerif.Model.Si

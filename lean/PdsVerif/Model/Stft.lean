/-
  Executable model of the framing / buffering logic of
  `ShortTimeFourierTransformFrameComputer` (`/repo/src/pydrobert/speech/compute.py`):
  `compute_chunk`, `finalize`, `compute_full`, `frame_by_frame_calculation`.

  The model is *value-polymorphic*: a signal is a `List α`, and what a call returns is the list
  of frames (each a `List α` of exactly `frame_length` samples) that the code hands to
  `_compute_frame`, in order.  What `_compute_frame` does with a frame is a pure function of the
  frame (window, DFT, filter walk: see `Model/Walk.lean`), so equality of frame lists gives
  equality of feature matrices for any such function (`Props/C01.lean`, corollaries).

  Modelled primitives (trusted semantics, exercised by the correspondence runs):
  * `np.pad(a, (pl, pr), 'symmetric')`  = `symPad`  (even, half-sample-symmetric periodic extension)
  * Python slicing `a[i:j]`             = `drop`/`take` (clamping, like Python)
  * `np.concatenate`                    = `++`
  The ring buffer `_buf` (a fixed array of `frame_length` cells of which the last `_hist_len`
  are meaningful) is modelled by the list of its meaningful cells, oldest first.
  Scope: `1 ≤ frame_shift ≤ frame_length` (the property's precondition); `_buf_len` is a `Nat`.
-/
namespace PdsVerif.Model.Stft

structure Cfg where
  L : Nat          -- frame_length
  S : Nat          -- frame_shift
  centered : Bool  -- frame_style == "centered"
  kaldi : Bool     -- kaldi_shift
  deriving Repr, DecidableEq

/-- left padding of `compute_full` / `finalize` -/
def padL (c : Cfg) : Nat :=
  if !c.centered then 0
  else if c.kaldi then c.L / 2 - c.S / 2
  else (c.L + 1) / 2 - 1

/-- number of *signal* samples in the reflected first frame of the centred styles -/
def flen0 (c : Cfg) : Nat :=
  if c.kaldi then (c.L + 1) / 2 + c.S / 2 else c.L / 2 + 1

/-- index into a length-`n` array of position `p` of its symmetric (even, edge-repeating)
periodic extension: what `np.pad(..., 'symmetric')` reads. -/
def symIdx (n : Nat) (p : Int) : Nat :=
  let q := (p % (2 * (n : Int))).toNat
  if q < n then q else 2 * n - 1 - q

/-- `np.pad(l, (pl, pr), 'symmetric')` -/
def symPad {α} [Inhabited α] (l : List α) (pl pr : Nat) : List α :=
  (List.range (pl + l.length + pr)).map fun (i : Nat) =>
    l.getD (symIdx l.length ((i : Int) - (pl : Int))) default

/-- frames `k = 0 .. nf-1` cut out of a (padded) stream: `stream[k*S : k*S + L]` -/
def cut {α} (c : Cfg) (stream : List α) (nf : Nat) : List (List α) :=
  (List.range nf).map fun k => (stream.drop (k * c.S)).take c.L

/-- the last `k` elements -/
def takeLast {α} (l : List α) (k : Nat) : List α := l.drop (l.length - k)

/-! ### compute_full -/

def full {α} [Inhabited α] (c : Cfg) (x : List α) : List (List α) :=
  let N := x.length
  if N < c.L / 2 + 1 then []
  else
    let pl := padL c
    let nf := (N + c.S / 2) / c.S
    -- total_len = (nf - 1) * S - pl + L ; pad_right = max(0, total_len - N)   (Python ints)
    let pr := ((((nf : Int) - 1) * c.S - pl + c.L) - N).toNat
    cut c (symPad x pl pr) nf

/-! ### streaming state -/

structure St (α : Type) where
  buf : List α        -- meaningful cells of `_buf` (`_hist_len` of them), oldest first
  rem : Nat           -- `_buf_len`
  first : Bool        -- `_first_frame`
  started : Bool      -- `_started`
  deriving Repr

def init {α} : St α := { buf := [], rem := 0, first := true, started := false }

/-- `compute_chunk` -/
def chunk {α} [Inhabited α] (c : Cfg) (s : St α) (ch : List α) : St α × List (List α) :=
  let bufLen := s.rem
  let total := ch.length + bufLen
  let ncf := c.centered && s.first
  let flen := if ncf then flen0 c else c.L
  let nf0 := if total < flen then 0 else (total - flen) / c.S + 1
  let nf := if ncf && total < c.L / 2 + 1 then 0 else nf0
  -- the not yet consumed samples: tail of the buffer, then the chunk
  let pending := takeLast s.buf bufLen ++ ch
  if ncf && nf ≥ 1 then
    -- first frame of a centred style: reflect its left half, keep it as history
    let frame0 := pending.take flen
    let padded := symPad frame0 (c.L - flen) 0
    let rest := pending.drop flen          -- what is left of the chunk
    let stream := padded ++ rest
    let frames := cut c stream nf
    let rem' := stream.length - nf * c.S
    ({ buf := takeLast (padded ++ rest) c.L, rem := rem', first := false, started := true }, frames)
  else
    let frames := cut c pending nf
    let rem' := total - nf * c.S
    ({ buf := takeLast (s.buf ++ ch) c.L, rem := rem',
       first := s.first && nf == 0, started := true }, frames)

/-- `finalize` -/
def finalize {α} [Inhabited α] (c : Cfg) (s : St α) : St α × List (List α) :=
  let bufLen := s.rem
  let pl0 := padL c
  -- num_frames = buf_len + S//2 ; if not first: num_frames -= pad_left (may go negative: then no frame)
  let num : Int := (bufLen : Int) + c.S / 2 - (if s.first then 0 else pl0)
  let pl := if s.first then pl0 else 0
  let nf0 := (num / c.S).toNat
  let nf := if s.first && bufLen < c.L / 2 + 1 then 0 else nf0
  let frames :=
    if nf ≥ 1 then
      let pr := ((((nf : Int) - 1) * c.S + c.L - bufLen) - pl).toNat
      let padded := (symPad s.buf pl pr).drop (s.buf.length - bufLen)
      cut c padded nf
    else []
  (init, frames)

/-- chunks then finalize, from a fresh (or finalized) computer -/
def streamFrom {α} [Inhabited α] (c : Cfg) (s : St α) : List (List α) → List (List α)
  | [] => (finalize c s).2
  | ch :: rest => let r := chunk c s ch; r.2 ++ streamFrom c r.1 rest

def stream {α} [Inhabited α] (c : Cfg) (chunks : List (List α)) : List (List α) :=
  streamFrom c init chunks

/-- `frame_by_frame_calculation`'s slicing: `while len(signal): signal[:k]; signal = signal[k:]` -/
def splitEvery {α} (k : Nat) (x : List α) : List (List α) :=
  if h : k = 0 ∨ x = [] then [] else
    x.take k :: splitEvery k (x.drop k)
termination_by x.length
decreasing_by
  have : x ≠ [] := fun e => h (Or.inr e)
  have : 0 < x.length := List.length_pos_iff.mpr this
  simp only [List.length_drop]; omega

def fbf {α} [Inhabited α] (c : Cfg) (x : List α) (chunkSize : Nat) : List (List α) :=
  stream c (splitEvery chunkSize x)

/-! ### operation histories (C04) -/

inductive Op (α : Type) where
  | chunk (ch : List α)
  | finalize
  | full (x : List α)
  | fbf (x : List α) (k : Nat)
  deriving Repr

inductive Out (α : Type) where
  | frames (fs : List (List α))
  | valueError
  deriving Repr, DecidableEq

/-- one public call; `full`/`fbf` refuse mid-utterance and leave the state alone -/
def step {α} [Inhabited α] (c : Cfg) (s : St α) : Op α → St α × Out α
  | .chunk ch => let r := chunk c s ch; (r.1, .frames r.2)
  | .finalize => let r := finalize c s; (r.1, .frames r.2)
  | .full x => if s.started then (s, .valueError) else (s, .frames (full c x))
  | .fbf x k =>
    -- `frame_by_frame_calculation` drives the computer it is given (it does not reset it first)
    if s.started then (s, .valueError) else (init, .frames (streamFrom c s (splitEvery k x)))

def run {α} [Inhabited α] (c : Cfg) (s : St α) : List (Op α) → St α × List (Out α)
  | [] => (s, [])
  | op :: ops =>
    let r := step c s op
    let r' := run c r.1 ops
    (r'.1, r.2 :: r'.2)

end PdsVerif.Model.Stft

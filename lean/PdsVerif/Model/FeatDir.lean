/-
  Model of `signals-to-torch-feat-dir --manifest` (src/pydrobert/speech/command_line.py,
  `signals_to_torch_feat_dir` + `_FeatureProcessorDataset`) as a crash / resume state machine.

  Durable state (survives a process death): the output directory and the manifest file on disk.
  Volatile state (lost with the process): the position in the main loop, the feature tensor in
  memory, the manifest's text buffer and the list of work still to do.

  One process (`Run`) is created by `start` (= the code before the main loop):

      utt2idx = {utt: idx for idx, utt in enumerate(utt2path)}        # position in the *map*
      manifest.seek(0); for line in manifest: utt2path.pop(line.strip(), None)
      dataset = _FeatureProcessorDataset(utt2path, ..., seed, utt2idx)

  and then advances by `stepRun`, one step at a time, through the body of

      for utt_ids, feats in loader:                 -- compute : torch.manual_seed(seed + utt2idx[u]); ...
          torch.save(feat, dir/prefix+u+suffix)     -- beginWrite (file truncated: Partial) ; endWrite (Complete)
          print(u, file=manifest, flush=True)       -- print (text buffer) ; flush (buffer -> disk)

  Faults may hit between any two steps: `hardKill` (SIGKILL / os._exit: the text buffer is lost, a
  Partial file stays Partial) and `softInt` (KeyboardInterrupt: the interpreter exits and flushes
  open files).  `resume` starts a new process on whatever the disk holds.

  `Rules` keeps the two repaired lines switchable so the *old* behaviour can be stated and refuted
  on witnesses in Props/C10.lean; `Rules.current` is the code as it is now and is what the driver runs.

  CORE LEAN ONLY.
-/
namespace PdsVerif.Model.FeatDir

/-- state of one feature file in the output directory -/
inductive FileSt (V : Type) where
  | absent                 -- no such file
  | partialFile            -- created / truncated by `torch.save`, not finished: nothing is known about its content
  | complete (v : V)       -- `torch.save` returned: holds tensor `v`
  deriving DecidableEq, Repr

/-- the two lines repaired in /repo, switchable -/
structure Rules where
  flushEachLine : Bool     -- e6774ba: `print(utt_id, file=manifest, flush=True)`
  seedByMapPos : Bool      -- b20ac9c: seed + position in the original map (else: position in the filtered list)
  deriving DecidableEq, Repr

/-- the code as it is now -/
def Rules.current : Rules := { flushEachLine := true, seedByMapPos := true }

/-- command line + inputs.  `feat u key` is the (abstract) tensor the pipeline
`read_signal -> preprocess -> computer -> postprocess -> .float()` yields for utterance `u` when torch's
generator was seeded with `key` just before. -/
structure Env (Id V : Type) where
  map : List Id            -- utterance ids of the map file in file order (the tool refuses duplicates)
  seed : Nat               -- `--seed`
  feat : Id → Nat → V

structure Durable (Id V : Type) where
  files : Id → FileSt V    -- output directory, by utterance id
  manifest : List Id       -- lines of the manifest file on disk, in order

/-- a directory nobody wrote to yet -/
def Durable.empty {Id V : Type} : Durable Id V := { files := fun _ => .absent, manifest := [] }

/-- position inside the loop body, for the head of `todo` -/
inductive Pc (V : Type) where
  | compute                -- waiting for the loader to yield the item
  | beginW (v : V)         -- item in memory, about to call `torch.save`
  | endW (v : V)           -- inside `torch.save`: file opened (truncated), data not complete
  | print                  -- `torch.save` returned, about to `print`
  | flush                  -- line is in the text buffer, about to flush (if the code flushes)
  deriving DecidableEq, Repr

structure Run (Id V : Type) where
  todo : List (Id × Nat)   -- `dataset.utt_path` still ahead, each with its seed key `seed + utt2idx[u]`
  pc : Pc V
  buf : List Id            -- manifest lines written to the file object but not yet on disk

inductive Proc (Id V : Type) where
  | running (r : Run Id V)
  | dead                   -- no process: finished, killed or interrupted

structure State (Id V : Type) where
  d : Durable Id V
  p : Proc Id V

/-- things an outside observer (the fault-injection harness) can see happen -/
inductive Obs (Id : Type) where
  | computed (u : Id) (key : Nat)
  | began (u : Id)
  | ended (u : Id)
  | printed (u : Id)
  | flushed (u : Id)
  deriving DecidableEq, Repr

inductive Ev where
  | step | hardKill | softInt | resume
  deriving DecidableEq, Repr

section
variable {Id V : Type} [DecidableEq Id]

def setFile (f : Id → FileSt V) (u : Id) (s : FileSt V) : Id → FileSt V :=
  fun x => if x = u then s else f x

/-- utterances of the map not listed in the manifest, in map order (`utt2path` after the `pop`s) -/
def unlisted (e : Env Id V) (m : List Id) : List Id := e.map.filter (fun u => !m.contains u)

/-- position of `u` in `l` (`utt2idx[u]`) -/
def posOf (u : Id) : List Id → Nat
  | [] => 0
  | x :: xs => if x = u then 0 else posOf u xs + 1

/-- the seed key of the repaired code: a function of the utterance (and the map) only -/
def seedKey (e : Env Id V) (u : Id) : Nat := e.seed + posOf u e.map

/-- `enumerate`: keys by position in the list given, starting at `i` (the OLD rule when given the filtered list) -/
def keyByPos (seed : Nat) : Nat → List Id → List (Id × Nat)
  | _, [] => []
  | i, u :: us => (u, seed + i) :: keyByPos seed (i + 1) us

/-- the code before the main loop: read the manifest, build the dataset -/
def start (r : Rules) (e : Env Id V) (d : Durable Id V) : Run Id V :=
  let ul := unlisted e d.manifest
  { todo := if r.seedByMapPos then ul.map (fun u => (u, seedKey e u)) else keyByPos e.seed 0 ul,
    pc := .compute, buf := [] }

/-- one step of a live process: new durable state, new process state, what was observable -/
def stepRun (r : Rules) (e : Env Id V) (d : Durable Id V) (p : Run Id V) :
    Durable Id V × Proc Id V × List (Obs Id) :=
  match p.todo with
  | [] =>
    -- loop over, `return 0`, interpreter exit closes (flushes) the manifest
    ({ d with manifest := d.manifest ++ p.buf }, .dead, [])
  | (u, key) :: rest =>
    match p.pc with
    | .compute => (d, .running { p with pc := .beginW (e.feat u key) }, [.computed u key])
    | .beginW v => ({ d with files := setFile d.files u .partialFile }, .running { p with pc := .endW v }, [.began u])
    | .endW v => ({ d with files := setFile d.files u (.complete v) }, .running { p with pc := .print }, [.ended u])
    | .print => (d, .running { p with pc := .flush, buf := p.buf ++ [u] }, [.printed u])
    | .flush =>
      if r.flushEachLine then
        ({ d with manifest := d.manifest ++ p.buf }, .running { todo := rest, pc := .compute, buf := [] }, [.flushed u])
      else
        (d, .running { p with todo := rest, pc := .compute }, [])

/-- one event of the world -/
def next (r : Rules) (e : Env Id V) (s : State Id V) : Ev → State Id V × List (Obs Id)
  | .step =>
    match s.p with
    | .running p => let a := stepRun r e s.d p; ({ d := a.1, p := a.2.1 }, a.2.2)
    | .dead => (s, [])
  | .hardKill =>
    -- SIGKILL / os._exit: nothing volatile survives; files stay as they are
    ({ s with p := .dead }, [])
  | .softInt =>
    -- KeyboardInterrupt: the interpreter unwinds and exits, open files are flushed
    match s.p with
    | .running p => ({ d := { s.d with manifest := s.d.manifest ++ p.buf }, p := .dead }, [])
    | .dead => (s, [])
  | .resume =>
    match s.p with
    | .running _ => (s, [])     -- a second concurrent process is out of scope
    | .dead => ({ s with p := .running (start r e s.d) }, [])

/-- run a sequence of events; final state and everything observed -/
def exec (r : Rules) (e : Env Id V) (s : State Id V) : List Ev → State Id V × List (Obs Id)
  | [] => (s, [])
  | ev :: evs =>
    let a := next r e s ev
    let b := exec r e a.1 evs
    (b.1, a.2 ++ b.2)

/-- the state before the tool was ever run -/
def State.init : State Id V := { d := Durable.empty, p := .dead }

/-- one uninterrupted invocation: start, five steps per utterance, exit -/
def fullRun (n : Nat) : List Ev := .resume :: List.replicate (5 * n + 1) .step

/-! ### the DataLoader and its workers

Worker `w` owns a torch generator (state `rng w`).  `__getitem__` first *re-seeds* it with the item's
key and only then runs the pipeline, which draws from it; whatever state the worker's generator was
left in by its previous items is overwritten.  `assign i` is the worker computing the `i`-th item
(`num_workers = 0`: the main process for all of them).  The loader yields items in index order -
that ordering is torch's contract and is assumed, see `ASSUMPTIONS` of the harness. -/

/-- the pipeline proper: reads the generator, returns the tensor and the generator's state afterwards -/
structure Pipeline (Id V : Type) where
  run : Id → Nat → V × Nat

/-- `__getitem__`: `torch.manual_seed(key)` then the pipeline -/
def getItem (pl : Pipeline Id V) (_rng : Nat) (u : Id) (key : Nat) : V × Nat := pl.run u key

def loaderOut (pl : Pipeline Id V) (assign : Nat → Nat) :
    Nat → (Nat → Nat) → List (Id × Nat) → List (Id × V)
  | _, _, [] => []
  | i, rng, (u, key) :: rest =>
    let w := assign i
    let a := getItem pl (rng w) u key
    (u, a.1) :: loaderOut pl assign (i + 1) (fun x => if x = w then a.2 else rng x) rest

/-- the main loop without faults, as a fold over what the loader yields -/
def mainLoop (d : Durable Id V) : List (Id × V) → Durable Id V
  | [] => d
  | (u, v) :: rest => mainLoop { files := setFile d.files u (.complete v), manifest := d.manifest ++ [u] } rest

end

/-! ### driver: fault schedules on `n` utterances `0..n-1`, tensor = the seed key it was computed with -/

inductive Stage where | pre | mid | post | buf | flushed
  deriving DecidableEq, Repr

/-- steps of the item at which the fault hits, counted from the item's `compute` -/
def Stage.steps : Stage → Nat
  | .pre => 1 | .mid => 2 | .post => 3 | .buf => 4 | .flushed => 5

/-- a fault at the `k`-th (1-based) save of a run -/
structure Fault where
  hard : Bool
  k : Nat
  stage : Stage

/-- events of one invocation with an optional fault; `n` bounds the number of items -/
def runEvents (n : Nat) : Option Fault → List Ev
  | none => fullRun n
  | some f => .resume :: List.replicate (5 * (f.k - 1) + f.stage.steps) .step ++ [if f.hard then .hardKill else .softInt]

def drvEnv (n seed : Nat) : Env Nat Nat := { map := List.range n, seed := seed, feat := fun _ key => key }

def showFile : FileSt Nat → String
  | .absent => "A" | .partialFile => "P" | .complete v => "C" ++ toString v

def showObs : Obs Nat → String
  | .computed u _ => "c" ++ toString u
  | .began u => "b" ++ toString u
  | .ended u => "e" ++ toString u
  | .printed u => "p" ++ toString u
  | .flushed u => "f" ++ toString u

def showList (l : List String) : String := if l.isEmpty then "-" else ",".intercalate l

/-- per invocation: `trace;files;manifest;alive` -/
def drvRuns (r : Rules) (n seed : Nat) : State Nat Nat → List (Option Fault) → List String
  | _, [] => []
  | s, f :: fs =>
    let a := exec r (drvEnv n seed) s (runEvents n f)
    let alive := match a.1.p with | .running _ => "running" | .dead => "dead"
    (showList (a.2.map showObs) ++ ";" ++ showList ((List.range n).map fun u => showFile (a.1.d.files u)) ++ ";"
      ++ showList (a.1.d.manifest.map toString) ++ ";" ++ alive) :: drvRuns r n seed a.1 fs

def parseStage : String → Option Stage
  | "pre" => some .pre | "mid" => some .mid | "post" => some .post | "buf" => some .buf
  | "flushed" => some .flushed | _ => none

def parseFault (s : String) : Option (Option Fault) :=
  if s == "none" then some none else
  match s.splitOn ":" with
  | [h, k, st] => do
    let hard ← (if h == "h" then some true else if h == "s" then some false else none)
    let k ← k.toNat?
    if k == 0 then none
    let st ← parseStage st
    pure (some { hard := hard, k := k, stage := st })
  | _ => none

def parseRules : String → Option Rules
  | "cur" => some Rules.current
  | "oldseed" => some { flushEachLine := true, seedByMapPos := false }
  | "nobuf" => some { flushEachLine := false, seedByMapPos := true }
  | "old" => some { flushEachLine := false, seedByMapPos := false }
  | _ => none

/-- `fd <rules> <n> <seed> <fault> <fault> ...` -> one `trace;files;manifest;alive` group per invocation, `|`-separated -/
def handle (args : List String) : Option String :=
  match args with
  | rules :: n :: seed :: faults => do
    let r ← parseRules rules
    let n ← n.toNat?
    let seed ← seed.toNat?
    let fs ← faults.mapM parseFault
    if fs.isEmpty then none
    pure ("|".intercalate (drvRuns r n seed State.init fs))
  | _ => none

end PdsVerif.Model.FeatDir

/-
  Line-protocol handlers for the Standardize model (C16 at `Rat` and `Float`, C17 at `Float`).
  CORE LEAN ONLY.  Numbers travel as IEEE-754 binary64 bit patterns (decimal `UInt64`), so no float is
  ever compared through a decimal string; the `Rat` instantiation decodes the bit pattern exactly.

  Grammar (tokens separated by blanks)
    call   := "v" dtype n bits^n                       a 1-D array
            | "t" dtype axis rank dim^rank bits^prod    an n-D array (row-major) and the `axis` argument
    dtype  := f64 | f32 | i32 | i16
    hist   := ncalls call^ncalls
  C16
    acc   hist                          -> "ok F cnt | sum.. | sq.. | pad" (exact rationals) | "none" | "err:<E>"
    apply nv ip hist call               -> "ok f64 rank dims | data bits | inputAfter bits" | "err:<E>"
  C17
    seq kind nops op^nops               -> results of the S / L / H ops joined by " ; "
      kind := npy | npz | raw
      op   := "A" call | "N" | "S" key compress overwrite | "L" key | "H"
            | "P" n (key id)^n    (npz: some other program wrote an archive with these entries)
            | "W" n bits^n        (raw: some other program wrote these float64 items)
            | "D"                 (delete the file)
      key  := "-" | "a:<k>" | "n:<name>"
-/
import PdsVerif.Model.Standardize
import PdsVerif.Num

namespace PdsVerif.Model.StandardizeDrv
open PdsVerif PdsVerif.Model.Standardize

instance : NatCast Float := ⟨Float.ofNat⟩

/-! ## decoding -/

/-- exact value of a finite binary64 bit pattern -/
def ratOfBits (n : Nat) : Option Rat :=
  let sign : Nat := n >>> 63
  let e : Nat := (n >>> 52) &&& 0x7FF
  let m : Nat := n &&& (2 ^ 52 - 1)
  if n ≥ 2 ^ 64 ∨ e = 0x7FF then none
  else
    let mag : Rat :=
      if e = 0 then mkRat (Int.ofNat m) (2 ^ 1074)
      else if e ≥ 1075 then mkRat (Int.ofNat ((2 ^ 52 + m) * 2 ^ (e - 1075))) 1
      else mkRat (Int.ofNat (2 ^ 52 + m)) (2 ^ (1075 - e))
    some (if sign = 1 then -mag else mag)

def showRat (r : Rat) : String := toString r.num ++ "/" ++ toString r.den

abbrev P := StateT (List String) Option

def tok : P String := do
  match (← get) with
  | [] => failure
  | t :: ts => set ts; pure t

def nat : P Nat := do
  match (← tok).toNat? with
  | some n => pure n
  | none => failure

def int : P Int := do
  match (← tok).toInt? with
  | some n => pure n
  | none => failure

def bool : P Bool := do
  match (← tok) with
  | "0" => pure false
  | "1" => pure true
  | _ => failure

def many {β : Type} (p : P β) : Nat → P (List β)
  | 0 => pure []
  | n + 1 => do
    let x ← p
    let xs ← many p n
    pure (x :: xs)

def dtype : P DT := do
  match (← tok) with
  | "f64" => pure .f64
  | "f32" => pure .f32
  | "i32" => pure .i32
  | "i16" => pure .i16
  | _ => failure

structure NumIO (α : Type) where
  ofBits : Nat → Option α
  render : α → String

def ratIO : NumIO Rat := { ofBits := ratOfBits, render := showRat }

def floatIO : NumIO Float :=
  { ofBits := fun n => if n < 2 ^ 64 then some (Float.ofBits n.toUInt64) else none
    render := floatBits }

def num {α : Type} (io : NumIO α) : P α := do
  match io.ofBits (← nat) with
  | some x => pure x
  | none => failure

/-- a call: the array and the `axis` argument (ignored by the code for 1-D arrays) -/
def call {α : Type} (io : NumIO α) : P (Tensor α × Int) := do
  match (← tok) with
  | "v" =>
    let dt ← dtype
    let n ← nat
    let xs ← many (num io) n
    pure ({ dtype := dt, shape := [n], data := xs }, -1)
  | "t" =>
    let dt ← dtype
    let axis ← int
    let rank ← nat
    let dims ← many nat rank
    let xs ← many (num io) (prodNat dims)
    pure ({ dtype := dt, shape := dims, data := xs }, axis)
  | _ => failure

def hist {α : Type} (io : NumIO α) : P (List (Tensor α × Int)) := do
  let n ← nat
  many (call io) n

def showErr (e : Err) : String :=
  match e with
  | .ValueError => "err:ValueError"
  | .IOError => "err:IOError"
  | .KeyError => "err:KeyError"
  | .IndexError => "err:IndexError"
  | .TypeError => "err:TypeError"
  | .Malformed => "bad-op"
  | .Unmodelled => "unmodelled"
  | .Fuel => "fuel"

def sp (l : List String) : String := " ".intercalate l

def showStats {α : Type} (io : NumIO α) (s : Stats α) : String :=
  sp ([toString s.dim, io.render s.cnt, "|"] ++ s.sum.map io.render ++ ["|"] ++ s.sq.map io.render
    ++ ["|", io.render s.pad])

/-! ## C16 -/

section generic
variable {α : Type} [Add α] [Sub α] [Mul α] [Div α] [Zero α] [One α] [NatCast α] [BEq α]

/-- a history of `accumulate` calls through the public entry point; stops at the first exception -/
def runHist (st : Option (Stats α)) : List (Tensor α × Int) → Except Err (Option (Stats α))
  | [] => .ok st
  | (t, axis) :: cs =>
    match accumulate st t axis with
    | .error e => .error e
    | .ok s => runHist (some s) cs

end generic

def handleAcc (args : List String) : Option String :=
  match (hist ratIO).run args with
  | some (h, []) =>
    match runHist none h with
    | .error e => some (showErr e)
    | .ok none => some "none"
    | .ok (some s) => some ("ok " ++ showStats ratIO s)
  | _ => none

def czF (x : Float) : Bool := x.abs ≤ 1e-8

def closeRoundF (c : Float) : Bool := (c.round - c).abs ≤ 1e-8 + 1e-5 * c.abs

def showOut (o : ApplyOut Float) : String :=
  sp (["ok", "f64", toString o.shape.length] ++ o.shape.map toString ++ ["|"] ++ o.data.map floatBits
    ++ ["|"] ++ o.inputAfter.map floatBits)

def handleApply (args : List String) : Option String :=
  let p : P (Bool × Bool × List (Tensor Float × Int) × (Tensor Float × Int)) := do
    let nv ← bool
    let ip ← bool
    let h ← hist floatIO
    let c ← call floatIO
    pure (nv, ip, h, c)
  match p.run args with
  | some ((nv, ip, h, (t, axis)), []) =>
    match runHist none h with
    | .error e => some ("hist-" ++ showErr e)
    | .ok st =>
      match apply Float.sqrt czF nv st t axis ip with
      | .error e => some (showErr e)
      | .ok o => some (showOut o)
  | _ => none

/-! ## C17 -/

inductive Kind | npy | npz | raw
  deriving DecidableEq

/-- the path's content -/
inductive File
  | absent
  | npy (a : Arr Float)
  | npz (f : NpzFile Float)
  | raw (vals : List Float)

def key : P (Option Key) := do
  let t ← tok
  if t = "-" then pure none
  else if t.startsWith "a:" then
    match (t.drop 2).toString.toNat? with
    | some k => pure (some (.arr k))
    | none => failure
  else if t.startsWith "n:" then pure (some (.named (t.drop 2).toString))
  else failure

def showKey : Key → String
  | .arr k => "a:" ++ toString k
  | .named s => "n:" ++ s

inductive Op
  | acc (t : Tensor Float) (axis : Int)
  | new
  | save (key : Option Key) (compress overwrite : Bool)
  | load (key : Option Key)
  | have_
  | put (entries : List (Key × Nat))
  | write (vals : List Float)
  | delete

def op : P Op := do
  match (← tok) with
  | "A" => do let (t, a) ← call floatIO; pure (.acc t a)
  | "N" => pure .new
  | "S" => do
    let k ← key
    let c ← bool
    let o ← bool
    pure (.save k c o)
  | "L" => do let k ← key; pure (.load k)
  | "H" => pure .have_
  | "P" => do
    let n ← nat
    let es ← many (do
      let k ← key
      let i ← nat
      match k with
      | some k => pure (k, i)
      | none => failure) n
    pure (.put es)
  | "W" => do
    let n ← nat
    let xs ← many (num floatIO) n
    pure (.write xs)
  | "D" => pure .delete
  | _ => failure

/-- real byte re-interpretation (little endian), as `np.frombuffer(a.tobytes(), …)` does it -/
def f64as32 (l : List Float) : List Float :=
  l.flatMap fun x =>
    let b : UInt64 := x.toBits
    [(Float32.ofBits b.toUInt32).toFloat, (Float32.ofBits (b >>> 32).toUInt32).toFloat]

def f32as64 : List Float → List Float
  | x :: y :: rest =>
    Float.ofBits (x.toFloat32.toBits.toUInt64 ||| (y.toFloat32.toBits.toUInt64 <<< 32)) :: f32as64 rest
  | _ => []

def reinterp : Reinterp Float := { f32as64 := f32as64, f64as32 := f64as32 }

def showArrKeys (f : NpzFile Float) : String :=
  ",".intercalate (f.entries.map fun e =>
    showKey e.1 ++ "=" ++ ".".intercalate (e.2.shape.map toString))

structure St where
  obj : Option (Stats Float) := none
  file : File := .absent
  out : List String := []
  dead : Bool := false   -- an exception escaped `accumulate`: later object state is not modelled

def step (kind : Kind) (s : St) (o : Op) : St :=
  match o with
  | .acc t axis =>
    match accumulate s.obj t axis with
    | .ok st => { s with obj := some st }
    | .error e => { s with out := s.out ++ ["A:" ++ showErr e] }
  | .new => { s with obj := none }
  | .have_ => { s with out := s.out ++ [if (activeStats s.obj).isSome then "H:1" else "H:0"] }
  | .delete => { s with file := .absent }
  | .put es =>
    { s with file := .npz { compressed := false
                            entries := es.map fun (k, i) => (k, { shape := [1], data := [Float.ofNat i] }) } }
  | .write xs => { s with file := .raw xs }
  | .save k c ow =>
    match kind with
    | .npy =>
      match saveNpy s.obj with
      | .ok a => { s with file := .npy a, out := s.out ++ ["S:ok"] }
      | .error e => { s with out := s.out ++ ["S:" ++ showErr e] }
    | .raw =>
      match saveRaw s.obj with
      | .ok v => { s with file := .raw v, out := s.out ++ ["S:ok"] }
      | .error e => { s with out := s.out ++ ["S:" ++ showErr e] }
    | .npz =>
      let ex := match s.file with | .npz f => some f | _ => none
      match saveNpz s.obj ex k c ow with
      | .ok (k', f) =>
        { s with file := .npz f
                 out := s.out ++ [sp ["S:ok", showKey k', if f.compressed then "1" else "0", showArrKeys f]] }
      | .error e => { s with out := s.out ++ ["S:" ++ showErr e] }
  | .load k =>
    let r : Except Err (Stats Float) :=
      match kind, s.file with
      | .npy, .npy a => loadNpy closeRoundF reinterp (some a)
      | .npy, .absent => loadNpy closeRoundF reinterp none
      | .npz, .npz f => loadNpz closeRoundF reinterp (some f) k
      | .npz, .absent => loadNpz closeRoundF reinterp none k
      | .raw, .raw v => loadRaw closeRoundF reinterp (some v)
      | .raw, .absent => loadRaw closeRoundF reinterp none
      | _, _ => .error .Unmodelled
    match r with
    | .ok st => { s with out := s.out ++ ["L:ok " ++ showStats floatIO st] }
    | .error e => { s with out := s.out ++ ["L:" ++ showErr e] }

def handleSeq (args : List String) : Option String :=
  let p : P (Kind × List Op) := do
    let k ← match (← tok) with
      | "npy" => pure Kind.npy
      | "npz" => pure Kind.npz
      | "raw" => pure Kind.raw
      | _ => failure
    let n ← nat
    let ops ← many op n
    pure (k, ops)
  match p.run args with
  | some ((k, ops), []) =>
    let s := ops.foldl (step k) {}
    some (" ; ".intercalate s.out)
  | _ => none

end PdsVerif.Model.StandardizeDrv

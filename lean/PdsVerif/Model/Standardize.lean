/-
  Executable model of `pydrobert.speech.post.Standardize` (C16, C17).  CORE LEAN ONLY.

  Mirrors `src/pydrobert/speech/post.py` (class `Standardize`, with the two C17 repairs applied:
  the raw-statistics validity predicate only demands `count ≥ 0` and `sums of squares ≥ 0`, and
  `save` copies an existing `.npz` archive into a dict) and the three `read_signal` back-ends it is
  used with here (`npy`, `npz`, `file`) of `src/pydrobert/speech/util.py`.

  Arithmetic is written once against the core operator classes and is instantiated at
  * `Rat`   (driver: exact sufficient statistics),
  * `Float` (driver: `apply`, with `Float.sqrt`),
  * any ordered field / `ℝ` (theorems, `Props/C16.lean`, `Props/C17.lean`).
  `sqrt` (`varss ** 0.5`), the `np.isclose(varss, 0)` test and the `np.isclose(np.round(c), c)` test are
  explicit parameters; no law about them is assumed in this file.

  Representation
  * the 2 × (F+1) statistics matrix `_stats` is `Stats`: `sum = _stats[0,:-1]`, `cnt = _stats[0,-1]`,
    `sq = _stats[1,:-1]`, `pad = _stats[1,-1]` (allocated as 0 and never updated by the code);
    `_stats is None` is `none`.
  * an `ndarray` is `Tensor` (dtype tag, shape, row-major data).  What NumPy's reductions over "all axes
    but `axis`" see of it is the list of its feature vectors along that axis, `vectorsAlong`
    (= `np.moveaxis(t, axis, -1).reshape(-1, F)`, written with explicit row-major strides);
    `Tensor.view` / `unview` go back and forth.  The arithmetic of `_accumulate_tensor` /
    `_apply_tensor` is modelled on that list (`accTensor`, `applyTens`).
-/
namespace PdsVerif.Model.Standardize

/-- the exceptions of the modelled code; `Malformed` = the wire gave something that is not an ndarray
(data length ≠ product of shape); `Unmodelled` = a state outside this model (statistics that are not a
2 × (F+1) matrix); `Fuel` = a bounded search ran out (proved unreachable). -/
inductive Err
  | ValueError | IOError | KeyError | IndexError | TypeError | Malformed | Unmodelled | Fuel
  deriving DecidableEq, Repr

/-- dtype tags (values are carried exactly in `α`; every dtype here embeds exactly in float64) -/
inductive DT | f64 | f32 | i32 | i16
  deriving DecidableEq, Repr

/-- `_stats` -/
structure Stats (α : Type) where
  sum : List α
  cnt : α
  sq : List α
  pad : α
  deriving Repr

/-- `_stats.shape[1] - 1` -/
def Stats.dim {α : Type} (s : Stats α) : Nat := s.sum.length

/-- the two rows of the matrix have the same length -/
def Stats.WF {α : Type} (s : Stats α) : Prop := s.sq.length = s.sum.length

section arith
variable {α : Type} [Add α] [Sub α] [Mul α] [Div α] [Zero α] [One α] [NatCast α]

/-! ## element-wise helpers -/

/-- `a + b` on equal-length 1-D arrays -/
def vadd (a b : List α) : List α := List.zipWith (· + ·) a b

/-- `np.square(v)` / `v ** 2` -/
def vsq (v : List α) : List α := v.map fun x => x * x

def zeros (n : Nat) : List α := List.replicate n 0

def ones (n : Nat) : List α := List.replicate n 1

/-- `t.sum(axis=other_axes)` on the feature vectors of `t`: the coefficient-wise sum -/
def colSum (F : Nat) (vs : List (List α)) : List α := vs.foldl vadd (zeros F)

/-- `np.zeros((2, F + 1))` -/
def Stats.zero (F : Nat) : Stats α := { sum := zeros F, cnt := 0, sq := zeros F, pad := 0 }

/-! ## accumulate -/

/-- `if self._stats is None: zeros  elif self._stats.shape[1] != num_coeffs + 1: raise ValueError` -/
def initOrCheck (st : Option (Stats α)) (F : Nat) : Except Err (Stats α) :=
  match st with
  | none => .ok (Stats.zero F)
  | some s => if s.dim = F then .ok s else .error .ValueError

/-- `_accumulate_vector` -/
def accVec (st : Option (Stats α)) (v : List α) : Except Err (Stats α) :=
  match initOrCheck st v.length with
  | .error e => .error e
  | .ok s => .ok { s with cnt := s.cnt + 1, sum := vadd s.sum v, sq := vadd s.sq (vsq v) }

/-- `_accumulate_tensor` on the feature vectors `vs` (each of length `F`) of the tensor:
`count += prod(other dims)`, `sums += t.sum(other)`, `sumsq += square(t).sum(other)` -/
def accTensor (st : Option (Stats α)) (F : Nat) (vs : List (List α)) : Except Err (Stats α) :=
  match initOrCheck st F with
  | .error e => .error e
  | .ok s => .ok { s with cnt := s.cnt + (vs.length : α)
                          sum := vadd s.sum (colSum F vs)
                          sq := vadd s.sq (colSum F (vs.map vsq)) }

/-- one `accumulate` call, seen along its axis: a 1-D array, or the feature vectors of an n-D one -/
inductive Call (α : Type)
  | vec (v : List α)
  | tens (F : Nat) (vs : List (List α))

def Call.vectors : Call α → List (List α)
  | .vec v => [v]
  | .tens _ vs => vs

def Call.dim : Call α → Nat
  | .vec v => v.length
  | .tens F _ => F

/-- `accumulate`: the emptiness guard, then the vector / tensor path -/
def accCall (st : Option (Stats α)) : Call α → Except Err (Stats α)
  | .vec v => if v.isEmpty then .error .ValueError else accVec st v
  | .tens F vs => if F = 0 ∨ vs.isEmpty then .error .ValueError else accTensor st F vs

/-- a history of `accumulate` calls on one object (an exception leaves the object unusable here) -/
def run (st : Option (Stats α)) : List (Call α) → Except Err (Option (Stats α))
  | [] => .ok st
  | c :: cs =>
    match accCall st c with
    | .error e => .error e
    | .ok s => run (some s) cs

/-! ## apply -/

/-- `self.have_stats` (truthiness of `_stats[0,-1]`), returning the matrix when it holds -/
def activeStats [BEq α] (st : Option (Stats α)) : Option (Stats α) :=
  match st with
  | none => none
  | some s => if s.cnt == 0 then none else some s

/-- `self._stats[0, :-1] / count` -/
def means (s : Stats α) : List α := s.sum.map (· / s.cnt)

/-- `sumsq / count - means ** 2` -/
def varOf (cnt : α) (sq mu : List α) : List α :=
  List.zipWith (fun q m => q / cnt - m * m) sq mu

/-- `varss[np.isclose(varss, 0)] = 1; scales = 1 / varss ** 0.5` -/
def scales (sqrt : α → α) (cz : α → Bool) (v : List α) : List α :=
  v.map fun x => 1 / sqrt (if cz x then 1 else x)

/-- `vec *= scales; vec -= means * scales` -/
def affine (x sc mu : List α) : List α :=
  List.zipWith (· - ·) (List.zipWith (· * ·) x sc) (List.zipWith (· * ·) mu sc)

/-- `if self._stats is not None and self._stats.shape[1] != num_coeffs + 1: raise ValueError` -/
def dimCheck (st : Option (Stats α)) (F : Nat) : Except Err Unit :=
  match st with
  | some s => if s.dim = F then .ok () else .error .ValueError
  | none => .ok ()

/-- `_apply_vector` (values only; dtype / aliasing are in `apply`) -/
def applyVec [BEq α] (sqrt : α → α) (cz : α → Bool) (normVar : Bool) (st : Option (Stats α))
    (x : List α) : Except Err (List α) :=
  match dimCheck st x.length with
  | .error e => .error e
  | .ok () =>
    match activeStats st with
    | some s =>
      let mu := means s
      let sc := if normVar then scales sqrt cz (varOf s.cnt s.sq mu) else ones x.length
      .ok (affine x sc mu)
    | none => if normVar then .error .ValueError else .ok (zeros x.length)

/-- `_apply_tensor` on the feature vectors `vs` of the tensor; `single` is the code's
`sum(shape[i] for i in other_axes) == len(other_axes)` -/
def applyTens [BEq α] (sqrt : α → α) (cz : α → Bool) (normVar : Bool) (st : Option (Stats α))
    (single : Bool) (F : Nat) (vs : List (List α)) : Except Err (List (List α)) :=
  match dimCheck st F with
  | .error e => .error e
  | .ok () =>
    let finish (mu var : List α) : List (List α) :=
      let sc := if normVar then scales sqrt cz var else ones F
      vs.map fun v => affine v sc mu
    match activeStats st with
    | some s => .ok (finish (means s) (varOf s.cnt s.sq (means s)))
    | none =>
      if single then
        if normVar then .error .ValueError else .ok (vs.map fun _ => zeros F)
      else
        let cnt : α := (vs.length : α)
        let mu := (colSum F vs).map (· / cnt)
        .ok (finish mu (varOf cnt (colSum F (vs.map vsq)) mu))

end arith

/-! ## ndarrays: shape, axis, feature vectors along an axis -/

structure Tensor (α : Type) where
  dtype : DT
  shape : List Nat
  data : List α

def prodNat (l : List Nat) : Nat := l.foldl (· * ·) 1

def sumNat (l : List Nat) : Nat := l.foldl (· + ·) 0

/-- Python indexing `shape[axis]` / `axis % len(shape)`: valid for `-rank ≤ axis < rank` -/
def normAxis (rank : Nat) (axis : Int) : Except Err Nat :=
  if 0 ≤ axis ∧ axis < rank then .ok axis.toNat
  else if -(rank : Int) ≤ axis ∧ axis < 0 then .ok (axis + rank).toNat
  else .error .IndexError

/-- `tuple(shape[idx] for idx in other_axes)` -/
def otherDims (shape : List Nat) (ax : Nat) : List Nat := shape.take ax ++ shape.drop (ax + 1)

/-- all entries present, or `none` -/
def allSome {β : Type} : List (Option β) → Option (List β)
  | [] => some []
  | none :: _ => none
  | some x :: xs =>
    match allSome xs with
    | none => none
    | some r => some (x :: r)

/-- the feature vectors of a row-major array of shape `pre ++ [F] ++ post` (`A = prod pre`,
`B = prod post`) along the `F` axis, in row-major order of the other axes:
vector `a*B + b` is `[data[(a*F + i)*B + b] for i in range(F)]`.  `none` iff `data` is too short. -/
def vectorsAlong {α : Type} (A F B : Nat) (data : List α) : Option (List (List α)) :=
  allSome ((List.range (A * B)).map fun ab =>
    allSome ((List.range F).map fun i => data[((ab / B) * F + i) * B + ab % B]?))

/-- `ys[a*B + b][i]` for the flat index `k = (a*F + i)*B + b` -/
def unviewAt {α : Type} (F B : Nat) (ys : List (List α)) (k : Nat) : Option α :=
  match ys[(k / (F * B)) * B + k % B]? with
  | none => none
  | some v => v[(k / B) % F]?

/-- inverse re-layout: `out[(a*F + i)*B + b] = ys[a*B + b][i]` -/
def unview {α : Type} (A F B : Nat) (ys : List (List α)) : Option (List α) :=
  allSome ((List.range (A * F * B)).map (unviewAt F B ys))

structure View (α : Type) where
  A : Nat
  F : Nat
  B : Nat
  vecs : List (List α)

/-- `shape[axis]`, the other axes, and the feature vectors -/
def Tensor.view {α : Type} (t : Tensor α) (axis : Int) : Except Err (View α) :=
  match normAxis t.shape.length axis with
  | .error e => .error e
  | .ok ax =>
    match t.shape[ax]? with
    | none => .error .IndexError
    | some F =>
      let A := prodNat (t.shape.take ax)
      let B := prodNat (t.shape.drop (ax + 1))
      if t.data.length ≠ A * F * B then .error .Malformed
      else match vectorsAlong A F B t.data with
        | none => .error .Malformed
        | some vs => .ok { A := A, F := F, B := B, vecs := vs }

/-- `sum(tensor.shape[idx] for idx in other_axes) == len(other_axes)` -/
def singleVector (shape : List Nat) (axis : Int) : Bool :=
  match normAxis shape.length axis with
  | .error _ => false
  | .ok ax => sumNat (otherDims shape ax) == (otherDims shape ax).length

section api
variable {α : Type} [Add α] [Sub α] [Mul α] [Div α] [Zero α] [One α] [NatCast α] [BEq α]

/-- `(features.shape and not np.prod(features.shape)) or not len(features)`; a 0-d array has no `len` -/
def emptyGuard (t : Tensor α) : Except Err Unit :=
  if t.shape.length = 0 then .error .TypeError
  else if prodNat t.shape = 0 then .error .ValueError
  else if t.data.length ≠ prodNat t.shape then .error .Malformed
  else .ok ()

/-- `Standardize.accumulate(features, axis)` -/
def accumulate (st : Option (Stats α)) (t : Tensor α) (axis : Int) : Except Err (Stats α) :=
  match emptyGuard t with
  | .error e => .error e
  | .ok () =>
    if t.shape.length > 1 then
      match t.view axis with
      | .error e => .error e
      | .ok w => accTensor st w.F w.vecs
    else accVec st t.data

/-- what `apply` returns and what it leaves in the caller's array -/
structure ApplyOut (α : Type) where
  dtype : DT
  shape : List Nat
  data : List α
  inputAfter : List α

/-- `Standardize.apply(features, axis, in_place)` -/
def apply (sqrt : α → α) (cz : α → Bool) (normVar : Bool) (st : Option (Stats α))
    (t : Tensor α) (axis : Int) (inPlace : Bool) : Except Err (ApplyOut α) :=
  -- `if not in_place or features.dtype != np.float64: features = features.astype(np.float64)`
  let out (d : List α) : ApplyOut α :=
    { dtype := .f64, shape := t.shape, data := d
      inputAfter := if inPlace && t.dtype == .f64 then d else t.data }
  match emptyGuard t with
  | .error e => .error e
  | .ok () =>
    if t.shape.length > 1 then
      match t.view axis with
      | .error e => .error e
      | .ok w =>
        match applyTens sqrt cz normVar st (singleVector t.shape axis) w.F w.vecs with
        | .error e => .error e
        | .ok ys =>
          match unview w.A w.F w.B ys with
          | none => .error .Malformed
          | some d => .ok (out d)
    else
      match applyVec sqrt cz normVar st t.data with
      | .error e => .error e
      | .ok d => .ok (out d)

end api

/-! ## save / load (C17) -/

/-- a float64 ndarray inside a container -/
structure Arr (α : Type) where
  shape : List Nat
  data : List α
  deriving Repr

/-- archive keys: the pattern `arr_<decimal>` that `save` searches, or any other string -/
inductive Key
  | named (s : String)
  | arr (k : Nat)
  deriving DecidableEq, Repr

/-- an `.npz` archive in `dict` / zip-directory order, with the flag "written by savez_compressed" -/
structure NpzFile (α : Type) where
  compressed : Bool
  entries : List (Key × Arr α)

section io
variable {α : Type} [Zero α] [LE α] [DecidableLE α] [BEq α]

/-- row-major flattening of the 2 × (F+1) matrix: what `tofile` / `np.save` store -/
def Stats.toFlat (s : Stats α) : List α := (s.sum ++ [s.cnt]) ++ (s.sq ++ [s.pad])

def Stats.toArr (s : Stats α) : Arr α := { shape := [2, s.dim + 1], data := s.toFlat }

/-- `a.reshape((2, -1))`; `none` = NumPy's `ValueError` (odd size; size 0 reshapes to `(2, 0)`) -/
def reshape2 (flat : List α) : Option (List α × List α) :=
  if flat.length % 2 ≠ 0 then none
  else some (flat.take (flat.length / 2), flat.drop (flat.length / 2))

/-- split rows into `[:-1]` and `[-1]` -/
def Stats.ofRows (r0 r1 : List α) : Option (Stats α) :=
  match r0.getLast?, r1.getLast? with
  | some c, some p => some { sum := r0.dropLast, cnt := c, sq := r1.dropLast, pad := p }
  | _, _ => none

/-- the (repaired) sanity predicate of `_sanitize_stats`:
`isclose(round(count), count) & (count >= 0) & all(stats[1] >= 0)` -/
def valid (closeRound : α → Bool) (s : Stats α) : Bool :=
  closeRound s.cnt && decide (0 ≤ s.cnt) && (s.sq.all (fun x => decide (0 ≤ x)) && decide (0 ≤ s.pad))

/-- the predicate before the repair: `isclose(round(count), count) & all(stats >= 0)` -/
def validOld (closeRound : α → Bool) (s : Stats α) : Bool :=
  closeRound s.cnt && (s.toFlat.all fun x => decide (0 ≤ x))

/-- body of `_sanitize_stats` up to the decision: reshape, then `valid` (`.ok none` = not valid).
`self._stats[0, -1]` on a `(2, 0)` matrix (empty file) raises `IndexError`, which the code's
`except ValueError` does not catch. -/
def sanitizeOnce (closeRound : α → Bool) (flat : List α) : Except Err (Option (Stats α)) :=
  match reshape2 flat with
  | none => .ok none
  | some (r0, r1) =>
    match Stats.ofRows r0 r1 with
    | none => .error .IndexError
    | some s => if valid closeRound s then .ok (some s) else .ok none

/-- byte re-interpretation of a 1-D array, abstract: `np.frombuffer(a.tobytes(), float64)` for a float32
`a`, and `np.frombuffer(a.tobytes(), float32).astype(float64)` for a float64 `a` -/
structure Reinterp (α : Type) where
  f32as64 : List α → List α
  f64as32 : List α → List α

/-- `_sanitize_stats(checked_other_float=True)` -/
def sanitizeChecked (closeRound : α → Bool) (flat : List α) : Except Err (Stats α) :=
  match sanitizeOnce closeRound flat with
  | .error e => .error e
  | .ok (some s) => .ok s
  | .ok none => .error .IOError

/-- `_sanitize_stats()` for statistics that were read with dtype `dt` -/
def sanitize (closeRound : α → Bool) (R : Reinterp α) (dt : DT) (flat : List α) : Except Err (Stats α) :=
  match sanitizeOnce closeRound flat with
  | .error e => .error e
  | .ok (some s) => .ok s
  | .ok none =>
    match dt with
    | .f32 => sanitizeChecked closeRound (R.f32as64 flat)
    | .f64 => sanitizeChecked closeRound (R.f64as32 flat)
    | _ => .error .ValueError

/-- end of `__init__` once the probing loop has an array (always read with `dtype=np.float64` for the
three file kinds here): 1-D → `_sanitize_stats`; a 2 × (F+1) matrix is taken as it is -/
def ofLoaded (closeRound : α → Bool) (R : Reinterp α) (a : Arr α) : Except Err (Stats α) :=
  match a.shape with
  | [_] => sanitize closeRound R .f64 a.data
  | [2, _] =>
    match reshape2 a.data with
    | none => .error .Unmodelled
    | some (r0, r1) =>
      match Stats.ofRows r0 r1 with
      | none => .error .Unmodelled
      | some s => .ok s
  | _ => .error .Unmodelled

/-- `save`'s guard `if not self.have_stats: raise ValueError` -/
def saveGuard (st : Option (Stats α)) : Except Err (Stats α) :=
  match activeStats st with
  | some s => .ok s
  | none => .error .ValueError

/-- `np.save(wfilename, self._stats)` (replaces whatever the path held) -/
def saveNpy (st : Option (Stats α)) : Except Err (Arr α) :=
  match saveGuard st with
  | .error e => .error e
  | .ok s => .ok s.toArr

/-- `self._stats.tofile(wfilename)`: the file as a sequence of float64 items -/
def saveRaw (st : Option (Stats α)) : Except Err (List α) :=
  match saveGuard st with
  | .error e => .error e
  | .ok s => .ok s.toFlat

def hasKey (es : List (Key × Arr α)) (k : Key) : Bool := es.any fun e => e.1 == k

def lookup (es : List (Key × Arr α)) (k : Key) : Option (Arr α) :=
  match es.find? fun e => e.1 == k with
  | some e => some e.2
  | none => none

/-- `for key in ("arr_{}".format(v) for v in count(0)): if key not in array: break`, with fuel
`len(array) + 1` (sufficient: `firstUnused_isSome`) -/
def firstUnused (es : List (Key × Arr α)) : Option Nat :=
  (List.range (es.length + 1)).find? fun k => !(hasKey es (.arr k))

/-- `array[key] = stats` on a dict: replace in place, or append -/
def upsert (es : List (Key × Arr α)) (k : Key) (a : Arr α) : List (Key × Arr α) :=
  if hasKey es k then es.map fun e => if e.1 == k then (k, a) else e else es ++ [(k, a)]

/-- `array = dict(); if overwrite: try: array = dict(np.load(wfilename)) except IOError: pass` -/
def baseArchive (existing : Option (NpzFile α)) (overwrite : Bool) : List (Key × Arr α) :=
  if overwrite then (match existing with | some f => f.entries | none => []) else []

/-- the `.npz` branch of `save`; returns the key used and the new archive -/
def saveNpz (st : Option (Stats α)) (existing : Option (NpzFile α)) (key : Option Key)
    (compress overwrite : Bool) : Except Err (Key × NpzFile α) :=
  match saveGuard st with
  | .error e => .error e
  | .ok s =>
    let array : List (Key × Arr α) := baseArchive existing overwrite
    let k? : Option Key :=
      match key with
      | some k => some k
      | none => (firstUnused array).map Key.arr
    match k? with
    | none => .error .Fuel
    | some k => .ok (k, { compressed := compress, entries := upsert array k s.toArr })

/-- `read_signal(.npy)` + end of `__init__` -/
def loadNpy (closeRound : α → Bool) (R : Reinterp α) (file : Option (Arr α)) : Except Err (Stats α) :=
  match file with
  | none => .error .IOError
  | some a => ofLoaded closeRound R a

/-- `read_signal(.npz, key=key)`: `archive[key] if key else archive["arr_0"]` (KeyError propagates) -/
def loadNpz (closeRound : α → Bool) (R : Reinterp α) (file : Option (NpzFile α)) (key : Option Key) :
    Except Err (Stats α) :=
  match file with
  | none => .error .IOError
  | some f =>
    let k : Key :=
      match key with
      | none => .arr 0
      | some (.named s) => if s.isEmpty then .arr 0 else .named s
      | some k => k
    match lookup f.entries k with
    | none => .error .KeyError
    | some a => ofLoaded closeRound R a

/-- `read_signal(force_as="file")` = `np.fromfile(dtype=float64)` (1-D) + end of `__init__` -/
def loadRaw (closeRound : α → Bool) (R : Reinterp α) (file : Option (List α)) : Except Err (Stats α) :=
  match file with
  | none => .error .IOError
  | some vals => ofLoaded closeRound R { shape := [vals.length], data := vals }

end io

end PdsVerif.Model.Standardize

/- line-protocol handler for the generated scale functions at `Float` -/
import PdsVerif.Generated.Scales
namespace PdsVerif.Model.ScalesDrv
open PdsVerif PdsVerif.Gen.Scales

/-- `scale <fn> <bits>*` : parameters then the argument, all as IEEE bit patterns. -/
def handle (args : List String) : Option String := do
  match args with
  | fn :: rest =>
    let xs ← rest.mapM floatOfBits?
    let r : Float ← match fn, xs with
      | "linear_h2s", [l, s, x] => some (linear_h2s l s x)
      | "linear_s2h", [l, s, x] => some (linear_s2h l s x)
      | "octave_h2s", [l, x] => some (octave_h2s l x)
      | "octave_s2h", [l, x] => some (octave_s2h l x)
      | "mel_h2s", [x] => some (mel_h2s x)
      | "mel_s2h", [x] => some (mel_s2h x)
      | "bark_h2s", [x] => some (bark_h2s x)
      | "bark_s2h", [x] => some (bark_s2h x)
      | _, _ => none
    some (floatBits r)
  | _ => none

end PdsVerif.Model.ScalesDrv

/- line-protocol handlers for the STFT framing model and the segment walk -/
import PdsVerif.DriverLoop
import PdsVerif.Model.Stft
import PdsVerif.Model.StftRaw
import PdsVerif.Model.Walk
import PdsVerif.Model.TorchStft
namespace PdsVerif.Model.StftDrv
open PdsVerif PdsVerif.Model

def showFrames (fs : List (List Nat)) : String :=
  if fs.isEmpty then "-" else "|".intercalate (fs.map showNats)

def parseBool (s : String) : Option Bool :=
  if s == "1" then some true else if s == "0" then some false else none

/-- ops: `c<n>` chunk of the next n samples, `z` finalize, `F<n>` compute_full on n samples,
`B<n>:<k>` frame_by_frame_calculation on n samples with chunk_size k.  Samples are named by their
index in the current utterance.  The *physical-buffer* model is executed (junk cells = 999983).
Each answer is `<frames>/<started after the call>`. -/
def showOut (o : Stft.Out Nat) (st : Bool) : String :=
  (match o with | .frames f => showFrames f | .valueError => "E") ++ (if st then "/1" else "/0")

def runOps (c : Stft.Cfg) : StftRaw.Raw Nat → Nat → List String → Option (List String)
  | _, _, [] => some []
  | s, off, op :: rest => do
    let body := (op.drop 1).toString
    match op.front with
    | 'c' =>
      let n ← body.toNat?
      let r := StftRaw.step c s (.chunk ((List.range n).map (· + off)))
      let tl ← runOps c r.1 (off + n) rest
      some (showOut r.2 r.1.started :: tl)
    | 'z' =>
      if body ≠ "" then none else
      let r := StftRaw.step c s .finalize
      let tl ← runOps c r.1 0 rest
      some (showOut r.2 r.1.started :: tl)
    | 'F' =>
      let n ← body.toNat?
      let r := StftRaw.step c s (.full (List.range n))
      let tl ← runOps c r.1 off rest
      some (showOut r.2 r.1.started :: tl)
    | 'B' =>
      match body.splitOn ":" with
      | [a, b] =>
        let n ← a.toNat?
        let k ← b.toNat?
        if k = 0 then none else
        let r := StftRaw.step c s (.fbf (List.range n) k)
        let tl ← runOps c r.1 (if s.started then off else 0) rest
        some (showOut r.2 r.1.started :: tl)
      | _ => none
    | _ => none

def handleStft (args : List String) : Option String := do
  match args with
  | l :: s :: ce :: ka :: ops =>
    let c : Stft.Cfg := { L := ← l.toNat?, S := ← s.toNat?, centered := ← parseBool ce, kaldi := ← parseBool ka }
    -- streaming ops are modelled for 1 ≤ S ≤ L only; `F` (compute_full) for every shift as long as the Kaldi
    -- left padding L/2 - S/2 is not negative (np.pad rejects that)
    if c.S = 0 ∨ (c.S > c.L ∧ ops.any (fun o => o.front ≠ 'F')) ∨ (c.kaldi ∧ c.S / 2 > c.L / 2) then none else
    let outs ← runOps c (StftRaw.fresh (List.replicate c.L 999983)) 0 ops
    some (";".intercalate outs)
  | _ => none

def showHits (hs : List Walk.Hit) : String :=
  if hs.isEmpty then "-" else
    "|".intercalate (hs.map fun h => s!"{h.idx},{if h.conj then 1 else 0},{h.tap}")

def handleWalk (torch : Bool) (args : List String) : Option String := do
  match args with
  | [d, s, l] =>
    let D ← d.toNat?
    let st ← s.toNat?
    let len ← l.toNat?
    if D = 0 then none else
    some (showHits (if torch then Walk.runTorch D st len else Walk.run D st len))
  | _ => none

/-- `tframes L S centered kaldi N` : the PyTorch port's framing of a signal of N samples; `X` = RuntimeError -/
def handleTorchFrames (args : List String) : Option String := do
  match args with
  | [l, s, ce, ka, n] =>
    let c : Stft.Cfg := { L := ← l.toNat?, S := ← s.toNat?, centered := ← parseBool ce, kaldi := ← parseBool ka }
    if c.S = 0 ∨ c.L = 0 ∨ (c.kaldi ∧ c.S / 2 > c.L / 2) then none else
    match TorchStft.frames c (List.range (← n.toNat?)) with
    | some f => some (showFrames f)
    | none => some "X"
  | _ => none

def dispatch (line : String) : String :=
  match tokens line with
  | "stft" :: args => (handleStft args).getD "bad-op"
  | "walk" :: args => (handleWalk false args).getD "bad-op"
  | "walkt" :: args => (handleWalk true args).getD "bad-op"
  | "tframes" :: args => (handleTorchFrames args).getD "bad-op"
  | _ => "bad-op"

end PdsVerif.Model.StftDrv

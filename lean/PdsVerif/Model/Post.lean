/-
  Executable model of `pydrobert.speech.post.Deltas` and `pydrobert.speech.post.Stack`
  (`/repo/src/pydrobert/speech/post.py`, lines 441-491 and 514-563), mirrored statement by statement
  over the tensor model of `Model/Tensor.lean`.  CORE LEAN ONLY.

  The element type is any `α` with the operator classes the code uses (`+ - * /`, casts from `ℕ`,
  `0`).  The driver runs the model at `Rat` (exact); the theorems of `Props/C15.lean` are about the same
  definitions at an arbitrary `Field α` (Deltas) / arbitrary `α` (Stack).
-/
import PdsVerif.Model.Tensor
namespace PdsVerif.Model.Post
open PdsVerif.Model PdsVerif.Model.Tensor

/-! ## NumPy numeric primitives -/
section Num
variable {α : Type} [Add α] [Mul α] [Zero α]

/-- `Σ_n xs[n]·ys[n]` over the common prefix -/
def dot (xs ys : List α) : α := (List.zipWith (· * ·) xs ys).sum

/-- `np.correlate(a, v, "full")` for real data: `c[k] = Σ_n a[k-(len v-1)+n]·v[n]`, `a` taken as zero
outside its support, `k = 0 … len a + len v - 2`. -/
def correlateFull (a v : List α) : List α :=
  let z := List.replicate (v.length - 1) (0 : α)
  let a' := z ++ a ++ z
  (List.range (a.length + v.length - 1)).map fun k => dot (a'.drop k) v

/-- `np.convolve(a, v)` (mode "full"); NumPy implements it as `correlate(a, v[::-1], "full")`. -/
def convolve (a v : List α) : List α := correlateFull a v.reverse

end Num

/-! ## Deltas -/

structure Deltas (α : Type) where
  numDeltas : Nat
  targetAxis : Int := -1
  concatenate : Bool := true
  contextWindow : Nat := 2
  padMode : PadMode α := .edge
  /-- `.astype(features.dtype)` applied to the float64 intermediate (identity for float data,
  truncation toward zero for integer data) -/
  cast : α → α := id

namespace Deltas
section
variable {α : Type} [NatCast α] [Add α] [Sub α] [Mul α] [Div α] [Zero α]

/-- `__init__`: `delta_filter = arange(1+2W) - W; delta_filter /= sum(delta_filter**2)` -/
def baseFilter (W : Nat) : List α :=
  let raw : List α := (List.range (1 + 2 * W)).map fun (k : Nat) => (k : α) - (W : α)
  let z : α := (raw.map fun v => v * v).sum
  raw.map fun v => v / z

/-- `__init__`: `self._filts = [ones(1)]; for idx in range(num_deltas):
self._filts.append(np.convolve(self._filts[idx], delta_filter))` -/
def filts (W D : Nat) : List (List α) :=
  (List.range D).foldl
    (fun fs idx => fs ++ [convolve (fs.getD idx []) (baseFilter W)])
    [[((1 : Nat) : α)]]

/-- the `d`-th filter in closed recursion (`Lemmas.Post.filts_eq`: `filts W D = map (filt W) [0..D]`) -/
def filt (W : Nat) : Nat → List α
  | 0 => [((1 : Nat) : α)]
  | d + 1 => convolve (filt W d) (baseFilter W)

variable [Inhabited α]

/-- body of the inner loop of `apply` for one 1-D slice:
`np.correlate(np.pad(x, (max_offset, max_offset), mode), filt, "full")[len(filt)-1 : -len(filt)+1]
   .astype(dtype)` -/
def delta1d (filt : List α) (mode : PadMode α) (cast : α → α) (x : List α) : List α :=
  let maxOffset := (filt.length - 1) / 2
  let padded := pad1 maxOffset maxOffset mode x
  let full := correlateFull padded filt
  (pySlice full ((filt.length : Int) - 1) (-(filt.length : Int) + 1)).map cast

/-- `Deltas.apply(features, axis)` (`in_place` is never read by the code).

`np.pad` raises `ValueError` on an empty filtered axis for every mode but `constant`; that happens
inside the loops, i.e. only when there is at least one filter and at least one lane.  (For rank ≥ 1
`lanes > 0 ∧ T = 0` is how "some lane exists and it is empty" reads on shapes.) -/
def apply (c : Deltas α) (x : Tensor α) (axis : Int) : Except Err (Tensor α) :=
  -- rank 0: `range(0)` is empty, so `axis % features.ndim` is never evaluated; the 0-d "slice" then reaches
  -- `np.correlate`, which rejects it (ValueError) - if there is a filter at all
  if x.shape.length = 0 ∧ 1 ≤ c.numDeltas then .error .value
  else
    let ax := (axis % (x.shape.length : Int)).toNat
    let T := x.shape.getD ax 0
    let lanes := numel (x.shape.set ax 1)
    if 1 ≤ c.numDeltas ∧ 0 < lanes ∧ T = 0 ∧ c.padMode.isConstant = false then .error .value
    else
      let deltaFeats := x :: ((filts c.contextWindow c.numDeltas).drop 1).map fun filt =>
        mapLanes ax (delta1d filt c.padMode c.cast) x
      if c.concatenate then Tensor.concatenate deltaFeats c.targetAxis
      else Tensor.stack deltaFeats c.targetAxis

end
end Deltas

/-! ## Kaldi's `DeltaFeatures` (feature-functions.cc), the reference the class documents -/
namespace Kaldi
section
variable {α : Type} [NatCast α] [Add α] [Sub α] [Mul α] [Div α] [Zero α]

/-- One step of the constructor's loop.  Kaldi scatters
`cur(j+k+cur_offset) += j * prev(k+prev_offset)` for `j ∈ [-W,W]`, `k ∈ [-prev_offset, prev_offset]`
into a zero vector of size `prev.Dim() + 2W`, then `cur.Scale(1/normalizer)` with
`normalizer = Σ j²`.  Written here as the equivalent gather: entry `n` collects, for every `j`, the
one `k` with `j+k+cur_offset = n` (if in range). -/
def nextScales (W : Nat) (prev : List α) : List α :=
  -- prev_offset = (prev.Dim()-1)/2 ; cur_offset = prev_offset + W
  let normalizer : α := ((List.range (2 * W + 1)).map fun (u : Nat) => ((u : α) - (W : α)) * ((u : α) - (W : α))).sum
  (List.range (prev.length + 2 * W)).map fun (n : Nat) =>
    ((List.range (2 * W + 1)).map fun (u : Nat) =>
        -- j = u - W ; k + prev_offset = n - cur_offset - j + prev_offset = n - u
        if u ≤ n ∧ n - u < prev.length then ((u : α) - (W : α)) * prev.getD (n - u) 0 else 0).sum
      * (((1 : Nat) : α) / normalizer)

def scales (W : Nat) : Nat → List α
  | 0 => [((1 : Nat) : α)]
  | d + 1 => nextScales W (scales W d)

/-- `DeltaFeatures::Process` for delta order `d`, one feature column `x`, every frame `t`:
`Σ_{j=-max_offset}^{max_offset} scales(j+max_offset) · x[clamp(t+j, 0, T-1)]` -/
def process (W d : Nat) (x : List α) : List α :=
  let sc : List α := scales W d
  let maxOffset := (sc.length - 1) / 2
  (List.range x.length).map fun (t : Nat) =>
    ((List.range (2 * maxOffset + 1)).map fun (jj : Nat) =>
      let off : Int := (t : Int) + (jj : Int) - (maxOffset : Int)
      let fr : Nat := if off < 0 then 0 else if off ≥ (x.length : Int) then x.length - 1 else off.toNat
      sc.getD jj 0 * x.getD fr 0).sum

end
end Kaldi

/-! ## Stack -/

structure Stack (α : Type) where
  numVectors : Nat
  timeAxis : Int := 0
  padMode : Option (PadMode α) := none

namespace Stack
variable {α : Type} [Inhabited α]

/-- `__init__`: `if num_vectors < 1: raise ValueError` -/
def new (numVectors : Int) (timeAxis : Int) (padMode : Option (PadMode α)) : Except Err (Stack α) :=
  if numVectors < 1 then .error .value else .ok ⟨numVectors.toNat, timeAxis, padMode⟩

/-- the `features.ndim == 2` branch: `[.copy()] [.T] [:T] .reshape(nT, nF) [.T]` -/
def path2d (inPlace : Bool) (timeAxis T nT nF : Nat) (x : Tensor α) : Except Err (Tensor α) := do
  let x := if !inPlace then x.copy else x
  let y := if timeAxis ≠ 0 then x.transpose else x
  let y := y.sliceAxis 0 0 T 1
  let y ← y.reshape [nT, nF]
  pure (if timeAxis ≠ 0 then y.transpose else y)

/-- the N-D branch: `concatenate([features[…, i:T:n, …] for i in range(n)], axis)` -/
def pathNd (n timeAxis axis T : Nat) (x : Tensor α) : Except Err (Tensor α) :=
  Tensor.concatenate ((List.range n).map fun i => x.sliceAxis timeAxis i T n) (axis : Int)

/-- what `apply` has computed when it reaches the `if features.ndim == 2` test -/
structure Prep (α : Type) where
  ta : Nat
  ax : Nat
  /-- `T = nT * num_vectors` -/
  T : Nat
  nT : Nat
  nF : Nat
  /-- `features`, right-padded along the time axis if `pad_mode` asks for it -/
  x1 : Tensor α

/-- lines 531-546: axis normalisation (`%`), the `axis == time_axis` guard, optional padding, sizes -/
def prepare (c : Stack α) (x : Tensor α) (axis : Int) : Except Err (Prep α) :=
  if x.shape.length = 0 then .error .zeroDivision
  else
    let ax := (axis % (x.shape.length : Int)).toNat
    let ta := (c.timeAxis % (x.shape.length : Int)).toNat
    if ax = ta then .error .runtime
    else
      let T0 := x.shape.getD ta 0
      let F := x.shape.getD ax 0
      let rem := T0 % c.numVectors
      let padded : Tensor α × Nat := match c.padMode with
        | some mode =>
          if rem ≠ 0 then (x.padAxis ta 0 (c.numVectors - rem) mode, T0 + (c.numVectors - rem))
          else (x, T0)
        | none => (x, T0)
      let nT := padded.2 / c.numVectors
      let nF := F * c.numVectors
      .ok { ta := ta, ax := ax, T := nT * c.numVectors, nT := nT, nF := nF, x1 := padded.1 }

/-- `Stack.apply(features, axis)`.  `in_place` only chooses between a copy and a view in the 2-D
branch; the returned values are the same. -/
def apply (c : Stack α) (x : Tensor α) (axis : Int) (inPlace : Bool := false) : Except Err (Tensor α) := do
  let p ← prepare c x axis
  -- after padding the code sets `in_place = True` (the padded array is already a fresh one)
  let inPlace := inPlace || (c.padMode.isSome && x.shape.getD p.ta 0 % c.numVectors != 0)
  if x.shape.length = 2 then path2d inPlace p.ta p.T p.nT p.nF p.x1
  else pathNd c.numVectors p.ta p.ax p.T p.x1

/-- `apply` with the 2-D special case deleted (every input takes the strided N-D branch);
`C15.stack_2d_eq_nd` shows `apply = applyNd`. -/
def applyNd (c : Stack α) (x : Tensor α) (axis : Int) : Except Err (Tensor α) := do
  let p ← prepare c x axis
  pathNd c.numVectors p.ta p.ax p.T p.x1

end Stack

/-! ## what a call leaves behind

`(returned value, the caller's array after the call)`.  Neither `apply` contains a statement that stores
into `features`: Deltas' only item assignment targets the fresh `delta_feat`; Stack only re-binds the
local name (`np.pad`, `.copy()`, `.T`, slicing, `reshape`, `concatenate`).  In a value model that is all
there is to say; NumPy's view / copy aliasing is outside it (the harness checks the array on every run). -/

def Deltas.applyIO {α : Type} [NatCast α] [Add α] [Sub α] [Mul α] [Div α] [Zero α] [Inhabited α]
    (c : Deltas α) (x : Tensor α) (axis : Int) (_inPlace : Bool) : Except Err (Tensor α) × Tensor α :=
  (c.apply x axis, x)

def Stack.applyIO {α : Type} [Inhabited α]
    (c : Stack α) (x : Tensor α) (axis : Int) (inPlace : Bool) : Except Err (Tensor α) × Tensor α :=
  (c.apply x axis inPlace, x)

/-! ## `np.pad` modes expressed through `PadMode.other` (run by the driver at `Rat`) -/
namespace Pad
variable {α : Type}

/-- `maximum` / `minimum` / `mean` / `median` with the default `stat_length=None`: one statistic of
the whole lane on both sides -/
def stat (f : List α → α) : PadMode α := .other fun _ _ x _ => f x

def maximum [Max α] [Inhabited α] (x : List α) : α := x.foldl max (x.headD default)
def minimum [Min α] [Inhabited α] (x : List α) : α := x.foldl min (x.headD default)
def mean [Add α] [Zero α] [Div α] [NatCast α] (x : List α) : α := x.sum / (x.length : α)
def median [Add α] [Div α] [NatCast α] [Inhabited α] (le : α → α → Bool) (x : List α) : α :=
  let s := x.mergeSort le
  if x.length % 2 = 1 then s.getD (x.length / 2) default
  else (s.getD (x.length / 2 - 1) default + s.getD (x.length / 2) default) / ((2 : Nat) : α)

/-- `linear_ramp` with `end_values=(el, er)`: `np.linspace(end, edge, width, endpoint=False)` on the
left, its mirror image on the right -/
def linearRamp [Add α] [Sub α] [Mul α] [Div α] [NatCast α] [Inhabited α] (el er : α) : PadMode α :=
  .other fun l r x i =>
    if i < 0 then
      el + (x.headD default - el) * (((i + (l : Int)).toNat : Nat) : α) / (l : α)
    else
      er + (x.getLastD default - er) * (((r : Int) - 1 - (i - (x.length : Int))).toNat : α) / (r : α)

end Pad
end PdsVerif.Model.Post

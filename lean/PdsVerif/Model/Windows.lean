/-
  C20 — executable model of the window classes of `pydrobert/speech/filters.py`
  (`BartlettWindow`, `BlackmanWindow`, `HammingWindow`, `HannWindow`, `GammaWindow`).

  Core Lean only.  Polymorphic over the standard operator classes + `Transc` + `NatCast`, so the same
  definitions run at `Float` in the driver and are reasoned about at `ℝ` (`PdsVerif/RealNum.lean`).

  What comes from where
  * the NumPy shape each class calls, the expression it divides by, and every `GammaWindow`
    sub-expression (`alpha`, its branch test, `offs`, `ln_c`, the per-sample kernel) are *generated*
    from the source on every run (`PdsVerif/Generated/UtilFns.lean`);
  * `npWindow` below is NumPy's own `bartlett/blackman/hamming/hanning` (numpy 2.x source:
    `n = arange(1 - M, M, 2)`, then e.g. `0.5 + 0.5*cos(pi*n/(M-1))`, with the `M < 1` and `M == 1`
    special cases) — trusted as NumPy's semantics, exercised by the Float correspondence;
  * the list plumbing of `GammaWindow.get_impulse_response` (width guards, the reversed `arange`,
    `ret[:offs] = kernel`) is modelled by hand here, line by line.
-/
import PdsVerif.Generated.UtilFns

namespace PdsVerif.Model.Windows
open PdsVerif PdsVerif.Gen.UtilFns

instance natCastFloat : NatCast Float := ⟨Float.ofNat⟩

variable {α : Type} [Add α] [Sub α] [Mul α] [Div α] [Neg α] [OfScientific α] [Max α] [Min α]
  [LT α] [LE α] [DecidableLT α] [DecidableLE α] [Transc α] [NatCast α]

/-! ## NumPy's window shapes -/

/-- entry `k` of `arange(1 - M, M, 2)` (NumPy computes `start + k*step`) -/
def npN (M k : Nat) : α := (1.0 - (M : α)) + (k : α) * 2.0

/-- sample `k` of `np.<shape>(M)` for `M ≥ 2` -/
def npSample (s : NpShape) (M k : Nat) : α :=
  let n : α := npN M k
  let d : α := (M : α) - 1.0
  match s with
  | .hanning => 0.5 + 0.5 * Transc.cos (Transc.pi * n / d)
  | .hamming => 0.54 + 0.46 * Transc.cos (Transc.pi * n / d)
  | .blackman => 0.42 + 0.5 * Transc.cos (Transc.pi * n / d) + 0.08 * Transc.cos (2.0 * Transc.pi * n / d)
  | .bartlett => if n ≤ 0.0 then 1.0 + n / d else 1.0 - n / d

/-- `np.bartlett(M)` etc.: `[]` for `M < 1`, `[1.]` for `M == 1`. -/
def npWindow (s : NpShape) (M : Nat) : List α :=
  if M < 1 then [] else if M = 1 then [1.0] else (List.range M).map (npSample s M)

/-! ## the four NumPy-based window classes -/

inductive Kind where
  | bartlett | blackman | hamming | hann
  deriving DecidableEq, Repr

/-- which NumPy function the class calls (generated) -/
def shapeOf : Kind → NpShape
  | .bartlett => bartlett_shape
  | .blackman => blackman_shape
  | .hamming => hamming_shape
  | .hann => hann_shape

/-- what the class divides by (generated) -/
def normOf : Kind → α → α
  | .bartlett => bartlett_norm
  | .blackman => blackman_norm
  | .hamming => hamming_norm
  | .hann => hann_norm

/-- `<Kind>Window().get_impulse_response(width)`: `window = np.X(width); window /= norm; return window` -/
def window (k : Kind) (width : Nat) : List α :=
  (npWindow (shapeOf k) width).map (fun x => x / normOf k (width : α))

/-! ## GammaWindow -/

/-- `math.factorial` -/
def fact : Nat → Nat
  | 0 => 1
  | n + 1 => (n + 1) * fact n

inductive Err where
  /-- `math.factorial(-1)` when `order = 0` -/
  | valueError
  deriving DecidableEq, Repr

/-- sample `k` of the result for `width ≥ 2`: `ret = arange(width-1, -1, -1)` holds `t = width-1-k` at `k`;
`ret[:offs] = kernel(ret[:offs])` overwrites the first `offs` samples. -/
def gammaSample (order : Nat) (peak : α) (width k : Nat) : α :=
  let o : α := (order : α)
  let alpha : α := gamma_alpha o peak (width : α)
  let ln_c : α := gamma_ln_c o alpha ((fact (order - 1) : Nat) : α)
  let t : α := ((width - 1 - k : Nat) : α)
  if k < gamma_offs o width then gamma_kernel o alpha ln_c t else t

/-- `GammaWindow(order, peak).get_impulse_response(width)` (`order : Nat`; `order = 0` reaches
`math.factorial(-1)` and raises once the two width guards are passed). -/
def gamma (order : Nat) (peak : α) (width : Nat) : Except Err (List α) :=
  if width ≤ 0 then .ok []
  else if width = 1 then .ok [1.0]
  else if order = 0 then .error .valueError
  else .ok ((List.range width).map (gammaSample order peak width))

end PdsVerif.Model.Windows

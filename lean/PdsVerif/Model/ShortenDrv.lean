/- line-protocol handlers for the shorten model (property C13) -/
import PdsVerif.Model.Shorten
import PdsVerif.DriverLoop
namespace PdsVerif.Model.ShortenDrv
open PdsVerif PdsVerif.Model.Shorten

def hexVal (c : Char) : Option Nat :=
  if '0' ≤ c ∧ c ≤ '9' then some (c.toNat - '0'.toNat)
  else if 'a' ≤ c ∧ c ≤ 'f' then some (c.toNat - 'a'.toNat + 10)
  else none

def parseHex (s : String) : Option (List Nat) :=
  if s == "-" then some [] else
  let rec go : List Char → List Nat → Option (List Nat)
    | [], acc => some acc.reverse
    | [_], _ => none
    | a :: b :: r, acc => do
      let x ← hexVal a
      let y ← hexVal b
      go r ((16 * x + y) :: acc)
  go s.toList []

def hexDigit (n : Nat) : Char := if n < 10 then Char.ofNat (48 + n) else Char.ofNat (87 + n)

def showHex (l : List Nat) : String :=
  if l.isEmpty then "-" else String.ofList (l.flatMap fun b => [hexDigit (b / 16), hexDigit (b % 16)])

def showErr : Err → String
  | .io .eof => "err:IOError:eof"
  | .io .badVersion => "err:IOError:version"
  | .io .badType => "err:IOError:type"
  | .io .badCmd => "err:IOError:cmd"
  | .unsupported _ => "err:Unsupported"
  | .fuel => "err:Fuel"

def showRes : Except Err (List Int × Bool) → String
  | .error e => showErr e
  | .ok (out, fl) => s!"ok {if fl then 1 else 0} {showInts out}"

def parseBool : String → Option Bool
  | "0" => some false
  | "1" => some true
  | _ => none

/-- `sph.decode <convert> <hex of the file body>`: the word-reader decoder (the code that exists) -/
def decode (args : List String) : Option String := do
  match args with
  | [c, hex] =>
    let conv ← parseBool c
    let body ← parseHex hex
    some (showRes (decodeFileM conv body))
  | _ => none

def bitsOfBytes (l : List Nat) : List Bool := l.flatMap byteBits

/-- `sph.bits <convert> <version> <hex of the stream after the version byte>`: the bit-list decoder -/
def decodeB (args : List String) : Option String := do
  match args with
  | [c, v, hex] =>
    let conv ← parseBool c
    let ver ← v.toInt?
    let body ← parseHex hex
    some (showRes (decodeBitsM ver conv (bitsOfBytes body)))
  | _ => none

/-- command syntax: `d:<order>:<resn>:<res>`  `q:<resn>:<coefs>:<res>`  `z`  `b:<n>`  `s:<n>` -/
def parseCmd (s : String) : Option Cmd := do
  match s.splitOn ":" with
  | ["d", k, resn, res] => some (.diff (← k.toNat?) (← resn.toNat?) (← parseInts res))
  | ["q", resn, coefs, res] => some (.qlpc (← resn.toNat?) (← parseInts coefs) (← parseInts res))
  | ["z"] => some .zero
  | ["b", n] => some (.blocksize (← n.toNat?))
  | ["s", n] => some (.bitshift (← n.toNat?))
  | _ => none

/-- `<version> <ftype> <nchan> <bs0> <maxnlpc> <nmean> <skip> <cmd>*` -/
def parseProgram (args : List String) : Option Program := do
  match args with
  | v :: ft :: nc :: bs :: ml :: nm :: sk :: cmds =>
    let h : Hdr := ⟨← v.toNat?, ← ft.toNat?, ← nc.toNat?, ← bs.toNat?, ← ml.toNat?, ← nm.toNat?⟩
    some ⟨h, ← parseNats sk, ← cmds.mapM parseCmd⟩
  | _ => none

/-- `prog.sem <convert> <program>`: the specification's samples -/
def progSem (args : List String) : Option String := do
  match args with
  | c :: rest =>
    let conv ← parseBool c
    let p ← parseProgram rest
    some (s!"ok {showInts (sem conv p)}")
  | _ => none

/-- `prog.enc <program>`: the specification's file body, hex -/
def progEnc (args : List String) : Option String := do
  let p ← parseProgram args
  some (showHex (encodeFile p))

def handle : List String → Option String
  | "sph.decode" :: args => decode args
  | "sph.bits" :: args => decodeB args
  | "prog.sem" :: args => progSem args
  | "prog.enc" :: args => progEnc args
  | _ => none

end PdsVerif.Model.ShortenDrv

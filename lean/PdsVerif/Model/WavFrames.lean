/-
  `_wave_read_signal` (util.py) after the standard library's `wave` has parsed the container: the part that is the
  repository's own code — `np.frombuffer(frames, '<i{width}')`, the channel-divisibility check and the C-order
  reshape to (time, channels).  Core Lean only; reuses the byte primitives of `Model/Sphere.lean`.
-/
import PdsVerif.Model.Sphere

namespace PdsVerif.Model.WavFrames
open PdsVerif.Model.Sphere

inductive WErr where
  | io      -- IOError("Number of channels do not evenly divide wave samples")
  | value   -- np.frombuffer: buffer size must be a multiple of element size
  | type    -- `'<i3'`: NumPy has signed integer dtypes of 1, 2, 4 and 8 bytes only (TypeError)
  deriving DecidableEq, Repr

/-- `_wave_read_signal`: `width = getsampwidth()`, `chans = getnchannels()` (≥ 1: `wave` rejects 0),
`frames = readframes(getnframes())`.  Returns (shape, samples in C order). -/
def waveRead (width chans : Nat) (frames : Bytes) : Except WErr (List Nat × List Int) :=
  if ¬ (width = 1 ∨ width = 2 ∨ width = 4 ∨ width = 8) then .error .type
  else if frames.length % width ≠ 0 then .error .value
  else
    let n := frames.length / width
    let data := unpack width (decItem width true false) n frames
    if n % chans ≠ 0 then .error .io
    else .ok (if chans > 1 then [n / chans, chans] else [n], data)

/-- what `wave.writeframes(a.astype('<i{width}').tobytes())` stores for a C-ordered (time, channels) array given by
its rows (one row per time step) -/
def waveFrames (width : Nat) (rows : List (List Int)) : Bytes := rows.flatten.flatMap (encLE width)

end PdsVerif.Model.WavFrames

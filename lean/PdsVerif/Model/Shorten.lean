/-
  C13 — the shorten block interpreter of `copy_shortened_samples` (L2) and its specification.

  decoder side (mirrors the Python line by line, mutation as state passing):
    `header`, `coffset`, `resLoop`, `blockCmd`, `loop`, `mainProg`, `decodeBits` (L0 reader),
    `decodeFile` (L1 reader = the code that exists), both also in monitored form (`…M`).
  spec side:
    `Program` (header parameters + commands with residuals / coefficients), `encode : Program → bits`,
    `sem : Program → samples` written over whole per-channel histories (no wrap buffer, no window of
    offsets, textbook LPC formula on the un-offset signal).

  Integers are `Int` (no wrap-around).  Every place where NumPy's `int32` cells / scalars could
  differ from that carries a `check`; `Prog.runM` reports whether all of them held.

  CORE LEAN ONLY.
-/
import PdsVerif.Model.ShortenBits
namespace PdsVerif.Model.Shorten
open PdsVerif.Gen.Shorten

/-! ## small NumPy primitives -/

/-- `l[a:b]` for `0 ≤ a`, `b` within or beyond the end -/
def slice (l : List Int) (a b : Nat) : List Int := (l.take b).drop a

/-- `l[a:a+len(v)] = v` for a range inside `l` -/
def setSlice (l : List Int) (a : Nat) (v : List Int) : List Int :=
  l.take a ++ v ++ l.drop (a + v.length)

def fits32 (v : Int) : Bool := decide (-2147483648 ≤ v ∧ v < 2147483648)

/-- `c99_div(a, b) = int(float(a) / b)`: truncation toward zero (exact below 2^53) -/
def c99div (a : Int) (b : Nat) : Int := Int.tdiv a b

/-- `buffer[:, nwrap:blocksize+nwrap].T.flat` on the rows already cut out -/
def interleave (bs : Nat) (rows : List (List Int)) : List Int :=
  (List.range bs).flatMap (fun i => rows.map (fun r => r.getD i 0))

/-! ## header / static parameters -/

structure Hdr where
  version : Nat
  ftype : Nat
  nchan : Nat
  bs0 : Nat
  maxnlpc : Nat
  nmean : Nat
  deriving Repr, DecidableEq

def Hdr.nwrap (h : Hdr) : Nat := max h.maxnlpc NWRAP
def Hdr.nblock (h : Hdr) : Nat := max 1 h.nmean
def Hdr.lpcqoffset (h : Hdr) : Int := if h.version > 1 then (V2LPCQOFFSET : Int) else 0
/-- the `if ftype in {…}: mean = …` chain -/
def Hdr.meanInit (h : Hdr) : Int := (MEAN_INIT.lookup h.ftype).getD 0

/-! ## per-sample fix-up (`fix_bitshift`) and µ-law expansion -/

def outward (shift : Nat) (idx : Int) : Int :=
  (((ULAW_OUTWARD.getD shift #[]).getD idx.toNat 0 : Nat) : Int)

def fixSample (ftype shift : Nat) (v : Int) : Int :=
  if ftype = TYPE_AU1 then outward shift (v + 128)
  else if ftype = TYPE_AU2 then
    if v ≥ 0 then outward shift (v + 128)
    else if v = -1 then (NEGATIVE_ULAW_ZERO : Int)
    else outward shift (v + 129)
  else v <<< shift

/-- is `fixSample` computed the way NumPy computes it (index in range, no `int32` wrap)? -/
def fixOk (ftype shift : Nat) (v : Int) : Bool :=
  if ftype = TYPE_AU1 then decide (shift < ULAW_OUTWARD.size ∧ 0 ≤ v + 128 ∧ v + 128 < 256)
  else if ftype = TYPE_AU2 then decide (shift < ULAW_OUTWARD.size ∧ -129 ≤ v ∧ v + 128 < 256)
  else decide (shift < 32) && fits32 (v <<< shift)

/-- `ULAW2PCM[data]` when `convert` -/
def toPcm (convert : Bool) (ftype : Nat) (v : Int) : Int :=
  if convert && CONVERT_TYPES.contains ftype then ULAW2PCM.getD v.toNat 0 else v

/-! ## decoder state -/

structure ChanSt where
  buf : List Int   -- `buffer[chan]`, length `bs0 + nwrap`
  off : List Int   -- `offset[chan]`, length `nblock`
  deriving Repr, Inhabited

structure St where
  bs : Nat
  shift : Nat
  chan : Nat
  chans : List ChanSt
  out : List Int
  deriving Repr

/-- the running-mean offset of the next block -/
def coffset (h : Hdr) (shift : Nat) (off : List Int) : Int :=
  if h.nmean ≠ 0 then
    let sum : Int := (if h.version < 2 then 0 else ((h.nmean / 2 : Nat) : Int)) + (off.take h.nmean).sum
    if h.version < 2 then c99div sum h.nmean else (c99div sum h.nmean) >>> shift
  else off.headD 0

/-- DIFF0..3 predictors on the samples so far, most recent first -/
def predDiff (order : Nat) (coff : Int) (acc : List Int) : Int :=
  match order with
  | 0 => coff
  | 1 => acc.getD 0 0
  | 2 => 2 * acc.getD 0 0 - acc.getD 1 0
  | _ => 3 * (acc.getD 0 0 - acc.getD 1 0) + acc.getD 2 0

/-- `sum = lpcqoffset; for j: sum += qlpc[j] * cbuffer[i - j - 1]` -/
def lpcSum (off : Int) (coefs acc : List Int) : Int := off + (List.zipWith (· * ·) coefs acc).sum

/-- the `for i in range(nwrap, blocksize + nwrap)` loops: read a residual, store the sample.
    `acc` is `cbuffer[:i]` reversed. -/
def resLoop (resn : Nat) (chkRes : Bool) (pred : List Int → Int) (predOk : List Int → Bool) :
    Nat → List Int → Prog (List Int)
  | 0, acc => pure acc
  | n + 1, acc => do
    let r ← var resn
    check (!chkRes || fits32 r)
    check (predOk acc)
    let v := r + pred acc
    check (fits32 v)
    resLoop resn chkRes pred predOk n (v :: acc)

/-- `for i in range(nlpc): qlpc[i] = var_get(LPCQUANT)` -/
def readCoefs : Nat → Prog (List Int)
  | 0 => pure []
  | n + 1 => do
    let c ← var LPCQUANT
    check (fits32 c)
    let cs ← readCoefs n
    pure (c :: cs)

/-- the body of one block command: the new contents of `cbuffer` before the running-mean update -/
def decodeBlock (h : Hdr) (cmd resn : Nat) (coff : Int) (bs : Nat) (buf : List Int) : Prog (List Int) :=
  let nw := h.nwrap
  let hist := (slice buf 0 nw).reverse
  if cmd = FN_ZERO then pure (setSlice buf nw (List.replicate bs 0))
  else if cmd = FN_DIFF0 then do
    let acc ← resLoop resn (h.nmean = 0) (predDiff 0 coff) (fun _ => true) bs hist
    pure (setSlice buf 0 acc.reverse)
  else if cmd = FN_DIFF1 then do
    let acc ← resLoop resn true (predDiff 1 coff) (fun _ => true) bs hist
    pure (setSlice buf 0 acc.reverse)
  else if cmd = FN_DIFF2 then do
    let acc ← resLoop resn true (predDiff 2 coff) (fun _ => true) bs hist
    pure (setSlice buf 0 acc.reverse)
  else if cmd = FN_DIFF3 then do
    let acc ← resLoop resn true (predDiff 3 coff) (fun _ => true) bs hist
    pure (setSlice buf 0 acc.reverse)
  else do -- FN_QLPC
    let nlpc ← uvar LPCQSIZE
    if nlpc > h.maxnlpc then failWith (.unsupported "nlpc > maxnlpc (IndexError)")
    else do
      let coefs ← readCoefs nlpc
      check (fits32 coff)
      -- cbuffer[nwrap - nlpc : nwrap] -= coffset
      let hist' := (hist.take nlpc).map (· - coff) ++ hist.drop nlpc
      check ((hist'.take nlpc).all fits32)
      let acc ← resLoop resn true (fun a => (lpcSum h.lpcqoffset coefs a) >>> LPCQUANT)
        (fun a => fits32 (lpcSum h.lpcqoffset coefs a)) bs hist'
      -- if coffset: cbuffer[nwrap : blocksize + nwrap] += coffset
      let acc' := if coff ≠ 0 then (acc.take bs).map (· + coff) ++ acc.drop bs else acc
      check ((acc'.take bs).all fits32)
      pure (setSlice buf 0 acc'.reverse)

/-- the value stored in `offset[chan, nmean - 1]` after a block:
    `c99_div(blocksize // 2 + sum(block), blocksize) << bitshift` (version 1: no rounding term, no shift) -/
def blockMean (h : Hdr) (bs shift : Nat) (blk : List Int) : Int :=
  let m := c99div ((if h.version < 2 then 0 else ((bs / 2 : Nat) : Int)) + blk.sum) bs
  if h.version ≥ 2 then m <<< shift else m

/-- new `offset[chan]` -/
def meanUpdate (h : Hdr) (bs shift : Nat) (off buf1 : List Int) : List Int :=
  if h.nmean > 0 then
    -- offset[chan, :nmean-1] = offset[chan, 1:nmean]; offset[chan, nmean-1] = ...
    (setSlice off 0 (slice off 1 h.nmean)).set (h.nmean - 1)
      (blockMean h bs shift (slice buf1 h.nwrap (h.nwrap + bs)))
  else off

def meanOk (h : Hdr) (bs shift : Nat) (buf1 : List Int) : Bool :=
  if h.nmean > 0 then
    let sum : Int := (if h.version < 2 then 0 else ((bs / 2 : Nat) : Int)) + (slice buf1 h.nwrap (h.nwrap + bs)).sum
    let m := c99div sum bs
    fits32 m && fits32 (if h.version ≥ 2 then m <<< shift else m) && decide (shift < 32)
  else true

/-- `cbuffer[:nwrap] = cbuffer[blocksize : blocksize + nwrap]` -/
def wrapBuf (nw bs : Nat) (buf1 : List Int) : List Int := setSlice buf1 0 (slice buf1 bs (bs + nw))

/-- `fix_bitshift(cbuffer[nwrap:], blocksize, bitshift, ftype)` -/
def fixBuf (h : Hdr) (shift bs : Nat) (buf2 : List Int) : List Int :=
  if h.ftype = TYPE_AU1 ∨ h.ftype = TYPE_AU2 then
    setSlice buf2 h.nwrap ((slice buf2 h.nwrap (h.nwrap + bs)).map (fixSample h.ftype shift))
  else if shift ≠ 0 then buf2.take h.nwrap ++ (buf2.drop h.nwrap).map (fun (v : Int) => v <<< shift)
  else buf2

/-- wrap, `fix_bitshift`, store, and (after the last channel) interleave into the output -/
def finishBlock (h : Hdr) (convert : Bool) (st : St) (off : List Int) (buf1 : List Int) : St :=
  let nw := h.nwrap
  let bs := st.bs
  let off1 := meanUpdate h bs st.shift off buf1
  let buf3 := fixBuf h st.shift bs (wrapBuf nw bs buf1)
  let chans := st.chans.set st.chan ⟨buf3, off1⟩
  if st.chan + 1 = h.nchan then
    let rows := chans.map (fun c => slice c.buf nw (nw + bs))
    { st with chans := chans, chan := (st.chan + 1) % h.nchan,
              out := st.out ++ (interleave bs rows).map (toPcm convert h.ftype) }
  else
    { st with chans := chans, chan := (st.chan + 1) % h.nchan }

/-- one of FN_ZERO, FN_DIFF0..3, FN_QLPC on channel `st.chan` -/
def blockCmd (h : Hdr) (convert : Bool) (cmd : Nat) (st : St) : Prog St := do
  let cs := st.chans.getD st.chan default
  let resn ← if cmd ≠ FN_ZERO then uvar ENERGYSIZE else pure 0
  let coff := coffset h st.shift cs.off
  let buf1 ← decodeBlock h cmd resn coff st.bs cs.buf
  check (meanOk h st.bs st.shift buf1)
  check ((slice buf1 h.nwrap (h.nwrap + st.bs)).all (fixOk h.ftype st.shift))
  pure (finishBlock h convert st cs.off buf1)

/-- one iteration of the `while True:` command loop: the next state, or the output at `FN_QUIT` -/
def step (h : Hdr) (convert : Bool) (st : St) : Prog (St ⊕ List Int) := do
  let cmd ← uvar FNSIZE
  if cmd = FN_QUIT then pure (.inr st.out)
  else if BLOCK_CMDS.contains cmd then do
    let st' ← blockCmd h convert cmd st
    pure (.inl st')
  else if cmd = FN_BLOCKSIZE then do
    let b ← ulong
    if b = 0 ∨ b > h.bs0 then failWith (.unsupported "block size 0 or larger than allocated")
    else pure (.inl { st with bs := b })
  else if cmd = FN_BITSHIFT then do
    let b ← uvar BITSHIFTSIZE
    pure (.inl { st with shift := b })
  else failWith (.io .badCmd)

/-- the `while True:` command loop; `fuel` bounds the number of commands (every command consumes at
    least one bit, so the number of bits left, plus one, always suffices: `Lemmas/ShortenFuel`) -/
def loop (h : Hdr) (convert : Bool) : Nat → St → Prog (List Int)
  | 0, _ => failWith .fuel
  | f + 1, st => do
    match ← step h convert st with
    | .inl st' => loop h convert f st'
    | .inr out => pure out

/-- `for _ in range(nskip): uvar_get(XBITESIZE)` -/
def skipBytes : Nat → Prog Unit
  | 0 => pure ()
  | n + 1 => do
    let _ ← uvar XBITESIZE
    skipBytes n

def initSt (h : Hdr) : St :=
  { bs := h.bs0, shift := 0, chan := 0, out := [],
    chans := List.replicate h.nchan ⟨List.replicate (h.bs0 + h.nwrap) 0, List.replicate h.nblock h.meanInit⟩ }

/-- the stream header: `ftype`, `nchan`, `blocksize`, `maxnlpc`, `nmean`, `nskip` and the skipped bytes -/
def readHdr (version : Nat) : Prog Hdr := do
  let ftype ← ulong
  if ftype ≥ FTYPE_LIMIT then failWith (.io .badType)
  else do
    let nchan ← ulong
    let blocksize ← ulong
    let maxnlpc ← ulong
    let nmean ← ulong
    let nskip ← ulong
    skipBytes nskip
    if nchan = 0 ∨ blocksize = 0 then failWith (.unsupported "no channels or empty blocks")
    else pure ⟨version, ftype, nchan, blocksize, maxnlpc, nmean⟩

/-- everything after the version byte -/
def mainProg (version : Nat) (convert : Bool) (fuel : Nat) : Prog (List Int) := do
  let h ← readHdr version
  loop h convert fuel (initSt h)

/-- `version == 1` or `MIN_SUPPORTED_VERSION <= version <= MAX_SUPPORTED_VERSION`, else `raise error`
    (`version` is the signed byte after the magic) -/
def versionOk (v : Int) : Bool :=
  v = 1 || (decide ((MIN_SUPPORTED_VERSION : Int) ≤ v) && decide (v ≤ (MAX_SUPPORTED_VERSION : Int)))

/-- decode over a bit list (L0 reader) with an explicit bound on the number of commands -/
def decodeBitsF (fuel : Nat) (version : Int) (convert : Bool) (bits : List Bool) : Except Err (List Int) :=
  if versionOk version then
    match (mainProg version.toNat convert fuel).run uvarGet bits with
    | .error e => .error e
    | .ok (out, _) => .ok out
  else .error (.io .badVersion)

def decodeBitsFM (fuel : Nat) (version : Int) (convert : Bool) (bits : List Bool) :
    Except Err (List Int × Bool) :=
  if versionOk version then
    match (mainProg version.toNat convert fuel).runM uvarGet bits true with
    | .error e => .error e
    | .ok (out, _, fl) => .ok (out, fl)
  else .error (.io .badVersion)

/-- decode over a bit list (L0 reader); every command takes at least one bit -/
def decodeBits (version : Int) (convert : Bool) (bits : List Bool) : Except Err (List Int) :=
  decodeBitsF (bits.length + 1) version convert bits

def decodeBitsM (version : Int) (convert : Bool) (bits : List Bool) : Except Err (List Int × Bool) :=
  decodeBitsFM (bits.length + 1) version convert bits

/-- `struct.unpack("b", …)` -/
def sbyte (b : Nat) : Int := if b ≥ 128 then (b : Int) - 256 else b

/-- initial reader state: `word_get.inpbuf = inpbuf[5:]` of the first `COPY_READ_SIZE` bytes -/
def initW (body : List Nat) : WSt :=
  ⟨(body.take COPY_READ_SIZE).drop 5, body.drop COPY_READ_SIZE, 0, 0⟩

/-- the code that exists: `body` is everything after the SPHERE header -/
def decodeFile (convert : Bool) (body : List Nat) : Except Err (List Int) :=
  if body.take 4 ≠ MAGIC then .error (.unsupported "not a shorten stream")
  else match body.drop 4 with
    | [] => .error (.io .eof) -- `if len(inpbuf) < 5: raise error`
    | vb :: _ =>
      if versionOk (sbyte vb) then
        match (mainProg (sbyte vb).toNat convert (8 * body.length + 1)).run (uvarW (8 * body.length + 1)) (initW body) with
        | .error e => .error e
        | .ok (out, _) => .ok out
      else .error (.io .badVersion)

def decodeFileM (convert : Bool) (body : List Nat) : Except Err (List Int × Bool) :=
  if body.take 4 ≠ MAGIC then .error (.unsupported "not a shorten stream")
  else match body.drop 4 with
    | [] => .error (.io .eof) -- `if len(inpbuf) < 5: raise error`
    | vb :: _ =>
      if versionOk (sbyte vb) then
        match (mainProg (sbyte vb).toNat convert (8 * body.length + 1)).runM (uvarW (8 * body.length + 1)) (initW body) true with
        | .error e => .error e
        | .ok (out, _, fl) => .ok (out, fl)
      else .error (.io .badVersion)

/-! ## specification side -/

inductive Cmd
  | diff (order : Nat) (resn : Nat) (res : List Int)
  | qlpc (resn : Nat) (coefs : List Int) (res : List Int)
  | zero
  | blocksize (n : Nat)
  | bitshift (n : Nat)
  deriving Repr

structure Program where
  hdr : Hdr
  skip : List Nat
  cmds : List Cmd
  deriving Repr

def diffCode : Nat → Nat
  | 0 => FN_DIFF0
  | 1 => FN_DIFF1
  | 2 => FN_DIFF2
  | _ => FN_DIFF3

def encodeCmd : Cmd → List Bool
  | .diff k resn res =>
    uvarPut FNSIZE (diffCode k) ++ uvarPut ENERGYSIZE resn ++ res.flatMap (varPut resn)
  | .qlpc resn coefs res =>
    uvarPut FNSIZE FN_QLPC ++ uvarPut ENERGYSIZE resn ++ uvarPut LPCQSIZE coefs.length
      ++ coefs.flatMap (varPut LPCQUANT) ++ res.flatMap (varPut resn)
  | .zero => uvarPut FNSIZE FN_ZERO
  | .blocksize n => uvarPut FNSIZE FN_BLOCKSIZE ++ ulongPut n
  | .bitshift n => uvarPut FNSIZE FN_BITSHIFT ++ uvarPut BITSHIFTSIZE n

/-- the bit stream after the version byte -/
def encode (p : Program) : List Bool :=
  ulongPut p.hdr.ftype ++ ulongPut p.hdr.nchan ++ ulongPut p.hdr.bs0 ++ ulongPut p.hdr.maxnlpc
    ++ ulongPut p.hdr.nmean ++ ulongPut p.skip.length ++ p.skip.flatMap (uvarPut XBITESIZE)
    ++ p.cmds.flatMap encodeCmd ++ uvarPut FNSIZE FN_QUIT

/-- one channel as the specification sees it -/
structure SChan where
  hist : List Int   -- every (unshifted) sample of the channel so far, most recent first
  means : List Int  -- every stored block mean so far, most recent first
  deriving Repr, Inhabited

structure SSt where
  bs : Nat
  shift : Nat
  chan : Nat
  chans : List SChan
  frame : List (List Int)  -- finished blocks of channels `0 .. chan-1` of the current frame
  out : List Int
  deriving Repr

/-- mean of the last `nmean` block means (the initial value standing in for missing ones) -/
def semCoffset (h : Hdr) (shift : Nat) (means : List Int) : Int :=
  if h.nmean ≠ 0 then
    let window := (means ++ List.replicate h.nmean h.meanInit).take h.nmean
    let sum : Int := (if h.version < 2 then 0 else ((h.nmean / 2 : Nat) : Int)) + window.sum
    if h.version < 2 then c99div sum h.nmean else (c99div sum h.nmean) >>> shift
  else h.meanInit

/-- QLPC on the signal itself: predict `x - coff` from past `x - coff`, add `coff` back -/
def predLpc (off : Int) (coefs : List Int) (coff : Int) (hist : List Int) : Int :=
  coff + (lpcSum off coefs ((hist ++ List.replicate coefs.length 0).map (· - coff))) >>> LPCQUANT

/-- feed residuals to a predictor; history most recent first -/
def runBlock (pred : List Int → Int) : List Int → List Int → List Int
  | [], hist => hist
  | r :: rs, hist => runBlock pred rs ((r + pred hist) :: hist)

/-- the channel's history after a block command -/
def semHist (h : Hdr) (ss : SSt) : Cmd → List Int
  | .diff k _ res =>
    let sc := ss.chans.getD ss.chan default
    runBlock (predDiff k (semCoffset h ss.shift sc.means)) res sc.hist
  | .qlpc _ coefs res =>
    let sc := ss.chans.getD ss.chan default
    runBlock (predLpc h.lpcqoffset coefs (semCoffset h ss.shift sc.means)) res sc.hist
  | _ => List.replicate ss.bs 0 ++ (ss.chans.getD ss.chan default).hist

/-- book-keeping after a block: block mean, fix-up, frame assembly -/
def semFinish (h : Hdr) (convert : Bool) (ss : SSt) (hist' : List Int) : SSt :=
  let sc := ss.chans.getD ss.chan default
  let blk := (hist'.take ss.bs).reverse
  let means' := if h.nmean > 0 then blockMean h ss.bs ss.shift blk :: sc.means else sc.means
  let outBlk := blk.map (fixSample h.ftype ss.shift)
  let chans := ss.chans.set ss.chan ⟨hist', means'⟩
  if ss.chan + 1 = h.nchan then
    { ss with chans := chans, chan := 0, frame := [],
              out := ss.out ++ (interleave ss.bs (ss.frame ++ [outBlk])).map (toPcm convert h.ftype) }
  else
    { ss with chans := chans, chan := ss.chan + 1, frame := ss.frame ++ [outBlk] }

def semCmd (h : Hdr) (convert : Bool) (ss : SSt) : Cmd → SSt
  | .blocksize n => { ss with bs := n }
  | .bitshift n => { ss with shift := n }
  | c => semFinish h convert ss (semHist h ss c)

def initS (h : Hdr) : SSt :=
  { bs := h.bs0, shift := 0, chan := 0, frame := [], out := [],
    chans := List.replicate h.nchan ⟨[], []⟩ }

/-- the samples a program stands for (frame-major interleaved, as `read_signal` returns them) -/
def sem (convert : Bool) (p : Program) : List Int :=
  (p.cmds.foldl (semCmd p.hdr convert) (initS p.hdr)).out

/-- well-formed command lists, given the current block size and channel -/
def WFcmds (h : Hdr) : Nat → Nat → List Cmd → Prop
  | _, _, [] => True
  | bs, chan, .diff _ _ res :: cs => res.length = bs ∧ WFcmds h bs ((chan + 1) % h.nchan) cs
  | bs, chan, .qlpc _ coefs res :: cs =>
    coefs.length ≤ h.maxnlpc ∧ res.length = bs ∧ h.nwrap ≤ bs ∧ WFcmds h bs ((chan + 1) % h.nchan) cs
  | bs, chan, .zero :: cs => WFcmds h bs ((chan + 1) % h.nchan) cs
  | _, chan, .blocksize n :: cs => chan = 0 ∧ 1 ≤ n ∧ n ≤ h.bs0 ∧ WFcmds h n chan cs
  | bs, chan, .bitshift _ :: cs => WFcmds h bs chan cs

/-- what a conforming encoder emits -/
def WF (p : Program) : Prop :=
  1 ≤ p.hdr.version ∧ p.hdr.version ≤ 2 ∧ p.hdr.ftype < FTYPE_LIMIT ∧ 1 ≤ p.hdr.nchan ∧ 1 ≤ p.hdr.bs0
    ∧ WFcmds p.hdr p.hdr.bs0 0 p.cmds

/-! ## byte level (spec side): pack a bit list, zero padded to whole 32-bit words -/

def bitsToByte (bs : List Bool) : Nat := bs.foldl (fun a b => 2 * a + b.toNat) 0

def packBytes : Nat → List Bool → List Nat
  | 0, _ => []
  | f + 1, bits =>
    if bits.isEmpty then [] else bitsToByte ((bits ++ List.replicate 8 false).take 8) :: packBytes f (bits.drop 8)

/-- `ajkg`, version byte, the bit stream padded with zeros to a multiple of 32 bits -/
def encodeFile (p : Program) : List Nat :=
  let bits := encode p
  let padded := bits ++ List.replicate ((32 - bits.length % 32) % 32) false
  MAGIC ++ [p.hdr.version] ++ packBytes padded.length padded

end PdsVerif.Model.Shorten

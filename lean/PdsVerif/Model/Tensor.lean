/-
  A small row-major (C-order) tensor model: shape + flat data, multi-index access, and the NumPy
  primitives `post.py` uses (basic slicing with a step, `.T`, `reshape`, `np.concatenate`, `np.stack`,
  `np.pad` along one axis, Python slices of 1-D arrays).  CORE LEAN ONLY.

  Every primitive except `reshape` is *defined* by its documented index semantics through `ofFn`
  (`result[idx] = f idx`); `reshape` re-interprets the flat C-order data.  The one fact that links the
  two views, `get (ofFn shape f) idx = f idx` for every rank, is proved in `Lemmas/Tensor.lean`.
  The stated semantics of the primitives is part of the trusted base and is exercised by the
  correspondence run (`harness/c15.py`).
-/
namespace PdsVerif.Model

/-- exception classes the modelled code can raise (names as Python prints them) -/
inductive Tensor.Err
  | zeroDivision | runtime | value | axisErr
deriving DecidableEq, Repr

def Tensor.Err.name : Tensor.Err → String
  | .zeroDivision => "ZeroDivisionError"
  | .runtime => "RuntimeError"
  | .value => "ValueError"
  | .axisErr => "AxisError"

structure Tensor (α : Type) where
  shape : List Nat
  data : List α
deriving DecidableEq, Repr

namespace Tensor

/-- number of elements of a shape -/
def numel : List Nat → Nat
  | [] => 1
  | s :: ss => s * numel ss

/-- row-major flat position of a multi-index -/
def flat : List Nat → List Nat → Nat
  | _ :: ss, i :: is => i * numel ss + flat ss is
  | _, _ => 0

/-- multi-index of a flat position (inverse of `flat` on valid indices) -/
def unflat : List Nat → Nat → List Nat
  | [], _ => []
  | _ :: ss, k => (k / numel ss) :: unflat ss (k % numel ss)

/-- `idx` has the rank of `shape` and every coordinate is in range -/
def valid : List Nat → List Nat → Bool
  | [], [] => true
  | s :: ss, i :: is => decide (i < s) && valid ss is
  | _, _ => false

variable {α : Type}

def rank (t : Tensor α) : Nat := t.shape.length

/-- well-formed: as many data as the shape says -/
def WF (t : Tensor α) : Prop := t.data.length = numel t.shape

instance (t : Tensor α) : Decidable t.WF := by unfold WF; exact inferInstance

/-- element at a multi-index; `none` for an index of the wrong rank or out of range -/
def get (t : Tensor α) (idx : List Nat) : Option α :=
  if valid t.shape idx then t.data[flat t.shape idx]? else none

/-- `get` with a default (the default is never observed on valid indices of well-formed tensors:
`Tensor.get_eq_some_val` in `Lemmas/Tensor.lean`) -/
def val [Inhabited α] (t : Tensor α) (idx : List Nat) : α := (t.get idx).getD default

/-- tabulate: the tensor of the given shape with `result[idx] = f idx` (indices enumerated in C order,
as `np.ndindex` does) -/
def ofFn (shape : List Nat) (f : List Nat → α) : Tensor α :=
  ⟨shape, (List.range (numel shape)).map fun k => f (unflat shape k)⟩

/-- NumPy's `normalize_axis_index`: `-ndim ≤ axis < ndim`, negative counted from the end -/
def normAxis (axis : Int) (ndim : Nat) : Option Nat :=
  if -(ndim : Int) ≤ axis ∧ axis < ndim then
    some (if axis < 0 then (axis + ndim).toNat else axis.toNat)
  else none

/-- the 1-D lane of `t` along axis `ax` through `idx` (`t[i0, …, :, …, ik]`) -/
def lane [Inhabited α] (t : Tensor α) (ax : Nat) (idx : List Nat) : List α :=
  (List.range (t.shape.getD ax 0)).map fun s => t.val (idx.set ax s)

/-- `for other in np.ndindex(other_shape): out[other-with-slice] = g(t[other-with-slice])`:
every lane along `ax` is replaced by its image under `g` (one evaluation of `g` per lane). -/
def mapLanes [Inhabited α] (ax : Nat) (g : List α → List α) (t : Tensor α) : Tensor α :=
  let repShape := t.shape.set ax 1
  let res : Tensor (List α) := ofFn repShape fun idx => g (t.lane ax idx)
  ofFn t.shape fun idx => (res.val (idx.set ax 0)).getD (idx.getD ax 0) default

/-- length of `range(start, min(stop, len), step)` for non-negative `start`, `stop` and `step ≥ 1` -/
def sliceLen (start stop step len : Nat) : Nat :=
  let e := min stop len
  if start < e then (e - start + step - 1) / step else 0

/-- basic slicing `t[…, start:stop:step, …]` along `ax` (non-negative bounds, positive step) -/
def sliceAxis [Inhabited α] (ax start stop step : Nat) (t : Tensor α) : Tensor α :=
  ofFn (t.shape.set ax (sliceLen start stop step (t.shape.getD ax 0)))
    fun idx => t.val (idx.set ax (start + idx.getD ax 0 * step))

/-- `t.copy()`: the same values (fresh storage is not part of a value model) -/
def copy (t : Tensor α) : Tensor α := ⟨t.shape, t.data⟩

/-- `t.T` (all axes reversed) -/
def transpose [Inhabited α] (t : Tensor α) : Tensor α :=
  ofFn t.shape.reverse fun idx => t.val idx.reverse

/-- `t.reshape(shape)` in C order: same flat data; `ValueError` when the sizes differ -/
def reshape (shape : List Nat) (t : Tensor α) : Except Err (Tensor α) :=
  if numel shape = t.data.length then .ok ⟨shape, t.data⟩ else .error .value

/-- value of a concatenation at `idx`: walk the parts, subtracting their extents along `a` -/
def concatVal [Inhabited α] : List (Tensor α) → Nat → List Nat → α
  | [], _, _ => default
  | t :: ts, a, idx =>
    let j := idx.getD a 0
    let n := t.shape.getD a 0
    if j < n then t.val idx else concatVal ts a (idx.set a (j - n))

/-- `np.concatenate(ts, axis)` -/
def concatenate [Inhabited α] (ts : List (Tensor α)) (axis : Int) : Except Err (Tensor α) :=
  match ts with
  | [] => .error .value
  | t0 :: rest =>
    if t0.shape.length = 0 then .error .value
    else if rest.all fun t => decide (t.shape.length = t0.shape.length) then
      match normAxis axis t0.shape.length with
      | none => .error .axisErr
      | some a =>
        if rest.all fun t => decide (t.shape.set a 0 = t0.shape.set a 0) then
          let total := (ts.map fun t => t.shape.getD a 0).sum
          .ok (ofFn (t0.shape.set a total) fun idx => concatVal ts a idx)
        else .error .value
    else .error .value

/-- `np.stack(ts, axis)` -/
def stack [Inhabited α] (ts : List (Tensor α)) (axis : Int) : Except Err (Tensor α) :=
  match ts with
  | [] => .error .value
  | t0 :: rest =>
    if rest.all fun t => decide (t.shape = t0.shape) then
      match normAxis axis (t0.shape.length + 1) with
      | none => .error .axisErr
      | some a =>
        .ok (ofFn (t0.shape.insertIdx a ts.length) fun idx =>
          (ts.getD (idx.getD a 0) t0).val (idx.eraseIdx a))
    else .error .value

/-! ## 1-D helpers -/

/-- Python's normalisation of a slice bound for a sequence of length `len` (step 1) -/
def pyBound (i : Int) (len : Nat) : Nat :=
  if i < 0 then (i + len).toNat else min i.toNat len

/-- `xs[start:stop]` with Python semantics (negative bounds count from the end, clamped) -/
def pySlice {α : Type} (xs : List α) (start stop : Int) : List α :=
  let s := pyBound start xs.length
  let e := pyBound stop xs.length
  (xs.drop s).take (e - s)

/-! ## `np.pad` along one axis -/

/-- The padding modes of `np.pad` that are modelled.  `other g` covers every mode whose pad values are
a function of the pad widths, the lane and the position (`maximum`, `minimum`, `mean`, `median` with the
default `stat_length`, `linear_ramp`; see `Model/Post.lean` for those instances). -/
inductive PadMode (α : Type)
  | constant (l r : α)
  | edge
  | reflect
  | symmetric
  | wrap
  | other (g : Nat → Nat → List α → Int → α)

def PadMode.isConstant {α : Type} : PadMode α → Bool
  | .constant _ _ => true
  | _ => false

/-- Value at (possibly out-of-range) integer position `i` of the extension of the lane `x` that
`np.pad(x, (l, r), mode)` builds (position 0 is `x[0]`).  Measured against NumPy 2.x for every mode,
every `T ≤ 6` and pad widths up to 13 (reflect / symmetric / wrap iterate, i.e. are periodic). -/
def ext {α : Type} [Inhabited α] (l r : Nat) (mode : PadMode α) (x : List α) (i : Int) : α :=
  let T : Int := x.length
  if 0 ≤ i ∧ i < T then x.getD i.toNat default
  else match mode with
    | .constant cl cr => if i < 0 then cl else cr
    | .edge => x.getD (if i < 0 then 0 else x.length - 1) default
    | .reflect =>
      if T = 1 then x.getD 0 default
      else
        let P := 2 * (T - 1)
        let k := i % P
        x.getD (if k < T then k else P - k).toNat default
    | .symmetric =>
      let P := 2 * T
      let k := i % P
      x.getD (if k < T then k else P - 1 - k).toNat default
    | .wrap => x.getD (i % T).toNat default
    | .other g => g l r x i

/-- `np.pad(x, (l, r), mode)` for 1-D `x` (callers check NumPy's empty-axis error first) -/
def pad1 {α : Type} [Inhabited α] (l r : Nat) (mode : PadMode α) (x : List α) : List α :=
  (List.range (l + x.length + r)).map fun (k : Nat) => ext l r mode x ((k : Int) - (l : Int))

/-- `np.pad(t, [(0,0)…,(l,r),…(0,0)], mode)`: only axis `ax` is padded, lane by lane -/
def padAxis [Inhabited α] (ax l r : Nat) (mode : PadMode α) (t : Tensor α) : Tensor α :=
  ofFn (t.shape.set ax (l + t.shape.getD ax 0 + r))
    fun idx => ext l r mode (t.lane ax idx) (((idx.getD ax 0 : Nat) : Int) - (l : Int))

end Tensor
end PdsVerif.Model

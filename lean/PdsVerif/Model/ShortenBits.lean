/-
  C13 — bit-level layers of the shorten decoder in `src/pydrobert/speech/_sphere.py`
  (`copy_shortened_samples`: `word_get`, `uvar_get`, `var_get`, `ulong_get`).

  * `Prog`   : the decoder is written once as a program over one primitive, `uvar_get(k)` (everything
               else in the Python code reads the stream only through it), plus a range monitor `chk`
               that never influences the result.
  * L0       : `uvarGet k : List Bool → …` reads Rice/unary+binary codes from a bit list.
  * L1       : `uvarW k : WSt → …` is the code that exists: a signed 32-bit big-endian word buffer
               (`gbuffer`, `nbitget`) refilled from a byte buffer (`inpbuf`) that is itself refilled
               from the file in `BUFSIZ` pieces.
  * encoders : `uvarPut`, `varPut`, `ulongPut` (spec side).

  CORE LEAN ONLY.
-/
import PdsVerif.Generated.ShortenConsts
namespace PdsVerif.Model.Shorten
open PdsVerif.Gen.Shorten

/-- why the Python code raises its `error` (always the one `IOError` instance it was handed) -/
inductive IoWhy | eof | badVersion | badType | badCmd
  deriving DecidableEq, Repr

inductive Err
  | io (w : IoWhy)             -- `raise error`
  | unsupported (what : String) -- the code fails in some other way / the model does not cover it
  | fuel                        -- loop bound exhausted (proved never to happen with the fuel given)
  deriving DecidableEq, Repr

/-! ## programs over the single primitive `uvar_get` -/

inductive Prog (α : Type) where
  | ret (a : α)
  | fail (e : Err)
  | read (k : Nat) (cont : Nat → Prog α)
  | chk (b : Bool) (cont : Prog α)

namespace Prog
variable {α β σ : Type}

def bind : Prog α → (α → Prog β) → Prog β
  | .ret a, f => f a
  | .fail e, _ => .fail e
  | .read k c, f => .read k (fun n => (c n).bind f)
  | .chk b c, f => .chk b (c.bind f)

instance : Monad Prog where
  pure := .ret
  bind := Prog.bind

/-- run a program with a given implementation `uv` of `uvar_get` over reader state `σ` -/
def run (uv : Nat → σ → Except Err (Nat × σ)) : Prog α → σ → Except Err (α × σ)
  | .ret a, s => .ok (a, s)
  | .fail e, _ => .error e
  | .read k c, s =>
    match uv k s with
    | .error e => .error e
    | .ok (n, s') => (c n).run uv s'
  | .chk _ c, s => c.run uv s

/-- same, also reporting whether every `chk` held (`true` = every value stayed where NumPy's
    `int32` arithmetic and Python's unbounded integers agree) -/
def runM (uv : Nat → σ → Except Err (Nat × σ)) : Prog α → σ → Bool → Except Err (α × σ × Bool)
  | .ret a, s, fl => .ok (a, s, fl)
  | .fail e, _, _ => .error e
  | .read k c, s, fl =>
    match uv k s with
    | .error e => .error e
    | .ok (n, s') => (c n).runM uv s' fl
  | .chk b c, s, fl => c.runM uv s (fl && b)

end Prog

def uvar (k : Nat) : Prog Nat := .read k .ret
def check (b : Bool) : Prog Unit := .chk b (.ret ())
def failWith {α : Type} (e : Err) : Prog α := .fail e

/-- `var_get(nbin)`: `uvar = uvar_get(nbin + 1)`; `~(uvar >> 1)` if `uvar & 1` else `uvar >> 1`
    (`~x = -x - 1` on Python ints). -/
def unfold (u : Nat) : Int :=
  if u % 2 = 1 then -((u / 2 : Nat) : Int) - 1 else ((u / 2 : Nat) : Int)

def var (k : Nat) : Prog Int := do
  let u ← uvar (k + 1)
  pure (unfold u)

/-- `ulong_get()` -/
def ulong : Prog Nat := do
  let nbit ← uvar ULONGSIZE
  uvar nbit

/-! ## L0: the bit-list reader -/

def unaryGet : List Bool → Except Err (Nat × List Bool)
  | [] => .error (.io .eof)
  | true :: r => .ok (0, r)
  | false :: r =>
    match unaryGet r with
    | .error e => .error e
    | .ok (n, r') => .ok (n + 1, r')

def bitsGet : Nat → Nat → List Bool → Except Err (Nat × List Bool)
  | 0, acc, r => .ok (acc, r)
  | _ + 1, _, [] => .error (.io .eof)
  | k + 1, acc, b :: r => bitsGet k (2 * acc + b.toNat) r

/-- unary count of zeros up to the first one, then `k` binary digits, most significant first -/
def uvarGet (k : Nat) (bits : List Bool) : Except Err (Nat × List Bool) :=
  match unaryGet bits with
  | .error e => .error e
  | .ok (n, r) => bitsGet k n r

/-! ### encoders (spec side) -/

/-- the `k` low bits of `n`, most significant first -/
def bitsPut : Nat → Nat → List Bool
  | 0, _ => []
  | k + 1, n => n.testBit k :: bitsPut k n

def uvarPut (k n : Nat) : List Bool :=
  List.replicate (n >>> k) false ++ true :: bitsPut k n

/-- sign folding: `v ≥ 0 ↦ 2v`, `v < 0 ↦ 2(-v-1)+1` -/
def fold (v : Int) : Nat :=
  if v < 0 then 2 * (-v - 1).toNat + 1 else 2 * v.toNat

def varPut (k : Nat) (v : Int) : List Bool := uvarPut (k + 1) (fold v)

/-- number of binary digits of `n` (0 for 0) -/
def bitLen (n : Nat) : Nat := if n = 0 then 0 else n.log2 + 1

def ulongPut (n : Nat) : List Bool :=
  uvarPut ULONGSIZE (bitLen n) ++ uvarPut (bitLen n) n

/-! ## L1: the word reader that exists in the code -/

/-- `struct.unpack(">l", …)`: signed 32-bit big-endian -/
def be32 (b0 b1 b2 b3 : Nat) : Int :=
  let u := ((b0 * 256 + b1) * 256 + b2) * 256 + b3
  if u ≥ 2147483648 then (u : Int) - 4294967296 else (u : Int)

/-- reader state: `word_get.inpbuf`, what `file_` still holds, `uvar_get.gbuffer`, `uvar_get.nbitget` -/
structure WSt where
  inp : List Nat
  file : List Nat
  gbuf : Int
  nbit : Nat
  deriving Repr

/-- `word_get()`; returns the word and the new (`inpbuf`, `file_`).
    (`len(inpbuf) < 4` is decided by matching on the first four bytes.) -/
def wordGet (inp file : List Nat) : Except Err (Int × List Nat × List Nat) :=
  match inp with
  | b0 :: b1 :: b2 :: b3 :: rest => .ok (be32 b0 b1 b2 b3, rest, file)
  | short =>
    -- inpbuf = inpbuf.tobytes() + file_.read(BUFSIZ - len(inpbuf))
    match short ++ file.take (BUFSIZ - short.length) with
    | b0 :: b1 :: b2 :: b3 :: rest => .ok (be32 b0 b1 b2 b3, rest, file.drop (BUFSIZ - short.length))
    | _ => .error (.io .eof)

/-- `gbuffer & (1 << n)` is non-zero (two's complement of a Python int) -/
def bitSet (g : Int) (n : Nat) : Bool := (g >>> n) % 2 = 1

/-- `x & masktab[n]` with `masktab[n] = 2^n - 1` -/
def mask (x : Int) (n : Nat) : Nat := (x % (2 ^ n : Nat)).toNat

/-- the `while True:` loop of `uvar_get` (on entry `nbit ≥ 1`) -/
def unaryW : Nat → Int → Nat → Nat → List Nat → List Nat →
    Except Err (Nat × Int × Nat × List Nat × List Nat)
  | 0, _, _, _, _, _ => .error .fuel
  | f + 1, g, nbit, result, inp, file =>
    let nbit := nbit - 1
    if bitSet g nbit then .ok (result, g, nbit, inp, file)
    else if nbit = 0 then
      match wordGet inp file with
      | .error e => .error e
      | .ok (g', inp', file') => unaryW f g' NBITPERLONG (result + 1) inp' file'
    else unaryW f g nbit (result + 1) inp file

/-- the `while nbin:` loop of `uvar_get` -/
def binW : Nat → Nat → Nat → Int → Nat → List Nat → List Nat →
    Except Err (Nat × Int × Nat × List Nat × List Nat)
  | 0, _, _, _, _, _, _ => .error .fuel
  | f + 1, nbin, result, g, nbit, inp, file =>
    if nbin = 0 then .ok (result, g, nbit, inp, file)
    else if nbit ≥ nbin then
      .ok ((result <<< nbin) ||| mask (g >>> (nbit - nbin)) nbin, g, nbit - nbin, inp, file)
    else
      let result := (result <<< nbit) ||| mask g nbit
      match wordGet inp file with
      | .error e => .error e
      | .ok (g', inp', file') => binW f (nbin - nbit) result g' NBITPERLONG inp' file'

/-- the head of `uvar_get`: `if not nbitget: gbuffer = word_get(); nbitget = NBITPERLONG` -/
def uvarStart (w : WSt) : Except Err (Int × Nat × List Nat × List Nat) :=
  if w.nbit = 0 then
    match wordGet w.inp w.file with
    | .error e => .error e
    | .ok (g, inp, file) => .ok (g, NBITPERLONG, inp, file)
  else .ok (w.gbuf, w.nbit, w.inp, w.file)

/-- `uvar_get(nbin)`.  `F` is the fuel of the `while True:` loop: any bound on the number of bits
    left in the stream (a constant of the whole run, so that no length is recomputed per call). -/
def uvarW (F : Nat) (nbin : Nat) (w : WSt) : Except Err (Nat × WSt) :=
  match uvarStart w with
  | .error e => .error e
  | .ok (g, nbit, inp, file) =>
    match unaryW F g nbit 0 inp file with
    | .error e => .error e
    | .ok (result, g, nbit, inp, file) =>
      match binW (nbin + 2) nbin result g nbit inp file with
      | .error e => .error e
      | .ok (result, g, nbit, inp, file) => .ok (result, ⟨inp, file, g, nbit⟩)

/-! ### the bit list a reader state stands for -/

def byteBits (b : Nat) : List Bool := bitsPut 8 b

/-- bits of the complete 4-byte words of a byte list (a trailing 1-3 bytes can never be read) -/
def wordBits : List Nat → List Bool
  | b0 :: b1 :: b2 :: b3 :: rest =>
    byteBits b0 ++ byteBits b1 ++ byteBits b2 ++ byteBits b3 ++ wordBits rest
  | _ => []

/-- the `n` low bits of the word buffer, most significant first -/
def lowBits (g : Int) : Nat → List Bool
  | 0 => []
  | n + 1 => bitSet g n :: lowBits g n

def WSt.bits (w : WSt) : List Bool := lowBits w.gbuf w.nbit ++ wordBits (w.inp ++ w.file)

end PdsVerif.Model.Shorten

/-
  Model of the dispatch glue of `read_signal` / `wds_read_signal`
  (`src/pydrobert/speech/util.py`, property C11).  CORE LEAN ONLY.

  What is modelled (line by line, see the Python quoted at each definition):
  * `_infer_force_as_from_rfilename`: the `if/elif` chain as an ordered list of `Rule`s that the translator
    extracts from the source (`PdsVerif.Gen.ReadSig.config.rules`); the regular expression
    `^(ark|scp)(,\w+)*:` as an explicit scanner (`tableMatch`, proved equal to the regular language in
    `Props/C11.lean`); `rsplit(".", maxsplit=1)[-1]` as `lastSeg`; `str.endswith` as `List.isSuffixOf`.
  * `read_signal`: the stream / `force_as` guard, the `if/elif` dispatch chain (again a generated, ordered
    list of `Arm`s), `try … except ImportError` for the wave reader, `assert isinstance(rfilename, str)`.
  * the helpers `_*_read_signal` as `ReaderInfo`: which third-party decoder they call (`Reader`), what they
    do with `key` (`KeyMode`) and `dtype` (`DtypeMode`), and the order of the array operations after
    decoding (`ops`) – all extracted from the helper's AST.
  * the depth-first search for the first HDF5 dataset (`h5Loop`, the literal `while group_stack:` loop).
  * `wds_read_signal`: `try: … except: return None` (`wdsRead`).

  What is *not* modelled: the codecs (numpy, torch, h5py, libsndfile, `wave`, `_sphere.py`,
  pydrobert-kaldi).  They enter as abstract primitives (`Prims`) so that "dtype is applied as a final cast"
  and "wds_read_signal never raises" are statements for *every* behaviour of the codecs.

  Strings are `List Char` (`Str`, literals `str% "…"`): the kernel does not evaluate `String.endsWith`.
-/
namespace PdsVerif.Model.ReadSignal

abbrev Str := List Char

/-- `str% "abc"` is the explicit literal `['a', 'b', 'c']` (expanded when the file is elaborated, so neither
`simp` nor the kernel ever meets `String.toList`). -/
macro "str% " s:str : term => do
  let elems := s.getString.toList.toArray.map fun c => Lean.Syntax.mkCharLit c
  `([$elems,*])

/-- Python exception classes the glue itself raises, plus `decoder` = anything a third-party decoder raised
on the bytes it was given (outside the model) and `outOfFuel` (not a Python exception: the HDF5 loop model
running out of fuel, proved impossible). -/
inductive Err where
  | ioError | valueError | assertionError | importError | keyError | indexError | typeError
  | decoder | outOfFuel
deriving DecidableEq, Repr, Inhabited

def Err.name : Err → String
  | .ioError => "IOError"
  | .valueError => "ValueError"
  | .assertionError => "AssertionError"
  | .importError => "ImportError"
  | .keyError => "KeyError"
  | .indexError => "IndexError"
  | .typeError => "TypeError"
  | .decoder => "decoder-error"
  | .outOfFuel => "out-of-fuel"

deriving instance DecidableEq for Except

/-- Which third-party decoder a helper hands the file to. -/
inductive Reader where
  | kaldiTable   -- pydrobert.kaldi.io.open(rspecifier, dtype, mode="r"|"r+")
  | wavScipy     -- scipy.io.wavfile.read
  | wavWave      -- wave.open + np.frombuffer
  | hdf5         -- h5py.File
  | npy          -- np.load (array)
  | npz          -- np.load (archive, subscripted)
  | torch        -- torch.load(...).numpy()
  | sphere       -- pydrobert.speech._sphere.sphere_read_signal
  | kaldiInput   -- pydrobert.kaldi.io.open(rxfilename, mode="r").read(dtype)
  | fromfile     -- np.fromfile
  | soundfile    -- soundfile.SoundFile(...).read
deriving DecidableEq, Repr, Inhabited

def Reader.name : Reader → String
  | .kaldiTable => "kaldiTable" | .wavScipy => "wavScipy" | .wavWave => "wavWave" | .hdf5 => "hdf5"
  | .npy => "npy" | .npz => "npz" | .torch => "torch" | .sphere => "sphere" | .kaldiInput => "kaldiInput"
  | .fromfile => "fromfile" | .soundfile => "soundfile"

/-! ## `_infer_force_as_from_rfilename` -/

/-- ASCII part of Python's `\w` on `str` patterns: `[a-zA-Z0-9_]`. -/
def asciiWord (c : Char) : Bool := c.isAlphanum || c == '_'

/-- The environment the glue runs in. -/
structure Env where
  /-- `config.SOUNDFILE_SUPPORTED_FILE_TYPES` (depends on soundfile / libsndfile being installed) -/
  sf : List Str
  /-- `\w` on non-ASCII characters (`str.isalnum`): never consulted for ASCII -/
  wordExtra : Char → Bool
  /-- readers whose lazy `import` raises `ImportError` here (scipy, h5py, torch, soundfile, pydrobert.kaldi) -/
  missing : List Reader

/-- `\w` of `re` on `str` -/
def Env.word (e : Env) (c : Char) : Bool :=
  if c.val < 128 then asciiWord c else e.wordExtra c

/-- states of the scanner for `(,\w+)*:` -/
inductive RS where
  | sep        -- right after `ark|scp`: `,` or `:` must follow
  | needWord   -- just after `,`: one word character is required
  | inWord     -- at least one word character read: another one, `,` or `:` may follow
deriving DecidableEq, Repr

/-- `(,\w+)*:` matched at the head of the list (the rest of the name is arbitrary: `re.match` anchors only
the start).  Word characters are neither `,` nor `:`, so the greedy `\w+` never has to give anything back
and the expression is deterministic (`tableMatch_iff` in `Props/C11.lean`). -/
def scan (w : Char → Bool) : RS → List Char → Bool
  | .sep, c :: r => if c = ':' then true else if c = ',' then scan w .needWord r else false
  | .sep, [] => false
  | .needWord, c :: r => if w c then scan w .inWord r else false
  | .needWord, [] => false
  | .inWord, c :: r =>
    if w c then scan w .inWord r
    else if c = ':' then true else if c = ',' then scan w .needWord r else false
  | .inWord, [] => false

/-- `match(r"^(ark|scp)(,\w+)*:", rfilename)` is not `None` -/
def tableMatch (w : Char → Bool) : Str → Bool
  | 'a' :: 'r' :: 'k' :: r => scan w .sep r
  | 's' :: 'c' :: 'p' :: r => scan w .sep r
  | _ => false

/-- `rfilename.rsplit(".", maxsplit=1)[-1]`: what follows the last `.`, the whole name when there is none -/
def lastSeg (s : Str) : Str := (s.reverse.takeWhile (· != '.')).reverse

/-- `rfilename.endswith(suffix)` -/
def hasSuffix (s suffix : Str) : Bool := suffix.isSuffixOf s

/-- One `if`/`elif` of `_infer_force_as_from_rfilename`, in source order. -/
inductive Rule where
  /-- `match(r"^(ark|scp)(,\w+)*:", rfilename)` ⇒ `force_as = <forceAs>` -/
  | tableRegex (forceAs : Str)
  /-- `rfilename.rsplit(".", maxsplit=1)[-1] in config.SOUNDFILE_SUPPORTED_FILE_TYPES` ⇒ that segment -/
  | lastSegInSf
  /-- `rfilename.endswith(<suffix>)` ⇒ `force_as = <forceAs>` -/
  | endsWith (suffix forceAs : Str)
deriving DecidableEq, Repr

def Rule.apply (env : Env) (name : Str) : Rule → Option Str
  | .tableRegex fa => if tableMatch env.word name then some fa else none
  | .lastSegInSf => if env.sf.contains (lastSeg name) then some (lastSeg name) else none
  | .endsWith suf fa => if hasSuffix name suf then some fa else none

/-- does the test of a rule hold -/
def Rule.fires (env : Env) (name : Str) : Rule → Bool
  | .tableRegex _ => tableMatch env.word name
  | .lastSegInSf => env.sf.contains (lastSeg name)
  | .endsWith suf _ => hasSuffix name suf

/-- `_infer_force_as_from_rfilename(rfilename)`: first rule that fires; `else: raise <elseErr>`. -/
def inferForceAs (rules : List Rule) (elseErr : Err) (env : Env) (name : Str) : Except Err Str :=
  match rules.findSome? (Rule.apply env name) with
  | some fa => .ok fa
  | none => .error elseErr

/-! ## helpers `_*_read_signal` -/

/-- the `key` argument: `None`, a `str` or a non-negative `int` -/
inductive Key where
  | none | str (s : Str) | int (n : Nat)
deriving DecidableEq, Repr, Inhabited

/-- Python truthiness of `key` -/
def Key.truthy : Key → Bool
  | .none => false
  | .str s => !s.isEmpty
  | .int n => n != 0

/-- What the helper does with `key`. -/
inductive KeyMode where
  /-- never looked at -/
  | ignored
  /-- `c[key] if key else c[<dflt>]` (numpy archive) -/
  | orDefault (dflt : Key)
  /-- `f[key] if key else <depth-first search for the first dataset>` (HDF5) -/
  | orFirstDataset
  /-- `if key is None: key = <dflt>`; then `table[key]` for a `str` (mode `"r+"`), else `key` × `move()` and
  `value()` (mode `"r"`) (Kaldi table) -/
  | table (dflt : Key)
deriving DecidableEq, Repr

/-- What the helper does with `dtype`. -/
inductive DtypeMode where
  /-- the decoded array is cast (`data.astype(dtype)`) in the last statement before `return data`, under
  `if dtype:` (`guardNotNone = false`) or `if dtype is not None:` (`true`) -/
  | finalCast (guardNotNone : Bool)
  /-- `dtype` goes to the decoder itself (Kaldi data type, `np.fromfile(dtype=…)`, SPHERE buffer type);
  `dflt` replaces `None` -/
  | toDecoder (dflt : Option Str) (guardNotNone : Bool)
deriving DecidableEq, Repr

/-- array-level operations of a helper after the container was opened, in source order -/
inductive Op where
  | select    -- subscript by key / search for the first dataset / table lookup
  | reshape   -- `.reshape((n // channels, channels))`
  | toNumpy   -- `np.array(dataset)`, `tensor.numpy()`
  | cast      -- `.astype(dtype)`
deriving DecidableEq, Repr

structure ReaderInfo where
  reader : Reader
  /-- name of the helper in the source (documentation only: nothing depends on it) -/
  fn : String
  dtype : DtypeMode
  key : KeyMode
  ops : List Op
deriving DecidableEq, Repr

/-- how the container is indexed in the end -/
inductive KeySel where
  | unused
  | entry (k : Key)
  | firstDataset
  | tableLookup (s : Str)
  | tableIndex (n : Nat)
deriving DecidableEq, Repr

/-- What `read_signal` is going to do once the reader is chosen. -/
structure Plan where
  reader : Reader
  key : KeySel
  /-- `dtype` as handed to the decoder -/
  decoderDtype : Option Str
  /-- `some d`: the decoded array is `.astype(d)` – as the last operation (`steps`) -/
  finalCast : Option Str
  /-- operations after the container was opened, in order -/
  steps : List Op
deriving DecidableEq, Repr

/-- `dtype` as seen by `if dtype:` / `if dtype is not None:` -/
def guardDtype (guardNotNone : Bool) (dtype : Option Str) : Option Str :=
  if guardNotNone then dtype else dtype.filter (fun d => !d.isEmpty)

def ReaderInfo.keySel (i : ReaderInfo) (key : Key) : Except Err KeySel :=
  match i.key with
  | .ignored => .ok .unused
  | .orDefault d => .ok (.entry (if key.truthy then key else d))
  | .orFirstDataset => .ok (if key.truthy then .entry key else .firstDataset)
  | .table d =>
    match (if key = .none then d else key) with
    | .str s => .ok (.tableLookup s)
    | .int n => .ok (.tableIndex n)
    | .none => .error .typeError          -- `range(None)`

def ReaderInfo.plan (i : ReaderInfo) (key : Key) (dtype : Option Str) : Except Err Plan := do
  let sel ← i.keySel key
  match i.dtype with
  | .finalCast g =>
    let c := guardDtype g dtype
    pure ⟨i.reader, sel, none, c, i.ops.filter (fun o => o != .cast || c.isSome)⟩
  | .toDecoder dflt g =>
    let d := match guardDtype g dtype with
      | some d => some d
      | none => dflt
    pure ⟨i.reader, sel, d, none, i.ops.filter (· != .cast)⟩

/-- one test of the `if sf.subtype == …` chain of `_soundfile_read_signal` -/
inductive SubtypeTest where
  | eq (s : Str)            -- `sf.subtype == "<s>"`
  | never                   -- `sf.subtype == {…}`: a `str` compared with a set – never true
  | mem (l : List Str)      -- `sf.subtype in {…}`
  | otherwise               -- `else:`
deriving DecidableEq, Repr

def SubtypeTest.holds (sub : Str) : SubtypeTest → Bool
  | .eq s => sub == s
  | .never => false
  | .mem l => l.contains sub
  | .otherwise => true

/-- numpy type `_soundfile_read_signal` reads a file of the given libsndfile subtype with -/
def sfDtype (chain : List (SubtypeTest × Str)) (sub : Str) : Option Str :=
  (chain.find? (fun t => t.1.holds sub)).map (·.2)

/-! ## `read_signal` -/

/-- test of one `if`/`elif` of the dispatch chain -/
inductive Cond where
  /-- `force_as == <lit>` -/
  | eq (lit : Str)
  /-- `force_as == <lit> or force_as in config.SOUNDFILE_SUPPORTED_FILE_TYPES` -/
  | eqOrInSf (lit : Str)
deriving DecidableEq, Repr

def Cond.holds (env : Env) (fa : Str) : Cond → Bool
  | .eq l => fa == l
  | .eqOrInSf l => fa == l || env.sf.contains fa

/-- body of one `if`/`elif` of the dispatch chain -/
inductive Branch where
  /-- `data = helper(rfilename, dtype, key, **kwargs)` -/
  | call (i : ReaderInfo)
  /-- `try: data = a(…) except ImportError: data = b(…)` -/
  | tryImport (a b : ReaderInfo)
  /-- `assert isinstance(rfilename, str)` first -/
  | assertStr (i : ReaderInfo)
deriving DecidableEq, Repr

structure Arm where
  cond : Cond
  branch : Branch
deriving DecidableEq, Repr

/-- which exceptions an `except` clause catches -/
inductive Catch where
  | all                       -- bare `except:` / `except BaseException:` / `except Exception:`
  | only (cls : List Err)
deriving DecidableEq, Repr

def Catch.catches : Catch → Err → Bool
  | .all, _ => true
  | .only l, e => l.contains e

/-- Everything the translator reads off `util.py`. -/
structure Config where
  rules : List Rule
  /-- exception of the final `else:` of the inference chain -/
  inferElse : Err
  /-- `not isinstance(rfilename, str)` and `force_as is None` -/
  streamNoForceAs : Err
  /-- `force_as in {…}` for a stream … -/
  streamRejected : List Str
  /-- … raises this -/
  streamRejectedErr : Err
  arms : List Arm
  /-- exception of the final `else:` of the dispatch chain -/
  unknownForceAs : Err
  /-- handler of the `try` in `wds_read_signal` (which returns `None`) -/
  wdsCatch : Catch
deriving Repr

/-- the helper call itself: its lazy import may fail, then `key` / `dtype` handling -/
def callReader (env : Env) (i : ReaderInfo) (key : Key) (dtype : Option Str) : Except Err Plan :=
  if env.missing.contains i.reader then .error .importError else i.plan key dtype

/-- `try: x except ImportError: y` -/
def onImportError (x y : Except Err Plan) : Except Err Plan :=
  match x with
  | .error .importError => y
  | r => r

/-- the helpers a branch may call -/
def Branch.infos : Branch → List ReaderInfo
  | .call i => [i]
  | .tryImport a b => [a, b]
  | .assertStr i => [i]

def Branch.run (env : Env) (isStream : Bool) (key : Key) (dtype : Option Str) : Branch → Except Err Plan
  | .call i => callReader env i key dtype
  | .tryImport a b => onImportError (callReader env a key dtype) (callReader env b key dtype)
  | .assertStr i => if isStream then .error .assertionError else callReader env i key dtype

/-- the first `if` of `read_signal`: which `force_as` the dispatch chain sees.
```
if not isinstance(rfilename, str):
    if force_as is None: raise ValueError
    if force_as in {"kaldi", "table"}: raise ValueError
elif force_as is None:
    force_as = _infer_force_as_from_rfilename(rfilename)
``` -/
def resolveForceAs (cfg : Config) (env : Env) (isStream : Bool) (name : Str) (forceAs : Option Str) :
    Except Err Str :=
  if isStream then
    match forceAs with
    | none => .error cfg.streamNoForceAs
    | some fa => if cfg.streamRejected.contains fa then .error cfg.streamRejectedErr else .ok fa
  else
    match forceAs with
    | none => inferForceAs cfg.rules cfg.inferElse env name
    | some fa => .ok fa

/-- the `if force_as == … elif … else: raise ValueError` chain -/
def dispatchOn (cfg : Config) (env : Env) (isStream : Bool) (fa : Str) (key : Key) (dtype : Option Str) :
    Except Err Plan :=
  match cfg.arms.find? (fun a => a.cond.holds env fa) with
  | some arm => arm.branch.run env isStream key dtype
  | none => .error cfg.unknownForceAs

/-- `read_signal(rfilename, dtype, key, force_as)` up to the decoder call.  `name` is only looked at for a
`str` argument (`isStream = false`). -/
def dispatch (cfg : Config) (env : Env) (isStream : Bool) (name : Str) (forceAs : Option Str) (key : Key)
    (dtype : Option Str) : Except Err Plan := do
  let fa ← resolveForceAs cfg env isStream name forceAs
  dispatchOn cfg env isStream fa key dtype

/-- `inferKind`: the reader a *file name* is sent to (no `force_as`, no key, no dtype). -/
def inferKind (cfg : Config) (env : Env) (name : Str) : Except Err Reader :=
  (dispatch cfg env false name none .none none).map (·.reader)

/-! ## running a plan against abstract codecs -/

/-- The codecs.  `α` is whatever the decoder produces (container object / array); every primitive may
fail (`Err.decoder` or anything else). -/
structure Prims (α : Type) where
  /-- open the container named by the reader and decode, with the decoder-level dtype -/
  decode : Reader → Option Str → Except Err α
  select : KeySel → α → Except Err α
  reshape : α → Except Err α
  toNumpy : α → Except Err α
  /-- `.astype(d)` -/
  cast : Str → α → Except Err α

def Plan.step {α : Type} (P : Prims α) (p : Plan) (a : α) : Op → Except Err α
  | .select => P.select p.key a
  | .reshape => P.reshape a
  | .toNumpy => P.toNumpy a
  | .cast =>
    match p.finalCast with
    | some d => P.cast d a
    | none => .ok a

/-- what `read_signal` returns (or raises) once the plan is fixed -/
def Plan.run {α : Type} (P : Prims α) (p : Plan) : Except Err α := do
  let a ← P.decode p.reader p.decoderDtype
  p.steps.foldlM (p.step P) a

/-- `read_signal` as a whole -/
def readSignal {α : Type} (cfg : Config) (env : Env) (P : Prims α) (isStream : Bool) (name : Str)
    (forceAs : Option Str) (key : Key) (dtype : Option Str) : Except Err α := do
  let p ← dispatch cfg env isStream name forceAs key dtype
  p.run P

/-- ```
try:
    force_as = _infer_force_as_from_rfilename(key)
    return read_signal(io.BytesIO(data), force_as=force_as)
except:
    return None
```
The outcome of a Python call: `.ok v` = returns `v`, `.error e` = raises `e`. -/
def wdsRead {α : Type} (cfg : Config) (env : Env) (P : Prims α) (key : Str) : Except Err (Option α) :=
  match (do
      let fa ← inferForceAs cfg.rules cfg.inferElse env key
      readSignal cfg env P true [] (some fa) .none none) with
  | .ok a => .ok (some a)
  | .error e => if cfg.wdsCatch.catches e then .ok none else .error e

/-! ## HDF5: depth-first search for the first dataset -/

/-- An HDF5 object with its link name in the parent group (`"/"` for the file). -/
inductive H5 where
  | dataset (name : Str) (id : Nat)
  | group (name : Str) (children : List H5)
deriving Repr, Inhabited

def H5.name : H5 → Str
  | .dataset n _ => n
  | .group n _ => n

/-- `a <= b` for Python `str` (lexicographic by code point) -/
def strLe : Str → Str → Bool
  | [], _ => true
  | _ :: _, [] => false
  | a :: as, b :: bs => a.val < b.val || (a == b && strLe as bs)

/-- insertion into a list sorted by descending name -/
def insertDesc (x : H5) : List H5 → List H5
  | [] => [x]
  | y :: ys => if strLe y.name x.name then x :: y :: ys else y :: insertDesc x ys

/-- `keys = list(cur_group.keys()); keys.sort(reverse=True)` (as the objects the keys name) -/
def sortDesc (l : List H5) : List H5 := l.foldr insertDesc []

/--
```
group_stack = [h5py_file]; data = None
while group_stack:
    cur_group = group_stack.pop()
    if isinstance(cur_group, h5py.Dataset):
        data = cur_group; break
    else:
        keys = list(cur_group.keys()); keys.sort(reverse=True)
        for name in keys: group_stack.append(cur_group[name])
if data is None: raise IOError("Could not find any dataset")
```
Head of the list = end of Python's list (the `pop()` side): the names were appended in descending order, so
the smallest ends on top.
-/
def h5Loop : Nat → List H5 → Except Err Nat
  | _, [] => .error .ioError
  | 0, _ :: _ => .error .outOfFuel
  | _ + 1, .dataset _ id :: _ => .ok id
  | n + 1, .group _ cs :: stack => h5Loop n ((sortDesc cs).reverse ++ stack)

mutual
/-- number of objects below and including this one -/
def H5.size : H5 → Nat
  | .dataset _ _ => 1
  | .group _ cs => 1 + H5.sizeList cs
def H5.sizeList : List H5 → Nat
  | [] => 0
  | c :: cs => c.size + H5.sizeList cs
end

/-- `_hdf5_read_signal` without a key: which dataset is read -/
def h5First (file : H5) : Except Err Nat := h5Loop file.size [file]

/-- the specification: depth-first, children in ascending name order, first dataset met
(`d` bounds the nesting depth that is looked at; `H5.depth` suffices) -/
def firstD : Nat → H5 → Option Nat
  | _, .dataset _ id => some id
  | 0, .group _ _ => none
  | d + 1, .group _ cs => (sortDesc cs).reverse.findSome? (firstD d)

mutual
def H5.depth : H5 → Nat
  | .dataset _ _ => 0
  | .group _ cs => 1 + H5.depthList cs
def H5.depthList : List H5 → Nat
  | [] => 0
  | c :: cs => max c.depth (H5.depthList cs)
end

/-! ## Kaldi table: `key` -/

/-- `table[key]` on a random-access reader / `key` × `move()` then `value()` on a sequential one, for a
table with entries `es` (in file order).  Only in-range indices are modelled (`move()` past the end is
pydrobert-kaldi's business). -/
def tableGet (es : List (Str × Nat)) : KeySel → Except Err Nat
  | .tableLookup s =>
    match es.lookup s with
    | some v => .ok v
    | none => .error .keyError
  | .tableIndex n =>
    match es[n]? with
    | some e => .ok e.2
    | none => .error .decoder
  | _ => .error .decoder

end PdsVerif.Model.ReadSignal

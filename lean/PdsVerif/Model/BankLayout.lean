/-
  Model of the four filter banks of `pydrobert.speech.filters` (property C05): layout on the scale,
  per-filter constants, frequency responses per DFT bin, constructor range validation.

  Core Lean only.  Written once against the operator classes + `Transc` + `NatCast`/`IntCast` +
  `FloorCeil`, instantiated at `Float` (driver) and at `ℝ` (theorems, `Lemmas/BankReal.lean`).

  Every closed-form expression comes from `Generated/BankConsts.lean` (regenerated from the source on
  every run); this file only supplies the Python plumbing around them:

  * `tuple(f(idx) for idx in range(0, n))`                       -> `tabulate`
  * `vertices[1:-1]`, `zip(v[:-2], v[2:])`, `zip(e[:-1], e[1:])`  -> `centersOf`, `supportsOf`, `pairs`
  * `for idx in range(lo, hi): res[idx] = v; [res[-idx] = v]`     -> `writeLoop` (a fold of list writes)
  * `for period in range(a, b): res[idx] += term`                 -> `sumRange`
  * `dft_size` from `width`, `half`                               -> `dftSize`
-/
import PdsVerif.Generated.BankConsts
import PdsVerif.DriverLoop

namespace PdsVerif.Model.BankLayout
open PdsVerif PdsVerif.Gen PdsVerif.Gen.BankConsts

instance natCastFloat : NatCast Float := ⟨Float.ofNat⟩
instance intCastFloat : IntCast Float := ⟨Float.ofInt⟩

variable {α : Type} [Add α] [Sub α] [Mul α] [Div α] [Neg α] [OfScientific α] [Max α] [Min α]
  [LT α] [LE α] [DecidableLT α] [DecidableLE α] [Transc α] [NatCast α] [IntCast α] [FloorCeil α]

/-! ## scales -/

/-- the four `ScalingFunction` classes with their constructor arguments -/
inductive Scale (α : Type) where
  | linear (low slope : α)
  | octave (low : α)
  | mel
  | bark

def Scale.h2s : Scale α → α → α
  | .linear l s => Scales.linear_h2s l s
  | .octave l => Scales.octave_h2s l
  | .mel => Scales.mel_h2s
  | .bark => Scales.bark_h2s

def Scale.s2h : Scale α → α → α
  | .linear l s => Scales.linear_s2h l s
  | .octave l => Scales.octave_s2h l
  | .mel => Scales.mel_s2h
  | .bark => Scales.bark_s2h

/-! ## Python plumbing -/

/-- `tuple(f(idx) for idx in range(0, n))` -/
def tabulate {β : Type} (n : Nat) (f : Nat → β) : List β := (List.range n).map f

/-- `range(lo, hi)` over the integers -/
def intRange (lo hi : Int) : List Int := (List.range (hi - lo).toNat).map fun (i : Nat) => lo + Int.ofNat i

/-- `vertices[1:-1]` -/
def centersOf (vs : List α) : List α := (vs.drop 1).dropLast

/-- `zip(vertices[:-2], vertices[2:])` -/
def supportsOf (vs : List α) : List (α × α) := List.zip (vs.take (vs.length - 2)) (vs.drop 2)

/-- `zip(edges[:-1], edges[1:])` -/
def pairs (es : List α) : List (α × α) := List.zip es.dropLast (es.drop 1)

/-- `dft_size` of `get_frequency_response` -/
def dftSize (width : Nat) (half : Bool) : Nat :=
  if half then (if width % 2 ≠ 0 then (width + 1) / 2 else width / 2 + 1) else width

/-- `res[-idx]` for `0 ≤ idx < len`: Python's negative index (`-0` is `0`) -/
def negIdx (len idx : Nat) : Nat := if idx = 0 then 0 else len - idx

/-- `for idx in range(lo, lo+cnt): res[idx] = val idx; if mirror: res[-idx] = val idx` -/
def writeLoop (mirror : Bool) (val : Nat → α) (lo cnt : Nat) (res : List α) : List α :=
  (List.range' lo cnt).foldl
    (fun res idx =>
      let res := res.set idx (val idx)
      if mirror then res.set (negIdx res.length idx) (val idx) else res)
    res

/-- `acc = 0; for p in range(lo, hi): acc += term p` -/
def sumRange (zero : β) (add : β → β → β) (lo hi : Int) (term : Int → β) : β :=
  (intRange lo hi).foldl (fun acc p => add acc (term p)) zero

/-! ## triangular / Fbank -/

inductive BankKind where
  | tri | fbank | gabor | gammatone
  deriving DecidableEq, Repr

/-- `TriangularOverlappingFilterBank.__init__`: the vertices, or `ValueError` -/
def triVertices (sc : Scale α) (numFilts : Nat) (high : Option α) (low rate : α) : Except String (List α) :=
  if tri_ctor_rejects low high rate then .error "ValueError"
  else
    let hi := tri_high high rate
    .ok (tabulate (tri_num_vertices numFilts) fun idx => tri_vertex sc.h2s sc.s2h low hi numFilts (Nat.cast idx))

/-- `Fbank.__init__` -/
def fbankVertices (numFilts : Nat) (high : Option α) (low rate : α) : Except String (List α) :=
  if fbank_ctor_rejects low high rate then .error "ValueError"
  else
    let hi := fbank_high high rate
    .ok (tabulate (fbank_num_vertices numFilts) fun idx => fbank_vertex low hi numFilts (Nat.cast idx))

/-- what one triangular filter's `get_frequency_response` needs, after the generated pieces are plugged in -/
structure TriParts (α : Type) where
  leftIdx : Int
  rightIdx : Int
  assertLeft : Bool
  assertRight : Bool
  val : Nat → α
  mirror : Bool
  /-- `range(lo, hi)` of the bin loop -/
  lo : Int
  hi : Int

def triParts (rate left mid right : α) (width : Nat) (half analytic : Bool) : TriParts α :=
  let w : α := Nat.cast width
  let li := tri_left_idx w left rate
  let ri := tri_right_idx w right rate
  { leftIdx := li, rightIdx := ri
    assertLeft := tri_assert_left rate li w left
    assertRight := tri_assert_right rate ri w right
    val := fun idx => tri_written (tri_val (tri_bin_hz rate (Nat.cast idx) w) left mid right)
    mirror := tri_mirror half analytic
    lo := tri_loop_lo li, hi := tri_loop_hi (Int.ofNat (dftSize width half)) ri }

def fbankParts (rate left mid right : α) (width : Nat) (half analytic : Bool) : TriParts α :=
  let w : α := Nat.cast width
  let li := fbank_left_idx w left rate
  let ri := fbank_right_idx w right rate
  { leftIdx := li, rightIdx := ri
    assertLeft := fbank_assert_left rate li w left
    assertRight := fbank_assert_right rate ri w right
    val := fun idx => fbank_written (fbank_val (fbank_bin_hz rate (Nat.cast idx) w) left mid right)
    mirror := fbank_mirror half analytic
    lo := fbank_loop_lo li, hi := fbank_loop_hi (Int.ofNat (dftSize width half)) ri }

/-- every index the loop writes is inside the buffer (otherwise Python would wrap a negative index or
raise `IndexError`; `tri_writes_in_bounds` proves this never happens for a constructed bank) -/
def boundsOk (p : TriParts α) (dft : Nat) : Bool :=
  decide (0 ≤ p.lo) && decide (p.hi ≤ Int.ofNat dft)

/-- `get_frequency_response` of a triangular / Fbank filter -/
def triResponse (p : TriParts α) (width : Nat) (half : Bool) : Except String (List α) :=
  let dft := dftSize width half
  if !p.assertLeft || !p.assertRight then .error "AssertionError"
  else if !boundsOk p dft then .error "IndexError"
  else
    let lo := p.lo.toNat
    let cnt := (p.hi - p.lo).toNat
    .ok (writeLoop p.mirror p.val lo cnt (List.replicate dft 0.0))

/-! ## Gabor -/

structure GaborFilt (α : Type) where
  centerHz : α
  centerAng : α
  std : α
  suppAngLo : α
  suppAngHi : α
  wrapSupp : α
  suppLo : Int
  suppHi : Int
  /-- `int(np.ceil(std * np.sqrt(radicand)))` is defined: a negative radicand gives NaN and `int()` raises -/
  suppOk : Bool

/-- body of the constructor loop for one `(left_intersect, right_intersect)` -/
def gaborFilt (l2 erb : Bool) (rate left right : α) : GaborFilt α :=
  let centerHz := gabor_center_hz left right
  let centerAng := gabor_center_ang centerHz rate
  let std := gabor_std (gabor_bandwidth_const erb) centerHz left rate
  let fsc : α := gabor_f_support_const l2
  let tsc : α := gabor_t_support_const l2
  let diffAng := gabor_diff_ang l2 std fsc
  let wrapDiff := gabor_wrap_diff_ang l2 std fsc
  let diffSamps := gabor_diff_samps l2 std tsc
  { centerHz := gabor_centers_hz_entry centerHz, centerAng := centerAng, std := gabor_stds_entry std
    suppAngLo := gabor_supp_ang_lo centerAng diffAng, suppAngHi := gabor_supp_ang_hi centerAng diffAng
    wrapSupp := gabor_wrap_supp wrapDiff
    suppLo := gabor_supp_lo diffSamps, suppHi := gabor_supp_hi diffSamps
    suppOk := decide (0.0 ≤ gabor_diff_samps_radicand l2 std tsc) }

def gaborEdges (sc : Scale α) (numFilts : Nat) (high : Option α) (low rate : α) : Except String (List α) :=
  if gabor_ctor_rejects low high rate then .error "ValueError"
  else
    let hi := gabor_high high rate
    .ok (tabulate (gabor_num_edges numFilts) fun idx => gabor_edge sc.h2s sc.s2h low hi numFilts (Nat.cast idx))

def gaborBank (sc : Scale α) (numFilts : Nat) (high : Option α) (low rate : α) (l2 erb : Bool) :
    Except String (List (GaborFilt α)) :=
  (gaborEdges sc numFilts high low rate).bind fun es =>
    let fs := (pairs es).map fun lr => gaborFilt l2 erb rate lr.1 lr.2
    -- `ValueError: cannot convert float NaN to integer` when even the peak of a (very narrow) filter's
    -- impulse response is below EFFECTIVE_SUPPORT_THRESHOLD
    if fs.all (·.suppOk) then .ok fs else .error "ValueError"

/-- `supports_hz` entry -/
def GaborFilt.suppHz (rate : α) (f : GaborFilt α) : α × α :=
  (UtilFns.angular_to_hertz f.suppAngLo rate, UtilFns.angular_to_hertz f.suppAngHi rate)

/-- `is_analytic`: no filter's support reaches below 0 -/
def gaborAnalytic (fs : List (GaborFilt α)) : Bool := fs.all fun f => !decide (f.suppAngLo < 0.0)

/-- `GaborFilterBank.get_frequency_response` -/
def gaborResponse (l2 : Bool) (f : GaborFilt α) (width : Nat) (half : Bool) : List α :=
  let ct := gabor_fr_const_term l2 f.std
  let nt := gabor_fr_num_term f.std
  let plo := gabor_fr_period_lo f.suppAngLo
  let phi := gabor_fr_period_hi f.suppAngHi
  tabulate (dftSize width half) fun idx =>
    sumRange (0.0 : α) (· + ·) plo phi fun p => gabor_fr_term nt f.centerAng ct (Nat.cast idx) (Nat.cast width) (Int.cast p)

/-! ## complex gammatone -/

structure GammaFilt (α : Type) where
  centerHz : α
  xi : α
  alpha : α
  c : α
  offset : α
  suppAngLo : α
  suppAngHi : α
  wrapSupp : α

def gammaFilt (l2 erb maxCentered : Bool) (order : Nat) (rate left right : α) : GammaFilt α :=
  let centerHz := gammatone_center_hz left right
  let xi := gammatone_xi centerHz rate
  let logAlpha := gammatone_log_alpha (gammatone_alpha_const erb order) left right rate
  let alpha := gammatone_alpha logAlpha
  let logC := gammatone_log_c l2 order logAlpha
  let c := gammatone_c logC
  let diffAng := gammatone_diff_ang order logC logAlpha
  let wrapDiff := gammatone_wrap_diff_ang order logC logAlpha
  { centerHz := gammatone_centers_hz_entry centerHz, xi := xi, alpha := gammatone_alphas_entry alpha
    c := gammatone_cs_entry c, offset := gammatone_offset maxCentered order alpha
    suppAngLo := gammatone_supp_ang_lo xi diffAng, suppAngHi := gammatone_supp_ang_hi xi diffAng
    wrapSupp := gammatone_wrap_supp wrapDiff }

def gammaEdges (sc : Scale α) (numFilts : Nat) (high : Option α) (low rate : α) (order : Int) :
    Except String (List α) :=
  if gammatone_ctor_rejects low high rate then .error "ValueError"
  else if gammatone_order_rejects order then .error "ValueError"
  else
    let hi := gammatone_high high rate
    .ok (tabulate (gammatone_num_edges numFilts) fun idx => gammatone_edge sc.h2s sc.s2h low hi numFilts (Nat.cast idx))

def gammaBank (sc : Scale α) (numFilts : Nat) (high : Option α) (low rate : α) (order : Int)
    (maxCentered l2 erb : Bool) : Except String (List (GammaFilt α)) :=
  (gammaEdges sc numFilts high low rate order).map fun es =>
    (pairs es).map fun lr => gammaFilt l2 erb maxCentered order.toNat rate lr.1 lr.2

def GammaFilt.suppHz (rate : α) (f : GammaFilt α) : α × α :=
  (UtilFns.angular_to_hertz f.suppAngLo rate, UtilFns.angular_to_hertz f.suppAngHi rate)

def gammaAnalytic (fs : List (GammaFilt α)) : Bool := fs.all fun f => !decide (f.suppAngLo < 0.0)

/-- `ComplexGammatoneFilterBank.get_frequency_response` (complex values as pairs) -/
def gammaResponse (order : Nat) (f : GammaFilt α) (width : Nat) (half : Bool) : List (α × α) :=
  let plo := gammatone_fr_period_lo f.suppAngLo
  let phi := gammatone_fr_period_hi f.suppAngHi
  tabulate (dftSize width half) fun idx =>
    let omega := gammatone_fr_omega (Nat.cast idx) (Nat.cast width)
    sumRange ((0.0, 0.0) : α × α) cadd plo (phi + 1) fun p =>
      gammatone_H order f.alpha f.c f.xi f.offset (gammatone_fr_arg omega (Int.cast p))

/-! ## line protocol (Float) -/

section Driver

def parseScale (s : String) : Option (Scale Float) :=
  match s.splitOn ":" with
  | ["mel"] => some .mel
  | ["bark"] => some .bark
  | ["linear", l, sl] => do some (.linear (← floatOfBits? l) (← floatOfBits? sl))
  | ["octave", l] => do some (.octave (← floatOfBits? l))
  | _ => none

def parseBool (s : String) : Option Bool :=
  match s with
  | "1" => some true
  | "0" => some false
  | _ => none

def parseHigh (s : String) : Option (Option Float) :=
  if s == "none" then some none else (floatOfBits? s).map some

def showFloats (l : List Float) : String :=
  if l.isEmpty then "-" else " ".intercalate (l.map floatBits)

def showExcept (r : Except String String) : String :=
  match r with
  | .ok s => "ok " ++ s
  | .error e => "err:" ++ e

structure Cfg where
  kind : String
  sc : Scale Float
  nf : Nat
  high : Option Float
  low : Float
  rate : Float
  f1 : Bool   -- analytic | scale_l2_norm
  f2 : Bool   -- erb
  f3 : Bool   -- max_centered
  order : Int

/-- `<kind> <scale> <num_filts> <high|none> <low> <rate> <f1> <f2> <f3> <order>` -/
def parseCfg (a : List String) : Option (Cfg × List String) :=
  match a with
  | kind :: sc :: nf :: high :: low :: rate :: f1 :: f2 :: f3 :: order :: rest => do
    let c : Cfg := { kind := kind, sc := ← parseScale sc, nf := ← nf.toNat?, high := ← parseHigh high,
                     low := ← floatOfBits? low, rate := ← floatOfBits? rate, f1 := ← parseBool f1,
                     f2 := ← parseBool f2, f3 := ← parseBool f3, order := ← order.toInt? }
    some (c, rest)
  | _ => none

def vertsOf (c : Cfg) : Option (Except String (List Float)) :=
  match c.kind with
  | "tri" => some (triVertices c.sc c.nf c.high c.low c.rate)
  | "fbank" => some (fbankVertices c.nf c.high c.low c.rate)
  | _ => none

/-- `ctor …` : constructor outcome and the public layout: `centers_hz`, `supports_hz` (lo hi per filter),
for Gabor also `supports` (samples) and for Gabor/gammatone `is_analytic`. -/
def handleCtor (c : Cfg) : Option String :=
  match c.kind with
  | "tri" | "fbank" => do
    let r ← vertsOf c
    some (showExcept (r.map fun vs =>
      showFloats (centersOf vs) ++ " | " ++ showFloats ((supportsOf vs).flatMap fun p => [p.1, p.2])))
  | "gabor" =>
    some (showExcept ((gaborBank c.sc c.nf c.high c.low c.rate c.f1 c.f2).map fun fs =>
      showFloats (fs.map (·.centerHz)) ++ " | "
        ++ showFloats (fs.flatMap fun f => [(f.suppHz c.rate).1, (f.suppHz c.rate).2]) ++ " | "
        ++ showInts (fs.flatMap fun f => [f.suppLo, f.suppHi]) ++ " | "
        ++ (if gaborAnalytic fs then "1" else "0")))
  | "gammatone" =>
    some (showExcept ((gammaBank c.sc c.nf c.high c.low c.rate c.order c.f3 c.f1 c.f2).map fun fs =>
      showFloats (fs.map (·.centerHz)) ++ " | "
        ++ showFloats (fs.flatMap fun f => [(f.suppHz c.rate).1, (f.suppHz c.rate).2]) ++ " | "
        ++ (if gammaAnalytic fs then "1" else "0")))
  | _ => none

/-- `resp … <filt> <width> <half>` : `get_frequency_response(filt, width, half)` (complex: re im pairs) -/
def handleResp (c : Cfg) (filt width : Nat) (half : Bool) : Option String :=
  match c.kind with
  | "tri" | "fbank" => do
    let r ← vertsOf c
    some (showExcept (do
      let vs ← r
      match vs[filt]?, vs[filt + 1]?, vs[filt + 2]? with
      | some l, some m, some rr =>
        let p := if c.kind == "tri" then triParts c.rate l m rr width half c.f1
                 else fbankParts c.rate l m rr width half c.f1
        (triResponse p width half).map showFloats
      | _, _, _ => .error "IndexError"))
  | "gabor" =>
    some (showExcept (do
      let fs ← gaborBank c.sc c.nf c.high c.low c.rate c.f1 c.f2
      match fs[filt]? with
      | some f => .ok (showFloats (gaborResponse c.f1 f width half))
      | none => .error "IndexError"))
  | "gammatone" =>
    some (showExcept (do
      let fs ← gammaBank c.sc c.nf c.high c.low c.rate c.order c.f3 c.f1 c.f2
      match fs[filt]? with
      | some f => .ok (showFloats ((gammaResponse c.order.toNat f width half).flatMap fun z => [z.1, z.2]))
      | none => .error "IndexError"))
  | _ => none

def handle (args : List String) : Option String :=
  match args with
  | "ctor" :: rest => do
    let (c, r) ← parseCfg rest
    if r.isEmpty then handleCtor c else none
  | "resp" :: rest => do
    let (c, r) ← parseCfg rest
    match r with
    | [filt, width, half] => handleResp c (← filt.toNat?) (← width.toNat?) (← parseBool half)
    | _ => none
  | _ => none

end Driver

end PdsVerif.Model.BankLayout

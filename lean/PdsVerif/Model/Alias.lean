/-
  Model of `src/pydrobert/speech/alias.py` (property C08).  CORE LEAN ONLY.

  * `Cls` is a class object of the `AliasedFactory` hierarchy as `from_alias` sees it: its identity
    (`id`, what `pushed_children` hashes), its *effective* `aliases` attribute (what `cls.aliases`
    evaluates to, i.e. inherited when the class does not define its own), and `__subclasses__()` in the
    order Python reports it (registration order).  Single inheritance inside the hierarchy makes this a
    tree; the translator / synthetic dumper refuse a diamond.
  * `run` / `resolve` mirror the `while stack:` loop of `AliasedFactory.from_alias` statement by statement.
  * `fromArg` mirrors `alias_factory_subclass_from_arg`, threading the caller's mapping through a
    two-cell store so that "never modifies the mapping it is given" is a statement about the model.
-/
namespace PdsVerif.Model.Alias

/-- What is read off one class object. -/
structure Info where
  /-- identity of the class object (`hash`/`is`); distinct classes have distinct ids -/
  id : Nat
  /-- `__module__ + "." + __qualname__` (display / lookup of the family roots only) -/
  name : String
  /-- `not inspect.isabstract(cls)` -/
  concrete : Bool
  /-- the value of `cls.aliases` (a set of `str`), sorted -/
  aliases : List String
deriving DecidableEq, Repr, Inhabited

/-- One row of the flat dump of a hierarchy: a class, its parent and its index in
`parent.__subclasses__()`. -/
structure Row where
  id : Nat
  name : String
  parent : Option Nat
  pos : Nat
  concrete : Bool
  aliases : List String
deriving DecidableEq, Repr

/-- A class together with `cls.__subclasses__()` (in the order Python returns them). -/
inductive Cls where
  | mk (info : Info) (subclasses : List Cls)
deriving Repr, Inhabited

namespace Cls

def info : Cls → Info
  | mk i _ => i

/-- `cls.__subclasses__()` -/
def subclasses : Cls → List Cls
  | mk _ cs => cs

abbrev id (c : Cls) : Nat := c.info.id
abbrev name (c : Cls) : String := c.info.name
abbrev concrete (c : Cls) : Bool := c.info.concrete
abbrev aliases (c : Cls) : List String := c.info.aliases

mutual
/-- The declarative search order: all of the sub-hierarchies of the subclasses, the **last registered
subclass first**, and only then the class itself (descendants before ancestors).
`order (mk i cs) = cs.reverse.flatMap order ++ [mk i cs]` (lemma `order_eq`). -/
def order : Cls → List Cls
  | mk i cs => orderRev cs ++ [mk i cs]
/-- `orderRev cs = cs.reverse.flatMap order` (lemma `orderRev_eq`). -/
def orderRev : List Cls → List Cls
  | [] => []
  | c :: cs => orderRev cs ++ order c
end

mutual
/-- The class and all its direct and indirect subclasses, parents first, in registration order. -/
def classes : Cls → List Cls
  | mk i cs => mk i cs :: classesList cs
def classesList : List Cls → List Cls
  | [] => []
  | c :: cs => classes c ++ classesList cs
end

/-- identities of the classes of the hierarchy below (and including) `c` -/
def ids (c : Cls) : List Nat := c.order.map Cls.id

/-- number of classes in the hierarchy -/
def size (c : Cls) : Nat := c.order.length

mutual
def decEq : (a b : Cls) → Decidable (a = b)
  | mk i cs, mk j ds =>
    if h : i = j then
      match decEqList cs ds with
      | isTrue h2 => isTrue (by rw [h, h2])
      | isFalse h2 => isFalse (by intro h3; cases h3; exact h2 rfl)
    else isFalse (by intro h3; cases h3; exact h rfl)
def decEqList : (as bs : List Cls) → Decidable (as = bs)
  | [], [] => isTrue rfl
  | [], _ :: _ => isFalse (by intro h; cases h)
  | _ :: _, [] => isFalse (by intro h; cases h)
  | a :: as, b :: bs =>
    match decEq a b with
    | isTrue h1 =>
      match decEqList as bs with
      | isTrue h2 => isTrue (by rw [h1, h2])
      | isFalse h2 => isFalse (by intro h3; cases h3; exact h2 rfl)
    | isFalse h1 => isFalse (by intro h3; cases h3; exact h1 rfl)
end

instance : DecidableEq Cls := decEq

/-- first class (parents first) with the given qualified name -/
def findName (c : Cls) (n : String) : Option Cls :=
  c.classes.find? (fun x => x.name == n)

mutual
/-- flat view of the hierarchy, parents first -/
def flatten (parent : Option Nat) (pos : Nat) : Cls → List Row
  | mk i cs => ⟨i.id, i.name, parent, pos, i.concrete, i.aliases⟩ :: flattenList (some i.id) 0 cs
def flattenList (parent : Option Nat) (pos : Nat) : List Cls → List Row
  | [] => []
  | c :: cs => flatten parent pos c ++ flattenList parent (pos + 1) cs
end

end Cls

/-- Exceptions the modelled code raises (`outOfFuel` is not a Python exception: it is the model running
out of loop fuel, proved impossible in `Props/C08.lean`). -/
inductive Err where
  | valueError | keyError | typeError | outOfFuel
deriving DecidableEq, Repr, Inhabited

deriving instance DecidableEq for Except

def Err.toString : Err → String
  | .valueError => "ValueError"
  | .keyError => "KeyError"
  | .typeError => "TypeError"
  | .outOfFuel => "out-of-fuel"

/-- `alias in parent.aliases` -/
def hasAlias (a : String) (c : Cls) : Bool := c.aliases.contains a

/--
The loop of `AliasedFactory.from_alias`.  The head of `stack` is the end of Python's list (`pop()` /
`append` side); `pushed` is `pushed_children` (class identities).

```
while stack:                                     -- `[]` ⇒ fall out of the loop ⇒ raise ValueError
    parent = stack.pop()
    if parent not in pushed_children:
        children = parent.__subclasses__()
        stack.append(parent)
        stack.extend(children)                   -- last child ends on top
        pushed_children.add(parent)
    elif alias in parent.aliases:
        return parent(*args, **kwargs)
raise ValueError(...)
```
-/
def run (a : String) : Nat → List Cls → List Nat → Except Err Cls
  | _, [], _ => .error .valueError
  | 0, _ :: _, _ => .error .outOfFuel
  | n + 1, parent :: stack, pushed =>
    if !pushed.contains parent.id then
      run a n (parent.subclasses.reverse ++ parent :: stack) (parent.id :: pushed)
    else if hasAlias a parent then
      .ok parent
    else
      run a n stack pushed

/-- `cls.from_alias(alias, ...)` up to the constructor call: the class that gets instantiated, or the
error.  `stack = [cls]`, `pushed_children = set()`; every class is popped at most twice. -/
def resolve (cls : Cls) (a : String) : Except Err Cls :=
  run a (2 * cls.size) [cls] []

/-- The declarative specification of `resolve`: first class carrying the alias in `Cls.order`. -/
def spec (cls : Cls) (a : String) : Except Err Cls :=
  match cls.order.find? (hasAlias a) with
  | some c => .ok c
  | none => .error .valueError

/-! ### `alias_factory_subclass_from_arg` -/

/-- A value in a configuration mapping, as far as `from_alias` can tell values apart: a `str`, some other
hashable object (number, bool, `None`, tuple …) or an unhashable one (list, dict).  `repr` is opaque. -/
inductive Val where
  | str (s : String)
  | hashable (repr : String)
  | unhashable (repr : String)
deriving DecidableEq, Repr, Inhabited

/-- A mapping with `str` keys in iteration order (keys distinct, as in any `dict` / JSON object). -/
abbrev Mapping := List (String × Val)

/-- `d.pop(k)`: the value and the dictionary without the key, `KeyError` when absent. -/
def Mapping.pop (d : Mapping) (k : String) : Except Err (Val × Mapping) :=
  match d.lookup k with
  | some v => .ok (v, d.filter (fun e => e.1 != k))
  | none => .error .keyError

/-- The `arg` of `alias_factory_subclass_from_arg`. -/
inductive Arg where
  /-- an instance (object identity `obj`) of the hierarchy class with identity `cls` -/
  | inst (cls : Nat) (obj : Nat)
  | str (s : String)
  | map (m : Mapping)
  /-- anything else that `dict()` cannot convert (number, `None`, …) -/
  | other
deriving DecidableEq, Repr, Inhabited

/-- What the call returns. -/
inductive Out where
  /-- `arg` itself (same object) -/
  | same (obj : Nat)
  /-- `cls(**kwargs)` -/
  | construct (cls : Cls) (kwargs : Mapping)
deriving DecidableEq, Repr, Inhabited

/-- `factory_class.from_alias(alias, **kwargs)` for an arbitrary alias *value*: a non-`str` hashable value is
never `in` a set of `str` (⇒ the loop ends in `ValueError`); an unhashable one makes the first
`alias in parent.aliases` raise `TypeError` (there always is a first test before any return). -/
def fromAlias (fac : Cls) (alias : Val) (kwargs : Mapping) : Except Err Out :=
  match alias with
  | .str s => (resolve fac s).map (fun c => Out.construct c kwargs)
  | .hashable _ => .error .valueError
  | .unhashable _ => .error .typeError

/-- The objects the `else:` branch works with: the caller's mapping and the dictionary bound to the local
name `arg` after `arg = dict(arg)`. -/
structure Store where
  caller : Mapping
  loc : Mapping

/-- `arg = dict(arg)`: a *new* dictionary with the same items. -/
def Store.copyIn (m : Mapping) : Store := { caller := m, loc := m }

/-- `arg.pop(k)` on the local dictionary. -/
def Store.popLoc (s : Store) (k : String) : Except Err (Val × Store) :=
  (s.loc.pop k).map (fun (v, d) => (v, { s with loc := d }))

/--
```
if isinstance(arg, factory_class): return arg
elif isinstance(arg, str):         return factory_class.from_alias(arg)
else:
    arg = dict(arg)
    try:             alias = arg.pop("alias")
    except KeyError: alias = arg.pop("name")
    return factory_class.from_alias(alias, **arg)
```
Result: (what is returned / raised, the caller's `arg` object after the call).
-/
def fromArg (fac : Cls) (arg : Arg) : Except Err Out × Arg :=
  match arg with
  | .inst c o =>
    if fac.ids.contains c then (.ok (.same o), .inst c o)   -- isinstance(arg, factory_class)
    else (.error .typeError, .inst c o)                      -- dict(arg): object is not iterable
  | .str s => (fromAlias fac (.str s) [], .str s)
  | .map m =>
    let s := Store.copyIn m
    match s.popLoc "alias" with
    | .ok (alias, s) => (fromAlias fac alias s.loc, .map s.caller)
    | .error _ =>
      match s.popLoc "name" with
      | .ok (alias, s) => (fromAlias fac alias s.loc, .map s.caller)
      | .error e => (.error e, .map s.caller)
  | .other => (.error .typeError, .other)

end PdsVerif.Model.Alias

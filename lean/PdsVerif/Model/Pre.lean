/-
  Model of `/repo/src/pydrobert/speech/pre.py` (`Preemphasize.apply`, `Dither.apply`) and of the
  functional forms `pytorch_preemphasize` / `pytorch_dither` in `/repo/src/pydrobert/speech/torch.py`.

  CORE LEAN ONLY.  Arithmetic is written against the standard operator classes, so the very same
  definitions are (a) executed at `Rat` by the driver — every finite IEEE double is a dyadic rational,
  so the wire format is the bit pattern and the model computes the *exact* value — and (b) the subject
  of the theorems of `Props/C18.lean` at any ring / field.

  What is modelled, line by line (pre.py):

    141  signal_dtype = signal.dtype
    142  if not in_place or signal_dtype != np.float64:
    143      signal = signal.astype(np.float64)              -- working copy (exact widening)
    146  signal[..., 1:] -= self.coeff * signal[..., :-1]    -- `preemphNp` on every lane
    149  return signal.astype(signal_dtype, copy=False)      -- `castBack`; same object iff float64

     95  signal_dtype = signal.dtype
     96  if not in_place or signal.dtype != np.float64: signal = signal.astype(np.float64)
     99  signal += np.random.normal(0, self.coeff, signal.shape)   -- `dither` (noise = 0 + coeff * z)
    104  return signal.astype(signal_dtype, copy=False)

  IEEE round-off is absent: the float64 working copy is modelled by exact values.
-/
namespace PdsVerif.Model.Pre

/-! ## Pre-emphasis on one lane -/

/-- NumPy form.  `signal[1:] -= coeff * signal[:-1]`: the right-hand side `coeff * signal[:-1]` is a
temporary array built from the values the lane holds *before* the update (`x.dropLast`), it is then
subtracted element-wise from the slice `x.drop 1`; position 0 (`x.take 1`) is not written. -/
def preemphNp {α : Type} [Sub α] [Mul α] (c : α) (x : List α) : List α :=
  let rhs := x.dropLast.map (fun v => c * v)
  x.take 1 ++ List.zipWith (fun a b => a - b) (x.drop 1) rhs

/-- PyTorch form.  `sig = cat([sig.new_zeros(1), sig]); return sig[1:] - coeff * sig[:-1]`. -/
def preemphTorch {α : Type} [OfNat α 0] [Sub α] [Mul α] (c : α) (x : List α) : List α :=
  let sig := [(0 : α)] ++ x
  List.zipWith (fun a b => a - b) (sig.drop 1) (sig.dropLast.map (fun v => c * v))

/-- The documented recurrence, written so that it can only read the ORIGINAL signal:
`recur c p t` emits `t[i] - c * (p :: t)[i]`. -/
def recur {α : Type} [Sub α] [Mul α] (c : α) : α → List α → List α
  | _, [] => []
  | p, a :: t => (a - c * p) :: recur c a t

/-- `new[0] = old[0]`, `new[i] = old[i] - coeff * old[i-1]`. -/
def preemphSpec {α : Type} [Sub α] [Mul α] (c : α) : List α → List α
  | [] => []
  | a :: t => a :: recur c a t

/-- NOT the code: the left-to-right loop `for i in 1..: x[i] -= c * x[i-1]` that reads values it has
already overwritten.  Kept only so that `Props/C18.lean` can exhibit that the distinction is real. -/
def preemphSeq {α : Type} [Sub α] [Mul α] (c : α) : List α → List α
  | [] => []
  | a :: t => a :: go a t
where
  go : α → List α → List α
    | _, [] => []
    | p, b :: t => let b' := b - c * p; b' :: go b' t

/-- `signal[..., 1:] -= …` on a 2-D array whose last axis is the lane: every leading index. -/
def preemphRows {α : Type} [Sub α] [Mul α] (c : α) (m : List (List α)) : List (List α) :=
  m.map (preemphNp c)

/-! ## Dither on one lane.  `z` is the standard-normal draw: a parameter, not a function of `x`. -/

/-- NumPy form.  `signal += np.random.normal(0, coeff, shape)`; NumPy's legacy `normal(loc, scale)` is
`loc + scale * gauss`, so the noise array is `0 + coeff * z`. -/
def dither {α : Type} [OfNat α 0] [Add α] [Mul α] (c : α) (z x : List α) : List α :=
  let noise := z.map (fun g => (0 : α) + c * g)
  List.zipWith (fun a n => a + n) x noise

/-- PyTorch form.  `sig + coeff * torch.randn_like(sig)`. -/
def ditherTorch {α : Type} [Add α] [Mul α] (c : α) (z x : List α) : List α :=
  List.zipWith (fun a n => a + n) x (z.map (fun g => c * g))

/-! ## dtypes and the final `astype(signal_dtype)` -/

inductive DType where
  | int16 | int32 | float32 | float64
  deriving DecidableEq, Repr

def DType.parse : String → Option DType
  | "int16" => some .int16 | "int32" => some .int32
  | "float32" => some .float32 | "float64" => some .float64
  | _ => none

/-- inclusive range of the integer dtypes -/
def DType.range : DType → Option (Int × Int)
  | .int16 => some (-32768, 32767)
  | .int32 => some (-2147483648, 2147483647)
  | _ => none

/-- C's float→integer conversion: discard the fractional part (round toward zero). -/
def truncZ (q : Rat) : Int := Int.tdiv q.num q.den

/-- `astype(dtype)` of one float64 value.  Integer dtypes truncate toward zero; a value whose
truncation is outside the dtype's range is undefined behaviour in C (`none`: no claim is made).
Float dtypes: round-off is not modelled (identity on the exact value). -/
def castBack (dt : DType) (q : Rat) : Option Rat :=
  match dt.range with
  | some (lo, hi) =>
      let t := truncZ q
      if lo ≤ t ∧ t ≤ hi then some (t : Rat) else none
  | none => some q

/-! ## `apply`: working copy, update, cast, aliasing -/

/-- What a caller can observe of `apply(signal, in_place=…)`. -/
structure Outcome (α : Type) where
  /-- values of the returned array -/
  out : List α
  /-- values held by the caller's array after the call -/
  inputAfter : List α
  /-- the returned array shares memory with the caller's array -/
  shares : Bool
  deriving Repr, DecidableEq

/-- Common shape of both `apply` methods.  `upd` is the float64 update (`preemphNp c` or
`dither c z`), `cast` the final `astype`.  The working array is the caller's own array exactly when
`in_place and dtype == float64` (pre.py 96-97 / 142-143); `astype(dtype, copy=False)` then returns
that same array, otherwise a fresh one. -/
def applyWith {α : Type} (cast : DType → α → Option α) (upd : List α → List α)
    (dt : DType) (inPlace : Bool) (x : List α) : Option (Outcome α) :=
  let copy : Bool := !inPlace || dt != DType.float64
  let work := upd x
  match work.mapM (cast dt) with
  | none => none
  | some out =>
      if copy then some { out := out, inputAfter := x, shares := false }
      else some { out := out, inputAfter := work, shares := true }

def applyPreemph (dt : DType) (inPlace : Bool) (c : Rat) (x : List Rat) : Option (Outcome Rat) :=
  applyWith castBack (preemphNp c) dt inPlace x

inductive DitherResult where
  /-- `np.random.normal` / `PyTorchDither.__init__` reject a negative standard deviation -/
  | valueError
  /-- integer overflow in the cast back: no claim -/
  | undef
  | ok (o : Outcome Rat)

def applyDither (dt : DType) (inPlace : Bool) (c : Rat) (z x : List Rat) : DitherResult :=
  if c < 0 then .valueError
  else match applyWith castBack (dither c z) dt inPlace x with
    | none => .undef
    | some o => .ok o

/-! ## Wire format: IEEE-754 binary64 bit patterns ⇄ exact rationals -/

/-- exact value of a finite double; `none` for inf / NaN -/
def ratOfBits (b : Nat) : Option Rat :=
  let sign : Nat := b / 2 ^ 63
  let e : Nat := (b / 2 ^ 52) % 2048
  let m : Nat := b % 2 ^ 52
  if b ≥ 2 ^ 64 ∨ e = 2047 then none
  else
    let mag : Rat :=
      if e = 0 then mkRat (Int.ofNat m) (2 ^ 1074)
      else if e ≥ 1075 then ((Int.ofNat ((m + 2 ^ 52) * 2 ^ (e - 1075)) : Int) : Rat)
      else mkRat (Int.ofNat (m + 2 ^ 52)) (2 ^ (1075 - e))
    some (if sign = 1 then -mag else mag)

def parseBitsList (s : String) : Option (List Rat) :=
  if s == "-" then some []
  else (s.splitOn ",").mapM fun t => t.toNat? >>= ratOfBits

def showRat (q : Rat) : String := toString q.num ++ "/" ++ toString q.den

def showRats (l : List Rat) : String :=
  if l.isEmpty then "-" else ",".intercalate (l.map showRat)

def showOutcome (o : Outcome Rat) : String :=
  "ok " ++ showRats o.out ++ " " ++ showRats o.inputAfter ++ " " ++ (if o.shares then "1" else "0")

def parseBool : String → Option Bool
  | "0" => some false | "1" => some true | _ => none

/-- line protocol (all numbers are binary64 bit patterns in decimal, lists comma separated, `-` empty):

* `pre.np <dtype> <inplace> <c> <x>`          → `ok <out> <inputAfter> <shares>` | `undef`
* `pre.torch <c> <x>`                         → `ok <out>`
* `pre.spec <c> <x>`                          → `ok <out>`   (the recurrence on the original signal)
* `dither.np <dtype> <inplace> <c> <z> <x>`   → `ok …` | `undef` | `err:ValueError` | `bad-op` (|z| ≠ |x|)
* `dither.torch <c> <z> <x>`                  → `ok <out>` | `err:ValueError`
-/
def handle (args : List String) : Option String :=
  match args with
  | ["pre.np", dt, ip, c, x] => do
      let dt ← DType.parse dt
      let ip ← parseBool ip
      let c ← c.toNat? >>= ratOfBits
      let x ← parseBitsList x
      match applyPreemph dt ip c x with
      | none => some "undef"
      | some o => some (showOutcome o)
  | ["pre.torch", c, x] => do
      let c ← c.toNat? >>= ratOfBits
      let x ← parseBitsList x
      some ("ok " ++ showRats (preemphTorch c x))
  | ["pre.spec", c, x] => do
      let c ← c.toNat? >>= ratOfBits
      let x ← parseBitsList x
      some ("ok " ++ showRats (preemphSpec c x))
  | ["dither.np", dt, ip, c, z, x] => do
      let dt ← DType.parse dt
      let ip ← parseBool ip
      let c ← c.toNat? >>= ratOfBits
      let z ← parseBitsList z
      let x ← parseBitsList x
      if z.length ≠ x.length then none
      else match applyDither dt ip c z x with
        | .valueError => some "err:ValueError"
        | .undef => some "undef"
        | .ok o => some (showOutcome o)
  | ["dither.torch", c, z, x] => do
      let c ← c.toNat? >>= ratOfBits
      let z ← parseBitsList z
      let x ← parseBitsList x
      if z.length ≠ x.length then none
      else if c < 0 then some "err:ValueError"
      else some ("ok " ++ showRats (ditherTorch c z x))
  | _ => none

end PdsVerif.Model.Pre

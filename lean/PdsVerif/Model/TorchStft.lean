/-
  Framing of `pytorch_stft_frame_computer` (`/repo/src/pydrobert/speech/torch.py`):
  symmetric padding by gathering the periodic symmetric extension
  (`idx = arange(-pl, N + pr).remainder(2N); idx = where(idx < N, idx, 2N - 1 - idx); sig[idx]` — the same
  index map as `np.pad(…, 'symmetric')`, i.e. `symIdx`), then `as_strided((num_frames, L), (S, 1))`.  (The port's segment walk is `Model/Walk.lean`'s `runTorch`.)
-/
import PdsVerif.Model.Stft
namespace PdsVerif.Model.TorchStft
open PdsVerif.Model.Stft

/-- rows of `as_strided((nf, L), (S, 1))`: row `k` is `storage[k*S : k*S + L]`; reading past the end of
the storage is a `RuntimeError` in PyTorch, modelled as `none` -/
def asStrided {α} (c : Cfg) (storage : List α) (nf : Nat) : Option (List (List α)) :=
  if nf = 0 ∨ (nf - 1) * c.S + c.L ≤ storage.length then
    some ((List.range nf).map fun k => (storage.drop (k * c.S)).take c.L)
  else none

/-- number of columns of the result -/
def numCols (numFilts : Nat) (includeEnergy : Bool) : Nat := numFilts + (if includeEnergy then 1 else 0)

def frames {α} [Inhabited α] (c : Cfg) (x : List α) : Option (List (List α)) :=
  let N := x.length
  if N < c.L / 2 + 1 then some []
  else
    let pl := padL c
    let nf := (N + c.S / 2) / c.S
    let pr := ((((nf : Int) - 1) * c.S - pl + c.L) - N).toNat
    -- `if pad_left or pad_right: sig = sig[idx]` with `idx` the symmetric-extension index map
    let padded := if pl = 0 ∧ pr = 0 then x else symPad x pl pr
    asStrided c padded nf

end PdsVerif.Model.TorchStft

/-
  C07 — executable model of the *time-domain* side of the four filter banks of
  `pydrobert/speech/filters.py`: temporal supports, envelopes, the gammatone Newton search, and the
  buffer layout (time aliasing) of `get_impulse_response`.

  Core Lean only.  Polymorphic over the standard operator classes + `Transc` + `Rnd`, so the same
  definitions run at `Float` in the driver and are reasoned about at `ℝ`
  (`PdsVerif/Lemmas/BankTime.lean`, `PdsVerif/Props/C07.lean`).

  What comes from where
  * every arithmetic expression (support constants, `K`, radicands, exponents of the impulse responses,
    `_d`, the Newton start / test / update, the integer pairs) and the class table are *generated* from
    the source on every run (`PdsVerif/Generated/BankTime.lean`);
  * the control structure is modelled by hand here, line by line: the `while` loop of
    `_calculate_temp_support` (no iteration cap in the source: explicit fuel here, with a fuel bound
    `newtonFuel` proved sufficient over ℝ in `C07.newton_terminates`), the `n == 1` branch, the
    NaN → `ValueError` of `int(np.ceil(nan))` for Gabor, and the store patterns of the three
    `get_impulse_response` loops (which images of the continuous-time response land in which sample).
-/
import PdsVerif.Generated.BankTime

namespace PdsVerif.Model.BankTime
open PdsVerif PdsVerif.Gen.BankTime

variable {α : Type} [Add α] [Sub α] [Mul α] [Div α] [Neg α] [OfScientific α] [Max α] [Min α]
  [LT α] [LE α] [DecidableLT α] [DecidableLE α] [Transc α] [Rnd α]

/-! ## class table -/

inductive Bank where
  | tri | fbank | gabor | gammatone
  deriving DecidableEq, Repr

/-- `bank.is_real` (`analytic`: constructor flag of tri / Fbank; `wrap`: `_wrap_below` of the others) -/
def isReal : Bank → Bool → Bool → Bool
  | .tri, a, _ => is_real_tri a
  | .fbank, a, _ => is_real_fbank a
  | .gabor, a, w => is_real_gabor a w
  | .gammatone, a, w => is_real_gammatone a w

def isAnalytic : Bank → Bool → Bool → Bool
  | .tri, a, _ => is_analytic_tri a
  | .fbank, a, _ => is_analytic_fbank a
  | .gabor, a, w => is_analytic_gabor a w
  | .gammatone, a, w => is_analytic_gammatone a w

def isZeroPhase : Bank → Bool → Bool → Bool
  | .tri, a, _ => is_zero_phase_tri a
  | .fbank, a, _ => is_zero_phase_fbank a
  | .gabor, a, w => is_zero_phase_gabor a w
  | .gammatone, a, w => is_zero_phase_gammatone a w

/-- is the array `get_impulse_response` returns of a real dtype -/
def impulseDtypeReal : Bank → Bool → Bool → Bool
  | .tri, a, _ => impulse_dtype_real_tri a
  | .fbank, a, _ => impulse_dtype_real_fbank a
  | .gabor, a, w => impulse_dtype_real_gabor a w
  | .gammatone, a, w => impulse_dtype_real_gammatone a w

/-! ## temporal supports -/

/-- `TriangularOverlappingFilterBank.supports[i]` from the angles of the filter's three vertices -/
def triSupport (l m r : α) : Int × Int := tri_sup (tri_K_int l m r)

/-- `Fbank.supports[i]` -/
def fbankSupport (l m r : α) : Int × Int := fbank_sup (fbank_K_int l m r)

/-- `GaborFilterBank.supports[i]`; `none` = the constructor raises (`np.sqrt` of a negative number is
NaN and `int(np.ceil(nan))` is a `ValueError`): the peak of the envelope is already below the threshold. -/
def gaborSupport (l2 : Bool) (std : α) : Option (Int × Int) :=
  if (0.0 : α) ≤ gabor_rad l2 std then some (gabor_sup (gabor_diff_samps l2 std)) else none

/-! ## gammatone: the Newton search -/

/-- the `while h_0 > eps` loop of `_calculate_temp_support`; one unit of fuel per evaluation of the
test; `none` = fuel exhausted (the source has no cap). -/
def newtonLoop (c alpha n offset : α) : Nat → α → Option α
  | 0, _ => none
  | k + 1, right =>
    let h0 := gt_newton_h c alpha n offset right
    if gt_newton_continue h0 = true then
      newtonLoop c alpha n offset k (gt_newton_step c alpha n right h0)
    else some right

def newtonSearch (fuel : Nat) (c alpha n offset : α) : Option α :=
  newtonLoop c alpha n offset fuel (gt_newton_start alpha n)

/-- a time by which the envelope is certainly below the threshold (see `C07.env_le_at_Tstar`) -/
def newtonTstar (c alpha n : α) : α :=
  Max.max (gt_newton_start alpha n)
    ((2.0 / alpha) * (Transc.log c - Transc.log threshold
      + (n - 1.0) * (Transc.log (2.0 * (n - 1.0) / alpha) - 1.0)))

/-- fuel that provably suffices (every Newton step moves right by at least `1/alpha`) -/
def newtonFuel (c alpha n : α) : Nat :=
  (Rnd.toInt (Rnd.ceil (alpha * (newtonTstar c alpha n - gt_newton_start alpha n)))).toNat + 1

/-- `_calculate_temp_support`: `order1` is the test `n == 1`. -/
def gtSupport (order1 : Bool) (fuel : Nat) (c alpha n offset : α) : Option (Int × Int) :=
  if order1 then some (gt_sup offset (gt_right_order1 c alpha))
  else (newtonSearch fuel c alpha n offset).map (gt_sup offset)

/-! ## impulse responses: which continuous-time samples land where -/

/-- Gabor `res[k]`, `0 ≤ k < W`: the loop adds `val(k)` (from `t = k`) and `conj(val(W-k))`
(from `t = W - k`, stored at `res[-(W-k)]`).  `tk = k`, `twk = W - k` as numbers. -/
def gaborImpulse (l2 : Bool) (std ca tk twk : α) : α × α :=
  let e1 := gabor_env l2 std tk
  let e2 := gabor_env l2 std twk
  let p1 := gabor_phase ca tk
  let p2 := gabor_phase ca twk
  (e1 * Transc.cos p1 + e2 * Transc.cos p2, e1 * Transc.sin p1 - e2 * Transc.sin p2)

/-- gammatone: one term `_h(t, idx)` as (re, im) -/
def gtTerm (c alpha n xi offset t : α) : α × α :=
  let e := gt_h_env c alpha n offset t
  let p := gt_h_phase xi offset t
  (e * Transc.cos p, e * Transc.sin p)

/-- the periods `get_impulse_response` sums over: `floor(left / W) .. ceil(right / W)` -/
def gtPeriods (sup : Int × Int) (W : Nat) : List Int :=
  let lp := Int.fdiv sup.1 W
  let rp := -(Int.fdiv (-sup.2) W)
  (List.range (rp + 1 - lp).toNat).map fun (j : Nat) => lp + Int.ofNat j

/-- gammatone `res[idx]` = Σ over periods of `_h(period * W + idx)`; `ofInt` converts the integer time -/
def gtImpulse (ofInt : Int → α) (c alpha n xi offset : α) (sup : Int × Int) (W idx : Nat) : α × α :=
  (gtPeriods sup W).foldl
    (fun acc p =>
      let v := gtTerm c alpha n xi offset (ofInt (p * (W : Int) + (idx : Int)))
      (acc.1 + v.1, acc.2 + v.2))
    ((0.0 : α), (0.0 : α))

/-- triangular bank, `res[k]` for `1 ≤ k < W`: `val(k)` (from `t = k`) plus `conj(val(W-k))` (from
`t = W - k`), divided by `denom`.  Real bank: imaginary part `0`. -/
def triImpulse (analytic : Bool) (l m r tk twk : α) : α × α :=
  let dv := tri_ir_div_term l m r
  let dn := tri_ir_denom analytic l m r
  if analytic then
    ((tri_ir_val_re l m r dv tk + tri_ir_val_re l m r dv twk) / dn,
     (tri_ir_val_im l m r dv tk - tri_ir_val_im l m r dv twk) / dn)
  else
    ((tri_ir_val l m r dv tk + tri_ir_val l m r dv twk) / dn, 0.0)

/-- triangular bank, `res[0]`: `val(W)` (the `else` branch of the store, no conjugate partner) plus the
`t = 0` term, divided by `denom`. -/
def triImpulse0 (analytic : Bool) (l m r tw : α) : α × α :=
  let dv := tri_ir_div_term l m r
  let dn := tri_ir_denom analytic l m r
  if analytic then
    ((tri_ir_val_re l m r dv tw + tri_ir_zero l m r dv) / dn, tri_ir_val_im l m r dv tw / dn)
  else
    ((tri_ir_val l m r dv tw + tri_ir_zero l m r dv) / dn, 0.0)

end PdsVerif.Model.BankTime

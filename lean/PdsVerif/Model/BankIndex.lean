/-
  C06 — executable model of the *index arithmetic* of the frequency-domain methods of the four
  filter banks of `pydrobert/speech/filters.py`

    TriangularOverlappingFilterBank / Fbank       (compactly supported, "compact" below)
    GaborFilterBank / ComplexGammatoneFilterBank  (2π-periodised, "periodic" below)

  i.e. `get_truncated_response(filt_idx, width)`, `get_frequency_response(filt_idx, width, half)`,
  and of the rebuild recipes documented in `LinearFilterBank.get_truncated_response`.

  Core Lean only.  What is modelled, line by line:

  * `left_idx = int(np.ceil(width * l / r))`, `right_idx = int(width * h / r)`  (`int` truncates
    towards zero), with the support edge given as the exact fraction `l / r` (`Frac`): `r` is the
    sampling rate for the compact banks (edges in Hz) and `2π` for the periodic ones (edges in rad);
  * the two `assert`s of the compact banks; `np.zeros(n)` raising for negative `n`;
  * the `for idx in range(left_idx, min(dft_size, right_idx + 1))` loops as the *sequence of array
    writes* they perform (`res[idx] = v`, `res[-idx] = v`, Python index normalisation, IndexError as
    `none`), applied in order;
  * `bin_idx = left_idx % width` (Python `%` = `Int.emod` for a positive modulus) and the
    whole-period fallback predicates of the periodic banks;
  * the period ranges the periodic banks sum over;
  * the `half` length rule;
  * NumPy basic slicing / slice assignment with Python index normalisation, clipping, the
    length-one broadcast and the shape-mismatch `ValueError` (`none`) — used by the recipes
    `rebuildComplex` (wrap) and `rebuildReal` (mirror, with the `bin_idx = 0` special case);
  * the closed-form support constants of the Gabor / gammatone constructors (over `Transc`), which
    the analytic theorems of `Props/C06.lean` are about.

  Sample *values* are abstract (`val : Int → α`, a zero `z : α`, `conj : α → α`): the code evaluates
  the same expression of `idx` in both methods, which is all that the "bin for bin" theorems use.
-/
import PdsVerif.Num

namespace PdsVerif.Model.BankIndex

/-! ## integer arithmetic -/

/-- `np.ceil` of the exact quotient `a / b` (`b > 0`) -/
def ceilDiv (a b : Int) : Int := -((-a) / b)

/-- `int(x)` of the exact quotient `a / b`: truncation towards zero -/
def truncDiv (a b : Int) : Int := Int.tdiv a b

/-- `np.floor` of the exact quotient `a / b` (`b > 0`) -/
def floorDiv (a b : Int) : Int := a / b

/-- a support edge as an exact fraction of the period (`f / rate` or `ω / 2π`); `den > 0` -/
structure Frac where
  num : Int
  den : Int
  deriving Repr, DecidableEq

/-- `int(np.ceil(width * l / r))` -/
def leftIdx (W : Nat) (lo : Frac) : Int := ceilDiv ((W : Int) * lo.num) lo.den

/-- `int(width * h / r)` -/
def rightIdx (W : Nat) (hi : Frac) : Int := truncDiv ((W : Int) * hi.num) hi.den

/-- the documented length of a `half=True` response: `(W + 1) // 2` for odd `W`,
`W // 2 + 1` for even `W` (the `if width % 2:` of all four `get_frequency_response`s) -/
def halfLen (W : Nat) : Nat := if W % 2 = 1 then (W + 1) / 2 else W / 2 + 1

/-- `half_width = (width + width % 2) // 2 + 1 - width % 2` of the recipe's docstring -/
def halfLenDoc (W : Nat) : Nat := (W + W % 2) / 2 + 1 - W % 2

def dftSize (W : Nat) (half : Bool) : Nat := if half then halfLen W else W

/-- `range(a, b)` -/
def intRange (a b : Int) : List Int := (List.range (b - a).toNat).map fun (k : Nat) => a + (k : Int)

/-! ## Python / NumPy indexing -/

/-- a Python index into a sequence of length `n`: negative counts from the end, out of range is
`IndexError` (`none`) -/
def pyIdx (n : Nat) (i : Int) : Option Nat :=
  if 0 ≤ i ∧ i < (n : Int) then some i.toNat
  else if -(n : Int) ≤ i ∧ i < 0 then some (i + n).toNat
  else none

/-- `xs[i] = v` -/
def pySet {α} (xs : List α) (i : Int) (v : α) : Option (List α) :=
  (pyIdx xs.length i).map fun k => xs.set k v

/-- a sequence of writes `res[i] = v`, in order -/
def applyWrites {α} (xs : List α) : List (Int × α) → Option (List α)
  | [] => some xs
  | (i, v) :: ws => (pySet xs i v).bind fun ys => applyWrites ys ws

/-- a slice bound of a sequence of length `n` (step 1): negative counts from the end, then clipped -/
def normBound (n : Nat) (i : Int) : Nat :=
  if i < 0 then (i + n).toNat else min i.toNat n

/-- `xs[i:j]` -/
def pySlice {α} (xs : List α) (i j : Int) : List α :=
  let a := normBound xs.length i
  let b := normBound xs.length j
  (xs.drop a).take (b - a)

/-- `xs[i:j] = src` for a NumPy array: the target keeps its length; `src` must have the target's
length or length one (broadcast); anything else is a `ValueError` (`none`). -/
def setSlice {α} (xs : List α) (i j : Int) (src : List α) : Option (List α) :=
  let a := normBound xs.length i
  let b := normBound xs.length j
  let m := b - a
  if src.length = m then some (xs.take a ++ src ++ xs.drop (a + m))
  else match src with
    | [v] => some (xs.take a ++ List.replicate m v ++ xs.drop (a + m))
    | _ => none

/-! ## the documented rebuild recipes (`LinearFilterBank.get_truncated_response`) -/

/--
```
full = numpy.zeros(width, dtype=trnc.dtype)
wrap = min(bin_idx + len(trnc), width) - bin_idx
full[bin_idx:bin_idx + wrap] = trnc[:wrap]
full[:len(trnc) - wrap] = trnc[wrap:]
```
-/
def rebuildComplex {α} (z : α) (W : Nat) (b : Nat) (trnc : List α) : Option (List α) :=
  let len : Int := trnc.length
  let wrap : Int := min ((b : Int) + len) (W : Int) - b
  (setSlice (List.replicate W z) b (b + wrap) (pySlice trnc 0 wrap)).bind fun full =>
    setSlice full 0 (len - wrap) (pySlice trnc wrap len)

/-- `trnc[:None if bin_idx else 0:-1]`: the whole reversed array, or — for `bin_idx = 0` — the
reversed array without element 0 -/
def mirrorSrc {α} (b : Nat) (trnc : List α) : List α :=
  if b ≠ 0 then trnc.reverse else (trnc.drop 1).reverse

/--
```
full[bin_idx:bin_idx + len(trnc)] = trnc
full[width - bin_idx - len(trnc) + 1:width - bin_idx + 1] = trnc[:None if bin_idx else 0:-1].conj()
```
-/
def rebuildReal {α} (conj : α → α) (z : α) (W : Nat) (b : Nat) (trnc : List α) : Option (List α) :=
  let len : Int := trnc.length
  (setSlice (List.replicate W z) b (b + len) trnc).bind fun full =>
    setSlice full ((W : Int) - b - len + 1) ((W : Int) - b + 1) ((mirrorSrc b trnc).map conj)

/-- the documented half spectrum of a real filter: `half[bin_idx:bin_idx + len(trnc)] = trnc` -/
def rebuildHalf {α} (z : α) (W : Nat) (b : Nat) (trnc : List α) : Option (List α) :=
  setSlice (List.replicate (halfLenDoc W) z) b ((b : Int) + trnc.length) trnc

/-! ## compact banks: triangular and Fbank -/

inductive Compact where
  | tri | fbank
  deriving DecidableEq, Repr

/-- length of the truncated buffer: `np.zeros(1 + right_idx - left_idx)` (triangular),
`np.zeros(min(width, right_idx + 1) - left_idx)` (Fbank) -/
def truncLen (k : Compact) (W : Nat) (L R : Int) : Int :=
  match k with
  | .tri => 1 + R - L
  | .fbank => min (W : Int) (R + 1) - L

/-- the two `assert`s: `left_idx - 1 <= width * left / rate` and
`right_idx + 1 >= width * right / rate`, over the exact fractions -/
def assertsOk (W : Nat) (lo hi : Frac) (L R : Int) : Bool :=
  decide ((L - 1) * lo.den ≤ (W : Int) * lo.num) && decide ((W : Int) * hi.num ≤ (R + 1) * hi.den)

/-- `get_truncated_response` of a compact bank: `(left_idx, res)`.  `val idx` is the value the loop
body computes for bin `idx` (`hz = rate * idx / width` and the triangle); `none` = an exception. -/
def truncCompact {α} (k : Compact) (z : α) (val : Int → α) (W : Nat) (lo hi : Frac) :
    Option (Int × List α) :=
  let L := leftIdx W lo
  let R := rightIdx W hi
  if !assertsOk W lo hi L R then none
  else
    let n := truncLen k W L R
    if n < 0 then none
    else
      (applyWrites (List.replicate n.toNat z)
        ((intRange L (min (W : Int) (R + 1))).map fun idx => (idx - L, val idx))).map fun res => (L, res)

/-- the writes of one iteration of `get_frequency_response`'s loop:
`res[idx] = val` and, `if not half and not self._analytic`, `res[-idx] = val` -/
def fullWritesAt {α} (val : Int → α) (mirror : Bool) (idx : Int) : List (Int × α) :=
  if mirror then [(idx, val idx), (-idx, val idx)] else [(idx, val idx)]

/-- `get_frequency_response(filt_idx, width, half)` of a compact bank -/
def fullCompact {α} (z : α) (val : Int → α) (W : Nat) (lo hi : Frac) (analytic half : Bool) :
    Option (List α) :=
  let L := leftIdx W lo
  let R := rightIdx W hi
  if !assertsOk W lo hi L R then none
  else
    let dft := dftSize W half
    applyWrites (List.replicate dft z)
      ((intRange L (min (dft : Int) (R + 1))).flatMap (fullWritesAt val (!half && !analytic)))

/-- the rebuild recipe that applies to the bank: real banks mirror, complex (analytic) ones wrap -/
def rebuildCompact {α} (z : α) (conj : α → α) (W : Nat) (analytic : Bool) (b : Int) (trnc : List α) :
    Option (List α) :=
  if b < 0 then none
  else if analytic then rebuildComplex z W b.toNat trnc else rebuildReal conj z W b.toNat trnc

/-! ## periodic banks: Gabor and complex gammatone -/

/-- `self._wrap_supports_ang[filt_idx] >= 2 * np.pi` with `wrap` the fraction of the period -/
def gaborFallback (wrap : Frac) : Bool := decide (wrap.den ≤ wrap.num)

/-- `right_sup - left_sup + wrap_ang >= 2 * np.pi`, all three as fractions of the period -/
def gammatoneFallback (lo hi wrap : Frac) : Bool :=
  decide (lo.den * hi.den * wrap.den
    ≤ hi.num * lo.den * wrap.den - lo.num * hi.den * wrap.den + wrap.num * lo.den * hi.den)

/-- indices of `get_truncated_response` of a periodic bank: `(bin_idx, len(buf))`.
Fallback: `(0, get_frequency_response(filt_idx, width))`, which has `width` bins. -/
def truncPeriodicIdx (W : Nat) (lo hi : Frac) (fallback : Bool) : Option (Nat × Nat) :=
  if fallback then some (0, W)
  else
    let L := leftIdx W lo
    let R := rightIdx W hi
    let n := 1 + R - L
    if n < 0 then none else some ((L % (W : Int)).toNat, n.toNat)

/-- the taps of the truncated response of a periodic bank: lattice points `left_idx … right_idx`,
each the sum over `periods` of the image at `idx + period·W`; or the full response on fallback -/
def truncPeriodic {α} (W : Nat) (lo hi : Frac) (fallback : Bool) (tap : Int → α) (full : List α) :
    Option (Nat × List α) :=
  if fallback then some (0, full)
  else
    let L := leftIdx W lo
    let R := rightIdx W hi
    if 1 + R - L < 0 then none
    else some ((L % (W : Int)).toNat, (intRange L (R + 1)).map tap)

/-- `get_frequency_response` of a periodic bank computes every bin independently:
`res[idx] = Σ_period image(idx, period)` for `idx < dft_size` -/
def fullPeriodic {α} (W : Nat) (half : Bool) (bin : Nat → α) : List α :=
  (List.range (dftSize W half)).map bin

/-- Gabor, truncated: `range(-int(max(-lowest_ang, 0) / 2π), 1 + int(highest_ang / 2π))` -/
def gaborPeriodsTrunc (lo hi : Frac) : List Int :=
  intRange (-(truncDiv (max (-lo.num) 0) lo.den)) (1 + truncDiv hi.num hi.den)

/-- Gabor, full: `range(-1 - int(max(-lowest_ang, 0) / 2π), 2 + int(highest_ang / 2π))` -/
def gaborPeriodsFull (lo hi : Frac) : List Int :=
  intRange (-1 - truncDiv (max (-lo.num) 0) lo.den) (2 + truncDiv hi.num hi.den)

/-- gammatone, full: `range(floor(left_sup / 2π), ceil(right_sup / 2π) + 1)` -/
def gammatonePeriodsFull (lo hi : Frac) : List Int :=
  intRange (floorDiv lo.num lo.den) (ceilDiv hi.num hi.den + 1)

/-! ## closed-form support constants of the Gabor / gammatone constructors

Written once over the operator classes + `Transc`; run at `Float` by the driver (compared with the
public `supports_hz`), reasoned about at `ℝ` in `Props/C06.lean`. -/

section Consts
variable {α : Type} [Add α] [Sub α] [Mul α] [Div α] [Neg α] [OfScientific α] [Transc α]

/-- Gabor `f_support_const`: `-2 log ε`, `+ log 2 + 0.5 log π` under `scale_l2_norm` -/
def gaborFConst (l2 : Bool) (eps : α) : α :=
  let base : α := -(2.0 * Transc.log eps)
  if l2 then base + (Transc.log 2.0 + 0.5 * Transc.log Transc.pi) else base

/-- Gabor `diff_ang`: `sqrt(log_std + f_support_const) / std` (l2) or `sqrt(f_support_const) / std` -/
def gaborDiffAng (l2 : Bool) (eps std : α) : α :=
  if l2 then Transc.sqrt (Transc.log std + gaborFConst l2 eps) / std
  else Transc.sqrt (gaborFConst l2 eps) / std

/-- Gabor `wrap_diff_ang`: the same with `+ log 2` under the root -/
def gaborWrapDiffAng (l2 : Bool) (eps std : α) : α :=
  if l2 then Transc.sqrt (Transc.log std + gaborFConst l2 eps + Transc.log 2.0) / std
  else Transc.sqrt (gaborFConst l2 eps + Transc.log 2.0) / std

/-- Gabor `const_term` of the frequency response -/
def gaborConstTerm (l2 : Bool) (std : α) : α :=
  if l2 then 0.5 * Transc.log (2.0 * std) + 0.25 * Transc.log Transc.pi else 0.0

/-- one image of the Gabor frequency response:
`exp(-(std ** 2) / 2 * (center_ang - omega) ** 2 + const_term)` -/
def gaborImage (l2 : Bool) (std center omega : α) : α :=
  Transc.exp ((-(std * std) / 2.0) * ((center - omega) * (center - omega)) + gaborConstTerm l2 std)

/-- gammatone `supp_a = (2 / order) * (log_c + log_factorial - log_eps)` with
`logPeak = log_c + log((n-1)!)` -/
def gammatoneSuppA (order : α) (logPeak eps : α) : α :=
  (2.0 / order) * (logPeak - Transc.log eps)

/-- gammatone `diff_ang = (exp(supp_a) - exp(2 log_alpha)) ** 0.5` -/
def gammatoneDiffAng (order logPeak logAlpha eps : α) : α :=
  Transc.sqrt (Transc.exp (gammatoneSuppA order logPeak eps) - Transc.exp (2.0 * logAlpha))

/-- gammatone `wrap_diff_ang = (exp(supp_a + (2 / order) log 2) - exp(2 log_alpha)) ** 0.5` -/
def gammatoneWrapDiffAng (order logPeak logAlpha eps : α) : α :=
  Transc.sqrt (Transc.exp (gammatoneSuppA order logPeak eps + (2.0 / order) * Transc.log 2.0)
    - Transc.exp (2.0 * logAlpha))

end Consts

end PdsVerif.Model.BankIndex

/-
  C20 — index-level model of `pydrobert.speech.util.circshift_fourier` (as repaired on
  `fix/C20-circshift-default`: the default `dft_size` is filled in *before* `shift %= dft_size`).

      if dft_size is None:
          dft_size = len(filt) + start_idx
      shift %= dft_size
      if copy or filt.dtype != np.complex128:
          return filt * np.exp(-2j * np.pi * shift / dft_size * (np.arange(start_idx, start_idx + len(filt)) % dft_size))
      else:
          filt *= np.exp(... same ...)
          return filt

  The model says *which* phase factor multiplies *which* entry: entry `j` of the segment is bin
  `k_j = (start + j) % D` and is multiplied by `exp(-2πi · s' · k_j / D)` with `s' = shift % D`
  (Python's `%`: the non-negative residue for `D > 0`).  Values enter through a caller-supplied
  `mulPhase`, so the same plan is run at `Float × Float` in the driver and at `ℂ` in the theorems.
  Core Lean only.
-/
import PdsVerif.Num

namespace PdsVerif.Model.Circshift
open PdsVerif

instance intCastFloat : IntCast Float := ⟨Float.ofInt⟩

inductive Err where
  /-- `shift %= 0` (given `dft_size = 0`, or the default `len(filt) + start_idx = 0`) -/
  | zeroDivision
  deriving DecidableEq, Repr

/-- `dft_size` after `if dft_size is None: dft_size = len(filt) + start_idx` -/
def dftSize (len start : Nat) (dft : Option Nat) : Nat :=
  match dft with
  | some d => d
  | none => len + start

/-- `shift %= dft_size` for `dft_size > 0`: Python's `%` is the non-negative residue (`Int.emod`). -/
def shiftRed (shift : Int) (D : Nat) : Int := shift % (D : Int)

/-- `np.arange(start_idx, start_idx + len(filt)) % dft_size` -/
def bins (len start D : Nat) : List Nat := (List.range' start len).map (· % D)

/-- what the call does, before any value is touched -/
structure Plan where
  /-- the DFT size used -/
  D : Nat
  /-- the reduced shift -/
  s : Int
  /-- bin index of every segment entry -/
  ks : List Nat
  deriving Repr, DecidableEq

def plan (len : Nat) (shift : Int) (start : Nat) (dft : Option Nat) : Except Err Plan :=
  let D := dftSize len start dft
  if D = 0 then .error .zeroDivision else .ok ⟨D, shiftRed shift D, bins len start D⟩

/-- integer summary of the phase: entry `j` is multiplied by `exp(-2πi · r_j / D)`, `r_j = s'·k_j mod D`. -/
def residues (p : Plan) : List Nat := p.ks.map fun (k : Nat) => ((p.s * (k : Int)) % (p.D : Int)).toNat

structure Result (β : Type) where
  /-- the returned array -/
  out : List β
  /-- the caller's `filt` after the call -/
  filtAfter : List β
  /-- the returned array *is* the caller's `filt` (in-place branch) -/
  sameObject : Bool

/-- `circshift_fourier(filt, shift, start_idx, dft_size, copy)`; `isC128` is `filt.dtype == np.complex128`;
`mulPhase x s D k` is `x * exp(-2j*pi*s/D*k)`. -/
def run {β : Type} (mulPhase : β → Int → Nat → Nat → β) (filt : List β) (shift : Int) (start : Nat)
    (dft : Option Nat) (copy isC128 : Bool) : Except Err (Result β) :=
  match plan filt.length shift start dft with
  | .error e => .error e
  | .ok p =>
    let out := List.zipWith (fun x k => mulPhase x p.s p.D k) filt p.ks
    if copy || !isC128 then .ok ⟨out, filt, false⟩ else .ok ⟨out, out, true⟩

/-! ## the phase factor over a numeric type (runs at `Float`, reasoned about at `ℝ`) -/

section
variable {α : Type} [Add α] [Sub α] [Mul α] [Div α] [Neg α] [OfScientific α] [Transc α] [NatCast α] [IntCast α]

/-- `(cos θ, sin θ)` for `θ = -2*pi*s/D*k`, in the code's order of operations
(`-2j * np.pi * shift / dft_size * arange`) -/
def phase (s : Int) (D k : Nat) : α × α :=
  let θ : α := (((-2.0) * Transc.pi) * (s : α)) / (D : α) * (k : α)
  (Transc.cos θ, Transc.sin θ)

/-- complex product on pairs `(re, im)` -/
def cmul (a b : α × α) : α × α := (a.1 * b.1 - a.2 * b.2, a.1 * b.2 + a.2 * b.1)

def mulPhasePair (x : α × α) (s : Int) (D k : Nat) : α × α := cmul x (phase s D k)
end

end PdsVerif.Model.Circshift

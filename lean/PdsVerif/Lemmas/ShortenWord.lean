/-
  C13 — L1: the 32-bit word reader of `copy_shortened_samples` refines the bit-list reader.
-/
import PdsVerif.Lemmas.ShortenProg
namespace PdsVerif.Model.Shorten
open PdsVerif.Gen.Shorten

/-! ## arithmetic of the word buffer -/

theorem int_mod_two_pow_succ (x : Int) (m : Nat) :
    x % (2 ^ (m + 1) : Int) = (x / (2 ^ m : Int) % 2) * 2 ^ m + x % (2 ^ m : Int) := by
  have hP : (0 : Int) < 2 ^ m := Int.pow_pos (by decide)
  generalize hPd : (2 : Int) ^ m = P at *
  have h2 : (2 : Int) ^ (m + 1) = P * 2 := by rw [Int.pow_succ, hPd]
  rw [h2]
  have hx := Int.emod_add_mul_ediv x P
  have hq := Int.emod_add_mul_ediv (x / P) 2
  have hr0 := Int.emod_nonneg x (Int.ne_of_gt hP)
  have hr1 := Int.emod_lt_of_pos x hP
  have hb0 := Int.emod_nonneg (x / P) (by decide : (2 : Int) ≠ 0)
  have hb1 := Int.emod_lt_of_pos (x / P) (by decide : (0 : Int) < 2)
  have := (Int.ediv_emod_unique (a := x) (b := P * 2) (r := (x / P % 2) * P + x % P) (q := x / P / 2)
    (by omega)).2 ⟨by grind, by
      have : 0 ≤ (x / P % 2) * P := Int.mul_nonneg hb0 (Int.le_of_lt hP)
      omega, by
      have : (x / P % 2) * P ≤ 1 * P := Int.mul_le_mul_of_nonneg_right (by omega) (Int.le_of_lt hP)
      omega⟩
  exact this.2

theorem cast_two_pow (m : Nat) : ((2 ^ m : Nat) : Int) = (2 : Int) ^ m := by
  simp

theorem mask_lt (x : Int) (n : Nat) : mask x n < 2 ^ n := by
  unfold mask
  have hP : (0 : Int) < ((2 ^ n : Nat) : Int) := by
    have : 0 < 2 ^ n := Nat.two_pow_pos n
    omega
  have h0 := Int.emod_nonneg x (Int.ne_of_gt hP)
  have h1 := Int.emod_lt_of_pos x hP
  omega

theorem mask_zero (x : Int) : mask x 0 = 0 := by
  have := mask_lt x 0
  simpa using this

/-- the most significant of `m + 1` extracted bits, then the other `m` -/
theorem mask_succ (x : Int) (m : Nat) :
    mask x (m + 1) = (bitSet x m).toNat * 2 ^ m + mask x m := by
  unfold mask bitSet
  rw [cast_two_pow, cast_two_pow, int_mod_two_pow_succ, Int.shiftRight_eq_div_pow, cast_two_pow]
  have hP : (0 : Int) < 2 ^ m := Int.pow_pos (by decide)
  have hr0 := Int.emod_nonneg x (Int.ne_of_gt hP)
  have hb0 := Int.emod_nonneg (x / 2 ^ m) (by decide : (2 : Int) ≠ 0)
  have hb1 := Int.emod_lt_of_pos (x / 2 ^ m) (by decide : (0 : Int) < 2)
  have hpn : ((2 ^ m : Nat) : Int) = (2 : Int) ^ m := cast_two_pow m
  by_cases hb : x / 2 ^ m % 2 = 1
  · simp only [hb, decide_true, Bool.toNat_true, Int.one_mul, Nat.one_mul]
    rw [Int.toNat_add (Int.le_of_lt hP) hr0]
    congr 1
  · have : x / 2 ^ m % 2 = 0 := by omega
    simp [this]

/-! ## bit-list reading of the word buffer -/

theorem bitsGet_lowBits (g : Int) (rest : List Bool) :
    ∀ (m n acc : Nat), m ≤ n →
      bitsGet m acc (lowBits g n ++ rest)
        = .ok (acc * 2 ^ m + mask (g >>> (n - m)) m, lowBits g (n - m) ++ rest) := by
  intro m
  induction m with
  | zero => intro n acc _; simp [bitsGet, mask_zero]
  | succ m ih =>
    intro n acc hmn
    obtain ⟨n', rfl⟩ : ∃ n', n = n' + 1 := ⟨n - 1, by omega⟩
    simp only [lowBits, List.cons_append, bitsGet]
    rw [ih n' _ (by omega)]
    have hs : n' + 1 - (m + 1) = n' - m := by omega
    rw [hs, mask_succ]
    have hb : bitSet (g >>> (n' - m)) m = bitSet g n' := by
      unfold bitSet
      rw [← Int.shiftRight_add]
      have : n' - m + m = n' := by omega
      rw [this]
    rw [hb, Nat.pow_succ]
    congr 2
    generalize (bitSet g n').toNat = b
    generalize mask (g >>> (n' - m)) m = y
    generalize 2 ^ m = P
    rw [Nat.add_mul, Nat.mul_comm 2 acc, Nat.mul_assoc, Nat.mul_comm 2 P]
    omega

theorem bitsGet_add (a b : Nat) : ∀ (acc : Nat) (l : List Bool),
    bitsGet (a + b) acc l =
      match bitsGet a acc l with
      | .error e => .error e
      | .ok (acc', l') => bitsGet b acc' l' := by
  induction a with
  | zero => intro acc l; simp [bitsGet]
  | succ a ih =>
    intro acc l
    have e : a + 1 + b = (a + b) + 1 := by omega
    rw [e]
    cases l with
    | nil => simp [bitsGet]
    | cons x xs => simp only [bitsGet]; exact ih _ _

theorem bitsGet_nil_pos (k acc : Nat) (hk : 0 < k) : bitsGet k acc [] = .error (.io .eof) := by
  obtain ⟨k', rfl⟩ : ∃ k', k = k' + 1 := ⟨k - 1, by omega⟩
  rfl

/-! ## one word -/

theorem lowBits_be32 (b0 b1 b2 b3 : Nat) (h0 : b0 < 256) (h1 : b1 < 256) (h2 : b2 < 256) (h3 : b3 < 256) :
    lowBits (be32 b0 b1 b2 b3) 32 = byteBits b0 ++ byteBits b1 ++ byteBits b2 ++ byteBits b3 := by
  simp only [lowBits, bitSet, Int.shiftRight_eq_div_pow, byteBits, bitsPut, Nat.testBit_eq_decide_div_mod_eq,
    List.cons_append, List.nil_append, be32]
  simp only [Nat.reducePow, List.cons.injEq, decide_eq_decide, and_true]
  split <;> (refine ⟨?_, ?_, ?_, ?_, ?_, ?_, ?_, ?_, ?_, ?_, ?_, ?_, ?_, ?_, ?_, ?_, ?_, ?_, ?_, ?_, ?_, ?_,
    ?_, ?_, ?_, ?_, ?_, ?_, ?_, ?_, ?_, ?_⟩ <;> omega)

/-- `word_get` takes the next four bytes of `inpbuf ++ rest of file`, or fails when fewer are left -/
theorem wordGet_spec (inp file : List Nat) :
    match inp ++ file with
    | b0 :: b1 :: b2 :: b3 :: rest =>
      ∃ inp' file', wordGet inp file = .ok (be32 b0 b1 b2 b3, inp', file') ∧ inp' ++ file' = rest
    | _ => wordGet inp file = .error (.io .eof) := by
  have fin : ∀ rest : List Nat, ∃ inp' file' : List Nat,
      (List.take 1020 rest = inp' ∧ List.drop 1020 rest = file') ∧ inp' ++ file' = rest :=
    fun rest => ⟨_, _, ⟨rfl, rfl⟩, List.take_append_drop _ _⟩
  match inp with
  | b0 :: b1 :: b2 :: b3 :: rest => exact ⟨rest, file, rfl, rfl⟩
  | [] =>
    match file with
    | [] => simp [wordGet]
    | [a] => simp [wordGet, BUFSIZ]
    | [a, b] => simp [wordGet, BUFSIZ]
    | [a, b, c] => simp [wordGet, BUFSIZ]
    | a :: b :: c :: d :: rest => simpa [wordGet, BUFSIZ] using fin rest
  | [x] =>
    match file with
    | [] => simp [wordGet]
    | [a] => simp [wordGet, BUFSIZ]
    | [a, b] => simp [wordGet, BUFSIZ]
    | a :: b :: c :: rest => simpa [wordGet, BUFSIZ] using fin rest
  | [x, y] =>
    match file with
    | [] => simp [wordGet]
    | [a] => simp [wordGet, BUFSIZ]
    | a :: b :: rest => simpa [wordGet, BUFSIZ] using fin rest
  | [x, y, z] =>
    match file with
    | [] => simp [wordGet]
    | a :: rest => simpa [wordGet, BUFSIZ] using fin rest

def Bytes (l : List Nat) : Prop := ∀ b ∈ l, b < 256

/-- what `word_get` does to the bit list the reader state stands for -/
theorem wordGet_bits (inp file : List Nat) (hb : Bytes (inp ++ file)) :
    match wordGet inp file with
    | .error e => e = .io .eof ∧ wordBits (inp ++ file) = []
    | .ok (g, inp', file') =>
      wordBits (inp ++ file) = lowBits g 32 ++ wordBits (inp' ++ file') ∧ Bytes (inp' ++ file') := by
  have hs := wordGet_spec inp file
  generalize hall : inp ++ file = all at hs hb
  match all, hs, hb with
  | b0 :: b1 :: b2 :: b3 :: rest, hs, hb =>
    obtain ⟨inp', file', e1, e2⟩ := hs
    rw [e1]
    simp only
    have h0 : b0 < 256 := hb b0 (by simp)
    have h1 : b1 < 256 := hb b1 (by simp)
    have h2 : b2 < 256 := hb b2 (by simp)
    have h3 : b3 < 256 := hb b3 (by simp)
    refine ⟨?_, ?_⟩
    · rw [e2, lowBits_be32 b0 b1 b2 b3 h0 h1 h2 h3]
      simp [wordBits]
    · rw [e2]
      intro b hbm
      exact hb b (by simp [hbm])
  | [], hs, _ => simp only at hs; rw [hs]; exact ⟨rfl, rfl⟩
  | [a], hs, _ => simp only at hs; rw [hs]; exact ⟨rfl, rfl⟩
  | [a, b], hs, _ => simp only at hs; rw [hs]; exact ⟨rfl, rfl⟩
  | [a, b, c], hs, _ => simp only at hs; rw [hs]; exact ⟨rfl, rfl⟩

/-! ## the two loops of `uvar_get` -/

theorem lowBits_length (g : Int) (n : Nat) : (lowBits g n).length = n := by
  induction n with
  | zero => rfl
  | succ n ih => simp [lowBits, ih]

theorem unaryW_spec : ∀ (f : Nat) (g : Int) (nbit result : Nat) (inp file : List Nat),
    1 ≤ nbit → Bytes (inp ++ file) → (lowBits g nbit ++ wordBits (inp ++ file)).length < f →
    match unaryGet (lowBits g nbit ++ wordBits (inp ++ file)) with
    | .error e => unaryW f g nbit result inp file = .error e
    | .ok (n, rest) =>
      ∃ g' nbit' inp' file', unaryW f g nbit result inp file = .ok (result + n, g', nbit', inp', file') ∧
        rest = lowBits g' nbit' ++ wordBits (inp' ++ file') ∧ Bytes (inp' ++ file') := by
  intro f
  induction f with
  | zero => intro g nbit result inp file _ _ hl; omega
  | succ f ih =>
    intro g nbit result inp file hn hb hl
    obtain ⟨k, rfl⟩ : ∃ k, nbit = k + 1 := ⟨nbit - 1, by omega⟩
    simp only [lowBits, List.cons_append, List.length_cons] at hl ⊢
    simp only [unaryW, Nat.add_sub_cancel]
    by_cases hbit : bitSet g k = true
    · simp only [hbit, unaryGet, if_true]
      exact ⟨g, k, inp, file, rfl, rfl, hb⟩
    · have hbf : bitSet g k = false := by simpa using hbit
      simp only [hbf, unaryGet, Bool.false_eq_true, if_false]
      by_cases hk : k = 0
      · subst hk
        simp only [lowBits, List.nil_append, if_true] at hl ⊢
        have hw := wordGet_bits inp file hb
        cases hwg : wordGet inp file with
        | error e =>
          rw [hwg] at hw
          simp only at hw
          rw [hw.2, hw.1]
          simp [unaryGet]
        | ok v =>
          obtain ⟨g', inp', file'⟩ := v
          rw [hwg] at hw
          simp only at hw
          obtain ⟨hw1, hw2⟩ := hw
          have hl' : (lowBits g' 32 ++ wordBits (inp' ++ file')).length < f := by rw [← hw1]; omega
          have := ih g' 32 (result + 1) inp' file' (by omega) hw2 hl'
          rw [hw1]
          simp only [NBITPERLONG]
          cases hu : unaryGet (lowBits g' 32 ++ wordBits (inp' ++ file')) with
          | error e => rw [hu] at this; simp only at this ⊢; exact this
          | ok w =>
            obtain ⟨n, rest⟩ := w
            rw [hu] at this
            simp only at this ⊢
            obtain ⟨g'', nbit'', inp'', file'', e1, e2, e3⟩ := this
            exact ⟨g'', nbit'', inp'', file'', by rw [e1]; congr 2; omega, e2, e3⟩
      · simp only [hk, if_false]
        have := ih g k (result + 1) inp file (by omega) hb (by omega)
        cases hu : unaryGet (lowBits g k ++ wordBits (inp ++ file)) with
        | error e => rw [hu] at this; simp only at this ⊢; exact this
        | ok w =>
          obtain ⟨n, rest⟩ := w
          rw [hu] at this
          simp only at this ⊢
          obtain ⟨g'', nbit'', inp'', file'', e1, e2, e3⟩ := this
          exact ⟨g'', nbit'', inp'', file'', by rw [e1]; congr 2; omega, e2, e3⟩

theorem shl_or_mask (result : Nat) (x : Int) (n : Nat) :
    (result <<< n) ||| mask x n = result * 2 ^ n + mask x n := by
  rw [← Nat.shiftLeft_add_eq_or_of_lt (mask_lt x n), Nat.shiftLeft_eq]

theorem binW_spec : ∀ (f nbin result : Nat) (g : Int) (nbit : Nat) (inp file : List Nat),
    Bytes (inp ++ file) → nbin + (if nbit = 0 then 1 else 0) < f →
    match bitsGet nbin result (lowBits g nbit ++ wordBits (inp ++ file)) with
    | .error e => binW f nbin result g nbit inp file = .error e
    | .ok (v, rest) =>
      ∃ g' nbit' inp' file', binW f nbin result g nbit inp file = .ok (v, g', nbit', inp', file') ∧
        rest = lowBits g' nbit' ++ wordBits (inp' ++ file') ∧ Bytes (inp' ++ file') := by
  intro f
  induction f with
  | zero => intro nbin result g nbit inp file _ hl; omega
  | succ f ih =>
    intro nbin result g nbit inp file hb hl
    simp only [binW]
    by_cases h0 : nbin = 0
    · subst h0
      simp only [bitsGet, if_true]
      exact ⟨g, nbit, inp, file, rfl, rfl, hb⟩
    · simp only [h0, if_false]
      by_cases hge : nbit ≥ nbin
      · simp only [hge, if_true]
        rw [bitsGet_lowBits g _ nbin nbit result hge]
        simp only
        exact ⟨g, nbit - nbin, inp, file, by rw [shl_or_mask], rfl, hb⟩
      · simp only [hge, if_false]
        have hsplit : nbin = nbit + (nbin - nbit) := by omega
        rw [hsplit, bitsGet_add, bitsGet_lowBits g _ nbit nbit result (Nat.le_refl _)]
        simp only [Nat.sub_self, Int.shiftRight_zero, lowBits, List.nil_append]
        rw [← hsplit]
        have hw := wordGet_bits inp file hb
        cases hwg : wordGet inp file with
        | error e =>
          rw [hwg] at hw
          simp only at hw
          rw [hw.2, hw.1, bitsGet_nil_pos _ _ (by omega)]
        | ok v =>
          obtain ⟨g', inp', file'⟩ := v
          rw [hwg] at hw
          simp only at hw
          obtain ⟨hw1, hw2⟩ := hw
          simp only [NBITPERLONG]
          rw [hw1, shl_or_mask]
          have := ih (nbin - nbit) (result * 2 ^ nbit + mask g nbit) g' 32 inp' file' hw2 (by
            simp only [show (32 : Nat) ≠ 0 by decide, if_false]
            split at hl <;> omega)
          exact this

/-! ## `uvar_get` -/

theorem unaryGet_length : ∀ (b : List Bool) (n : Nat) (r : List Bool),
    unaryGet b = .ok (n, r) → r.length < b.length := by
  intro b
  induction b with
  | nil => intro n r h; simp [unaryGet] at h
  | cons x xs ih =>
    intro n r h
    cases x with
    | true => simp only [unaryGet, Except.ok.injEq, Prod.mk.injEq] at h; rw [← h.2]; simp
    | false =>
      simp only [unaryGet] at h
      cases hu : unaryGet xs with
      | error e => rw [hu] at h; simp at h
      | ok v =>
        obtain ⟨m, r'⟩ := v
        rw [hu] at h
        simp only [Except.ok.injEq, Prod.mk.injEq] at h
        have := ih m r' hu
        rw [← h.2]; simp; omega

theorem bitsGet_length : ∀ (k acc : Nat) (b : List Bool) (v : Nat) (r : List Bool),
    bitsGet k acc b = .ok (v, r) → r.length ≤ b.length := by
  intro k
  induction k with
  | zero => intro acc b v r h; simp only [bitsGet, Except.ok.injEq, Prod.mk.injEq] at h; rw [h.2]; omega
  | succ k ih =>
    intro acc b v r h
    cases b with
    | nil => simp [bitsGet] at h
    | cons x xs =>
      simp only [bitsGet] at h
      have := ih _ _ _ _ h
      simp; omega

theorem uvarGet_length (k : Nat) (b : List Bool) (n : Nat) (r : List Bool) (h : uvarGet k b = .ok (n, r)) :
    r.length < b.length := by
  unfold uvarGet at h
  cases hu : unaryGet b with
  | error e => rw [hu] at h; simp at h
  | ok v =>
    obtain ⟨m, r'⟩ := v
    rw [hu] at h
    simp only at h
    have h1 := unaryGet_length b m r' hu
    have h2 := bitsGet_length k m r' n r h
    omega

/-- the invariant of the reader state: enough fuel for the unary loop, and bytes are bytes -/
def WInv (F : Nat) (w : WSt) : Prop := w.bits.length < F ∧ Bytes (w.inp ++ w.file)

/-- **L1 refines L0**: `uvar_get` on the word buffer is `uvarGet` on the bit list it stands for -/
theorem uvarW_spec (F k : Nat) (w : WSt) (hinv : WInv F w) :
    Prog.Matches WSt.bits (WInv F) (uvarW F k w) (uvarGet k w.bits) := by
  unfold Prog.Matches
  obtain ⟨hF, hb⟩ := hinv
  -- after the optional first `word_get`
  have hstart : (∃ e, uvarStart w = .error e ∧ e = .io .eof ∧ w.bits = []) ∨
      (∃ g nbit inp file, uvarStart w = .ok (g, nbit, inp, file) ∧ 1 ≤ nbit ∧
        Bytes (inp ++ file) ∧ w.bits = lowBits g nbit ++ wordBits (inp ++ file)) := by
    unfold uvarStart
    by_cases h0 : w.nbit = 0
    · simp only [h0, if_true]
      have hw := wordGet_bits w.inp w.file hb
      cases hwg : wordGet w.inp w.file with
      | error e =>
        rw [hwg] at hw
        exact Or.inl ⟨e, rfl, hw.1, by simp [WSt.bits, h0, lowBits, hw.2]⟩
      | ok v =>
        obtain ⟨g, inp, file⟩ := v
        rw [hwg] at hw
        exact Or.inr ⟨g, 32, inp, file, rfl, by omega, hw.2, by simp [WSt.bits, h0, lowBits, hw.1]⟩
    · simp only [h0, if_false]
      exact Or.inr ⟨w.gbuf, w.nbit, w.inp, w.file, rfl, by omega, hb, rfl⟩
  unfold uvarW
  rcases hstart with ⟨e, he, hee, hbits⟩ | ⟨g, nbit, inp, file, he, hn, hby, hbits⟩
  · simp only [he, hbits, uvarGet, unaryGet, hee]
  · simp only [he]
    rw [hbits] at hF ⊢
    have hu := unaryW_spec F g nbit 0 inp file hn hby hF
    unfold uvarGet
    cases hug : unaryGet (lowBits g nbit ++ wordBits (inp ++ file)) with
    | error e => rw [hug] at hu; simp only at hu ⊢; rw [hu]
    | ok v =>
      obtain ⟨n, r⟩ := v
      rw [hug] at hu
      simp only at hu ⊢
      obtain ⟨g', nbit', inp', file', e1, e2, e3⟩ := hu
      rw [e1]
      simp only [Nat.zero_add]
      have hbn := binW_spec (k + 2) k n g' nbit' inp' file' e3 (by split <;> omega)
      rw [e2]
      cases hbg : bitsGet k n (lowBits g' nbit' ++ wordBits (inp' ++ file')) with
      | error e => rw [hbg] at hbn; simp only at hbn ⊢; rw [hbn]
      | ok v2 =>
        obtain ⟨v, rest⟩ := v2
        rw [hbg] at hbn
        simp only at hbn ⊢
        obtain ⟨g'', nbit'', inp'', file'', f1, f2, f3⟩ := hbn
        rw [f1]
        refine ⟨⟨inp'', file'', g'', nbit''⟩, rfl, f2.symm, ?_, f3⟩
        have l1 := unaryGet_length _ _ _ hug
        have l2 := bitsGet_length _ _ _ _ _ (e2 ▸ hbg)
        show (lowBits g'' nbit'' ++ wordBits (inp'' ++ file'')).length < F
        rw [← f2]
        omega

/-! ## whole files -/

theorem byteBits_length (b : Nat) : (byteBits b).length = 8 := rfl

theorem wordBits_length_le : ∀ (n : Nat) (l : List Nat), l.length ≤ n → (wordBits l).length ≤ 8 * l.length := by
  intro n
  induction n with
  | zero => intro l hl; have : l = [] := List.eq_nil_of_length_eq_zero (by omega); subst this; simp [wordBits]
  | succ n ih =>
    intro l hl
    match l with
    | [] => simp [wordBits]
    | [a] => simp [wordBits]
    | [a, b] => simp [wordBits]
    | [a, b, c] => simp [wordBits]
    | a :: b :: c :: d :: rest =>
      have := ih rest (by simp at hl; omega)
      simp only [wordBits, List.length_append, byteBits_length, List.length_cons]
      omega

theorem initW_bits (body : List Nat) : (initW body).bits = wordBits (body.drop 5) := by
  have e : (body.take COPY_READ_SIZE).drop 5 ++ body.drop COPY_READ_SIZE = body.drop 5 := by
    by_cases h : 5 ≤ (body.take COPY_READ_SIZE).length
    · rw [← List.drop_append_of_le_length h, List.take_append_drop]
    · have hl : body.length < 5 := by
        simp only [List.length_take, COPY_READ_SIZE] at h
        omega
      rw [List.drop_of_length_le (by simp; omega), List.drop_of_length_le (by simp [COPY_READ_SIZE]; omega),
        List.drop_of_length_le (by omega)]
      rfl
  simp only [WSt.bits, initW, lowBits, List.nil_append, e]

theorem initW_inv (body : List Nat) (hb : Bytes body) : WInv (8 * body.length + 1) (initW body) := by
  refine ⟨?_, ?_⟩
  · rw [initW_bits]
    have := wordBits_length_le _ (body.drop 5) (Nat.le_refl _)
    simp only [List.length_drop] at this
    omega
  · intro b hm
    apply hb b
    simp only [initW, List.mem_append] at hm
    rcases hm with hm | hm
    · exact List.mem_of_mem_take (List.mem_of_mem_drop hm)
    · exact List.mem_of_mem_drop hm

/-- **the decoder that exists = the bit-list decoder on the bits of the file** -/
theorem decodeFile_eq (convert : Bool) (body rest : List Nat) (vb : Nat) (hb : Bytes body)
    (hm : body.take 4 = MAGIC) (hv : body.drop 4 = vb :: rest) :
    decodeFile convert body
      = decodeBitsF (8 * body.length + 1) (sbyte vb) convert (wordBits (body.drop 5)) := by
  unfold decodeFile decodeBitsF
  simp only [hm, ne_eq, not_true_eq_false, if_false, hv]
  by_cases hok : versionOk (sbyte vb) = true
  · simp only [hok, if_true]
    have hs := Prog.run_sim (uvarW (8 * body.length + 1)) uvarGet WSt.bits (WInv (8 * body.length + 1))
      (fun k s hs => uvarW_spec _ k s hs)
      (mainProg (sbyte vb).toNat convert (8 * body.length + 1)) (initW body) (initW_inv body hb)
    unfold Prog.Matches at hs
    rw [initW_bits] at hs
    cases hr : (mainProg (sbyte vb).toNat convert (8 * body.length + 1)).run uvarGet (wordBits (body.drop 5)) with
    | error e => rw [hr] at hs; simp only at hs; rw [hs]
    | ok v =>
      obtain ⟨out, t⟩ := v
      rw [hr] at hs
      obtain ⟨s', e1, _, _⟩ := hs
      rw [e1]
  · simp [hok]

theorem decodeFileM_eq (convert : Bool) (body rest : List Nat) (vb : Nat) (hb : Bytes body)
    (hm : body.take 4 = MAGIC) (hv : body.drop 4 = vb :: rest) :
    decodeFileM convert body
      = decodeBitsFM (8 * body.length + 1) (sbyte vb) convert (wordBits (body.drop 5)) := by
  unfold decodeFileM decodeBitsFM
  simp only [hm, ne_eq, not_true_eq_false, if_false, hv]
  by_cases hok : versionOk (sbyte vb) = true
  · simp only [hok, if_true]
    have hs := Prog.runM_sim (uvarW (8 * body.length + 1)) uvarGet WSt.bits (WInv (8 * body.length + 1))
      (fun k s hs => uvarW_spec _ k s hs)
      (mainProg (sbyte vb).toNat convert (8 * body.length + 1)) (initW body) (initW_inv body hb) true
    rw [initW_bits] at hs
    cases hr : (mainProg (sbyte vb).toNat convert (8 * body.length + 1)).runM uvarGet
        (wordBits (body.drop 5)) true with
    | error e => rw [hr] at hs; simp only at hs; rw [hs]
    | ok v =>
      obtain ⟨out, t, fl⟩ := v
      rw [hr] at hs
      obtain ⟨s', e1, _, _⟩ := hs
      rw [e1]
  · simp [hok]

end PdsVerif.Model.Shorten

/-
  The read loop as it was BEFORE the repair (branch `fix/C12-sphere-read`), kept only to record
  that the invariant of `copy_loop_invariant` is false of it: no `leftover`, each read converts
  `nb // frame` whole frames and forgets the rest of the read.  Core Lean only.
-/
import PdsVerif.Model.Sphere

namespace PdsVerif.Model.Sphere.Unrepaired
open PdsVerif.Gen.Sphere

/-- `while sampsdone < sampcount` of the unrepaired `copy_samples` (defect 13) -/
def copyLoop (p : Plan) : List Bytes → St → Except Err St
  | [], st => .ok st
  | r :: rs, st =>
    if st.done < p.count then
      if r.isEmpty then .ok st else
      if st.done = 0 ∧ r.take SHN_MAGIC_LEN = SHN_MAGIC then .error (.unmodelled "shorten") else
      let ns0 := r.length / p.frame
      let ns := if st.done + ns0 > p.count then p.count - st.done else ns0
      match mapE p.item (unpack p.itemBytes p.dec (ns * p.chans) r) with
      | .error e => .error e
      | .ok xs => copyLoop p rs { left := [], done := st.done + ns, out := st.out ++ xs }
    else .ok st

/-- 3 channels of 1-byte items, 5 frames promised, the 15 data bytes are 1..15, reads of 4 bytes -/
def plan3 : Plan :=
  { frame := 3, chans := 3, count := 5, itemBytes := 1, dec := decItem 1 false false,
    item := fun x => .ok x, dtype := .u8 }

def data15 : Bytes := [1, 2, 3, 4, 5, 6, 7, 8, 9, 10, 11, 12, 13, 14, 15]

/-- the repaired loop delivers the 5 frames in order ... -/
example : (Sphere.copyLoop plan3 (reads 4 data15) {}).toOption.map (fun st => (st.done, st.out))
    = some (5, [1, 2, 3, 4, 5, 6, 7, 8, 9, 10, 11, 12, 13, 14, 15]) := by decide

/-- ... the unrepaired one loses the partial frame at every read: 4 frames, channels rotated
    ("4 samples read, 5 samples expected") -/
example : (copyLoop plan3 (reads 4 data15) {}).toOption.map (fun st => (st.done, st.out))
    = some (4, [1, 2, 3, 5, 6, 7, 9, 10, 11, 13, 14, 15]) := by decide

end PdsVerif.Model.Sphere.Unrepaired

/-
  C06: what the documented rebuild recipes (NumPy slice assignments) put in every bin.
-/
import PdsVerif.Lemmas.BankIndex

namespace PdsVerif.BankIndexLemmas
open PdsVerif.Model.BankIndex

variable {α : Type}

theorem getElem?_getD (l : List α) (j : Nat) (z : α) (h : j < l.length) : l[j]? = some (l.getD j z) := by
  simp [List.getD, h]

theorem pySlice_prefix (l : List α) (w : Nat) (h : w ≤ l.length) : pySlice l 0 w = l.take w := by
  unfold pySlice
  have h0 : normBound l.length (0 : Int) = 0 := by simp [normBound]
  have h1 : normBound l.length (w : Int) = w := by
    rw [normBound_nonneg_le (by omega) (by omega)]; omega
  simp [h0, h1]

theorem pySlice_suffix (l : List α) (w : Nat) (h : w ≤ l.length) :
    pySlice l w (l.length : Int) = l.drop w := by
  unfold pySlice
  have h0 : normBound l.length (l.length : Int) = l.length := by
    rw [normBound_nonneg_le (by omega) (by omega)]; omega
  have h1 : normBound l.length (w : Int) = w := by
    rw [normBound_nonneg_le (by omega) (by omega)]; omega
  rw [h0, h1]
  apply List.take_of_length_le; simp

/-! ## the wrap recipe (complex filters) -/

/-- which tap the wrap recipe leaves in bin `k`: tap `k - b` at or after the start bin, tap
`k + W - b` (wrapped) before it -/
def wrapBin (z : α) (W b : Nat) (taps : List α) (k : Nat) : α :=
  let j := if b ≤ k then k - b else k + W - b
  if j < taps.length then taps.getD j z else z

theorem rebuildComplex_spec (z : α) (W b : Nat) (taps : List α) (hb : b < W) (hlen : taps.length ≤ W) :
    ∃ ys, rebuildComplex z W b taps = some ys ∧ ys.length = W ∧
      ∀ k, k < W → ys[k]? = some (wrapBin z W b taps k) := by
  unfold rebuildComplex
  set len := taps.length with hl
  -- wrap, as a natural number
  obtain ⟨w, hw, hwdef⟩ : ∃ w : Nat, (min ((b : Int) + (len : Int)) (W : Int) - (b : Int) = (w : Int)) ∧
      w = min len (W - b) := ⟨min len (W - b), by omega, rfl⟩
  simp only [hw]
  have hwl : w ≤ len := by omega
  rw [show pySlice taps 0 (w : Int) = taps.take w from pySlice_prefix taps w hwl]
  rw [show pySlice taps (w : Int) (len : Int) = taps.drop w from pySlice_suffix taps w hwl]
  set R0 := List.replicate W z with hR0
  have hR0l : R0.length = W := by simp [hR0]
  have htk : (taps.take w).length = w := by simp; omega
  have hdr : (taps.drop w).length = len - w := by simp [hl]
  -- first assignment
  have s1 := setSlice_eq R0 (taps.take w) (b : Int) ((b : Int) + (w : Int)) b
    (by rw [hR0l, normBound_nonneg_le (by omega) (by omega)]; omega)
    (by rw [hR0l, htk, normBound_nonneg_le (by omega) (by omega)]; omega)
  rw [s1]
  simp only [Option.bind_some]
  set X := R0.take b ++ taps.take w ++ R0.drop (b + (taps.take w).length) with hX
  have hXl : X.length = W := by
    rw [hX, splice_length R0 _ b (by rw [htk, hR0l]; omega), hR0l]
  -- second assignment
  have s2 := setSlice_eq X (taps.drop w) (0 : Int) ((len : Int) - (w : Int)) 0
    (by simp [normBound])
    (by rw [hXl, hdr, normBound_nonneg_le (by omega) (by omega)]; omega)
  rw [s2]
  refine ⟨_, rfl, ?_, ?_⟩
  · rw [splice_length X _ 0 (by rw [hdr, hXl]; omega), hXl]
  · intro k hk
    rw [splice_getElem? X _ 0 k (by rw [hdr, hXl]; omega)]
    have hXk : X[k]? = if k < b then some z else if k < b + w then taps[k - b]? else some z := by
      rw [hX, splice_getElem? R0 _ b k (by rw [htk, hR0l]; omega), htk]
      have hz : R0[k]? = some z := by simp [hR0, hk]
      rw [hz]
      split
      · rfl
      · split
        · rename_i h1 h2
          rw [List.getElem?_take]; simp only [show k - b < w by omega, if_true]
        · rfl
    rw [hdr, hXk]
    simp only [Nat.not_lt_zero, if_false, Nat.zero_add, Nat.sub_zero, List.getElem?_drop]
    unfold wrapBin
    simp only [← hl]
    by_cases h1 : k < len - w
    · have hj : ¬ b ≤ k := by omega
      have hjl : k + W - b < len := by omega
      simp only [h1, if_true, hj, if_false, hjl]
      rw [getElem?_getD taps _ z (by omega)]
      congr 2; omega
    · simp only [h1, if_false]
      by_cases h2 : k < b
      · have hj : ¬ b ≤ k := by omega
        have hjl : ¬ k + W - b < len := by omega
        simp only [h2, if_true, hj, if_false, hjl]
      · simp only [h2, if_false, show b ≤ k by omega, if_true]
        by_cases h3 : k < b + w
        · simp only [h3, if_true, show k - b < len by omega]
          exact getElem?_getD taps _ z (by omega)
        · have : ¬ k - b < len := by omega
          simp only [h3, if_false, this]

/-! ## the mirror recipe (real filters) -/

/-- what the mirror recipe leaves in bin `k`: the conjugate of the tap sitting on bin `W - k` when
that bin carries one (the second assignment, which wins), else the tap on bin `k`, else zero -/
def realBin (conj : α → α) (z : α) (W b : Nat) (taps : List α) (k : Nat) : α :=
  if 0 < k ∧ b ≤ W - k ∧ W - k < b + taps.length then conj (taps.getD (W - k - b) z)
  else if b ≤ k ∧ k < b + taps.length then taps.getD (k - b) z
  else z

theorem mirrorSrc_length (b : Nat) (taps : List α) :
    (mirrorSrc b taps).length = if b ≠ 0 then taps.length else taps.length - 1 := by
  unfold mirrorSrc; split <;> simp

theorem mirrorSrc_getElem? (b : Nat) (taps : List α) (t : Nat) (ht : t < (mirrorSrc b taps).length) :
    (mirrorSrc b taps)[t]? = taps[taps.length - 1 - t]? := by
  rw [mirrorSrc_length] at ht
  unfold mirrorSrc
  split
  · rename_i hb; rw [if_pos hb] at ht
    rw [List.getElem?_reverse ht]
  · rename_i hb; rw [if_neg hb] at ht
    rw [List.getElem?_reverse (by simpa using ht), List.getElem?_drop, List.length_drop]
    congr 1; omega

theorem rebuildReal_spec (conj : α → α) (z : α) (W b : Nat) (taps : List α) (hW : 1 ≤ W)
    (hhalf : b + taps.length ≤ W / 2 + 1) :
    ∃ ys, rebuildReal conj z W b taps = some ys ∧ ys.length = W ∧
      ∀ k, k < W → ys[k]? = some (realBin conj z W b taps k) := by
  unfold rebuildReal
  dsimp only
  set len := taps.length with hl
  set R0 := List.replicate W z with hR0
  have hR0l : R0.length = W := by simp [hR0]
  have hbl : b + len ≤ W := by omega
  have s1 := setSlice_eq R0 taps (b : Int) ((b : Int) + (len : Int)) b
    (by rw [hR0l, normBound_nonneg_le (by omega) (by omega)]; omega)
    (by rw [hR0l, normBound_nonneg_le (by omega) (by omega)]; omega)
  rw [s1]
  simp only [Option.bind_some]
  set X := R0.take b ++ taps ++ R0.drop (b + taps.length) with hX
  have hXl : X.length = W := by rw [hX, splice_length R0 _ b (by rw [hR0l]; omega), hR0l]
  set src := (mirrorSrc b taps).map conj with hsrc
  have hsl : src.length = if b ≠ 0 then len else len - 1 := by
    rw [hsrc, List.length_map, mirrorSrc_length]
  -- start of the mirrored slice
  set a := min (W + 1 - b - len) W with ha
  have hna : normBound X.length ((W : Int) - (b : Int) - (len : Int) + 1) = a := by
    rw [hXl]
    by_cases hc : (W : Int) - b - len + 1 ≤ W
    · rw [normBound_nonneg_le (by omega) hc]; omega
    · rw [normBound_ge (by omega)]; omega
  have hnb : normBound X.length ((W : Int) - (b : Int) + 1) = a + src.length := by
    rw [hXl, hsl]
    by_cases hb0 : b = 0
    · subst hb0
      rw [normBound_ge (by omega)]; simp only [ne_eq, not_true_eq_false, if_false]; omega
    · rw [normBound_nonneg_le (by omega) (by omega)]; simp only [ne_eq, hb0, not_false_eq_true, if_true]; omega
  rw [setSlice_eq X src _ _ a hna hnb]
  have hfit : a + src.length ≤ X.length := by
    rw [hXl, hsl]; split <;> omega
  refine ⟨_, rfl, ?_, ?_⟩
  · rw [splice_length X src a hfit, hXl]
  · intro k hk
    rw [splice_getElem? X src a k hfit]
    have hXk : X[k]? = if k < b then some z else if k < b + len then taps[k - b]? else some z := by
      rw [hX, splice_getElem? R0 _ b k (by rw [hR0l]; omega)]
      have hz : R0[k]? = some z := by simp [hR0, hk]
      rw [hz]
    have hsk : ∀ t, t < src.length → src[t]? = Option.map conj taps[len - 1 - t]? := by
      intro t ht
      rw [hsrc, List.getElem?_map, mirrorSrc_getElem? b taps t (by simpa [hsrc] using ht)]
    unfold realBin
    simp only [← hl]
    by_cases hm : 0 < k ∧ b ≤ W - k ∧ W - k < b + len
    · -- a mirrored bin
      simp only [hm, and_self, if_true]
      have h1 : ¬ k < a := by rw [hsl] at hfit; split at hfit <;> omega
      have h2 : k < a + src.length := by rw [hsl]; split <;> omega
      simp only [h1, if_false, h2, if_true]
      rw [hsk _ (by omega)]
      have e : len - 1 - (k - a) = W - k - b := by rw [hsl] at h2; split at h2 <;> omega
      rw [e, getElem?_getD taps _ z (by omega)]; rfl
    · simp only [hm, if_false]
      have hout : k < a ∨ ¬ k < a + src.length := by
        rw [hsl]
        by_cases hka : k < a
        · exact Or.inl hka
        · right; split <;> omega
      have : (if k < a then X[k]? else if k < a + src.length then src[k - a]? else X[k]?) = X[k]? := by
        rcases hout with h | h
        · simp only [h, if_true]
        · have h' : ¬ k < a := by omega
          simp only [h', h, if_false]
      rw [this, hXk]
      by_cases hd : b ≤ k ∧ k < b + len
      · have : ¬ k < b := by omega
        simp only [this, if_false, hd.2, if_true, hd, and_self]
        exact getElem?_getD taps _ z (by omega)
      · simp only [hd, if_false]
        by_cases hkb : k < b
        · simp only [hkb, if_true]
        · have : ¬ k < b + len := by omega
          simp only [hkb, if_false, this]

theorem getD_map_range (f : Nat → α) (n j : Nat) (z : α) (hj : j < n) :
    ((List.range n).map f).getD j z = f j := by
  simp [List.getD, List.getElem?_map, List.getElem?_range hj]

end PdsVerif.BankIndexLemmas

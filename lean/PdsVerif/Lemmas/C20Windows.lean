/-
  C20 — lemmas about the window model (`PdsVerif/Model/Windows.lean`) at `ℝ`:
  lengths, non-negativity, the trigonometric sums behind the normalisers, the Bartlett sum.
-/
import PdsVerif.Model.Windows
import PdsVerif.RealNum
import Mathlib.RingTheory.RootsOfUnity.Complex
import Mathlib.Algebra.Field.GeomSum
import Mathlib.Tactic

namespace PdsVerif.C20.Win
open PdsVerif PdsVerif.Model.Windows PdsVerif.Gen.UtilFns Finset

/-! ## list plumbing -/

theorem list_sum_range_map {β : Type} [AddCommMonoid β] (f : ℕ → β) (n : ℕ) :
    ((List.range n).map f).sum = ∑ i ∈ range n, f i := by
  induction n with
  | zero => simp
  | succ n ih => rw [List.sum_range_succ, Finset.sum_range_succ, ih]

section len
variable {α : Type} [Add α] [Sub α] [Mul α] [Div α] [OfScientific α] [LE α] [DecidableLE α] [Transc α] [NatCast α]

theorem npWindow_length (s : NpShape) (M : ℕ) : (npWindow (α := α) s M).length = M := by
  unfold npWindow
  split_ifs with h1 h2
  · simp; omega
  · simp [h2]
  · simp

theorem window_length [Max α] (k : Kind) (w : ℕ) : (window (α := α) k w).length = w := by
  simp [window, npWindow_length]
end len

theorem gamma_length {α : Type} [Add α] [Sub α] [Mul α] [Div α] [Neg α] [OfScientific α] [LT α] [DecidableLT α]
    [Transc α] [NatCast α] (order : ℕ) (peak : α) (w : ℕ) (l : List α)
    (h : gamma order peak w = .ok l) : l.length = w := by
  unfold gamma at h
  split_ifs at h with h1 h2 h3
  · cases h; simp; omega
  · cases h; simp [h2]
  · cases h; simp

/-! ## the window for `width ≥ 2`, as a function of the index -/

theorem npWindow_of_two_le (s : NpShape) {M : ℕ} (hM : 2 ≤ M) :
    npWindow (α := ℝ) s M = (List.range M).map (npSample s M) := by
  unfold npWindow; rw [if_neg (by omega), if_neg (by omega)]

/-- `n = arange(1 - M, M, 2)[k] = 2k − (M − 1)` -/
theorem npN_real (M k : ℕ) : npN (α := ℝ) M k = 2 * (k : ℝ) - ((M : ℝ) - 1) := by
  unfold npN; norm_num; ring

theorem max_one_sub {M : ℕ} (hM : 2 ≤ M) : max (1.0 : ℝ) ((M : ℝ) - 1.0) = (M : ℝ) - 1 := by
  have : (2:ℝ) ≤ M := by exact_mod_cast hM
  norm_num; linarith

theorem max_one_pos (x : ℝ) : 0 < max (1.0 : ℝ) x := lt_of_lt_of_le (by norm_num) (le_max_left _ _)

theorem norm_pos (k : Kind) (x : ℝ) : 0 < normOf (α := ℝ) k x := by
  have := max_one_pos (x - 1.0)
  cases k <;> simp only [normOf, bartlett_norm, blackman_norm, hamming_norm, hann_norm] <;> positivity

/-! ## non-negativity of the NumPy shapes -/

theorem npSample_nonneg (s : NpShape) {M k : ℕ} (hM : 2 ≤ M) (hk : k < M) : 0 ≤ npSample (α := ℝ) s M k := by
  have hM' : (2:ℝ) ≤ M := by exact_mod_cast hM
  have hk' : (k:ℝ) + 1 ≤ M := by exact_mod_cast hk
  have hk0 : (0:ℝ) ≤ k := Nat.cast_nonneg k
  have hd : (0:ℝ) < (M:ℝ) - 1 := by linarith
  cases s <;> simp only [npSample, npN_real, transc_cos, transc_pi]
  · -- bartlett
    norm_num
    split_ifs with h
    · have : -1 ≤ (2 * (k:ℝ) - ((M:ℝ) - 1)) / ((M:ℝ) - 1) := by
        rw [le_div_iff₀ hd]; linarith
      linarith
    · have : (2 * (k:ℝ) - ((M:ℝ) - 1)) / ((M:ℝ) - 1) ≤ 1 := by
        rw [div_le_iff₀ hd]; linarith
      linarith
  · -- blackman: 0.42 + 0.5 c + 0.08 (2c² − 1) = 0.16 (c + 1)(c + 2.125)
    set θ : ℝ := Real.pi * (2 * (k:ℝ) - ((M:ℝ) - 1)) / ((M:ℝ) - 1.0) with hθ
    have e : (2.0:ℝ) * Real.pi * (2 * (k:ℝ) - ((M:ℝ) - 1)) / ((M:ℝ) - 1.0) = 2 * θ := by
      rw [hθ]; norm_num; ring
    rw [e, Real.cos_two_mul]
    have h1 := Real.neg_one_le_cos θ
    have h2 := Real.cos_le_one θ
    norm_num
    nlinarith [mul_nonneg (by linarith : (0:ℝ) ≤ Real.cos θ + 1) (by linarith : (0:ℝ) ≤ Real.cos θ + 2.125)]
  · -- hamming
    have h1 := Real.neg_one_le_cos (Real.pi * (2 * (k:ℝ) - ((M:ℝ) - 1)) / ((M:ℝ) - 1.0))
    norm_num at h1 ⊢; linarith
  · -- hanning
    have h1 := Real.neg_one_le_cos (Real.pi * (2 * (k:ℝ) - ((M:ℝ) - 1)) / ((M:ℝ) - 1.0))
    norm_num at h1 ⊢; linarith

theorem npWindow_nonneg (s : NpShape) (M : ℕ) : ∀ x ∈ npWindow (α := ℝ) s M, 0 ≤ x := by
  intro x hx
  unfold npWindow at hx
  split_ifs at hx with h1 h2
  · simp at hx
  · simp at hx; rw [hx]; norm_num
  · simp only [List.mem_map, List.mem_range] at hx
    obtain ⟨k, hk, rfl⟩ := hx
    exact npSample_nonneg s (by omega) hk

theorem window_nonneg (k : Kind) (w : ℕ) : ∀ x ∈ window (α := ℝ) k w, 0 ≤ x := by
  intro x hx
  simp only [window, List.mem_map] at hx
  obtain ⟨y, hy, rfl⟩ := hx
  exact div_nonneg (npWindow_nonneg _ _ y hy) (norm_pos k _).le

/-! ## roots-of-unity sums -/

open Complex in
/-- `Σ_{k<L} cos(2π·m·k/L) = 0` unless `L ∣ m` (geometric sum of an `L`-th root of unity ≠ 1) -/
theorem sum_cos_eq_zero {L m : ℕ} (hL : L ≠ 0) (hm : ¬ L ∣ m) :
    ∑ k ∈ range L, Real.cos (2 * Real.pi * m * k / L) = 0 := by
  have hprim := Complex.isPrimitiveRoot_exp L hL
  set ζ : ℂ := cexp (2 * Real.pi * I / L) with hζ
  have hw1 : ζ ^ m ≠ 1 := fun h => hm ((hprim.pow_eq_one_iff_dvd m).mp h)
  have hwL : (ζ ^ m) ^ L = 1 := by rw [← pow_mul, mul_comm, pow_mul, hprim.pow_eq_one, one_pow]
  have hgeom : ∑ k ∈ range L, (ζ ^ m) ^ k = 0 := by
    rw [geom_sum_eq hw1, hwL, sub_self, zero_div]
  have hre : ∀ k : ℕ, ((ζ ^ m) ^ k).re = Real.cos (2 * Real.pi * m * k / L) := by
    intro k
    have : (ζ ^ m) ^ k = cexp (((2 * Real.pi * m * k / L : ℝ) : ℂ) * I) := by
      rw [← pow_mul, hζ, ← Complex.exp_nat_mul]; congr 1; push_cast; ring
    rw [this, Complex.exp_ofReal_mul_I_re]
  have := congrArg Complex.re hgeom
  rw [Complex.re_sum] at this
  simpa [hre] using this

/-- one more term (`k = L`) closes the period: the sum over `k = 0..L` is 1 -/
theorem sum_cos_succ {L m : ℕ} (hL : L ≠ 0) (hm : ¬ L ∣ m) :
    ∑ k ∈ range (L + 1), Real.cos (2 * Real.pi * m * k / L) = 1 := by
  rw [Finset.sum_range_succ, sum_cos_eq_zero hL hm, zero_add]
  have hL' : (L:ℝ) ≠ 0 := by exact_mod_cast hL
  have : 2 * Real.pi * m * L / L = (m : ℝ) * (2 * Real.pi) := by field_simp
  rw [this]; exact Real.cos_nat_mul_two_pi m

/-- the argument NumPy feeds to `cos`: `π·n/(M−1) = 2πk/L − π` with `L = M − 1` -/
theorem np_angle {L k : ℕ} (hL : L ≠ 0) :
    Real.pi * (2 * (k : ℝ) - (((L + 1 : ℕ) : ℝ) - 1)) / (((L + 1 : ℕ) : ℝ) - 1.0)
      = 2 * Real.pi * (1 : ℕ) * k / L - Real.pi := by
  have hL' : (L:ℝ) ≠ 0 := by exact_mod_cast hL
  push_cast; norm_num; field_simp

theorem np_angle2 {L k : ℕ} (hL : L ≠ 0) :
    (2.0 : ℝ) * Real.pi * (2 * (k : ℝ) - (((L + 1 : ℕ) : ℝ) - 1)) / (((L + 1 : ℕ) : ℝ) - 1.0)
      = 2 * Real.pi * (2 : ℕ) * k / L - 2 * Real.pi := by
  have hL' : (L:ℝ) ≠ 0 := by exact_mod_cast hL
  push_cast; norm_num; field_simp

/-- `Σ_{k=0}^{L} cos(π·n_k/L) = −1` for `L ≥ 2` -/
theorem sum_np_cos1 {L : ℕ} (hL : 2 ≤ L) :
    ∑ k ∈ range (L + 1), Real.cos (Real.pi * (2 * (k : ℝ) - (((L + 1 : ℕ) : ℝ) - 1)) / (((L + 1 : ℕ) : ℝ) - 1.0)) = -1 := by
  have h0 : L ≠ 0 := by omega
  simp only [np_angle h0, Real.cos_sub_pi]
  rw [Finset.sum_neg_distrib, sum_cos_succ h0 (by intro h; have := Nat.le_of_dvd (by norm_num) h; omega)]

/-- `Σ_{k=0}^{L} cos(2π·n_k/L) = 1` for `L ≥ 3` -/
theorem sum_np_cos2 {L : ℕ} (hL : 3 ≤ L) :
    ∑ k ∈ range (L + 1), Real.cos ((2.0:ℝ) * Real.pi * (2 * (k : ℝ) - (((L + 1 : ℕ) : ℝ) - 1)) / (((L + 1 : ℕ) : ℝ) - 1.0)) = 1 := by
  have h0 : L ≠ 0 := by omega
  simp only [np_angle2 h0, Real.cos_sub_two_pi]
  exact sum_cos_succ h0 (by intro h; have := Nat.le_of_dvd (by norm_num) h; omega)

/-! ## sums of the normalised windows -/

theorem window_sum_eq (k : Kind) {M : ℕ} (hM : 2 ≤ M) :
    (window (α := ℝ) k M).sum = (∑ i ∈ range M, npSample (α := ℝ) (shapeOf k) M i) / normOf (α := ℝ) k (M : ℝ) := by
  rw [window, npWindow_of_two_le _ hM, List.map_map, list_sum_range_map, Finset.sum_div]
  rfl

theorem hann_shape_sum {L : ℕ} (hL : 2 ≤ L) :
    ∑ i ∈ range (L + 1), npSample (α := ℝ) .hanning (L + 1) i = 0.5 * (L : ℝ) := by
  simp only [npSample, npN_real, transc_cos, transc_pi]
  rw [Finset.sum_add_distrib, ← Finset.mul_sum, sum_np_cos1 hL]
  simp only [Finset.sum_const, Finset.card_range, nsmul_eq_mul]
  push_cast; ring

theorem hamming_shape_sum {L : ℕ} (hL : 2 ≤ L) :
    ∑ i ∈ range (L + 1), npSample (α := ℝ) .hamming (L + 1) i = 0.54 * (L : ℝ) + 0.08 := by
  simp only [npSample, npN_real, transc_cos, transc_pi]
  rw [Finset.sum_add_distrib, ← Finset.mul_sum, sum_np_cos1 hL]
  simp only [Finset.sum_const, Finset.card_range, nsmul_eq_mul]
  push_cast; ring

theorem blackman_shape_sum {L : ℕ} (hL : 3 ≤ L) :
    ∑ i ∈ range (L + 1), npSample (α := ℝ) .blackman (L + 1) i = 0.42 * (L : ℝ) := by
  simp only [npSample, npN_real, transc_cos, transc_pi]
  rw [Finset.sum_add_distrib, Finset.sum_add_distrib, ← Finset.mul_sum, ← Finset.mul_sum,
    sum_np_cos1 (by omega), sum_np_cos2 hL]
  simp only [Finset.sum_const, Finset.card_range, nsmul_eq_mul]
  push_cast; ring

/-! ## Bartlett: `Σ_{k=0}^{L} |2k − L|` -/

/-- `T L = Σ_{k=0}^{L} |2k − L|` -/
noncomputable def T (L : ℕ) : ℝ := ∑ k ∈ range (L + 1), |2 * (k : ℝ) - L|

theorem T_rec (L : ℕ) : T (L + 2) = T L + 2 * ((L : ℝ) + 2) := by
  unfold T
  rw [Finset.sum_range_succ, Finset.sum_range_succ']
  have h1 : ∀ k : ℕ, |2 * ((k + 1 : ℕ) : ℝ) - ((L + 2 : ℕ) : ℝ)| = |2 * (k : ℝ) - L| := by
    intro k; congr 1; push_cast; ring
  simp only [h1]
  have hL : (0:ℝ) ≤ L := Nat.cast_nonneg L
  have h2 : |2 * ((0 : ℕ) : ℝ) - ((L + 2 : ℕ) : ℝ)| = (L : ℝ) + 2 := by
    push_cast; rw [abs_of_nonpos (by linarith)]; ring
  have h3 : |2 * ((L + 1 : ℕ) : ℝ) - (L : ℝ)| = (L : ℝ) + 2 := by
    push_cast; rw [abs_of_nonneg (by linarith)]; ring
  rw [h2, h3]; ring

theorem T_closed (L : ℕ) : 2 * T L = ((L : ℝ) + 1) ^ 2 - (if L % 2 = 0 then 1 else 0) := by
  induction L using Nat.twoStepInduction with
  | zero => simp [T]
  | one => norm_num [T, Finset.sum_range_succ]
  | more n ih _ =>
    rw [T_rec, mul_add, ih]
    have : (n + 2) % 2 = n % 2 := by omega
    rw [this]; push_cast; ring

theorem bartlett_sample {L k : ℕ} (hL : L ≠ 0) :
    npSample (α := ℝ) .bartlett (L + 1) k = 1 - |2 * (k : ℝ) - L| / L := by
  have hL' : (0:ℝ) < L := by exact_mod_cast Nat.pos_of_ne_zero hL
  simp only [npSample, npN_real]
  have e : ((L + 1 : ℕ) : ℝ) - 1 = L := by push_cast; ring
  have e' : ((L + 1 : ℕ) : ℝ) - 1.0 = L := by push_cast; norm_num
  rw [e, e']
  split_ifs with h
  · have h' : 2 * (k:ℝ) - L ≤ 0 := by norm_num at h; linarith
    rw [abs_of_nonpos h']; norm_num; ring
  · have h' : 0 ≤ 2 * (k:ℝ) - L := by norm_num at h; linarith
    rw [abs_of_nonneg h']; norm_num

theorem bartlett_shape_sum {L : ℕ} (hL : L ≠ 0) :
    ∑ i ∈ range (L + 1), npSample (α := ℝ) .bartlett (L + 1) i = ((L : ℝ) + 1) - T L / L := by
  simp only [bartlett_sample hL]
  rw [Finset.sum_sub_distrib, ← Finset.sum_div]
  simp only [Finset.sum_const, Finset.card_range, nsmul_eq_mul, T]
  push_cast; ring

/-! ## the small widths (where a harmonic does *not* cancel) -/

/-- if `L ∣ m` every term is `cos(2π·integer) = 1` -/
theorem sum_cos_dvd {L m : ℕ} (hL : L ≠ 0) (hm : L ∣ m) (n : ℕ) :
    ∑ k ∈ range n, Real.cos (2 * Real.pi * m * k / L) = n := by
  obtain ⟨q, rfl⟩ := hm
  have hL' : (L:ℝ) ≠ 0 := by exact_mod_cast hL
  have : ∀ k : ℕ, Real.cos (2 * Real.pi * ((L * q : ℕ) : ℝ) * k / L) = 1 := by
    intro k
    have e : 2 * Real.pi * ((L * q : ℕ) : ℝ) * k / L = ((q * k : ℕ) : ℝ) * (2 * Real.pi) := by
      push_cast; field_simp
    rw [e]; exact Real.cos_nat_mul_two_pi _
  rw [Finset.sum_congr rfl (fun k _ => this k)]
  simp

theorem sum_np_cos1_dvd {L : ℕ} (hL : L ≠ 0) (hd : L ∣ 1) :
    ∑ k ∈ range (L + 1), Real.cos (Real.pi * (2 * (k : ℝ) - (((L + 1 : ℕ) : ℝ) - 1)) / (((L + 1 : ℕ) : ℝ) - 1.0))
      = -((L : ℝ) + 1) := by
  simp only [np_angle hL, Real.cos_sub_pi]
  rw [Finset.sum_neg_distrib, sum_cos_dvd hL hd]; push_cast; ring

theorem sum_np_cos2_dvd {L : ℕ} (hL : L ≠ 0) (hd : L ∣ 2) :
    ∑ k ∈ range (L + 1), Real.cos ((2.0:ℝ) * Real.pi * (2 * (k : ℝ) - (((L + 1 : ℕ) : ℝ) - 1)) / (((L + 1 : ℕ) : ℝ) - 1.0))
      = (L : ℝ) + 1 := by
  simp only [np_angle2 hL, Real.cos_sub_two_pi]
  rw [sum_cos_dvd hL hd]; push_cast; ring

/-- width 2: Hann `[0, 0]`, Hamming `[0.08, 0.08]`, Blackman `[0, 0]` (before normalisation) -/
theorem shape_sum_two :
    ∑ i ∈ range (1 + 1), npSample (α := ℝ) .hanning (1 + 1) i = 0 ∧
    ∑ i ∈ range (1 + 1), npSample (α := ℝ) .hamming (1 + 1) i = 0.16 ∧
    ∑ i ∈ range (1 + 1), npSample (α := ℝ) .blackman (1 + 1) i = 0 := by
  have h1 := sum_np_cos1_dvd (L := 1) one_ne_zero (dvd_refl 1)
  have h2 := sum_np_cos2_dvd (L := 1) one_ne_zero (one_dvd 2)
  refine ⟨?_, ?_, ?_⟩ <;> simp only [npSample, npN_real, transc_cos, transc_pi]
  · rw [Finset.sum_add_distrib, ← Finset.mul_sum, h1]
    simp only [Finset.sum_const, Finset.card_range, nsmul_eq_mul]; norm_num
  · rw [Finset.sum_add_distrib, ← Finset.mul_sum, h1]
    simp only [Finset.sum_const, Finset.card_range, nsmul_eq_mul]; norm_num
  · rw [Finset.sum_add_distrib, Finset.sum_add_distrib, ← Finset.mul_sum, ← Finset.mul_sum, h1, h2]
    simp only [Finset.sum_const, Finset.card_range, nsmul_eq_mul]; norm_num

/-- width 3: Blackman `[0, 1, 0]` (the second harmonic has period 1 there) -/
theorem blackman_shape_sum_three : ∑ i ∈ range (2 + 1), npSample (α := ℝ) .blackman (2 + 1) i = 1 := by
  have h1 := sum_np_cos1 (L := 2) (le_refl 2)
  have h2 := sum_np_cos2_dvd (L := 2) two_ne_zero (dvd_refl 2)
  simp only [npSample, npN_real, transc_cos, transc_pi]
  rw [Finset.sum_add_distrib, Finset.sum_add_distrib, ← Finset.mul_sum, ← Finset.mul_sum, h1, h2]
  simp only [Finset.sum_const, Finset.card_range, nsmul_eq_mul]; norm_num

/-- width 1: `[1 / norm(1)]` -/
theorem window_one (k : Kind) : window (α := ℝ) k 1 = [1.0 / normOf (α := ℝ) k ((1 : ℕ) : ℝ)] := by
  simp [window, npWindow]

end PdsVerif.C20.Win

/-
  The physical-buffer model `Model/StftRaw.lean` refines the abstract streaming model
  `Model/Stft.lean` through `Raw.abs`: stale cells are never read.
-/
import PdsVerif.Model.StftRaw
import PdsVerif.Lemmas.StftArith
import PdsVerif.Lemmas.StftCanon
set_option linter.unusedSectionVars false
namespace PdsVerif.StftRawLemmas
open PdsVerif.Model PdsVerif.Model.Stft PdsVerif.Model.StftRaw PdsVerif.StftArith

variable {α : Type} [Inhabited α]

theorem takeLast_length (l : List α) (k : Nat) : (takeLast l k).length = min k l.length := by
  simp [takeLast]; omega

theorem takeLast_all' (l : List α) (k : Nat) (h : l.length ≤ k) : takeLast l k = l := by
  simp [takeLast, Nat.sub_eq_zero_of_le h]

theorem takeLast_takeLast (l : List α) (h k : Nat) (hk : k ≤ h) (hh : h ≤ l.length) :
    takeLast (takeLast l h) k = takeLast l k := by
  simp only [takeLast, List.length_drop, List.drop_drop]
  congr 1; omega

theorem takeLast_drop (l : List α) (k j : Nat) (hj : j ≤ k) (hk : k ≤ l.length) :
    (takeLast l k).drop j = takeLast l (k - j) := by
  simp only [takeLast, List.drop_drop]; congr 1; omega

/-- sliding the physical buffer = appending to the meaningful history and keeping a frame's worth -/
theorem takeLast_slide (L : Nat) (cells ch : List α) (hist : Nat) (hc : cells.length = L) (hh : hist ≤ L) :
    takeLast (slide L cells ch) (min L (hist + ch.length))
      = takeLast (takeLast cells hist ++ ch) L := by
  unfold slide
  apply List.ext_getElem?
  intro i
  by_cases h1 : ch.length ≥ L
  · simp only [h1, if_true, takeLast, List.getElem?_append, List.getElem?_drop, List.length_drop, List.length_append, hc]
    have : min L (hist + ch.length) = L := by omega
    rw [this]
    split
    · omega
    · congr 1; omega
  · simp only [h1, if_false]
    by_cases h2 : ch.length > 0
    · simp only [h2, if_true, takeLast, List.getElem?_append, List.getElem?_drop, List.length_drop, List.length_append, hc]
      rcases Nat.le_total L (hist + ch.length) with h3 | h3
      · rw [Nat.min_eq_left h3]
        split <;> split <;> first | (exfalso; omega) | (congr 1; omega)
      · rw [Nat.min_eq_right h3]
        split <;> split <;> first | (exfalso; omega) | (congr 1; omega)
    · have : ch = [] := by
        cases ch with
        | nil => rfl
        | cons a t => simp at h2
      subst this
      simp only [List.length_nil, Nat.lt_irrefl, if_false, Nat.add_zero, List.append_nil, takeLast,
        List.length_drop, hc, List.getElem?_drop]
      congr 1; omega

/-- the loop body's frame is the slice of "buffer tail ++ chunk" -/
theorem frameOf_eq (cells ch : List α) (rem S flen k : Nat) (hr : rem ≤ cells.length) (hf : rem ≤ flen) :
    frameOf cells ch rem S flen k = ((takeLast cells rem ++ ch).drop (k * S)).take flen := by
  unfold frameOf
  apply List.ext_getElem?
  intro i
  by_cases h : k * S < rem
  · simp only [h, if_true, takeLast, List.getElem?_append, List.getElem?_drop, List.getElem?_take,
      List.length_drop]
    split <;> split <;> (try split) <;> (try split) <;> first | (exfalso; omega) | rfl | (congr 1; omega)
  · simp only [h, if_false, takeLast, List.getElem?_append, List.getElem?_drop, List.getElem?_take,
      List.length_drop]
    split <;> (try split) <;> (try split) <;> first | (exfalso; omega) | rfl | (congr 1; omega)

theorem slide_length (L : Nat) (cells ch : List α) (hc : cells.length = L) :
    (slide L cells ch).length = L := by
  unfold slide
  split
  · simp; omega
  · split
    · simp [hc]; omega
    · exact hc

/-- representation invariant of the physical state -/
structure Inv (c : Cfg) (r : Raw α) : Prop where
  len : r.cells.length = c.L
  hist : r.hist ≤ c.L
  rem : r.rem ≤ r.hist
  remF : r.rem ≤ (if c.centered && r.first then flen0 c else c.L)

theorem inv_fresh (c : Cfg) (junk : List α) (h : junk.length = c.L) : Inv c (fresh junk) :=
  ⟨h, Nat.zero_le _, Nat.le_refl _, Nat.zero_le _⟩

theorem symPad_length (l : List α) (pl pr : Nat) : (symPad l pl pr).length = pl + l.length + pr := by
  simp [symPad]

theorem half_le_flen0_succ (c : Cfg) (w : WF c) : c.L / 2 ≤ flen0 c := by
  have := w.hS; have := w.hSL
  unfold flen0; cases c.kaldi <;> simp <;> omega

/-! ### what the physical `chunk` does, by kind of state (pure unfolding) -/

theorem raw_later (c : Cfg) (r : Raw α) (ch : List α) (hf : r.first = false) :
    StftRaw.chunk c r ch =
      ({ cells := slide c.L r.cells ch, hist := min c.L (r.hist + ch.length),
         rem := ch.length + r.rem - nfOf c (ch.length + r.rem) c.L * c.S,
         first := false, started := true },
       (List.range (nfOf c (ch.length + r.rem) c.L)).map fun k => frameOf r.cells ch r.rem c.S c.L k) := by
  simp [StftRaw.chunk, hf, nfOf]

theorem raw_first_causal (c : Cfg) (r : Raw α) (ch : List α) (hc : c.centered = false) :
    StftRaw.chunk c r ch =
      ({ cells := slide c.L r.cells ch, hist := min c.L (r.hist + ch.length),
         rem := ch.length + r.rem - nfOf c (ch.length + r.rem) c.L * c.S,
         first := r.first && nfOf c (ch.length + r.rem) c.L == 0, started := true },
       (List.range (nfOf c (ch.length + r.rem) c.L)).map fun k => frameOf r.cells ch r.rem c.S c.L k) := by
  simp [StftRaw.chunk, hc, nfOf]

theorem raw_centered_wait (c : Cfg) (r : Raw α) (ch : List α) (hc : c.centered = true)
    (hf : r.first = true)
    (h : ch.length + r.rem < flen0 c ∨ ch.length + r.rem < c.L / 2 + 1) :
    StftRaw.chunk c r ch =
      ({ cells := slide c.L r.cells ch, hist := min c.L (r.hist + ch.length),
         rem := ch.length + r.rem, first := true, started := true }, []) := by
  rcases h with h | h
  · simp [StftRaw.chunk, hc, hf, h]
  · simp [StftRaw.chunk, hc, hf, h]

theorem raw_centered_emit (c : Cfg) (r : Raw α) (ch : List α) (hc : c.centered = true)
    (hf : r.first = true)
    (h1 : ¬ ch.length + r.rem < flen0 c) (h2 : ¬ ch.length + r.rem < c.L / 2 + 1) :
    StftRaw.chunk c r ch =
      (let ch' := ch.drop (flen0 c - r.rem)
       let cells' := symPad (frameOf r.cells ch r.rem c.S (flen0 c) 0) (c.L - flen0 c) 0
       let nf := (ch.length + r.rem - flen0 c) / c.S + 1
       ({ cells := slide c.L cells' ch', hist := min c.L (c.L + ch'.length),
          rem := ch'.length + c.L - nf * c.S, first := false, started := true },
        cells' :: (List.range (nf - 1)).map fun k => frameOf cells' ch' c.L c.S c.L (k + 1))) := by
  simp [StftRaw.chunk, hc, hf, h1, h2]

/-- the state both plain shapes of the physical `chunk` end in -/
def plainRaw (c : Cfg) (r : Raw α) (ch : List α) (fst : Bool) : Raw α :=
  { cells := slide c.L r.cells ch, hist := min c.L (r.hist + ch.length),
    rem := ch.length + r.rem - nfOf c (ch.length + r.rem) c.L * c.S, first := fst, started := true }

/-- … and of the abstract `chunk` -/
def plainSt (c : Cfg) (s : St α) (ch : List α) (fst : Bool) : St α :=
  { buf := takeLast (s.buf ++ ch) c.L,
    rem := ch.length + s.rem - nfOf c (ch.length + s.rem) c.L * c.S, first := fst, started := true }

theorem rem_after_lt (c : Cfg) (hS : 0 < c.S) (total : Nat) :
    total - nfOf c total c.L * c.S < c.L ∨ (c.L = 0) := by
  by_cases hL : c.L = 0
  · exact Or.inr hL
  · left
    unfold nfOf
    by_cases h : total < c.L
    · simp [h]
    · simp only [h, if_false]
      obtain ⟨d1, d2⟩ := div_facts (total - c.L) c.S hS
      have : ((total - c.L) / c.S + 1) * c.S = c.S * ((total - c.L) / c.S) + c.S := by
        rw [Nat.add_mul, Nat.mul_comm]; simp
      omega

theorem chunk_refines (c : Cfg) (w : WF c) (r : Raw α) (ch : List α) (hI : Inv c r) :
    (StftRaw.chunk c r ch).2 = (Stft.chunk c r.abs ch).2 ∧
    (StftRaw.chunk c r ch).1.abs = (Stft.chunk c r.abs ch).1 ∧
    Inv c (StftRaw.chunk c r ch).1 := by
  obtain ⟨hlen, hhist, hrem, hremF⟩ := hI
  have hS := w.hS; have hSL := w.hSL
  have hpend : takeLast (takeLast r.cells r.hist) r.rem = takeLast r.cells r.rem :=
    takeLast_takeLast _ _ _ hrem (by omega)
  have hremL : r.rem ≤ c.L := by omega
  have habs_first : r.abs.first = r.first := rfl
  have habs_rem : r.abs.rem = r.rem := rfl
  have habs_buf : r.abs.buf = takeLast r.cells r.hist := rfl
  -- the two "plain" shapes share their proof
  have plain : ∀ (fst : Bool),
      (fst = true → c.centered = true → ch.length + r.rem - nfOf c (ch.length + r.rem) c.L * c.S ≤ flen0 c) →
      (List.range (nfOf c (ch.length + r.rem) c.L)).map (fun k => frameOf r.cells ch r.rem c.S c.L k)
        = cut c (takeLast r.abs.buf r.abs.rem ++ ch) (nfOf c (ch.length + r.abs.rem) c.L) ∧
      (plainRaw c r ch fst).abs = plainSt c r.abs ch fst ∧
      Inv c (plainRaw c r ch fst) := by
    intro fst hfst
    unfold plainRaw plainSt
    rw [habs_rem, habs_buf, hpend]
    refine ⟨?_, ?_, ?_⟩
    · unfold cut
      apply List.map_congr_left; intro k _
      rw [frameOf_eq _ _ _ _ _ _ (by omega) hremL]
    · simp only [Raw.abs]
      congr 1
      exact takeLast_slide _ _ _ _ hlen hhist
    · have h3 := rem_after_lt c hS (ch.length + r.rem)
      have hL0 : c.L ≠ 0 := by omega
      have h3' : ch.length + r.rem - nfOf c (ch.length + r.rem) c.L * c.S < c.L := by
        rcases h3 with h | h
        · exact h
        · exact absurd h hL0
      refine ⟨slide_length _ _ _ hlen, Nat.min_le_left _ _, ?_, ?_⟩
      · show ch.length + r.rem - nfOf c (ch.length + r.rem) c.L * c.S ≤ min c.L (r.hist + ch.length)
        rw [Nat.le_min]; omega
      · show ch.length + r.rem - nfOf c (ch.length + r.rem) c.L * c.S ≤ _
        split
        · rename_i h; simp only [Bool.and_eq_true] at h; exact hfst h.2 h.1
        · omega
  cases hf : r.first
  · -- not the first frame any more
    rw [raw_later c r ch hf, PdsVerif.StftCanon.chunk_later c r.abs ch (by rw [habs_first]; exact hf)]
    exact plain false (by intro h; cases h)
  · cases hc : c.centered
    · rw [raw_first_causal c r ch hc, PdsVerif.StftCanon.chunk_first_causal c r.abs ch hc, habs_first, habs_rem]
      have := plain (r.first && nfOf c (ch.length + r.rem) c.L == 0) (by intro _ h; rw [hc] at h; cases h)
      rw [habs_rem] at this
      exact this
    · -- centred, first frame pending
      have hfl := padL_add_flen0 w hc
      have hremF' : r.rem ≤ flen0 c := by simpa [hc, hf] using hremF
      by_cases hw : ch.length + r.rem < flen0 c ∨ ch.length + r.rem < c.L / 2 + 1
      · rw [raw_centered_wait c r ch hc hf hw,
          PdsVerif.StftCanon.chunk_first_centered_wait c r.abs ch hc (by rw [habs_first]; exact hf) hw]
        have hhalf := half_le_flen0_succ c w
        have hfL := flen0_le_L w hc
        have hl := half_le_L w
        refine ⟨rfl, ?_, ?_⟩
        · simp only [Raw.abs]
          congr 1
          exact takeLast_slide _ _ _ _ hlen hhist
        · refine ⟨slide_length _ _ _ hlen, Nat.min_le_left _ _, ?_, ?_⟩
          · show ch.length + r.rem ≤ min c.L (r.hist + ch.length)
            rw [Nat.le_min]; omega
          · show ch.length + r.rem ≤ _
            simp only [hc, Bool.and_self, if_true]; omega
      · have h1 : ¬ ch.length + r.rem < flen0 c := by omega
        have h2 : ¬ ch.length + r.rem < c.L / 2 + 1 := by omega
        rw [raw_centered_emit c r ch hc hf h1 h2,
          PdsVerif.StftCanon.chunk_first_centered_emit c r.abs ch hc (by rw [habs_first]; exact hf) h1 h2]
        simp only [habs_rem, habs_buf, hpend]
        have hfL := flen0_le_L w hc
        have hf0 : frameOf r.cells ch r.rem c.S (flen0 c) 0 = (takeLast r.cells r.rem ++ ch).take (flen0 c) := by
          rw [frameOf_eq _ _ _ _ _ _ (by omega) hremF']; simp
        have hrest : (takeLast r.cells r.rem ++ ch).drop (flen0 c) = ch.drop (flen0 c - r.rem) := by
          have hl : (takeLast r.cells r.rem).length = r.rem := by rw [takeLast_length]; omega
          rw [List.drop_append, hl, List.drop_of_length_le (by omega), List.nil_append]
        rw [hf0, hrest]
        generalize hpad : symPad ((takeLast r.cells r.rem ++ ch).take (flen0 c)) (c.L - flen0 c) 0 = padded
        have hpl : padded.length = c.L := by
          rw [← hpad, symPad_length]
          have : ((takeLast r.cells r.rem ++ ch).take (flen0 c)).length = flen0 c := by
            have hl : (takeLast r.cells r.rem).length = r.rem := by rw [takeLast_length]; omega
            simp [hl]; omega
          omega
        have hchl : (ch.drop (flen0 c - r.rem)).length = ch.length + r.rem - flen0 c := by simp; omega
        obtain ⟨d1, d2⟩ := div_facts (ch.length + r.rem - flen0 c) c.S hS
        generalize hq : (ch.length + r.rem - flen0 c) / c.S = q at *
        have hmul : (q + 1) * c.S = c.S * q + c.S := by rw [Nat.add_mul, Nat.mul_comm]; simp
        refine ⟨?_, ?_, ?_⟩
        · unfold cut
          have hr : List.range (q + 1) = 0 :: (List.range q).map (· + 1) := by
            rw [List.range_succ_eq_map]
          rw [hr, List.map_cons, List.map_map]
          simp only [Nat.add_sub_cancel]
          congr 1
          · simp [hpl]
          · apply List.map_congr_left; intro k _
            rw [frameOf_eq _ _ _ _ _ _ (by omega) (Nat.le_refl _)]
            simp only [Function.comp, takeLast_all' _ _ (Nat.le_of_eq hpl)]
        · simp only [Raw.abs]
          congr 1
          · rw [takeLast_slide _ _ _ _ hpl (Nat.le_refl _), takeLast_all' _ _ (Nat.le_of_eq hpl)]
          · simp [hpl]; omega
        · refine ⟨slide_length _ _ _ hpl, Nat.min_le_left _ _, ?_, ?_⟩
          · show (ch.drop (flen0 c - r.rem)).length + c.L - (q + 1) * c.S ≤ min c.L (c.L + (ch.drop (flen0 c - r.rem)).length)
            rw [hchl, Nat.le_min]; omega
          · show (ch.drop (flen0 c - r.rem)).length + c.L - (q + 1) * c.S ≤ _
            rw [hchl]; simp only [Bool.and_false, Bool.false_eq_true, if_false]; omega

theorem finalize_refines (c : Cfg) (r : Raw α) (hI : Inv c r) :
    (StftRaw.finalize c r).2 = (Stft.finalize c r.abs).2 ∧
    (StftRaw.finalize c r).1.abs = Stft.init ∧
    Inv c (StftRaw.finalize c r).1 := by
  obtain ⟨hlen, hhist, hrem, hremF⟩ := hI
  refine ⟨?_, ?_, ?_⟩
  · have hl : (takeLast r.cells r.hist).length = r.hist := by rw [takeLast_length]; omega
    simp only [StftRaw.finalize, Stft.finalize, Raw.abs, hl]
    simp only [takeLast, hlen]
    rfl
  · simp [StftRaw.finalize, Raw.abs, Stft.init, takeLast]
  · exact ⟨hlen, Nat.zero_le _, Nat.le_refl _, Nat.zero_le _⟩

theorem streamFrom_refines (c : Cfg) (w : WF c) (chunks : List (List α)) :
    ∀ (r : Raw α), Inv c r →
      (StftRaw.streamFrom c r chunks).2 = Stft.streamFrom c r.abs chunks ∧
      (StftRaw.streamFrom c r chunks).1.abs = Stft.init ∧
      Inv c (StftRaw.streamFrom c r chunks).1 := by
  induction chunks with
  | nil =>
    intro r hI
    simp only [StftRaw.streamFrom, Stft.streamFrom]
    exact finalize_refines c r hI
  | cons ch rest ih =>
    intro r hI
    obtain ⟨h1, h2, h3⟩ := chunk_refines c w r ch hI
    obtain ⟨i1, i2, i3⟩ := ih _ h3
    simp only [StftRaw.streamFrom, Stft.streamFrom]
    rw [h1, i1, h2]
    exact ⟨rfl, i2, i3⟩

theorem step_refines (c : Cfg) (w : WF c) (r : Raw α) (op : Op α) (hI : Inv c r) :
    (StftRaw.step c r op).2 = (Stft.step c r.abs op).2 ∧
    (StftRaw.step c r op).1.abs = (Stft.step c r.abs op).1 ∧
    Inv c (StftRaw.step c r op).1 := by
  have hst : r.abs.started = r.started := rfl
  cases op with
  | chunk ch =>
    obtain ⟨h1, h2, h3⟩ := chunk_refines c w r ch hI
    simp only [StftRaw.step, Stft.step]
    exact ⟨by rw [h1], h2, h3⟩
  | finalize =>
    obtain ⟨h1, h2, h3⟩ := finalize_refines c r hI
    simp only [StftRaw.step, Stft.step]
    refine ⟨by rw [h1], ?_, h3⟩
    rw [h2]; simp [Stft.finalize]
  | full x =>
    cases hs : r.started <;> simp [StftRaw.step, Stft.step, hst, hs, hI]
  | fbf x k =>
    cases hs : r.started
    · obtain ⟨h1, h2, h3⟩ := streamFrom_refines c w (splitEvery k x) r hI
      simp only [StftRaw.step, Stft.step, hst, hs, Bool.false_eq_true, if_false]
      exact ⟨by rw [h1], h2, h3⟩
    · simp [StftRaw.step, Stft.step, hst, hs, hI]

theorem run_refines (c : Cfg) (w : WF c) (ops : List (Op α)) :
    ∀ (r : Raw α), Inv c r →
      (StftRaw.run c r ops).2 = (Stft.run c r.abs ops).2 ∧
      (StftRaw.run c r ops).1.abs = (Stft.run c r.abs ops).1 ∧
      Inv c (StftRaw.run c r ops).1 := by
  induction ops with
  | nil => intro r hI; exact ⟨rfl, rfl, hI⟩
  | cons op rest ih =>
    intro r hI
    obtain ⟨h1, h2, h3⟩ := step_refines c w r op hI
    obtain ⟨i1, i2, i3⟩ := ih _ h3
    simp only [StftRaw.run, Stft.run]
    rw [h1, i1, i2, h2]
    exact ⟨rfl, rfl, i3⟩

open PdsVerif.Model.StftRaw (Raw fresh)

/-- an idle computer (not mid-utterance) has no meaningful history, counters at zero, first-frame flag set -/
def Idle (r : Raw α) : Prop := r.started = false → r.hist = 0 ∧ r.rem = 0 ∧ r.first = true

theorem chunk_started (c : Cfg) (r : Raw α) (ch : List α) : (StftRaw.chunk c r ch).1.started = true := by
  cases hf : r.first
  · rw [raw_later c r ch hf]
  · cases hc : c.centered
    · rw [raw_first_causal c r ch hc]
    · by_cases hw : ch.length + r.rem < flen0 c ∨ ch.length + r.rem < c.L / 2 + 1
      · rw [raw_centered_wait c r ch hc hf hw]
      · rw [raw_centered_emit c r ch hc hf (by omega) (by omega)]

theorem streamFrom_idle (c : Cfg) (chunks : List (List α)) :
    ∀ r : Raw α, (StftRaw.streamFrom c r chunks).1.started = false ∧
      (StftRaw.streamFrom c r chunks).1.hist = 0 ∧ (StftRaw.streamFrom c r chunks).1.rem = 0 ∧
      (StftRaw.streamFrom c r chunks).1.first = true := by
  induction chunks with
  | nil => intro r; simp [StftRaw.streamFrom, StftRaw.finalize]
  | cons ch rest ih => intro r; simp only [StftRaw.streamFrom]; exact ih _

theorem step_idle (c : Cfg) (r : Raw α) (op : Op α) (h : Idle r) : Idle (StftRaw.step c r op).1 := by
  cases op with
  | chunk ch => intro hs; simp [StftRaw.step, chunk_started] at hs
  | finalize => intro _; simp [StftRaw.step, StftRaw.finalize]
  | full x => cases hs : r.started <;> simpa [StftRaw.step, hs] using h
  | fbf x k =>
    cases hs : r.started
    · intro _
      obtain ⟨_, h2, h3, h4⟩ := streamFrom_idle c (splitEvery k x) r
      simp [StftRaw.step, hs, h2, h3, h4]
    · simpa [StftRaw.step, hs] using h

theorem run_idle (c : Cfg) (ops : List (Op α)) : ∀ r : Raw α, Idle r → Idle (StftRaw.run c r ops).1 := by
  induction ops with
  | nil => intro r h; exact h
  | cons op rest ih => intro r h; simp only [StftRaw.run]; exact ih _ (step_idle c r op h)

theorem idle_abs (r : Raw α) (h : Idle r) (hs : r.started = false) : r.abs = Stft.init := by
  obtain ⟨h1, h2, h3⟩ := h hs
  simp [Raw.abs, Stft.init, h1, h2, h3, hs, takeLast]

end PdsVerif.StftRawLemmas

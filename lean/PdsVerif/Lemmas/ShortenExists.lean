/-
  C13 — every sample array is the meaning of a well-formed program (one DIFF0 block per channel).
-/
import PdsVerif.Lemmas.ShortenInterp
namespace PdsVerif.Model.Shorten
open PdsVerif.Gen.Shorten

theorem runBlock_const (c : Int) (res hist : List Int) :
    runBlock (fun _ => c) res hist = (res.map (· + c)).reverse ++ hist := by
  induction res generalizing hist with
  | nil => rfl
  | cons r rs ih => simp [runBlock, ih]

/-- header of the witness program: no LPC, no running mean, the whole signal as one block per channel -/
def diff0Hdr (version ftype nchan n : Nat) : Hdr := ⟨version, ftype, nchan, n, 0, 0⟩

/-- the DIFF0 command that reproduces the column `col` of internal sample values -/
def diff0Cmd (h : Hdr) (resn : Nat) (col : List Int) : Cmd := .diff 0 resn (col.map (· - h.meanInit))

def diff0Program (version ftype n resn : Nat) (cols : List (List Int)) : Program :=
  let h := diff0Hdr version ftype cols.length n
  { hdr := h, skip := [], cmds := cols.map (diff0Cmd h resn) }

theorem WFcmds_diff0 (h : Hdr) (resn n : Nat) (cols : List (List Int)) (hc : ∀ col ∈ cols, col.length = n) :
    ∀ chan, WFcmds h n chan (cols.map (diff0Cmd h resn)) := by
  induction cols with
  | nil => intro chan; trivial
  | cons col rest ih =>
    intro chan
    refine ⟨by simp [hc col (by simp)], ih (fun c hm => hc c (by simp [hm])) _⟩

theorem diff0_wf (version ftype n resn : Nat) (cols : List (List Int)) (hv1 : 1 ≤ version) (hv2 : version ≤ 2)
    (hft : ftype < FTYPE_LIMIT) (hne : cols ≠ []) (hn : 1 ≤ n) (hc : ∀ col ∈ cols, col.length = n) :
    WF (diff0Program version ftype n resn cols) := by
  refine ⟨hv1, hv2, hft, ?_, hn, WFcmds_diff0 _ resn n cols hc 0⟩
  cases cols with
  | nil => exact absurd rfl hne
  | cons c cs => simp [diff0Program, diff0Hdr]

/-- the state of the specification after the first `pre.length` channels of the only frame -/
structure Mid (h : Hdr) (convert : Bool) (n : Nat) (pre : List (List Int)) (ss : SSt) : Prop where
  bs : ss.bs = n
  shift : ss.shift = 0
  chan : ss.chan = pre.length
  len : ss.chans.length = h.nchan
  fresh : ∀ j, pre.length ≤ j → ss.chans.getD j default = ⟨[], []⟩
  frame : ss.frame = pre.map (fun col => col.map (fixSample h.ftype 0))
  out : ss.out = []

theorem semCmd_diff0 (h : Hdr) (convert : Bool) (n resn : Nat) (pre : List (List Int)) (ss : SSt)
    (col : List Int) (hm : Mid h convert n pre ss) (hnm : h.nmean = 0) (hcl : col.length = n) :
    let ss' := semCmd h convert ss (diff0Cmd h resn col)
    (pre.length + 1 = h.nchan →
      ss'.out = (interleave n ((pre ++ [col]).map (fun col => col.map (fixSample h.ftype 0)))).map
        (toPcm convert h.ftype)) ∧
    (pre.length + 1 ≠ h.nchan → Mid h convert n (pre ++ [col]) ss') := by
  intro ss'
  have hsc : ss.chans.getD ss.chan default = ⟨[], []⟩ := hm.fresh _ (by rw [hm.chan]; exact Nat.le_refl _)
  have hh : semHist h ss (diff0Cmd h resn col) = col.reverse := by
    have hp : predDiff 0 h.meanInit = fun _ => h.meanInit := by funext a; rfl
    simp only [diff0Cmd, semHist, hsc, semCoffset, hnm, ne_eq, not_true_eq_false, if_false]
    rw [hp, runBlock_const]
    simp [List.map_map, Function.comp_def]
  have hblk : ((col.reverse).take n).reverse = col := by
    rw [List.take_of_length_le (by simp [hcl])]; simp
  have hss' : ss' = semFinish h convert ss col.reverse := by
    show semCmd h convert ss (diff0Cmd h resn col) = _
    simp only [diff0Cmd, semCmd]
    rw [← hh]; rfl
  refine ⟨?_, ?_⟩
  · intro hlast
    rw [hss']
    unfold semFinish
    simp only [hm.bs, hblk, hm.chan, hlast, if_true, hm.out, List.nil_append, hm.frame, hm.shift]
    simp
  · intro hnl
    rw [hss']
    unfold semFinish
    simp only [hm.bs, hblk, hm.chan, hnl, if_false, hm.shift]
    refine ⟨rfl, rfl, by simp, by simp [hm.len], ?_, by simp [hm.frame], hm.out⟩
    intro j hj
    simp only [List.length_append, List.length_cons, List.length_nil] at hj
    show (ss.chans.set pre.length _).getD j default = _
    rw [getD_set]
    have : ¬ (pre.length = j ∧ pre.length < ss.chans.length) := by omega
    simp only [this, if_false]
    exact hm.fresh j (by omega)

theorem sem_diff0_aux (h : Hdr) (convert : Bool) (n resn : Nat) (hnm : h.nmean = 0) :
    ∀ (post pre : List (List Int)) (ss : SSt), Mid h convert n pre ss → post ≠ [] →
      pre.length + post.length = h.nchan → (∀ col ∈ post, col.length = n) →
      ((post.map (diff0Cmd h resn)).foldl (semCmd h convert) ss).out
        = (interleave n ((pre ++ post).map (fun col => col.map (fixSample h.ftype 0)))).map
            (toPcm convert h.ftype) := by
  intro post
  induction post with
  | nil => intro pre ss _ hne; exact absurd rfl hne
  | cons col rest ih =>
    intro pre ss hm _ hlen hcl
    have hstep := semCmd_diff0 h convert n resn pre ss col hm hnm (hcl col (by simp))
    simp only [List.map_cons, List.foldl_cons]
    cases rest with
    | nil =>
      simp only [List.map_nil, List.foldl_nil]
      exact hstep.1 (by simpa using hlen)
    | cons col2 rest2 =>
      have hnl : pre.length + 1 ≠ h.nchan := by simp at hlen; omega
      have := ih (pre ++ [col]) _ (hstep.2 hnl) (by simp) (by simp at hlen ⊢; omega)
        (fun c hc => hcl c (by simp [hc]))
      simpa using this

/-- the meaning of the witness program: the columns, fixed up and interleaved -/
theorem sem_diff0 (version ftype n resn : Nat) (convert : Bool) (cols : List (List Int)) (hne : cols ≠ [])
    (hc : ∀ col ∈ cols, col.length = n) :
    sem convert (diff0Program version ftype n resn cols)
      = (interleave n (cols.map (fun col => col.map (fixSample ftype 0)))).map (toPcm convert ftype) := by
  have h0 : Mid (diff0Hdr version ftype cols.length n) convert n []
      (initS (diff0Hdr version ftype cols.length n)) :=
    ⟨rfl, rfl, rfl, by simp [initS], by
      intro j _
      simp only [initS, List.getD_eq_getElem?_getD, List.getElem?_replicate]
      split <;> rfl, rfl, rfl⟩
  have := sem_diff0_aux (diff0Hdr version ftype cols.length n) convert n resn rfl cols [] _ h0 hne
    (by simp [diff0Hdr]) hc
  simpa [sem, diff0Program, diff0Hdr] using this

end PdsVerif.Model.Shorten

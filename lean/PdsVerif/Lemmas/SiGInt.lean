/- the Gaussian integers of `Model/Si.lean` (the ring the C03 driver computes in) form a commutative ring -/
import Mathlib.Tactic
import Mathlib.Algebra.Ring.MinimalAxioms
import PdsVerif.Model.Si
namespace PdsVerif.SiGInt
open PdsVerif.Model.Si

theorem gint_ext {a b : GInt} (h1 : a.re = b.re) (h2 : a.im = b.im) : a = b := by
  cases a; cases b; simp_all

theorem GInt.add_def (a b : GInt) : a + b = ⟨a.re + b.re, a.im + b.im⟩ := rfl
theorem GInt.mul_def (a b : GInt) : a * b = ⟨a.re * b.re - a.im * b.im, a.re * b.im + a.im * b.re⟩ := rfl
theorem GInt.neg_def (a : GInt) : -a = ⟨-a.re, -a.im⟩ := rfl
theorem GInt.zero_def : (0 : GInt) = ⟨0, 0⟩ := rfl
theorem GInt.one_def : (1 : GInt) = ⟨1, 0⟩ := rfl

instance instCommRingGInt : CommRing GInt :=
  CommRing.ofMinimalAxioms
    (by intro a b c; apply gint_ext <;> simp only [GInt.add_def] <;> ring)
    (by intro a; apply gint_ext <;> simp [GInt.add_def, GInt.zero_def])
    (by intro a; apply gint_ext <;> simp [GInt.add_def, GInt.neg_def, GInt.zero_def])
    (by intro a b c; apply gint_ext <;> simp only [GInt.mul_def] <;> ring)
    (by intro a b; apply gint_ext <;> simp only [GInt.mul_def] <;> ring)
    (by intro a; apply gint_ext <;> simp [GInt.mul_def, GInt.one_def])
    (by intro a b c; apply gint_ext <;> simp only [GInt.mul_def, GInt.add_def] <;> ring)


end PdsVerif.SiGInt

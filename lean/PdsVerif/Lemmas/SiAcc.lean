/-
  The block accumulators of the short-integration computer (`_y_buf`, `_fill_y_buf`, `_compute_frame`).
  Canonical content: after `yRem` filtered samples `v(base), v(base+1), …` have been accumulated,
  block `b` holds the window-weighted sums of the first `cl S yRem b` samples of
  `[base + b·S, base + (b+1)·S)` — whatever the split of the stream into `_fill_y_buf` calls was.
-/
import PdsVerif.Lemmas.SiBasic
set_option linter.unusedSectionVars false
set_option linter.unusedVariables false
namespace PdsVerif.SiAcc
open PdsVerif.Model.Si PdsVerif.Seg PdsVerif.SiBasic

variable {α : Type} [CommRing α]

/-- fold of in-place updates at the consecutive indices `off, off+1, …, off+n-1` -/
theorem foldl_modify_range {β : Type} (upd : Nat → β → β) (off : Nat) (d : β) :
    ∀ (n : Nat) (acc : List β), off + n ≤ acc.length →
      ((List.range n).foldl (fun (r : List β × Bool) t =>
          (r.1.modify (off + t) (upd t), r.2 && decide (off + t < r.1.length))) (acc, true)).2 = true ∧
      ((List.range n).foldl (fun (r : List β × Bool) t =>
          (r.1.modify (off + t) (upd t), r.2 && decide (off + t < r.1.length))) (acc, true)).1.length
        = acc.length ∧
      ∀ b, b < acc.length →
        ((List.range n).foldl (fun (r : List β × Bool) t =>
          (r.1.modify (off + t) (upd t), r.2 && decide (off + t < r.1.length))) (acc, true)).1.getD b d
        = if off ≤ b ∧ b < off + n then upd (b - off) (acc.getD b d) else acc.getD b d := by
  intro n
  induction n with
  | zero =>
    intro acc _
    refine ⟨rfl, rfl, ?_⟩
    intro b hb
    simp
  | succ n ih =>
    intro acc hle
    obtain ⟨h1, h2, h3⟩ := ih acc (by omega)
    rw [List.range_succ, List.foldl_append]
    generalize (List.range n).foldl (fun (r : List β × Bool) t =>
          (r.1.modify (off + t) (upd t), r.2 && decide (off + t < r.1.length))) (acc, true) = r at *
    simp only [List.foldl_cons, List.foldl_nil]
    refine ⟨?_, ?_, ?_⟩
    · simp [h1, h2]; omega
    · simp [List.length_modify, h2]
    · intro b hb
      have hb' : b < r.1.length := by omega
      rw [List.getD_eq_getElem?_getD, List.getElem?_modify]
      have e : r.1[b]? = some (r.1.getD b d) := by
        simp [List.getD_eq_getElem?_getD, hb']
      rw [e]
      simp only [Option.map_eq_map, Option.map_some, Option.getD_some]
      rw [h3 b hb]
      by_cases hbn : off + n = b
      · subst hbn
        simp
      · simp only [hbn, if_false]
        by_cases hlo : off ≤ b ∧ b < off + n
        · have : off ≤ b ∧ b < off + (n + 1) := by omega
          simp [hlo, this]
        · have : ¬ (off ≤ b ∧ b < off + (n + 1)) := by omega
          simp [hlo, this]

/-- number of already accumulated samples of block `b` -/
def cl (S yRem b : Nat) : Nat := min S (yRem - b * S)

/-- canonical content of block `b` (both window halves) -/
def blk (S : Nat) (w0 w1 : List α) (v : Int → α) (base : Int) (yRem b : Nat) : α × α :=
  (dot (seg v (base + (b * S : Nat)) (cl S yRem b)) (w0.take (cl S yRem b)),
   dot (seg v (base + (b * S : Nat)) (cl S yRem b)) (w1.take (cl S yRem b)))

/-- canonical accumulator array of one filter -/
def canonAcc (S nB : Nat) (w0 w1 : List α) (v : Int → α) (base : Int) (yRem : Nat) : List (α × α) :=
  (List.range nB).map (blk S w0 w1 v base yRem)

theorem canonAcc_length (S nB : Nat) (w0 w1 : List α) (v : Int → α) (base : Int) (yRem : Nat) :
    (canonAcc S nB w0 w1 v base yRem).length = nB := by simp [canonAcc]

theorem canonAcc_getD (S nB : Nat) (w0 w1 : List α) (v : Int → α) (base : Int) (yRem b : Nat)
    (hb : b < nB) : (canonAcc S nB w0 w1 v base yRem).getD b (0, 0) = blk S w0 w1 v base yRem b := by
  simp [canonAcc, List.getD_eq_getElem?_getD, hb]

theorem canonAcc_zero (S nB : Nat) (w0 w1 : List α) (v : Int → α) (base : Int) :
    canonAcc S nB w0 w1 v base 0 = List.replicate nB ((0 : α), (0 : α)) := by
  apply List.ext_getElem (by simp [canonAcc])
  intro i h1 h2
  simp [canonAcc, blk, cl, seg_zero, dot_nil_left]

/-- adding the next piece of a block: the dot products glue -/
theorem blk_glue (S : Nat) (w : List α) (v : Int → α) (p : Int) (lb lb' : Nat) (h : lb ≤ lb')
    (hw : lb' ≤ w.length) :
    dot (seg v p lb) (w.take lb) + dot (seg v (p + lb) (lb' - lb)) (slice w lb lb')
      = dot (seg v p lb') (w.take lb') := by
  rw [take_eq_append_slice w lb lb' h]
  have e : seg v p lb' = seg v p lb ++ seg v (p + lb) (lb' - lb) := by
    rw [seg_append]; congr 1; omega
  rw [e, dot_append]
  simp; omega


/-- one block of `_fill_y_buf`, in linear arithmetic: `qS = (yRem / S)·S`, `tS = t·S` -/
theorem blk_step1 (S : Nat) (hS : 0 < S) (w : List α) (hw : w.length = S) (v : Int → α) (base : Int)
    (yRem yKeep qS tS : Nat) (hq1 : qS ≤ yRem) (hq2 : yRem < qS + S)
    (ht : tS = 0 ∨ (S ≤ tS ∧ tS < yKeep + (yRem - qS))) :
    dot (seg v (base + ((qS + tS : Nat) : Int)) (min S (yRem - (qS + tS)))) (w.take (min S (yRem - (qS + tS))))
      + dot (slice (seg v (base + (yRem : Int)) yKeep) (qS + S - yRem + tS - S) (qS + S - yRem + tS))
          (slice w (S - (qS + S - yRem + tS)) (S + min (qS + S - yRem + tS) yKeep - (qS + S - yRem + tS)))
      = dot (seg v (base + ((qS + tS : Nat) : Int)) (min S (yRem + yKeep - (qS + tS))))
          (w.take (min S (yRem + yKeep - (qS + tS)))) := by
  have hA : slice (seg v (base + (yRem : Int)) yKeep) (qS + S - yRem + tS - S) (qS + S - yRem + tS)
      = seg v (base + ((qS + tS : Nat) : Int) + ((min S (yRem - (qS + tS)) : Nat) : Int))
          (min S (yRem + yKeep - (qS + tS)) - min S (yRem - (qS + tS))) := by
    rw [slice_seg]
    congr 1 <;> omega
  have hB1 : S - (qS + S - yRem + tS) = min S (yRem - (qS + tS)) := by omega
  have hB2 : S + min (qS + S - yRem + tS) yKeep - (qS + S - yRem + tS)
      = min S (yRem + yKeep - (qS + tS)) := by omega
  rw [hA, hB1, hB2]
  exact blk_glue S w v _ _ _ (by omega) (by omega)

/-- **accumulation step.**  Feeding the next `yKeep` filtered samples through `_fill_y_buf` moves the
canonical accumulators from `yRem` to `yRem + yKeep` samples, for every `yKeep` (any split of the
stream), and stays inside `_y_buf`. -/
theorem fillOne_spec (S nB : Nat) (hS : 0 < S) (w0 w1 : List α) (hw0 : w0.length = S)
    (hw1 : w1.length = S) (v : Int → α) (base : Int) (yRem yKeep : Nat)
    (hfit : yRem + yKeep ≤ nB * S) :
    fillOne S w0 w1 yRem yKeep (seg v (base + (yRem : Int)) yKeep) (canonAcc S nB w0 w1 v base yRem)
      = (canonAcc S nB w0 w1 v base (yRem + yKeep), true) := by
  obtain ⟨d1, d2⟩ : S * (yRem / S) ≤ yRem ∧ yRem < S * (yRem / S) + S := by
    constructor
    · exact Nat.mul_div_le yRem S
    · have := Nat.div_add_mod yRem S; have := Nat.mod_lt yRem hS; omega
  unfold fillOne
  generalize hq : yRem / S = q at *
  have e1 : (q + 1) * S = q * S + S := Nat.succ_mul q S
  have e2 : S * q = q * S := Nat.mul_comm S q
  simp only [e1]
  rw [e2] at d1 d2
  generalize hn : (yKeep + S - (q * S + S - yRem) + S - 1) / S = n
  obtain ⟨n1, n2⟩ : S * n ≤ yKeep + S - (q * S + S - yRem) + S - 1 ∧
      yKeep + S - (q * S + S - yRem) + S - 1 < S * n + S := by
    rw [← hn]
    constructor
    · exact Nat.mul_div_le _ S
    · have := Nat.div_add_mod (yKeep + S - (q * S + S - yRem) + S - 1) S
      have := Nat.mod_lt (yKeep + S - (q * S + S - yRem) + S - 1) hS; omega
  have e3 : S * n = n * S := Nat.mul_comm S n
  rw [e3] at n1 n2
  -- the touched blocks lie inside the array
  have hqn : q + n ≤ nB := by
    by_contra hc
    have h1 : (nB + 1) * S ≤ (q + n) * S := Nat.mul_le_mul_right S (by omega)
    rw [Nat.add_mul, Nat.add_mul] at h1
    omega
  have key := foldl_modify_range (β := α × α)
    (fun t p => (p.1 + dot (slice (seg v (base + (yRem : Int)) yKeep) (q * S + S - yRem + t * S - S) (q * S + S - yRem + t * S))
                    (slice w0 (S - (q * S + S - yRem + t * S)) (S + min (q * S + S - yRem + t * S) yKeep - (q * S + S - yRem + t * S))),
                 p.2 + dot (slice (seg v (base + (yRem : Int)) yKeep) (q * S + S - yRem + t * S - S) (q * S + S - yRem + t * S))
                    (slice w1 (S - (q * S + S - yRem + t * S)) (S + min (q * S + S - yRem + t * S) yKeep - (q * S + S - yRem + t * S)))))
    q (0, 0) n (canonAcc S nB w0 w1 v base yRem) (by rw [canonAcc_length]; exact hqn)
  obtain ⟨k1, k2, k3⟩ := key
  refine Prod.ext ?_ k1
  apply List.ext_getElem
  · rw [k2, canonAcc_length, canonAcc_length]
  · intro b hb1 hb2
    rw [canonAcc_length] at hb2
    have hb1' : b < (canonAcc S nB w0 w1 v base yRem).length := by rw [canonAcc_length]; exact hb2
    have g1 := k3 b hb1'
    rw [List.getD_eq_getElem?_getD, List.getElem?_eq_getElem hb1, Option.getD_some] at g1
    rw [g1, canonAcc_getD _ _ _ _ _ _ _ _ hb2]
    have g2 : (canonAcc S nB w0 w1 v base (yRem + yKeep))[b]'(by rw [canonAcc_length]; exact hb2)
        = blk S w0 w1 v base (yRem + yKeep) b := by simp [canonAcc]
    rw [g2]
    by_cases hmid : q ≤ b ∧ b < q + n
    · rw [if_pos hmid]
      obtain ⟨t, rfl⟩ : ∃ t, b = q + t := ⟨b - q, by omega⟩
      have ht : t < n := by omega
      have e4 : (q + t) * S = q * S + t * S := Nat.add_mul q t S
      have e5 : q + t - q = t := by omega
      have hts : t * S = 0 ∨ (S ≤ t * S ∧ t * S < yKeep + (yRem - q * S)) := by
        rcases Nat.eq_zero_or_pos t with h0 | h0
        · left; simp [h0]
        · right
          have h1 : 1 * S ≤ t * S := Nat.mul_le_mul_right S h0
          have h2 : (t + 1) * S ≤ n * S := Nat.mul_le_mul_right S ht
          rw [Nat.add_mul] at h2
          omega
      simp only [blk, cl, e4, e5]
      have s0 := blk_step1 S hS w0 hw0 v base yRem yKeep (q * S) (t * S) d1 d2 hts
      have s1 := blk_step1 S hS w1 hw1 v base yRem yKeep (q * S) (t * S) d1 d2 hts
      rw [s0, s1]
    · rw [if_neg hmid]
      simp only [blk, cl]
      by_cases hlo : b < q
      · have h1 : (b + 1) * S ≤ q * S := Nat.mul_le_mul_right S hlo
        rw [Nat.add_mul] at h1
        have : min S (yRem - b * S) = min S (yRem + yKeep - b * S) := by omega
        rw [this]
      · have h1 : (q + n) * S ≤ b * S := Nat.mul_le_mul_right S (by omega)
        rw [Nat.add_mul] at h1
        have : min S (yRem - b * S) = min S (yRem + yKeep - b * S) := by omega
        rw [this]


/-! ### `_compute_frame` and the block shift on canonical accumulators -/

theorem shift_canonAcc (S nB : Nat) (hnB : 0 < nB) (w0 w1 : List α) (v : Int → α) (E yRem : Nat)
    (hle : yRem ≤ nB * S) :
    (canonAcc S nB w0 w1 v ((E * S : Nat) : Int) yRem).drop 1 ++ [((0 : α), (0 : α))]
      = canonAcc S nB w0 w1 v (((E + 1) * S : Nat) : Int) (yRem - S) := by
  apply List.ext_getElem
  · simp [canonAcc_length]; omega
  · intro b h1 h2
    rw [canonAcc_length] at h2
    have e1 : (E + 1) * S = E * S + S := Nat.succ_mul E S
    by_cases hb : b < nB - 1
    · rw [List.getElem_append_left (by simp [canonAcc_length]; omega), List.getElem_drop]
      simp only [canonAcc, List.getElem_map, List.getElem_range, blk, cl]
      have e2 : (1 + b) * S = S + b * S := by rw [Nat.add_mul, Nat.one_mul]
      have e3 : min S (yRem - (S + b * S)) = min S (yRem - S - b * S) := by omega
      have e4 : (((E * S : Nat) : Int) + ((S + b * S : Nat) : Int))
          = (((E * S + S : Nat) : Int) + ((b * S : Nat) : Int)) := by push_cast; ring
      rw [e2, e3, e1, e4]
    · have hbe : b = nB - 1 := by omega
      rw [List.getElem_append_right (by simp [canonAcc_length]; omega)]
      simp only [canonAcc, List.getElem_map, List.getElem_range, blk, cl, List.getElem_singleton]
      have h3 : (nB - 1 + 1) * S = nB * S := by congr 1; omega
      rw [Nat.add_mul, Nat.one_mul] at h3
      have e3 : min S (yRem - S - b * S) = 0 := by subst hbe; omega
      rw [e3]
      simp [seg_zero, dot_nil_left]

/-- the coefficient `_compute_frame` reads off the canonical accumulators (before `post`) -/
theorem frame_canonAcc (S nB : Nat) (hnB : 2 ≤ nB) (w0 w1 : List α) (v : Int → α) (base : Int)
    (yRem : Nat) (h2S : 2 * S ≤ yRem) :
    ((canonAcc S nB w0 w1 v base yRem).getD 0 (0, 0)).1 + ((canonAcc S nB w0 w1 v base yRem).getD 1 (0, 0)).2
      = dot (seg v base S) (w0.take S) + dot (seg v (base + S) S) (w1.take S) := by
  rw [canonAcc_getD _ _ _ _ _ _ _ _ (by omega), canonAcc_getD _ _ _ _ _ _ _ _ (by omega)]
  simp only [blk, cl]
  have e0 : min S (yRem - 0 * S) = S := by omega
  have e1 : min S (yRem - 1 * S) = S := by omega
  rw [e0, e1]
  simp

/-! ### all filters at once -/

/-- filtered, rectified stream of the filter `h`: `phi (y_h[q])` -/
def vOf (c : Cfg) (B : Bank α) (X : Int → α) (h : List α) (q : Int) : α := B.phi (linY c X h q)

/-- canonical `_y_buf`: `E` frames emitted, `yRem` filtered samples accumulated since -/
def canonY (c : Cfg) (B : Bank α) (X : Int → α) (E yRem : Nat) : List (List (α × α)) :=
  B.filts.map fun h => canonAcc c.S (yBlocks c) (B.window.take c.S) (B.window.drop c.S)
    (vOf c B X h) ((E * c.S : Nat) : Int) yRem

/-- frame `k` as the accumulators deliver it -/
def mFrame (c : Cfg) (B : Bank α) (X : Int → α) (k : Nat) : List α :=
  B.filts.map fun h => B.post
    (dot (seg (vOf c B X h) ((k * c.S : Nat) : Int) c.S) ((B.window.take c.S).take c.S)
      + dot (seg (vOf c B X h) (((k * c.S : Nat) : Int) + c.S) c.S) ((B.window.drop c.S).take c.S))

theorem canonY_zero (c : Cfg) (B : Bank α) (X : Int → α) (E : Nat) :
    canonY c B X E 0 = B.filts.map fun _ => List.replicate (yBlocks c) ((0 : α), (0 : α)) := by
  unfold canonY
  apply List.map_congr_left
  intro h _
  rw [canonAcc_zero]

theorem fillYBuf_spec (c : Cfg) (B : Bank α) (X : Int → α) (hS : 0 < c.S)
    (hw : B.window.length = 2 * c.S) (cur : List α) (E yRem yKeep : Nat)
    (hfit : yRem + yKeep ≤ yBlocks c * c.S)
    (hy : ∀ h ∈ B.filts, (lastK (circConv c.D cur h) yKeep).map B.phi
        = seg (vOf c B X h) (((E * c.S : Nat) : Int) + (yRem : Int)) yKeep) :
    fillYBuf c B cur yKeep yRem (canonY c B X E yRem) = (canonY c B X E (yRem + yKeep), true) := by
  unfold fillYBuf canonY
  simp only [List.zipWith_map_right, List.zipWith_self, List.map_map]
  have hw0 : (B.window.take c.S).length = c.S := by simp; omega
  have hw1 : (B.window.drop c.S).length = c.S := by simp; omega
  refine Prod.ext ?_ ?_
  · apply List.map_congr_left
    intro h hh
    simp only [Function.comp]
    rw [hy h hh, fillOne_spec c.S (yBlocks c) hS _ _ hw0 hw1 _ _ _ _ hfit]
  · simp only [List.all_map, List.all_eq_true]
    intro h hh
    simp only [Function.comp]
    rw [hy h hh, fillOne_spec c.S (yBlocks c) hS _ _ hw0 hw1 _ _ _ _ hfit]

theorem yBlocks_ge (c : Cfg) (hS : 0 < c.S) : 2 ≤ yBlocks c ∧ c.D - c.M + 2 * c.S ≤ yBlocks c * c.S := by
  unfold yBlocks
  generalize hn : (c.D - c.M + 2 * c.S + c.S - 1) / c.S = n
  have h1 : c.D - c.M + 2 * c.S + c.S - 1 < c.S * n + c.S := by
    rw [← hn]
    have := Nat.div_add_mod (c.D - c.M + 2 * c.S + c.S - 1) c.S
    have := Nat.mod_lt (c.D - c.M + 2 * c.S + c.S - 1) hS; omega
  have e : c.S * n = n * c.S := Nat.mul_comm _ _
  rw [e] at h1
  refine ⟨?_, by omega⟩
  by_contra hc
  have : n * c.S ≤ 1 * c.S := Nat.mul_le_mul_right c.S (by omega)
  omega

theorem computeFrame_canonY (c : Cfg) (B : Bank α) (X : Int → α) (hS : 0 < c.S) (E yRem : Nat)
    (h2S : 2 * c.S ≤ yRem) : computeFrame B (canonY c B X E yRem) = mFrame c B X E := by
  unfold computeFrame canonY mFrame
  rw [List.map_map]
  apply List.map_congr_left
  intro h _
  simp only [Function.comp]
  rw [frame_canonAcc c.S (yBlocks c) (yBlocks_ge c hS).1 _ _ _ _ _ h2S]

theorem shiftBlocks_canonY (c : Cfg) (B : Bank α) (X : Int → α) (hS : 0 < c.S) (E yRem : Nat)
    (hle : yRem ≤ yBlocks c * c.S) :
    shiftBlocks (canonY c B X E yRem) = canonY c B X (E + 1) (yRem - c.S) := by
  unfold shiftBlocks canonY
  rw [List.map_map]
  apply List.map_congr_left
  intro h _
  simp only [Function.comp]
  exact shift_canonAcc c.S (yBlocks c) (by have := (yBlocks_ge c hS).1; omega) _ _ _ E yRem hle

/-- **the frame loop.**  From canonical accumulators it emits the frames `E, E+1, …` until fewer than
`2·S` filtered samples remain, and leaves canonical accumulators. -/
theorem frameLoop_spec (c : Cfg) (B : Bank α) (X : Int → α) (hS : 0 < c.S) :
    ∀ (fuel E yRem : Nat) (frames : List (List α)), yRem ≤ fuel → yRem ≤ yBlocks c * c.S →
      frameLoop c B fuel (canonY c B X E yRem) yRem frames
        = (canonY c B X (E + (yRem / c.S - 1)) (yRem - (yRem / c.S - 1) * c.S),
           yRem - (yRem / c.S - 1) * c.S,
           frames ++ (List.range' E (yRem / c.S - 1)).map (mFrame c B X)) := by
  intro fuel
  induction fuel with
  | zero =>
    intro E yRem frames h0 _
    have : yRem = 0 := by omega
    subst this
    simp [frameLoop]
  | succ fuel ih =>
    intro E yRem frames hf hle
    obtain ⟨d1, d2⟩ : c.S * (yRem / c.S) ≤ yRem ∧ yRem < c.S * (yRem / c.S) + c.S := by
      constructor
      · exact Nat.mul_div_le yRem c.S
      · have := Nat.div_add_mod yRem c.S; have := Nat.mod_lt yRem hS; omega
    unfold frameLoop
    by_cases h2 : yRem ≥ 2 * c.S
    · rw [if_pos h2, shiftBlocks_canonY c B X hS E yRem hle, computeFrame_canonY c B X hS E yRem h2]
      rw [ih (E + 1) (yRem - c.S) _ (by omega) (by omega)]
      have hq : (yRem - c.S) / c.S = yRem / c.S - 1 := by
        have := Nat.sub_mul_div yRem c.S 1
        simpa using this
      have hq2 : 2 ≤ yRem / c.S := by
        by_contra hc
        have : c.S * (yRem / c.S) ≤ c.S * 1 := Nat.mul_le_mul_left c.S (by omega)
        omega
      rw [hq]
      generalize yRem / c.S = q at *
      obtain ⟨q', rfl⟩ : ∃ q', q = q' + 2 := ⟨q - 2, by omega⟩
      have a1 : q' + 2 - 1 = q' + 1 := by omega
      have a2 : q' + 1 - 1 = q' := by omega
      have a3 : (q' + 1) * c.S = q' * c.S + c.S := Nat.succ_mul q' c.S
      rw [a1, a2, a3, List.range'_succ]
      have a4 : E + 1 + q' = E + (q' + 1) := by omega
      have a5 : yRem - c.S - q' * c.S = yRem - (q' * c.S + c.S) := by omega
      rw [a4, a5]
      simp
    · rw [if_neg h2]
      have hq : yRem / c.S - 1 = 0 := by
        by_contra hc
        have : c.S * 2 ≤ c.S * (yRem / c.S) := Nat.mul_le_mul_left c.S (by omega)
        omega
      rw [hq]
      simp


/-! ### any split of the filtered stream into `_fill_y_buf` calls -/

/-- feed the stream `v 0, v 1, …` through `_fill_y_buf` in pieces of the given lengths -/
def feedAll (S : Nat) (w0 w1 : List α) (v : Int → α) :
    List Nat → Nat → List (α × α) → List (α × α) × Bool
  | [], _, acc => (acc, true)
  | k :: ks, yRem, acc =>
    let r := fillOne S w0 w1 yRem k (seg v (yRem : Int) k) acc
    let r' := feedAll S w0 w1 v ks (yRem + k) r.1
    (r'.1, r.2 && r'.2)

theorem feedAll_spec (S nB : Nat) (hS : 0 < S) (w0 w1 : List α) (hw0 : w0.length = S)
    (hw1 : w1.length = S) (v : Int → α) :
    ∀ (ks : List Nat) (yRem : Nat), yRem + ks.sum ≤ nB * S →
      feedAll S w0 w1 v ks yRem (canonAcc S nB w0 w1 v 0 yRem)
        = (canonAcc S nB w0 w1 v 0 (yRem + ks.sum), true) := by
  intro ks
  induction ks with
  | nil => intro yRem _; simp [feedAll]
  | cons k ks ih =>
    intro yRem h
    simp only [List.sum_cons] at h
    unfold feedAll
    have := fillOne_spec S nB hS w0 w1 hw0 hw1 v 0 yRem k (by omega)
    rw [Int.zero_add] at this
    simp only [this]
    rw [ih (yRem + k) (by omega)]
    simp [Nat.add_assoc]

end PdsVerif.SiAcc

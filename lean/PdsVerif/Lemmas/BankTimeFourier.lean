/-
  C07 (stretch) — the inverse Fourier integral of a triangle, in closed form.
  `∫_l^r tri(ω) e^{iωt} dω = ((r-l)e^{imt} - (r-m)e^{ilt} - (m-l)e^{irt}) / ((m-l)(r-m)t²)` for `t ≠ 0`.
-/
import Mathlib.MeasureTheory.Integral.IntervalIntegral.FundThmCalculus
import Mathlib.Analysis.SpecialFunctions.ExpDeriv
import Mathlib.Analysis.SpecialFunctions.Trigonometric.Basic
import Mathlib.Tactic

namespace PdsVerif.BankTimeFourier
open Complex intervalIntegral

/-- the triangle with vertices `l < m < r` and peak 1 at `m` (angular frequency) -/
noncomputable def triangle (l m r ω : ℝ) : ℝ :=
  if ω ≤ m then (ω - l) / (m - l) else (r - ω) / (r - m)

theorem triangle_continuous {l m r : ℝ} (hl : l < m) (hr : m < r) : Continuous (triangle l m r) := by
  unfold triangle
  apply Continuous.if_le (by fun_prop) (by fun_prop) continuous_id continuous_const
  intro x hx
  have h1 : m - l ≠ 0 := by linarith
  have h2 : r - m ≠ 0 := by linarith
  simp only [id] at hx
  rw [hx, div_self h1, div_self h2]

/-- antiderivative of `(a + b ω) e^{iωt}` in `ω` (for `t ≠ 0`) -/
theorem hasDerivAt_lin_exp (a b t : ℝ) (ht : t ≠ 0) (x : ℝ) :
    HasDerivAt (fun ω : ℝ => (((a + b * ω : ℝ) : ℂ) / (I * t) + (b : ℂ) / (t : ℂ) ^ 2) * cexp (I * ω * t))
      (((a + b * x : ℝ) : ℂ) * cexp (I * x * t)) x := by
  have htc : (t : ℂ) ≠ 0 := by exact_mod_cast ht
  have h1 : HasDerivAt (fun z : ℂ => ((a : ℂ) + b * z) / (I * t) + (b : ℂ) / (t : ℂ) ^ 2)
      ((b : ℂ) / (I * t)) (x : ℂ) := by
    have := ((hasDerivAt_id (x : ℂ)).const_mul (b : ℂ)).const_add (a : ℂ)
    simpa using (this.div_const (I * t)).add_const ((b : ℂ) / (t : ℂ) ^ 2)
  have h2 : HasDerivAt (fun z : ℂ => cexp (I * z * t)) (cexp (I * x * t) * (I * t)) (x : ℂ) := by
    have := ((hasDerivAt_id (x : ℂ)).const_mul I).mul_const (t : ℂ)
    simpa using this.cexp
  have h3 := (h1.mul h2).comp_ofReal
  convert h3 using 1
  · funext ω; simp only [Pi.mul_apply]; push_cast; ring
  · push_cast
    have hI : I ≠ 0 := I_ne_zero
    field_simp
    ring_nf
    rw [I_sq]; ring

theorem integral_lin_exp (a b t : ℝ) (ht : t ≠ 0) (p q : ℝ) :
    ∫ ω in p..q, (((a + b * ω : ℝ) : ℂ) * cexp (I * ω * t)) =
      (((a + b * q : ℝ) : ℂ) / (I * t) + (b : ℂ) / (t : ℂ) ^ 2) * cexp (I * q * t) -
      (((a + b * p : ℝ) : ℂ) / (I * t) + (b : ℂ) / (t : ℂ) ^ 2) * cexp (I * p * t) := by
  apply integral_eq_sub_of_hasDerivAt (fun x _ => hasDerivAt_lin_exp a b t ht x)
  apply Continuous.intervalIntegrable
  fun_prop

/-- the Fourier integral of the triangle, `t ≠ 0` -/
theorem integral_triangle_exp {l m r : ℝ} (hl : l < m) (hr : m < r) (t : ℝ) (ht : t ≠ 0) :
    ∫ ω in l..r, ((triangle l m r ω : ℝ) : ℂ) * cexp (I * ω * t) =
      (((r - l : ℝ) : ℂ) * cexp (I * m * t) - ((r - m : ℝ) : ℂ) * cexp (I * l * t)
        - ((m - l : ℝ) : ℂ) * cexp (I * r * t)) / ((((m - l) * (r - m) : ℝ) : ℂ) * (t : ℂ) ^ 2) := by
  have h1 : m - l ≠ 0 := by linarith
  have h2 : r - m ≠ 0 := by linarith
  have htc : (t : ℂ) ≠ 0 := by exact_mod_cast ht
  have hcont : Continuous fun ω : ℝ => ((triangle l m r ω : ℝ) : ℂ) * cexp (I * ω * t) := by
    have := triangle_continuous hl hr
    fun_prop
  rw [← integral_add_adjacent_intervals (hcont.intervalIntegrable l m) (hcont.intervalIntegrable m r)]
  have e1 : ∫ ω in l..m, ((triangle l m r ω : ℝ) : ℂ) * cexp (I * ω * t) =
      ∫ ω in l..m, (((-l / (m - l) + 1 / (m - l) * ω : ℝ) : ℂ) * cexp (I * ω * t)) := by
    apply integral_congr
    intro x hx
    rw [Set.uIcc_of_le hl.le] at hx
    simp only [triangle, if_pos hx.2]
    congr 2; field_simp; ring
  have e2 : ∫ ω in m..r, ((triangle l m r ω : ℝ) : ℂ) * cexp (I * ω * t) =
      ∫ ω in m..r, (((r / (r - m) + -1 / (r - m) * ω : ℝ) : ℂ) * cexp (I * ω * t)) := by
    apply integral_congr
    intro x hx
    rw [Set.uIcc_of_le hr.le] at hx
    simp only [triangle]
    congr 2
    split
    · rename_i hxm
      have : x = m := le_antisymm hxm hx.1
      subst this; field_simp; ring
    · field_simp; ring
  rw [e1, e2, integral_lin_exp _ _ t ht, integral_lin_exp _ _ t ht]
  have hI : I ≠ 0 := I_ne_zero
  have h1c : ((m : ℂ) - l) ≠ 0 := by exact_mod_cast h1
  have h2c : ((r : ℂ) - m) ≠ 0 := by exact_mod_cast h2
  push_cast
  field_simp
  ring_nf

theorem integral_lin (a b p q : ℝ) :
    ∫ ω in p..q, (a + b * ω) = (a * q + b * q ^ 2 / 2) - (a * p + b * p ^ 2 / 2) := by
  apply integral_eq_sub_of_hasDerivAt (f := fun ω : ℝ => a * ω + b * ω ^ 2 / 2)
  · intro x _
    have h2 : HasDerivAt (fun ω : ℝ => ω * ω) (1 * x + x * 1) x := (hasDerivAt_id x).mul (hasDerivAt_id x)
    have := ((hasDerivAt_id x).const_mul a).add ((h2.const_mul b).div_const 2)
    convert this using 1
    · funext ω; simp only [Pi.add_apply, id]; ring
    · ring
  · apply Continuous.intervalIntegrable; fun_prop

/-- the area of the triangle (the `t = 0` value of the Fourier integral) -/
theorem integral_triangle {l m r : ℝ} (hl : l < m) (hr : m < r) :
    ∫ ω in l..r, triangle l m r ω = (r - l) / 2 := by
  have h1 : m - l ≠ 0 := by linarith
  have h2 : r - m ≠ 0 := by linarith
  have hcont := triangle_continuous hl hr
  rw [← integral_add_adjacent_intervals (hcont.intervalIntegrable l m) (hcont.intervalIntegrable m r)]
  have e1 : ∫ ω in l..m, triangle l m r ω = ∫ ω in l..m, (-l / (m - l) + 1 / (m - l) * ω) := by
    apply integral_congr
    intro x hx
    rw [Set.uIcc_of_le hl.le] at hx
    simp only [triangle, if_pos hx.2]
    field_simp; ring
  have e2 : ∫ ω in m..r, triangle l m r ω = ∫ ω in m..r, (r / (r - m) + -1 / (r - m) * ω) := by
    apply integral_congr
    intro x hx
    rw [Set.uIcc_of_le hr.le] at hx
    simp only [triangle]
    split
    · rename_i hxm
      have : x = m := le_antisymm hxm hx.1
      subst this; field_simp; ring
    · field_simp; ring
  rw [e1, e2, integral_lin, integral_lin]
  field_simp
  ring

end PdsVerif.BankTimeFourier

/-
  Basic facts for the short-integration model: dot products of segments, python slices of segments,
  and the overlap-save lemma (the last `D - M + 1` cells of the circular convolution of a `D`-cell
  buffer with an `M`-tap filter are linear-convolution values).
-/
import Mathlib.Tactic
import Mathlib.Algebra.BigOperators.Group.List.Basic
import PdsVerif.Model.Si
import PdsVerif.Lemmas.Seg
set_option linter.unusedSectionVars false
set_option linter.unusedVariables false
namespace PdsVerif.SiBasic
open PdsVerif.Model.Si PdsVerif.Seg

variable {α : Type} [CommRing α]

/-! ### dot -/

theorem dot_nil_left (b : List α) : dot ([] : List α) b = 0 := by simp [dot]

theorem dot_nil_right (a : List α) : dot a ([] : List α) = 0 := by simp [dot]

theorem dot_append (a1 a2 b1 b2 : List α) (h : a1.length = b1.length) :
    dot (a1 ++ a2) (b1 ++ b2) = dot a1 b1 + dot a2 b2 := by
  unfold dot
  rw [List.zipWith_append h, List.sum_append]

theorem dot_eq_sum_range (a b : List α) (n : Nat) (ha : a.length = n) (hb : b.length = n) :
    dot a b = ((List.range n).map fun u => a.getD u 0 * b.getD u 0).sum := by
  unfold dot
  congr 1
  apply List.ext_getElem
  · simp [ha, hb]
  · intro i h1 h2
    simp only [List.length_zipWith, ha, hb, Nat.min_self] at h1
    simp [List.getD_eq_getElem?_getD, ha, hb, h1]

/-! ### slices of segments -/

theorem slice_seg (f : Int → α) (a : Int) (len i j : Nat) :
    slice (seg f a len) i j = seg f (a + i) (min j len - i) := by
  unfold slice
  rw [seg_take, seg_drop]

theorem length_slice (l : List α) (i j : Nat) : (slice l i j).length = min j l.length - i := by
  simp [slice]

theorem take_eq_append_slice (w : List α) (i j : Nat) (h : i ≤ j) :
    w.take j = w.take i ++ slice w i j := by
  unfold slice
  have : w.take i = (w.take j).take i := by rw [List.take_take]; congr 1; omega
  rw [this, List.take_append_drop]

theorem seg_replicate_zero (n : Nat) (f : Int → α) (a : Int)
    (h : ∀ i : Nat, i < n → f (a + i) = 0) : List.replicate n (0 : α) = seg f a n := by
  apply List.ext_getElem (by simp)
  intro i h1 h2
  simp only [List.getElem_replicate, seg_getElem]
  exact (h i (by simpa using h1)).symm

/-! ### linear convolution at a signal position -/

/-- `Σ_{j < |h|} h[j] · X (p - j)` -/
def lin (X : Int → α) (h : List α) (p : Int) : α :=
  ((List.range h.length).map fun j => h.getD j 0 * X (p - j)).sum

theorem linY_eq_lin (c : Cfg) (X : Int → α) (h : List α) (q : Int) :
    linY c X h q = lin X h (q + offs c) := rfl

/-! ### overlap-save -/

theorem circConv_length (D : Nat) (buf h : List α) : (circConv D buf h).length = D := by
  simp [circConv]

theorem circConv_getElem (D : Nat) (buf h : List α) (p : Nat) (hp : p < (circConv D buf h).length) :
    (circConv D buf h)[p] =
      ((List.range h.length).map fun j => h.getD j 0 * buf.getD ((p + D - j) % D) 0).sum := by
  simp [circConv]

/-- **overlap-save, cell form.**  At a cell `p ≥ M - 1` the circular convolution of a `D`-cell buffer
with an `M`-tap filter is the linear convolution `Σ_{j<M} h[j]·b[p-j]`: no index wraps. -/
theorem circConv_valid (D : Nat) (buf h : List α) (p : Nat) (hp : p < D) (hM : h.length ≤ p + 1) :
    (circConv D buf h)[p]'(by simpa [circConv] using hp) =
      ((List.range h.length).map fun j => h.getD j 0 * buf.getD (p - j) 0).sum := by
  rw [circConv_getElem]
  congr 1
  apply List.map_congr_left
  intro j hj
  have hj := List.mem_range.mp hj
  have e : (p + D - j) % D = p - j := by
    have : p + D - j = (p - j) + D := by omega
    rw [this, Nat.add_mod_right, Nat.mod_eq_of_lt (by omega)]
  rw [e]

/-- the same when the buffer is the segment `[a, a + D)` of a stream `X` -/
theorem circConv_seg_valid (D : Nat) (X : Int → α) (a : Int) (h : List α) (p : Nat) (hp : p < D)
    (hM : h.length ≤ p + 1) :
    (circConv D (seg X a D) h)[p]'(by simpa [circConv] using hp) = lin X h (a + p) := by
  rw [circConv_valid D _ h p hp hM]
  unfold lin
  congr 1
  apply List.map_congr_left
  intro j hj
  have hj := List.mem_range.mp hj
  rw [seg_getD X a D (p - j) 0 (by omega)]
  congr 2
  omega

/-- **overlap-save, slice form.**  `idft(...)[-k:]` for `0 < k ≤ D - M + 1` is the stretch of the linear
convolution that ends where the buffer ends. -/
theorem lastK_circConv_seg (D : Nat) (X : Int → α) (a : Int) (h : List α) (k : Nat) (hk : 0 < k)
    (hkD : k ≤ D) (hkV : k + h.length ≤ D + 1) :
    lastK (circConv D (seg X a D) h) k = seg (lin X h) (a + D - k) k := by
  unfold lastK
  rw [if_neg (by omega)]
  apply List.ext_getElem
  · simp [circConv_length]; omega
  · intro i h1 h2
    simp only [seg_length] at h2
    simp only [circConv_length] at h1
    rw [List.getElem_drop, seg_getElem]
    have hp : D - k + i < D := by omega
    have := circConv_seg_valid D X a h (D - k + i) hp (by omega)
    simp only [circConv_length] at this ⊢
    rw [this]
    congr 1
    omega

end PdsVerif.SiBasic

/-
  ∫_ℝ (1+v²)^(-n) dv = π (2n-2)! / (2^(2n-2) ((n-1)!)²)   for every n ≥ 1.

  Used by C05 (`gammatone_erb`): the equivalent rectangular bandwidth of an order-`n` gammatone filter.
  Not in Mathlib (only n = 1, `integral_univ_inv_one_add_sq`).  Proof: the reduction formula
  `2n I(n+1) = (2n-1) I(n)` from the whole-line fundamental theorem of calculus applied to
  `x ↦ x (1+x²)^(-n)`, then induction.
-/
import Mathlib.Analysis.SpecialFunctions.ImproperIntegrals
import Mathlib.MeasureTheory.Integral.IntegralEqImproper
import Mathlib.Tactic

namespace PdsVerif.CauchyPow
open MeasureTheory Real Filter Topology

/-- the integrand -/
noncomputable def g (n : ℕ) (x : ℝ) : ℝ := ((1 + x ^ 2) ^ n)⁻¹

theorem base_pos (x : ℝ) : 0 < 1 + x ^ 2 := by positivity

theorem base_ge_one (x : ℝ) : 1 ≤ 1 + x ^ 2 := by nlinarith [sq_nonneg x]

theorem g_pos (n : ℕ) (x : ℝ) : 0 < g n x := inv_pos.mpr (pow_pos (base_pos x) n)

theorem g_le (n : ℕ) (hn : 1 ≤ n) (x : ℝ) : g n x ≤ (1 + x ^ 2)⁻¹ := by
  unfold g
  apply inv_anti₀ (base_pos x)
  calc 1 + x ^ 2 = (1 + x ^ 2) ^ 1 := (pow_one _).symm
    _ ≤ (1 + x ^ 2) ^ n := pow_le_pow_right₀ (base_ge_one x) hn

theorem g_succ (n : ℕ) (x : ℝ) : g (n + 1) x = g n x * (1 + x ^ 2)⁻¹ := by
  unfold g; rw [pow_succ, mul_inv]

theorem continuous_g (n : ℕ) : Continuous (g n) := by
  unfold g
  exact (Continuous.inv₀ (by fun_prop) fun x => (pow_pos (base_pos x) n).ne')

theorem integrable_g (n : ℕ) (hn : 1 ≤ n) : Integrable (g n) := by
  refine integrable_inv_one_add_sq.mono' (continuous_g n).aestronglyMeasurable (ae_of_all _ fun x => ?_)
  rw [Real.norm_of_nonneg (g_pos n x).le]
  exact g_le n hn x

/-- derivative of `x (1+x²)^(-n)` -/
theorem hasDerivAt_f (n : ℕ) (x : ℝ) :
    HasDerivAt (fun x : ℝ => x * g n x) ((1 - 2 * (n : ℝ)) * g n x + 2 * n * g (n + 1) x) x := by
  have hb : HasDerivAt (fun x : ℝ => 1 + x ^ 2) (2 * x) x := by
    have := ((hasDerivAt_id x).pow 2).const_add (1:ℝ)
    simpa using this
  have hp : HasDerivAt (fun x : ℝ => (1 + x ^ 2) ^ n) ((n : ℝ) * (1 + x ^ 2) ^ (n - 1) * (2 * x)) x :=
    hb.pow n
  have hne : (1 + x ^ 2) ^ n ≠ 0 := (pow_pos (base_pos x) n).ne'
  have hi : HasDerivAt (fun x : ℝ => g n x)
      (-((n : ℝ) * (1 + x ^ 2) ^ (n - 1) * (2 * x)) / ((1 + x ^ 2) ^ n) ^ 2) x := hp.inv hne
  have hm : HasDerivAt (fun x : ℝ => x * g n x)
      (1 * g n x + x * (-((n : ℝ) * (1 + x ^ 2) ^ (n - 1) * (2 * x)) / ((1 + x ^ 2) ^ n) ^ 2)) x :=
    (hasDerivAt_id' x).mul hi
  have hb0 : (1 + x ^ 2) ≠ 0 := (base_pos x).ne'
  refine hm.congr_deriv ?_
  simp only [g]
  rcases n with _ | m
  · simp
  · simp only [Nat.add_sub_cancel, Nat.cast_add, Nat.cast_one]
    field_simp
    ring

theorem tendsto_f_atTop (n : ℕ) (hn : 1 ≤ n) : Tendsto (fun x : ℝ => x * g n x) atTop (𝓝 0) := by
  refine squeeze_zero' (f := fun x : ℝ => x * g n x) (g := fun x : ℝ => x⁻¹) ?_ ?_ tendsto_inv_atTop_zero
  · filter_upwards [eventually_ge_atTop (0:ℝ)] with x hx
    exact mul_nonneg hx (g_pos n x).le
  · filter_upwards [eventually_gt_atTop (0:ℝ)] with x hx
    calc x * g n x ≤ x * (1 + x ^ 2)⁻¹ := mul_le_mul_of_nonneg_left (g_le n hn x) hx.le
      _ ≤ x * (x ^ 2)⁻¹ := by
          apply mul_le_mul_of_nonneg_left _ hx.le
          exact inv_anti₀ (by positivity) (by linarith)
      _ = x⁻¹ := by field_simp

theorem f_neg (n : ℕ) (x : ℝ) : (-x) * g n (-x) = -(x * g n x) := by
  unfold g; rw [neg_sq]; ring

theorem tendsto_f_atBot (n : ℕ) (hn : 1 ≤ n) : Tendsto (fun x : ℝ => x * g n x) atBot (𝓝 0) := by
  have h := (tendsto_f_atTop n hn).comp tendsto_neg_atBot_atTop
  have h2 : Tendsto (fun x : ℝ => -((-x) * g n (-x))) atBot (𝓝 0) := by
    simpa using h.neg
  refine h2.congr fun x => ?_
  rw [f_neg]; ring

/-- **reduction formula** `2n · I(n+1) = (2n-1) · I(n)` -/
theorem recurrence (n : ℕ) (hn : 1 ≤ n) :
    2 * (n : ℝ) * ∫ x, g (n + 1) x = (2 * (n : ℝ) - 1) * ∫ x, g n x := by
  have hint : Integrable fun x : ℝ => (1 - 2 * (n : ℝ)) * g n x + 2 * n * g (n + 1) x :=
    ((integrable_g n hn).const_mul _).add ((integrable_g (n + 1) (by omega)).const_mul _)
  have h := integral_of_hasDerivAt_of_tendsto (hasDerivAt_f n) hint (tendsto_f_atBot n hn) (tendsto_f_atTop n hn)
  rw [integral_add ((integrable_g n hn).const_mul _) ((integrable_g (n + 1) (by omega)).const_mul _),
    integral_const_mul, integral_const_mul] at h
  linarith

/-- closed form, indexed from 0: `I(m+1) = π (2m)! / (4^m (m!)²)` -/
theorem integral_g_succ (m : ℕ) :
    ∫ x, g (m + 1) x = π * ((2 * m).factorial : ℝ) / ((4:ℝ) ^ m * ((m.factorial : ℝ)) ^ 2) := by
  induction m with
  | zero =>
    have : (fun x : ℝ => g 1 x) = fun x : ℝ => (1 + x ^ 2)⁻¹ := by funext x; simp [g]
    rw [this, integral_univ_inv_one_add_sq]; simp
  | succ m ih =>
    have hr := recurrence (m + 1) (by omega)
    rw [ih] at hr
    have h2 : (2 * (m + 1)).factorial = (2 * m + 2) * ((2 * m + 1) * (2 * m).factorial) := by
      rw [show 2 * (m + 1) = (2 * m + 1) + 1 by ring, Nat.factorial_succ, Nat.factorial_succ]
    have h3 : (m + 1).factorial = (m + 1) * m.factorial := Nat.factorial_succ m
    rw [h2, h3]
    push_cast at hr ⊢
    have hm : (0:ℝ) < (m.factorial : ℝ) := by exact_mod_cast m.factorial_pos
    have hm1 : (0:ℝ) < (m : ℝ) + 1 := by positivity
    have h4 : (0:ℝ) < (4:ℝ) ^ m := by positivity
    have key : ∫ x, g (m + 1 + 1) x =
        (2 * ((m : ℝ) + 1) - 1) * (π * ((2 * m).factorial : ℝ) / ((4:ℝ) ^ m * (m.factorial : ℝ) ^ 2)) /
          (2 * ((m : ℝ) + 1)) := by
      field_simp
      field_simp at hr
      linarith
    rw [key, pow_succ]
    field_simp
    ring

/-- **`∫ (1+v²)^(-n) dv = π (2n-2)! / (2^(2n-2) ((n-1)!)²)`** for every `n ≥ 1` -/
theorem integral_inv_one_add_sq_pow (n : ℕ) (hn : 1 ≤ n) :
    ∫ v : ℝ, ((1 + v ^ 2) ^ n)⁻¹ =
      π * ((2 * n - 2).factorial : ℝ) / ((2:ℝ) ^ (2 * n - 2) * ((n - 1).factorial : ℝ) ^ 2) := by
  obtain ⟨m, rfl⟩ : ∃ m, n = m + 1 := ⟨n - 1, by omega⟩
  have h := integral_g_succ m
  simp only [g] at h
  rw [h, show 2 * (m + 1) - 2 = 2 * m by omega, show m + 1 - 1 = m by omega, pow_mul]
  norm_num

end PdsVerif.CauchyPow

/-
  The header parser run symbolically on the header written by `encode`
  (any channel count, sample count, rate, header size, padding).  Core Lean only.
-/
import PdsVerif.Lemmas.Sphere

namespace PdsVerif.Model.Sphere
open PdsVerif.Gen.Sphere

/-! ## splitting -/

theorem splitBy_append_sep (p : Nat → Bool) (c : Nat) (t : Bytes) (hc : p c = true) :
    ∀ (a : Bytes), (∀ x ∈ a, p x = false) → splitBy p (a ++ c :: t) = a :: splitBy p t := by
  intro a
  induction a with
  | nil => intro _; simp [splitBy, hc]
  | cons b a ih =>
    intro h
    have hb : p b = false := h b List.mem_cons_self
    simp only [List.cons_append, splitBy, hb, Bool.false_eq_true, if_false]
    rw [ih (fun x hx => h x (List.mem_cons_of_mem _ hx))]

theorem splitBy_no_sep (p : Nat → Bool) :
    ∀ (a : Bytes), (∀ x ∈ a, p x = false) → splitBy p a = [a] := by
  intro a
  induction a with
  | nil => intro _; rfl
  | cons b a ih =>
    intro h
    have hb : p b = false := h b List.mem_cons_self
    simp only [splitBy, hb, Bool.false_eq_true, if_false]
    rw [ih (fun x hx => h x (List.mem_cons_of_mem _ hx))]

/-! ## decimal numbers -/

theorem decFuel_digits : ∀ (f n : Nat), ∀ b ∈ decFuel f n, 48 ≤ b ∧ b ≤ 57 := by
  intro f
  induction f with
  | zero => intro n b h; simp [decFuel] at h; omega
  | succ f ih =>
    intro n b h
    simp only [decFuel] at h
    split at h
    · simp at h; omega
    · rcases List.mem_append.mp h with h | h
      · exact ih _ b h
      · simp at h; omega

theorem decFuel_ne_nil : ∀ (f n : Nat), decFuel f n ≠ [] := by
  intro f n
  cases f with
  | zero => simp [decFuel]
  | succ f => simp only [decFuel]; split <;> simp

theorem length_decFuel : ∀ (f n k : Nat), 1 ≤ k → n < 10 ^ k → (decFuel f n).length ≤ k := by
  intro f
  induction f with
  | zero => intro n k hk _; simp [decFuel]; omega
  | succ f ih =>
    intro n k hk hn
    simp only [decFuel]
    split
    · simp; omega
    · rename_i h10
      have hk2 : 2 ≤ k := by
        rcases Nat.lt_or_ge k 2 with h | h
        · have : k = 1 := by omega
          subst this; simp at hn; omega
        · exact h
      have hpow : 10 ^ k = 10 * 10 ^ (k - 1) := by
        have : k = (k - 1) + 1 := by omega
        conv => lhs; rw [this, Nat.pow_succ, Nat.mul_comm]
      have : n / 10 < 10 ^ (k - 1) := Nat.div_lt_of_lt_mul (by rw [← hpow]; exact hn)
      have := ih (n / 10) (k - 1) (by omega) this
      simp only [List.length_append, List.length_cons, List.length_nil]
      omega

def digitsVal (acc : Nat) (ds : Bytes) : Nat := ds.foldl (fun a d => a * 10 + (d - 48)) acc

theorem intBody_digits :
    ∀ (ds : Bytes) (acc : Nat) (ld : Bool), (∀ b ∈ ds, 48 ≤ b ∧ b ≤ 57) → ds ≠ [] →
      intBody acc ld ds = some (digitsVal acc ds) := by
  intro ds
  induction ds with
  | nil => intro _ _ _ h; exact absurd rfl h
  | cons d t ih =>
    intro acc ld h _
    have hd : isDigit d = true := by
      have := h d List.mem_cons_self
      simp [isDigit]; omega
    simp only [intBody, hd, if_true]
    cases t with
    | nil => simp [intBody, digitsVal]
    | cons d' t' =>
      rw [ih _ _ (fun b hb => h b (List.mem_cons_of_mem _ hb)) (by simp)]
      simp [digitsVal]

theorem digitsVal_decFuel : ∀ (f n : Nat), n ≤ f → digitsVal 0 (decFuel f n) = n := by
  intro f
  induction f with
  | zero => intro n h; have : n = 0 := by omega
            subst this; simp [decFuel, digitsVal]
  | succ f ih =>
    intro n h
    simp only [decFuel]
    split
    · simp [digitsVal]
    · rename_i h10
      have := ih (n / 10) (by omega)
      simp only [digitsVal] at this ⊢
      rw [List.foldl_append, this]
      simp; omega

theorem dec_digits (n : Nat) : ∀ b ∈ dec n, 48 ≤ b ∧ b ≤ 57 := decFuel_digits n n
theorem dec_ne_nil (n : Nat) : dec n ≠ [] := decFuel_ne_nil n n
theorem length_dec (n k : Nat) (hk : 1 ≤ k) (hn : n < 10 ^ k) : (dec n).length ≤ k := length_decFuel n n k hk hn

theorem filter_digits_length_le (s : Bytes) : (s.filter isDigit).length ≤ s.length := List.length_filter_le _ _

/-- `int(str(n)) == n` for the decimal text written by `dec` (CPython's 4300-digit limit respected) -/
theorem pyIntTok_dec (n : Nat) (hn : n < 10 ^ maxStrDigits) : pyIntTok (dec n) = some (n : Int) := by
  have hlen : ((dec n).filter isDigit).length ≤ maxStrDigits :=
    Nat.le_trans (filter_digits_length_le _) (length_dec n maxStrDigits (by decide) hn)
  have hbody : intBody 0 false (dec n) = some n := by
    rw [intBody_digits _ _ _ (dec_digits n) (dec_ne_nil n)]
    exact congrArg some (digitsVal_decFuel n n (Nat.le_refl n))
  unfold pyIntTok
  rw [if_neg (by omega)]
  cases hd : dec n with
  | nil => exact absurd hd (dec_ne_nil n)
  | cons d t =>
    have hdr := dec_digits n d (by rw [hd]; exact List.mem_cons_self)
    have h43 : d ≠ 43 := by omega
    have h45 : d ≠ 45 := by omega
    rw [hd] at hbody
    split
    · rename_i heq; injection heq with h1 _; exact absurd h1 h43
    · rename_i heq; injection heq with h1 _; exact absurd h1 h45
    · simp [hbody]

/-! ## `int(bytes)` on the size line -/

theorem stripLeft_replicate_ws (p : Nat → Bool) (w : Nat) (hw : p w = true) :
    ∀ (j : Nat) (l : Bytes), stripLeft p (List.replicate j w ++ l) = stripLeft p l := by
  intro j
  induction j with
  | zero => intro l; simp
  | succ j ih => intro l; simp [List.replicate_succ, stripLeft, hw, ih]

theorem stripLeft_head (p : Nat → Bool) : ∀ (l : Bytes), (∀ x, l.head? = some x → p x = false) → stripLeft p l = l := by
  intro l h
  cases l with
  | nil => rfl
  | cons b t => simp [stripLeft, h b rfl]

theorem strip_padLeft_dec (w n : Nat) : strip isBytesWs (padLeft w (dec n)) = dec n := by
  have hdig : ∀ x ∈ dec n, isBytesWs x = false := by
    intro x hx; have := dec_digits n x hx; simp [isBytesWs]; omega
  unfold strip padLeft
  rw [stripLeft_replicate_ws isBytesWs 32 (by decide)]
  rw [stripLeft_head isBytesWs (dec n) (by
    intro x hx
    exact hdig x (List.mem_of_mem_head? hx))]
  rw [stripLeft_head isBytesWs (dec n).reverse (by
    intro x hx
    exact hdig x (List.mem_reverse.mp (List.mem_of_mem_head? hx)))]
  exact List.reverse_reverse _

theorem pyIntBytes_sizeLine (w n : Nat) (hn : n < 10 ^ maxStrDigits) :
    pyIntBytes (padLeft w (dec n)) = some (n : Int) := by
  unfold pyIntBytes; rw [strip_padLeft_dec, pyIntTok_dec n hn]

/-! ## `str.split()` and one header line -/

theorem words_append_space (a rest : Bytes) (ha : ∀ x ∈ a, isStrWs x = false) (hne : a ≠ []) :
    words (a ++ 32 :: rest) = a :: words rest := by
  unfold words
  rw [splitBy_append_sep isStrWs 32 rest (by decide) a ha]
  cases a with
  | nil => exact absurd rfl hne
  | cons b t => simp

theorem words_single (a : Bytes) (ha : ∀ x ∈ a, isStrWs x = false) (hne : a ≠ []) : words a = [a] := by
  unfold words
  rw [splitBy_no_sep isStrWs a ha]
  cases a with
  | nil => exact absurd rfl hne
  | cons b t => simp

theorem any_ge128_false (l : Bytes) (h : ∀ b ∈ l, b < 128) : l.any (· ≥ 128) = false := by
  rw [List.any_eq_false]
  intro b hb
  have := h b hb
  simp; omega

theorem dec_no_ws (n : Nat) : ∀ x ∈ dec n, isStrWs x = false := by
  intro x hx; have := dec_digits n x hx; simp [isStrWs]; omega

theorem dec_lt128 (n : Nat) : ∀ x ∈ dec n, x < 128 := by
  intro x hx; have := dec_digits n x hx; omega

/-- a key: non-empty ASCII without white space -/
def GoodTok (k : Bytes) : Prop := k ≠ [] ∧ (∀ x ∈ k, isStrWs x = false) ∧ (∀ x ∈ k, x < 128)

theorem parseField_intLine (key : Bytes) (n : Nat) (hk : GoodTok key) (hn : n < 10 ^ maxStrDigits) :
    parseField (intLine key n) = .ok (key, .int n) := by
  obtain ⟨hne, hws, hasc⟩ := hk
  have hline : intLine key n = key ++ 32 :: ([45, 105] ++ 32 :: dec n) := by simp [intLine]
  have hany : (intLine key n).any (· ≥ 128) = false := by
    apply any_ge128_false
    intro b hb
    rw [hline] at hb
    simp only [List.mem_append, List.mem_cons, List.mem_nil_iff, or_false] at hb
    rcases hb with h | h | (h | h) | h | h
    · exact hasc b h
    · omega
    · omega
    · omega
    · omega
    · exact dec_lt128 n b h
  have hwords : words (intLine key n) = [key, [45, 105], dec n] := by
    rw [hline, words_append_space key _ hws hne, words_append_space [45, 105] _ (by decide) (by decide),
      words_single (dec n) (dec_no_ws n) (dec_ne_nil n)]
  unfold parseField
  rw [hany, hwords]
  simp only [Bool.false_eq_true, if_false, intercalate]
  rw [if_pos (by decide), pyIntTok_dec n hn]

theorem parseField_strLine (key v : Bytes) (hk : GoodTok key) (hv : GoodTok v) :
    parseField (strLine key v) = .ok (key, .str v) := by
  obtain ⟨hne, hws, hasc⟩ := hk
  obtain ⟨vne, vws, vasc⟩ := hv
  have hline : strLine key v = key ++ 32 :: (([45, 115] ++ dec v.length) ++ 32 :: v) := by
    simp [strLine]
  have hany : (strLine key v).any (· ≥ 128) = false := by
    apply any_ge128_false
    intro b hb
    rw [hline] at hb
    simp only [List.mem_append, List.mem_cons, List.mem_nil_iff, or_false] at hb
    rcases hb with h | h | ((h | h) | h) | h | h
    · exact hasc b h
    · omega
    · omega
    · omega
    · exact dec_lt128 _ b h
    · omega
    · exact vasc b h
  have hfmt_ws : ∀ x ∈ [45, 115] ++ dec v.length, isStrWs x = false := by
    intro x hx
    rcases List.mem_append.mp hx with h | h
    · have : x = 45 ∨ x = 115 := by simpa using h
      rcases this with rfl | rfl <;> decide
    · exact dec_no_ws _ x h
  have hwords : words (strLine key v) = [key, [45, 115] ++ dec v.length, v] := by
    rw [hline, words_append_space key _ hws hne, words_append_space _ _ hfmt_ws (by simp),
      words_single v vws vne]
  unfold parseField
  rw [hany, hwords]
  simp only [Bool.false_eq_true, if_false, intercalate]
  rw [if_neg (by simp [INT_FMT])]

/-! ## the canonical header -/

/-- lines terminated by `\n`, followed by `tail` -/
def joinNl (ls : List Bytes) (tail : Bytes) : Bytes := ls.foldr (fun l acc => l ++ 10 :: acc) tail

def NoNl (l : Bytes) : Prop := ∀ x ∈ l, (x == LINE_SEP) = false

instance (l : Bytes) : Decidable (NoNl l) := by unfold NoNl; infer_instance

theorem splitOn_joinNl (tail : Bytes) :
    ∀ (ls : List Bytes), (∀ l ∈ ls, NoNl l) → splitOn LINE_SEP (joinNl ls tail) = ls ++ splitOn LINE_SEP tail := by
  intro ls
  induction ls with
  | nil => intro _; rfl
  | cons l ls ih =>
    intro h
    simp only [joinNl, List.foldr_cons, splitOn]
    rw [splitBy_append_sep (· == LINE_SEP) 10 _ (by decide) l (h l List.mem_cons_self)]
    have := ih (fun x hx => h x (List.mem_cons_of_mem _ hx))
    simp only [joinNl, splitOn] at this
    rw [this]; rfl

theorem noNl_dec (n : Nat) : NoNl (dec n) := by
  intro x hx; have := dec_digits n x hx; simp [LINE_SEP]; omega

theorem noNl_append {a b : Bytes} (ha : NoNl a) (hb : NoNl b) : NoNl (a ++ b) := by
  intro x hx
  rcases List.mem_append.mp hx with h | h
  · exact ha x h
  · exact hb x h

theorem noNl_intLine (key : Bytes) (n : Nat) (hk : NoNl key) : NoNl (intLine key n) := by
  unfold intLine
  exact noNl_append (noNl_append hk (by decide)) (noNl_dec n)

theorem noNl_strLine (key v : Bytes) (hk : NoNl key) (hv : NoNl v) : NoNl (strLine key v) := by
  unfold strLine
  exact noNl_append (noNl_append (noNl_append (noNl_append hk (by decide)) (noNl_dec _)) (by decide)) hv

theorem noNl_padLeft (w n : Nat) : NoNl (padLeft w (dec n)) := by
  unfold padLeft
  apply noNl_append _ (noNl_dec n)
  intro x hx
  have := List.eq_of_mem_replicate hx
  subst this; decide

/-- the header a reader should see in the file written by `encode s count ..` -/
def hdrOf (s : Spec) (count : Nat) : Header :=
  { samptype := s.codingText, sampsize := .int s.nbytes, sampcount := .int count, samprate := .int s.rate,
    chancount := .int s.chans, inporder := some (.str s.orderText) }

theorem goodTok_orderText (s : Spec) : GoodTok s.orderText := by
  unfold Spec.orderText
  cases s.coding <;> cases s.be <;> exact ⟨by decide, by decide, by decide⟩

theorem goodTok_codingText (s : Spec) : GoodTok s.codingText := by
  unfold Spec.codingText
  cases s.coding <;> exact ⟨by decide, by decide, by decide⟩

theorem noNl_of_goodTok {k : Bytes} (h : GoodTok k) : NoNl k := by
  intro x hx
  have := h.2.1 x hx
  simp [isStrWs, LINE_SEP] at *
  omega

/-- the field lines of the canonical header, then `end_head`, then anything -/
def fieldLines (s : Spec) (count : Nat) : List Bytes :=
  [intLine kChannelCount s.chans, intLine kSampleCount count, intLine kSampleRate s.rate,
   intLine kSampleNBytes s.nbytes, strLine kSampleByteFormat s.orderText, strLine kSampleCoding s.codingText]

theorem applyCoding_codingText (s : Spec) : applyCoding s.codingText none = some s.codingText := by
  unfold Spec.codingText
  cases s.coding <;> decide

theorem scan_canonical (s : Spec) (count : Nat) (more : List Bytes)
    (hbc : s.chans < 10 ^ maxStrDigits) (hbn : count < 10 ^ maxStrDigits) (hbr : s.rate < 10 ^ maxStrDigits) :
    scanFields (fieldLines s count ++ kEndHead :: more) {} = .ok
      ({ samptype := some s.codingText, sampsize := some (.int s.nbytes), sampcount := some (.int count),
         samprate := some (.int s.rate), chancount := some (.int s.chans), inporder := some (.str s.orderText) }, true) := by
  have g1 : GoodTok kChannelCount := ⟨by decide, by decide, by decide⟩
  have g2 : GoodTok kSampleCount := ⟨by decide, by decide, by decide⟩
  have g3 : GoodTok kSampleRate := ⟨by decide, by decide, by decide⟩
  have g4 : GoodTok kSampleNBytes := ⟨by decide, by decide, by decide⟩
  have g5 : GoodTok kSampleByteFormat := ⟨by decide, by decide, by decide⟩
  have g6 : GoodTok kSampleCoding := ⟨by decide, by decide, by decide⟩
  have hnb : s.nbytes < 10 ^ maxStrDigits := by
    have : s.nbytes ≤ 2 := by unfold Spec.nbytes; cases s.coding <;> simp
    exact Nat.lt_of_le_of_lt this (Nat.lt_of_lt_of_le (by decide : 2 < 10 ^ 1) (Nat.pow_le_pow_right (by decide) (by decide)))
  -- no field line is `end_head`: each contains a space
  have e1 : intLine kChannelCount s.chans ≠ END_HEAD := by simp [intLine, kChannelCount, END_HEAD]
  have e2 : intLine kSampleCount count ≠ END_HEAD := by simp [intLine, kSampleCount, END_HEAD]
  have e3 : intLine kSampleRate s.rate ≠ END_HEAD := by simp [intLine, kSampleRate, END_HEAD]
  have e4 : intLine kSampleNBytes s.nbytes ≠ END_HEAD := by simp [intLine, kSampleNBytes, END_HEAD]
  have e5 : strLine kSampleByteFormat s.orderText ≠ END_HEAD := by simp [strLine, kSampleByteFormat, END_HEAD]
  have e6 : strLine kSampleCoding s.codingText ≠ END_HEAD := by simp [strLine, kSampleCoding, END_HEAD]
  have e7 : kEndHead = END_HEAD := by decide
  simp only [fieldLines, List.cons_append, List.nil_append, scanFields, e1, e2, e3, e4, e5, e6, e7, if_false, if_true,
    parseField_intLine _ _ g1 hbc, parseField_intLine _ _ g2 hbn, parseField_intLine _ _ g3 hbr,
    parseField_intLine _ _ g4 hnb, parseField_strLine _ _ g5 (goodTok_orderText s),
    parseField_strLine _ _ g6 (goodTok_codingText s)]
  simp [setField, kChannelCount, kSampleCount, kSampleRate, kSampleNBytes, kSampleByteFormat, kSampleCoding,
    KEY_chancount, KEY_sampcount, KEY_samprate, KEY_sampsize, KEY_inporder, KEY_samptype, applyCoding_codingText]

theorem validate_canonical (s : Spec) (count : Nat) (hchans : 1 ≤ s.chans) (hcount : 1 ≤ count) (hrate : 1 ≤ s.rate) :
    validate { samptype := some s.codingText, sampsize := some (.int s.nbytes), sampcount := some (.int count),
               samprate := some (.int s.rate), chancount := some (.int s.chans), inporder := some (.str s.orderText) }
      = .ok (hdrOf s count) := by
  have h1 : s.codingText.isEmpty = false := by unfold Spec.codingText; cases s.coding <;> rfl
  have h2 : s.orderText.isEmpty = false := by unfold Spec.orderText; cases s.coding <;> cases s.be <;> rfl
  have h3 : ((s.nbytes : Int) == 0) = false := by unfold Spec.nbytes; cases s.coding <;> rfl
  have h4 : ((count : Int) == 0) = false := by simp; omega
  have h5 : ((s.rate : Int) == 0) = false := by simp; omega
  have h6 : ((s.chans : Int) == 0) = false := by simp; omega
  simp only [validate, h1, Val.falsy, falsy, h2, h3, h4, h5, h6, Bool.false_eq_true, if_false, Bool.or_false,
    Bool.and_false, hdrOf]

theorem take_append_cons (a : Bytes) (c : Nat) (t : Bytes) (n : Nat) (h : a.length + 1 ≤ n) :
    (a ++ c :: t).take n = a ++ c :: t.take (n - a.length - 1) := by
  rw [List.take_append, List.take_of_length_le (by omega)]
  obtain ⟨m, hm⟩ : ∃ m, n - a.length = m + 1 := ⟨n - a.length - 1, by omega⟩
  rw [hm, List.take_succ_cons, Nat.add_sub_cancel]

theorem length_padLeft (w : Nat) (l : Bytes) : (padLeft w l).length = max w l.length := by
  unfold padLeft; simp; omega

/-- `read_header` on the file written by `encode`: the six fields come back, the stream is left at the data -/
theorem readHeader_canonical (s : Spec) (count : Nat) (pad data : Bytes)
    (hchans : 1 ≤ s.chans) (hcount : 1 ≤ count) (hrate : 1 ≤ s.rate)
    (hbc : s.chans < 10 ^ maxStrDigits) (hbn : count < 10 ^ maxStrDigits) (hbr : s.rate < 10 ^ maxStrDigits)
    (hsize : (headerText s count).length + pad.length = s.hdrSize)
    (h1024 : 1024 ≤ s.hdrSize) (hcap : s.hdrSize ≤ 2 ^ 26) :
    readHeader (headerText s count ++ pad ++ data) = .ok (hdrOf s count, data) := by
  -- shape of the text
  have htext : headerText s count ++ pad
      = joinNl ([kNIST, padLeft 7 (dec s.hdrSize)] ++ fieldLines s count ++ [kEndHead]) pad := by
    simp [headerText, joinNl, fieldLines, List.append_assoc]
  have hH10 : s.hdrSize < 10 ^ 9 := Nat.lt_of_le_of_lt hcap (by decide)
  have hHd : s.hdrSize < 10 ^ maxStrDigits :=
    Nat.lt_of_lt_of_le hH10 (Nat.pow_le_pow_right (by decide) (by decide))
  have hsl_len : (padLeft 7 (dec s.hdrSize)).length ≤ 9 := by
    rw [length_padLeft]; have := length_dec s.hdrSize 9 (by decide) hH10; omega
  generalize hfile : headerText s count ++ pad ++ data = file
  have hflen : s.hdrSize ≤ file.length := by
    rw [← hfile]; simp only [List.length_append]; omega
  have hfile2 : file = kNIST ++ 10 :: (padLeft 7 (dec s.hdrSize) ++ 10 ::
      (joinNl (fieldLines s count ++ [kEndHead]) pad ++ data)) := by
    rw [← hfile, htext]; simp [joinNl, List.append_assoc]
  -- first read
  have htl : (file.take 1024).length = 1024 := by rw [List.length_take]; omega
  have hmagic : (file.take 1024).take MAGIC_LEN = MAGIC := by
    rw [List.take_take, hfile2]; simp [MAGIC_LEN, kNIST, MAGIC]
  have hsplit1 : (splitOn LINE_SEP (file.take 1024))[SIZE_LINE_INDEX]? = some (padLeft 7 (dec s.hdrSize)) := by
    rw [hfile2, take_append_cons kNIST 10 _ 1024 (by decide),
      take_append_cons (padLeft 7 (dec s.hdrSize)) 10 _ _ (by
        have : kNIST.length = 7 := by decide
        omega)]
    simp only [splitOn]
    rw [splitBy_append_sep (· == LINE_SEP) 10 _ (by decide) kNIST (by decide),
      splitBy_append_sep (· == LINE_SEP) 10 _ (by decide) _ (noNl_padLeft 7 s.hdrSize)]
    rfl
  -- second read
  have hwant : ((s.hdrSize : Int) - ((file.take 1024).length : Int)).toNat = s.hdrSize - 1024 := by
    rw [htl]; omega
  have hhdr : file.take 1024 ++ (file.drop 1024).take (s.hdrSize - 1024) = headerText s count ++ pad := by
    rw [← List.take_add, ← hfile]
    have : 1024 + (s.hdrSize - 1024) = s.hdrSize := by omega
    rw [this, List.take_append_of_le_length (by simp only [List.length_append]; omega),
      List.take_of_length_le (by simp only [List.length_append]; omega)]
  have hrest : (file.drop 1024).drop (s.hdrSize - 1024) = data := by
    rw [List.drop_drop, ← hfile]
    have : 1024 + (s.hdrSize - 1024) = s.hdrSize := by omega
    rw [this, List.drop_append_of_le_length (by simp only [List.length_append]; omega)]
    rw [List.drop_of_length_le (by simp only [List.length_append]; omega)]; rfl
  -- the lines
  have hlines : (splitOn LINE_SEP (headerText s count ++ pad)).drop FIELDS_FROM
      = fieldLines s count ++ kEndHead :: splitOn LINE_SEP pad := by
    rw [htext, splitOn_joinNl pad _ (by
      intro l hl
      simp only [fieldLines, List.cons_append, List.nil_append, List.mem_cons, List.mem_nil_iff, or_false] at hl
      rcases hl with rfl | rfl | rfl | rfl | rfl | rfl | rfl | rfl | rfl
      · decide
      · exact noNl_padLeft 7 _
      · exact noNl_intLine _ _ (by decide)
      · exact noNl_intLine _ _ (by decide)
      · exact noNl_intLine _ _ (by decide)
      · exact noNl_intLine _ _ (by decide)
      · exact noNl_strLine _ _ (by decide) (noNl_of_goodTok (goodTok_orderText s))
      · exact noNl_strLine _ _ (by decide) (noNl_of_goodTok (goodTok_codingText s))
      · decide)]
    simp [FIELDS_FROM, fieldLines]
  unfold readHeader
  have hrn : readN (HDR_READ : Int) file = (file.take 1024, file.drop 1024) := by
    simp [readN, HDR_READ]
  simp only [hrn, htl, hmagic, HDR_LEN, ne_eq, not_true_eq_false, or_self, if_false, hsplit1,
    pyIntBytes_sizeLine 7 s.hdrSize hHd]
  have hmin : ¬ ((s.hdrSize : Int) < HDR_MIN) := by simp [HDR_MIN]; omega
  have hcap' : ¬ ((s.hdrSize : Int) - (1024 : Nat) > readCap) := by simp [readCap]; omega
  have hrn2 : readN ((s.hdrSize : Int) - (1024 : Nat)) (file.drop 1024)
      = ((file.drop 1024).take (s.hdrSize - 1024), (file.drop 1024).drop (s.hdrSize - 1024)) := by
    have : ¬ ((s.hdrSize : Int) - (1024 : Nat) < 0) := by omega
    have e : ((s.hdrSize : Int) - (1024 : Nat)).toNat = s.hdrSize - 1024 := by omega
    simp only [readN, this, if_false, e]
  simp only [hmin, if_false, hcap', hrn2, hhdr, hrest, hlines,
    scan_canonical s count _ hbc hbn hbr, validate_canonical s count hchans hcount hrate]

/-! ## vocabulary and small facts used by the property statements -/

theorem matches_hdrOf (s : Spec) (count : Nat) : Matches (hdrOf s count) s count :=
  ⟨rfl, rfl, rfl, rfl, fun _ => rfl⟩

/-- the number of whole frames in the first `n` bytes of the data section, capped by the promise -/
def framesIn (count chans nbytes n total : Nat) : Nat := min count (min n total / (chans * nbytes))

theorem length_payload (s : Spec) (items : List Int) : (payload s items).length = items.length * s.nbytes :=
  length_flatMap_const _ _ (fun x => length_encItem _ _ x) items

theorem framesIn_full (count chans nbytes : Nat) (hc : 1 ≤ chans) (hn : 1 ≤ nbytes) :
    framesIn count chans nbytes (count * chans * nbytes) (count * chans * nbytes) = count := by
  unfold framesIn
  rw [Nat.min_self, Nat.mul_assoc, Nat.mul_div_cancel _ (Nat.mul_pos hc hn), Nat.min_self]

theorem framesIn_short (count chans nbytes k : Nat)
    (hk : k < count * chans * nbytes) :
    framesIn count chans nbytes k (count * chans * nbytes) = k / (chans * nbytes)
      ∧ k / (chans * nbytes) < count := by
  unfold framesIn
  have hlt : k / (chans * nbytes) < count := by
    apply Nat.div_lt_of_lt_mul
    rw [Nat.mul_comm (chans * nbytes) count, ← Nat.mul_assoc]; exact hk
  rw [Nat.min_eq_left (Nat.le_of_lt hk), Nat.min_eq_right (Nat.le_of_lt hlt)]
  exact ⟨rfl, hlt⟩

theorem decItem_encItem_u8_any (be be' : Bool) (x : Int) (h : 0 ≤ x ∧ x < 256) :
    decItem 1 false be' (encItem 1 be x) = x := by
  cases be <;> cases be' <;> simp [decItem, encItem, encLE, unsignedLE] <;> omega

/-- ITU-T G.711 expansion of a stored code, by coding -/
def expand (c : Coding) (code : Int) : Int :=
  match c with
  | .alaw => G711.alawExpand code.toNat
  | _ => G711.ulawExpand code.toNat


end PdsVerif.Model.Sphere

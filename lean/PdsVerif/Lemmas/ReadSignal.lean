/-
  Helper lemmas for property C11 (core Lean only):
  * the scanner `tableMatch` accepts exactly the regular language of `^(ark|scp)(,\w+)*:`;
  * the `while group_stack:` loop of `_hdf5_read_signal` (`h5Loop`) returns the first dataset in depth-first
    order with the members of every group visited in ascending name order, never runs out of fuel, and
    raises `IOError` exactly when the file holds no dataset;
  * `rsplit(".", maxsplit=1)[-1]` facts and the plan of a helper that ends with `astype`.
-/
import PdsVerif.Model.ReadSignal
namespace PdsVerif.Model.ReadSignal

/-! ## `^(ark|scp)(,\w+)*:` -/

/-- every `,\w+` group is a non-empty run of word characters -/
def WFOpts (w : Char → Bool) (opts : List Str) : Prop := ∀ o ∈ opts, o ≠ [] ∧ ∀ c ∈ o, w c = true

/-- `(,o₁)(,o₂)…:rest` -/
def optsTail (opts : List Str) (rest : Str) : Str := opts.flatMap (fun o => ',' :: o) ++ ':' :: rest

/-- what each scanner state accepts -/
def ScanLang (w : Char → Bool) : RS → Str → Prop
  | .sep, l => ∃ opts rest, WFOpts w opts ∧ l = optsTail opts rest
  | .needWord, l => ∃ o opts rest, o ≠ [] ∧ (∀ c ∈ o, w c = true) ∧ WFOpts w opts ∧ l = o ++ optsTail opts rest
  | .inWord, l => ∃ o opts rest, (∀ c ∈ o, w c = true) ∧ WFOpts w opts ∧ l = o ++ optsTail opts rest

theorem optsTail_nil (rest : Str) : optsTail [] rest = ':' :: rest := rfl
theorem optsTail_cons (o : Str) (opts : List Str) (rest : Str) :
    optsTail (o :: opts) rest = ',' :: (o ++ optsTail opts rest) := by
  simp [optsTail]

theorem WFOpts_nil (w : Char → Bool) : WFOpts w [] := by intro o ho; cases ho
theorem WFOpts_cons {w : Char → Bool} {o : Str} {opts : List Str} (h1 : o ≠ []) (h2 : ∀ c ∈ o, w c = true)
    (h3 : WFOpts w opts) : WFOpts w (o :: opts) := by
  intro o' ho'
  rcases List.mem_cons.1 ho' with rfl | h
  · exact ⟨h1, h2⟩
  · exact h3 o' h

theorem scan_sound (w : Char → Bool) : ∀ (l : Str) (st : RS), scan w st l = true → ScanLang w st l := by
  intro l
  induction l with
  | nil => intro st h; cases st <;> simp [scan] at h
  | cons c r ih =>
    intro st h
    cases st with
    | sep =>
      simp only [scan] at h
      split at h
      · rename_i hc; subst hc
        exact ⟨[], r, WFOpts_nil w, rfl⟩
      · split at h
        · rename_i hc; subst hc
          obtain ⟨o, opts, rest, ho, hw, hwf, rfl⟩ := ih .needWord h
          exact ⟨o :: opts, rest, WFOpts_cons ho hw hwf, by rw [optsTail_cons]⟩
        · cases h
    | needWord =>
      simp only [scan] at h
      split at h
      · rename_i hc
        obtain ⟨o, opts, rest, hw, hwf, rfl⟩ := ih .inWord h
        refine ⟨c :: o, opts, rest, by simp, ?_, hwf, by simp⟩
        intro x hx
        rcases List.mem_cons.1 hx with rfl | hx
        · exact hc
        · exact hw x hx
      · cases h
    | inWord =>
      simp only [scan] at h
      split at h
      · rename_i hc
        obtain ⟨o, opts, rest, hw, hwf, rfl⟩ := ih .inWord h
        refine ⟨c :: o, opts, rest, ?_, hwf, by simp⟩
        intro x hx
        rcases List.mem_cons.1 hx with rfl | hx
        · exact hc
        · exact hw x hx
      · split at h
        · rename_i hc; subst hc
          exact ⟨[], [], r, by simp, WFOpts_nil w, rfl⟩
        · split at h
          · rename_i hc; subst hc
            obtain ⟨o, opts, rest, ho, hw, hwf, rfl⟩ := ih .needWord h
            exact ⟨[], o :: opts, rest, by simp, WFOpts_cons ho hw hwf, by rw [optsTail_cons]; rfl⟩
          · cases h

theorem scan_inWord_complete (w : Char → Bool) (hc : w ',' = false) (hk : w ':' = false) :
    ∀ (opts : List Str), WFOpts w opts → ∀ (o rest : Str), (∀ c ∈ o, w c = true) →
      scan w .inWord (o ++ optsTail opts rest) = true := by
  intro opts
  induction opts with
  | nil =>
    intro _ o rest
    induction o with
    | nil => intro _; simp [optsTail_nil, scan, hk]
    | cons c o ih =>
      intro h
      have hc' := h c (by simp)
      simp only [List.cons_append, scan, hc', if_true]
      exact ih (fun x hx => h x (by simp [hx]))
  | cons o' opts ih =>
    intro hwf o rest
    have ⟨hne, hw'⟩ := hwf o' (by simp)
    have hwf' : WFOpts w opts := fun x hx => hwf x (by simp [hx])
    induction o with
    | nil =>
      intro _
      cases o' with
      | nil => exact absurd rfl hne
      | cons d o'' =>
        have hd := hw' d (by simp)
        simp only [List.nil_append, optsTail_cons, scan, hc, List.cons_append, hd, if_true]
        simp only [Bool.false_eq_true, if_false]
        simp only [show (',' : Char) ≠ ':' by decide, if_false]
        exact ih hwf' o'' rest (fun x hx => hw' x (by simp [hx]))
    | cons c o ih2 =>
      intro h
      have hc' := h c (by simp)
      simp only [List.cons_append, scan, hc', if_true]
      exact ih2 (fun x hx => h x (by simp [hx]))

theorem scan_needWord_complete (w : Char → Bool) (hc : w ',' = false) (hk : w ':' = false)
    (o : Str) (opts : List Str) (rest : Str) (hne : o ≠ []) (hw : ∀ c ∈ o, w c = true) (hwf : WFOpts w opts) :
    scan w .needWord (o ++ optsTail opts rest) = true := by
  cases o with
  | nil => exact absurd rfl hne
  | cons d o =>
    have hd := hw d (by simp)
    simp only [List.cons_append, scan, hd, if_true]
    exact scan_inWord_complete w hc hk opts hwf o rest (fun x hx => hw x (by simp [hx]))

theorem scan_complete (w : Char → Bool) (hc : w ',' = false) (hk : w ':' = false) :
    ∀ (st : RS) (l : Str), ScanLang w st l → scan w st l = true := by
  intro st l h
  cases st with
  | inWord =>
    obtain ⟨o, opts, rest, hw, hwf, rfl⟩ := h
    exact scan_inWord_complete w hc hk opts hwf o rest hw
  | needWord =>
    obtain ⟨o, opts, rest, hne, hw, hwf, rfl⟩ := h
    exact scan_needWord_complete w hc hk o opts rest hne hw hwf
  | sep =>
    obtain ⟨opts, rest, hwf, rfl⟩ := h
    cases opts with
    | nil => simp [optsTail_nil, scan]
    | cons o opts =>
      have ⟨hne, hw⟩ := hwf o (by simp)
      have hwf' : WFOpts w opts := fun x hx => hwf x (by simp [hx])
      rw [optsTail_cons]
      simp only [scan, show (',' : Char) ≠ ':' by decide, if_false, if_true]
      exact scan_needWord_complete w hc hk o opts rest hne hw hwf'

/-- the regular language of `^(ark|scp)(,\w+)*:` (anything may follow) -/
def TableLang (w : Char → Bool) (s : Str) : Prop :=
  ∃ pre opts rest, (pre = (str% "ark") ∨ pre = (str% "scp")) ∧ WFOpts w opts ∧ s = pre ++ optsTail opts rest

theorem tableMatch_iff_lang (w : Char → Bool) (hc : w ',' = false) (hk : w ':' = false) (s : Str) :
    tableMatch w s = true ↔ TableLang w s := by
  constructor
  · intro h
    unfold tableMatch at h
    split at h
    · obtain ⟨opts, rest, hwf, rfl⟩ := scan_sound w _ .sep h
      exact ⟨(str% "ark"), opts, rest, Or.inl rfl, hwf, rfl⟩
    · obtain ⟨opts, rest, hwf, rfl⟩ := scan_sound w _ .sep h
      exact ⟨(str% "scp"), opts, rest, Or.inr rfl, hwf, rfl⟩
    · cases h
  · rintro ⟨pre, opts, rest, hpre, hwf, rfl⟩
    rcases hpre with rfl | rfl
    · exact scan_complete w hc hk .sep _ ⟨opts, rest, hwf, rfl⟩
    · exact scan_complete w hc hk .sep _ ⟨opts, rest, hwf, rfl⟩

/-! ## `rsplit(".", maxsplit=1)[-1]` -/

theorem takeWhile_eq_self {α : Type} (p : α → Bool) : ∀ l : List α, (∀ c ∈ l, p c = true) → l.takeWhile p = l := by
  intro l
  induction l with
  | nil => intro _; rfl
  | cons x xs ih =>
    intro h
    simp only [List.takeWhile_cons, h x (by simp), if_true]
    rw [ih (fun c hc => h c (by simp [hc]))]

theorem split_at_first (a : Char) : ∀ l : List Char, a ∈ l → ∃ r, l = l.takeWhile (· != a) ++ a :: r := by
  intro l
  induction l with
  | nil => intro h; cases h
  | cons x xs ih =>
    intro h
    by_cases hx : x = a
    · subst hx
      exact ⟨xs, by simp⟩
    · have hm : a ∈ xs := by
        rcases List.mem_cons.1 h with h | h
        · exact absurd h.symm hx
        · exact h
      obtain ⟨r, hr⟩ := ih hm
      refine ⟨r, ?_⟩
      have : (x != a) = true := by simp [hx]
      simp only [List.takeWhile_cons, this, if_true, List.cons_append]
      rw [← hr]

/-- what follows the last dot -/
theorem lastSeg_append_dot (stem ext : Str) (h : '.' ∉ ext) : lastSeg (stem ++ '.' :: ext) = ext := by
  unfold lastSeg
  have : (stem ++ '.' :: ext).reverse = ext.reverse ++ '.' :: stem.reverse := by simp
  rw [this, List.takeWhile_append_of_pos]
  · simp
  · intro c hc; simp at hc ⊢; rintro rfl; exact h hc

/-- no dot at all: the whole name -/
theorem lastSeg_no_dot (s : Str) (h : '.' ∉ s) : lastSeg s = s := by
  unfold lastSeg
  rw [takeWhile_eq_self, List.reverse_reverse]
  intro c hc; simp at hc ⊢; rintro rfl; exact h hc

/-- a name with a dot is `stem ++ "." ++ lastSeg name` -/
theorem lastSeg_split (name : Str) (hd : '.' ∈ name) : ∃ stem, name = stem ++ '.' :: lastSeg name := by
  obtain ⟨r, hr⟩ := split_at_first '.' name.reverse (List.mem_reverse.2 hd)
  refine ⟨r.reverse, ?_⟩
  unfold lastSeg
  generalize List.takeWhile (fun x => x != '.') name.reverse = tw at hr ⊢
  have h2 := congrArg List.reverse hr
  simpa using h2

theorem mem_takeWhile_pos {α : Type} (p : α → Bool) (a : α) : ∀ l : List α, a ∈ l.takeWhile p → p a = true := by
  intro l
  induction l with
  | nil => intro h; cases h
  | cons x xs ih =>
    intro h
    simp only [List.takeWhile_cons] at h
    split at h
    · rename_i hx
      rcases List.mem_cons.1 h with rfl | h
      · exact hx
      · exact ih h
    · cases h

theorem lastSeg_no_dot_inside (name : Str) : '.' ∉ lastSeg name := by
  unfold lastSeg
  intro h
  have := mem_takeWhile_pos _ _ _ (List.mem_reverse.1 h)
  simp at this

/-! ## the cast is the last step -/

/-- operations other than the cast do not look at `finalCast` -/
theorem foldlM_step_congr {α : Type} (P : Prims α) (p1 p2 : Plan) (hkey : p1.key = p2.key) :
    ∀ (l : List Op) (a : α), Op.cast ∉ l → l.foldlM (p1.step P) a = l.foldlM (p2.step P) a := by
  intro l
  induction l with
  | nil => intros; rfl
  | cons o os ih =>
    intro a hno
    have ho : o ≠ .cast := fun h => hno (by simp [h])
    have hstep : p1.step P a o = p2.step P a o := by
      cases o <;> simp [Plan.step, hkey] at ho ⊢
    simp only [List.foldlM_cons, hstep]
    congr 1
    funext b
    exact ih b (fun h => hno (by simp [h]))

theorem run_cast_last {α : Type} (P : Prims α) (r : Reader) (sel : KeySel) (dd : Option Str) (d : Str)
    (pre : List Op) (hpre : Op.cast ∉ pre) :
    Plan.run P ⟨r, sel, dd, some d, pre ++ [Op.cast]⟩ = Plan.run P ⟨r, sel, dd, none, pre⟩ >>= P.cast d := by
  simp only [Plan.run, List.foldlM_append, bind_assoc]
  congr 1
  funext a
  rw [foldlM_step_congr P ⟨r, sel, dd, some d, pre ++ [Op.cast]⟩ ⟨r, sel, dd, none, pre⟩ rfl pre a hpre]
  congr 1
  funext b
  simp [List.foldlM_cons, List.foldlM_nil, Plan.step]

theorem plan_finalCast (i : ReaderInfo) (g : Bool) (hm : i.dtype = .finalCast g) (pre : List Op)
    (hops : i.ops = pre ++ [Op.cast]) (hpre : Op.cast ∉ pre) (key : Key) (d : Str) (hd : d ≠ []) :
    i.plan key (some d) = (i.keySel key).map (fun sel => ⟨i.reader, sel, none, some d, pre ++ [Op.cast]⟩) ∧
    i.plan key none = (i.keySel key).map (fun sel => ⟨i.reader, sel, none, none, pre⟩) := by
  have hg : guardDtype g (some d) = some d := by
    cases g <;> simp [guardDtype, Option.filter, hd]
  have hg0 : guardDtype g none = none := by cases g <;> rfl
  have h1 : pre.filter (fun o => o != Op.cast) = pre := by
    rw [List.filter_eq_self]
    intro o ho
    have : o ≠ .cast := fun h => hpre (h ▸ ho)
    simp [this]
  unfold ReaderInfo.plan
  cases i.keySel key with
  | error err => exact ⟨rfl, rfl⟩
  | ok sel =>
    constructor
    · simp [hm, hg, hops, bind, Except.bind, pure, Except.pure, Except.map]
    · simp [hm, hg0, hops, bind, Except.bind, pure, Except.pure, Except.map, List.filter_append, h1]

/-! ## the inference chain -/

theorem apply_none_iff (e : Env) (name : Str) (r : Rule) : r.apply e name = none ↔ r.fires e name = false := by
  cases r <;> simp [Rule.apply, Rule.fires]

/-- the `else` of the chain is reached exactly when no test holds -/
theorem infer_error_iff (rules : List Rule) (els : Err) (e : Env) (name : Str) :
    inferForceAs rules els e name = .error els ↔ ∀ r ∈ rules, r.fires e name = false := by
  unfold inferForceAs
  constructor
  · intro h
    split at h
    · cases h
    · rename_i hnone
      rw [List.findSome?_eq_none_iff] at hnone
      intro r hr
      exact (apply_none_iff e name r).1 (hnone r hr)
  · intro h
    have : rules.findSome? (Rule.apply e name) = none := by
      rw [List.findSome?_eq_none_iff]
      intro r hr
      exact (apply_none_iff e name r).2 (h r hr)
    rw [this]

theorem hasSuffix_iff (name suf : Str) : hasSuffix name suf = true ↔ ∃ stem, name = stem ++ suf := by
  unfold hasSuffix
  rw [List.isSuffixOf_iff_suffix]
  constructor
  · rintro ⟨t, ht⟩; exact ⟨t, ht.symm⟩
  · rintro ⟨t, ht⟩; exact ⟨t, ht.symm⟩

/-! ## helper calls -/

theorem onImportError_eq (x y : Except Err Plan) :
    onImportError x y = if x = .error .importError then y else x := by
  unfold onImportError
  split
  · simp
  · rename_i h
    rw [if_neg]
    intro hx
    exact h hx

theorem keySel_error (i : ReaderInfo) (key : Key) (err : Err) (h : i.keySel key = .error err) :
    err = .typeError := by
  unfold ReaderInfo.keySel at h
  split at h
  · cases h
  · cases h
  · cases h
  · split at h
    · cases h
    · cases h
    · cases h; rfl

theorem plan_error (i : ReaderInfo) (key : Key) (dt : Option Str) (err : Err) (h : i.plan key dt = .error err) :
    err = .typeError := by
  unfold ReaderInfo.plan at h
  cases hk : i.keySel key with
  | error e0 =>
    rw [hk] at h
    simp only [bind, Except.bind] at h
    cases h
    exact keySel_error i key _ hk
  | ok sel =>
    rw [hk] at h
    simp only [bind, Except.bind] at h
    split at h <;> cases h

theorem plan_reader (i : ReaderInfo) (key : Key) (dt : Option Str) (p : Plan) (h : i.plan key dt = .ok p) :
    p.reader = i.reader := by
  unfold ReaderInfo.plan at h
  cases hk : i.keySel key with
  | error e0 => rw [hk] at h; cases h
  | ok sel =>
    rw [hk] at h
    simp only [bind, Except.bind] at h
    split at h <;> cases h <;> rfl

theorem callReader_importError_iff (e : Env) (i : ReaderInfo) (key : Key) (dt : Option Str) :
    callReader e i key dt = .error .importError ↔ i.reader ∈ e.missing := by
  unfold callReader
  constructor
  · intro h
    split at h
    · rename_i hm; simpa using hm
    · have := plan_error i key dt _ h
      cases this
  · intro hm
    have : e.missing.contains i.reader = true := by simpa using hm
    rw [if_pos this]

theorem callReader_reader (e : Env) (i : ReaderInfo) (key : Key) (dt : Option Str) (p : Plan)
    (h : callReader e i key dt = .ok p) : p.reader = i.reader := by
  unfold callReader at h
  split at h
  · cases h
  · exact plan_reader i key dt p h

/-! ## HDF5 depth-first search -/

theorem mem_insertDesc (x y : H5) : ∀ l : List H5, y ∈ insertDesc x l ↔ y = x ∨ y ∈ l := by
  intro l
  induction l with
  | nil => simp [insertDesc]
  | cons z zs ih =>
    simp only [insertDesc]
    split
    · simp
    · simp [ih]; constructor
      · rintro (h | h | h) <;> simp [h]
      · rintro (h | h | h) <;> simp [h]

theorem mem_sortDesc (y : H5) : ∀ l : List H5, y ∈ sortDesc l ↔ y ∈ l := by
  intro l
  induction l with
  | nil => simp [sortDesc]
  | cons z zs ih =>
    have : sortDesc (z :: zs) = insertDesc z (sortDesc zs) := rfl
    rw [this, mem_insertDesc, ih]; simp

theorem H5.sizeList_nil : H5.sizeList [] = 0 := by simp [H5.sizeList]
theorem H5.sizeList_cons (x : H5) (l : List H5) : H5.sizeList (x :: l) = x.size + H5.sizeList l := by
  simp [H5.sizeList]

theorem H5.size_pos (x : H5) : 0 < x.size := by
  cases x <;> simp [H5.size] <;> omega

theorem H5.sizeList_append (a b : List H5) : H5.sizeList (a ++ b) = H5.sizeList a + H5.sizeList b := by
  induction a with
  | nil => simp [H5.sizeList_nil]
  | cons x xs ih => simp [H5.sizeList_cons, ih]; omega

theorem H5.sizeList_reverse (a : List H5) : H5.sizeList a.reverse = H5.sizeList a := by
  induction a with
  | nil => rfl
  | cons x xs ih => simp [H5.sizeList_append, H5.sizeList_cons, H5.sizeList_nil, ih]; omega

theorem H5.sizeList_insertDesc (x : H5) (l : List H5) :
    H5.sizeList (insertDesc x l) = x.size + H5.sizeList l := by
  induction l with
  | nil => simp [insertDesc, H5.sizeList_cons]
  | cons y ys ih =>
    simp only [insertDesc]
    split
    · simp [H5.sizeList_cons]
    · simp [H5.sizeList_cons, ih]; omega

theorem H5.sizeList_sortDesc (l : List H5) : H5.sizeList (sortDesc l) = H5.sizeList l := by
  induction l with
  | nil => rfl
  | cons z zs ih =>
    have : sortDesc (z :: zs) = insertDesc z (sortDesc zs) := rfl
    rw [this, H5.sizeList_insertDesc, ih, H5.sizeList_cons]

theorem H5.depthList_le_iff (l : List H5) (d : Nat) : H5.depthList l ≤ d ↔ ∀ x ∈ l, x.depth ≤ d := by
  induction l with
  | nil => simp [H5.depthList]
  | cons x xs ih => simp [H5.depthList, Nat.max_le, ih]

theorem findSome?_congr_mem {α β : Type} (f g : α → Option β) :
    ∀ l : List α, (∀ x ∈ l, f x = g x) → l.findSome? f = l.findSome? g := by
  intro l
  induction l with
  | nil => intro _; rfl
  | cons x xs ih =>
    intro h
    simp only [List.findSome?_cons, h x (by simp)]
    split
    · rfl
    · exact ih (fun y hy => h y (by simp [hy]))

theorem firstD_dataset (d : Nat) (n : Str) (id : Nat) : firstD d (.dataset n id) = some id := by
  cases d <;> rfl

/-- looking deeper than the nesting depth changes nothing -/
theorem firstD_succ : ∀ (d : Nat) (x : H5), x.depth ≤ d → firstD (d + 1) x = firstD d x := by
  intro d
  induction d with
  | zero =>
    intro x hx
    cases x with
    | dataset n id => rfl
    | group n cs => simp [H5.depth] at hx
  | succ d ih =>
    intro x hx
    cases x with
    | dataset n id => rfl
    | group n cs =>
      simp only [H5.depth] at hx
      have hcs : ∀ c ∈ cs, c.depth ≤ d := (H5.depthList_le_iff cs d).1 (by omega)
      simp only [firstD]
      apply findSome?_congr_mem
      intro c hc
      exact ih c (hcs c ((mem_sortDesc c cs).1 (List.mem_reverse.1 hc)))

theorem firstD_of_le (x : H5) : ∀ (d d' : Nat), x.depth ≤ d → d ≤ d' → firstD d' x = firstD d x := by
  intro d d' h1 h2
  induction d' with
  | zero =>
    have : d = 0 := by omega
    subst this; rfl
  | succ k ih =>
    rcases Nat.lt_or_ge d (k + 1) with h | h
    · rw [firstD_succ k x (by omega)]
      exact ih (by omega)
    · have : d = k + 1 := by omega
      subst this; rfl

def ofFirst : Option Nat → Except Err Nat
  | some id => .ok id
  | none => .error .ioError

theorem h5Loop_eq : ∀ (n : Nat) (stack : List H5) (d : Nat), H5.sizeList stack ≤ n → H5.depthList stack ≤ d →
    h5Loop n stack = ofFirst (stack.findSome? (firstD d)) := by
  intro n
  induction n with
  | zero =>
    intro stack d hs _
    cases stack with
    | nil => rfl
    | cons x s =>
      have := H5.size_pos x
      rw [H5.sizeList_cons] at hs
      omega
  | succ n ih =>
    intro stack d hs hd
    cases stack with
    | nil => rfl
    | cons x s =>
      cases x with
      | dataset nm id => simp [h5Loop, firstD_dataset, ofFirst]
      | group nm cs =>
        simp only [h5Loop]
        have hd' := (H5.depthList_le_iff _ d).1 hd
        have hx : (H5.group nm cs).depth ≤ d := hd' _ (by simp)
        simp only [H5.depth] at hx
        obtain ⟨d0, rfl⟩ : ∃ d0, d = d0 + 1 := ⟨d - 1, by omega⟩
        have hcs : ∀ c ∈ cs, c.depth ≤ d0 := (H5.depthList_le_iff cs d0).1 (by omega)
        rw [ih ((sortDesc cs).reverse ++ s) (d0 + 1)]
        · rw [List.findSome?_append, List.findSome?_cons]
          have : firstD (d0 + 1) (H5.group nm cs) = (sortDesc cs).reverse.findSome? (firstD (d0 + 1)) := by
            simp only [firstD]
            apply findSome?_congr_mem
            intro c hc
            exact (firstD_succ d0 c (hcs c ((mem_sortDesc c cs).1 (List.mem_reverse.1 hc)))).symm
          rw [this]
          cases (sortDesc cs).reverse.findSome? (firstD (d0 + 1)) <;> rfl
        · rw [H5.sizeList_append, H5.sizeList_reverse, H5.sizeList_sortDesc]
          rw [H5.sizeList_cons] at hs
          simp only [H5.size] at hs
          omega
        · rw [H5.depthList_le_iff]
          intro c hc
          rcases List.mem_append.1 hc with h | h
          · have := hcs c ((mem_sortDesc c cs).1 (List.mem_reverse.1 h)); omega
          · exact hd' c (by simp [h])

theorem h5First_eq (file : H5) : h5First file = ofFirst (firstD file.depth file) := by
  unfold h5First
  rw [h5Loop_eq file.size [file] file.depth]
  · simp [List.findSome?_cons]
    cases firstD file.depth file <;> rfl
  · simp [H5.sizeList_cons, H5.sizeList_nil]
  · simp [H5.depthList]

/-! ### the visiting order is ascending by name -/

theorem char_tri (a b : Char) : a.val < b.val ∨ a = b ∨ b.val < a.val := by
  rcases Nat.lt_trichotomy a.val.toNat b.val.toNat with h | h | h
  · exact Or.inl (UInt32.lt_iff_toNat_lt.2 h)
  · exact Or.inr (Or.inl (Char.ext (UInt32.toNat_inj.1 h)))
  · exact Or.inr (Or.inr (UInt32.lt_iff_toNat_lt.2 h))

theorem strLe_cons (a b : Char) (as bs : Str) :
    strLe (a :: as) (b :: bs) = true ↔ a.val < b.val ∨ (a = b ∧ strLe as bs = true) := by
  simp [strLe]

theorem strLe_total : ∀ a b : Str, strLe a b = true ∨ strLe b a = true := by
  intro a
  induction a with
  | nil => intro b; left; simp [strLe]
  | cons x xs ih =>
    intro b
    cases b with
    | nil => right; simp [strLe]
    | cons y ys =>
      rw [strLe_cons, strLe_cons]
      rcases char_tri x y with h | h | h
      · exact Or.inl (Or.inl h)
      · subst h
        rcases ih ys with h | h
        · exact Or.inl (Or.inr ⟨rfl, h⟩)
        · exact Or.inr (Or.inr ⟨rfl, h⟩)
      · exact Or.inr (Or.inl h)

theorem strLe_trans : ∀ a b c : Str, strLe a b = true → strLe b c = true → strLe a c = true := by
  intro a
  induction a with
  | nil => intro b c _ _; simp [strLe]
  | cons x xs ih =>
    intro b c hab hbc
    cases b with
    | nil => simp [strLe] at hab
    | cons y ys =>
      cases c with
      | nil => simp [strLe] at hbc
      | cons z zs =>
        rw [strLe_cons] at hab hbc ⊢
        rcases hab with h1 | ⟨rfl, h1⟩
        · rcases hbc with h2 | ⟨rfl, h2⟩
          · exact Or.inl (UInt32.lt_trans h1 h2)
          · exact Or.inl h1
        · rcases hbc with h2 | ⟨rfl, h2⟩
          · exact Or.inl h2
          · exact Or.inr ⟨rfl, ih ys zs h1 h2⟩

/-- names in descending order -/
def DescSorted (l : List H5) : Prop := l.Pairwise (fun a b => strLe b.name a.name = true)

theorem descSorted_insertDesc (x : H5) (l : List H5) (h : DescSorted l) : DescSorted (insertDesc x l) := by
  induction l with
  | nil => simp [insertDesc, DescSorted]
  | cons y ys ih =>
    have hy := List.pairwise_cons.1 h
    simp only [insertDesc]
    split
    · rename_i hle
      refine List.pairwise_cons.2 ⟨?_, h⟩
      intro z hz
      rcases List.mem_cons.1 hz with rfl | hz
      · exact hle
      · exact strLe_trans _ _ _ (hy.1 z hz) hle
    · rename_i hle
      refine List.pairwise_cons.2 ⟨?_, ih hy.2⟩
      intro z hz
      rcases (mem_insertDesc x z ys).1 hz with rfl | hz
      · rcases strLe_total y.name z.name with h' | h'
        · exact absurd h' hle
        · exact h'
      · exact hy.1 z hz

theorem descSorted_sortDesc (l : List H5) : DescSorted (sortDesc l) := by
  induction l with
  | nil => simp [sortDesc, DescSorted]
  | cons z zs ih => exact descSorted_insertDesc z _ ih

/-- the order the children of a group are visited in is ascending by name -/
theorem visit_order_ascending (cs : List H5) :
    (sortDesc cs).reverse.Pairwise (fun a b => strLe a.name b.name = true) := by
  rw [List.pairwise_reverse]
  exact descSorted_sortDesc cs

end PdsVerif.Model.ReadSignal

/-
  C20 — the Odeh–Evans quantile approximation (`util._gauss_quant_odeh_evans`): closed form of the
  generated definition, monotonicity of its rational part, and monotonicity of the whole function in `p`.

  Nothing here is about *accuracy* (|gauss_quant p − Φ⁻¹(p)| ≤ 1e-6 is approximation theory and is only
  sampled by the oracle).
-/
import PdsVerif.Generated.UtilFns
import PdsVerif.RealNum
import Mathlib.Analysis.Complex.ExponentialBounds
import Mathlib.Tactic

namespace PdsVerif.C20.Gauss
open PdsVerif PdsVerif.Gen.UtilFns Set

/-- numerator of the published rational function (Odeh & Evans 1974: p₀…p₄, signs folded in) -/
noncomputable def num (y : ℝ) : ℝ :=
  ((((((((4.53642210148e-05 * y) + 0.0204231210245) * y) + 0.342242088547) * y) + 1.0) * y) + 0.322232431088)

/-- denominator (q₀…q₄) -/
noncomputable def den (y : ℝ) : ℝ :=
  ((((((((0.0038560700634 * y) + 0.10353775285) * y) + 0.531103462366) * y) + 0.588581570495) * y) + 0.099348462606)

/-- `z = y − num(y)/den(y)` -/
noncomputable def G (y : ℝ) : ℝ := y - num y / den y

/-- `y = sqrt(−2 ln r)` -/
noncomputable def Y (r : ℝ) : ℝ := Real.sqrt ((-2.0) * Real.log r)

/-- upper-tail quantile as a function of the tail mass `r`, with the code's cut-off at `1e-20` -/
noncomputable def core (r : ℝ) : ℝ := if r < 1e-20 then 10.0 else G (Y r)

/-- tail mass: `r = 1 - p if p > 0.5 else p` -/
noncomputable def rOf (p : ℝ) : ℝ := if 0.5 < p then 1.0 - p else p

/-- standard quantile: sign flip below the median -/
noncomputable def zOf (p : ℝ) : ℝ := if p < 0.5 then -core (rOf p) else core (rOf p)

/-- The generated function *is* the published closed form (any change of a coefficient, of the cut-off,
of a branch test or of a sign in the source breaks this theorem). -/
theorem closed_form (p mu std : ℝ) : gauss_quant_odeh_evans p mu std = zOf p * std + mu := by
  simp only [gauss_quant_odeh_evans, zOf, core, G, Y, num, den, rOf, transc_sqrt, transc_log]
  split_ifs <;> rfl

theorem den_pos {y : ℝ} (hy : 0 ≤ y) : 0 < den y := by unfold den; positivity
theorem num_pos {y : ℝ} (hy : 0 ≤ y) : 0 < num y := by unfold num; positivity

theorem G_lt_self {y : ℝ} (hy : 0 ≤ y) : G y < y := by
  have := div_pos (num_pos hy) (den_pos hy)
  unfold G; linarith

/-- all 25 coefficients of `[(y₂−y₁)·D₁D₂ − (N₂D₁ − N₁D₂)] / (y₂−y₁)` are positive -/
noncomputable def S (y1 y2 : ℝ) : ℝ :=
    0.100181724770372681859796 +
    0.195612208648142586470696 * y2 ^ 1 +
    0.084098528605629329226749 * y2 ^ 2 +
    0.0115243605326873960409066312 * y2 ^ 3 +
    0.0003830946324998109492204 * y2 ^ 4 +
    0.195612208648142586470696 * y1 ^ 1 +
    0.707428557660722191865213 * y1 ^ 1 * y2 ^ 1 +
    0.4053528341430626462328491312 * y1 ^ 1 * y2 ^ 2 +
    0.064769782696926988894111674 * y1 ^ 1 * y2 ^ 3 +
    0.002269611773854726219383 * y1 ^ 1 * y2 ^ 4 +
    0.084098528605629329226749 * y1 ^ 2 +
    0.4053528341430626462328491312 * y1 ^ 2 * y2 ^ 1 +
    0.310488443746519307546300674 * y1 ^ 2 * y2 ^ 2 +
    0.0562848754014632662088507832 * y1 ^ 2 * y2 ^ 3 +
    0.0020479721617976211340044 * y1 ^ 2 * y2 ^ 4 +
    0.0115243605326873960409066312 * y1 ^ 3 +
    0.064769782696926988894111674 * y1 ^ 3 * y2 ^ 1 +
    0.0562848754014632662088507832 * y1 ^ 3 * y2 ^ 2 +
    0.01079412234130778957186112 * y1 ^ 3 * y2 ^ 3 +
    0.00039924882919659303069 * y1 ^ 3 * y2 ^ 4 +
    0.0003830946324998109492204 * y1 ^ 4 +
    0.002269611773854726219383 * y1 ^ 4 * y2 ^ 1 +
    0.0020479721617976211340044 * y1 ^ 4 * y2 ^ 2 +
    0.00039924882919659303069 * y1 ^ 4 * y2 ^ 3 +
    0.00001486927633384968001956 * y1 ^ 4 * y2 ^ 4

theorem S_key (y1 y2 : ℝ) :
    (y2 - y1) * (den y1 * den y2) - (num y2 * den y1 - num y1 * den y2) = (y2 - y1) * S y1 y2 := by
  unfold num den S
  rw [show (1.0:ℝ) = 1 by norm_num]  -- `ring` mis-handles integral scientific literals
  ring

/-- the rational part `y ↦ y − N(y)/D(y)` is strictly increasing on `y ≥ 0` -/
theorem G_strictMonoOn : StrictMonoOn G (Ici 0) := by
  intro y1 h1 y2 h2 h12
  have h1' : 0 ≤ y1 := h1
  have h2' : 0 ≤ y2 := h2
  have d1 := den_pos h1'
  have d2 := den_pos h2'
  have hS : 0 < S y1 y2 := by unfold S; positivity
  have key := S_key y1 y2
  have hpos : 0 < (y2 - y1) * S y1 y2 := mul_pos (by linarith) hS
  unfold G
  rw [← sub_pos]
  have e : y2 - num y2 / den y2 - (y1 - num y1 / den y1)
      = ((y2 - y1) * (den y1 * den y2) - (num y2 * den y1 - num y1 * den y2)) / (den y1 * den y2) := by
    field_simp; ring
  rw [e, key]
  exact div_pos hpos (mul_pos d1 d2)

theorem Y_nonneg (r : ℝ) : 0 ≤ Y r := Real.sqrt_nonneg _

theorem Y_anti {r1 r2 : ℝ} (h0 : 0 < r1) (h12 : r1 ≤ r2) : Y r2 ≤ Y r1 := by
  unfold Y
  apply Real.sqrt_le_sqrt
  have := Real.log_le_log h0 h12
  linarith

theorem Y_strictAnti {r1 r2 : ℝ} (h0 : 0 < r1) (h12 : r1 < r2) (h2 : r2 ≤ 1) : Y r2 < Y r1 := by
  unfold Y
  apply Real.sqrt_lt_sqrt
  · have := Real.log_nonpos (by linarith) h2; linarith
  · have := Real.log_lt_log h0 h12; linarith

theorem log_ten_lt : Real.log 10 < 2.4 := by
  have h2 := Real.log_two_lt_d9
  have h : Real.log 10 = 3 * Real.log 2 + Real.log 1.25 := by
    rw [show (10:ℝ) = 2 ^ 3 * 1.25 by norm_num, Real.log_mul (by norm_num) (by norm_num), Real.log_pow]
    norm_num
  have h3 : Real.log 1.25 ≤ 1.25 - 1 := Real.log_le_sub_one_of_pos (by norm_num)
  rw [h]; linarith

/-- above the cut-off, `y < 10` -/
theorem Y_lt_ten {r : ℝ} (hr : 1e-20 ≤ r) : Y r < 10 := by
  unfold Y
  rw [Real.sqrt_lt' (by norm_num)]
  have hpos : (0:ℝ) < 1e-20 := by norm_num
  have h1 : Real.log 1e-20 ≤ Real.log r := Real.log_le_log hpos hr
  have h2 : Real.log (1e-20:ℝ) = -(20 * Real.log 10) := by
    rw [show (1e-20:ℝ) = ((10:ℝ) ^ 20)⁻¹ by norm_num, Real.log_inv, Real.log_pow]; norm_num
  have := log_ten_lt
  rw [h2] at h1
  norm_num; linarith

theorem core_le_ten {r : ℝ} : core r ≤ 10 := by
  unfold core
  split_ifs with h
  · norm_num
  · have h' : (1e-20:ℝ) ≤ r := not_lt.mp h
    have := G_lt_self (Y_nonneg r)
    have := Y_lt_ten h'
    linarith

/-- `core` is non-increasing in the tail mass on `(0, 1]` … -/
theorem core_anti {r1 r2 : ℝ} (h0 : 0 < r1) (h12 : r1 ≤ r2) : core r2 ≤ core r1 := by
  by_cases h1 : r1 < 1e-20
  · have e : core r1 = 10 := by unfold core; rw [if_pos h1]; norm_num
    rw [e]; exact core_le_ten
  · have h2 : ¬ r2 < 1e-20 := by intro h; exact h1 (lt_of_le_of_lt h12 h)
    unfold core; rw [if_neg h1, if_neg h2]
    exact G_strictMonoOn.monotoneOn (Y_nonneg r2) (Y_nonneg r1) (Y_anti h0 h12)

/-- … and strictly decreasing above the cut-off -/
theorem core_strictAnti {r1 r2 : ℝ} (h1 : 1e-20 ≤ r1) (h12 : r1 < r2) (h2 : r2 ≤ 1) : core r2 < core r1 := by
  have h0 : (0:ℝ) < r1 := lt_of_lt_of_le (by norm_num) h1
  have n1 : ¬ r1 < 1e-20 := not_lt.mpr h1
  have n2 : ¬ r2 < 1e-20 := not_lt.mpr (le_trans h1 h12.le)
  unfold core; rw [if_neg n1, if_neg n2]
  exact G_strictMonoOn (Y_nonneg r2) (Y_nonneg r1) (Y_strictAnti h0 h12 h2)

/-- the rational part is already positive at (a lower bound of) the median's `y = sqrt(2 ln 2)` -/
theorem G_ylo_pos : 0 < G 1.177410018 := by
  unfold G
  have hd : 0 < den 1.177410018 := den_pos (by norm_num)
  rw [sub_pos, div_lt_iff₀ hd]
  unfold num den; norm_num

theorem ylo_le_Y_half {r : ℝ} (h0 : 0 < r) (hr : r ≤ 0.5) : (1.177410018:ℝ) ≤ Y r := by
  unfold Y
  apply Real.le_sqrt_of_sq_le
  have h1 : Real.log r ≤ Real.log 0.5 := Real.log_le_log h0 hr
  have h2 : Real.log (0.5:ℝ) = -Real.log 2 := by
    rw [show (0.5:ℝ) = 2⁻¹ by norm_num, Real.log_inv]
  have := Real.log_two_gt_d9
  rw [h2] at h1
  norm_num; linarith

/-- on the lower half `0 < r ≤ 1/2` the upper-tail quantile is positive (so the sign flip at the median
cannot break monotonicity: the approximation's zero crossing is at `r ≈ 0.49999999595 < 1/2`… from the
other side: `G(sqrt(2 ln 2)) ≈ 1.49e-8 > 0`) -/
theorem core_pos {r : ℝ} (h0 : 0 < r) (hr : r ≤ 0.5) : 0 < core r := by
  unfold core
  split_ifs
  · norm_num
  · have hy := ylo_le_Y_half h0 hr
    have := G_strictMonoOn.monotoneOn (show (1.177410018:ℝ) ∈ Ici 0 by norm_num [Set.mem_Ici]) (Y_nonneg r) hy
    linarith [G_ylo_pos]

theorem rOf_pos {p : ℝ} (h0 : 0 < p) (h1 : p < 1) : 0 < rOf p := by
  unfold rOf; split_ifs <;> norm_num <;> linarith

theorem rOf_le_half (p : ℝ) : rOf p ≤ 0.5 ∨ p < 0.5 := by
  by_cases h : p < 0.5
  · exact Or.inr h
  · left; unfold rOf; split_ifs with h'
    · norm_num at h' ⊢; linarith
    · push Not at h h'; linarith

/-- standard quantile is non-decreasing on `(0,1)` -/
theorem zOf_mono {p1 p2 : ℝ} (h0 : 0 < p1) (h12 : p1 ≤ p2) (h1 : p2 < 1) : zOf p1 ≤ zOf p2 := by
  by_cases a : p2 < 0.5
  · -- both below the median
    have a1 : p1 < 0.5 := lt_of_le_of_lt h12 a
    have e1 : rOf p1 = p1 := by unfold rOf; rw [if_neg (by linarith)]
    have e2 : rOf p2 = p2 := by unfold rOf; rw [if_neg (by linarith)]
    unfold zOf; rw [if_pos a1, if_pos a, e1, e2]
    have := core_anti h0 h12; linarith
  · by_cases b : p1 < 0.5
    · -- the median lies between them
      have r2 : rOf p2 ≤ 0.5 := (rOf_le_half p2).resolve_right a
      have c2 := core_pos (rOf_pos (by linarith) h1) r2
      have e1 : rOf p1 = p1 := by unfold rOf; rw [if_neg (by linarith)]
      have c1 := core_pos h0 (by linarith : p1 ≤ 0.5)
      unfold zOf; rw [if_pos b, if_neg a, e1]; linarith
    · -- both at or above the median
      have hr : rOf p2 ≤ rOf p1 := by
        unfold rOf; split_ifs <;> norm_num at * <;> linarith
      have := core_anti (rOf_pos (by linarith) h1) hr
      unfold zOf; rw [if_neg b, if_neg a]; exact this

/-- … and strictly increasing between the two cut-offs -/
theorem zOf_strictMono {p1 p2 : ℝ} (h0 : 1e-20 ≤ p1) (h12 : p1 < p2) (h1 : p2 ≤ 1 - 1e-20) : zOf p1 < zOf p2 := by
  have p1pos : (0:ℝ) < p1 := lt_of_lt_of_le (by norm_num) h0
  have p2lt : p2 < 1 := by norm_num at h1; linarith
  by_cases a : p2 < 0.5
  · have a1 : p1 < 0.5 := lt_trans h12 a
    have e1 : rOf p1 = p1 := by unfold rOf; rw [if_neg (by linarith)]
    have e2 : rOf p2 = p2 := by unfold rOf; rw [if_neg (by linarith)]
    unfold zOf; rw [if_pos a1, if_pos a, e1, e2]
    have := core_strictAnti h0 h12 (by linarith); linarith
  · by_cases b : p1 < 0.5
    · have r2 : rOf p2 ≤ 0.5 := (rOf_le_half p2).resolve_right a
      have c2 := core_pos (rOf_pos (by linarith) p2lt) r2
      have e1 : rOf p1 = p1 := by unfold rOf; rw [if_neg (by linarith)]
      have c1 := core_pos p1pos (by linarith : p1 ≤ 0.5)
      unfold zOf; rw [if_pos b, if_neg a, e1]; linarith
    · have hr : rOf p2 < rOf p1 := by
        unfold rOf; split_ifs <;> norm_num at * <;> linarith
      have hlo : (1e-20:ℝ) ≤ rOf p2 := by
        unfold rOf; split_ifs <;> norm_num at * <;> linarith
      have hhi : rOf p1 ≤ 1 := by
        unfold rOf; split_ifs <;> norm_num at * <;> linarith
      have := core_strictAnti hlo hr hhi
      unfold zOf; rw [if_neg b, if_neg a]; exact this

end PdsVerif.C20.Gauss

/-
  C13 — generic facts about running `Prog`s: the monitor is irrelevant, simulation between two
  readers, truncation of the input, consumption, absence of fuel errors.
-/
import PdsVerif.Lemmas.ShortenBits
namespace PdsVerif.Model.Shorten
namespace Prog
variable {α β σ σ' : Type}

/-- the monitored run computes the same value and reader state as the plain run -/
theorem runM_run (uv : Nat → σ → Except Err (Nat × σ)) (p : Prog α) (s : σ) (fl : Bool) :
    (match p.runM uv s fl with
      | .error e => Except.error e
      | .ok (a, s', _) => Except.ok (a, s')) = p.run uv s := by
  induction p generalizing s fl with
  | ret a => rfl
  | fail e => rfl
  | read k c ih =>
    simp only [runM, run]
    cases uv k s with
    | error e => rfl
    | ok v => exact ih v.1 v.2 fl
  | chk b c ih => exact ih s (fl && b)

/-- outcome `r1` (reader state `σ`) is outcome `r2` (reader state `σ'`) seen through `abs` -/
def Matches {γ : Type} (abs : σ → σ') (Inv : σ → Prop) (r1 : Except Err (γ × σ)) (r2 : Except Err (γ × σ')) :
    Prop :=
  match r2 with
  | .error e => r1 = .error e
  | .ok (a, t) => ∃ s', r1 = .ok (a, s') ∧ abs s' = t ∧ Inv s'

/-- a reader `uv1` over `σ` that, seen through `abs`, behaves like `uv2` over `σ'` (on states satisfying
    `Inv`) runs every program the same way -/
theorem run_sim (uv1 : Nat → σ → Except Err (Nat × σ)) (uv2 : Nat → σ' → Except Err (Nat × σ'))
    (abs : σ → σ') (Inv : σ → Prop)
    (hsim : ∀ k s, Inv s → Matches abs Inv (uv1 k s) (uv2 k (abs s)))
    (p : Prog α) (s : σ) (hs : Inv s) :
    Matches abs Inv (p.run uv1 s) (p.run uv2 (abs s)) := by
  induction p generalizing s with
  | ret a => exact ⟨s, rfl, rfl, hs⟩
  | fail e => rfl
  | read k c ih =>
    have h1 := hsim k s hs
    unfold Matches at h1
    simp only [run]
    cases h2 : uv2 k (abs s) with
    | error e => rw [h2] at h1; simp only at h1; simp only [h1]; rfl
    | ok v =>
      obtain ⟨n, t⟩ := v
      rw [h2] at h1
      obtain ⟨s', e1, e2, e3⟩ := h1
      simp only [e1]
      have := ih n s' e3
      rw [e2] at this
      exact this
  | chk b c ih => exact ih s hs

/-- the same for the monitored run (the flag is untouched by the reader) -/
theorem runM_sim (uv1 : Nat → σ → Except Err (Nat × σ)) (uv2 : Nat → σ' → Except Err (Nat × σ'))
    (abs : σ → σ') (Inv : σ → Prop)
    (hsim : ∀ k s, Inv s → Matches abs Inv (uv1 k s) (uv2 k (abs s)))
    (p : Prog α) (s : σ) (hs : Inv s) (fl : Bool) :
    match p.runM uv2 (abs s) fl with
    | .error e => p.runM uv1 s fl = .error e
    | .ok (a, t, fl') => ∃ s', p.runM uv1 s fl = .ok (a, s', fl') ∧ abs s' = t ∧ Inv s' := by
  induction p generalizing s fl with
  | ret a => exact ⟨s, rfl, rfl, hs⟩
  | fail e => rfl
  | read k c ih =>
    have h1 := hsim k s hs
    unfold Matches at h1
    simp only [runM]
    cases h2 : uv2 k (abs s) with
    | error e => rw [h2] at h1; simp only at h1; simp only [h1]
    | ok v =>
      obtain ⟨n, t⟩ := v
      rw [h2] at h1
      obtain ⟨s', e1, e2, e3⟩ := h1
      simp only [e1]
      have := ih n s' e3 fl
      rw [e2] at this
      exact this
  | chk b c ih => exact ih s hs (fl && b)

end Prog
end PdsVerif.Model.Shorten

/-
  Lemmas about the array view used by the Standardize model: `vectorsAlong A F B data` enumerates exactly
  the strided feature vectors `[data[(a*F+i)*B+b] | i < F]` for `(a, b)` in row-major order, is total on
  well-formed arrays, and `unview` is its inverse.
-/
import PdsVerif.Model.Standardize
import Mathlib.Tactic

namespace PdsVerif.Model.Standardize

theorem allSome_eq_some {β : Type} {l : List (Option β)} {r : List β} (h : allSome l = some r) :
    l = r.map some := by
  induction l generalizing r with
  | nil => simp [allSome] at h; subst h; rfl
  | cons x xs ih =>
    cases x with
    | none => simp [allSome] at h
    | some x =>
      simp only [allSome] at h
      cases hxs : allSome xs with
      | none => rw [hxs] at h; cases h
      | some r' =>
        rw [hxs] at h
        cases h
        simp [ih hxs]

theorem allSome_map_some {β : Type} (r : List β) : allSome (r.map some) = some r := by
  induction r with
  | nil => rfl
  | cons x r ih => simp [allSome, ih]

theorem allSome_range_get {β : Type} {n : Nat} {g : Nat → Option β} {r : List β}
    (h : allSome ((List.range n).map g) = some r) :
    r.length = n ∧ ∀ k, k < n → ∃ x, g k = some x ∧ r[k]? = some x := by
  have h' := allSome_eq_some h
  have hl : r.length = n := by
    have := congrArg List.length h'
    simpa using this.symm
  refine ⟨hl, fun k hk => ?_⟩
  have := congrArg (fun l => l[k]?) h'
  simp only [List.getElem?_map, List.getElem?_range hk, Option.map_some] at this
  cases hr : r[k]? with
  | none => rw [hr] at this; simp at this
  | some x => rw [hr] at this; exact ⟨x, by simpa using this, rfl⟩

theorem allSome_isSome {β : Type} {l : List (Option β)} (hl : ∀ o ∈ l, ∃ x, o = some x) :
    ∃ r, allSome l = some r := by
  induction l with
  | nil => exact ⟨[], rfl⟩
  | cons o l ih =>
    obtain ⟨x, rfl⟩ := hl o List.mem_cons_self
    obtain ⟨r, hr⟩ := ih fun o' ho' => hl o' (List.mem_cons_of_mem _ ho')
    exact ⟨x :: r, by simp [allSome, hr]⟩

theorem allSome_range_isSome {β : Type} {n : Nat} {g : Nat → Option β}
    (hg : ∀ k, k < n → ∃ x, g k = some x) : ∃ r, allSome ((List.range n).map g) = some r := by
  apply allSome_isSome
  intro o ho
  obtain ⟨k, hk, rfl⟩ := List.mem_map.1 ho
  exact hg k (List.mem_range.1 hk)

/-! ## strides -/

theorem idx_div {a b B : Nat} (hb : b < B) : (a * B + b) / B = a := by
  have hB : 0 < B := by omega
  rw [Nat.add_comm, Nat.add_mul_div_right _ _ hB, Nat.div_eq_of_lt hb, Nat.zero_add]

theorem idx_mod {a b B : Nat} (hb : b < B) : (a * B + b) % B = b := by
  rw [Nat.add_comm, Nat.add_mul_mod_self_right, Nat.mod_eq_of_lt hb]

theorem idx_lt {a b A B : Nat} (ha : a < A) (hb : b < B) : a * B + b < A * B := by
  calc a * B + b < a * B + B := by omega
    _ = (a + 1) * B := by ring
    _ ≤ A * B := Nat.mul_le_mul_right _ ha

theorem flat_lt {a i b A F B : Nat} (ha : a < A) (hi : i < F) (hb : b < B) :
    (a * F + i) * B + b < A * F * B :=
  idx_lt (idx_lt ha hi) hb

/-- **`vectorsAlong` enumerates exactly the strided feature vectors.**  It returns `A*B` vectors of
length `F`, and entry `i` of vector `a*B + b` is `data[(a*F + i)*B + b]` — the element of the row-major
array of shape `pre ++ [F] ++ post` at multi-index `(a, i, b)` (see `ravel_split`). -/
theorem vectorsAlong_spec {α : Type} {A F B : Nat} {data : List α} {vs : List (List α)}
    (h : vectorsAlong A F B data = some vs) :
    vs.length = A * B ∧ (∀ v ∈ vs, v.length = F) ∧
      ∀ a b i, a < A → b < B → i < F →
        ∃ v x, vs[a * B + b]? = some v ∧ v[i]? = some x ∧ data[(a * F + i) * B + b]? = some x := by
  unfold vectorsAlong at h
  obtain ⟨hl, hget⟩ := allSome_range_get h
  refine ⟨hl, ?_, ?_⟩
  · intro v hv
    obtain ⟨k, hk, hvk⟩ := List.getElem_of_mem hv
    have hk' : k < A * B := by omega
    obtain ⟨v', hv', hk2⟩ := hget k hk'
    rw [List.getElem?_eq_getElem hk, hvk] at hk2
    cases hk2
    exact (allSome_range_get hv').1
  · intro a b i ha hb hi
    obtain ⟨v, hv, hk⟩ := hget (a * B + b) (idx_lt ha hb)
    obtain ⟨_, hget2⟩ := allSome_range_get hv
    obtain ⟨x, hx, hvi⟩ := hget2 i hi
    rw [idx_div hb, idx_mod hb] at hx
    exact ⟨v, x, hk, hvi, hx⟩

/-- `vectorsAlong` succeeds on every well-formed array -/
theorem vectorsAlong_isSome {α : Type} {A F B : Nat} {data : List α}
    (hlen : data.length = A * F * B) : ∃ vs, vectorsAlong A F B data = some vs := by
  unfold vectorsAlong
  apply allSome_range_isSome
  intro k hk
  apply allSome_range_isSome
  intro i hi
  have hB : 0 < B := by
    rcases Nat.eq_zero_or_pos B with h | h
    · subst h; simp at hk
    · exact h
  have ha : k / B < A := Nat.div_lt_of_lt_mul (by rw [Nat.mul_comm]; exact hk)
  have hb : k % B < B := Nat.mod_lt _ hB
  have := flat_lt ha hi hb
  exact ⟨data[(k / B * F + i) * B + k % B]'(by omega), List.getElem?_eq_getElem _⟩

/-- `unview` undoes `vectorsAlong`: the result of `apply` is laid out like its input -/
theorem unview_vectorsAlong {α : Type} {A F B : Nat} {data : List α} {vs : List (List α)}
    (hlen : data.length = A * F * B) (h : vectorsAlong A F B data = some vs) :
    unview A F B vs = some data := by
  obtain ⟨_, _, hspec⟩ := vectorsAlong_spec h
  unfold unview
  have : (List.range (A * F * B)).map (unviewAt F B vs) = data.map some := by
    apply List.ext_getElem?
    intro k
    rcases Nat.lt_or_ge k (A * F * B) with hk | hk
    · have hFB : 0 < F * B := by
        rcases Nat.eq_zero_or_pos (F * B) with h0 | h0
        · rw [Nat.mul_assoc, h0] at hk; simp at hk
        · exact h0
      have hB : 0 < B := Nat.pos_of_mul_pos_left hFB
      have hF : 0 < F := Nat.pos_of_mul_pos_right hFB
      have ha : k / (F * B) < A := Nat.div_lt_of_lt_mul (by rw [Nat.mul_comm, ← Nat.mul_assoc]; exact hk)
      have hb : k % B < B := Nat.mod_lt _ hB
      have hi : (k / B) % F < F := Nat.mod_lt _ hF
      obtain ⟨v, x, hv, hx, hd⟩ := hspec _ _ _ ha hb hi
      have hkk : (k / (F * B) * F + k / B % F) * B + k % B = k := by
        have h1 : k / (F * B) = k / B / F := by rw [Nat.mul_comm, Nat.div_div_eq_div_mul]
        rw [h1, Nat.mul_comm (k / B / F) F, Nat.div_add_mod, Nat.mul_comm, Nat.div_add_mod]
      rw [hkk] at hd
      simp only [List.getElem?_map, List.getElem?_range hk, Option.map_some, unviewAt, hv, hx, hd]
    · rw [List.getElem?_eq_none (by simpa using hk), List.getElem?_eq_none (by simpa [hlen] using hk)]
  rw [this, allSome_map_some]

/-- `unview` places entry `i` of vector `a*B + b` at flat index `(a*F + i)*B + b` -/
theorem unview_spec {α : Type} {A F B : Nat} {ys : List (List α)} {d : List α}
    (h : unview A F B ys = some d) {a i b : Nat} (ha : a < A) (hi : i < F) (hb : b < B) :
    ∃ v x, ys[a * B + b]? = some v ∧ v[i]? = some x ∧ d[(a * F + i) * B + b]? = some x := by
  unfold unview at h
  obtain ⟨_, hget⟩ := allSome_range_get h
  obtain ⟨x, hx, hd⟩ := hget _ (flat_lt ha hi hb)
  have h1 : ((a * F + i) * B + b) / (F * B) = a := by
    rw [Nat.mul_comm F B, ← Nat.div_div_eq_div_mul, idx_div hb, idx_div hi]
  have h2 : ((a * F + i) * B + b) % B = b := idx_mod hb
  have h3 : ((a * F + i) * B + b) / B % F = i := by rw [idx_div hb, idx_mod hi]
  unfold unviewAt at hx
  rw [h1, h2, h3] at hx
  cases hv : ys[a * B + b]? with
  | none => rw [hv] at hx; cases hx
  | some v => rw [hv] at hx; exact ⟨v, x, rfl, hx, hd⟩

/-- what a successful `Tensor.view` returns -/
theorem view_spec {α : Type} {t : Tensor α} {axis : Int} {w : View α} (h : t.view axis = .ok w) :
    ∃ ax, normAxis t.shape.length axis = .ok ax ∧ t.shape[ax]? = some w.F ∧
      w.A = prodNat (t.shape.take ax) ∧ w.B = prodNat (t.shape.drop (ax + 1)) ∧
      t.data.length = w.A * w.F * w.B ∧ vectorsAlong w.A w.F w.B t.data = some w.vecs := by
  unfold Tensor.view at h
  split at h
  · cases h
  · rename_i ax hax
    split at h
    · cases h
    · rename_i F hF
      simp only at h
      split at h
      · cases h
      · rename_i hlen
        split at h
        · cases h
        · rename_i vs hvs
          cases h
          exact ⟨ax, hax, hF, rfl, rfl, by simpa using hlen, hvs⟩

/-! ## row-major multi-indices -/

/-- row-major (C order) flat index of a multi-index -/
def ravel : List Nat → List Nat → Nat
  | _ :: shape, j :: idx => j * prodNat shape + ravel shape idx
  | _, _ => 0

theorem prodNat_eq_prod (l : List Nat) : prodNat l = l.prod := by
  unfold prodNat
  rw [List.prod_eq_foldl]

theorem prodNat_cons (d : Nat) (l : List Nat) : prodNat (d :: l) = d * prodNat l := by
  simp [prodNat_eq_prod]

theorem prodNat_append (l₁ l₂ : List Nat) : prodNat (l₁ ++ l₂) = prodNat l₁ * prodNat l₂ := by
  simp [prodNat_eq_prod]

/-- the flat index of `(pre-index, i, post-index)` in an array of shape `pre ++ [F] ++ post` is
`(a*F + i)*B + b` with `a`, `b` the flat indices inside `pre`, `post`: the strides `vectorsAlong` uses
are NumPy's C-order strides for that axis. -/
theorem ravel_split (pre post ip iq : List Nat) (F i : Nat) (hp : ip.length = pre.length) :
    ravel (pre ++ F :: post) (ip ++ i :: iq) =
      (ravel pre ip * F + i) * prodNat post + ravel post iq := by
  induction pre generalizing ip with
  | nil =>
    cases ip with
    | nil => simp [ravel]
    | cons _ _ => simp at hp
  | cons d pre ih =>
    cases ip with
    | nil => simp at hp
    | cons j ip =>
      have hp' : ip.length = pre.length := by simpa using hp
      simp only [List.cons_append, ravel, ih ip hp', prodNat_append, prodNat_cons]
      ring

end PdsVerif.Model.Standardize

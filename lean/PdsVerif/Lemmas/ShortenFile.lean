/-
  C13 — file level: the bytes `encodeFile` writes decode, through the word reader, to `sem`.
-/
import PdsVerif.Lemmas.ShortenFuel
namespace PdsVerif.Model.Shorten
open PdsVerif.Gen.Shorten

theorem byte_roundtrip (a b c d e f g h : Bool) :
    byteBits (bitsToByte [a, b, c, d, e, f, g, h]) = [a, b, c, d, e, f, g, h] ∧
      bitsToByte [a, b, c, d, e, f, g, h] < 256 := by
  cases a <;> cases b <;> cases c <;> cases d <;> cases e <;> cases f <;> cases g <;> cases h <;> decide

theorem packBytes_spec : ∀ (n f : Nat) (bits : List Bool), bits.length = 8 * n → n ≤ f →
    (packBytes f bits).flatMap byteBits = bits ∧ (packBytes f bits).length = n ∧ Bytes (packBytes f bits) := by
  intro n
  induction n with
  | zero =>
    intro f bits hl _
    have : bits = [] := List.eq_nil_of_length_eq_zero (by omega)
    subst this
    cases f <;> exact ⟨rfl, rfl, by intro b hb; simp [packBytes] at hb⟩
  | succ n ih =>
    intro f bits hl hf
    obtain ⟨f', rfl⟩ : ∃ f', f = f' + 1 := ⟨f - 1, by omega⟩
    match bits, hl with
    | a :: b :: c :: d :: e :: f1 :: g :: h :: rest, hl =>
      have hrest : rest.length = 8 * n := by simp at hl; omega
      obtain ⟨i1, i2, i3⟩ := ih f' rest hrest (by omega)
      have hb := byte_roundtrip a b c d e f1 g h
      simp only [packBytes, List.isEmpty_cons, Bool.false_eq_true, if_false, List.cons_append, List.take_succ_cons,
        List.take_zero, List.drop_succ_cons, List.drop_zero, List.flatMap_cons, List.length_cons]
      refine ⟨by rw [hb.1, i1]; rfl, by rw [i2], ?_⟩
      intro x hx
      simp only [List.mem_cons] at hx
      rcases hx with rfl | hx
      · exact hb.2
      · exact i3 x hx

theorem wordBits_flatMap : ∀ (n : Nat) (l : List Nat), l.length = 4 * n → wordBits l = l.flatMap byteBits := by
  intro n
  induction n with
  | zero => intro l hl; have : l = [] := List.eq_nil_of_length_eq_zero (by omega); subst this; rfl
  | succ n ih =>
    intro l hl
    match l, hl with
    | a :: b :: c :: d :: rest, hl =>
      have : rest.length = 4 * n := by simp at hl; omega
      simp [wordBits, ih rest this]

/-- the zero-padded bit stream of a program -/
def paddedBits (p : Program) : List Bool :=
  encode p ++ List.replicate ((32 - (encode p).length % 32) % 32) false

theorem paddedBits_length (p : Program) : ∃ n, (paddedBits p).length = 32 * n := by
  refine ⟨(paddedBits p).length / 32, ?_⟩
  have : (paddedBits p).length % 32 = 0 := by
    simp only [paddedBits, List.length_append, List.length_replicate]
    omega
  omega

theorem encodeFile_eq (p : Program) :
    encodeFile p = MAGIC ++ [p.hdr.version] ++ packBytes (paddedBits p).length (paddedBits p) := rfl

/-- **decoding the file that `encodeFile` writes, with the word reader, gives `sem`** -/
theorem decodeFile_encodeFile (p : Program) (convert : Bool) (hwf : WF p) :
    decodeFile convert (encodeFile p) = .ok (sem convert p) := by
  obtain ⟨n, hn⟩ := paddedBits_length p
  obtain ⟨h1, h2, h3⟩ := packBytes_spec (4 * n) (paddedBits p).length (paddedBits p) (by omega) (by omega)
  have hbytes : Bytes (encodeFile p) := by
    intro b hb
    rw [encodeFile_eq] at hb
    simp only [List.mem_append, List.mem_cons, List.not_mem_nil, or_false] at hb
    rcases hb with (hb | rfl) | hb
    · simp only [MAGIC, List.mem_cons, List.not_mem_nil, or_false] at hb
      omega
    · have := hwf.2.1; omega
    · exact h3 b hb
  have hm : (encodeFile p).take 4 = MAGIC := by rw [encodeFile_eq]; rfl
  have hv : (encodeFile p).drop 4 = p.hdr.version :: packBytes (paddedBits p).length (paddedBits p) := by
    rw [encodeFile_eq]; rfl
  have hd5 : (encodeFile p).drop 5 = packBytes (paddedBits p).length (paddedBits p) := by
    rw [encodeFile_eq]; rfl
  rw [decodeFile_eq convert _ _ _ hbytes hm hv, hd5, wordBits_flatMap n _ (by omega), h1]
  have hs : sbyte p.hdr.version = (p.hdr.version : Int) := by
    unfold sbyte
    have := hwf.2.1
    split
    · omega
    · rfl
  rw [hs]
  apply decodeBitsF_encode p convert hwf
  have := encode_length_ge p
  have hl : (encode p).length ≤ (paddedBits p).length := by simp [paddedBits]
  have : (encodeFile p).length = 5 + 4 * n := by rw [encodeFile_eq]; simp [h2, MAGIC]; omega
  omega

/-- **a file whose complete 32-bit words hold only a strict prefix of the encoded stream raises the
    IOError** (through the word reader) -/
theorem decodeFile_truncated (p : Program) (convert : Bool) (hwf : WF p) (body rest : List Nat)
    (hb : Bytes body) (hm : body.take 4 = MAGIC) (hv : body.drop 4 = p.hdr.version :: rest)
    (m : Nat) (hbits : wordBits (body.drop 5) = (encode p).take m) (hlt : m < (encode p).length) :
    decodeFile convert body = .error (.io .eof) := by
  rw [decodeFile_eq convert body rest _ hb hm hv, hbits]
  have hs : sbyte p.hdr.version = (p.hdr.version : Int) := by
    unfold sbyte
    have := hwf.2.1
    split
    · omega
    · rfl
  rw [hs]
  have ht := decodeBits_truncated p convert hwf m hlt
  unfold decodeBits decodeBitsF at ht
  unfold decodeBitsF
  rw [versionOk_of_wf _ hwf.1 hwf.2.1, if_pos rfl, Int.toNat_natCast] at ht ⊢
  have hlen : ((encode p).take m).length = m := by simp; omega
  have hl2 : (wordBits (body.drop 5)).length ≤ 8 * (body.drop 5).length :=
    wordBits_length_le _ _ (Nat.le_refl _)
  rw [hbits, hlen] at hl2
  simp only [List.length_drop] at hl2
  rw [mainProg_fuel_irrelevant p.hdr.version convert (8 * body.length + 1) (((encode p).take m).length + 1) _
    (by omega) (by omega)]
  exact ht

end PdsVerif.Model.Shorten

/-
  C06: closed forms of the compact banks' truncated / full responses (the loops of array writes,
  evaluated), bin by bin.
-/
import PdsVerif.Lemmas.BankIndex

namespace PdsVerif.BankIndexLemmas
open PdsVerif.Model.BankIndex

variable {α : Type}

theorem pyIdx_direct_iff {n : Nat} {idx : Int} {k : Nat} (h0 : 0 ≤ idx) (h1 : idx < n) :
    pyIdx n idx = some k ↔ idx = k := by
  rw [pyIdx_nonneg h0 h1]; simp only [Option.some.injEq]; omega

theorem pyIdx_mirror_iff {n : Nat} {idx : Int} {k : Nat} (h0 : 0 ≤ idx) (h1 : idx < n) :
    pyIdx n (-idx) = some k ↔ (idx = 0 ∧ k = 0) ∨ (0 < idx ∧ (k : Int) = n - idx) := by
  by_cases hz : idx = 0
  · subst hz
    have : pyIdx n (-0) = some 0 := by simpa using pyIdx_nonneg (n := n) (i := 0) (le_refl _) (by omega)
    rw [this]; simp only [Option.some.injEq]
    constructor
    · intro h; left; exact ⟨trivial, h.symm⟩
    · rintro (⟨_, h⟩ | ⟨h, _⟩) <;> omega
  · rw [pyIdx_neg (by omega) (by omega)]; simp only [Option.some.injEq]; omega

/-! ## `get_frequency_response` of a compact bank -/

/-- bin `k` of the full response: the triangle's value on the support, its mirror image for a real
bank, zero elsewhere -/
def fullBin (z : α) (val : Int → α) (W : Nat) (L R : Int) (mirror : Bool) (k : Nat) : α :=
  if L ≤ (k : Int) ∧ (k : Int) ≤ R then val k
  else if mirror = true ∧ 0 < k ∧ L ≤ (W : Int) - k ∧ (W : Int) - k ≤ R then val ((W : Int) - k)
  else z

theorem mem_fullWrites {val : Int → α} {mirror : Bool} {a b : Int} {w : Int × α} :
    w ∈ (intRange a b).flatMap (fullWritesAt val mirror) ↔
      ∃ idx, a ≤ idx ∧ idx < b ∧ (w = (idx, val idx) ∨ (mirror = true ∧ w = (-idx, val idx))) := by
  simp only [List.mem_flatMap, mem_intRange, fullWritesAt]
  constructor
  · rintro ⟨idx, ⟨h1, h2⟩, hw⟩
    refine ⟨idx, h1, h2, ?_⟩
    cases mirror <;> (simp at hw ⊢; tauto)
  · rintro ⟨idx, h1, h2, hw⟩
    refine ⟨idx, ⟨h1, h2⟩, ?_⟩
    cases mirror <;> simp at hw ⊢ <;> tauto

theorem dftSize_le (W : Nat) (half : Bool) : dftSize W half ≤ W ∨ W < 2 := by
  unfold dftSize; cases half <;> (simp [halfLen_eq]; try omega)

theorem fullCompact_closed (z : α) (val : Int → α) {W : Nat} {lo hi : Frac} (h : CompactOK W lo hi)
    (analytic half : Bool) :
    fullCompact z val W lo hi analytic half =
      some ((List.range (dftSize W half)).map
        (fullBin z val W (leftIdx W lo) (rightIdx W hi) (!half && !analytic))) := by
  obtain ⟨c1, c2, c3, c4, c5, c6, c7⟩ := compact_idx h
  have hW := h.hW
  unfold fullCompact
  simp only [c7, Bool.not_true, Bool.false_eq_true, if_false]
  set L := leftIdx W lo
  set R := rightIdx W hi
  set dft := dftSize W half with hdft
  set mirror := (!half && !analytic) with hmir
  have hdW : dft ≤ W := by rcases dftSize_le W half with h' | h' <;> omega
  have hdpos : 0 < dft := by
    simp only [hdft, dftSize]; cases half <;> simp [halfLen_eq]; omega
  have hmd : mirror = true → dft = W := by
    intro hm; simp only [hmir, Bool.and_eq_true, Bool.not_eq_true'] at hm
    simp [hdft, dftSize, hm.1]
  have hRd : R + 1 ≤ dft := by
    simp only [hdft, dftSize]; cases half <;> simp [halfLen_eq] <;> omega
  have hmin : min (dft : Int) (R + 1) = R + 1 := by omega
  rw [hmin]
  set ws := (intRange L (R + 1)).flatMap (fullWritesAt val mirror) with hws
  have hrl : (List.replicate dft z).length = dft := by simp
  obtain ⟨ys, hys, hyl, hspec⟩ := applyWrites_spec ws (List.replicate dft z) (by
    intro w hw
    rw [hrl]
    obtain ⟨idx, h1, h2, hw⟩ := mem_fullWrites.mp hw
    rcases hw with rfl | ⟨hm, rfl⟩
    · exact ⟨idx.toNat, pyIdx_nonneg (by omega) (by omega)⟩
    · have := hmd hm
      by_cases hz : idx = 0
      · subst hz; exact ⟨0, by simpa using pyIdx_nonneg (n := dft) (i := 0) (le_refl _) (by omega)⟩
      · exact ⟨dft - idx.toNat, pyIdx_neg (by omega) (by omega)⟩)
  rw [hys]
  congr 1
  apply List.ext_getElem?
  intro k
  rw [hrl] at hspec hyl
  by_cases hk : k < dft
  swap
  · have e1 : ys[k]? = none := by rw [List.getElem?_eq_none_iff]; omega
    have e2 : ((List.range dft).map (fullBin z val W L R mirror))[k]? = none := by
      rw [List.getElem?_eq_none_iff]; simp; omega
    rw [e1, e2]
  · obtain ⟨hs1, hs2⟩ := hspec k
    have hrhs : ((List.range dft).map (fullBin z val W L R mirror))[k]? =
        some (fullBin z val W L R mirror k) := by
      rw [List.getElem?_map, List.getElem?_range hk]; rfl
    rw [hrhs]
    -- which writes reach bin k
    have hdir : ∀ idx, L ≤ idx → idx < R + 1 → (pyIdx dft idx = some k ↔ idx = k) := by
      intro idx h1 h2; exact pyIdx_direct_iff (by omega) (by omega)
    have hmirr : ∀ idx, L ≤ idx → idx < R + 1 →
        (pyIdx dft (-idx) = some k ↔ (idx = 0 ∧ k = 0) ∨ (0 < idx ∧ (k : Int) = dft - idx)) := by
      intro idx h1 h2; exact pyIdx_mirror_iff (by omega) (by omega)
    unfold fullBin
    by_cases hA : L ≤ (k : Int) ∧ (k : Int) ≤ R
    · simp only [hA, and_self, if_true]
      apply hs2
      · intro w hw hwk
        obtain ⟨idx, h1, h2, hw⟩ := mem_fullWrites.mp hw
        rcases hw with rfl | ⟨hm, rfl⟩
        · have := (hdir idx h1 h2).mp hwk; simp only [this]
        · have hd := hmd hm
          rcases (hmirr idx h1 h2).mp hwk with ⟨e1, e2⟩ | ⟨e1, e2⟩
          · subst e1; subst e2; simp
          · have : idx = k := by omega
            simp only [this]
      · exact ⟨((k : Int), val k), mem_fullWrites.mpr ⟨k, hA.1, by omega, Or.inl rfl⟩,
          (hdir k hA.1 (by omega)).mpr rfl⟩
    · simp only [hA, if_false]
      by_cases hB : mirror = true ∧ 0 < k ∧ L ≤ (W : Int) - k ∧ (W : Int) - k ≤ R
      · simp only [hB, and_self, if_true]
        have hd := hmd hB.1
        apply hs2
        · intro w hw hwk
          obtain ⟨idx, h1, h2, hw⟩ := mem_fullWrites.mp hw
          rcases hw with rfl | ⟨hm, rfl⟩
          · have := (hdir idx h1 h2).mp hwk
            exact absurd ⟨by omega, by omega⟩ hA
          · rcases (hmirr idx h1 h2).mp hwk with ⟨e1, e2⟩ | ⟨e1, e2⟩
            · omega
            · have : idx = (W : Int) - k := by omega
              simp only [this]
        · refine ⟨(-((W : Int) - k), val ((W : Int) - k)),
            mem_fullWrites.mpr ⟨(W : Int) - k, hB.2.2.1, by omega, Or.inr ⟨hB.1, rfl⟩⟩, ?_⟩
          exact (hmirr _ hB.2.2.1 (by omega)).mpr (Or.inr ⟨by omega, by omega⟩)
      · simp only [hB, if_false]
        rw [hs1]
        · simp [hk]
        · intro w hw hwk
          obtain ⟨idx, h1, h2, hw⟩ := mem_fullWrites.mp hw
          rcases hw with rfl | ⟨hm, rfl⟩
          · have := (hdir idx h1 h2).mp hwk
            exact hA ⟨by omega, by omega⟩
          · have hd := hmd hm
            rcases (hmirr idx h1 h2).mp hwk with ⟨e1, e2⟩ | ⟨e1, e2⟩
            · exact hA ⟨by omega, by omega⟩
            · exact hB ⟨hm, by omega, by omega, by omega⟩

/-! ## `get_truncated_response` of a compact bank -/

theorem truncCompact_closed (k : Compact) (z : α) (val : Int → α) {W : Nat} {lo hi : Frac}
    (h : CompactOK W lo hi) :
    truncCompact k z val W lo hi =
      some (leftIdx W lo, (List.range (rightIdx W hi + 1 - leftIdx W lo).toNat).map
        fun (j : Nat) => val (leftIdx W lo + (j : Int))) := by
  obtain ⟨c1, c2, c3, c4, c5, c6, c7⟩ := compact_idx h
  have hW := h.hW
  unfold truncCompact
  simp only [c7, Bool.not_true, Bool.false_eq_true, if_false]
  set L := leftIdx W lo
  set R := rightIdx W hi
  have hmin : min (W : Int) (R + 1) = R + 1 := by omega
  have hn : truncLen k W L R = R + 1 - L := by
    cases k <;> (simp only [truncLen, hmin]; try omega)
  rw [hn, hmin]
  have hneg : ¬ (R + 1 - L < 0) := by omega
  simp only [hneg, if_false]
  set n := (R + 1 - L).toNat with hnn
  set ws := (intRange L (R + 1)).map fun idx => (idx - L, val idx) with hws
  have hrl : (List.replicate n z).length = n := by simp
  have hmem : ∀ w, w ∈ ws ↔ ∃ idx, L ≤ idx ∧ idx < R + 1 ∧ w = (idx - L, val idx) := by
    intro w; simp only [hws, List.mem_map, mem_intRange]
    constructor
    · rintro ⟨idx, ⟨h1, h2⟩, rfl⟩; exact ⟨idx, h1, h2, rfl⟩
    · rintro ⟨idx, h1, h2, rfl⟩; exact ⟨idx, ⟨h1, h2⟩, rfl⟩
  obtain ⟨ys, hys, hyl, hspec⟩ := applyWrites_spec ws (List.replicate n z) (by
    intro w hw; rw [hrl]
    obtain ⟨idx, h1, h2, rfl⟩ := (hmem w).mp hw
    exact ⟨(idx - L).toNat, pyIdx_nonneg (by omega) (by omega)⟩)
  rw [hys]
  simp only [Option.map_some, Option.some.injEq, Prod.mk.injEq, true_and]
  apply List.ext_getElem?
  intro j
  rw [hrl] at hspec hyl
  by_cases hj : j < n
  swap
  · have e1 : ys[j]? = none := by rw [List.getElem?_eq_none_iff]; omega
    have e2 : ((List.range n).map fun (j : Nat) => val (L + (j : Int)))[j]? = none := by
      rw [List.getElem?_eq_none_iff]; simp; omega
    rw [e1, e2]
  · have hrhs : ((List.range n).map fun (j : Nat) => val (L + (j : Int)))[j]? = some (val (L + (j : Int))) := by
      rw [List.getElem?_map, List.getElem?_range hj]; rfl
    rw [hrhs]
    apply (hspec j).2
    · intro w hw hwj
      obtain ⟨idx, h1, h2, rfl⟩ := (hmem w).mp hw
      have := (pyIdx_direct_iff (n := n) (idx := idx - L) (k := j) (by omega) (by omega)).mp hwj
      have : idx = L + j := by omega
      simp only [this]
    · refine ⟨(L + j - L, val (L + j)), (hmem _).mpr ⟨L + j, by omega, by omega, rfl⟩, ?_⟩
      exact (pyIdx_direct_iff (by omega) (by omega)).mpr (by omega)

end PdsVerif.BankIndexLemmas

/-
  Helper lemmas for C16 / C17 about the executable model `PdsVerif.Model.Standardize`:
  coefficient-wise sums of lists of vectors (`vadd`, `colSum`), the closed form `statsOf` of a run of
  `accumulate` calls, and per-coefficient read-out of `colSum` / `affine`.
-/
import PdsVerif.Model.Standardize
import Mathlib.Tactic

namespace PdsVerif.Model.Standardize

/-! ## `vadd`, `zeros`, `colSum` in a commutative additive monoid -/

section monoid
variable {α : Type} [AddCommMonoid α]

theorem vadd_length (a b : List α) : (vadd a b).length = min a.length b.length := by
  simp [vadd]

theorem vadd_comm (a b : List α) : vadd a b = vadd b a := by
  unfold vadd
  rw [List.zipWith_comm]
  congr 1
  funext x y
  exact add_comm y x

theorem vadd_assoc (a b c : List α) : vadd (vadd a b) c = vadd a (vadd b c) := by
  unfold vadd
  induction a generalizing b c with
  | nil => simp
  | cons x a ih =>
    cases b with
    | nil => simp
    | cons y b =>
      cases c with
      | nil => simp
      | cons z c => simp [ih, add_assoc]

theorem vadd_right_comm (z a b : List α) : vadd (vadd z a) b = vadd (vadd z b) a := by
  rw [vadd_assoc, vadd_comm a b, ← vadd_assoc]

instance : RightCommutative (vadd (α := α)) := ⟨vadd_right_comm⟩

@[simp] theorem zeros_length (n : Nat) : (zeros n : List α).length = n := by simp [zeros]

theorem vadd_zeros_left (a : List α) : vadd (zeros a.length) a = a := by
  unfold vadd zeros
  induction a with
  | nil => simp
  | cons x a ih => simp [List.replicate_succ, ih]

theorem vadd_zeros_left_of_length {F : Nat} {a : List α} (h : a.length = F) : vadd (zeros F) a = a := by
  subst h; exact vadd_zeros_left a

theorem vadd_zeros_right_of_length {F : Nat} {a : List α} (h : a.length = F) : vadd a (zeros F) = a := by
  rw [vadd_comm]; exact vadd_zeros_left_of_length h

theorem foldl_vadd_length {F : Nat} (vs : List (List α)) (hvs : ∀ v ∈ vs, v.length = F)
    (z : List α) (hz : z.length = F) : (vs.foldl vadd z).length = F := by
  induction vs generalizing z with
  | nil => simpa using hz
  | cons v vs ih =>
    simp only [List.foldl_cons]
    apply ih (fun w hw => hvs w (List.mem_cons_of_mem _ hw))
    rw [vadd_length, hz, hvs v List.mem_cons_self]; simp

theorem colSum_length {F : Nat} (vs : List (List α)) (hvs : ∀ v ∈ vs, v.length = F) :
    (colSum F vs).length = F :=
  foldl_vadd_length vs hvs _ (zeros_length F)

/-- folding from any start = start + fold from zero -/
theorem foldl_vadd_eq {F : Nat} (vs : List (List α)) (hvs : ∀ v ∈ vs, v.length = F)
    (z : List α) (hz : z.length = F) : vs.foldl vadd z = vadd z (colSum F vs) := by
  unfold colSum
  induction vs generalizing z with
  | nil => simp [vadd_zeros_right_of_length hz]
  | cons v vs ih =>
    have hv : v.length = F := hvs v List.mem_cons_self
    have hvs' : ∀ w ∈ vs, w.length = F := fun w hw => hvs w (List.mem_cons_of_mem _ hw)
    simp only [List.foldl_cons]
    have h1 : (vadd z v).length = F := by rw [vadd_length, hz, hv]; simp
    rw [ih hvs' (vadd z v) h1, vadd_zeros_left_of_length hv, ih hvs' v hv, vadd_assoc]

theorem colSum_nil (F : Nat) : colSum F ([] : List (List α)) = zeros F := rfl

theorem colSum_singleton {F : Nat} {v : List α} (hv : v.length = F) : colSum F [v] = v := by
  simp [colSum, vadd_zeros_left_of_length hv]

theorem colSum_append {F : Nat} (xs ys : List (List α)) (hx : ∀ v ∈ xs, v.length = F)
    (hy : ∀ v ∈ ys, v.length = F) :
    colSum F (xs ++ ys) = vadd (colSum F xs) (colSum F ys) := by
  unfold colSum
  rw [List.foldl_append]
  exact foldl_vadd_eq ys hy _ (colSum_length xs hx)

theorem colSum_perm {F : Nat} {xs ys : List (List α)} (h : xs.Perm ys) :
    colSum F xs = colSum F ys :=
  List.Perm.foldl_eq h _

/-! ### per-coefficient read-out -/

/-- the `i`-th coefficients of a list of vectors (lemma-level only; every use has `i < length`) -/
def col (i : Nat) (vs : List (List α)) : List α := vs.map fun v => v.getD i 0

@[simp] theorem col_length (i : Nat) (vs : List (List α)) : (col i vs).length = vs.length := by
  simp [col]

theorem getElem?_zipWith_some {β γ δ : Type} {f : β → γ → δ} {a : List β} {b : List γ} {i : Nat}
    {x : β} {y : γ} (ha : a[i]? = some x) (hb : b[i]? = some y) :
    (List.zipWith f a b)[i]? = some (f x y) := by
  rw [List.getElem?_zipWith, ha, hb]

theorem foldl_vadd_get {F i : Nat} (hi : i < F) (vs : List (List α))
    (hvs : ∀ v ∈ vs, v.length = F) (z : List α) (hz : z.length = F) :
    (vs.foldl vadd z)[i]? = some (z.getD i 0 + (col i vs).sum) := by
  induction vs generalizing z with
  | nil =>
    have : i < z.length := by omega
    simp [col, List.getD, List.getElem?_eq_getElem this]
  | cons v vs ih =>
    have hv : v.length = F := hvs v List.mem_cons_self
    have hvs' : ∀ w ∈ vs, w.length = F := fun w hw => hvs w (List.mem_cons_of_mem _ hw)
    have h1 : (vadd z v).length = F := by rw [vadd_length, hz, hv]; simp
    simp only [List.foldl_cons]
    rw [ih hvs' (vadd z v) h1]
    have hiz : i < z.length := by omega
    have hiv : i < v.length := by omega
    have : (vadd z v).getD i 0 = z.getD i 0 + v.getD i 0 := by
      simp [vadd, List.getD, List.getElem?_zipWith, List.getElem?_eq_getElem hiz,
        List.getElem?_eq_getElem hiv]
    rw [this]
    simp [col, add_assoc]

theorem colSum_get {F i : Nat} (hi : i < F) (vs : List (List α)) (hvs : ∀ v ∈ vs, v.length = F) :
    (colSum F vs)[i]? = some (col i vs).sum := by
  unfold colSum
  rw [foldl_vadd_get hi vs hvs _ (zeros_length F)]
  simp [zeros, List.getD, hi]

end monoid

/-! ## sufficient statistics in closed form -/

section semiring
variable {α : Type} [CommSemiring α]

/-- closed form: what any history whose feature vectors are `vs` must produce -/
def statsOf (F : Nat) (vs : List (List α)) : Stats α :=
  { sum := colSum F vs, cnt := (vs.length : α), sq := colSum F (vs.map vsq), pad := 0 }

/-- entry-wise sum of two statistics matrices -/
def Stats.add (a b : Stats α) : Stats α :=
  { sum := vadd a.sum b.sum, cnt := a.cnt + b.cnt, sq := vadd a.sq b.sq, pad := a.pad + b.pad }

instance : Add (Stats α) := ⟨Stats.add⟩

theorem Stats.add_def (a b : Stats α) :
    a + b = { sum := vadd a.sum b.sum, cnt := a.cnt + b.cnt, sq := vadd a.sq b.sq, pad := a.pad + b.pad } :=
  rfl

omit [CommSemiring α] in
theorem Stats.ext_fields {a b : Stats α} (h1 : a.sum = b.sum) (h2 : a.cnt = b.cnt) (h3 : a.sq = b.sq)
    (h4 : a.pad = b.pad) : a = b := by
  cases a; cases b; simp_all

@[simp] theorem vsq_length (v : List α) : (vsq v).length = v.length := by simp [vsq]

theorem map_vsq_length {F : Nat} {vs : List (List α)} (h : ∀ v ∈ vs, v.length = F) :
    ∀ w ∈ vs.map vsq, w.length = F := by
  intro w hw
  obtain ⟨v, hv, rfl⟩ := List.mem_map.1 hw
  simpa using h v hv

theorem statsOf_dim {F : Nat} {vs : List (List α)} (h : ∀ v ∈ vs, v.length = F) :
    (statsOf F vs).dim = F := colSum_length vs h

theorem statsOf_wf {F : Nat} {vs : List (List α)} (h : ∀ v ∈ vs, v.length = F) :
    (statsOf F vs).WF := by
  unfold Stats.WF
  show (colSum F (vs.map vsq)).length = (colSum F vs).length
  rw [colSum_length _ (map_vsq_length h), colSum_length _ h]

theorem Stats.add_assoc_stats (a b c : Stats α) : a + b + c = a + (b + c) := by
  simp only [Stats.add_def]
  exact Stats.ext_fields (vadd_assoc _ _ _) (add_assoc _ _ _) (vadd_assoc _ _ _) (add_assoc _ _ _)

theorem Stats.add_statsOf_nil {F : Nat} (s : Stats α) (hd : s.dim = F) (hw : s.WF) :
    s + statsOf F [] = s := by
  simp only [Stats.add_def, statsOf, colSum_nil, List.map_nil, List.length_nil, Nat.cast_zero, add_zero]
  have h2 : s.sq.length = F := by rw [← hd]; exact hw
  exact Stats.ext_fields (vadd_zeros_right_of_length hd) rfl (vadd_zeros_right_of_length h2) rfl

theorem Stats.zero_add_statsOf {F : Nat} (vs : List (List α)) (h : ∀ v ∈ vs, v.length = F) :
    (Stats.zero F : Stats α) + statsOf F vs = statsOf F vs := by
  simp only [Stats.add_def, statsOf, Stats.zero, zero_add]
  exact Stats.ext_fields (vadd_zeros_left_of_length (colSum_length _ h)) rfl
    (vadd_zeros_left_of_length (colSum_length _ (map_vsq_length h))) rfl

theorem Stats.add_dim {F : Nat} (a b : Stats α) (ha : a.dim = F) (hb : b.dim = F) :
    (a + b).dim = F := by
  show (vadd a.sum b.sum).length = F
  rw [vadd_length]; unfold Stats.dim at ha hb; omega

theorem Stats.add_wf (a b : Stats α) (ha : a.WF) (hb : b.WF) : (a + b).WF := by
  unfold Stats.WF at *
  show (vadd a.sq b.sq).length = (vadd a.sum b.sum).length
  rw [vadd_length, vadd_length, ha, hb]

end semiring

end PdsVerif.Model.Standardize

/-
  Lemmas about the model of `alias.py` (property C08): the stack loop `run` walks exactly `Cls.order`.
  Core Lean only.
-/
import PdsVerif.Model.Alias

namespace PdsVerif.Model.Alias

open Cls

/-! ### structure of `order` / `classes` -/

/-- Induction over a class hierarchy. -/
theorem Cls.ind {P : Cls → Prop} (h : ∀ i cs, (∀ c ∈ cs, P c) → P (mk i cs)) (c : Cls) : P c :=
  Cls.rec (motive_1 := P) (motive_2 := fun cs => ∀ c ∈ cs, P c)
    (fun i cs ih => h i cs ih) (by simp) (fun c cs hc hcs => by
      intro x hx
      rcases List.mem_cons.1 hx with rfl | hx
      · exact hc
      · exact hcs x hx) c

theorem Cls.orderRev_eq (cs : List Cls) : orderRev cs = cs.reverse.flatMap order := by
  induction cs with
  | nil => simp [orderRev]
  | cons c cs ih => simp [orderRev, ih, List.flatMap_append]

/-- The search order, declaratively: sub-hierarchies of the subclasses, last registered first, then the
class itself. -/
theorem Cls.order_eq (i : Info) (cs : List Cls) :
    order (mk i cs) = cs.reverse.flatMap order ++ [mk i cs] := by
  simp [order, orderRev_eq]

theorem Cls.classesList_eq (cs : List Cls) : classesList cs = cs.flatMap classes := by
  induction cs with
  | nil => simp [classesList]
  | cons c cs ih => simp [classesList, ih]

theorem Cls.classes_eq (i : Info) (cs : List Cls) :
    classes (mk i cs) = mk i cs :: cs.flatMap classes := by
  simp [classes, classesList_eq]

theorem Cls.self_mem_order (c : Cls) : c ∈ c.order := by
  cases c with | mk i cs => simp [order_eq]

theorem Cls.self_mem_classes (c : Cls) : c ∈ c.classes := by
  cases c with | mk i cs => simp [classes_eq]

/-- `order` and `classes` enumerate the same classes. -/
theorem Cls.mem_order_iff (x : Cls) : ∀ c : Cls, x ∈ c.order ↔ x ∈ c.classes := by
  intro c
  induction c using Cls.ind with
  | h i cs ih =>
    simp only [order_eq, classes_eq, List.mem_append, List.mem_flatMap, List.mem_reverse,
      List.mem_cons, List.not_mem_nil, or_false]
    constructor
    · rintro (⟨c, hc, hx⟩ | rfl)
      · exact Or.inr ⟨c, hc, (ih c hc).1 hx⟩
      · exact Or.inl rfl
    · rintro (rfl | ⟨c, hc, hx⟩)
      · exact Or.inr rfl
      · exact Or.inl ⟨c, hc, (ih c hc).2 hx⟩

theorem Cls.size_pos (c : Cls) : 0 < c.size := by
  cases c with | mk i cs => simp [size, order_eq]

/-! ### the loop walks `order` -/

theorem run_push (a : String) (n : Nat) (c : Cls) (stack : List Cls) (P : List Nat) (h : c.id ∉ P) :
    run a (n + 1) (c :: stack) P = run a n (c.subclasses.reverse ++ c :: stack) (c.id :: P) := by
  have hc : P.contains c.id = false := by simpa using h
  rw [run]; simp only [hc]; rfl

theorem run_hit (a : String) (n : Nat) (c : Cls) (stack : List Cls) (P : List Nat) (h : c.id ∈ P)
    (ha : hasAlias a c = true) : run a (n + 1) (c :: stack) P = .ok c := by
  have hc : P.contains c.id = true := by simpa using h
  rw [run]; simp only [hc, ha]; rfl

theorem run_miss (a : String) (n : Nat) (c : Cls) (stack : List Cls) (P : List Nat) (h : c.id ∈ P)
    (ha : hasAlias a c = false) : run a (n + 1) (c :: stack) P = run a n stack P := by
  have hc : P.contains c.id = true := by simpa using h
  rw [run]; simp only [hc, ha]; rfl

/-- Running the loop with `top` on top of the stack visits the classes `L` in that order: either the first
one of them carrying the alias is returned, or after exactly `2 * L.length` iterations `top` is gone from the
stack and precisely the identities of `L` have been added to `pushed_children`. -/
def Through (a : String) (top : List Cls) (L : List Cls) : Prop :=
  ∀ (rest : List Cls) (P : List Nat) (n : Nat), (∀ x ∈ L, x.id ∉ P) →
    (∀ c, L.find? (hasAlias a) = some c → run a (n + 2 * L.length) (top ++ rest) P = .ok c) ∧
    (L.find? (hasAlias a) = none → ∃ P', (∀ x, x ∈ P' ↔ x ∈ L.map Cls.id ∨ x ∈ P) ∧
        run a (n + 2 * L.length) (top ++ rest) P = run a n rest P')

theorem through_nil (a : String) : Through a [] [] := by
  intro rest P n _
  refine ⟨by simp, fun _ => ⟨P, by simp, by simp⟩⟩

theorem through_append {a : String} {A B LA LB : List Cls} (hA : Through a A LA) (hB : Through a B LB)
    (hd : ∀ x ∈ LA, ∀ y ∈ LB, x.id ≠ y.id) : Through a (A ++ B) (LA ++ LB) := by
  intro rest P n hP
  have hfuel : n + 2 * (LA ++ LB).length = (n + 2 * LB.length) + 2 * LA.length := by
    simp [List.length_append]; omega
  have hPA : ∀ x ∈ LA, x.id ∉ P := fun x hx => hP x (List.mem_append_left _ hx)
  have hPB : ∀ x ∈ LB, x.id ∉ P := fun x hx => hP x (List.mem_append_right _ hx)
  obtain ⟨hA1, hA2⟩ := hA (B ++ rest) P (n + 2 * LB.length) hPA
  rw [hfuel, List.append_assoc, List.find?_append]
  cases hf : LA.find? (hasAlias a) with
  | some c0 =>
    refine ⟨?_, by simp⟩
    intro c hc
    simp only [Option.some_or, Option.some.injEq] at hc
    subst hc
    exact hA1 c0 hf
  | none =>
    obtain ⟨P', hP', hrun⟩ := hA2 hf
    have hPB' : ∀ x ∈ LB, x.id ∉ P' := by
      intro y hy hmem
      rcases (hP' y.id).1 hmem with h | h
      · obtain ⟨x, hx, hxy⟩ := List.mem_map.1 h
        exact hd x hx y hy hxy
      · exact hPB y hy h
    obtain ⟨hB1, hB2⟩ := hB rest P' n hPB'
    simp only [Option.none_or]
    rw [hrun]
    refine ⟨hB1, ?_⟩
    intro hnone
    obtain ⟨P'', hP'', hrun2⟩ := hB2 hnone
    refine ⟨P'', ?_, hrun2⟩
    intro x
    rw [hP'' x, hP' x, List.map_append, List.mem_append]
    constructor
    · rintro (h | h | h)
      · exact Or.inl (Or.inr h)
      · exact Or.inl (Or.inl h)
      · exact Or.inr h
    · rintro ((h | h) | h)
      · exact Or.inr (Or.inl h)
      · exact Or.inl h
      · exact Or.inr (Or.inr h)

/-- First pop of a class: it is pushed back under its subclasses; second pop: it is tested. -/
theorem through_node {a : String} {i : Info} {cs L : List Cls} (hL : Through a cs.reverse L)
    (hi : ∀ x ∈ L, x.id ≠ i.id) : Through a [mk i cs] (L ++ [mk i cs]) := by
  intro rest P n hP
  have hiP : i.id ∉ P := hP (mk i cs) (by simp)
  have hfuel : n + 2 * (L ++ [mk i cs]).length = ((n + 1) + 2 * L.length) + 1 := by
    simp [List.length_append]; omega
  have hLP : ∀ x ∈ L, x.id ∉ i.id :: P := by
    intro x hx hmem
    rcases List.mem_cons.1 hmem with h | h
    · exact hi x hx h
    · exact hP x (List.mem_append_left _ hx) h
  obtain ⟨h1, h2⟩ := hL (mk i cs :: rest) (i.id :: P) (n + 1) hLP
  have hstep : run a (((n + 1) + 2 * L.length) + 1) ([mk i cs] ++ rest) P
      = run a ((n + 1) + 2 * L.length) (cs.reverse ++ mk i cs :: rest) (i.id :: P) :=
    run_push a _ (mk i cs) rest P hiP
  rw [hfuel, hstep, List.find?_append]
  cases hf : L.find? (hasAlias a) with
  | some c0 =>
    refine ⟨?_, by simp⟩
    intro c hc
    simp only [Option.some_or, Option.some.injEq] at hc
    subst hc
    exact h1 c0 hf
  | none =>
    obtain ⟨P', hP', hrun⟩ := h2 hf
    have hiP' : (mk i cs).id ∈ P' := (hP' i.id).2 (Or.inr (by simp))
    rw [hrun]
    simp only [Option.none_or]
    by_cases ha : hasAlias a (mk i cs) = true
    · refine ⟨?_, by simp [ha]⟩
      intro c hc
      simp only [List.find?_cons, ha, Option.some.injEq] at hc
      subst hc
      exact run_hit a n _ rest P' hiP' ha
    · refine ⟨by simp [ha], fun _ => ⟨P', ?_, ?_⟩⟩
      · intro x
        rw [hP' x, List.map_append, List.mem_append]
        simp only [List.mem_cons, List.map_cons, List.map_nil, List.not_mem_nil, or_false]
        change _ ∨ x = i.id ∨ _ ↔ (_ ∨ x = i.id) ∨ _
        constructor
        · rintro (h | h | h)
          · exact Or.inl (Or.inl h)
          · exact Or.inl (Or.inr h)
          · exact Or.inr h
        · rintro ((h | h) | h)
          · exact Or.inl h
          · exact Or.inr (Or.inl h)
          · exact Or.inr (Or.inr h)
      · exact run_miss a n _ rest P' hiP' (by simpa using ha)

theorem through_list {a : String} (ts : List Cls)
    (h : ∀ c ∈ ts, (c.order.map Cls.id).Nodup → Through a [c] c.order)
    (hn : ((ts.flatMap order).map Cls.id).Nodup) : Through a ts (ts.flatMap order) := by
  induction ts with
  | nil => exact through_nil a
  | cons t ts ih =>
    simp only [List.flatMap_cons, List.map_append] at hn ⊢
    rw [List.nodup_append] at hn
    obtain ⟨hn1, hn2, hn3⟩ := hn
    have := through_append (h t (by simp) hn1)
      (ih (fun c hc => h c (List.mem_cons_of_mem _ hc)) hn2)
      (fun x hx y hy => hn3 x.id (List.mem_map_of_mem hx) y.id (List.mem_map_of_mem hy))
    simpa using this

/-- The loop started on a class whose hierarchy has pairwise distinct identities walks `order`. -/
theorem through_cls (a : String) (c : Cls) : (c.order.map Cls.id).Nodup → Through a [c] c.order := by
  induction c using Cls.ind with
  | h i cs ih =>
    intro hn
    rw [order_eq] at hn ⊢
    simp only [List.map_append, List.map_cons, List.map_nil] at hn
    rw [List.nodup_append] at hn
    obtain ⟨hn1, _, hn3⟩ := hn
    refine through_node (through_list cs.reverse (fun c hc => ih c (List.mem_reverse.1 hc)) hn1) ?_
    intro x hx
    exact hn3 x.id (List.mem_map_of_mem hx) i.id (by simp [Cls.id, Cls.info])

/-- `resolve` is its specification (in particular the fuel `2 * size` always suffices). -/
theorem resolve_eq_spec_model (c : Cls) (a : String) (hn : c.ids.Nodup) : resolve c a = spec c a := by
  obtain ⟨h1, h2⟩ := through_cls a c hn [] [] 0 (by simp)
  simp only [List.append_nil, Nat.zero_add] at h1 h2
  unfold resolve spec Cls.size
  cases hf : c.order.find? (hasAlias a) with
  | some x => simpa using h1 x hf
  | none =>
    obtain ⟨P', _, hrun⟩ := h2 hf
    rw [hrun]
    simp [run]

/-! ### vocabulary of the registry theorems -/

/-- The abstract families named by property C08 (qualified names). -/
def families : List String :=
  ["pydrobert.speech.scales.ScalingFunction", "pydrobert.speech.filters.LinearFilterBank",
   "pydrobert.speech.filters.WindowFunction", "pydrobert.speech.compute.FrameComputer",
   "pydrobert.speech.pre.PreProcessor", "pydrobert.speech.post.PostProcessor"]

/-- every alias of every concrete class of the family resolves, from the family, to that class -/
def Complete (F : Cls) : Prop :=
  ∀ c ∈ F.classes, c.concrete = true → ∀ a ∈ c.aliases, resolve F a = .ok c

instance (F : Cls) : Decidable (Complete F) := by unfold Complete; infer_instance

theorem hasAlias_iff (a : String) (c : Cls) : hasAlias a c = true ↔ a ∈ c.aliases := by
  simp [hasAlias]

/-! ### position in the search order -/

/-- `y` is searched strictly before `x` below `root`. -/
def Before (root y x : Cls) : Prop := ∃ l m r, root.order = l ++ y :: m ++ x :: r

theorem nodup_order {c : Cls} (hn : c.ids.Nodup) : c.order.Nodup :=
  List.Pairwise.of_map Cls.id (fun _ _ h h' => h (by rw [h'])) hn

/-- A match standing before `x` keeps `find?` from returning `x` (in a duplicate-free list). -/
theorem find?_ne_of_before {α : Type} {p : α → Bool} {l m r : List α} {x y : α}
    (hn : (l ++ y :: m ++ x :: r).Nodup) (hp : p y = true) : (l ++ y :: m ++ x :: r).find? p ≠ some x := by
  intro h
  have hsplit : l ++ y :: m ++ x :: r = (l ++ y :: m) ++ x :: r := by simp
  rw [hsplit] at hn h
  rw [List.find?_append] at h
  have hsome : ((l ++ y :: m).find? p).isSome := by
    rw [List.find?_isSome]; exact ⟨y, by simp, hp⟩
  obtain ⟨z, hz⟩ := Option.isSome_iff_exists.1 hsome
  rw [hz] at h
  simp only [Option.some_or, Option.some.injEq] at h
  subst h
  have hzmem := List.mem_of_find?_eq_some hz
  rw [List.nodup_append] at hn
  exact hn.2.2 z hzmem z (by simp) rfl

theorem Cls.order_last (c : Cls) : c.order = c.subclasses.reverse.flatMap order ++ [c] := by
  cases c with | mk i cs => simp [order_eq, Cls.subclasses]

/-- The search order of a sub-hierarchy is a contiguous block of the search order of the hierarchy. -/
theorem Cls.order_block (x : Cls) : ∀ c : Cls, x ∈ c.classes → ∃ l r, c.order = l ++ x.order ++ r := by
  intro c
  induction c using Cls.ind with
  | h i cs ih =>
    intro hx
    rw [classes_eq] at hx
    rcases List.mem_cons.1 hx with rfl | hx
    · exact ⟨[], [], by simp⟩
    · obtain ⟨c, hc, hxc⟩ := List.mem_flatMap.1 hx
      obtain ⟨l, r, hlr⟩ := ih c hc hxc
      obtain ⟨A, B, hAB⟩ := List.append_of_mem (List.mem_reverse.2 hc)
      refine ⟨A.flatMap order ++ l, r ++ B.flatMap order ++ [mk i cs], ?_⟩
      rw [order_eq, hAB]
      simp [List.flatMap_append, hlr, List.append_assoc]

theorem before_of_block {root y x : Cls} {l r l' m' r' : List Cls}
    (h : root.order = l ++ (l' ++ y :: m' ++ x :: r') ++ r) : Before root y x :=
  ⟨l ++ l', m', r' ++ r, by rw [h]; simp [List.append_assoc]⟩

/-- Descendants are searched before their ancestors. -/
theorem before_of_descendant {root x y : Cls} (hx : x ∈ root.classes) (hy : y ∈ x.classes) (hne : y ≠ x) :
    Before root y x := by
  obtain ⟨l, r, hlr⟩ := order_block x root hx
  have hy' : y ∈ x.subclasses.reverse.flatMap order := by
    have := (mem_order_iff y x).2 hy
    rw [order_last] at this
    rcases List.mem_append.1 this with h | h
    · exact h
    · exact absurd (by simpa using h) hne
  obtain ⟨u, v, huv⟩ := List.append_of_mem hy'
  refine before_of_block (l := l) (r := r) (l' := u) (m' := v) (r' := []) ?_
  rw [hlr, order_last x, huv]

/-- Everything below a later registered sibling is searched before everything below an earlier one. -/
theorem before_of_later_sibling {root p c1 c2 x y : Cls} {A B C : List Cls} (hp : p ∈ root.classes)
    (hsub : p.subclasses = A ++ c1 :: B ++ c2 :: C) (hx : x ∈ c1.classes) (hy : y ∈ c2.classes) :
    Before root y x := by
  obtain ⟨l, r, hlr⟩ := order_block p root hp
  obtain ⟨u, v, huv⟩ := List.append_of_mem ((mem_order_iff y c2).2 hy)
  obtain ⟨u', v', huv'⟩ := List.append_of_mem ((mem_order_iff x c1).2 hx)
  refine before_of_block (l := l) (r := r) (l' := C.reverse.flatMap order ++ u)
    (m' := v ++ B.reverse.flatMap order ++ u') (r' := v' ++ A.reverse.flatMap order ++ [p]) ?_
  rw [hlr, order_last p, hsub]
  simp [List.flatMap_append, huv, huv', List.append_assoc]

end PdsVerif.Model.Alias

/-
  Invariants of the crash / resume machine of `Model/FeatDir.lean` under the current rules, proved by
  induction over arbitrary event sequences (steps, hard kills, soft interrupts, resumes).
-/
import PdsVerif.Model.FeatDir
namespace PdsVerif.FeatDirLemmas
open PdsVerif.Model.FeatDir

set_option linter.unusedSectionVars false

variable {Id V : Type} [DecidableEq Id]

/-! ### lists -/

theorem mem_unlisted (e : Env Id V) (m : List Id) (x : Id) :
    x ∈ unlisted e m ↔ x ∈ e.map ∧ x ∉ m := by
  simp [unlisted]

theorem unlisted_nodup (e : Env Id V) (hn : e.map.Nodup) (m : List Id) : (unlisted e m).Nodup :=
  hn.sublist List.filter_sublist

theorem filter_ne_head (u : Id) (rest : List Id) (h : (u :: rest).Nodup) :
    (u :: rest).filter (fun x => !([u].contains x)) = rest := by
  have hu : u ∉ rest := (List.nodup_cons.mp h).1
  simp only [List.filter_cons, List.contains_cons, List.contains_nil, Bool.or_false, beq_self_eq_true,
    Bool.not_true, Bool.false_eq_true, if_false]
  apply List.filter_eq_self.mpr
  intro a ha
  have : a ≠ u := fun h' => hu (h' ▸ ha)
  simp [this]

/-- listing the first unlisted utterance removes exactly it from the work still to do -/
theorem unlisted_append_head (e : Env Id V) (hn : e.map.Nodup) (m : List Id) (u : Id) (rest : List Id)
    (h : unlisted e m = u :: rest) : unlisted e (m ++ [u]) = rest := by
  have h1 : unlisted e (m ++ [u]) = (unlisted e m).filter (fun x => !([u].contains x)) := by
    simp only [unlisted, List.filter_filter]
    congr 1
    funext x
    simp [Bool.and_comm]
  rw [h1, h]
  exact filter_ne_head u rest (h ▸ unlisted_nodup e hn m)

theorem setFile_same (f : Id → FileSt V) (u : Id) (s : FileSt V) : setFile f u s u = s := by
  simp [setFile]

theorem setFile_other (f : Id → FileSt V) (u x : Id) (s : FileSt V) (h : x ≠ u) : setFile f u s x = f x := by
  simp [setFile, h]

theorem setFile_setFile (f : Id → FileSt V) (u : Id) (s t : FileSt V) :
    setFile (setFile f u s) u t = setFile f u t := by
  funext x; simp only [setFile]; split <;> rfl

/-! ### the invariant -/

/-- every listed utterance has its complete file, holding the tensor of an uninterrupted run -/
def Sound (e : Env Id V) (d : Durable Id V) : Prop :=
  ∀ u, u ∈ d.manifest → d.files u = .complete (e.feat u (seedKey e u))

/-- what holds of a live process -/
structure RunInv (e : Env Id V) (d : Durable Id V) (p : Run Id V) : Prop where
  /-- the work ahead is exactly the unlisted part of the map, in map order, keyed by map position -/
  todoEq : p.todo = (unlisted e d.manifest).map (fun u => (u, seedKey e u))
  bufNil : p.pc ≠ .flush → p.buf = []
  atEnd : p.todo = [] → p.pc = .compute
  pcOk : ∀ u k rest, p.todo = (u, k) :: rest →
    match p.pc with
    | .compute => True
    | .beginW v => v = e.feat u k
    | .endW v => v = e.feat u k
    | .print => d.files u = .complete (e.feat u k)
    | .flush => p.buf = [u] ∧ d.files u = .complete (e.feat u k)

def Inv (e : Env Id V) (s : State Id V) : Prop :=
  Sound e s.d ∧ match s.p with
    | .dead => True
    | .running p => RunInv e s.d p

theorem inv_dead (e : Env Id V) (d : Durable Id V) (h : Sound e d) : Inv e { d := d, p := .dead } :=
  ⟨h, trivial⟩

theorem sound_empty (e : Env Id V) : Sound e (Durable.empty : Durable Id V) := by
  intro u hu; simp [Durable.empty] at hu

theorem inv_init (e : Env Id V) : Inv e (State.init : State Id V) := inv_dead e _ (sound_empty e)

theorem runInv_start (e : Env Id V) (d : Durable Id V) : RunInv e d (start Rules.current e d) := by
  refine ⟨by simp [start, Rules.current], by simp [start], by simp [start], ?_⟩
  intro u k rest _; simp [start]

/-- head of the work list: it is unlisted, in the map, and carries the map-position key -/
theorem head_facts (e : Env Id V) (d : Durable Id V) (p : Run Id V) (h : RunInv e d p)
    (u : Id) (k : Nat) (rest : List (Id × Nat)) (ht : p.todo = (u, k) :: rest) :
    k = seedKey e u ∧ u ∈ e.map ∧ u ∉ d.manifest ∧
      unlisted e d.manifest = u :: rest.map Prod.fst ∧
      rest = (rest.map Prod.fst).map (fun x => (x, seedKey e x)) := by
  have h1 := h.todoEq
  rw [ht] at h1
  cases hu : unlisted e d.manifest with
  | nil => rw [hu] at h1; simp at h1
  | cons x xs =>
    rw [hu] at h1
    simp only [List.map_cons, List.cons.injEq, Prod.mk.injEq] at h1
    obtain ⟨⟨hx, hk⟩, hr⟩ := h1
    have hm : x ∈ unlisted e d.manifest := by rw [hu]; simp
    have := (mem_unlisted e d.manifest x).mp hm
    subst hx
    refine ⟨hk, this.1, this.2, ?_, ?_⟩
    · rw [hr]; simp [List.map_map, Function.comp_def]
    · rw [hr]; simp [List.map_map, Function.comp_def]

/-- one event preserves the invariant (current rules) -/
theorem inv_next (e : Env Id V) (hn : e.map.Nodup) (s : State Id V) (h : Inv e s) (ev : Ev) :
    Inv e (next Rules.current e s ev).1 := by
  obtain ⟨d, p⟩ := s
  obtain ⟨hs, hp⟩ := h
  cases ev with
  | hardKill => exact ⟨hs, trivial⟩
  | resume =>
    cases p with
    | dead => exact ⟨hs, runInv_start e d⟩
    | running p => exact ⟨hs, hp⟩
  | softInt =>
    cases p with
    | dead => exact ⟨hs, trivial⟩
    | running p =>
      have hp : RunInv e d p := hp
      obtain ⟨todo, pc, buf⟩ := p
      simp only [next]
      refine ⟨?_, trivial⟩
      by_cases hf : pc = .flush
      · cases todo with
        | nil => have := hp.atEnd rfl; simp only at this; rw [hf] at this; cases this
        | cons a rest =>
          obtain ⟨u, k⟩ := a
          have hpc := hp.pcOk u k rest rfl
          subst hf
          simp only at hpc
          have hk := (head_facts e d _ hp u k rest rfl).1
          intro x hx
          simp only [hpc.1, List.mem_append, List.mem_singleton] at hx
          cases hx with
          | inl hx => exact hs x hx
          | inr hx => subst hx; rw [← hk]; exact hpc.2
      · intro x hx
        have hb : buf = [] := hp.bufNil hf
        simp only [hb, List.append_nil] at hx
        exact hs x hx
  | step =>
    cases p with
    | dead => exact ⟨hs, trivial⟩
    | running p =>
      have hp : RunInv e d p := hp
      obtain ⟨todo, pc, buf⟩ := p
      cases todo with
      | nil =>
        have hc : pc = .compute := hp.atEnd rfl
        have hb : buf = [] := hp.bufNil (by simp only [hc]; intro h; cases h)
        simp only [next, stepRun, hb, List.append_nil]
        exact ⟨hs, trivial⟩
      | cons a rest =>
        obtain ⟨u, k⟩ := a
        obtain ⟨hk, hum, hul, hun, hrest⟩ := head_facts e d _ hp u k rest rfl
        have hpc := hp.pcOk u k rest rfl
        have hbn := hp.bufNil
        have hte := hp.todoEq
        simp only at hpc hbn hte
        cases pc with
        | compute =>
          simp only [next, stepRun]
          refine ⟨hs, ⟨hte, ?_, ?_, ?_⟩⟩
          · intro _; exact hbn (by intro h; cases h)
          · intro h; cases h
          · intro u' k' rest' h'
            simp only [List.cons.injEq, Prod.mk.injEq] at h'
            obtain ⟨⟨rfl, rfl⟩, _⟩ := h'
            rfl
        | beginW v =>
          simp only [next, stepRun]
          refine ⟨?_, ⟨hte, ?_, ?_, ?_⟩⟩
          · intro x hx
            have : x ≠ u := fun h => hul (h ▸ hx)
            simp only [setFile_other _ _ _ _ this]; exact hs x hx
          · intro _; exact hbn (by intro h; cases h)
          · intro h; cases h
          · intro u' k' rest' h'
            simp only [List.cons.injEq, Prod.mk.injEq] at h'
            obtain ⟨⟨rfl, rfl⟩, _⟩ := h'
            exact hpc
        | endW v =>
          simp only [next, stepRun]
          refine ⟨?_, ⟨hte, ?_, ?_, ?_⟩⟩
          · intro x hx
            have : x ≠ u := fun h => hul (h ▸ hx)
            simp only [setFile_other _ _ _ _ this]; exact hs x hx
          · intro _; exact hbn (by intro h; cases h)
          · intro h; cases h
          · intro u' k' rest' h'
            simp only [List.cons.injEq, Prod.mk.injEq] at h'
            obtain ⟨⟨rfl, rfl⟩, _⟩ := h'
            simp only [setFile_same, hpc]
        | print =>
          have hb : buf = [] := hbn (by intro h; cases h)
          simp only [next, stepRun]
          refine ⟨hs, ⟨hte, ?_, ?_, ?_⟩⟩
          · intro h; exact absurd rfl h
          · intro h; cases h
          · intro u' k' rest' h'
            simp only [List.cons.injEq, Prod.mk.injEq] at h'
            obtain ⟨⟨rfl, rfl⟩, _⟩ := h'
            exact ⟨by simp [hb], hpc⟩
        | flush =>
          simp only [next, stepRun, Rules.current, if_true, hpc.1]
          refine ⟨?_, ⟨?_, ?_, ?_, ?_⟩⟩
          · intro x hx
            simp only [List.mem_append, List.mem_singleton] at hx
            cases hx with
            | inl hx => exact hs x hx
            | inr hx => subst hx; rw [← hk]; exact hpc.2
          · show rest = _
            rw [unlisted_append_head e hn d.manifest u _ hun]; exact hrest
          · intro _; rfl
          · intro _; rfl
          · intro u' k' rest' _; trivial

theorem inv_exec (e : Env Id V) (hn : e.map.Nodup) (evs : List Ev) :
    ∀ s : State Id V, Inv e s → Inv e (exec Rules.current e s evs).1 := by
  induction evs with
  | nil => intro s h; exact h
  | cons ev evs ih => intro s h; exact ih _ (inv_next e hn s h ev)

theorem exec_append (r : Rules) (e : Env Id V) (s : State Id V) (a b : List Ev) :
    exec r e s (a ++ b) =
      ((exec r e (exec r e s a).1 b).1, (exec r e s a).2 ++ (exec r e (exec r e s a).1 b).2) := by
  induction a generalizing s with
  | nil => simp [exec]
  | cons ev a ih => simp only [List.cons_append, exec, ih, List.append_assoc]

/-! ### the manifest only grows; listed utterances are left alone -/

theorem manifest_mono_next (r : Rules) (e : Env Id V) (s : State Id V) (ev : Ev) (u : Id)
    (h : u ∈ s.d.manifest) : u ∈ (next r e s ev).1.d.manifest := by
  obtain ⟨d, p⟩ := s
  cases ev with
  | hardKill => exact h
  | resume => cases p <;> exact h
  | softInt =>
    cases p with
    | dead => exact h
    | running p => simp only [next, List.mem_append]; exact Or.inl h
  | step =>
    cases p with
    | dead => exact h
    | running p =>
      obtain ⟨todo, pc, buf⟩ := p
      cases todo with
      | nil => simp only [next, stepRun, List.mem_append]; exact Or.inl h
      | cons a rest =>
        obtain ⟨u', k⟩ := a
        cases pc with
        | flush =>
          simp only [next, stepRun]
          split
          · simp only [List.mem_append]; exact Or.inl h
          · exact h
        | _ => exact h

theorem manifest_mono_exec (r : Rules) (e : Env Id V) (evs : List Ev) (u : Id) :
    ∀ s : State Id V, u ∈ s.d.manifest → u ∈ (exec r e s evs).1.d.manifest := by
  induction evs with
  | nil => intro s h; exact h
  | cons ev evs ih => intro s h; exact ih _ (manifest_mono_next r e s ev u h)

/-- what one event may do to a listed utterance: nothing -/
theorem listed_next (e : Env Id V) (s : State Id V) (h : Inv e s) (ev : Ev) (u : Id)
    (hu : u ∈ s.d.manifest) :
    (next Rules.current e s ev).1.d.files u = s.d.files u ∧
      Obs.began u ∉ (next Rules.current e s ev).2 ∧ ∀ k, Obs.computed u k ∉ (next Rules.current e s ev).2 := by
  obtain ⟨d, p⟩ := s
  obtain ⟨hs, hp⟩ := h
  cases ev with
  | hardKill => simp [next]
  | resume => cases p <;> simp [next]
  | softInt => cases p <;> simp [next]
  | step =>
    cases p with
    | dead => simp [next]
    | running p =>
      have hp : RunInv e d p := hp
      obtain ⟨todo, pc, buf⟩ := p
      cases todo with
      | nil => simp [next, stepRun]
      | cons a rest =>
        obtain ⟨u', k⟩ := a
        have hul := (head_facts e d _ hp u' k rest rfl).2.2.1
        have hne : u ≠ u' := fun h => hul (h ▸ hu)
        have hne' : u' ≠ u := fun h => hne h.symm
        cases pc with
        | compute => simp [next, stepRun, hne]
        | beginW v => simp [next, stepRun, setFile_other _ _ _ _ hne, hne]
        | endW v => simp [next, stepRun, setFile_other _ _ _ _ hne]
        | print => simp [next, stepRun]
        | flush => simp [next, stepRun, Rules.current]

/-- files of utterances that are not in the map are never touched -/
theorem outside_next (e : Env Id V) (s : State Id V) (h : Inv e s) (ev : Ev) (u : Id) (hu : u ∉ e.map) :
    (next Rules.current e s ev).1.d.files u = s.d.files u := by
  obtain ⟨d, p⟩ := s
  obtain ⟨hs, hp⟩ := h
  cases ev with
  | hardKill => simp [next]
  | resume => cases p <;> simp [next]
  | softInt => cases p <;> simp [next]
  | step =>
    cases p with
    | dead => simp [next]
    | running p =>
      have hp : RunInv e d p := hp
      obtain ⟨todo, pc, buf⟩ := p
      cases todo with
      | nil => simp [next, stepRun]
      | cons a rest =>
        obtain ⟨u', k⟩ := a
        have hum := (head_facts e d _ hp u' k rest rfl).2.1
        have hne : u ≠ u' := fun h => hu (h ▸ hum)
        cases pc with
        | compute => simp [next, stepRun]
        | beginW v => simp [next, stepRun, setFile_other _ _ _ _ hne]
        | endW v => simp [next, stepRun, setFile_other _ _ _ _ hne]
        | print => simp [next, stepRun]
        | flush => simp [next, stepRun, Rules.current]

/-! ### completed writes are listed, except possibly the last one -/

/-- utterance of the last completed `torch.save` in an observation log -/
def lastEnded : List (Obs Id) → Option Id
  | [] => none
  | o :: os =>
    match lastEnded os with
    | some u => some u
    | none => match o with
      | .ended u => some u
      | _ => none

theorem lastEnded_append_ended (l : List (Obs Id)) (u : Id) : lastEnded (l ++ [.ended u]) = some u := by
  induction l with
  | nil => simp [lastEnded]
  | cons o os ih => simp [lastEnded, ih]

theorem lastEnded_append_noEnd (l l' : List (Obs Id)) (h : ∀ u, Obs.ended u ∉ l') :
    lastEnded (l ++ l') = lastEnded l := by
  have h0 : lastEnded l' = none := by
    induction l' with
    | nil => rfl
    | cons o os ih =>
      have := ih (fun u hu => h u (List.mem_cons_of_mem _ hu))
      simp only [lastEnded, this]
      cases o with
      | ended u => exact absurd (List.mem_cons_self) (h u)
      | _ => rfl
  induction l with
  | nil => simp [lastEnded, h0]
  | cons o os ih => simp [lastEnded, ih]

/-- a completed write that is not listed is the last completed write, and it is the first thing a
resumed run will redo -/
def Pending (e : Env Id V) (s : State Id V) (log : List (Obs Id)) : Prop :=
  ∀ u, Obs.ended u ∈ log → u ∉ s.d.manifest →
    lastEnded log = some u ∧ (unlisted e s.d.manifest).head? = some u

theorem pending_next (e : Env Id V) (s : State Id V) (h : Inv e s) (log : List (Obs Id))
    (hj : Pending e s log) (ev : Ev) :
    Pending e (next Rules.current e s ev).1 (log ++ (next Rules.current e s ev).2) := by
  obtain ⟨d, p⟩ := s
  obtain ⟨hs, hp⟩ := h
  -- events that change neither the manifest nor the log
  have same : ∀ s' : State Id V, s'.d.manifest = d.manifest → Pending e s' (log ++ []) := by
    intro s' hm u hu hul
    rw [List.append_nil] at hu ⊢
    rw [hm] at hul ⊢
    exact hj u hu hul
  cases ev with
  | hardKill => exact same _ rfl
  | resume => cases p <;> exact same _ rfl
  | softInt =>
    cases p with
    | dead => exact same _ rfl
    | running p =>
      have hp : RunInv e d p := hp
      obtain ⟨todo, pc, buf⟩ := p
      simp only [next]
      by_cases hf : pc = .flush
      · cases todo with
        | nil => have := hp.atEnd rfl; simp only at this; rw [hf] at this; cases this
        | cons a rest =>
          obtain ⟨u', k⟩ := a
          have hpc := hp.pcOk u' k rest rfl
          subst hf
          simp only at hpc
          have hun := (head_facts e d _ hp u' k rest rfl).2.2.2.1
          intro u hu hul
          rw [List.append_nil] at hu
          simp only [hpc.1, List.mem_append, List.mem_singleton, not_or] at hul
          have := (hj u hu hul.1).2
          rw [hun] at this
          simp only [List.head?_cons, Option.some.injEq] at this
          exact absurd this.symm hul.2
      · have hb : buf = [] := hp.bufNil hf
        apply same; simp [hb]
  | step =>
    cases p with
    | dead => exact same _ rfl
    | running p =>
      have hp : RunInv e d p := hp
      obtain ⟨todo, pc, buf⟩ := p
      cases todo with
      | nil =>
        have hc : pc = .compute := hp.atEnd rfl
        have hb : buf = [] := hp.bufNil (by simp only [hc]; intro h; cases h)
        simp only [next, stepRun]
        apply same; simp [hb]
      | cons a rest =>
        obtain ⟨u', k⟩ := a
        have hun := (head_facts e d _ hp u' k rest rfl).2.2.2.1
        have hpc := hp.pcOk u' k rest rfl
        simp only at hpc
        -- steps that log something which is not `ended` and leave the manifest alone
        have quiet : ∀ (s' : State Id V) (o : Obs Id), s'.d.manifest = d.manifest → (∀ x, o ≠ Obs.ended x) →
            Pending e s' (log ++ [o]) := by
          intro s' o hm ho u hu hul
          rw [hm] at hul ⊢
          have hu' : Obs.ended u ∈ log := by
            simp only [List.mem_append, List.mem_singleton] at hu
            cases hu with
            | inl h => exact h
            | inr h => exact absurd h.symm (ho u)
          rw [lastEnded_append_noEnd log [o] (by intro x hx; simp only [List.mem_singleton] at hx; exact ho x hx.symm)]
          exact hj u hu' hul
        cases pc with
        | compute => exact quiet _ _ rfl (by intro x h; cases h)
        | beginW v => exact quiet _ _ rfl (by intro x h; cases h)
        | print => exact quiet _ _ rfl (by intro x h; cases h)
        | endW v =>
          simp only [next, stepRun]
          intro u hu hul
          simp only at hul ⊢
          rw [lastEnded_append_ended]
          simp only [List.mem_append, List.mem_singleton, Obs.ended.injEq] at hu
          cases hu with
          | inl hu =>
            have := (hj u hu hul).2
            rw [hun] at this ⊢
            simp only [List.head?_cons, Option.some.injEq] at this
            subst this
            exact ⟨rfl, rfl⟩
          | inr hu => subst hu; rw [hun]; exact ⟨rfl, rfl⟩
        | flush =>
          simp only [next, stepRun, Rules.current, if_true, hpc.1]
          intro u hu hul
          simp only [List.mem_append, List.mem_singleton, not_or] at hul
          have hu' : Obs.ended u ∈ log := by
            simp only [List.mem_append, List.mem_singleton] at hu
            cases hu with
            | inl h => exact h
            | inr h => cases h
          have := (hj u hu' hul.1).2
          rw [hun] at this
          simp only [List.head?_cons, Option.some.injEq] at this
          exact absurd this.symm hul.2

theorem pending_exec (e : Env Id V) (hn : e.map.Nodup) (evs : List Ev) :
    ∀ (s : State Id V) (log : List (Obs Id)), Inv e s → Pending e s log →
      Pending e (exec Rules.current e s evs).1 (log ++ (exec Rules.current e s evs).2) := by
  induction evs with
  | nil => intro s log _ hj; simpa [exec] using hj
  | cons ev evs ih =>
    intro s log h hj
    simp only [exec, ← List.append_assoc]
    exact ih _ _ (inv_next e hn s h ev) (pending_next e s h log hj ev)

/-! ### running to the end -/

theorem exec_dead_steps (r : Rules) (e : Env Id V) (d : Durable Id V) (n : Nat) :
    exec r e { d := d, p := .dead } (List.replicate n .step) = ({ d := d, p := .dead }, []) := by
  induction n with
  | zero => rfl
  | succ n ih => simp [List.replicate_succ, exec, next, ih]

/-- an unfaulted process does to the disk what the plain main loop does, item by item -/
theorem exec_items (e : Env Id V) (todo : List (Id × Nat)) :
    ∀ d : Durable Id V,
      (exec Rules.current e { d := d, p := .running { todo := todo, pc := .compute, buf := [] } }
        (List.replicate (5 * todo.length + 1) .step)).1 =
      { d := mainLoop d (todo.map (fun p => (p.1, e.feat p.1 p.2))), p := .dead } := by
  induction todo with
  | nil => intro d; simp [exec, next, stepRun, mainLoop]
  | cons a rest ih =>
    intro d
    obtain ⟨u, k⟩ := a
    have h5 : List.replicate (5 * ((u, k) :: rest).length + 1) Ev.step =
        [.step, .step, .step, .step, .step] ++ List.replicate (5 * rest.length + 1) Ev.step := by
      have : 5 * ((u, k) :: rest).length + 1 = 5 + (5 * rest.length + 1) := by
        simp only [List.length_cons]; omega
      rw [this, ← List.replicate_append_replicate]; rfl
    rw [h5, exec_append]
    have h1 : (exec Rules.current e { d := d, p := .running { todo := (u, k) :: rest, pc := .compute, buf := [] } }
        [.step, .step, .step, .step, .step]).1 =
        { d := { files := setFile d.files u (.complete (e.feat u k)), manifest := d.manifest ++ [u] },
          p := .running { todo := rest, pc := .compute, buf := [] } } := by
      simp only [exec, next, stepRun, Rules.current, if_true, List.nil_append, setFile_setFile]
    simp only [h1, ih, List.map_cons, mainLoop]

theorem mainLoop_manifest (items : List (Id × V)) :
    ∀ d : Durable Id V, (mainLoop d items).manifest = d.manifest ++ items.map Prod.fst := by
  induction items with
  | nil => intro d; simp [mainLoop]
  | cons a rest ih => intro d; obtain ⟨u, v⟩ := a; simp [mainLoop, ih]

/-- one whole invocation on a quiet disk = the plain main loop over the unlisted utterances -/
theorem exec_fullRun (e : Env Id V) (d : Durable Id V) (n : Nat) (hn : (unlisted e d.manifest).length ≤ n) :
    (exec Rules.current e { d := d, p := .dead } (fullRun n)).1 =
      { d := mainLoop d ((unlisted e d.manifest).map (fun u => (u, e.feat u (seedKey e u)))), p := .dead } := by
  have hsplit : List.replicate (5 * n + 1) Ev.step =
      List.replicate (5 * (unlisted e d.manifest).length + 1) Ev.step ++
        List.replicate (5 * (n - (unlisted e d.manifest).length)) Ev.step := by
    rw [List.replicate_append_replicate]; congr 1; omega
  have hstart : (next Rules.current e { d := d, p := .dead } Ev.resume).1 =
      { d := d, p := .running { todo := (unlisted e d.manifest).map (fun u => (u, seedKey e u)),
                                pc := .compute, buf := [] } } := by
    simp [next, start, Rules.current]
  have hi := exec_items e ((unlisted e d.manifest).map (fun u => (u, seedKey e u))) d
  rw [List.length_map] at hi
  simp only [fullRun, exec, hstart, hsplit, exec_append, hi, exec_dead_steps, List.map_map, Function.comp_def]

theorem unlisted_length_le (e : Env Id V) (m : List Id) : (unlisted e m).length ≤ e.map.length :=
  List.length_filter_le _ _

/-- after a whole invocation every utterance of the map is listed and no process is left -/
theorem fullRun_all_listed (e : Env Id V) (d : Durable Id V) :
    (exec Rules.current e { d := d, p := .dead } (fullRun e.map.length)).1.p = .dead ∧
      ∀ u, u ∈ e.map → u ∈ (exec Rules.current e { d := d, p := .dead } (fullRun e.map.length)).1.d.manifest := by
  rw [exec_fullRun e d _ (unlisted_length_le e d.manifest)]
  refine ⟨rfl, ?_⟩
  intro u hu
  simp only [mainLoop_manifest, List.map_map, Function.comp_def, List.map_id', List.mem_append]
  by_cases h : u ∈ d.manifest
  · exact Or.inl h
  · exact Or.inr ((mem_unlisted e d.manifest u).mpr ⟨hu, h⟩)

theorem listed_exec (e : Env Id V) (hn : e.map.Nodup) (evs : List Ev) (u : Id) :
    ∀ s : State Id V, Inv e s → u ∈ s.d.manifest →
      (exec Rules.current e s evs).1.d.files u = s.d.files u ∧
        Obs.began u ∉ (exec Rules.current e s evs).2 ∧ ∀ k, Obs.computed u k ∉ (exec Rules.current e s evs).2 := by
  induction evs with
  | nil => intro s _ _; simp [exec]
  | cons ev evs ih =>
    intro s h hu
    obtain ⟨h1, h2, h3⟩ := listed_next e s h ev u hu
    obtain ⟨i1, i2, i3⟩ := ih _ (inv_next e hn s h ev) (manifest_mono_next _ e s ev u hu)
    simp only [exec, List.mem_append, not_or]
    exact ⟨i1.trans h1, ⟨h2, i2⟩, fun k => ⟨h3 k, i3 k⟩⟩

theorem outside_exec (e : Env Id V) (hn : e.map.Nodup) (evs : List Ev) (u : Id) (hu : u ∉ e.map) :
    ∀ s : State Id V, Inv e s → (exec Rules.current e s evs).1.d.files u = s.d.files u := by
  induction evs with
  | nil => intro s _; rfl
  | cons ev evs ih =>
    intro s h
    simp only [exec]
    rw [ih _ (inv_next e hn s h ev)]
    exact outside_next e s h ev u hu

/-- what the loader yields does not depend on which worker computed which item, nor on what the workers'
generators held before: every item re-seeds -/
theorem loaderOut_eq (pl : Pipeline Id V) (assign : Nat → Nat) (todo : List (Id × Nat)) :
    ∀ (i : Nat) (rng : Nat → Nat),
      loaderOut pl assign i rng todo = todo.map (fun p => (p.1, (pl.run p.1 p.2).1)) := by
  induction todo with
  | nil => intro i rng; rfl
  | cons a rest ih => intro i rng; obtain ⟨u, k⟩ := a; simp [loaderOut, getItem, ih]

end PdsVerif.FeatDirLemmas

/- the segment walk visits, tap by tap, exactly the bins the specification names -/
import PdsVerif.Model.Walk
namespace PdsVerif.WalkLemmas
open PdsVerif.Model.Walk

/-- the hit the specification assigns to tap `j` sitting on full-spectrum bin `b` -/
def hitOf (D b j : Nat) : Hit :=
  if b < halfLen D then { idx := b, conj := false, tap := j } else { idx := D - b, conj := true, tap := j }

/-- where the pass starts in the full spectrum: bin 0 (direct) or bin `half_len` (mirrored) -/
def base (D : Nat) (conj : Bool) : Nat := if conj then halfLen D else 0

theorem half_add_mir (D : Nat) (hD : 0 < D) : halfLen D + mirLen D = D := by
  simp only [halfLen, mirLen]; omega

theorem half_le (D : Nat) (hD : 0 < D) : halfLen D ≤ D := by unfold halfLen; omega

theorem spec_eq (D start len : Nat) :
    spec D start len = (List.range len).map fun j => hitOf D ((start + j) % D) j := by
  unfold spec hitOf; rfl

theorem map_range_split {β} (f : Nat → β) (n k : Nat) (h : k ≤ n) :
    (List.range n).map f = (List.range k).map f ++ (List.range (n - k)).map (fun t => f (k + t)) := by
  have : n = k + (n - k) := by omega
  conv => lhs; rw [this, List.range_add, List.map_append, List.map_map]
  rfl

/-- the three ways a pass of length `H` can meet a filter that starts `start` bins into it with
`r` taps left -/
theorem seg_cases (start r H : Nat) :
    (H ≤ start ∧ min (start + r) H - start = 0) ∨
    (start < H ∧ start + r ≤ H ∧ min (start + r) H - start = r) ∨
    (start < H ∧ H < start + r ∧ min (start + r) H - start = H - start) := by
  rcases Nat.le_total (start + r) H with h | h
  · rw [Nat.min_eq_left h]; omega
  · rw [Nat.min_eq_right h]; omega

theorem loop_eq (D len : Nat) (hD : 0 < D) :
    ∀ (fuel start cns : Nat) (conj : Bool), cns ≤ len →
      2 * (start + (len - cns)) + (if conj then 1 else 0) ≤ fuel →
      loop D len fuel start cns conj =
        (List.range (len - cns)).map fun t => hitOf D ((base D conj + start + t) % D) (cns + t) := by
  have hhm := half_add_mir D hD
  have hhl := half_le D hD
  intro fuel
  induction fuel with
  | zero =>
    intro start cns conj hc hf
    have : len - cns = 0 := by omega
    simp [loop, this]
  | succ fuel ih =>
    intro start cns conj hc hf
    unfold loop
    by_cases hlt : cns < len
    · simp only [hlt, if_true]
      cases conj
      · -- direct pass
        simp only [iter, Bool.false_eq_true, if_false]
        have e0 : start + len - cns = start + (len - cns) := by omega
        rw [e0]
        have key := seg_cases start (len - cns) (halfLen D)
        generalize min (start + (len - cns)) (halfLen D) - start = seg at key ⊢
        have hH : 0 < halfLen D := by unfold halfLen; omega
        simp only [Bool.false_eq_true, if_false] at hf
        have hsegle : seg ≤ len - cns := by omega
        rw [ih (start - halfLen D) (cns + seg) true (by omega) (by simp only [if_true]; omega)]
        rw [map_range_split _ (len - cns) seg hsegle]
        congr 1
        · apply List.map_congr_left; intro t ht
          have ht := List.mem_range.mp ht
          have hb : start + t < halfLen D := by omega
          simp only [base, Bool.false_eq_true, if_false, Nat.zero_add]
          rw [Nat.mod_eq_of_lt (by omega)]
          simp [hitOf, hb]
        · have e : len - (cns + seg) = len - cns - seg := by omega
          rw [e]
          apply List.map_congr_left; intro t ht
          have ht := List.mem_range.mp ht
          simp only [base, if_true, Bool.false_eq_true, if_false, Nat.zero_add]
          have : halfLen D + (start - halfLen D) + t = start + (seg + t) := by omega
          rw [this, Nat.add_assoc]
      · -- mirrored pass
        simp only [iter, if_true]
        have e0 : start + len - cns = start + (len - cns) := by omega
        rw [e0]
        have key := seg_cases start (len - cns) (mirLen D)
        generalize min (start + (len - cns)) (mirLen D) - start = seg at key ⊢
        simp only [if_true] at hf
        have hsegle : seg ≤ len - cns := by omega
        rw [ih (start - mirLen D) (cns + seg) false (by omega)
          (by simp only [Bool.false_eq_true, if_false]; omega)]
        rw [map_range_split _ (len - cns) seg hsegle]
        congr 1
        · apply List.map_congr_left; intro t ht
          have ht := List.mem_range.mp ht
          have hb : start + t < mirLen D := by omega
          simp only [base, if_true]
          rw [Nat.mod_eq_of_lt (show halfLen D + start + t < D by omega)]
          have : ¬ halfLen D + start + t < halfLen D := by omega
          simp only [hitOf, this, if_false]
          congr 1
          simp only [mirLen] at *; omega
        · have e : len - (cns + seg) = len - cns - seg := by omega
          rw [e]
          apply List.map_congr_left; intro t ht
          have ht := List.mem_range.mp ht
          simp only [base, if_true, Bool.false_eq_true, if_false, Nat.zero_add]
          have : halfLen D + start + (seg + t) = (start - mirLen D + t) + D := by omega
          rw [this, Nat.add_mod_right, Nat.add_assoc]
    · have : len - cns = 0 := by omega
      simp [hlt, this]

end PdsVerif.WalkLemmas

namespace PdsVerif.WalkLemmas
open PdsVerif.Model.Walk

theorem iterTorch_eq_iter (D len start cns : Nat) (conj : Bool) :
    iterTorch D len start cns conj = iter D len start cns conj := by
  cases conj
  · simp [iterTorch, iter]
  · simp only [iterTorch, iter, if_true]
    have key := seg_cases start (start + len - cns - start) (mirLen D)
    congr 1
    apply List.map_congr_left; intro t ht
    have ht := List.mem_range.mp ht
    have : start + t < mirLen D := by
      rcases Nat.le_total (start + len - cns) (mirLen D) with h | h
      · rw [Nat.min_eq_left h] at ht; omega
      · rw [Nat.min_eq_right h] at ht; omega
    simp only [mirLen] at this
    congr 1; omega

theorem loopTorch_eq_loop (D len : Nat) :
    ∀ (fuel start cns : Nat) (conj : Bool), loopTorch D len fuel start cns conj = loop D len fuel start cns conj := by
  intro fuel
  induction fuel with
  | zero => intros; simp [loopTorch, loop]
  | succ fuel ih =>
    intro start cns conj
    unfold loopTorch loop
    simp only [iterTorch_eq_iter, ih]

end PdsVerif.WalkLemmas

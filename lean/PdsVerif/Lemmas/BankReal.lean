/-
  Real-number instances for the bank model (C05) and the list lemmas its theorems use.
-/
import PdsVerif.Model.BankLayout
import PdsVerif.RealNum
import Mathlib.Algebra.Order.Floor.Ring
import Mathlib.Data.Nat.Factorial.Basic
import Mathlib.Tactic

namespace PdsVerif.BankReal
open PdsVerif PdsVerif.Gen.BankConsts PdsVerif.Model.BankLayout

/-- `int(np.ceil x)`, `int(np.floor x)`, `int(x)` at the reals -/
noncomputable instance : FloorCeil ℝ where
  ceilI x := ⌈x⌉
  floorI x := ⌊x⌋
  truncI x := if 0 ≤ x then ⌊x⌋ else ⌈x⌉

@[simp] theorem ceilI_real (x : ℝ) : FloorCeil.ceilI x = ⌈x⌉ := rfl
@[simp] theorem floorI_real (x : ℝ) : FloorCeil.floorI x = ⌊x⌋ := rfl
theorem truncI_real (x : ℝ) : FloorCeil.truncI x = if 0 ≤ x then ⌊x⌋ else ⌈x⌉ := rfl
theorem truncI_nonneg (x : ℝ) (h : 0 ≤ x) : FloorCeil.truncI x = ⌊x⌋ := by
  rw [truncI_real, if_pos h]

theorem fact_eq (n : ℕ) : fact n = n.factorial := by
  induction n with
  | zero => rfl
  | succ n ih => simp [fact, ih, Nat.factorial_succ]

/-! ### `tabulate`, `pairs`, `centersOf`, `supportsOf` -/

@[simp] theorem tabulate_length {β : Type} (n : ℕ) (f : ℕ → β) : (tabulate n f).length = n := by
  simp [tabulate]

theorem tabulate_getElem {β : Type} (n : ℕ) (f : ℕ → β) (i : ℕ) (h : i < (tabulate n f).length) :
    (tabulate n f)[i] = f i := by
  simp [tabulate]

theorem tabulate_getElem? {β : Type} (n : ℕ) (f : ℕ → β) (i : ℕ) :
    (tabulate n f)[i]? = if i < n then some (f i) else none := by
  unfold tabulate
  split_ifs with h
  · rw [List.getElem?_map, List.getElem?_range h]; rfl
  · simp [Nat.le_of_not_lt h]

theorem pairs_length {β : Type} (l : List β) : (pairs l).length = l.length - 1 := by
  simp [pairs]

theorem pairs_getElem {β : Type} (l : List β) (i : ℕ) (h : i < (pairs l).length) :
    (pairs l)[i] = (l[i]'(by rw [pairs_length] at h; omega), l[i + 1]'(by rw [pairs_length] at h; omega)) := by
  simp [pairs, List.getElem_zip, List.getElem_dropLast]

theorem centersOf_length {β : Type} (l : List β) : (centersOf l).length = l.length - 2 := by
  simp [centersOf]; omega

theorem centersOf_getElem {β : Type} (l : List β) (i : ℕ) (h : i < (centersOf l).length) :
    (centersOf l)[i] = l[i + 1]'(by rw [centersOf_length] at h; omega) := by
  unfold centersOf
  simp [List.getElem_dropLast]

theorem supportsOf_length {β : Type} (l : List β) : (supportsOf l).length = l.length - 2 := by
  simp [supportsOf]

theorem supportsOf_getElem {β : Type} (l : List β) (i : ℕ) (h : i < (supportsOf l).length) :
    (supportsOf l)[i] = (l[i]'(by rw [supportsOf_length] at h; omega), l[i + 2]'(by rw [supportsOf_length] at h; omega)) := by
  simp [supportsOf, List.getElem_zip, List.getElem_take, List.getElem_drop, Nat.add_comm]

/-! ### the write loop -/

theorem writeLoop_succ {β : Type} (mirror : Bool) (val : ℕ → β) (lo cnt : ℕ) (res : List β) :
    writeLoop mirror val lo (cnt + 1) res =
      (let r := (writeLoop mirror val lo cnt res).set (lo + cnt) (val (lo + cnt))
       if mirror then r.set (negIdx r.length (lo + cnt)) (val (lo + cnt)) else r) := by
  unfold writeLoop
  rw [List.range'_concat, List.foldl_append]
  simp

@[simp] theorem writeLoop_zero {β : Type} (mirror : Bool) (val : ℕ → β) (lo : ℕ) (res : List β) :
    writeLoop mirror val lo 0 res = res := by
  simp [writeLoop]

@[simp] theorem writeLoop_length {β : Type} (mirror : Bool) (val : ℕ → β) (lo cnt : ℕ) (res : List β) :
    (writeLoop mirror val lo cnt res).length = res.length := by
  induction cnt with
  | zero => simp
  | succ n ih =>
    rw [writeLoop_succ]
    cases mirror <;> simp [ih]

/-- Every buffer position after the loop: the direct write wins inside `[lo, lo+cnt)`, otherwise the
mirrored write `res[-idx]` (when enabled, and the loop stays in the lower half of the buffer),
otherwise the position is untouched. -/
theorem writeLoop_get {β : Type} (mirror : Bool) (val : ℕ → β) (lo cnt : ℕ) (res : List β)
    (hb : lo + cnt ≤ res.length) (hhalf : mirror = true → 2 * (lo + cnt) ≤ res.length + 2)
    (k : ℕ) (hk : k < res.length) :
    (writeLoop mirror val lo cnt res)[k]? =
      if lo ≤ k ∧ k < lo + cnt then some (val k)
      else if mirror = true ∧ k ≠ 0 ∧ lo ≤ res.length - k ∧ res.length - k < lo + cnt then some (val (res.length - k))
      else res[k]? := by
  induction cnt with
  | zero =>
    rw [writeLoop_zero, if_neg (by omega), if_neg (by omega)]
  | succ n ih =>
    have hb' : lo + n ≤ res.length := by omega
    have hh' : mirror = true → 2 * (lo + n) ≤ res.length + 2 := fun h => by have := hhalf h; omega
    have ih := ih hb' hh'
    have hlen : (writeLoop mirror val lo n res).length = res.length := writeLoop_length ..
    simp only [writeLoop_succ]
    cases mirror with
    | false =>
      simp only [Bool.false_eq_true, ↓reduceIte, false_and, List.getElem?_set, hlen]
      simp only [Bool.false_eq_true, false_and, ↓reduceIte] at ih
      by_cases h1 : lo + n = k
      · rw [if_pos h1, if_pos (by omega), if_pos ⟨by omega, by omega⟩, h1]
      · rw [if_neg h1, ih]
        by_cases h2 : lo ≤ k ∧ k < lo + n
        · rw [if_pos h2, if_pos ⟨h2.1, by omega⟩]
        · rw [if_neg h2, if_neg (by omega)]
    | true =>
      have hh := hhalf rfl
      simp only [↓reduceIte, List.getElem?_set, List.length_set, hlen, true_and]
      simp only [true_and] at ih
      unfold negIdx
      by_cases hz : lo + n = 0
      · -- the only index is 0 and its mirror is 0
        have hlo : lo = 0 := by omega
        have hn : n = 0 := by omega
        subst hlo; subst hn
        simp only [Nat.add_zero, ↓reduceIte]
        by_cases hk0 : 0 = k
        · subst hk0; simp [hk]
        · rw [if_neg hk0, if_neg hk0]
          simp only [writeLoop_zero]
          rw [if_neg (by omega), if_neg (by omega)]
      · rw [if_neg hz]
        by_cases hm : res.length - (lo + n) = k
        · rw [if_pos hm, if_pos (by omega)]
          by_cases hin : lo ≤ k ∧ k < lo + (n + 1)
          · rw [if_pos hin]
            have : k = lo + n := by omega
            rw [this]
          · rw [if_neg hin, if_pos ⟨by omega, by omega, by omega⟩]
            congr 2; omega
        · rw [if_neg hm]
          by_cases h1 : lo + n = k
          · rw [if_pos h1, if_pos (by omega), if_pos ⟨by omega, by omega⟩, h1]
          · rw [if_neg h1, ih]
            by_cases h2 : lo ≤ k ∧ k < lo + n
            · rw [if_pos h2, if_pos ⟨h2.1, by omega⟩]
            · have h2' : ¬(lo ≤ k ∧ k < lo + (n + 1)) := by omega
              rw [if_neg h2, if_neg h2']
              by_cases h3 : k ≠ 0 ∧ lo ≤ res.length - k ∧ res.length - k < lo + n
              · have h3' : k ≠ 0 ∧ lo ≤ res.length - k ∧ res.length - k < lo + (n + 1) :=
                  ⟨h3.1, h3.2.1, by omega⟩
                rw [if_pos h3, if_pos h3']
              · have h3' : ¬(k ≠ 0 ∧ lo ≤ res.length - k ∧ res.length - k < lo + (n + 1)) := by omega
                rw [if_neg h3, if_neg h3']

/-! ### `sumRange` -/

theorem intRange_length (lo hi : ℤ) : (intRange lo hi).length = (hi - lo).toNat := by
  simp [intRange]

end PdsVerif.BankReal

/-
  `finalize`, `compute_full` and chunked streaming of the short-integration model against the
  specification: the stream is the zero-extended signal, the canonical invariant of
  `Lemmas/SiChunk.lean` is carried through every call.
-/
import PdsVerif.Lemmas.SiChunk
set_option linter.unusedSectionVars false
set_option linter.unusedVariables false
set_option linter.unnecessarySeqFocus false
set_option linter.unusedTactic false
namespace PdsVerif.SiFull
open PdsVerif.Model.Si PdsVerif.Seg PdsVerif.SiBasic PdsVerif.SiAcc PdsVerif.SiChunk

variable {α : Type} [CommRing α]

/-! ### the zero-extended signal as a stream -/

theorem sigZ_neg (x : List α) (p : Int) (h : p < 0) : sigZ x p = 0 := by simp [sigZ, h]

theorem sigZ_ge (x : List α) (p : Int) (h : (x.length : Int) ≤ p) : sigZ x p = 0 := by
  unfold sigZ
  rw [if_neg (by omega)]
  rw [List.getD_eq_getElem?_getD, List.getElem?_eq_none (by omega)]
  rfl

theorem seg_sigZ (x : List α) (n m : Nat) (h : n + m ≤ x.length) :
    seg (sigZ x) n m = (x.drop n).take m := by
  apply List.ext_getElem
  · simp; omega
  · intro i h1 h2
    simp only [seg_length] at h1
    rw [seg_getElem, List.getElem_take, List.getElem_drop]
    unfold sigZ
    rw [if_neg (by omega)]
    have : ((n : Int) + i).toNat = n + i := by omega
    rw [this]
    simp [List.getD_eq_getElem?_getD]
    rw [List.getElem?_eq_getElem (by omega)]
    simp

/-! ### the frames of the accumulators are the frames of the documented formula -/

theorem mFrame_eq_specFrame (c : Cfg) (B : Bank α) (hw : B.window.length = 2 * c.S) (X : Int → α)
    (k : Nat) : mFrame c B X k = specFrame c B X k := by
  unfold mFrame specFrame coef
  apply List.map_congr_left
  intro h _
  congr 1
  have hw0 : (B.window.take c.S).take c.S = B.window.take c.S := by simp
  have hw1 : (B.window.drop c.S).take c.S = B.window.drop c.S := by
    rw [List.take_of_length_le]; simp; omega
  rw [hw0, hw1]
  rw [dot_eq_sum_range _ _ c.S (by simp) (by simp; omega),
      dot_eq_sum_range _ _ c.S (by simp) (by simp; omega)]
  have e2 : 2 * c.S = c.S + c.S := by omega
  rw [e2, List.range_add, List.map_append, List.sum_append, List.map_map]
  congr 1
  · congr 1
    apply List.map_congr_left
    intro u hu
    have hu := List.mem_range.mp hu
    rw [seg_getD _ _ _ _ _ hu]
    unfold vOf
    rw [mul_comm]
    congr 1
    · simp [List.getD_eq_getElem?_getD, hu]
  · congr 1
    apply List.map_congr_left
    intro u hu
    have hu := List.mem_range.mp hu
    simp only [Function.comp]
    rw [seg_getD _ _ _ _ _ hu]
    unfold vOf
    rw [mul_comm]
    congr 1
    · simp [List.getD_eq_getElem?_getD, List.getElem?_drop]
    · congr 2
      push_cast; ring

/-! ### the `compute_chunk` wrapper -/

theorem chunk_started (c : Cfg) (B : Bank α) (st : St α) (ch : List α) (h : st.started = true) :
    chunk c B st st.dtype ch = chunkCore c B st ch := by
  unfold chunk
  rw [if_pos h, if_neg (by simp)]

theorem chunk_fresh (c : Cfg) (B : Bank α) (st : St α) (dt : DType) (ch : List α)
    (h : st.started = false) (hf : dt.isFloat = true) :
    chunk c B st dt ch = chunkCore c B (reset c B dt) ch := by
  unfold chunk
  rw [if_neg (by simp [h]), if_neg (by simp [hf])]

/-! ### frame-count arithmetic of `finalize` -/

/-- frames `compute_full` owes for `N` samples -/
def numFull (c : Cfg) (N : Nat) : Nat := (N + c.S / 2) / c.S

theorem skip0_le_tr (c : Cfg) : skip0 c ≤ c.tr := by
  unfold skip0; cases c.centered <;> simp

theorem finalize_arith (c : Cfg) (B : Bank α) (w : WF c B) (N : Nat) :
    emitted c N ≤ numFull c N ∧
    (emitted c N < numFull c N → N ≤ numFull c N * c.S + c.M - 1 ∧
      numFull c N ≤ emitted c (numFull c N * c.S + c.M - 1)) := by
  have hS := w.hS
  have hM := w.hM
  have hx := xrem0_le c
  have hs := skip0_le_tr c
  have hsx := skip_or_xrem c
  -- S + skip0 - xrem0 ≤ M  and  xrem0 + M - 1 - skip0 ≥ S
  have hA : c.S + skip0 c ≤ c.M + xrem0 c ∧ c.S + skip0 c + 1 ≤ xrem0 c + c.M := by
    unfold skip0 xrem0
    cases hc : c.centered <;> simp [hc] at hM ⊢ <;> omega
  have hM1 : c.tr + 1 ≤ c.M := by split_ifs at hM <;> omega
  unfold emitted numFull
  obtain ⟨t1, t2⟩ := div_facts (N + c.S / 2) c.S hS
  obtain ⟨r1, r2⟩ := div_facts (rawN c N) c.S hS
  have hhalf : c.S / 2 < c.S := Nat.div_lt_self hS (by omega)
  generalize (N + c.S / 2) / c.S = T at *
  generalize hqR : rawN c N / c.S = qR at *
  have hrN : rawN c N ≤ N + c.S := by unfold rawN; omega
  have h1 : qR - 1 ≤ T := by
    by_contra hc
    have : (T + 2) * c.S ≤ qR * c.S := Nat.mul_le_mul_right _ (by omega)
    rw [Nat.add_mul] at this
    omega
  refine ⟨h1, ?_⟩
  intro hlt
  have hqT : qR * c.S ≤ T * c.S := Nat.mul_le_mul_right _ (by omega)
  have hN : N ≤ T * c.S + c.M - 1 := by
    unfold rawN at r2
    by_cases hn : N < skip0 c
    · omega
    · omega
  refine ⟨hN, ?_⟩
  have hr2 : (T + 1) * c.S ≤ rawN c (T * c.S + c.M - 1) := by
    unfold rawN
    rw [Nat.succ_mul]
    omega
  have : T + 1 ≤ rawN c (T * c.S + c.M - 1) / c.S := (Nat.le_div_iff_mul_le hS).mpr hr2
  omega

theorem take_range' (s n k : Nat) : (List.range' s n).take k = List.range' s (min k n) := by
  apply List.ext_getElem
  · simp
  · intro i h1 h2
    simp

/-! ### `finalize` -/

theorem finalize_spec (c : Cfg) (B : Bank α) (w : WF c B) (X : Int → α) (N : Nat)
    (hXN : ∀ p : Int, (N : Int) ≤ p → X p = 0) (st : St α) (inv : Inv c B X N st) :
    ∃ st', finalize c B st
        = .ok (st', (List.range' (emitted c N) (numFull c N - emitted c N)).map (mFrame c B X)) ∧
      st'.started = false ∧ st'.dtype = st.dtype := by
  have hS := w.hS
  obtain ⟨a1, a2⟩ := finalize_arith c B w N
  have hsk := inv.skip
  have hsp := inv.split
  have hsx := skip_or_xrem c
  -- buf_len = N - E·S
  have hb : ((c.tr : Int) - st.skip + st.xRem + st.yRem - (if c.centered then (c.S : Int) else 0))
      = (N : Int) - ((emitted c N * c.S : Nat) : Int) := by
    have ho := offs_eq c
    unfold offs at ho
    unfold rawN at hsp
    split_ifs at ho ⊢ <;> omega
  have hnf : ((N : Int) - ((emitted c N * c.S : Nat) : Int) + ((c.S / 2 : Nat) : Int)) / (c.S : Int)
      = (numFull c N : Int) - emitted c N := by
    have e : (N : Int) - ((emitted c N * c.S : Nat) : Int) + ((c.S / 2 : Nat) : Int)
        = ((N + c.S / 2 : Nat) : Int) + (-(emitted c N : Int)) * (c.S : Int) := by push_cast; ring
    rw [e, Int.add_mul_ediv_right _ _ (by omega), ← Int.natCast_ediv]
    unfold numFull
    ring
  unfold finalize
  rw [if_pos inv.started]
  simp only [hb, hnf]
  by_cases hlt : emitted c N < numFull c N
  · obtain ⟨b1, b2⟩ := a2 hlt
    have hmax : max (0 : Int) ((numFull c N : Int) - emitted c N) = ((numFull c N - emitted c N : Nat) : Int) := by
      omega
    rw [hmax, if_pos (by omega)]
    have hpad : (((numFull c N - emitted c N : Nat) : Int) - 1) * (c.S : Int) + ((c.M : Int) + c.S - 1)
        - ((N : Int) - ((emitted c N * c.S : Nat) : Int))
        = ((numFull c N * c.S + c.M - 1 - N : Nat) : Int) := by
      have hM1 : 1 ≤ c.M := by have := w.hM; split_ifs at this <;> omega
      have e1 : ((numFull c N - emitted c N : Nat) : Int) = (numFull c N : Int) - emitted c N := by omega
      rw [e1]
      have e2 : ((numFull c N * c.S + c.M - 1 - N : Nat) : Int)
          = (numFull c N : Int) * c.S + c.M - 1 - N := by
        have : N ≤ numFull c N * c.S + c.M - 1 := b1
        push_cast [this]
        omega
      rw [e2]
      push_cast
      ring
    rw [hpad, if_neg (by omega), Int.toNat_natCast, Int.toNat_natCast]
    have hz : List.replicate (numFull c N * c.S + c.M - 1 - N) (0 : α)
        = seg X N (numFull c N * c.S + c.M - 1 - N) := by
      apply seg_replicate_zero
      intro i _
      apply hXN; omega
    rw [hz, chunk_started c B st _ inv.started]
    obtain ⟨st', h1, h2, h3, h4⟩ := chunkCore_spec c B w X N (numFull c N * c.S + c.M - 1 - N) st inv
    rw [h1]
    refine ⟨{ st' with started := false }, ?_, rfl, h3⟩
    simp only
    rw [← List.map_take, take_range']
    have e3 : N + (numFull c N * c.S + c.M - 1 - N) = numFull c N * c.S + c.M - 1 := by omega
    rw [e3]
    have e4 : min (numFull c N - emitted c N) (emitted c (numFull c N * c.S + c.M - 1) - emitted c N)
        = numFull c N - emitted c N := by omega
    rw [e4]
  · have hmax : max (0 : Int) ((numFull c N : Int) - emitted c N) = 0 := by omega
    rw [hmax, if_neg (by omega)]
    have e : numFull c N - emitted c N = 0 := by omega
    rw [e]
    exact ⟨{ st with started := false }, rfl, rfl, rfl⟩


/-! ### `compute_full` and streaming -/

theorem emitted_zero (c : Cfg) (hS : 0 < c.S) : emitted c 0 = 0 := by
  unfold emitted rawN
  have := xrem0_le c
  have : (xrem0 c + (0 - skip0 c)) / c.S ≤ 1 := by
    rw [Nat.zero_sub, Nat.add_zero]
    calc xrem0 c / c.S ≤ c.S / c.S := Nat.div_le_div_right this
      _ = 1 := Nat.div_self hS
  omega

theorem spec_eq (c : Cfg) (B : Bank α) (hw : B.window.length = 2 * c.S) (x : List α) :
    spec c B x = (List.range' 0 (numFull c x.length)).map (mFrame c B (sigZ x)) := by
  unfold spec numFull
  rw [List.range_eq_range']
  apply List.map_congr_left
  intro k _
  rw [mFrame_eq_specFrame c B hw]

theorem range'_glue (a b t : Nat) (hab : a ≤ b) (hbt : b ≤ t) :
    List.range' a (b - a) ++ List.range' b (t - b) = List.range' a (t - a) := by
  have e1 : List.range' b (t - b) = List.range' (a + (b - a)) (t - b) := by congr 1; omega
  rw [e1, List.range'_append_1]
  congr 1; omega

/-- from a state that has consumed the first `n` samples: the remaining chunks, then `finalize` -/
theorem streamFrom_spec (c : Cfg) (B : Bank α) (w : WF c B) (x : List α) :
    ∀ (chunks : List (List α)) (n : Nat) (st : St α), Inv c B (sigZ x) n st →
      x.drop n = chunks.flatten → n ≤ x.length →
      ∃ st', streamFrom c B st.dtype st chunks
          = .ok (st', (List.range' (emitted c n) (numFull c x.length - emitted c n)).map (mFrame c B (sigZ x))) ∧
        st'.started = false ∧ st'.dtype = st.dtype ∧ emitted c n ≤ numFull c x.length := by
  intro chunks
  induction chunks with
  | nil =>
    intro n st inv hx hn
    have hN : n = x.length := by
      have := congrArg List.length hx
      simp at this; omega
    subst hN
    obtain ⟨st', h1, h2, h3⟩ := finalize_spec c B w (sigZ x) x.length (fun p hp => sigZ_ge x p hp) st inv
    exact ⟨st', by simpa [streamFrom] using h1, h2, h3, (finalize_arith c B w x.length).1⟩
  | cons ch rest ih =>
    intro n st inv hx hn
    have hlen : n + ch.length ≤ x.length := by
      have := congrArg List.length hx
      simp at this; omega
    have hch : ch = seg (sigZ x) n ch.length := by
      rw [seg_sigZ x n ch.length hlen, hx]
      simp
    have hrest : x.drop (n + ch.length) = rest.flatten := by
      rw [← List.drop_drop, hx]
      simp
    obtain ⟨st1, h1, h2, h3, h4⟩ := chunkCore_spec c B w (sigZ x) n ch.length st inv
    obtain ⟨st2, g1, g2, g3, g4⟩ := ih (n + ch.length) st1 h2 hrest hlen
    refine ⟨st2, ?_, g2, by rw [g3, h3], by omega⟩
    unfold streamFrom
    rw [chunk_started c B st ch inv.started]
    have hcc : chunkCore c B st ch = chunkCore c B st (seg (sigZ x) n ch.length) :=
      congrArg (chunkCore c B st) hch
    rw [hcc, h1]
    simp only
    rw [← h3, g1]
    simp only
    rw [← List.map_append, range'_glue _ _ _ h4 g4]

/-- **streaming from a fresh (or finalized) computer equals the specification** -/
theorem stream_spec (c : Cfg) (B : Bank α) (w : WF c B) (st : St α) (dt : DType)
    (hst : st.started = false) (hf : dt.isFloat = true) (chunks : List (List α)) :
    ∃ st', streamFrom c B dt st chunks = .ok (st', spec c B chunks.flatten) ∧ st'.started = false ∧
      (chunks ≠ [] → st'.dtype = dt) := by
  have hS := w.hS
  cases chunks with
  | nil =>
    refine ⟨st, ?_, hst, by simp⟩
    simp [streamFrom, finalize, hst, spec]
    right; exact Nat.div_lt_self hS (by omega)
  | cons ch rest =>
    have inv0 := inv_reset c B w (sigZ (ch :: rest).flatten) (fun p hp => sigZ_neg _ p hp) dt
    have hd : (reset c B dt).dtype = dt := rfl
    obtain ⟨st', h1, h2, h3, h4⟩ := streamFrom_spec c B w (ch :: rest).flatten (ch :: rest) 0
      (reset c B dt) inv0 (by simp) (by omega)
    rw [emitted_zero c hS, Nat.sub_zero, hd] at h1
    refine ⟨st', ?_, h2, fun _ => by rw [h3]; rfl⟩
    rw [spec_eq c B w.hwin]
    rw [← h1]
    -- the first call resets: same as starting from the reset state
    unfold streamFrom
    rw [chunk_fresh c B st dt ch hst hf,
      show chunk c B (reset c B dt) dt ch = chunkCore c B (reset c B dt) ch from
        chunk_started c B (reset c B dt) ch rfl]

/-- **`compute_full` equals the specification** -/
theorem full_spec (c : Cfg) (B : Bank α) (w : WF c B) (st : St α) (dt : DType)
    (hst : st.started = false) (hf : dt.isFloat = true) (x : List α) :
    ∃ st', full c B st dt x = .ok (st', spec c B x) ∧ st'.started = false ∧ st'.dtype = dt := by
  obtain ⟨st', h1, h2, h3⟩ := stream_spec c B w st dt hst hf [x]
  refine ⟨st', ?_, h2, h3 (by simp)⟩
  simp only [List.flatten_cons, List.flatten_nil, List.append_nil] at h1
  rw [← h1]
  unfold full streamFrom streamFrom
  rw [if_neg (by simp [hst])]

end PdsVerif.SiFull

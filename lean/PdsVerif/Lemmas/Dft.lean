/-
  The discrete Fourier transform as NumPy documents it, `X[k] = Σ_{n<D} x[n] · exp(−2πi·k·n/D)`, and the two
  facts about it that the frame computers rely on and that the models so far *trusted*:

  * `dft_mirror` (Hermitian symmetry): for a real signal `X[D − k] = conj X[k]` — why the STFT computer may
    read the upper half of the spectrum from `rfft`'s half spectrum, conjugated (C02, C14);
  * `idft_dft_mul` (circular convolution theorem): `idft(dft x · dft h)[p] = Σ_j h[j] · x[(p − j) mod D]` —
    why the short-integration computer's `irfft(rfft(buf) * rfft(h))` is the circular convolution that
    `Model/Si.lean` calls `circConv` (C03, C01).

  What stays trusted is only that `np.fft.rfft/fft/irfft/ifft` compute this transform.
-/
import Mathlib.Analysis.SpecialFunctions.Complex.Log
import Mathlib.Algebra.Field.GeomSum
import Mathlib.Tactic

namespace PdsVerif.Dft
open Complex Finset

/-- `exp(2πi·m/D)` -/
noncomputable def e (D : ℕ) (m : ℤ) : ℂ := cexp (2 * (Real.pi : ℂ) * I * (m : ℂ) / (D : ℂ))

theorem e_zero (D : ℕ) : e D 0 = 1 := by simp [e]

theorem e_add (D : ℕ) (a b : ℤ) : e D (a + b) = e D a * e D b := by
  unfold e
  rw [← Complex.exp_add]
  congr 1
  push_cast
  ring

theorem e_mul_self (D : ℕ) (hD : D ≠ 0) (j : ℤ) : e D ((D : ℤ) * j) = 1 := by
  unfold e
  have hD' : (D : ℂ) ≠ 0 := Nat.cast_ne_zero.mpr hD
  have : 2 * (Real.pi : ℂ) * I * (((D : ℤ) * j : ℤ) : ℂ) / (D : ℂ) = (j : ℂ) * (2 * Real.pi * I) := by
    push_cast
    field_simp
  rw [this]
  exact Complex.exp_int_mul_two_pi_mul_I j

theorem e_periodic (D : ℕ) (hD : D ≠ 0) (m j : ℤ) : e D (m + (D : ℤ) * j) = e D m := by
  rw [e_add, e_mul_self D hD, mul_one]

theorem e_neg (D : ℕ) (m : ℤ) : e D (-m) = (e D m)⁻¹ := by
  have h : e D (-m) * e D m = 1 := by rw [← e_add]; simp [e_zero]
  exact eq_inv_of_mul_eq_one_left h

theorem e_conj (D : ℕ) (m : ℤ) : (starRingEnd ℂ) (e D m) = e D (-m) := by
  unfold e
  rw [← Complex.exp_conj]
  congr 1
  simp only [map_div₀, map_mul, Complex.conj_I, Complex.conj_ofReal, map_ofNat, map_natCast, map_intCast]
  push_cast
  ring

theorem e_nat_mul (D : ℕ) (k : ℕ) (m : ℤ) : e D ((k : ℤ) * m) = e D m ^ k := by
  unfold e
  rw [← Complex.exp_nat_mul]
  congr 1
  push_cast
  ring

theorem e_eq_one_iff (D : ℕ) (hD : D ≠ 0) (m : ℤ) : e D m = 1 ↔ (D : ℤ) ∣ m := by
  have hD' : (D : ℂ) ≠ 0 := Nat.cast_ne_zero.mpr hD
  have h2pi : (2 * (Real.pi : ℂ) * I) ≠ 0 := by
    simp [Real.pi_ne_zero, Complex.I_ne_zero]
  unfold e
  rw [Complex.exp_eq_one_iff]
  constructor
  · rintro ⟨n, hn⟩
    refine ⟨n, ?_⟩
    have : (m : ℂ) = (D : ℂ) * (n : ℂ) := by
      rw [div_eq_iff hD'] at hn
      have h3 : (2 * (Real.pi : ℂ) * I) * (m : ℂ) = (2 * (Real.pi : ℂ) * I) * ((D : ℂ) * (n : ℂ)) := by
        linear_combination hn
      exact mul_left_cancel₀ h2pi h3
    exact_mod_cast this
  · rintro ⟨n, rfl⟩
    refine ⟨n, ?_⟩
    push_cast
    field_simp

/-- **orthogonality of the characters**: `Σ_{k<D} exp(2πi·k·m/D) = D` if `D ∣ m`, else `0` -/
theorem sum_e (D : ℕ) (hD : D ≠ 0) (m : ℤ) :
    ∑ k ∈ range D, e D ((k : ℤ) * m) = if (D : ℤ) ∣ m then (D : ℂ) else 0 := by
  simp_rw [e_nat_mul]
  split
  · next h =>
    rw [(e_eq_one_iff D hD m).mpr h]
    simp
  · next h =>
    have hne : e D m ≠ 1 := fun h1 => h ((e_eq_one_iff D hD m).mp h1)
    rw [geom_sum_eq hne]
    have : e D m ^ D = 1 := by
      rw [← e_nat_mul]
      exact e_mul_self D hD m
    rw [this]; simp

/-- NumPy's forward transform of the first `D` samples of `x`, at any (integer) bin -/
noncomputable def dft (D : ℕ) (x : ℕ → ℂ) (k : ℤ) : ℂ := ∑ n ∈ range D, x n * e D (-(k * (n : ℤ)))

/-- NumPy's inverse transform -/
noncomputable def idft (D : ℕ) (X : ℕ → ℂ) (p : ℤ) : ℂ :=
  (∑ k ∈ range D, X k * e D ((k : ℤ) * p)) / (D : ℂ)

theorem dft_periodic (D : ℕ) (hD : D ≠ 0) (x : ℕ → ℂ) (k j : ℤ) :
    dft D x (k + (D : ℤ) * j) = dft D x k := by
  unfold dft
  refine sum_congr rfl fun n _ => ?_
  congr 1
  rw [show -((k + (D : ℤ) * j) * (n : ℤ)) = -(k * (n : ℤ)) + (D : ℤ) * (-(j * n)) by ring]
  exact e_periodic D hD _ _

/-- conjugate symmetry: for a real signal, `X[−k] = conj X[k]` -/
theorem dft_neg_of_real (D : ℕ) (x : ℕ → ℂ) (hx : ∀ n, (starRingEnd ℂ) (x n) = x n) (k : ℤ) :
    dft D x (-k) = (starRingEnd ℂ) (dft D x k) := by
  unfold dft
  rw [map_sum]
  refine sum_congr rfl fun n _ => ?_
  rw [map_mul, hx, e_conj]
  congr 2
  ring

/-- **Hermitian symmetry** as the code uses it: full-spectrum bin `D − k` of a real frame is the conjugate of
bin `k` (the bins `rfft` does not return are mirrored ones) -/
theorem dft_mirror (D : ℕ) (hD : D ≠ 0) (x : ℕ → ℂ) (hx : ∀ n, (starRingEnd ℂ) (x n) = x n) (k : ℤ) :
    dft D x ((D : ℤ) - k) = (starRingEnd ℂ) (dft D x k) := by
  rw [← dft_neg_of_real D x hx k, show (D : ℤ) - k = -k + (D : ℤ) * 1 by ring, dft_periodic D hD]

/-- natural-number form of `dft_mirror`, `k ≤ D` -/
theorem dft_mirror_nat (D : ℕ) (hD : D ≠ 0) (x : ℕ → ℂ) (hx : ∀ n, (starRingEnd ℂ) (x n) = x n) (k : ℕ)
    (hk : k ≤ D) : dft D x ((D - k : ℕ) : ℤ) = (starRingEnd ℂ) (dft D x (k : ℤ)) := by
  rw [Nat.cast_sub hk]
  exact dft_mirror D hD x hx k

/-- the sample that lands on output `p` through tap `j`: the unique `n < D` with `n ≡ p − j (mod D)` -/
theorem sum_select (D : ℕ) (hD : D ≠ 0) (x : ℕ → ℂ) (p j : ℕ) (hp : p < D) (hj : j < D) :
    ∑ n ∈ range D, x n * (if (D : ℤ) ∣ ((p : ℤ) - (n : ℤ) - (j : ℤ)) then (D : ℂ) else 0)
      = (D : ℂ) * x ((p + D - j) % D) := by
  have hpos : 0 < D := Nat.pos_of_ne_zero hD
  have hmem : (p + D - j) % D ∈ range D := mem_range.mpr (Nat.mod_lt _ hpos)
  rw [sum_eq_single_of_mem _ hmem]
  · have : (D : ℤ) ∣ ((p : ℤ) - (((p + D - j) % D : ℕ) : ℤ) - (j : ℤ)) := by
      have h1 : (((p + D - j) % D : ℕ) : ℤ) = ((p : ℤ) + D - j) % (D : ℤ) := by
        rw [Int.natCast_mod, Nat.cast_sub (by omega)]; push_cast; rfl
      rw [h1]
      have h2 := Int.emod_add_mul_ediv ((p : ℤ) + D - j) (D : ℤ)
      refine ⟨((p : ℤ) + D - j) / (D : ℤ) - 1, ?_⟩
      linarith
    rw [if_pos this]; ring
  · intro n hn hne
    have hnl := mem_range.mp hn
    have : ¬ (D : ℤ) ∣ ((p : ℤ) - (n : ℤ) - (j : ℤ)) := by
      intro hdvd
      apply hne
      have hm : ((p + D - j) % D) = n := by
        have h3 : (n : ℤ) % (D : ℤ) = ((p : ℤ) + D - j) % (D : ℤ) := by
          obtain ⟨c, hc⟩ := hdvd
          have : (p : ℤ) + D - j = n + (D : ℤ) * (c + 1) := by linarith
          rw [this, Int.add_mul_emod_self_left]
        have h4 : ((n % D : ℕ) : ℤ) = (((p + D - j) % D : ℕ) : ℤ) := by
          rw [Int.natCast_mod, Int.natCast_mod, Nat.cast_sub (by omega)]; push_cast; exact h3
        have h5 : n % D = (p + D - j) % D := by exact_mod_cast h4
        rw [← h5, Nat.mod_eq_of_lt hnl]
      exact hm.symm
    rw [if_neg this, mul_zero]

/-- **circular convolution theorem**: `idft(dft x · dft h)[p] = Σ_{j<D} h[j] · x[(p − j) mod D]` for `p < D` -/
theorem idft_dft_mul (D : ℕ) (hD : D ≠ 0) (x h : ℕ → ℂ) (p : ℕ) (hp : p < D) :
    idft D (fun k => dft D x k * dft D h k) p = ∑ j ∈ range D, h j * x ((p + D - j) % D) := by
  have hD' : (D : ℂ) ≠ 0 := Nat.cast_ne_zero.mpr hD
  unfold idft
  rw [div_eq_iff hD']
  have step : ∀ k ∈ range D, dft D x (k : ℤ) * dft D h (k : ℤ) * e D ((k : ℤ) * (p : ℤ)) =
      ∑ n ∈ range D, ∑ j ∈ range D, h j * x n * e D ((k : ℤ) * ((p : ℤ) - (n : ℤ) - (j : ℤ))) := by
    intro k _
    unfold dft
    rw [sum_mul_sum, sum_mul]
    refine sum_congr rfl fun n _ => ?_
    rw [sum_mul]
    refine sum_congr rfl fun j _ => ?_
    have : e D ((k : ℤ) * ((p : ℤ) - (n : ℤ) - (j : ℤ))) =
        e D (-((k : ℤ) * (n : ℤ))) * e D (-((k : ℤ) * (j : ℤ))) * e D ((k : ℤ) * (p : ℤ)) := by
      rw [← e_add, ← e_add]; congr 1; ring
    rw [this]; ring
  rw [sum_congr rfl step, sum_comm]
  have inner : ∀ n ∈ range D, ∑ k ∈ range D, ∑ j ∈ range D,
        h j * x n * e D ((k : ℤ) * ((p : ℤ) - (n : ℤ) - (j : ℤ))) =
      ∑ j ∈ range D, h j * (x n * (if (D : ℤ) ∣ ((p : ℤ) - (n : ℤ) - (j : ℤ)) then (D : ℂ) else 0)) := by
    intro n _
    rw [sum_comm]
    refine sum_congr rfl fun j _ => ?_
    rw [← mul_sum, sum_e D hD]; ring
  rw [sum_congr rfl inner, sum_comm, sum_mul]
  refine sum_congr rfl fun j hj => ?_
  rw [← mul_sum, sum_select D hD x p j hp (mem_range.mp hj)]
  ring

end PdsVerif.Dft

/-
  C13 — lemmas about the bit-list reader (L0) and about running `Prog`s.
-/
import PdsVerif.Model.Shorten
namespace PdsVerif.Model.Shorten
open PdsVerif.Gen.Shorten

/-! ## L0 round trips -/

theorem unaryGet_replicate (n : Nat) (r : List Bool) :
    unaryGet (List.replicate n false ++ true :: r) = .ok (n, r) := by
  induction n with
  | zero => simp [unaryGet]
  | succ n ih => simp [List.replicate_succ, unaryGet, ih]

theorem mod_two_pow_succ' (n k : Nat) : n % 2 ^ (k + 1) = (n.testBit k).toNat * 2 ^ k + n % 2 ^ k := by
  rw [Nat.toNat_testBit, Nat.pow_succ, Nat.mod_mul, Nat.add_comm, Nat.mul_comm]

theorem bitsGet_bitsPut (k acc n : Nat) (r : List Bool) :
    bitsGet k acc (bitsPut k n ++ r) = .ok (acc * 2 ^ k + n % 2 ^ k, r) := by
  induction k generalizing acc with
  | zero => simp [bitsGet, bitsPut, Nat.mod_one]
  | succ k ih =>
    simp only [bitsPut, List.cons_append, bitsGet, ih]
    rw [mod_two_pow_succ' n k, Nat.pow_succ]
    congr 2
    rw [Nat.add_mul, Nat.mul_comm 2 acc, Nat.mul_assoc, Nat.mul_comm 2 (2 ^ k), Nat.add_assoc]

theorem uvarGet_uvarPut (k n : Nat) (r : List Bool) : uvarGet k (uvarPut k n ++ r) = .ok (n, r) := by
  simp only [uvarGet, uvarPut, List.append_assoc, List.cons_append, unaryGet_replicate, bitsGet_bitsPut]
  rw [Nat.shiftRight_eq_div_pow, Nat.mul_comm, Nat.div_add_mod]

theorem unfold_fold (v : Int) : unfold (fold v) = v := by
  unfold unfold fold
  split <;> split <;> omega

theorem fold_unfold (u : Nat) : fold (unfold u) = u := by
  unfold unfold fold
  split <;> split <;> omega

/-! ## running programs -/

namespace Prog
variable {α β σ : Type} (uv : Nat → σ → Except Err (Nat × σ))

@[simp] theorem run_pure (a : α) (s : σ) : (pure a : Prog α).run uv s = .ok (a, s) := rfl
@[simp] theorem run_ret (a : α) (s : σ) : (Prog.ret a).run uv s = .ok (a, s) := rfl
@[simp] theorem run_fail (e : Err) (s : σ) : (Prog.fail e : Prog α).run uv s = .error e := rfl
@[simp] theorem run_failWith (e : Err) (s : σ) : (failWith e : Prog α).run uv s = .error e := rfl
@[simp] theorem run_chk (b : Bool) (c : Prog α) (s : σ) : (Prog.chk b c).run uv s = c.run uv s := rfl
@[simp] theorem run_check (b : Bool) (s : σ) : (check b).run uv s = .ok ((), s) := rfl

theorem run_bind' (p : Prog α) (f : α → Prog β) (s : σ) :
    (p.bind f).run uv s =
      match p.run uv s with
      | .error e => .error e
      | .ok (a, s') => (f a).run uv s' := by
  induction p generalizing s with
  | ret a => rfl
  | fail e => rfl
  | read k c ih =>
    simp only [Prog.bind, run]
    cases uv k s with
    | error e => rfl
    | ok v => exact ih v.1 v.2
  | chk b c ih => simpa [Prog.bind, run] using ih s

@[simp] theorem run_bind (p : Prog α) (f : α → Prog β) (s : σ) :
    (p >>= f).run uv s =
      match p.run uv s with
      | .error e => .error e
      | .ok (a, s') => (f a).run uv s' := run_bind' uv p f s

@[simp] theorem run_uvar (k : Nat) (s : σ) :
    (uvar k).run uv s = match uv k s with | .error e => .error e | .ok (n, s') => .ok (n, s') := by
  simp only [uvar, run]
  cases uv k s with
  | error e => rfl
  | ok v => rfl

/-- a step that succeeds can be peeled off a bind -/
theorem run_bind_ok {p : Prog α} {f : α → Prog β} {s s' : σ} {a : α} (hp : p.run uv s = .ok (a, s')) :
    (p >>= f).run uv s = (f a).run uv s' := by
  rw [run_bind, hp]

theorem run_bind_err {p : Prog α} {f : α → Prog β} {s : σ} {e : Err} (hp : p.run uv s = .error e) :
    (p >>= f).run uv s = .error e := by
  rw [run_bind, hp]

end Prog

/-! ## the three readers on encoded values (L0) -/

theorem run_uvar_put (k n : Nat) (r : List Bool) : (uvar k).run uvarGet (uvarPut k n ++ r) = .ok (n, r) := by
  rw [Prog.run_uvar, uvarGet_uvarPut]

theorem run_var_put (k : Nat) (v : Int) (r : List Bool) : (var k).run uvarGet (varPut k v ++ r) = .ok (v, r) := by
  unfold var varPut
  rw [Prog.run_bind_ok uvarGet (run_uvar_put _ _ _)]
  simp [unfold_fold]

theorem run_ulong_put (n : Nat) (r : List Bool) : ulong.run uvarGet (ulongPut n ++ r) = .ok (n, r) := by
  unfold ulong ulongPut
  rw [List.append_assoc, Prog.run_bind_ok uvarGet (run_uvar_put _ _ _)]
  exact run_uvar_put _ _ _

end PdsVerif.Model.Shorten

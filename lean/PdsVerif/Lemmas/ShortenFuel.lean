/-
  C13 — the loop fuels are proof devices: they are never exhausted, their value does not matter,
  and a truncated encoded stream ends in the IOError.
-/
import PdsVerif.Lemmas.ShortenInterp
import PdsVerif.Lemmas.ShortenWord
namespace PdsVerif.Model.Shorten
open PdsVerif.Gen.Shorten

/-! ## programs that cannot fail with `fuel` -/

namespace Prog
variable {α β σ : Type}

def NoFuel : Prog α → Prop
  | .ret _ => True
  | .fail e => e ≠ .fuel
  | .read _ c => ∀ n, NoFuel (c n)
  | .chk _ c => NoFuel c

theorem NoFuel.bind' {p : Prog α} {f : α → Prog β} (hp : NoFuel p) (hf : ∀ a, NoFuel (f a)) :
    NoFuel (p.bind f) := by
  induction p with
  | ret a => exact hf a
  | fail e => exact hp
  | read k c ih => intro n; exact ih n (hp n)
  | chk b c ih => exact ih hp

theorem NoFuel.bind {p : Prog α} {f : α → Prog β} (hp : NoFuel p) (hf : ∀ a, NoFuel (f a)) :
    NoFuel (p >>= f) := NoFuel.bind' hp hf

theorem NoFuel.pure (a : α) : NoFuel (pure a : Prog α) := trivial

theorem run_ne_fuel (uv : Nat → σ → Except Err (Nat × σ)) (huv : ∀ k s, uv k s ≠ .error .fuel)
    (p : Prog α) (hp : NoFuel p) (s : σ) : p.run uv s ≠ .error .fuel := by
  induction p generalizing s with
  | ret a => simp [run]
  | fail e => simp only [run, ne_eq, Except.error.injEq]; exact hp
  | read k c ih =>
    simp only [run]
    cases h : uv k s with
    | error e => simp only [ne_eq, Except.error.injEq]; intro he; exact huv k s (by rw [h, he])
    | ok v => exact ih v.1 (hp v.1) v.2
  | chk b c ih => exact ih hp s

/-- programs never give back more input than they got -/
theorem run_measure_le (uv : Nat → σ → Except Err (Nat × σ)) (m : σ → Nat)
    (huv : ∀ k s n s', uv k s = .ok (n, s') → m s' ≤ m s)
    (p : Prog α) (s : σ) (a : α) (s' : σ) (h : p.run uv s = .ok (a, s')) : m s' ≤ m s := by
  induction p generalizing s with
  | ret b => simp only [run, Except.ok.injEq, Prod.mk.injEq] at h; rw [h.2]; exact Nat.le_refl _
  | fail e => simp [run] at h
  | read k c ih =>
    simp only [run] at h
    cases hu : uv k s with
    | error e => rw [hu] at h; simp at h
    | ok v =>
      obtain ⟨n, s1⟩ := v
      rw [hu] at h
      exact Nat.le_trans (ih n s1 h) (huv k s n s1 hu)
  | chk b c ih => exact ih s h

end Prog

open Prog

theorem noFuel_uvar (k : Nat) : NoFuel (uvar k) := fun _ => trivial
theorem noFuel_check (b : Bool) : NoFuel (check b) := trivial
theorem noFuel_var (k : Nat) : NoFuel (var k) := NoFuel.bind (noFuel_uvar _) (fun _ => trivial)
theorem noFuel_ulong : NoFuel ulong := NoFuel.bind (noFuel_uvar _) (fun _ => noFuel_uvar _)

theorem noFuel_resLoop (resn : Nat) (c : Bool) (p : List Int → Int) (q : List Int → Bool) :
    ∀ (n : Nat) (acc : List Int), NoFuel (resLoop resn c p q n acc) := by
  intro n
  induction n with
  | zero => intro acc; trivial
  | succ n ih =>
    intro acc
    exact NoFuel.bind (noFuel_var _) fun _ => NoFuel.bind (noFuel_check _) fun _ =>
      NoFuel.bind (noFuel_check _) fun _ => NoFuel.bind (noFuel_check _) fun _ => ih _

theorem noFuel_readCoefs : ∀ n, NoFuel (readCoefs n) := by
  intro n
  induction n with
  | zero => trivial
  | succ n ih =>
    exact NoFuel.bind (noFuel_var _) fun _ => NoFuel.bind (noFuel_check _) fun _ =>
      NoFuel.bind ih fun _ => trivial

theorem noFuel_skipBytes : ∀ n, NoFuel (skipBytes n) := by
  intro n
  induction n with
  | zero => trivial
  | succ n ih => exact NoFuel.bind (noFuel_uvar _) fun _ => ih

theorem noFuel_ite {α : Type} (c : Prop) [Decidable c] (p q : Prog α) (hp : NoFuel p) (hq : NoFuel q) :
    NoFuel (if c then p else q) := by
  split <;> assumption

theorem noFuel_decodeBlock (h : Hdr) (cmd resn : Nat) (coff : Int) (bs : Nat) (buf : List Int) :
    NoFuel (decodeBlock h cmd resn coff bs buf) := by
  unfold decodeBlock
  refine noFuel_ite _ _ _ trivial (noFuel_ite _ _ _ ?_ (noFuel_ite _ _ _ ?_ (noFuel_ite _ _ _ ?_
    (noFuel_ite _ _ _ ?_ ?_))))
  · exact NoFuel.bind (noFuel_resLoop _ _ _ _ _ _) fun _ => trivial
  · exact NoFuel.bind (noFuel_resLoop _ _ _ _ _ _) fun _ => trivial
  · exact NoFuel.bind (noFuel_resLoop _ _ _ _ _ _) fun _ => trivial
  · exact NoFuel.bind (noFuel_resLoop _ _ _ _ _ _) fun _ => trivial
  · refine NoFuel.bind (noFuel_uvar _) fun nlpc => noFuel_ite _ _ _ (by simp [NoFuel, failWith]) ?_
    exact NoFuel.bind (noFuel_readCoefs _) fun _ => NoFuel.bind (noFuel_check _) fun _ =>
      NoFuel.bind (noFuel_check _) fun _ => NoFuel.bind (noFuel_resLoop _ _ _ _ _ _) fun _ =>
        NoFuel.bind (noFuel_check _) fun _ => trivial

theorem noFuel_blockCmd (h : Hdr) (convert : Bool) (cmd : Nat) (st : St) : NoFuel (blockCmd h convert cmd st) := by
  have hjp : ∀ resn : Nat, NoFuel (do
      let buf1 ← decodeBlock h cmd resn (coffset h st.shift (st.chans.getD st.chan default).off) st.bs
        (st.chans.getD st.chan default).buf
      check (meanOk h st.bs st.shift buf1)
      check ((slice buf1 h.nwrap (h.nwrap + st.bs)).all (fixOk h.ftype st.shift))
      pure (finishBlock h convert st (st.chans.getD st.chan default).off buf1)) := by
    intro resn
    apply NoFuel.bind (noFuel_decodeBlock _ _ _ _ _ _)
    intro buf1
    apply NoFuel.bind (noFuel_check _)
    intro _
    apply NoFuel.bind (noFuel_check _)
    intro _
    exact NoFuel.pure _
  unfold blockCmd
  dsimp only
  split
  · exact NoFuel.bind (noFuel_uvar _) hjp
  · exact NoFuel.bind (NoFuel.pure _) hjp

theorem noFuel_step (h : Hdr) (convert : Bool) (st : St) : NoFuel (step h convert st) := by
  unfold step
  refine NoFuel.bind (noFuel_uvar _) fun cmd => noFuel_ite _ _ _ trivial (noFuel_ite _ _ _ ?_
    (noFuel_ite _ _ _ ?_ (noFuel_ite _ _ _ ?_ (by simp [NoFuel, failWith]))))
  · exact NoFuel.bind (noFuel_blockCmd _ _ _ _) fun _ => trivial
  · exact NoFuel.bind noFuel_ulong fun _ => noFuel_ite _ _ _ (by simp [NoFuel, failWith]) trivial
  · exact NoFuel.bind (noFuel_uvar _) fun _ => trivial

theorem noFuel_readHdr (v : Nat) : NoFuel (readHdr v) := by
  unfold readHdr
  refine NoFuel.bind noFuel_ulong fun _ => noFuel_ite _ _ _ (by simp [NoFuel, failWith]) ?_
  exact NoFuel.bind noFuel_ulong fun _ => NoFuel.bind noFuel_ulong fun _ => NoFuel.bind noFuel_ulong fun _ =>
    NoFuel.bind noFuel_ulong fun _ => NoFuel.bind noFuel_ulong fun _ => NoFuel.bind (noFuel_skipBytes _) fun _ =>
      noFuel_ite _ _ _ (by simp [NoFuel, failWith]) trivial

/-! ## the command loop never runs out of fuel, and the amount of fuel does not matter -/

theorem uvarGet_ne_fuel (k : Nat) (b : List Bool) : uvarGet k b ≠ .error .fuel := by
  have hu : ∀ b : List Bool, unaryGet b ≠ .error .fuel := by
    intro b
    induction b with
    | nil => simp [unaryGet]
    | cons x xs ih =>
      cases x with
      | true => simp [unaryGet]
      | false =>
        simp only [unaryGet]
        cases h : unaryGet xs with
        | error e => simp only [ne_eq, Except.error.injEq]; intro he; exact ih (by rw [h, he])
        | ok v => simp
  have hb : ∀ (k acc : Nat) (b : List Bool), bitsGet k acc b ≠ .error .fuel := by
    intro k
    induction k with
    | zero => intro acc b; simp [bitsGet]
    | succ k ih =>
      intro acc b
      cases b with
      | nil => simp [bitsGet]
      | cons x xs => simp only [bitsGet]; exact ih _ _
  unfold uvarGet
  cases h : unaryGet b with
  | error e => simp only [ne_eq, Except.error.injEq]; intro he; exact hu b (by rw [h, he])
  | ok v => exact hb _ _ _

theorem uvarGet_length_le (k : Nat) (b : List Bool) (n : Nat) (r : List Bool) (h : uvarGet k b = .ok (n, r)) :
    r.length ≤ b.length := Nat.le_of_lt (uvarGet_length k b n r h)

/-- one command consumes at least one bit -/
theorem step_consumes (h : Hdr) (convert : Bool) (st : St) (b : List Bool) (x : St ⊕ List Int) (b' : List Bool)
    (hr : (step h convert st).run uvarGet b = .ok (x, b')) : b'.length < b.length := by
  unfold step at hr
  rw [Prog.run_bind, Prog.run_uvar] at hr
  cases hu : uvarGet FNSIZE b with
  | error e => rw [hu] at hr; simp at hr
  | ok v =>
    obtain ⟨cmd, b1⟩ := v
    rw [hu] at hr
    simp only at hr
    have h1 := uvarGet_length _ _ _ _ hu
    have h2 := Prog.run_measure_le uvarGet List.length uvarGet_length_le _ _ _ _ hr
    omega

theorem step_ne_fuel (h : Hdr) (convert : Bool) (st : St) (b : List Bool) :
    (step h convert st).run uvarGet b ≠ .error .fuel :=
  Prog.run_ne_fuel uvarGet uvarGet_ne_fuel _ (noFuel_step h convert st) b

theorem loop_ne_fuel (h : Hdr) (convert : Bool) :
    ∀ (f : Nat) (st : St) (b : List Bool), b.length < f → (loop h convert f st).run uvarGet b ≠ .error .fuel := by
  intro f
  induction f with
  | zero => intro st b hb; omega
  | succ f ih =>
    intro st b hb
    rw [loop_succ, Prog.run_bind]
    cases hs : (step h convert st).run uvarGet b with
    | error e => simp only [ne_eq, Except.error.injEq]; intro he; exact step_ne_fuel h convert st b (by rw [hs, he])
    | ok v =>
      obtain ⟨x, b'⟩ := v
      have hc := step_consumes h convert st b x b' hs
      cases x with
      | inl st' => exact ih st' b' (by omega)
      | inr out => simp

theorem loop_fuel_irrelevant (h : Hdr) (convert : Bool) :
    ∀ (f g : Nat) (st : St) (b : List Bool), b.length < f → b.length < g →
      (loop h convert f st).run uvarGet b = (loop h convert g st).run uvarGet b := by
  intro f
  induction f with
  | zero => intro g st b hb; omega
  | succ f ih =>
    intro g st b hf hg
    obtain ⟨g', rfl⟩ : ∃ g', g = g' + 1 := ⟨g - 1, by omega⟩
    rw [loop_succ, loop_succ, Prog.run_bind, Prog.run_bind]
    cases hs : (step h convert st).run uvarGet b with
    | error e => rfl
    | ok v =>
      obtain ⟨x, b'⟩ := v
      have hc := step_consumes h convert st b x b' hs
      cases x with
      | inl st' => exact ih g' st' b' (by omega) (by omega)
      | inr out => rfl

theorem mainProg_ne_fuel (v : Nat) (convert : Bool) (f : Nat) (b : List Bool) (hf : b.length < f) :
    (mainProg v convert f).run uvarGet b ≠ .error .fuel := by
  unfold mainProg
  rw [Prog.run_bind]
  cases hh : (readHdr v).run uvarGet b with
  | error e =>
    simp only [ne_eq, Except.error.injEq]
    intro he
    exact Prog.run_ne_fuel uvarGet uvarGet_ne_fuel _ (noFuel_readHdr v) b (by rw [hh, he])
  | ok w =>
    obtain ⟨h, b'⟩ := w
    have := Prog.run_measure_le uvarGet List.length uvarGet_length_le _ _ _ _ hh
    exact loop_ne_fuel h convert f _ b' (by omega)

theorem mainProg_fuel_irrelevant (v : Nat) (convert : Bool) (f g : Nat) (b : List Bool)
    (hf : b.length < f) (hg : b.length < g) :
    (mainProg v convert f).run uvarGet b = (mainProg v convert g).run uvarGet b := by
  unfold mainProg
  rw [Prog.run_bind, Prog.run_bind]
  cases hh : (readHdr v).run uvarGet b with
  | error e => rfl
  | ok w =>
    obtain ⟨h, b'⟩ := w
    have := Prog.run_measure_le uvarGet List.length uvarGet_length_le _ _ _ _ hh
    exact loop_fuel_irrelevant h convert f g _ b' (by omega) (by omega)

/-- the bit-list decoder never reports an exhausted loop bound -/
theorem decodeBits_ne_fuel (v : Int) (convert : Bool) (bits : List Bool) :
    decodeBits v convert bits ≠ .error .fuel := by
  unfold decodeBits decodeBitsF
  split
  · have := mainProg_ne_fuel v.toNat convert (bits.length + 1) bits (by omega)
    cases h : (mainProg v.toNat convert (bits.length + 1)).run uvarGet bits with
    | error e => simp only [ne_eq, Except.error.injEq]; intro he; exact this (by rw [h, he])
    | ok w => simp
  · simp

/-- neither does the decoder over the word reader, on any file of bytes -/
theorem decodeFile_ne_fuel (convert : Bool) (body : List Nat) (hb : Bytes body) :
    decodeFile convert body ≠ .error .fuel := by
  by_cases hm : body.take 4 = MAGIC
  · cases hv : body.drop 4 with
    | nil => simp [decodeFile, hm, hv]
    | cons vb rest =>
      rw [decodeFile_eq convert body rest vb hb hm hv]
      unfold decodeBitsF
      split
      · have hl : (wordBits (body.drop 5)).length < 8 * body.length + 1 := by
          have := wordBits_length_le _ (body.drop 5) (Nat.le_refl _)
          simp only [List.length_drop] at this
          omega
        have := mainProg_ne_fuel (sbyte vb).toNat convert _ _ hl
        cases h : (mainProg (sbyte vb).toNat convert (8 * body.length + 1)).run uvarGet (wordBits (body.drop 5)) with
        | error e => simp only [ne_eq, Except.error.injEq]; intro he; exact this (by rw [h, he])
        | ok w => simp
      · simp
  · simp [decodeFile, hm]

/-! ## truncation -/

theorem unaryGet_trunc : ∀ (a x : List Bool) (n : Nat) (r : List Bool), unaryGet (a ++ x) = .ok (n, r) →
    (∃ r', unaryGet a = .ok (n, r') ∧ r = r' ++ x) ∨ unaryGet a = .error (.io .eof) := by
  intro a
  induction a with
  | nil => intro x n r _; exact Or.inr rfl
  | cons y ys ih =>
    intro x n r h
    cases y with
    | true =>
      simp only [List.cons_append, unaryGet, Except.ok.injEq, Prod.mk.injEq] at h
      exact Or.inl ⟨ys, by simp [unaryGet, h.1], h.2.symm⟩
    | false =>
      simp only [List.cons_append, unaryGet] at h ⊢
      cases hu : unaryGet (ys ++ x) with
      | error e => rw [hu] at h; simp at h
      | ok v =>
        obtain ⟨m, r1⟩ := v
        rw [hu] at h
        simp only [Except.ok.injEq, Prod.mk.injEq] at h
        rcases ih x m r1 hu with ⟨r', e1, e2⟩ | e1
        · exact Or.inl ⟨r', by rw [e1]; simp [h.1], by rw [← h.2, e2]⟩
        · exact Or.inr (by rw [e1])

theorem bitsGet_trunc : ∀ (k acc : Nat) (a x : List Bool) (v : Nat) (r : List Bool),
    bitsGet k acc (a ++ x) = .ok (v, r) →
    (∃ r', bitsGet k acc a = .ok (v, r') ∧ r = r' ++ x) ∨ bitsGet k acc a = .error (.io .eof) := by
  intro k
  induction k with
  | zero =>
    intro acc a x v r h
    simp only [bitsGet, Except.ok.injEq, Prod.mk.injEq] at h
    exact Or.inl ⟨a, by simp [bitsGet, h.1], h.2.symm⟩
  | succ k ih =>
    intro acc a x v r h
    cases a with
    | nil => exact Or.inr rfl
    | cons y ys =>
      simp only [List.cons_append, bitsGet] at h ⊢
      exact ih _ ys x v r h

theorem uvarGet_trunc (k : Nat) (a x : List Bool) (n : Nat) (r : List Bool) (h : uvarGet k (a ++ x) = .ok (n, r)) :
    (∃ r', uvarGet k a = .ok (n, r') ∧ r = r' ++ x) ∨ uvarGet k a = .error (.io .eof) := by
  unfold uvarGet at h ⊢
  cases hu : unaryGet (a ++ x) with
  | error e => rw [hu] at h; simp at h
  | ok w =>
    obtain ⟨m, r1⟩ := w
    rw [hu] at h
    simp only at h
    rcases unaryGet_trunc a x m r1 hu with ⟨r', e1, e2⟩ | e1
    · rw [e1]
      simp only
      rw [e2] at h
      exact bitsGet_trunc k m r' x n r h
    · rw [e1]; exact Or.inr rfl

/-- cutting the tail off an input on which a program succeeds gives the same result, or the IOError -/
theorem run_trunc {α : Type} (p : Prog α) : ∀ (a x : List Bool) (v : α) (r : List Bool),
    p.run uvarGet (a ++ x) = .ok (v, r) →
    (∃ r', p.run uvarGet a = .ok (v, r') ∧ r = r' ++ x) ∨ p.run uvarGet a = .error (.io .eof) := by
  induction p with
  | ret b =>
    intro a x v r h
    simp only [Prog.run, Except.ok.injEq, Prod.mk.injEq] at h
    exact Or.inl ⟨a, by simp [Prog.run, h.1], h.2.symm⟩
  | fail e => intro a x v r h; simp [Prog.run] at h
  | read k c ih =>
    intro a x v r h
    simp only [Prog.run] at h ⊢
    cases hu : uvarGet k (a ++ x) with
    | error e => rw [hu] at h; simp at h
    | ok w =>
      obtain ⟨n, r1⟩ := w
      rw [hu] at h
      simp only at h
      rcases uvarGet_trunc k a x n r1 hu with ⟨r', e1, e2⟩ | e1
      · rw [e1]
        simp only
        rw [e2] at h
        exact ih n r' x v r h
      · rw [e1]; exact Or.inr rfl
  | chk b c ih => intro a x v r h; exact ih a x v r h

/-- **a truncated encoded stream raises the IOError** -/
theorem decodeBits_truncated (p : Program) (convert : Bool) (hwf : WF p) (m : Nat) (hm : m < (encode p).length) :
    decodeBits (p.hdr.version : Int) convert ((encode p).take m) = .error (.io .eof) := by
  unfold decodeBits decodeBitsF
  rw [versionOk_of_wf _ hwf.1 hwf.2.1, if_pos rfl, Int.toNat_natCast]
  have hlen : ((encode p).take m).length = m := by simp; omega
  -- same fuel as for the whole stream
  rw [mainProg_fuel_irrelevant p.hdr.version convert _ ((encode p).length + 1) _ (by omega) (by omega)]
  have hfull := run_mainProg p convert hwf ((encode p).length + 1)
    (by have := encode_length_ge p; omega) []
  rw [List.append_nil] at hfull
  have hfull' : (mainProg p.hdr.version convert ((encode p).length + 1)).run uvarGet
      ((encode p).take m ++ (encode p).drop m) = .ok (sem convert p, []) := by
    rw [List.take_append_drop]; exact hfull
  rcases run_trunc _ _ _ _ _ hfull' with ⟨r', _, e2⟩ | e1
  · exfalso
    have : ((encode p).drop m).length = 0 := by
      have := congrArg List.length e2
      simp only [List.length_nil, List.length_append] at this
      omega
    simp only [List.length_drop] at this
    omega
  · rw [e1]

end PdsVerif.Model.Shorten

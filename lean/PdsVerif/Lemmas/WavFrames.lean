/-
  Byte-level lemmas for `Model/WavFrames.lean`: `k` little-endian two's-complement bytes decode to the sample
  that was encoded, for every width.
-/
import PdsVerif.Lemmas.Sphere
import PdsVerif.Model.WavFrames
import Mathlib.Tactic

namespace PdsVerif.Model.WavFrames
open PdsVerif.Model.Sphere

/-- `k` little-endian bytes of `x` read back as an unsigned number: `x mod 256^k` -/
theorem unsignedLE_encLE : ∀ (k : Nat) (x : Int), (unsignedLE (encLE k x) : Int) = x % (256 : Int) ^ k := by
  intro k
  induction k with
  | zero => intro x; simp [encLE, unsignedLE]
  | succ k ih =>
    intro x
    simp only [encLE, unsignedLE]
    push_cast
    rw [ih (x / 256), Int.toNat_of_nonneg (Int.emod_nonneg x (by norm_num))]
    have hm : (0 : Int) < (256 : Int) ^ k := by positivity
    have h1 := Int.emod_add_mul_ediv x 256
    have h2 := Int.emod_add_mul_ediv (x / 256) ((256 : Int) ^ k)
    have h3 := Int.emod_nonneg x (by norm_num : (256 : Int) ≠ 0)
    have h4 := Int.emod_lt_of_pos x (by norm_num : (0 : Int) < 256)
    have h5 := Int.emod_nonneg (x / 256) hm.ne'
    have h6 := Int.emod_lt_of_pos (x / 256) hm
    symm
    rw [pow_succ]
    have hx : x = (x % 256 + 256 * (x / 256 % 256 ^ k)) + (256 ^ k * 256) * ((x / 256) / 256 ^ k) := by
      nlinarith
    conv => lhs; rw [hx]
    rw [Int.add_mul_emod_self_left]
    apply Int.emod_eq_of_lt
    · nlinarith
    · nlinarith

/-- a signed `k`-byte little-endian item decodes to the sample that was encoded -/
theorem decItem_encLE (k : Nat) (hk : 0 < k) (x : Int)
    (h : -((2 : Int) ^ (8 * k - 1)) ≤ x ∧ x < (2 : Int) ^ (8 * k - 1)) :
    decItem k true false (encLE k x) = x := by
  have hpow : (256 : Int) ^ k = 2 * (2 : Int) ^ (8 * k - 1) := by
    have : (256 : Int) = 2 ^ 8 := by norm_num
    rw [this, ← pow_mul, ← pow_succ']
    congr 1; omega
  have hpos : (0 : Int) < (2 : Int) ^ (8 * k - 1) := by positivity
  have hu := unsignedLE_encLE k x
  simp only [decItem, Bool.false_eq_true, if_false, Bool.true_and, decide_eq_true_eq]
  have h2k : ((2 : Int) ^ (8 * k)) = (256 : Int) ^ k := by
    have : (256 : Int) = 2 ^ 8 := by norm_num
    rw [this, ← pow_mul]
  have hcast : ((2 ^ (8 * k - 1) : Nat) : Int) = (2 : Int) ^ (8 * k - 1) := by push_cast; rfl
  by_cases hx : 0 ≤ x
  · have hmod : x % (256 : Int) ^ k = x := Int.emod_eq_of_lt hx (by rw [hpow]; linarith)
    rw [hmod] at hu
    have hlt : ¬ (unsignedLE (encLE k x) ≥ 2 ^ (8 * k - 1)) := by
      intro hge
      have : ((2 ^ (8 * k - 1) : Nat) : Int) ≤ (unsignedLE (encLE k x) : Int) := by exact_mod_cast hge
      rw [hcast, hu] at this
      linarith
    rw [if_neg hlt, hu]
  · have hx' : x < 0 := not_le.mp hx
    have hmod : x % (256 : Int) ^ k = x + (256 : Int) ^ k := by
      have : (x + (256 : Int) ^ k) % (256 : Int) ^ k = x + (256 : Int) ^ k :=
        Int.emod_eq_of_lt (by rw [hpow]; linarith) (by linarith)
      rw [← this, Int.add_emod_right]
    rw [hmod] at hu
    have hge : unsignedLE (encLE k x) ≥ 2 ^ (8 * k - 1) := by
      have : ((2 ^ (8 * k - 1) : Nat) : Int) ≤ (unsignedLE (encLE k x) : Int) := by
        rw [hcast, hu, hpow]; linarith
      exact_mod_cast this
    rw [if_pos hge, hu, h2k]
    ring

theorem length_flatten_const {α : Type} (rows : List (List α)) (c : Nat) (h : ∀ r ∈ rows, r.length = c) :
    rows.flatten.length = rows.length * c := by
  induction rows with
  | nil => simp
  | cons r rows ih =>
    simp only [List.flatten_cons, List.length_append, List.length_cons]
    rw [ih (fun r' hr' => h r' (List.mem_cons_of_mem _ hr')), h r List.mem_cons_self, Nat.succ_mul]
    omega

end PdsVerif.Model.WavFrames

/-
  C13 — facts about the generated µ-law tables (finite checks by kernel evaluation).
-/
import PdsVerif.Model.Shorten
namespace PdsVerif.Model.Shorten
open PdsVerif.Gen.Shorten

/-- the set of values of a row, as a bit mask -/
def rowMask (row : List Nat) : Nat := row.foldl (fun a x => a ||| 1 <<< x) 0

theorem foldl_mask_testBit (l : List Nat) (a b : Nat) :
    (l.foldl (fun a x => a ||| 1 <<< x) a).testBit b = (a.testBit b || l.contains b) := by
  induction l generalizing a with
  | nil => simp
  | cons x xs ih =>
    rw [List.foldl_cons, ih, Nat.testBit_or, Nat.one_shiftLeft, Nat.testBit_two_pow, List.contains_cons,
      Bool.or_assoc]
    congr 2
    by_cases h : x = b
    · simp [h]
    · have : (b == x) = false := by simp; omega
      simp [h, this]

def rowsPermCheck : Bool :=
  ULAW_OUTWARD.size == 13 &&
    ULAW_OUTWARD.toList.all fun row => row.size == 256 && rowMask row.toList == 2 ^ 256 - 1

theorem rowsPermCheck_true : rowsPermCheck = true := by decide +kernel

theorem testBit_all_ones (b : Nat) (hb : b < 256) : (2 ^ 256 - 1).testBit b = true := by
  rw [Nat.testBit_two_pow_sub_one]; simp [hb]

/-- every row of `ULAW_OUTWARD` has 256 entries and contains every byte: it is a permutation of 0..255 -/
theorem outward_rows_perm (r : Nat) (hr : r < 13) :
    (ULAW_OUTWARD.getD r #[]).size = 256 ∧ ∀ b, b < 256 → b ∈ (ULAW_OUTWARD.getD r #[]).toList := by
  have h := rowsPermCheck_true
  simp only [rowsPermCheck, Bool.and_eq_true, beq_iff_eq, List.all_eq_true] at h
  obtain ⟨hs, hall⟩ := h
  have hmem : ULAW_OUTWARD.getD r #[] ∈ ULAW_OUTWARD.toList := by
    have hlt : r < ULAW_OUTWARD.size := by omega
    simp only [Array.getD, hlt, dif_pos]
    exact Array.getElem_mem_toList _
  obtain ⟨h1, h2⟩ := hall _ hmem
  refine ⟨h1, ?_⟩
  intro b hb
  have := foldl_mask_testBit (ULAW_OUTWARD.getD r #[]).toList 0 b
  rw [show (ULAW_OUTWARD.getD r #[]).toList.foldl (fun a x => a ||| 1 <<< x) 0 = 2 ^ 256 - 1 from h2,
    testBit_all_ones b hb] at this
  simpa using this.symm

/-- shorten's internal value for a µ-law byte at bit shift 0 (bytes ordered by amplitude) -/
def auInward (ftype : Nat) (b : Nat) : Int :=
  if ftype = TYPE_AU1 then (if b ≥ 128 then 255 - (b : Int) else if b = 127 then -128 else (b : Int) - 127)
  else (if b ≥ 128 then 255 - (b : Int) else (b : Int) - 128)

theorem au1_check :
    (List.range 256).all (fun b => fixSample TYPE_AU1 0 (auInward TYPE_AU1 b) == (b : Int)) = true := by
  decide +kernel

theorem au2_check :
    (List.range 256).all (fun b => fixSample TYPE_AU2 0 (auInward TYPE_AU2 b) == (b : Int)) = true := by
  decide +kernel

/-- with no bit shift, `fix_bitshift` maps the internal value of every µ-law byte back to that byte -/
theorem fixSample_auInward (ftype : Nat) (hft : ftype = TYPE_AU1 ∨ ftype = TYPE_AU2) (b : Nat) (hb : b < 256) :
    fixSample ftype 0 (auInward ftype b) = (b : Int) := by
  rcases hft with rfl | rfl
  · have := au1_check
    simp only [List.all_eq_true, List.mem_range, beq_iff_eq] at this
    exact this b hb
  · have := au2_check
    simp only [List.all_eq_true, List.mem_range, beq_iff_eq] at this
    exact this b hb

end PdsVerif.Model.Shorten

/-
  C07 — the real-number instance of the rounding primitives and the analytic lemmas about the
  Gaussian and gamma envelopes used by `Props/C07.lean`.
-/
import PdsVerif.Model.BankTime
import PdsVerif.RealNum
import Mathlib.Analysis.SpecialFunctions.Pow.Real
import Mathlib.Analysis.SpecialFunctions.Log.Basic
import Mathlib.Analysis.SpecialFunctions.Sqrt
import Mathlib.Algebra.Order.Floor.Ring
import Mathlib.Tactic

namespace PdsVerif.BankTimeLemmas
open PdsVerif PdsVerif.Gen.BankTime

/-- `np.floor`, `np.ceil`, `int()` (truncation toward zero) over the reals -/
noncomputable instance : Rnd ℝ where
  floor x := ((⌊x⌋ : ℤ) : ℝ)
  ceil x := ((⌈x⌉ : ℤ) : ℝ)
  toInt x := if 0 ≤ x then ⌊x⌋ else ⌈x⌉

@[simp] theorem rnd_floor (x : ℝ) : Rnd.floor x = ((⌊x⌋ : ℤ) : ℝ) := rfl
@[simp] theorem rnd_ceil (x : ℝ) : Rnd.ceil x = ((⌈x⌉ : ℤ) : ℝ) := rfl
theorem rnd_toInt (x : ℝ) : Rnd.toInt x = if 0 ≤ x then ⌊x⌋ else ⌈x⌉ := rfl

/-- `int()` of an integral float is that integer -/
@[simp] theorem toInt_intCast (k : ℤ) : Rnd.toInt (k : ℝ) = k := by
  rw [rnd_toInt]; split <;> simp

/-- truncation of a non-negative number is its floor -/
theorem toInt_of_nonneg {x : ℝ} (h : 0 ≤ x) : Rnd.toInt x = ⌊x⌋ := by
  rw [rnd_toInt, if_pos h]

/-! ## the gamma envelope `L(t) = log c + (n-1) log t - α t` -/

/-- log-envelope of the gammatone in unshifted time -/
noncomputable def L (c α n t : ℝ) : ℝ := Real.log c + (n - 1) * Real.log t - α * t

/-- beyond the mode `(n-1)/α` the log-envelope is strictly decreasing -/
theorem L_strictAnti {c α n s t : ℝ} (hn : 1 ≤ n) (hα : 0 < α) (hs : 0 < s) (hmode : (n - 1) / α ≤ s)
    (hst : s < t) : L c α n t < L c α n s := by
  have ht : 0 < t := hs.trans hst
  have hlog : Real.log t - Real.log s ≤ t / s - 1 := by
    rw [← Real.log_div ht.ne' hs.ne']
    exact Real.log_le_sub_one_of_pos (div_pos ht hs)
  have h1 : (n - 1) ≤ α * s := by
    have := (div_le_iff₀ hα).mp hmode; linarith
  have h2 : (n - 1) * (Real.log t - Real.log s) ≤ (n - 1) * (t / s - 1) :=
    mul_le_mul_of_nonneg_left hlog (by linarith)
  have h3 : (n - 1) * (t / s - 1) ≤ α * s * (t / s - 1) := by
    apply mul_le_mul_of_nonneg_right h1
    rw [sub_nonneg, le_div_iff₀ hs]; linarith
  have h4 : α * s * (t / s - 1) = α * (t - s) := by field_simp
  have h5 : 0 < α * (t - s) := mul_pos hα (by linarith)
  unfold L
  -- the log inequality is not strict, but the total is: use strictness of log at t/s ≠ 1 instead
  have hlog' : Real.log t - Real.log s < t / s - 1 := by
    rw [← Real.log_div ht.ne' hs.ne']
    apply Real.log_lt_sub_one_of_pos (div_pos ht hs)
    intro h; rw [div_eq_one_iff_eq hs.ne'] at h; linarith
  rcases eq_or_lt_of_le hn with h | h
  · have : n - 1 = 0 := by linarith
    rw [this]; nlinarith
  · have h2' : (n - 1) * (Real.log t - Real.log s) < (n - 1) * (t / s - 1) :=
      mul_lt_mul_of_pos_left hlog' (by linarith)
    nlinarith

/-- the mode maximises the log-envelope over `t > 0`, strictly -/
theorem L_lt_mode {c α n t : ℝ} (hn : 1 < n) (hα : 0 < α) (ht : 0 < t) (hne : t ≠ (n - 1) / α) :
    L c α n t < L c α n ((n - 1) / α) := by
  have hm : 0 < (n - 1) / α := div_pos (by linarith) hα
  have hlog : Real.log t - Real.log ((n - 1) / α) < t / ((n - 1) / α) - 1 := by
    rw [← Real.log_div ht.ne' hm.ne']
    apply Real.log_lt_sub_one_of_pos (div_pos ht hm)
    intro h; rw [div_eq_one_iff_eq hm.ne'] at h; exact hne h
  have h2 : (n - 1) * (Real.log t - Real.log ((n - 1) / α)) < (n - 1) * (t / ((n - 1) / α) - 1) :=
    mul_lt_mul_of_pos_left hlog (by linarith)
  have h3 : (n - 1) * (t / ((n - 1) / α) - 1) = α * t - (n - 1) := by
    have : n - 1 ≠ 0 := by linarith
    field_simp
  have h4 : α * ((n - 1) / α) = n - 1 := by field_simp
  unfold L
  nlinarith

end PdsVerif.BankTimeLemmas

/- helper lemmas for Props/C01: gluing emitted frames, the refinement induction -/
import PdsVerif.Lemmas.StftCanon
set_option linter.unusedSectionVars false
namespace PdsVerif.StftStream
open PdsVerif.Model.Stft PdsVerif.Seg PdsVerif.StftArith PdsVerif.StftCanon

variable {α : Type} [Inhabited α]

theorem framesFrom_append (c : Cfg) (f : Int → α) (a l1 l2 : Nat) :
    framesFrom c f a l1 ++ framesFrom c f (a + l1) l2 = framesFrom c f a (l1 + l2) := by
  unfold framesFrom
  rw [List.range_add, List.map_append, List.map_map]
  congr 1
  apply List.map_congr_left; intro k _; simp [Nat.add_assoc]

/-- frames already emitted while only the prefix `xs` was known are the frames of the whole
signal: they never look beyond what had been seen, and the left reflection is final -/
theorem frames_vget_eq_ext (c : Cfg) (w : WF c) (xs rest : List α) (a len : Nat)
    (h : a + len ≤ emitted c xs.length) :
    framesFrom c (vget xs) a len = framesFrom c (ext (xs ++ rest)) a len := by
  unfold framesFrom frameAt
  apply List.map_congr_left
  intro k hk
  have hk := List.mem_range.mp hk
  have hpos : 0 < emitted c xs.length := by omega
  obtain ⟨_, b1, b2, _, _⟩ := emitted_pos w _ hpos
  obtain ⟨r1, r2, r3⟩ := rem_bounds w _ hpos
  have hmul : (a + k) * c.S ≤ (emitted c xs.length - 1) * c.S := Nat.mul_le_mul_right _ (by omega)
  apply seg_congr
  intro i hi
  have hl : (xs ++ rest).length = xs.length + rest.length := List.length_append
  rw [ext_eq_vget _ _ (by rw [hl]; omega) (by rw [hl]; omega)]
  rw [vget_append _ _ _ (by omega) (by omega)]

/-- refinement: from the canonical state after `xs`, any continuation by chunks and a final
`finalize` emits exactly the not yet emitted frames of `compute_full` on the whole signal -/
theorem streamFrom_canon (c : Cfg) (w : WF c) (chunks : List (List α)) :
    ∀ (xs : List α) (st : Bool),
      streamFrom c (canon c xs st) chunks =
        framesFrom c (ext (xs ++ chunks.flatten)) (emitted c xs.length)
          (numFull c (xs ++ chunks.flatten).length - emitted c xs.length) := by
  induction chunks with
  | nil =>
    intro xs st
    simp only [streamFrom, List.flatten_nil, List.append_nil]
    exact finalize_canon c w xs st
  | cons ys rest ih =>
    intro xs st
    simp only [streamFrom]
    rw [chunk_canon c w xs ys st]
    simp only
    rw [ih (xs ++ ys) true]
    have hzs : xs ++ (ys :: rest).flatten = xs ++ ys ++ rest.flatten := by simp
    rw [hzs]
    have hl : (xs ++ ys).length = xs.length + ys.length := List.length_append
    have hl2 : (xs ++ ys ++ rest.flatten).length = (xs ++ ys).length + rest.flatten.length :=
      List.length_append
    have m1 : emitted c xs.length ≤ emitted c (xs ++ ys).length := by
      rw [hl]; exact emitted_mono w _ _
    have m2 : emitted c (xs ++ ys).length ≤ numFull c (xs ++ ys ++ rest.flatten).length := by
      rw [hl2]
      exact Nat.le_trans (emitted_mono w _ _) (emitted_le_numFull w _)
    rw [frames_vget_eq_ext c w (xs ++ ys) rest.flatten _ _ (by omega)]
    have e : emitted c (xs ++ ys).length
        = emitted c xs.length + (emitted c (xs ++ ys).length - emitted c xs.length) := by omega
    conv => lhs; arg 2; arg 3; rw [e]
    rw [framesFrom_append]
    congr 1; omega

theorem emitted_zero (c : Cfg) (w : WF c) : emitted c 0 = 0 := by
  have := w.hS; have := w.hSL
  unfold emitted
  cases c.centered <;> simp <;> omega

theorem canon_nil (c : Cfg) (w : WF c) : canon c ([] : List α) false = init := by
  simp [canon, emitted_zero c w, init]

/-- `frame_by_frame_calculation` slices the signal into consecutive pieces -/
theorem splitEvery_flatten (k : Nat) (hk : 0 < k) (x : List α) : (splitEvery k x).flatten = x := by
  induction x using splitEvery.induct k with
  | case1 x h =>
    rw [splitEvery]; simp only [h, dite_true]
    rcases h with h | h
    · omega
    · simp [h]
  | case2 x h ih =>
    rw [splitEvery]; simp only [h, dite_false, List.flatten_cons, ih, List.take_append_drop]

end PdsVerif.StftStream

/- frame-count arithmetic of the STFT model: how many frames have been emitted after `n` samples,
how many `compute_full` produces, and how a chunk / finalize advances the count -/
import PdsVerif.Model.Stft
namespace PdsVerif.StftArith
open PdsVerif.Model.Stft

/-- well-formed configuration: the property's precondition `1 ≤ frame_shift ≤ frame_length` -/
structure WF (c : Cfg) : Prop where
  hS : 0 < c.S
  hSL : c.S ≤ c.L

/-- frames emitted by `compute_chunk` calls once `n` samples of the utterance have been seen -/
def emitted (c : Cfg) (n : Nat) : Nat :=
  if c.centered then
    (if n < flen0 c ∨ n < c.L / 2 + 1 then 0 else (padL c + n - c.L) / c.S + 1)
  else (if n < c.L then 0 else (n - c.L) / c.S + 1)

/-- frames `compute_full` returns for `n` samples -/
def numFull (c : Cfg) (n : Nat) : Nat :=
  if n < c.L / 2 + 1 then 0 else (n + c.S / 2) / c.S

variable {c : Cfg}

theorem padL_causal (h : c.centered = false) : padL c = 0 := by simp [padL, h]

theorem padL_add_flen0 (w : WF c) (h : c.centered = true) : padL c + flen0 c = c.L := by
  have := w.hS; have := w.hSL
  unfold padL flen0; simp only [h]
  cases c.kaldi <;> simp <;> omega

theorem padL_le_flen0 (w : WF c) : padL c ≤ flen0 c := by
  have := w.hS; have := w.hSL
  unfold padL flen0
  cases c.centered <;> cases c.kaldi <;> simp <;> omega

theorem flen0_le_L (w : WF c) (h : c.centered = true) : flen0 c ≤ c.L := by
  have := padL_add_flen0 w h; omega

theorem half_le_L (w : WF c) : c.L / 2 + 1 ≤ c.L := by
  have := w.hS; have := w.hSL; omega

/-- division by the (variable) shift: the two facts `omega` needs -/
theorem div_facts (x S : Nat) (hS : 0 < S) : S * (x / S) ≤ x ∧ x < S * (x / S) + S := by
  constructor
  · exact Nat.mul_div_le x S
  · have := Nat.div_add_mod x S; have := Nat.mod_lt x hS; omega

theorem emitted_causal (h : c.centered = false) (n : Nat) :
    emitted c n = if n < c.L then 0 else (padL c + n - c.L) / c.S + 1 := by
  simp [emitted, h, padL_causal h]

theorem emitted_centered (h : c.centered = true) (n : Nat) :
    emitted c n = if n < flen0 c ∨ n < c.L / 2 + 1 then 0 else (padL c + n - c.L) / c.S + 1 := by
  simp [emitted, h]

theorem emitted_zero_lt (w : WF c) (n : Nat) (h : emitted c n = 0) : n < c.L := by
  have hl := half_le_L w
  cases hc : c.centered
  · rw [emitted_causal hc] at h
    by_cases hn : n < c.L
    · exact hn
    · simp [hn] at h
  · have := flen0_le_L w hc
    rw [emitted_centered hc] at h
    by_cases hn : n < flen0 c ∨ n < c.L / 2 + 1
    · omega
    · simp [hn] at h

/-- the closed form of a positive count, and what it implies -/
theorem emitted_pos (w : WF c) (n : Nat) (h : 0 < emitted c n) :
    emitted c n = (padL c + n - c.L) / c.S + 1 ∧
    c.L ≤ padL c + n ∧ padL c ≤ n ∧ c.L / 2 + 1 ≤ n ∧ (c.centered = true → flen0 c ≤ n) := by
  have hl := half_le_L w
  cases hc : c.centered
  · have hp : padL c = 0 := padL_causal hc
    rw [emitted_causal hc] at h ⊢
    by_cases hn : n < c.L
    · simp [hn] at h
    · simp only [hn, if_false]; simp; omega
  · have h1 := padL_add_flen0 w hc
    have h2 := padL_le_flen0 w
    rw [emitted_centered hc] at h ⊢
    by_cases hn : n < flen0 c ∨ n < c.L / 2 + 1
    · simp [hn] at h
    · simp only [hn, if_false]; simp; omega

/-- the unconsumed remainder after `n` samples is shorter than a frame, and non-negative -/
theorem rem_bounds (w : WF c) (n : Nat) (h : 0 < emitted c n) :
    emitted c n * c.S ≤ padL c + n ∧ padL c + n - emitted c n * c.S < c.L ∧
    (emitted c n - 1) * c.S + c.L ≤ padL c + n := by
  obtain ⟨hE, h1, h2, h3, _⟩ := emitted_pos w n h
  have hS := w.hS; have hSL := w.hSL
  obtain ⟨d1, d2⟩ := div_facts (padL c + n - c.L) c.S hS
  rw [hE]
  generalize (padL c + n - c.L) / c.S = q at *
  have e1 : (q + 1) * c.S = c.S * q + c.S := by rw [Nat.add_mul, Nat.mul_comm]; simp
  have e2 : (q + 1 - 1) * c.S = c.S * q := by simp [Nat.mul_comm]
  rw [e1, e2]
  omega

/-- frame count a call yields when `total` samples are pending and a frame needs `flen` -/
def nfOf (c : Cfg) (total flen : Nat) : Nat := if total < flen then 0 else (total - flen) / c.S + 1

theorem mul_succ' (q S : Nat) : (q + 1) * S = q * S + S := Nat.succ_mul q S

/-- (x - q*S)/S = x/S - q -/
theorem sub_mul_div' (x q S : Nat) (hS : 0 < S) (h : q * S ≤ x) : (x - q * S) / S = x / S - q := by
  have e : x - q * S + q * S = x := by omega
  have h2 := Nat.add_mul_div_right (x - q * S) q hS
  rw [e] at h2
  rw [h2, Nat.add_sub_cancel]

/-- a later chunk: pending `rem = pl + n - E·S`, `m` new samples -/
theorem count_later (w : WF c) (n m : Nat) (h : 0 < emitted c n) :
    let rem := padL c + n - emitted c n * c.S
    nfOf c (m + rem) c.L = emitted c (n + m) - emitted c n ∧
    emitted c n ≤ emitted c (n + m) ∧
    m + rem - nfOf c (m + rem) c.L * c.S = padL c + (n + m) - emitted c (n + m) * c.S := by
  intro rem
  obtain ⟨hE, h1, h2, h3, h4⟩ := emitted_pos w n h
  obtain ⟨r1, r2, r3⟩ := rem_bounds w n h
  have hS := w.hS
  have hpos : 0 < emitted c (n + m) := by
    cases hc : c.centered
    · rw [emitted_causal hc]; have := padL_causal hc
      have : ¬ n + m < c.L := by omega
      simp [this]
    · rw [emitted_centered hc]
      have := h4 hc
      have : ¬ (n + m < flen0 c ∨ n + m < c.L / 2 + 1) := by omega
      simp [this]
  obtain ⟨hE', _, _, _, _⟩ := emitted_pos w (n + m) hpos
  -- write everything with q = (pl+n-L)/S
  have key : (padL c + (n + m) - c.L) / c.S = (padL c + n - c.L) / c.S + (m + rem - (c.L - c.S)) / c.S - 0
      ∨ True := Or.inr trivial
  clear key
  -- total pending
  have hrem : rem = padL c + n - emitted c n * c.S := rfl
  by_cases ht : m + rem < c.L
  · -- no new frame
    have hnf : nfOf c (m + rem) c.L = 0 := by simp [nfOf, ht]
    have : emitted c (n + m) = emitted c n := by
      rw [hE', hE]
      congr 1
      -- (pl+n+m-L)/S = (pl+n-L)/S since pl+n+m-L < E·S = (q+1)·S
      have hq := div_facts (padL c + n - c.L) c.S hS
      have hq' := div_facts (padL c + (n + m) - c.L) c.S hS
      rw [hE, mul_succ'] at hrem
      apply Nat.le_antisymm
      · apply Nat.le_of_lt_succ
        apply (Nat.div_lt_iff_lt_mul hS).mpr
        rw [mul_succ']
        have : (padL c + n - c.L) / c.S * c.S = c.S * ((padL c + n - c.L) / c.S) := Nat.mul_comm _ _
        omega
      · exact Nat.div_le_div_right (by omega)
    rw [hnf, this]; simp; omega
  · have hnf : nfOf c (m + rem) c.L = (m + rem - c.L) / c.S + 1 := by simp [nfOf, ht]
    -- m + rem - L = (pl + n + m - L) - E·S
    have e : m + rem - c.L = (padL c + (n + m) - c.L) - emitted c n * c.S := by omega
    have hle : emitted c n * c.S ≤ padL c + (n + m) - c.L := by omega
    have hd := sub_mul_div' (padL c + (n + m) - c.L) (emitted c n) c.S hS hle
    rw [hnf, e, hd, hE']
    have hge : emitted c n ≤ (padL c + (n + m) - c.L) / c.S := by
      apply (Nat.le_div_iff_mul_le hS).mpr; exact hle
    refine ⟨by omega, by omega, ?_⟩
    have hq' := div_facts (padL c + (n + m) - c.L) c.S hS
    generalize (padL c + (n + m) - c.L) / c.S = Q at *
    have e1 : (Q - emitted c n + 1) * c.S = c.S * Q - emitted c n * c.S + c.S := by
      rw [mul_succ', Nat.sub_mul, Nat.mul_comm Q]
    have e2 : (Q + 1) * c.S = c.S * Q + c.S := by rw [mul_succ', Nat.mul_comm]
    have e3 : emitted c n * c.S ≤ c.S * Q := by rw [Nat.mul_comm c.S]; exact Nat.mul_le_mul_right _ hge
    rw [e1, e2]
    omega

/-- the first chunks of a causal stream -/
theorem count_first_causal (hc : c.centered = false) (n m : Nat) :
    nfOf c (m + n) c.L = emitted c (n + m) ∧
    m + n - nfOf c (m + n) c.L * c.S = padL c + (n + m) - emitted c (n + m) * c.S := by
  have hp := padL_causal hc
  rw [emitted_causal hc, hp]
  have e : m + n = n + m := Nat.add_comm _ _
  unfold nfOf
  rw [e]
  by_cases hh : n + m < c.L
  · simp [hh]
  · simp [hh]

/-- the chunk in which a centred stream emits its first frame(s) -/
theorem count_first_centered (w : WF c) (hc : c.centered = true) (n m : Nat)
    (h1 : ¬ m + n < flen0 c) (h2 : ¬ m + n < c.L / 2 + 1) :
    (m + n - flen0 c) / c.S + 1 = emitted c (n + m) := by
  have hp := padL_add_flen0 w hc
  rw [emitted_centered hc]
  have : ¬ (n + m < flen0 c ∨ n + m < c.L / 2 + 1) := by omega
  simp only [this, if_false]
  congr 2; omega

theorem emitted_centered_wait (hc : c.centered = true) (n : Nat)
    (h : n < flen0 c ∨ n < c.L / 2 + 1) : emitted c n = 0 := by
  rw [emitted_centered hc]; simp [h]

/-- `finalize` on a stream that has emitted nothing: its frame count is `compute_full`'s -/
theorem fin_count_first (n : Nat) :
    (((n : Int) + (c.S : Int) / 2 - 0) / (c.S : Int)).toNat = (n + c.S / 2) / c.S := by
  have e : ((n : Int) + (c.S : Int) / 2 - 0) = ((n + c.S / 2 : Nat) : Int) := by omega
  rw [e, ← Int.natCast_ediv, Int.toNat_natCast]

/-- `finalize` after frames were emitted: what is left of `compute_full`'s count -/
theorem fin_count_later (w : WF c) (n : Nat) (h : 0 < emitted c n) :
    ((((padL c + n - emitted c n * c.S : Nat) : Int) + (c.S : Int) / 2 - (padL c : Int)) / (c.S : Int)).toNat
      = numFull c n - emitted c n := by
  obtain ⟨hE, h1, h2, h3, h4⟩ := emitted_pos w n h
  obtain ⟨r1, r2, r3⟩ := rem_bounds w n h
  have hS := w.hS
  have hF : numFull c n = (n + c.S / 2) / c.S := by
    unfold numFull; have : ¬ n < c.L / 2 + 1 := by omega
    simp [this]
  rw [hF]
  by_cases hge : emitted c n * c.S ≤ n + c.S / 2
  · have e : (((padL c + n - emitted c n * c.S : Nat) : Int) + (c.S : Int) / 2 - (padL c : Int))
        = ((n + c.S / 2 - emitted c n * c.S : Nat) : Int) := by omega
    rw [e, ← Int.natCast_ediv, Int.toNat_natCast]
    exact sub_mul_div' _ _ _ hS hge
  · have hneg : (((padL c + n - emitted c n * c.S : Nat) : Int) + (c.S : Int) / 2 - (padL c : Int)) < 0 := by
      omega
    have := Int.ediv_neg_of_neg_of_pos hneg (by omega : (0:Int) < c.S)
    rw [Int.toNat_of_nonpos (by omega)]
    have : (n + c.S / 2) / c.S < emitted c n := (Nat.div_lt_iff_lt_mul hS).mpr (by omega)
    omega

theorem numFull_pos_of_emitted (w : WF c) (n : Nat) (h : 0 < emitted c n) :
    numFull c n = (n + c.S / 2) / c.S := by
  obtain ⟨_, _, _, h3, _⟩ := emitted_pos w n h
  unfold numFull; have : ¬ n < c.L / 2 + 1 := by omega
  simp [this]

theorem emitted_mono (w : WF c) (n m : Nat) : emitted c n ≤ emitted c (n + m) := by
  by_cases h : emitted c n = 0
  · omega
  · exact (count_later w n m (Nat.pos_of_ne_zero h)).2.1

/-- streaming never emits more frames than `compute_full` will return -/
theorem emitted_le_numFull (w : WF c) (n : Nat) : emitted c n ≤ numFull c n := by
  by_cases h : emitted c n = 0
  · omega
  · have hpos := Nat.pos_of_ne_zero h
    obtain ⟨hE, h1, h2, h3, h4⟩ := emitted_pos w n hpos
    have hS := w.hS; have hSL := w.hSL
    rw [numFull_pos_of_emitted w n hpos, hE]
    -- (pl + n - L)/S + 1 = (pl + n - L + S)/S ≤ (n + S/2)/S
    rw [← Nat.add_div_right _ hS]
    apply Nat.div_le_div_right
    unfold padL at *
    cases hc : c.centered <;> cases hk : c.kaldi <;> simp [hc, hk] at * <;> omega

end PdsVerif.StftArith

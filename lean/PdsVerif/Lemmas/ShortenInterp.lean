/-
  C13 — the block interpreter over the bit-list reader decodes what `encode` wrote (L2).
-/
import PdsVerif.Lemmas.ShortenBits
namespace PdsVerif.Model.Shorten
open PdsVerif.Gen.Shorten

/-! ## reading lists of encoded values -/

theorem run_readCoefs (coefs : List Int) (r : List Bool) :
    (readCoefs coefs.length).run uvarGet (coefs.flatMap (varPut LPCQUANT) ++ r) = .ok (coefs, r) := by
  induction coefs with
  | nil => rfl
  | cons c cs ih =>
    simp only [List.length_cons, readCoefs, List.flatMap_cons, List.append_assoc]
    rw [Prog.run_bind_ok uvarGet (run_var_put _ _ _)]
    simp [ih]

theorem run_resLoop (resn : Nat) (chkRes : Bool) (pred : List Int → Int) (predOk : List Int → Bool)
    (res acc : List Int) (r : List Bool) :
    (resLoop resn chkRes pred predOk res.length acc).run uvarGet (res.flatMap (varPut resn) ++ r)
      = .ok (runBlock pred res acc, r) := by
  induction res generalizing acc with
  | nil => rfl
  | cons x xs ih =>
    simp only [List.length_cons, resLoop, List.flatMap_cons, List.append_assoc]
    rw [Prog.run_bind_ok uvarGet (run_var_put _ _ _)]
    simp [ih, runBlock]

theorem run_skipBytes (skip : List Nat) (r : List Bool) :
    (skipBytes skip.length).run uvarGet (skip.flatMap (uvarPut XBITESIZE) ++ r) = .ok ((), r) := by
  induction skip with
  | nil => rfl
  | cons c cs ih =>
    simp only [List.length_cons, skipBytes, List.flatMap_cons, List.append_assoc]
    rw [Prog.run_bind_ok uvarGet (run_uvar_put _ _ _)]
    exact ih

/-! ## predictors only look at a bounded prefix of the history -/

/-- the `n` most recent samples, zeros standing in for the time before the start -/
def window (n : Nat) (hist : List Int) : List Int := (hist ++ List.replicate n 0).take n

theorem window_length (n : Nat) (hist : List Int) : (window n hist).length = n := by
  simp [window]

theorem getD_window {n j : Nat} (hist : List Int) (hj : j < n) : (window n hist).getD j 0 = hist.getD j 0 := by
  simp only [window, List.getD_eq_getElem?_getD, List.getElem?_take, hj, if_true, List.getElem?_append]
  split
  · rfl
  · rename_i hlt
    simp only [List.getElem?_replicate]
    have : hist[j]? = none := by simp; omega
    rw [this]
    split <;> rfl

/-- `a` (at least `m` long) and `b` agree on their first `m` entries up to the constant `c` -/
def Agree (c : Int) (m : Nat) (a b : List Int) : Prop :=
  m ≤ a.length ∧ ∀ j < m, a.getD j 0 + c = b.getD j 0

theorem Agree.mono {c : Int} {m n : Nat} {a b : List Int} (h : Agree c m a b) (hn : n ≤ m) : Agree c n a b :=
  ⟨Nat.le_trans hn h.1, fun j hj => h.2 j (Nat.lt_of_lt_of_le hj hn)⟩

theorem runBlock_sim {p1 p2 : List Int → Int} {c : Int} {n : Nat}
    (hp : ∀ a b, Agree c n a b → p1 a + c = p2 b) (res : List Int) :
    ∀ (m : Nat) (a b : List Int), n ≤ m → Agree c m a b →
      Agree c (m + res.length) (runBlock p1 res a) (runBlock p2 res b) := by
  induction res with
  | nil => intro m a b _ h; simpa [runBlock] using h
  | cons r rs ih =>
    intro m a b hnm h
    simp only [runBlock, List.length_cons]
    have h' : Agree c (m + 1) ((r + p1 a) :: a) ((r + p2 b) :: b) := by
      refine ⟨by simp; exact h.1, ?_⟩
      intro j hj
      cases j with
      | zero => simp [← hp a b (h.mono hnm)]; omega
      | succ j => simpa using h.2 j (by omega)
    have := ih (m + 1) _ _ (by omega) h'
    have e : m + 1 + rs.length = m + (rs.length + 1) := by omega
    rwa [e] at this

theorem runBlock_length (p : List Int → Int) (res a : List Int) :
    (runBlock p res a).length = res.length + a.length := by
  induction res generalizing a with
  | nil => simp [runBlock]
  | cons r rs ih => simp [runBlock, ih]; omega

theorem runBlock_drop (p : List Int → Int) (res a : List Int) :
    (runBlock p res a).drop res.length = a := by
  induction res generalizing a with
  | nil => simp [runBlock]
  | cons r rs ih =>
    simp only [runBlock, List.length_cons]
    have := ih ((r + p a) :: a)
    rw [← List.drop_drop, this]; rfl

/-- a list that agrees with `b` on its whole length is a window of `b` -/
theorem eq_window_of_agree {m : Nat} {a b : List Int} (h : Agree 0 m a b) (hl : a.length = m) :
    a = window m b := by
  apply List.ext_getElem
  · rw [hl, window_length]
  · intro i h1 h2
    have hi : i < m := by omega
    have e1 := h.2 i hi
    have e2 := getD_window b hi
    simp only [List.getD_eq_getElem?_getD, Int.add_zero] at e1 e2
    rw [List.getElem?_eq_getElem h1] at e1
    rw [List.getElem?_eq_getElem h2] at e2
    simp only [Option.getD_some] at e1 e2
    rw [e1, e2]

theorem agree_window (n : Nat) (hist : List Int) : Agree 0 n (window n hist) hist :=
  ⟨by rw [window_length]; exact Nat.le_refl _, fun j hj => by rw [getD_window hist hj]; omega⟩

theorem predDiff_agree (k : Nat) (coff : Int) (a b : List Int) (h : Agree 0 3 a b) :
    predDiff k coff a + 0 = predDiff k coff b := by
  have h0 := h.2 0 (by omega)
  have h1 := h.2 1 (by omega)
  have h2 := h.2 2 (by omega)
  unfold predDiff
  split <;> omega

theorem zipWith_congr_prefix (f : Int → Int → Int) (l : List Int) :
    ∀ (a b : List Int), l.length ≤ a.length → l.length ≤ b.length →
      (∀ j < l.length, a.getD j 0 = b.getD j 0) → List.zipWith f l a = List.zipWith f l b := by
  induction l with
  | nil => intros; rfl
  | cons x xs ih =>
    intro a b ha hb h
    cases a with
    | nil => simp at ha
    | cons y ys =>
      cases b with
      | nil => simp at hb
      | cons z zs =>
        have h0 := h 0 (by simp)
        simp at h0
        simp only [List.zipWith_cons_cons, h0]
        congr 1
        apply ih ys zs (by simpa using ha) (by simpa using hb)
        intro j hj
        simpa using h (j + 1) (by simpa using hj)

theorem predLpc_agree (off : Int) (coefs : List Int) (c : Int) (a b : List Int)
    (h : Agree c coefs.length a b) :
    (lpcSum off coefs a) >>> LPCQUANT + c = predLpc off coefs c b := by
  unfold predLpc lpcSum
  rw [zipWith_congr_prefix (· * ·) coefs a ((b ++ List.replicate coefs.length 0).map (· - c)) h.1 (by simp)]
  · omega
  · intro j hj
    have := h.2 j hj
    have e : ((b ++ List.replicate coefs.length 0).map (· - c)).getD j 0 = b.getD j 0 - c := by
      simp only [List.getD_eq_getElem?_getD, List.getElem?_map, List.getElem?_append]
      split
      · rename_i hlt; rw [List.getElem?_eq_getElem hlt]; simp
      · rename_i hlt
        have : b[j]? = none := by simp; omega
        rw [this, List.getElem?_replicate]
        have : j - b.length < coefs.length := by omega
        simp [this]
    rw [e]; omega

end PdsVerif.Model.Shorten

/-
  C13 — the block interpreter over the bit-list reader decodes what `encode` wrote (L2).
-/
import PdsVerif.Lemmas.ShortenBits
namespace PdsVerif.Model.Shorten
open PdsVerif.Gen.Shorten

/-! ## reading lists of encoded values -/

theorem run_readCoefs (coefs : List Int) (r : List Bool) :
    (readCoefs coefs.length).run uvarGet (coefs.flatMap (varPut LPCQUANT) ++ r) = .ok (coefs, r) := by
  induction coefs with
  | nil => rfl
  | cons c cs ih =>
    simp only [List.length_cons, readCoefs, List.flatMap_cons, List.append_assoc]
    rw [Prog.run_bind_ok uvarGet (run_var_put _ _ _)]
    simp [ih]

theorem run_resLoop (resn : Nat) (chkRes : Bool) (pred : List Int → Int) (predOk : List Int → Bool)
    (res acc : List Int) (r : List Bool) :
    (resLoop resn chkRes pred predOk res.length acc).run uvarGet (res.flatMap (varPut resn) ++ r)
      = .ok (runBlock pred res acc, r) := by
  induction res generalizing acc with
  | nil => rfl
  | cons x xs ih =>
    simp only [List.length_cons, resLoop, List.flatMap_cons, List.append_assoc]
    rw [Prog.run_bind_ok uvarGet (run_var_put _ _ _)]
    simp [ih, runBlock]

theorem run_skipBytes (skip : List Nat) (r : List Bool) :
    (skipBytes skip.length).run uvarGet (skip.flatMap (uvarPut XBITESIZE) ++ r) = .ok ((), r) := by
  induction skip with
  | nil => rfl
  | cons c cs ih =>
    simp only [List.length_cons, skipBytes, List.flatMap_cons, List.append_assoc]
    rw [Prog.run_bind_ok uvarGet (run_uvar_put _ _ _)]
    exact ih

/-! ## predictors only look at a bounded prefix of the history -/

/-- the `n` most recent samples, zeros standing in for the time before the start -/
def window (n : Nat) (hist : List Int) : List Int := (hist ++ List.replicate n 0).take n

theorem window_length (n : Nat) (hist : List Int) : (window n hist).length = n := by
  simp [window]

theorem getD_window {n j : Nat} (hist : List Int) (hj : j < n) : (window n hist).getD j 0 = hist.getD j 0 := by
  simp only [window, List.getD_eq_getElem?_getD, List.getElem?_take, hj, if_true, List.getElem?_append]
  split
  · rfl
  · rename_i hlt
    simp only [List.getElem?_replicate]
    have : hist[j]? = none := by simp; omega
    rw [this]
    split <;> rfl

/-- `a` (at least `m` long) and `b` agree on their first `m` entries up to the constant `c` -/
def Agree (c : Int) (m : Nat) (a b : List Int) : Prop :=
  m ≤ a.length ∧ ∀ j < m, a.getD j 0 + c = b.getD j 0

theorem Agree.mono {c : Int} {m n : Nat} {a b : List Int} (h : Agree c m a b) (hn : n ≤ m) : Agree c n a b :=
  ⟨Nat.le_trans hn h.1, fun j hj => h.2 j (Nat.lt_of_lt_of_le hj hn)⟩

theorem runBlock_sim {p1 p2 : List Int → Int} {c : Int} {n : Nat}
    (hp : ∀ a b, Agree c n a b → p1 a + c = p2 b) (res : List Int) :
    ∀ (m : Nat) (a b : List Int), n ≤ m → Agree c m a b →
      Agree c (m + res.length) (runBlock p1 res a) (runBlock p2 res b) := by
  induction res with
  | nil => intro m a b _ h; simpa [runBlock] using h
  | cons r rs ih =>
    intro m a b hnm h
    simp only [runBlock, List.length_cons]
    have h' : Agree c (m + 1) ((r + p1 a) :: a) ((r + p2 b) :: b) := by
      refine ⟨by simp; exact h.1, ?_⟩
      intro j hj
      cases j with
      | zero => simp [← hp a b (h.mono hnm)]; omega
      | succ j => simpa using h.2 j (by omega)
    have := ih (m + 1) _ _ (by omega) h'
    have e : m + 1 + rs.length = m + (rs.length + 1) := by omega
    rwa [e] at this

theorem runBlock_length (p : List Int → Int) (res a : List Int) :
    (runBlock p res a).length = res.length + a.length := by
  induction res generalizing a with
  | nil => simp [runBlock]
  | cons r rs ih => simp [runBlock, ih]; omega

theorem runBlock_drop (p : List Int → Int) (res a : List Int) :
    (runBlock p res a).drop res.length = a := by
  induction res generalizing a with
  | nil => simp [runBlock]
  | cons r rs ih =>
    simp only [runBlock, List.length_cons]
    have := ih ((r + p a) :: a)
    rw [← List.drop_drop, this]; rfl

/-- a list that agrees with `b` on its whole length is a window of `b` -/
theorem eq_window_of_agree {m : Nat} {a b : List Int} (h : Agree 0 m a b) (hl : a.length = m) :
    a = window m b := by
  apply List.ext_getElem
  · rw [hl, window_length]
  · intro i h1 h2
    have hi : i < m := by omega
    have e1 := h.2 i hi
    have e2 := getD_window b hi
    simp only [List.getD_eq_getElem?_getD, Int.add_zero] at e1 e2
    rw [List.getElem?_eq_getElem h1] at e1
    rw [List.getElem?_eq_getElem h2] at e2
    simp only [Option.getD_some] at e1 e2
    rw [e1, e2]

theorem agree_window (n : Nat) (hist : List Int) : Agree 0 n (window n hist) hist :=
  ⟨by rw [window_length]; exact Nat.le_refl _, fun j hj => by rw [getD_window hist hj]; omega⟩

theorem predDiff_agree (k : Nat) (coff : Int) (a b : List Int) (h : Agree 0 3 a b) :
    predDiff k coff a + 0 = predDiff k coff b := by
  have h0 := h.2 0 (by omega)
  have h1 := h.2 1 (by omega)
  have h2 := h.2 2 (by omega)
  unfold predDiff
  split <;> omega

theorem zipWith_congr_prefix (f : Int → Int → Int) (l : List Int) :
    ∀ (a b : List Int), l.length ≤ a.length → l.length ≤ b.length →
      (∀ j < l.length, a.getD j 0 = b.getD j 0) → List.zipWith f l a = List.zipWith f l b := by
  induction l with
  | nil => intros; rfl
  | cons x xs ih =>
    intro a b ha hb h
    cases a with
    | nil => simp at ha
    | cons y ys =>
      cases b with
      | nil => simp at hb
      | cons z zs =>
        have h0 := h 0 (by simp)
        simp at h0
        simp only [List.zipWith_cons_cons, h0]
        congr 1
        apply ih ys zs (by simpa using ha) (by simpa using hb)
        intro j hj
        simpa using h (j + 1) (by simpa using hj)

theorem predLpc_agree (off : Int) (coefs : List Int) (c : Int) (a b : List Int)
    (h : Agree c coefs.length a b) :
    (lpcSum off coefs a) >>> LPCQUANT + c = predLpc off coefs c b := by
  unfold predLpc lpcSum
  rw [zipWith_congr_prefix (· * ·) coefs a ((b ++ List.replicate coefs.length 0).map (· - c)) h.1 (by simp)]
  · omega
  · intro j hj
    have := h.2 j hj
    have e : ((b ++ List.replicate coefs.length 0).map (· - c)).getD j 0 = b.getD j 0 - c := by
      simp only [List.getD_eq_getElem?_getD, List.getElem?_map, List.getElem?_append]
      split
      · rename_i hlt; rw [List.getElem?_eq_getElem hlt]; simp
      · rename_i hlt
        have : b[j]? = none := by simp; omega
        rw [this, List.getElem?_replicate]
        have : j - b.length < coefs.length := by omega
        simp [this]
    rw [e]; omega

/-! ## what one decoded block looks like -/

theorem window_take {n m : Nat} (l : List Int) (hnm : n ≤ m) : (window m l).take n = window n l := by
  apply eq_window_of_agree
  · refine ⟨by simp [window_length]; omega, ?_⟩
    intro j hj
    have : ((window m l).take n).getD j 0 = (window m l).getD j 0 := by
      simp [List.getD_eq_getElem?_getD, hj]
    rw [this, getD_window l (by omega)]; omega
  · simp [window_length]; omega

theorem window_take_hist {n m : Nat} (l : List Int) (hnm : n ≤ m) (hl : n ≤ l.length) :
    (window m l).take n = l.take n := by
  unfold window
  rw [List.take_take, Nat.min_eq_left hnm, List.take_append]
  have : n - l.length = 0 := by omega
  rw [this]; simp

theorem nwrap_ge (h : Hdr) : 3 ≤ h.nwrap ∧ h.maxnlpc ≤ h.nwrap := by
  unfold Hdr.nwrap NWRAP; omega

/-- `buf1` is `buf` with its first `nw + bs` cells replaced by the reversal of `A`, whose `bs` most recent
    entries are the new samples and whose `nw` most recent entries are the new history window -/
def BlockPost (nw bs : Nat) (buf buf1 hist' : List Int) : Prop :=
  ∃ A : List Int, buf1 = A.reverse ++ buf.drop (nw + bs) ∧ A.length = nw + bs ∧
    A.take bs = hist'.take bs ∧ A.take nw = window nw hist' ∧ bs ≤ hist'.length

theorem hist_of_buf {nw : Nat} {buf sh : List Int} (hbuf : buf.take nw = (window nw sh).reverse) :
    (slice buf 0 nw).reverse = window nw sh := by
  simp [slice, hbuf]

theorem setSlice_zero_reverse (buf A : List Int) (n : Nat) (hA : A.length = n) :
    setSlice buf 0 A.reverse = A.reverse ++ buf.drop n := by
  simp [setSlice, hA]

theorem blockPost_diff (h : Hdr) (k : Nat) (coff : Int) (res buf sh : List Int) :
    BlockPost h.nwrap res.length buf
      (setSlice buf 0 (runBlock (predDiff k coff) res (window h.nwrap sh)).reverse)
      (runBlock (predDiff k coff) res sh) := by
  have hnw := nwrap_ge h
  have hag := runBlock_sim (c := 0) (n := 3) (predDiff_agree k coff) res h.nwrap _ _ hnw.1 (agree_window h.nwrap sh)
  have hlen := runBlock_length (predDiff k coff) res (window h.nwrap sh)
  rw [window_length] at hlen
  have hl' := runBlock_length (predDiff k coff) res sh
  have hw := eq_window_of_agree hag (by omega)
  refine ⟨_, setSlice_zero_reverse _ _ (h.nwrap + res.length) (by omega), by omega, ?_, ?_, by omega⟩
  · rw [hw]; exact window_take_hist _ (by omega) (by omega)
  · rw [hw]; exact window_take _ (by omega)

theorem take_append_window (n : Nat) (N sh : List Int) : (N ++ window n sh).take n = window n (N ++ sh) := by
  unfold window
  rw [List.take_append, List.take_take, List.append_assoc, List.take_append (l₁ := N)]
  congr 2
  omega

theorem window_self_of_le {n : Nat} (l : List Int) (hl : n ≤ l.length) : window n l = l.take n := by
  have := window_take_hist (n := n) (m := n) l (Nat.le_refl _) hl
  rwa [List.take_of_length_le (by rw [window_length]; exact Nat.le_refl _)] at this

theorem blockPost_zero (nw bs : Nat) (buf sh : List Int) (hbuf : buf.take nw = (window nw sh).reverse) :
    BlockPost nw bs buf (setSlice buf nw (List.replicate bs 0)) (List.replicate bs 0 ++ sh) := by
  refine ⟨List.replicate bs 0 ++ window nw sh, ?_, by simp [window_length]; omega, by simp, ?_, by simp⟩
  · simp [setSlice, hbuf]
  · exact take_append_window nw _ sh

theorem blockPost_qlpc (h : Hdr) (coefs : List Int) (coff : Int) (res buf sh : List Int)
    (hn : coefs.length ≤ h.nwrap) (hbs : h.nwrap ≤ res.length) :
    let hist := window h.nwrap sh
    let hist' := (hist.take coefs.length).map (· - coff) ++ hist.drop coefs.length
    let acc := runBlock (fun a => (lpcSum h.lpcqoffset coefs a) >>> LPCQUANT) res hist'
    let acc' := if coff ≠ 0 then (acc.take res.length).map (· + coff) ++ acc.drop res.length else acc
    BlockPost h.nwrap res.length buf (setSlice buf 0 acc'.reverse)
      (runBlock (predLpc h.lpcqoffset coefs coff) res sh) := by
  intro hist hist' acc acc'
  have hlh : hist.length = h.nwrap := window_length _ _
  have hlh' : hist'.length = h.nwrap := by
    simp only [hist', List.length_append, List.length_map, List.length_take, List.length_drop, hlh]; omega
  have hag0 : Agree coff coefs.length hist' sh := by
    refine ⟨by omega, ?_⟩
    intro j hj
    have e : hist'.getD j 0 = hist.getD j 0 - coff := by
      have hj' : j < hist.length := by omega
      simp only [hist', List.getD_eq_getElem?_getD, List.getElem?_append, List.length_map, List.length_take,
        List.getElem?_map, List.getElem?_take]
      have : j < min coefs.length hist.length := by omega
      simp [this, hj, List.getElem?_eq_getElem hj']
    rw [e, getD_window sh (by omega)]; omega
  obtain ⟨X, hXdef⟩ : ∃ X, X = runBlock (predLpc h.lpcqoffset coefs coff) res sh := ⟨_, rfl⟩
  rw [← hXdef]
  have hag : Agree coff (coefs.length + res.length) acc X := by
    rw [hXdef]
    exact runBlock_sim (c := coff) (n := coefs.length) (predLpc_agree h.lpcqoffset coefs coff) res
      coefs.length _ _ (Nat.le_refl _) hag0
  have hlen : acc.length = res.length + h.nwrap := by rw [← hlh']; exact runBlock_length _ _ _
  have hX : X.length = res.length + sh.length := by rw [hXdef]; exact runBlock_length _ _ _
  have hdrop : acc.drop res.length = hist' := runBlock_drop _ _ _
  -- the new samples, un-offset
  have hnew : (acc.take res.length).map (· + coff) = X.take res.length := by
    apply List.ext_getElem
    · simp; omega
    · intro i h1 h2
      have hi : i < res.length := by
        have := h2
        simp only [List.length_take] at this
        omega
      have := hag.2 i (by omega)
      simp only [List.getD_eq_getElem?_getD] at this
      rw [List.getElem?_eq_getElem (by omega), List.getElem?_eq_getElem (by omega)] at this
      simpa using this
  have hacc' : acc' = X.take res.length ++ hist' := by
    by_cases hc : coff = 0
    · have : acc' = acc := by simp [acc', hc]
      rw [this, ← hnew, hc]
      simp only [Int.add_zero, List.map_id', ← hdrop, List.take_append_drop]
    · have : acc' = (acc.take res.length).map (· + coff) ++ acc.drop res.length := by simp [acc', hc]
      rw [this, hnew, hdrop]
  refine ⟨acc', setSlice_zero_reverse _ _ (h.nwrap + res.length) (by rw [hacc']; simp; omega),
    by rw [hacc']; simp; omega, ?_, ?_, by omega⟩
  · rw [hacc', List.take_append_of_le_length (by simp; omega)]
    rw [List.take_take, Nat.min_self]
  · rw [hacc', List.take_append_of_le_length (by simp; omega), List.take_take, Nat.min_eq_left hbs,
      window_self_of_le _ (by omega)]

/-! ## the per-channel refinement relation -/

structure RelChan (h : Hdr) (c : ChanSt) (s : SChan) : Prop where
  len : c.buf.length = h.bs0 + h.nwrap
  hist : c.buf.take h.nwrap = (window h.nwrap s.hist).reverse
  off : c.off = if h.nmean = 0 then [h.meanInit]
                else ((s.means ++ List.replicate h.nmean h.meanInit).take h.nmean).reverse

theorem coffset_rel {h : Hdr} {c : ChanSt} {s : SChan} (hr : RelChan h c s) (shift : Nat) :
    coffset h shift c.off = semCoffset h shift s.means := by
  unfold coffset semCoffset
  by_cases hn : h.nmean = 0
  · simp [hn, hr.off]
  · have hl : ((s.means ++ List.replicate h.nmean h.meanInit).take h.nmean).reverse.length ≤ h.nmean := by
      simp
    simp only [hn, ne_eq, not_false_eq_true, if_true, hr.off, if_false]
    rw [List.take_of_length_le hl, List.sum_reverse]

theorem slice_rev_blk (A T : List Int) (nw bs : Nat) (hA : A.length = nw + bs) :
    slice (A.reverse ++ T) nw (nw + bs) = (A.take bs).reverse := by
  unfold slice
  rw [List.take_append_of_le_length (by simp; omega), List.take_of_length_le (by simp; omega),
    List.drop_reverse]
  congr 2
  omega

theorem slice_rev_hist (A T : List Int) (nw bs : Nat) (hA : A.length = nw + bs) :
    slice (A.reverse ++ T) bs (bs + nw) = (A.take nw).reverse := by
  unfold slice
  rw [List.take_append_of_le_length (by simp; omega), List.take_of_length_le (by simp; omega),
    List.drop_reverse]
  congr 2
  omega

theorem meanUpdate_rel {h : Hdr} (bs shift : Nat) (off means buf1 : List Int)
    (hoff : off = if h.nmean = 0 then [h.meanInit]
                  else ((means ++ List.replicate h.nmean h.meanInit).take h.nmean).reverse) :
    let m := blockMean h bs shift (slice buf1 h.nwrap (h.nwrap + bs))
    meanUpdate h bs shift off buf1 =
      if h.nmean = 0 then [h.meanInit]
      else (((if h.nmean > 0 then m :: means else means) ++ List.replicate h.nmean h.meanInit).take h.nmean).reverse := by
  intro m
  unfold meanUpdate
  by_cases hn : h.nmean = 0
  · simp [hn, hoff]
  · have hpos : h.nmean > 0 := Nat.pos_of_ne_zero hn
    simp only [hpos, if_true, hn, if_false]
    obtain ⟨W, hW⟩ : ∃ W, W = (means ++ List.replicate h.nmean h.meanInit).take h.nmean := ⟨_, rfl⟩
    have hWl : W.length = h.nmean := by rw [hW]; simp
    have hoff' : off = W.reverse := by rw [hoff, hW]; simp [hn]
    obtain ⟨k, hk⟩ : ∃ k, h.nmean = k + 1 := ⟨h.nmean - 1, by omega⟩
    have e1 : (m :: means ++ List.replicate h.nmean h.meanInit).take h.nmean = m :: W.take k := by
      rw [hW, hk, List.cons_append, List.take_succ_cons, List.take_take, Nat.min_eq_left (Nat.le_succ k)]
    rw [e1, hoff']
    -- left: shift the window, overwrite the last cell
    have e2 : slice W.reverse 1 h.nmean = (W.take k).reverse := by
      unfold slice
      rw [List.take_of_length_le (by simp; omega), List.drop_reverse]
      congr 2
      omega
    have e3 : setSlice W.reverse 0 (W.take k).reverse = (W.take k).reverse ++ W.reverse.drop k := by
      simp [setSlice]
    rw [e2, e3, List.reverse_cons]
    have hl : ((W.take k).reverse).length = k := by simp; omega
    have hk' : h.nmean - 1 = k := by omega
    rw [hk', List.set_append_right _ _ (by omega), hl, Nat.sub_self]
    have : (W.reverse.drop k).length = 1 := by simp; omega
    match hd : W.reverse.drop k, this with
    | [x], _ => simp [m]

theorem slice_eq_drop_take (l : List Int) (a n : Nat) : slice l a (a + n) = (l.drop a).take n := by
  unfold slice
  rw [List.drop_take]
  congr 1
  omega

theorem fixSample_pcm {ftype : Nat} (shift : Nat) (v : Int) (h : ¬(ftype = TYPE_AU1 ∨ ftype = TYPE_AU2)) :
    fixSample ftype shift v = v <<< shift := by
  unfold fixSample
  have h1 : ftype ≠ TYPE_AU1 := fun e => h (Or.inl e)
  have h2 : ftype ≠ TYPE_AU2 := fun e => h (Or.inr e)
  simp [h1, h2]

/-- finishing a block re-establishes the channel relation and leaves the fixed-up block in the block cells -/
theorem finish_chan (h : Hdr) (bs shift : Nat) (c : ChanSt) (s : SChan) (buf1 hist' : List Int)
    (hr : RelChan h c s) (hp : BlockPost h.nwrap bs c.buf buf1 hist') (hbs : bs ≤ h.bs0) :
    slice buf1 h.nwrap (h.nwrap + bs) = (hist'.take bs).reverse ∧
    RelChan h ⟨fixBuf h shift bs (wrapBuf h.nwrap bs buf1), meanUpdate h bs shift c.off buf1⟩
      ⟨hist', if h.nmean > 0 then blockMean h bs shift (hist'.take bs).reverse :: s.means else s.means⟩ ∧
    slice (fixBuf h shift bs (wrapBuf h.nwrap bs buf1)) h.nwrap (h.nwrap + bs)
      = ((hist'.take bs).reverse).map (fixSample h.ftype shift) := by
  obtain ⟨A, hb1, hAl, hAbs, hAnw, hle⟩ := hp
  obtain ⟨nw, hnw⟩ : ∃ nw, nw = h.nwrap := ⟨_, rfl⟩
  rw [← hnw] at hb1 hAl hAnw ⊢
  have hlen := hr.len
  rw [← hnw] at hlen
  obtain ⟨blk, hblk⟩ : ∃ blk, blk = (hist'.take bs).reverse := ⟨_, rfl⟩
  have hblkl : blk.length = bs := by rw [hblk]; simp; omega
  have e_blk : slice buf1 nw (nw + bs) = blk := by rw [hb1, slice_rev_blk _ _ _ _ hAl, hAbs, hblk]
  have e_hist : slice buf1 bs (bs + nw) = (window nw hist').reverse := by
    rw [hb1, slice_rev_hist _ _ _ _ hAl, hAnw]
  have hl1 : buf1.length = h.bs0 + nw := by rw [hb1]; simp; omega
  obtain ⟨buf2, hbuf2⟩ : ∃ b, b = wrapBuf nw bs buf1 := ⟨_, rfl⟩
  have e2 : buf2 = (window nw hist').reverse ++ buf1.drop nw := by
    rw [hbuf2]; unfold wrapBuf; rw [e_hist]; simp [setSlice, window_length]
  have hl2 : buf2.length = h.bs0 + nw := by rw [e2]; simp [window_length]; omega
  have ht2 : buf2.take nw = (window nw hist').reverse := by
    rw [e2, List.take_left' (by simp [window_length])]
  have hd2 : buf2.drop nw = buf1.drop nw := by
    rw [e2, List.drop_left' (by simp [window_length])]
  have es2 : slice buf2 nw (nw + bs) = blk := by
    rw [slice_eq_drop_take, hd2, ← slice_eq_drop_take, e_blk]
  rw [← hblk, ← hbuf2]
  refine ⟨e_blk, ?_, ?_⟩
  · -- channel relation
    refine ⟨?_, ?_, ?_⟩
    · show (fixBuf h shift bs buf2).length = h.bs0 + h.nwrap
      rw [← hnw]
      unfold fixBuf
      rw [← hnw]
      split
      · simp [setSlice, es2, hblkl]; omega
      · split
        · simp; omega
        · exact hl2
    · show (fixBuf h shift bs buf2).take h.nwrap = (window h.nwrap hist').reverse
      rw [← hnw]
      unfold fixBuf
      rw [← hnw]
      split
      · unfold setSlice
        rw [List.append_assoc, List.take_left' (by simp; omega), ht2]
      · split
        · rw [List.take_left' (by simp; omega), ht2]
        · exact ht2
    · show meanUpdate h bs shift c.off buf1 = _
      have := meanUpdate_rel (h := h) bs shift c.off s.means buf1 hr.off
      simp only at this
      rw [this, ← hnw, e_blk]
  · unfold fixBuf
    rw [← hnw]
    split
    · rw [es2]
      unfold setSlice
      rw [List.append_assoc, slice_eq_drop_take, List.drop_left' (by simp; omega),
        List.take_left' (by simp [hblkl])]
    · rename_i hau
      split
      · rw [slice_eq_drop_take, List.drop_left' (by simp; omega), ← List.map_take,
          ← slice_eq_drop_take, es2]
        apply List.map_congr_left
        intro v _
        exact (fixSample_pcm shift v hau).symm
      · rename_i hs
        have hs0 : shift = 0 := by omega
        rw [es2]
        have : (fun v => fixSample h.ftype shift v) = id := by
          funext v
          rw [fixSample_pcm shift v hau, hs0, Int.shiftLeft_zero]; rfl
        show blk = List.map (fun v => fixSample h.ftype shift v) blk
        rw [this, List.map_id]

/-! ## the whole-state refinement relation -/

structure Rel (h : Hdr) (st : St) (ss : SSt) : Prop where
  bs : st.bs = ss.bs
  shift : st.shift = ss.shift
  chan : st.chan = ss.chan
  out : st.out = ss.out
  chanlt : st.chan < h.nchan
  bsle : st.bs ≤ h.bs0
  len : st.chans.length = h.nchan
  slen : ss.chans.length = h.nchan
  chans : ∀ i, i < h.nchan → RelChan h (st.chans.getD i default) (ss.chans.getD i default)
  frame : ss.frame = (st.chans.take st.chan).map (fun c => slice c.buf h.nwrap (h.nwrap + st.bs))

theorem take_succ_set {α : Type} (l : List α) (i : Nat) (x : α) (hi : i < l.length) :
    (l.set i x).take (i + 1) = l.take i ++ [x] := by
  rw [List.take_add_one, List.take_set_of_le (Nat.le_refl i), List.getElem?_set_self hi]
  rfl

theorem take_set_self {α : Type} (l : List α) (i : Nat) (x : α) : (l.set i x).take i = l.take i := by
  rw [List.take_set_of_le (Nat.le_refl i)]

theorem getD_set {α : Type} (l : List α) (i j : Nat) (x d : α) :
    (l.set i x).getD j d = if i = j ∧ i < l.length then x else l.getD j d := by
  simp only [List.getD_eq_getElem?_getD, List.getElem?_set]
  by_cases hij : i = j
  · subst hij
    by_cases hl : i < l.length
    · simp [hl]
    · simp [hl]
  · simp [hij]

theorem finish_rel {h : Hdr} {convert : Bool} {st : St} {ss : SSt} (hrel : Rel h st ss) (buf1 hist' : List Int)
    (hp : BlockPost h.nwrap st.bs (st.chans.getD st.chan default).buf buf1 hist') :
    Rel h (finishBlock h convert st (st.chans.getD st.chan default).off buf1) (semFinish h convert ss hist') := by
  have hc := hrel.chans st.chan hrel.chanlt
  obtain ⟨e1, hrc, e3⟩ := finish_chan h st.bs st.shift _ _ buf1 hist' hc hp hrel.bsle
  have hcl : st.chan < st.chans.length := by rw [hrel.len]; exact hrel.chanlt
  have hscl : ss.chan < ss.chans.length := by rw [hrel.slen, ← hrel.chan]; exact hrel.chanlt
  unfold finishBlock semFinish
  rw [← hrel.bs, ← hrel.shift, ← hrel.chan]
  by_cases hlast : st.chan + 1 = h.nchan
  · -- last channel of the frame: interleave
    have hmod : (st.chan + 1) % h.nchan = 0 := by rw [hlast]; exact Nat.mod_self _
    simp only [hlast, if_true]
    have hrows : (st.chans.set st.chan
        ⟨fixBuf h st.shift st.bs (wrapBuf h.nwrap st.bs buf1),
          meanUpdate h st.bs st.shift (st.chans.getD st.chan default).off buf1⟩).map
          (fun c => slice c.buf h.nwrap (h.nwrap + st.bs))
        = ss.frame ++ [((hist'.take st.bs).reverse).map (fixSample h.ftype st.shift)] := by
      have hl : (st.chans.set st.chan
          ⟨fixBuf h st.shift st.bs (wrapBuf h.nwrap st.bs buf1),
            meanUpdate h st.bs st.shift (st.chans.getD st.chan default).off buf1⟩).length = st.chan + 1 := by
        rw [List.length_set, hrel.len]; exact hlast.symm
      rw [← List.take_of_length_le (Nat.le_of_eq hl), take_succ_set _ _ _ hcl, List.map_append, hrel.frame]
      simp [e3]
    refine ⟨rfl, rfl, ?_, ?_, ?_, hrel.bsle, ?_, ?_, ?_, ?_⟩
    · simp
    · simp only [hrows, hrel.out]
    · simp; omega
    · simp; exact hrel.len
    · simp; exact hrel.slen
    · intro i hi
      simp only [getD_set, hcl, hrel.chan ▸ hscl, and_true]
      by_cases hic : st.chan = i
      · simp only [hic, if_true]
        rw [← hic]
        exact hrc
      · simp only [hic, if_false]
        exact hrel.chans i hi
    · simp
  · have hlt : st.chan + 1 < h.nchan := by have := hrel.chanlt; omega
    have hmod : (st.chan + 1) % h.nchan = st.chan + 1 := Nat.mod_eq_of_lt hlt
    simp only [hlast, if_false]
    refine ⟨rfl, rfl, ?_, hrel.out, ?_, hrel.bsle, ?_, ?_, ?_, ?_⟩
    · simp [hmod]
    · simp [hmod]; exact hlt
    · simp; exact hrel.len
    · simp; exact hrel.slen
    · intro i hi
      simp only [getD_set, hcl, hrel.chan ▸ hscl, and_true]
      by_cases hic : st.chan = i
      · simp only [hic, if_true]
        rw [← hic]
        exact hrc
      · simp only [hic, if_false]
        exact hrel.chans i hi
    · simp only [hmod]
      rw [take_succ_set _ _ _ hcl, List.map_append, hrel.frame]
      simp [e3]

/-! ## one block command, decoder against specification -/

theorem diffCode_ne_zero (k : Nat) : diffCode k ≠ FN_ZERO := by
  unfold diffCode
  split <;> decide

theorem decodeBlock_diff (h : Hdr) (k resn : Nat) (coff : Int) (bs : Nat) (buf : List Int) :
    ∃ chk, decodeBlock h (diffCode k) resn coff bs buf =
      (resLoop resn chk (predDiff k coff) (fun _ => true) bs (slice buf 0 h.nwrap).reverse >>=
        fun acc => pure (setSlice buf 0 acc.reverse)) := by
  match k with
  | 0 => exact ⟨decide (h.nmean = 0), by simp [decodeBlock, diffCode, FN_DIFF0, FN_ZERO]⟩
  | 1 => exact ⟨true, by simp [decodeBlock, diffCode, FN_DIFF0, FN_DIFF1, FN_ZERO]⟩
  | 2 => exact ⟨true, by simp [decodeBlock, diffCode, FN_DIFF0, FN_DIFF1, FN_DIFF2, FN_ZERO]⟩
  | n + 3 =>
    refine ⟨true, ?_⟩
    have : predDiff (n + 3) coff = predDiff 3 coff := by funext a; simp [predDiff]
    rw [this]
    simp [decodeBlock, diffCode, FN_DIFF0, FN_DIFF1, FN_DIFF2, FN_DIFF3, FN_ZERO]

theorem run_decodeBlock_diff (h : Hdr) (k resn : Nat) (coff : Int) (res buf : List Int) (r : List Bool) :
    (decodeBlock h (diffCode k) resn coff res.length buf).run uvarGet (res.flatMap (varPut resn) ++ r)
      = .ok (setSlice buf 0 (runBlock (predDiff k coff) res (slice buf 0 h.nwrap).reverse).reverse, r) := by
  obtain ⟨chk, e⟩ := decodeBlock_diff h k resn coff res.length buf
  rw [e, Prog.run_bind_ok uvarGet (run_resLoop _ _ _ _ _ _ _)]
  rfl

theorem run_decodeBlock_zero (h : Hdr) (resn : Nat) (coff : Int) (bs : Nat) (buf : List Int) (r : List Bool) :
    (decodeBlock h FN_ZERO resn coff bs buf).run uvarGet r
      = .ok (setSlice buf h.nwrap (List.replicate bs 0), r) := by
  simp [decodeBlock]

theorem run_decodeBlock_qlpc (h : Hdr) (resn : Nat) (coff : Int) (coefs res buf : List Int) (r : List Bool)
    (hn : coefs.length ≤ h.maxnlpc) :
    (decodeBlock h FN_QLPC resn coff res.length buf).run uvarGet
        (uvarPut LPCQSIZE coefs.length ++ coefs.flatMap (varPut LPCQUANT) ++ res.flatMap (varPut resn) ++ r)
      = .ok (setSlice buf 0
          (let hist := (slice buf 0 h.nwrap).reverse
           let hist' := (hist.take coefs.length).map (· - coff) ++ hist.drop coefs.length
           let acc := runBlock (fun a => (lpcSum h.lpcqoffset coefs a) >>> LPCQUANT) res hist'
           if coff ≠ 0 then (acc.take res.length).map (· + coff) ++ acc.drop res.length else acc).reverse, r) := by
  have hnot : ¬ coefs.length > h.maxnlpc := by omega
  simp only [decodeBlock, FN_QLPC, FN_ZERO, FN_DIFF0, FN_DIFF1, FN_DIFF2, FN_DIFF3]
  simp only [Nat.reduceEqDiff, if_false, List.append_assoc]
  rw [Prog.run_bind_ok uvarGet (run_uvar_put _ _ _)]
  simp only [hnot, if_false]
  rw [Prog.run_bind_ok uvarGet (run_readCoefs _ _)]
  simp only [Prog.run_bind, Prog.run_check]
  rw [run_resLoop]
  rfl

theorem run_blockCmd_nz {h : Hdr} {convert : Bool} {st : St} (cmd resn : Nat) (body r : List Bool)
    (buf1 : List Int) (hz : cmd ≠ FN_ZERO)
    (hdec : (decodeBlock h cmd resn (coffset h st.shift (st.chans.getD st.chan default).off) st.bs
              (st.chans.getD st.chan default).buf).run uvarGet (body ++ r) = .ok (buf1, r)) :
    (blockCmd h convert cmd st).run uvarGet (uvarPut ENERGYSIZE resn ++ (body ++ r))
      = .ok (finishBlock h convert st (st.chans.getD st.chan default).off buf1, r) := by
  unfold blockCmd
  simp only [hz, ne_eq, not_false_eq_true, if_true]
  rw [Prog.run_bind_ok uvarGet (run_uvar_put _ _ _), Prog.run_bind_ok uvarGet hdec]
  simp

theorem run_blockCmd_zero {h : Hdr} {convert : Bool} {st : St} (r : List Bool) :
    (blockCmd h convert FN_ZERO st).run uvarGet r
      = .ok (finishBlock h convert st (st.chans.getD st.chan default).off
          (setSlice (st.chans.getD st.chan default).buf h.nwrap (List.replicate st.bs 0)), r) := by
  unfold blockCmd
  simp only [ne_eq, not_true_eq_false, if_false]
  rw [Prog.run_bind_ok uvarGet (Prog.run_pure uvarGet 0 r),
    Prog.run_bind_ok uvarGet (run_decodeBlock_zero _ _ _ _ _ _)]
  simp

/-- the code of a block command and the bits that follow it -/
def blockCode : Cmd → Nat
  | .diff k _ _ => diffCode k
  | .qlpc _ _ _ => FN_QLPC
  | _ => FN_ZERO

def blockBody : Cmd → List Bool
  | .diff _ resn res => uvarPut ENERGYSIZE resn ++ res.flatMap (varPut resn)
  | .qlpc resn coefs res =>
    uvarPut ENERGYSIZE resn ++ uvarPut LPCQSIZE coefs.length ++ coefs.flatMap (varPut LPCQUANT)
      ++ res.flatMap (varPut resn)
  | _ => []

def isBlock : Cmd → Bool
  | .diff _ _ _ => true
  | .qlpc _ _ _ => true
  | .zero => true
  | _ => false

/-- the per-command part of `WFcmds` for block commands -/
def blockWF (h : Hdr) (bs : Nat) : Cmd → Prop
  | .diff _ _ res => res.length = bs
  | .qlpc _ coefs res => coefs.length ≤ h.maxnlpc ∧ res.length = bs ∧ h.nwrap ≤ bs
  | _ => True

theorem finishBlock_bs_chan (h : Hdr) (convert : Bool) (st : St) (off buf1 : List Int) :
    (finishBlock h convert st off buf1).bs = st.bs ∧
      (finishBlock h convert st off buf1).chan = (st.chan + 1) % h.nchan := by
  unfold finishBlock
  split <;> exact ⟨rfl, rfl⟩

theorem run_blockCmd {h : Hdr} {convert : Bool} {st : St} {ss : SSt} (hrel : Rel h st ss) (c : Cmd)
    (hb : isBlock c = true) (hwf : blockWF h st.bs c) :
    ∃ st', (∀ r : List Bool,
        (blockCmd h convert (blockCode c) st).run uvarGet (blockBody c ++ r) = .ok (st', r)) ∧
      Rel h st' (semCmd h convert ss c) ∧ st'.bs = st.bs ∧ st'.chan = (st.chan + 1) % h.nchan := by
  have hc := hrel.chans st.chan hrel.chanlt
  have hcoff := coffset_rel hc st.shift
  have hhist := hist_of_buf hc.hist
  cases c with
  | diff k resn res =>
    simp only [blockWF] at hwf
    have hrun : ∀ r : List Bool, (blockCmd h convert (blockCode (.diff k resn res)) st).run uvarGet
        (blockBody (.diff k resn res) ++ r) = .ok (finishBlock h convert st (st.chans.getD st.chan default).off
          (setSlice (st.chans.getD st.chan default).buf 0 (runBlock (predDiff k
            (coffset h st.shift (st.chans.getD st.chan default).off)) res
            (slice (st.chans.getD st.chan default).buf 0 h.nwrap).reverse).reverse), r) := by
      intro r
      simp only [blockCode, blockBody, List.append_assoc]
      apply run_blockCmd_nz _ _ _ _ _ (diffCode_ne_zero k)
      rw [← hwf]
      exact run_decodeBlock_diff _ _ _ _ _ _ _
    refine ⟨_, hrun, ?_, finishBlock_bs_chan _ _ _ _ _⟩
    simp only [semCmd]
    apply finish_rel hrel
    rw [hhist, hcoff, ← hwf]
    have := blockPost_diff h k (semCoffset h st.shift (ss.chans.getD st.chan default).means) res
      (st.chans.getD st.chan default).buf (ss.chans.getD st.chan default).hist
    simpa [semHist, ← hrel.chan, ← hrel.shift] using this
  | qlpc resn coefs res =>
    simp only [blockWF] at hwf
    obtain ⟨hn, hl, hnw⟩ := hwf
    have hrun := fun r : List Bool => run_blockCmd_nz (h := h) (convert := convert) (st := st) FN_QLPC resn
      (uvarPut LPCQSIZE coefs.length ++ coefs.flatMap (varPut LPCQUANT) ++ res.flatMap (varPut resn)) r _
      (by decide) (hl ▸ run_decodeBlock_qlpc h resn (coffset h st.shift (st.chans.getD st.chan default).off)
        coefs res (st.chans.getD st.chan default).buf r hn)
    refine ⟨_, fun r => by simpa only [blockCode, blockBody, List.append_assoc] using hrun r, ?_,
      finishBlock_bs_chan _ _ _ _ _⟩
    simp only [semCmd]
    apply finish_rel hrel
    rw [hhist, hcoff, ← hl]
    have := blockPost_qlpc h coefs (semCoffset h st.shift (ss.chans.getD st.chan default).means) res
      (st.chans.getD st.chan default).buf (ss.chans.getD st.chan default).hist
      (Nat.le_trans hn (nwrap_ge h).2) (by omega)
    simpa [semHist, ← hrel.chan, ← hrel.shift] using this
  | zero =>
    refine ⟨_, fun r => by simpa only [blockCode, blockBody, List.nil_append] using run_blockCmd_zero r, ?_,
      finishBlock_bs_chan _ _ _ _ _⟩
    simp only [semCmd]
    apply finish_rel hrel
    have := blockPost_zero h.nwrap st.bs (st.chans.getD st.chan default).buf
      (ss.chans.getD st.chan default).hist hc.hist
    simpa [semHist, ← hrel.chan, ← hrel.bs] using this
  | blocksize n => simp [isBlock] at hb
  | bitshift n => simp [isBlock] at hb

/-! ## the command loop -/

theorem encodeCmd_block (c : Cmd) (hb : isBlock c = true) :
    encodeCmd c = uvarPut FNSIZE (blockCode c) ++ blockBody c := by
  cases c <;> simp_all [isBlock, encodeCmd, blockCode, blockBody]

theorem blockCode_mem (c : Cmd) : BLOCK_CMDS.contains (blockCode c) = true ∧ blockCode c ≠ FN_QUIT := by
  cases c with
  | diff k _ _ =>
    simp only [blockCode, diffCode]
    split <;> exact ⟨by decide, by decide⟩
  | _ => simp only [blockCode]; exact ⟨by decide, by decide⟩

theorem run_step_quit {h : Hdr} {convert : Bool} (st : St) (r : List Bool) :
    (step h convert st).run uvarGet (uvarPut FNSIZE FN_QUIT ++ r) = .ok (.inr st.out, r) := by
  unfold step
  rw [Prog.run_bind_ok uvarGet (run_uvar_put _ _ _)]
  simp

/-- the state-independent part of `WFcmds` for one command -/
def cmdWF (h : Hdr) (bs chan : Nat) : Cmd → Prop
  | .blocksize n => chan = 0 ∧ 1 ≤ n ∧ n ≤ h.bs0
  | .bitshift _ => True
  | c => blockWF h bs c

def nextBs (bs : Nat) : Cmd → Nat
  | .blocksize n => n
  | _ => bs

def nextChan (h : Hdr) (chan : Nat) (c : Cmd) : Nat := if isBlock c then (chan + 1) % h.nchan else chan

theorem WFcmds_cons (h : Hdr) (bs chan : Nat) (c : Cmd) (cs : List Cmd) :
    WFcmds h bs chan (c :: cs) ↔ cmdWF h bs chan c ∧ WFcmds h (nextBs bs c) (nextChan h chan c) cs := by
  cases c <;> simp [WFcmds, cmdWF, blockWF, nextBs, nextChan, isBlock, and_assoc]

theorem run_step_cmd {h : Hdr} {convert : Bool} {st : St} {ss : SSt} (hrel : Rel h st ss) (c : Cmd)
    (hwf : cmdWF h st.bs st.chan c) :
    ∃ st', (∀ r : List Bool, (step h convert st).run uvarGet (encodeCmd c ++ r) = .ok (.inl st', r)) ∧
      Rel h st' (semCmd h convert ss c) ∧ st'.bs = nextBs st.bs c ∧ st'.chan = nextChan h st.chan c := by
  by_cases hb : isBlock c = true
  · have hwf' : blockWF h st.bs c := by
      cases c <;> simp_all [isBlock, cmdWF]
    obtain ⟨st', hrun, hrel', hbs', hchan'⟩ := run_blockCmd (convert := convert) hrel c hb hwf'
    have hcode := blockCode_mem c
    refine ⟨st', ?_, hrel', ?_, ?_⟩
    · intro r
      rw [encodeCmd_block c hb, List.append_assoc]
      unfold step
      rw [Prog.run_bind_ok uvarGet (run_uvar_put _ _ _)]
      simp only [hcode.2, if_false, hcode.1, if_true]
      rw [Prog.run_bind_ok uvarGet (hrun r)]
      rfl
    · rw [hbs']; cases c <;> simp_all [isBlock, nextBs]
    · rw [hchan']; simp [nextChan, hb]
  · cases c with
    | diff k resn res => simp [isBlock] at hb
    | qlpc resn coefs res => simp [isBlock] at hb
    | zero => simp [isBlock] at hb
    | blocksize n =>
      obtain ⟨hch, hn1, hn2⟩ := hwf
      refine ⟨{ st with bs := n }, ?_, ?_, rfl, by simp [nextChan, isBlock]⟩
      · intro r
        simp only [encodeCmd, List.append_assoc]
        unfold step
        rw [Prog.run_bind_ok uvarGet (run_uvar_put _ _ _)]
        have e1 : ¬ (FN_BLOCKSIZE = FN_QUIT) := by decide
        have e2 : BLOCK_CMDS.contains FN_BLOCKSIZE = false := by decide
        simp only [e1, e2, if_false, Bool.false_eq_true, if_true]
        rw [Prog.run_bind_ok uvarGet (run_ulong_put _ _)]
        have e3 : ¬ (n = 0 ∨ n > h.bs0) := by omega
        simp only [e3, if_false]
        rfl
      · simp only [semCmd]
        have hfr : ss.frame = [] := by rw [hrel.frame, hch]; rfl
        exact ⟨rfl, hrel.shift, hrel.chan, hrel.out, hrel.chanlt, hn2, hrel.len, hrel.slen, hrel.chans,
          by simp [hfr, hch]⟩
    | bitshift n =>
      refine ⟨{ st with shift := n }, ?_, ?_, rfl, by simp [nextChan, isBlock]⟩
      · intro r
        simp only [encodeCmd, List.append_assoc]
        unfold step
        rw [Prog.run_bind_ok uvarGet (run_uvar_put _ _ _)]
        have e1 : ¬ (FN_BITSHIFT = FN_QUIT) := by decide
        have e2 : BLOCK_CMDS.contains FN_BITSHIFT = false := by decide
        have e3 : ¬ (FN_BITSHIFT = FN_BLOCKSIZE) := by decide
        simp only [e1, e2, e3, if_false, Bool.false_eq_true, if_true]
        rw [Prog.run_bind_ok uvarGet (run_uvar_put _ _ _)]
        rfl
      · simp only [semCmd]
        exact ⟨hrel.bs, rfl, hrel.chan, hrel.out, hrel.chanlt, hrel.bsle, hrel.len, hrel.slen, hrel.chans,
          hrel.frame⟩

theorem loop_succ (h : Hdr) (convert : Bool) (f : Nat) (st : St) :
    loop h convert (f + 1) st =
      (step h convert st >>= fun x =>
        match x with
        | .inl st' => loop h convert f st'
        | .inr out => pure out) := rfl

/-- the loop run over an encoded well-formed command list arrives, with the fuel that is left, in a
    state related to the specification's state -/
theorem run_loop_prefix {h : Hdr} {convert : Bool} (cmds : List Cmd) :
    ∀ (fuel : Nat) (st : St) (ss : SSt), Rel h st ss → WFcmds h st.bs st.chan cmds →
      ∃ st', Rel h st' (cmds.foldl (semCmd h convert) ss) ∧ ∀ rest : List Bool,
        (loop h convert (fuel + cmds.length) st).run uvarGet (cmds.flatMap encodeCmd ++ rest)
          = (loop h convert fuel st').run uvarGet rest := by
  induction cmds with
  | nil => intro fuel st ss hrel _; exact ⟨st, hrel, fun rest => rfl⟩
  | cons c cs ih =>
    intro fuel st ss hrel hwf
    rw [WFcmds_cons] at hwf
    obtain ⟨st1, hrun, hrel1, hbs1, hchan1⟩ := run_step_cmd (convert := convert) hrel c hwf.1
    obtain ⟨st', hrel', hrest⟩ := ih fuel st1 _ hrel1 (by rw [hbs1, hchan1]; exact hwf.2)
    refine ⟨st', hrel', ?_⟩
    intro rest
    simp only [List.flatMap_cons, List.length_cons, List.append_assoc]
    rw [← Nat.add_assoc, loop_succ, Prog.run_bind_ok uvarGet (hrun _)]
    exact hrest rest

theorem run_loop {h : Hdr} {convert : Bool} (r : List Bool) (cmds : List Cmd)
    (fuel : Nat) (st : St) (ss : SSt) (hrel : Rel h st ss) (hwf : WFcmds h st.bs st.chan cmds)
    (hf : cmds.length < fuel) :
    (loop h convert fuel st).run uvarGet (cmds.flatMap encodeCmd ++ (uvarPut FNSIZE FN_QUIT ++ r))
      = .ok ((cmds.foldl (semCmd h convert) ss).out, r) := by
  obtain ⟨st', hrel', hrest⟩ := run_loop_prefix (convert := convert) cmds (fuel - cmds.length) st ss hrel hwf
  have e : fuel - cmds.length + cmds.length = fuel := by omega
  rw [e] at hrest
  rw [hrest]
  obtain ⟨f, hfe⟩ : ∃ f, fuel - cmds.length = f + 1 := ⟨fuel - cmds.length - 1, by omega⟩
  rw [hfe, loop_succ, Prog.run_bind_ok uvarGet (run_step_quit _ _)]
  simp [hrel'.out]

/-- an unknown function code after a well-formed prefix -/
theorem run_loop_badcmd {h : Hdr} {convert : Bool} (r : List Bool) (cmds : List Cmd) (code : Nat)
    (hcode : FN_ZERO < code)
    (fuel : Nat) (st : St) (ss : SSt) (hrel : Rel h st ss) (hwf : WFcmds h st.bs st.chan cmds)
    (hf : cmds.length < fuel) :
    (loop h convert fuel st).run uvarGet (cmds.flatMap encodeCmd ++ (uvarPut FNSIZE code ++ r))
      = .error (.io .badCmd) := by
  obtain ⟨st', hrel', hrest⟩ := run_loop_prefix (convert := convert) cmds (fuel - cmds.length) st ss hrel hwf
  have e : fuel - cmds.length + cmds.length = fuel := by omega
  rw [e] at hrest
  rw [hrest]
  obtain ⟨f, hfe⟩ : ∃ f, fuel - cmds.length = f + 1 := ⟨fuel - cmds.length - 1, by omega⟩
  rw [hfe, loop_succ]
  unfold step
  simp only [Prog.run_bind]
  rw [run_uvar_put]
  have h8 : 8 < code := hcode
  have e1 : ¬ code = FN_QUIT := by simp only [FN_QUIT]; omega
  have e2 : ¬ code ∈ BLOCK_CMDS := by
    simp only [BLOCK_CMDS, List.mem_cons, List.not_mem_nil, or_false]
    omega
  have e3 : ¬ code = FN_BLOCKSIZE := by simp only [FN_BLOCKSIZE]; omega
  have e4 : ¬ code = FN_BITSHIFT := by simp only [FN_BITSHIFT]; omega
  simp [e1, e2, e3, e4]

/-! ## header and top level -/

theorem rel_init (h : Hdr) (hn : 1 ≤ h.nchan) : Rel h (initSt h) (initS h) := by
  refine ⟨rfl, rfl, rfl, rfl, hn, Nat.le_refl _, by simp [initSt], by simp [initS], ?_, by simp [initSt, initS]⟩
  intro i hi
  have e1 : (initSt h).chans.getD i default =
      ⟨List.replicate (h.bs0 + h.nwrap) 0, List.replicate h.nblock h.meanInit⟩ := by
    simp [initSt, List.getD_eq_getElem?_getD, hi]
  have e2 : (initS h).chans.getD i default = ⟨[], []⟩ := by
    simp [initS, List.getD_eq_getElem?_getD, hi]
  rw [e1, e2]
  refine ⟨by simp, ?_, ?_⟩
  · simp [window, List.take_replicate]
  · by_cases hm : h.nmean = 0
    · simp [hm, Hdr.nblock]
    · have : max 1 h.nmean = h.nmean := by omega
      simp [hm, Hdr.nblock, this, List.take_replicate]

theorem uvarPut_length_pos (k n : Nat) : 1 ≤ (uvarPut k n).length := by
  simp only [uvarPut, List.length_append, List.length_replicate, List.length_cons]
  generalize n >>> k = a
  omega

theorem encodeCmd_length_pos (c : Cmd) : 1 ≤ (encodeCmd c).length := by
  cases c with
  | diff k _ _ => have := uvarPut_length_pos FNSIZE (diffCode k); simp only [encodeCmd, List.length_append]; omega
  | qlpc _ _ _ => have := uvarPut_length_pos FNSIZE FN_QLPC; simp only [encodeCmd, List.length_append]; omega
  | zero => exact uvarPut_length_pos FNSIZE FN_ZERO
  | blocksize _ => have := uvarPut_length_pos FNSIZE FN_BLOCKSIZE; simp only [encodeCmd, List.length_append]; omega
  | bitshift _ => have := uvarPut_length_pos FNSIZE FN_BITSHIFT; simp only [encodeCmd, List.length_append]; omega

theorem cmds_length_le (cmds : List Cmd) : cmds.length ≤ (cmds.flatMap encodeCmd).length := by
  induction cmds with
  | nil => simp
  | cons c cs ih =>
    have := encodeCmd_length_pos c
    simp only [List.flatMap_cons, List.length_append, List.length_cons]; omega

/-- the bits `encode` writes before the first command -/
def encodeHdr (p : Program) : List Bool :=
  ulongPut p.hdr.ftype ++ ulongPut p.hdr.nchan ++ ulongPut p.hdr.bs0 ++ ulongPut p.hdr.maxnlpc
    ++ ulongPut p.hdr.nmean ++ ulongPut p.skip.length ++ p.skip.flatMap (uvarPut XBITESIZE)

theorem encode_eq (p : Program) :
    encode p = encodeHdr p ++ (p.cmds.flatMap encodeCmd ++ uvarPut FNSIZE FN_QUIT) := by
  simp [encode, encodeHdr]

theorem run_readHdr (p : Program) (hft : p.hdr.ftype < FTYPE_LIMIT)
    (hnc : 1 ≤ p.hdr.nchan) (hbs : 1 ≤ p.hdr.bs0) (rest : List Bool) :
    (readHdr p.hdr.version).run uvarGet (encodeHdr p ++ rest) = .ok (p.hdr, rest) := by
  unfold readHdr encodeHdr
  simp only [List.append_assoc]
  rw [Prog.run_bind_ok uvarGet (run_ulong_put _ _)]
  have e1 : ¬ (p.hdr.ftype ≥ FTYPE_LIMIT) := by omega
  simp only [e1, if_false]
  rw [Prog.run_bind_ok uvarGet (run_ulong_put _ _), Prog.run_bind_ok uvarGet (run_ulong_put _ _),
    Prog.run_bind_ok uvarGet (run_ulong_put _ _), Prog.run_bind_ok uvarGet (run_ulong_put _ _),
    Prog.run_bind_ok uvarGet (run_ulong_put _ _), Prog.run_bind_ok uvarGet (run_skipBytes _ _)]
  have e2 : ¬ (p.hdr.nchan = 0 ∨ p.hdr.bs0 = 0) := by omega
  simp only [e2, if_false]
  rfl

theorem run_mainProg_hdr (p : Program) (convert : Bool) (hft : p.hdr.ftype < FTYPE_LIMIT)
    (hnc : 1 ≤ p.hdr.nchan) (hbs : 1 ≤ p.hdr.bs0) (fuel : Nat) (rest : List Bool) :
    (mainProg p.hdr.version convert fuel).run uvarGet (encodeHdr p ++ rest)
      = (loop p.hdr convert fuel (initSt p.hdr)).run uvarGet rest := by
  unfold mainProg
  rw [Prog.run_bind_ok uvarGet (run_readHdr p hft hnc hbs rest)]

theorem run_mainProg (p : Program) (convert : Bool) (hwf : WF p) (fuel : Nat) (hf : p.cmds.length < fuel)
    (r : List Bool) :
    (mainProg p.hdr.version convert fuel).run uvarGet (encode p ++ r) = .ok (sem convert p, r) := by
  obtain ⟨_, _, hft, hnc, hbs, hcmds⟩ := hwf
  rw [encode_eq, List.append_assoc, run_mainProg_hdr p convert hft hnc hbs, List.append_assoc]
  exact run_loop r p.cmds fuel _ _ (rel_init p.hdr hnc) hcmds hf

theorem run_mainProg_badcmd (p : Program) (convert : Bool) (hwf : WF p) (code : Nat) (hcode : FN_ZERO < code)
    (fuel : Nat) (hf : p.cmds.length < fuel) (r : List Bool) :
    (mainProg p.hdr.version convert fuel).run uvarGet
        (encodeHdr p ++ (p.cmds.flatMap encodeCmd ++ (uvarPut FNSIZE code ++ r)))
      = .error (.io .badCmd) := by
  obtain ⟨_, _, hft, hnc, hbs, hcmds⟩ := hwf
  rw [run_mainProg_hdr p convert hft hnc hbs]
  exact run_loop_badcmd r p.cmds code hcode fuel _ _ (rel_init p.hdr hnc) hcmds hf

theorem run_mainProg_badtype (version : Nat) (convert : Bool) (fuel ftype : Nat) (hft : FTYPE_LIMIT ≤ ftype)
    (r : List Bool) :
    (mainProg version convert fuel).run uvarGet (ulongPut ftype ++ r) = .error (.io .badType) := by
  unfold mainProg readHdr
  simp only [Prog.run_bind]
  rw [run_ulong_put]
  have e1 : ftype ≥ FTYPE_LIMIT := hft
  simp [e1]

theorem versionOk_of_wf (v : Nat) (h1 : 1 ≤ v) (h2 : v ≤ 2) : versionOk (v : Int) = true := by
  have : v = 1 ∨ v = 2 := by omega
  rcases this with rfl | rfl <;> decide

/-- decoding what `encode` wrote (followed by anything) gives what `sem` says -/
theorem decodeBitsF_encode (p : Program) (convert : Bool) (hwf : WF p) (r : List Bool) (fuel : Nat)
    (hf : p.cmds.length < fuel) :
    decodeBitsF fuel (p.hdr.version : Int) convert (encode p ++ r) = .ok (sem convert p) := by
  unfold decodeBitsF
  rw [versionOk_of_wf _ hwf.1 hwf.2.1, if_pos rfl, Int.toNat_natCast, run_mainProg p convert hwf _ hf r]

theorem encode_length_ge (p : Program) : p.cmds.length ≤ (encode p).length := by
  have := cmds_length_le p.cmds
  unfold encode
  simp only [List.length_append]; omega

theorem decodeBits_encode (p : Program) (convert : Bool) (hwf : WF p) (r : List Bool) :
    decodeBits (p.hdr.version : Int) convert (encode p ++ r) = .ok (sem convert p) := by
  unfold decodeBits
  apply decodeBitsF_encode p convert hwf r
  have := encode_length_ge p
  simp only [List.length_append]; omega

end PdsVerif.Model.Shorten

/-
  C13 — the block interpreter over the bit-list reader decodes what `encode` wrote (L2).
-/
import PdsVerif.Lemmas.ShortenBits
namespace PdsVerif.Model.Shorten
open PdsVerif.Gen.Shorten

/-! ## reading lists of encoded values -/

theorem run_readCoefs (coefs : List Int) (r : List Bool) :
    (readCoefs coefs.length).run uvarGet (coefs.flatMap (varPut LPCQUANT) ++ r) = .ok (coefs, r) := by
  induction coefs with
  | nil => rfl
  | cons c cs ih =>
    simp only [List.length_cons, readCoefs, List.flatMap_cons, List.append_assoc]
    rw [Prog.run_bind_ok uvarGet (run_var_put _ _ _)]
    simp [ih]

theorem run_resLoop (resn : Nat) (chkRes : Bool) (pred : List Int → Int) (predOk : List Int → Bool)
    (res acc : List Int) (r : List Bool) :
    (resLoop resn chkRes pred predOk res.length acc).run uvarGet (res.flatMap (varPut resn) ++ r)
      = .ok (runBlock pred res acc, r) := by
  induction res generalizing acc with
  | nil => rfl
  | cons x xs ih =>
    simp only [List.length_cons, resLoop, List.flatMap_cons, List.append_assoc]
    rw [Prog.run_bind_ok uvarGet (run_var_put _ _ _)]
    simp [ih, runBlock]

theorem run_skipBytes (skip : List Nat) (r : List Bool) :
    (skipBytes skip.length).run uvarGet (skip.flatMap (uvarPut XBITESIZE) ++ r) = .ok ((), r) := by
  induction skip with
  | nil => rfl
  | cons c cs ih =>
    simp only [List.length_cons, skipBytes, List.flatMap_cons, List.append_assoc]
    rw [Prog.run_bind_ok uvarGet (run_uvar_put _ _ _)]
    exact ih

/-! ## predictors only look at a bounded prefix of the history -/

/-- the `n` most recent samples, zeros standing in for the time before the start -/
def window (n : Nat) (hist : List Int) : List Int := (hist ++ List.replicate n 0).take n

theorem window_length (n : Nat) (hist : List Int) : (window n hist).length = n := by
  simp [window]

theorem getD_window {n j : Nat} (hist : List Int) (hj : j < n) : (window n hist).getD j 0 = hist.getD j 0 := by
  simp only [window, List.getD_eq_getElem?_getD, List.getElem?_take, hj, if_true, List.getElem?_append]
  split
  · rfl
  · rename_i hlt
    simp only [List.getElem?_replicate]
    have : hist[j]? = none := by simp; omega
    rw [this]
    split <;> rfl

/-- `a` (at least `m` long) and `b` agree on their first `m` entries up to the constant `c` -/
def Agree (c : Int) (m : Nat) (a b : List Int) : Prop :=
  m ≤ a.length ∧ ∀ j < m, a.getD j 0 + c = b.getD j 0

theorem Agree.mono {c : Int} {m n : Nat} {a b : List Int} (h : Agree c m a b) (hn : n ≤ m) : Agree c n a b :=
  ⟨Nat.le_trans hn h.1, fun j hj => h.2 j (Nat.lt_of_lt_of_le hj hn)⟩

theorem runBlock_sim {p1 p2 : List Int → Int} {c : Int} {n : Nat}
    (hp : ∀ a b, Agree c n a b → p1 a + c = p2 b) (res : List Int) :
    ∀ (m : Nat) (a b : List Int), n ≤ m → Agree c m a b →
      Agree c (m + res.length) (runBlock p1 res a) (runBlock p2 res b) := by
  induction res with
  | nil => intro m a b _ h; simpa [runBlock] using h
  | cons r rs ih =>
    intro m a b hnm h
    simp only [runBlock, List.length_cons]
    have h' : Agree c (m + 1) ((r + p1 a) :: a) ((r + p2 b) :: b) := by
      refine ⟨by simp; exact h.1, ?_⟩
      intro j hj
      cases j with
      | zero => simp [← hp a b (h.mono hnm)]; omega
      | succ j => simpa using h.2 j (by omega)
    have := ih (m + 1) _ _ (by omega) h'
    have e : m + 1 + rs.length = m + (rs.length + 1) := by omega
    rwa [e] at this

theorem runBlock_length (p : List Int → Int) (res a : List Int) :
    (runBlock p res a).length = res.length + a.length := by
  induction res generalizing a with
  | nil => simp [runBlock]
  | cons r rs ih => simp [runBlock, ih]; omega

theorem runBlock_drop (p : List Int → Int) (res a : List Int) :
    (runBlock p res a).drop res.length = a := by
  induction res generalizing a with
  | nil => simp [runBlock]
  | cons r rs ih =>
    simp only [runBlock, List.length_cons]
    have := ih ((r + p a) :: a)
    rw [← List.drop_drop, this]; rfl

/-- a list that agrees with `b` on its whole length is a window of `b` -/
theorem eq_window_of_agree {m : Nat} {a b : List Int} (h : Agree 0 m a b) (hl : a.length = m) :
    a = window m b := by
  apply List.ext_getElem
  · rw [hl, window_length]
  · intro i h1 h2
    have hi : i < m := by omega
    have e1 := h.2 i hi
    have e2 := getD_window b hi
    simp only [List.getD_eq_getElem?_getD, Int.add_zero] at e1 e2
    rw [List.getElem?_eq_getElem h1] at e1
    rw [List.getElem?_eq_getElem h2] at e2
    simp only [Option.getD_some] at e1 e2
    rw [e1, e2]

theorem agree_window (n : Nat) (hist : List Int) : Agree 0 n (window n hist) hist :=
  ⟨by rw [window_length]; exact Nat.le_refl _, fun j hj => by rw [getD_window hist hj]; omega⟩

theorem predDiff_agree (k : Nat) (coff : Int) (a b : List Int) (h : Agree 0 3 a b) :
    predDiff k coff a + 0 = predDiff k coff b := by
  have h0 := h.2 0 (by omega)
  have h1 := h.2 1 (by omega)
  have h2 := h.2 2 (by omega)
  unfold predDiff
  split <;> omega

theorem zipWith_congr_prefix (f : Int → Int → Int) (l : List Int) :
    ∀ (a b : List Int), l.length ≤ a.length → l.length ≤ b.length →
      (∀ j < l.length, a.getD j 0 = b.getD j 0) → List.zipWith f l a = List.zipWith f l b := by
  induction l with
  | nil => intros; rfl
  | cons x xs ih =>
    intro a b ha hb h
    cases a with
    | nil => simp at ha
    | cons y ys =>
      cases b with
      | nil => simp at hb
      | cons z zs =>
        have h0 := h 0 (by simp)
        simp at h0
        simp only [List.zipWith_cons_cons, h0]
        congr 1
        apply ih ys zs (by simpa using ha) (by simpa using hb)
        intro j hj
        simpa using h (j + 1) (by simpa using hj)

theorem predLpc_agree (off : Int) (coefs : List Int) (c : Int) (a b : List Int)
    (h : Agree c coefs.length a b) :
    (lpcSum off coefs a) >>> LPCQUANT + c = predLpc off coefs c b := by
  unfold predLpc lpcSum
  rw [zipWith_congr_prefix (· * ·) coefs a ((b ++ List.replicate coefs.length 0).map (· - c)) h.1 (by simp)]
  · omega
  · intro j hj
    have := h.2 j hj
    have e : ((b ++ List.replicate coefs.length 0).map (· - c)).getD j 0 = b.getD j 0 - c := by
      simp only [List.getD_eq_getElem?_getD, List.getElem?_map, List.getElem?_append]
      split
      · rename_i hlt; rw [List.getElem?_eq_getElem hlt]; simp
      · rename_i hlt
        have : b[j]? = none := by simp; omega
        rw [this, List.getElem?_replicate]
        have : j - b.length < coefs.length := by omega
        simp [this]
    rw [e]; omega

/-! ## what one decoded block looks like -/

theorem window_take {n m : Nat} (l : List Int) (hnm : n ≤ m) : (window m l).take n = window n l := by
  apply eq_window_of_agree
  · refine ⟨by simp [window_length]; omega, ?_⟩
    intro j hj
    have : ((window m l).take n).getD j 0 = (window m l).getD j 0 := by
      simp [List.getD_eq_getElem?_getD, hj]
    rw [this, getD_window l (by omega)]; omega
  · simp [window_length]; omega

theorem window_take_hist {n m : Nat} (l : List Int) (hnm : n ≤ m) (hl : n ≤ l.length) :
    (window m l).take n = l.take n := by
  unfold window
  rw [List.take_take, Nat.min_eq_left hnm, List.take_append]
  have : n - l.length = 0 := by omega
  rw [this]; simp

theorem nwrap_ge (h : Hdr) : 3 ≤ h.nwrap ∧ h.maxnlpc ≤ h.nwrap := by
  unfold Hdr.nwrap NWRAP; omega

/-- `buf1` is `buf` with its first `nw + bs` cells replaced by the reversal of `A`, whose `bs` most recent
    entries are the new samples and whose `nw` most recent entries are the new history window -/
def BlockPost (nw bs : Nat) (buf buf1 hist' : List Int) : Prop :=
  ∃ A : List Int, buf1 = A.reverse ++ buf.drop (nw + bs) ∧ A.length = nw + bs ∧
    A.take bs = hist'.take bs ∧ A.take nw = window nw hist' ∧ bs ≤ hist'.length

theorem hist_of_buf {nw : Nat} {buf sh : List Int} (hbuf : buf.take nw = (window nw sh).reverse) :
    (slice buf 0 nw).reverse = window nw sh := by
  simp [slice, hbuf]

theorem setSlice_zero_reverse (buf A : List Int) (n : Nat) (hA : A.length = n) :
    setSlice buf 0 A.reverse = A.reverse ++ buf.drop n := by
  simp [setSlice, hA]

theorem blockPost_diff (h : Hdr) (k : Nat) (coff : Int) (res buf sh : List Int) :
    BlockPost h.nwrap res.length buf
      (setSlice buf 0 (runBlock (predDiff k coff) res (window h.nwrap sh)).reverse)
      (runBlock (predDiff k coff) res sh) := by
  have hnw := nwrap_ge h
  have hag := runBlock_sim (c := 0) (n := 3) (predDiff_agree k coff) res h.nwrap _ _ hnw.1 (agree_window h.nwrap sh)
  have hlen := runBlock_length (predDiff k coff) res (window h.nwrap sh)
  rw [window_length] at hlen
  have hl' := runBlock_length (predDiff k coff) res sh
  have hw := eq_window_of_agree hag (by omega)
  refine ⟨_, setSlice_zero_reverse _ _ (h.nwrap + res.length) (by omega), by omega, ?_, ?_, by omega⟩
  · rw [hw]; exact window_take_hist _ (by omega) (by omega)
  · rw [hw]; exact window_take _ (by omega)

theorem take_append_window (n : Nat) (N sh : List Int) : (N ++ window n sh).take n = window n (N ++ sh) := by
  unfold window
  rw [List.take_append, List.take_take, List.append_assoc, List.take_append (l₁ := N)]
  congr 2
  omega

theorem window_self_of_le {n : Nat} (l : List Int) (hl : n ≤ l.length) : window n l = l.take n := by
  have := window_take_hist (n := n) (m := n) l (Nat.le_refl _) hl
  rwa [List.take_of_length_le (by rw [window_length]; exact Nat.le_refl _)] at this

theorem blockPost_zero (nw bs : Nat) (buf sh : List Int) (hbuf : buf.take nw = (window nw sh).reverse) :
    BlockPost nw bs buf (setSlice buf nw (List.replicate bs 0)) (List.replicate bs 0 ++ sh) := by
  refine ⟨List.replicate bs 0 ++ window nw sh, ?_, by simp [window_length]; omega, by simp, ?_, by simp⟩
  · simp [setSlice, hbuf]
  · exact take_append_window nw _ sh

theorem blockPost_qlpc (h : Hdr) (coefs : List Int) (coff : Int) (res buf sh : List Int)
    (hn : coefs.length ≤ h.nwrap) (hbs : h.nwrap ≤ res.length) :
    let hist := window h.nwrap sh
    let hist' := (hist.take coefs.length).map (· - coff) ++ hist.drop coefs.length
    let acc := runBlock (fun a => (lpcSum h.lpcqoffset coefs a) >>> LPCQUANT) res hist'
    let acc' := if coff ≠ 0 then (acc.take res.length).map (· + coff) ++ acc.drop res.length else acc
    BlockPost h.nwrap res.length buf (setSlice buf 0 acc'.reverse)
      (runBlock (predLpc h.lpcqoffset coefs coff) res sh) := by
  intro hist hist' acc acc'
  have hlh : hist.length = h.nwrap := window_length _ _
  have hlh' : hist'.length = h.nwrap := by
    simp only [hist', List.length_append, List.length_map, List.length_take, List.length_drop, hlh]; omega
  have hag0 : Agree coff coefs.length hist' sh := by
    refine ⟨by omega, ?_⟩
    intro j hj
    have e : hist'.getD j 0 = hist.getD j 0 - coff := by
      have hj' : j < hist.length := by omega
      simp only [hist', List.getD_eq_getElem?_getD, List.getElem?_append, List.length_map, List.length_take,
        List.getElem?_map, List.getElem?_take]
      have : j < min coefs.length hist.length := by omega
      simp [this, hj, List.getElem?_eq_getElem hj']
    rw [e, getD_window sh (by omega)]; omega
  obtain ⟨X, hXdef⟩ : ∃ X, X = runBlock (predLpc h.lpcqoffset coefs coff) res sh := ⟨_, rfl⟩
  rw [← hXdef]
  have hag : Agree coff (coefs.length + res.length) acc X := by
    rw [hXdef]
    exact runBlock_sim (c := coff) (n := coefs.length) (predLpc_agree h.lpcqoffset coefs coff) res
      coefs.length _ _ (Nat.le_refl _) hag0
  have hlen : acc.length = res.length + h.nwrap := by rw [← hlh']; exact runBlock_length _ _ _
  have hX : X.length = res.length + sh.length := by rw [hXdef]; exact runBlock_length _ _ _
  have hdrop : acc.drop res.length = hist' := runBlock_drop _ _ _
  -- the new samples, un-offset
  have hnew : (acc.take res.length).map (· + coff) = X.take res.length := by
    apply List.ext_getElem
    · simp; omega
    · intro i h1 h2
      have hi : i < res.length := by
        have := h2
        simp only [List.length_take] at this
        omega
      have := hag.2 i (by omega)
      simp only [List.getD_eq_getElem?_getD] at this
      rw [List.getElem?_eq_getElem (by omega), List.getElem?_eq_getElem (by omega)] at this
      simpa using this
  have hacc' : acc' = X.take res.length ++ hist' := by
    by_cases hc : coff = 0
    · have : acc' = acc := by simp [acc', hc]
      rw [this, ← hnew, hc]
      simp only [Int.add_zero, List.map_id', ← hdrop, List.take_append_drop]
    · have : acc' = (acc.take res.length).map (· + coff) ++ acc.drop res.length := by simp [acc', hc]
      rw [this, hnew, hdrop]
  refine ⟨acc', setSlice_zero_reverse _ _ (h.nwrap + res.length) (by rw [hacc']; simp; omega),
    by rw [hacc']; simp; omega, ?_, ?_, by omega⟩
  · rw [hacc', List.take_append_of_le_length (by simp; omega)]
    rw [List.take_take, Nat.min_self]
  · rw [hacc', List.take_append_of_le_length (by simp; omega), List.take_take, Nat.min_eq_left hbs,
      window_self_of_le _ (by omega)]

end PdsVerif.Model.Shorten

/-
  Facts about the row-major tensor model (`Model/Tensor.lean`), for every rank.
  Main results: `get_ofFn` (tabulation really has the values it was given), `ext` (a well-formed tensor
  is determined by its shape and its `get`), pointwise characterisation of `valid`, and the `get`
  lemmas of the NumPy primitives.
-/
import PdsVerif.Model.Tensor

namespace PdsVerif.Model.Tensor
variable {α : Type}

/-! ### flat / unflat -/

theorem numel_pos_of_valid : ∀ (shape idx : List Nat), valid shape idx = true → 0 < numel shape
  | [], [], _ => by simp [numel]
  | [], _ :: _, h => by simp [valid] at h
  | _ :: _, [], h => by simp [valid] at h
  | s :: ss, i :: is, h => by
    simp only [valid, Bool.and_eq_true, decide_eq_true_eq] at h
    have := numel_pos_of_valid ss is h.2
    simp only [numel]
    exact Nat.mul_pos (by omega) this

theorem flat_lt : ∀ (shape idx : List Nat), valid shape idx = true → flat shape idx < numel shape
  | [], [], _ => by simp [flat, numel]
  | [], _ :: _, h => by simp [valid] at h
  | _ :: _, [], h => by simp [valid] at h
  | s :: ss, i :: is, h => by
    simp only [valid, Bool.and_eq_true, decide_eq_true_eq] at h
    have ih := flat_lt ss is h.2
    simp only [flat, numel]
    calc i * numel ss + flat ss is < i * numel ss + numel ss := by omega
      _ = (i + 1) * numel ss := by rw [Nat.add_mul, Nat.one_mul]
      _ ≤ s * numel ss := Nat.mul_le_mul_right _ h.1

theorem unflat_flat : ∀ (shape idx : List Nat), valid shape idx = true →
    unflat shape (flat shape idx) = idx
  | [], [], _ => by simp [unflat]
  | [], _ :: _, h => by simp [valid] at h
  | _ :: _, [], h => by simp [valid] at h
  | s :: ss, i :: is, h => by
    simp only [valid, Bool.and_eq_true, decide_eq_true_eq] at h
    have ih := unflat_flat ss is h.2
    have hr := flat_lt ss is h.2
    have hP : 0 < numel ss := by omega
    simp only [flat, unflat]
    have h1 : (i * numel ss + flat ss is) / numel ss = i := by
      rw [Nat.mul_comm, Nat.mul_add_div hP, Nat.div_eq_of_lt hr, Nat.add_zero]
    have h2 : (i * numel ss + flat ss is) % numel ss = flat ss is := by
      rw [Nat.mul_comm, Nat.mul_add_mod, Nat.mod_eq_of_lt hr]
    rw [h1, h2, ih]

theorem valid_unflat : ∀ (shape : List Nat) (k : Nat), k < numel shape → valid shape (unflat shape k) = true
  | [], _, _ => by simp [unflat, valid]
  | s :: ss, k, h => by
    simp only [numel] at h
    have hP : 0 < numel ss := by
      rcases Nat.eq_zero_or_pos (numel ss) with h0 | h0
      · rw [h0] at h; omega
      · exact h0
    simp only [unflat, valid, Bool.and_eq_true, decide_eq_true_eq]
    refine ⟨?_, valid_unflat ss _ (Nat.mod_lt _ hP)⟩
    exact Nat.div_lt_of_lt_mul (by rw [Nat.mul_comm]; exact h)

theorem flat_unflat : ∀ (shape : List Nat) (k : Nat), k < numel shape → flat shape (unflat shape k) = k
  | [], k, h => by simp only [numel] at h; simp [flat]; omega
  | s :: ss, k, h => by
    simp only [numel] at h
    have hP : 0 < numel ss := by
      rcases Nat.eq_zero_or_pos (numel ss) with h0 | h0
      · rw [h0] at h; omega
      · exact h0
    simp only [unflat, flat]
    rw [flat_unflat ss _ (Nat.mod_lt _ hP)]
    exact Nat.div_add_mod' k (numel ss)

/-! ### ofFn / get -/

@[simp] theorem ofFn_shape (shape : List Nat) (f : List Nat → α) : (ofFn shape f).shape = shape := rfl

theorem ofFn_wf (shape : List Nat) (f : List Nat → α) : (ofFn shape f).WF := by
  simp [WF, ofFn]

/-- tabulation has the values it was given, at every rank -/
theorem get_ofFn (shape : List Nat) (f : List Nat → α) (idx : List Nat) (h : valid shape idx = true) :
    (ofFn shape f).get idx = some (f idx) := by
  have hl := flat_lt shape idx h
  simp only [get, ofFn, h, if_true]
  rw [List.getElem?_map, List.getElem?_range hl]
  simp [unflat_flat shape idx h]

theorem get_eq_none_of_not_valid (t : Tensor α) (idx : List Nat) (h : valid t.shape idx = false) :
    t.get idx = none := by
  simp [get, h]

theorem get_eq_some_val [Inhabited α] (t : Tensor α) (hwf : t.WF) (idx : List Nat)
    (h : valid t.shape idx = true) : t.get idx = some (t.val idx) := by
  have hl := flat_lt t.shape idx h
  unfold WF at hwf
  have : t.get idx = some (t.data[flat t.shape idx]'(by omega)) := by
    simp only [get, h, if_true]
    exact List.getElem?_eq_getElem (by omega)
  simp [val, this]

theorem val_ofFn [Inhabited α] (shape : List Nat) (f : List Nat → α) (idx : List Nat)
    (h : valid shape idx = true) : (ofFn shape f).val idx = f idx := by
  simp [val, get_ofFn shape f idx h]

/-- a well-formed tensor is determined by its shape and its values at valid indices -/
theorem ext_get (s t : Tensor α) (hs : s.WF) (ht : t.WF) (hshape : s.shape = t.shape)
    (h : ∀ idx, valid s.shape idx = true → s.get idx = t.get idx) : s = t := by
  cases s with
  | mk ss sd =>
  cases t with
  | mk ts td =>
  simp only at hshape
  subst hshape
  simp only [WF] at hs ht
  congr 1
  apply List.ext_getElem (by omega)
  intro k hk1 hk2
  have hk : k < numel ss := by omega
  have hv := valid_unflat ss k hk
  have := h (unflat ss k) hv
  simp only [get, hv, if_true, flat_unflat ss k hk] at this
  rw [List.getElem?_eq_getElem hk1, List.getElem?_eq_getElem hk2] at this
  exact Option.some.inj this

/-! ### pointwise view of `valid` -/

theorem valid_iff : ∀ (shape idx : List Nat),
    valid shape idx = true ↔
      idx.length = shape.length ∧ ∀ a, a < shape.length → idx.getD a 0 < shape.getD a 0
  | [], [] => by simp [valid]
  | [], _ :: _ => by simp [valid]
  | _ :: _, [] => by simp [valid]
  | s :: ss, i :: is => by
    simp only [valid, Bool.and_eq_true, decide_eq_true_eq, valid_iff ss is, List.length_cons]
    constructor
    · rintro ⟨h1, h2, h3⟩
      refine ⟨by omega, ?_⟩
      intro a ha
      cases a with
      | zero => simpa using h1
      | succ a => simpa using h3 a (by omega)
    · rintro ⟨h1, h2⟩
      refine ⟨by simpa using h2 0 (by omega), by omega, ?_⟩
      intro a ha
      simpa using h2 (a + 1) (by omega)

theorem valid_length {shape idx : List Nat} (h : valid shape idx = true) : idx.length = shape.length :=
  ((valid_iff shape idx).1 h).1

theorem valid_getD {shape idx : List Nat} (h : valid shape idx = true) {a : Nat} (ha : a < shape.length) :
    idx.getD a 0 < shape.getD a 0 :=
  ((valid_iff shape idx).1 h).2 a ha

theorem getD_set_eq (l : List Nat) (a v d : Nat) (b : Nat) :
    (l.set a v).getD b d = if a = b ∧ a < l.length then v else l.getD b d := by
  simp only [List.getD_eq_getElem?_getD, List.getElem?_set]
  by_cases hab : a = b
  · subst hab
    by_cases hl : a < l.length
    · simp [hl]
    · simp [hl]
  · simp [hab]

/-- replacing coordinate `a` of a valid index by any in-range value (for a possibly changed extent) -/
theorem valid_set {shape idx : List Nat} {a n v : Nat} (h : valid shape idx = true) (hv : v < n) :
    valid (shape.set a n) (idx.set a v) = true := by
  rw [valid_iff] at h ⊢
  obtain ⟨hl, hp⟩ := h
  refine ⟨by simp [hl], ?_⟩
  intro b hb
  simp only [List.length_set] at hb
  rw [getD_set_eq, getD_set_eq]
  by_cases hab : a = b
  · subst hab; simp [hl, hb, hv]
  · simp [hab]; exact hp b hb

theorem valid_set_same {shape idx : List Nat} {a v : Nat} (h : valid shape idx = true)
    (hv : v < shape.getD a 0) : valid shape (idx.set a v) = true := by
  have := valid_set (a := a) (n := shape.getD a 0) h hv
  have hs : shape.set a (shape.getD a 0) = shape := by
    apply List.ext_getElem (by simp)
    intro k h1 h2
    simp only [List.getElem_set]
    split
    · next hak => subst hak; simp [List.getD_eq_getElem?_getD, List.getElem?_eq_getElem h2]
    · rfl
  rwa [hs] at this

/-- from an index valid for a shape whose extent along `a` was replaced, to one valid for the
original shape -/
theorem valid_of_valid_set {shape idx : List Nat} {a n v : Nat} (h : valid (shape.set a n) idx = true)
    (hv : v < shape.getD a 0) : valid shape (idx.set a v) = true := by
  have := valid_set (a := a) (n := shape.getD a 0) (v := v) h hv
  have hs : (shape.set a n).set a (shape.getD a 0) = shape := by
    rw [List.set_set]
    apply List.ext_getElem (by simp)
    intro k h1 h2
    simp only [List.getElem_set]
    split
    · next hak => subst hak; simp [List.getD_eq_getElem?_getD, List.getElem?_eq_getElem h2]
    · rfl
  rwa [hs] at this

theorem set_getD_self (l : List Nat) (a : Nat) : l.set a (l.getD a 0) = l := by
  apply List.ext_getElem (by simp)
  intro k h1 h2
  simp only [List.getElem_set]
  split
  · next hak => subst hak; simp [List.getD_eq_getElem?_getD, List.getElem?_eq_getElem h2]
  · rfl

/-! ### lanes -/

theorem lane_length [Inhabited α] (t : Tensor α) (ax : Nat) (idx : List Nat) :
    (t.lane ax idx).length = t.shape.getD ax 0 := by
  simp [lane]

theorem lane_getD [Inhabited α] (t : Tensor α) (ax : Nat) (idx : List Nat) (s : Nat)
    (hs : s < t.shape.getD ax 0) : (t.lane ax idx).getD s default = t.val (idx.set ax s) := by
  unfold lane
  rw [List.getD_eq_getElem?_getD, List.getElem?_map, List.getElem?_range hs]
  rfl

theorem lane_set [Inhabited α] (t : Tensor α) (ax : Nat) (idx : List Nat) (v : Nat) :
    t.lane ax (idx.set ax v) = t.lane ax idx := by
  simp [lane, List.set_set]

/-- elements of a lane are genuine elements of the tensor -/
theorem lane_get [Inhabited α] (t : Tensor α) (hwf : t.WF) (ax : Nat) (idx : List Nat)
    (h : valid t.shape idx = true) (s : Nat) (hs : s < t.shape.getD ax 0) :
    t.get (idx.set ax s) = some ((t.lane ax idx).getD s default) := by
  rw [lane_getD t ax idx s hs]
  exact get_eq_some_val t hwf _ (valid_set_same h hs)

/-! ### the primitives -/

theorem get_mapLanes [Inhabited α] (ax : Nat) (g : List α → List α) (t : Tensor α) (idx : List Nat)
    (h : valid t.shape idx = true) :
    (mapLanes ax g t).get idx = some ((g (t.lane ax idx)).getD (idx.getD ax 0) default) := by
  unfold mapLanes
  simp only
  rw [get_ofFn _ _ _ h]
  have hv : valid (t.shape.set ax 1) (idx.set ax 0) = true := valid_set h (by omega)
  rw [val_ofFn _ _ _ hv, lane_set]

@[simp] theorem mapLanes_shape [Inhabited α] (ax : Nat) (g : List α → List α) (t : Tensor α) :
    (mapLanes ax g t).shape = t.shape := rfl

theorem mapLanes_wf [Inhabited α] (ax : Nat) (g : List α → List α) (t : Tensor α) :
    (mapLanes ax g t).WF := ofFn_wf _ _

@[simp] theorem sliceAxis_shape [Inhabited α] (ax start stop step : Nat) (t : Tensor α) :
    (t.sliceAxis ax start stop step).shape
      = t.shape.set ax (sliceLen start stop step (t.shape.getD ax 0)) := rfl

theorem sliceAxis_wf [Inhabited α] (ax start stop step : Nat) (t : Tensor α) :
    (t.sliceAxis ax start stop step).WF := ofFn_wf _ _

theorem get_sliceAxis [Inhabited α] (ax start stop step : Nat) (t : Tensor α) (idx : List Nat)
    (h : valid (t.sliceAxis ax start stop step).shape idx = true) :
    (t.sliceAxis ax start stop step).get idx
      = some (t.val (idx.set ax (start + idx.getD ax 0 * step))) := by
  unfold sliceAxis at h ⊢
  exact get_ofFn _ _ _ h

@[simp] theorem padAxis_shape [Inhabited α] (ax l r : Nat) (mode : PadMode α) (t : Tensor α) :
    (t.padAxis ax l r mode).shape = t.shape.set ax (l + t.shape.getD ax 0 + r) := rfl

theorem padAxis_wf [Inhabited α] (ax l r : Nat) (mode : PadMode α) (t : Tensor α) :
    (t.padAxis ax l r mode).WF := ofFn_wf _ _

theorem get_padAxis [Inhabited α] (ax l r : Nat) (mode : PadMode α) (t : Tensor α) (idx : List Nat)
    (h : valid (t.padAxis ax l r mode).shape idx = true) :
    (t.padAxis ax l r mode).get idx
      = some (Tensor.ext l r mode (t.lane ax idx) (((idx.getD ax 0 : Nat) : Int) - (l : Int))) := by
  unfold padAxis at h ⊢
  exact get_ofFn _ _ _ h

theorem transpose_wf [Inhabited α] (t : Tensor α) : t.transpose.WF := ofFn_wf _ _

@[simp] theorem transpose_shape [Inhabited α] (t : Tensor α) : t.transpose.shape = t.shape.reverse := rfl

theorem get_transpose [Inhabited α] (t : Tensor α) (idx : List Nat)
    (h : valid t.shape.reverse idx = true) : t.transpose.get idx = some (t.val idx.reverse) := by
  unfold transpose
  exact get_ofFn _ _ _ h

/-! ### concatenate / stack -/

/-- all parts have extent `S` along `a`: the part is `j / S`, the position inside it `j % S` -/
theorem concatVal_uniform [Inhabited α] (a S : Nat) :
    ∀ (ts : List (Tensor α)) (idx : List Nat) (d : Tensor α),
      (∀ t ∈ ts, t.shape.getD a 0 = S) → a < idx.length → idx.getD a 0 < S * ts.length →
      concatVal ts a idx = (ts.getD (idx.getD a 0 / S) d).val (idx.set a (idx.getD a 0 % S))
  | [], idx, d, _, _, hj => by simp at hj
  | t :: ts, idx, d, hS, ha, hj => by
    have hSt : t.shape.getD a 0 = S := hS t (by simp)
    have hSpos : 0 < S := by
      rcases Nat.eq_zero_or_pos S with h0 | h0
      · subst h0; simp at hj
      · exact h0
    simp only [concatVal, hSt]
    by_cases hlt : idx.getD a 0 < S
    · simp only [hlt, if_true, Nat.div_eq_of_lt hlt, Nat.mod_eq_of_lt hlt, List.getD_cons_zero]
      congr 1
      rw [set_getD_self]
    · simp only [hlt, if_false]
      have hge : S ≤ idx.getD a 0 := by omega
      have hget : (idx.set a (idx.getD a 0 - S)).getD a 0 = idx.getD a 0 - S := by
        rw [getD_set_eq]; simp [ha]
      have ih := concatVal_uniform a S ts (idx.set a (idx.getD a 0 - S)) d
        (fun t ht => hS t (by simp [ht])) (by simpa using ha)
        (by rw [hget]; simp only [List.length_cons, Nat.mul_succ] at hj; omega)
      rw [ih, hget, List.set_set]
      have hdiv : idx.getD a 0 / S = (idx.getD a 0 - S) / S + 1 := by
        have := Nat.add_div_right (idx.getD a 0 - S) hSpos
        rwa [Nat.sub_add_cancel hge] at this
      have hmod : idx.getD a 0 % S = (idx.getD a 0 - S) % S := by
        have := Nat.add_mod_right (idx.getD a 0 - S) S
        rwa [Nat.sub_add_cancel hge] at this
      rw [hdiv, hmod, List.getD_cons_succ]

/-! ### axis normalisation -/

theorem normAxis_some_iff (axis : Int) (n a : Nat) :
    normAxis axis n = some a ↔ (-(n : Int) ≤ axis ∧ axis < n) ∧ a = (axis % (n : Int)).toNat := by
  unfold normAxis
  by_cases h : -(n : Int) ≤ axis ∧ axis < n
  · simp only [h, and_self, if_true, Option.some.injEq, true_and]
    have hn : (0 : Int) < n := by omega
    by_cases hneg : axis < 0
    · simp only [hneg, if_true]
      have : axis % (n : Int) = axis + n := by
        rw [← Int.add_emod_right]; exact Int.emod_eq_of_lt (by omega) (by omega)
      rw [this]; constructor <;> (intro h; omega)
    · simp only [hneg, if_false]
      have : axis % (n : Int) = axis := Int.emod_eq_of_lt (by omega) (by omega)
      rw [this]; constructor <;> (intro h; omega)
  · simp [h]

theorem normAxis_lt {axis : Int} {n a : Nat} (h : normAxis axis n = some a) : a < n := by
  obtain ⟨⟨h1, h2⟩, h3⟩ := (normAxis_some_iff axis n a).1 h
  have hn : (0 : Int) < n := by omega
  have := Int.emod_lt_of_pos axis hn
  have := Int.emod_nonneg axis (show (n : Int) ≠ 0 by omega)
  omega

theorem normAxis_none_iff (axis : Int) (n : Nat) :
    normAxis axis n = none ↔ ¬ (-(n : Int) ≤ axis ∧ axis < n) := by
  unfold normAxis
  by_cases h : -(n : Int) ≤ axis ∧ axis < n <;> simp [h]

theorem normAxis_natCast {a n : Nat} (h : a < n) : normAxis (a : Int) n = some a := by
  rw [normAxis_some_iff]
  refine ⟨by omega, ?_⟩
  rw [Int.emod_eq_of_lt (by omega) (by omega)]
  simp

/-- `axis % ndim` (Python's `%`) as used by `Deltas.apply` / `Stack.apply` is a legal axis -/
theorem emod_axis_lt (axis : Int) {n : Nat} (hn : n ≠ 0) : (axis % (n : Int)).toNat < n := by
  have hn' : (0 : Int) < n := by omega
  have := Int.emod_lt_of_pos axis hn'
  have := Int.emod_nonneg axis (show (n : Int) ≠ 0 by omega)
  omega

/-! ### concatenate / stack of equally shaped parts -/

theorem sum_map_const {β : Type} (f : β → Nat) (S : Nat) :
    ∀ (l : List β), (∀ t ∈ l, f t = S) → (l.map f).sum = S * l.length
  | [], _ => by simp
  | t :: l, h => by
    have := sum_map_const f S l (fun u hu => h u (by simp [hu]))
    simp only [List.map_cons, List.sum_cons, List.length_cons, this, h t (by simp), Nat.mul_succ]
    omega

theorem concatenate_uniform [Inhabited α] (t0 : Tensor α) (rest : List (Tensor α)) (axis : Int) (a : Nat)
    (hsh : ∀ t ∈ rest, t.shape = t0.shape) (hr : t0.shape.length ≠ 0)
    (ha : normAxis axis t0.shape.length = some a) :
    concatenate (t0 :: rest) axis
      = .ok (ofFn (t0.shape.set a (t0.shape.getD a 0 * (rest.length + 1)))
          fun idx => concatVal (t0 :: rest) a idx) := by
  have h1 : (rest.all fun t => decide (t.shape.length = t0.shape.length)) = true := by
    rw [List.all_eq_true]; intro t ht; simp [hsh t ht]
  have h2 : (rest.all fun t => decide (t.shape.set a 0 = t0.shape.set a 0)) = true := by
    rw [List.all_eq_true]; intro t ht; simp [hsh t ht]
  have h3 : ((t0 :: rest).map fun t => t.shape.getD a 0).sum = t0.shape.getD a 0 * (rest.length + 1) := by
    have := sum_map_const (fun t : Tensor α => t.shape.getD a 0) (t0.shape.getD a 0) (t0 :: rest)
      (by intro t ht; rcases List.mem_cons.1 ht with h | h
          · rw [h]
          · show t.shape.getD a 0 = t0.shape.getD a 0
            rw [hsh t h])
    simpa using this
  simp only [concatenate, hr, if_false, h1, if_true, ha, h2, h3]

theorem concatenate_axisErr [Inhabited α] (t0 : Tensor α) (rest : List (Tensor α)) (axis : Int)
    (hsh : ∀ t ∈ rest, t.shape = t0.shape) (hr : t0.shape.length ≠ 0)
    (ha : normAxis axis t0.shape.length = none) :
    concatenate (t0 :: rest) axis = .error .axisErr := by
  have h1 : (rest.all fun t => decide (t.shape.length = t0.shape.length)) = true := by
    rw [List.all_eq_true]; intro t ht; simp [hsh t ht]
  simp only [concatenate, hr, if_false, h1, if_true, ha]

theorem stack_uniform [Inhabited α] (t0 : Tensor α) (rest : List (Tensor α)) (axis : Int) (a : Nat)
    (hsh : ∀ t ∈ rest, t.shape = t0.shape) (ha : normAxis axis (t0.shape.length + 1) = some a) :
    stack (t0 :: rest) axis
      = .ok (ofFn (t0.shape.insertIdx a (rest.length + 1)) fun idx =>
          ((t0 :: rest).getD (idx.getD a 0) t0).val (idx.eraseIdx a)) := by
  have h1 : (rest.all fun t => decide (t.shape = t0.shape)) = true := by
    rw [List.all_eq_true]; intro t ht; simp [hsh t ht]
  simp only [stack, h1, if_true, ha, List.length_cons]

theorem stack_axisErr [Inhabited α] (t0 : Tensor α) (rest : List (Tensor α)) (axis : Int)
    (hsh : ∀ t ∈ rest, t.shape = t0.shape) (ha : normAxis axis (t0.shape.length + 1) = none) :
    stack (t0 :: rest) axis = .error .axisErr := by
  have h1 : (rest.all fun t => decide (t.shape = t0.shape)) = true := by
    rw [List.all_eq_true]; intro t ht; simp [hsh t ht]
  simp only [stack, h1, if_true, ha]

/-- an index valid for `shape.insertIdx a n` splits into a coordinate `< n` and an index valid for
`shape` -/
theorem valid_insertIdx {shape idx : List Nat} {a n : Nat} (ha : a ≤ shape.length)
    (h : valid (shape.insertIdx a n) idx = true) :
    idx.getD a 0 < n ∧ valid shape (idx.eraseIdx a) = true := by
  rw [valid_iff] at h
  obtain ⟨hl, hp⟩ := h
  have hlen : (shape.insertIdx a n).length = shape.length + 1 := by
    rw [List.length_insertIdx]; simp [ha]
  rw [hlen] at hl hp
  constructor
  · have := hp a (by omega)
    simpa [List.getD_eq_getElem?_getD, List.getElem?_insertIdx, ha] using this
  · rw [valid_iff]
    refine ⟨by rw [List.length_eraseIdx]; simp [hl]; omega, ?_⟩
    intro b hb
    simp only [List.getD_eq_getElem?_getD, List.getElem?_eraseIdx]
    by_cases hba : b < a
    · have := hp b (by omega)
      simpa [List.getD_eq_getElem?_getD, List.getElem?_insertIdx, hba] using this
    · have := hp (b + 1) (by omega)
      have h1 : ¬ (b + 1 < a) := by omega
      have h2 : ¬ (b + 1 = a) := by omega
      simpa [List.getD_eq_getElem?_getD, List.getElem?_insertIdx, hba, h1, h2] using this

theorem valid_insertIdx_mk {shape idx : List Nat} {a n v : Nat} (ha : a ≤ shape.length)
    (h : valid shape idx = true) (hv : v < n) :
    valid (shape.insertIdx a n) (idx.insertIdx a v) = true := by
  rw [valid_iff] at h ⊢
  obtain ⟨hl, hp⟩ := h
  have hlen : (shape.insertIdx a n).length = shape.length + 1 := by
    rw [List.length_insertIdx]; simp [ha]
  have hlen' : (idx.insertIdx a v).length = idx.length + 1 := by
    rw [List.length_insertIdx]; simp [hl, ha]
  refine ⟨by omega, ?_⟩
  intro b hb
  rw [hlen] at hb
  simp only [List.getD_eq_getElem?_getD, List.getElem?_insertIdx]
  by_cases hba : b < a
  · simpa [hba, List.getD_eq_getElem?_getD] using hp b (by omega)
  · by_cases hbe : b = a
    · subst hbe; simp [hl, ha, hv]
    · have := hp (b - 1) (by omega)
      simpa [hba, hbe, List.getD_eq_getElem?_getD] using this

theorem getD_irrel {β : Type} (l : List β) (n : Nat) (a b : β) (h : n < l.length) :
    l.getD n a = l.getD n b := by
  simp [List.getD_eq_getElem?_getD, List.getElem?_eq_getElem h]

theorem concatenate_uniform' [Inhabited α] (ts : List (Tensor α)) (sh : List Nat) (axis : Int) (a : Nat)
    (hne : ts ≠ []) (hsh : ∀ t ∈ ts, t.shape = sh) (hr : sh.length ≠ 0)
    (ha : normAxis axis sh.length = some a) :
    concatenate ts axis
      = .ok (ofFn (sh.set a (sh.getD a 0 * ts.length)) fun idx => concatVal ts a idx) := by
  cases ts with
  | nil => exact absurd rfl hne
  | cons t0 rest =>
    have h0 : t0.shape = sh := hsh t0 (by simp)
    subst h0
    exact concatenate_uniform t0 rest axis a (fun t ht => hsh t (by simp [ht])) hr ha

theorem sliceLen_strided (i nT n len : Nat) (hi : i < n) (hle : nT * n ≤ len) :
    sliceLen i (nT * n) n len = nT := by
  unfold sliceLen
  simp only [Nat.min_eq_left hle]
  by_cases h : i < nT * n
  · simp only [h, if_true]
    have : nT * n - i + n - 1 = n * nT + (n - 1 - i) := by
      rw [Nat.mul_comm n nT]; omega
    rw [this, Nat.mul_add_div (by omega), Nat.div_eq_of_lt (by omega), Nat.add_zero]
  · simp only [h, if_false]
    rcases Nat.eq_zero_or_pos nT with h0 | h0
    · exact h0.symm
    · exfalso
      have : n ≤ nT * n := Nat.le_mul_of_pos_left n h0
      omega

theorem sliceLen_prefix (T len : Nat) (hle : T ≤ len) : sliceLen 0 T 1 len = T := by
  unfold sliceLen
  simp only [Nat.min_eq_left hle]
  by_cases h : 0 < T
  · simp [h]
  · simp [h]; omega

theorem copy_eq (t : Tensor α) : t.copy = t := rfl

theorem numel_eq_zero_of_getD : ∀ (shape : List Nat) (a : Nat), a < shape.length → shape.getD a 0 = 0 →
    numel shape = 0
  | [], _, h, _ => by simp at h
  | s :: ss, 0, _, h0 => by
    simp only [List.getD_cons_zero] at h0
    simp [numel, h0]
  | s :: ss, a + 1, h, h0 => by
    simp only [List.getD_cons_succ] at h0
    have := numel_eq_zero_of_getD ss a (by simpa using h) h0
    simp [numel, this]

end PdsVerif.Model.Tensor

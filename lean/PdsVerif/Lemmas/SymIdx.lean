/- closed forms of `symIdx` (np.pad 'symmetric') on the ranges the STFT code reaches -/
import PdsVerif.Model.Stft
namespace PdsVerif.SymIdx
open PdsVerif.Model.Stft

theorem symIdx_mid (n : Nat) (p : Int) (h0 : 0 ≤ p) (h1 : p < n) : symIdx n p = p.toNat := by
  unfold symIdx
  have : p % (2 * (n:Int)) = p := Int.emod_eq_of_lt h0 (by omega)
  simp only [this]
  have : p.toNat < n := by omega
  simp [this]

theorem symIdx_left (n : Nat) (p : Int) (h0 : -(n:Int) ≤ p) (h1 : p < 0) :
    symIdx n p = (-1 - p).toNat := by
  unfold symIdx
  have e : p % (2 * (n:Int)) = p + 2 * n := by
    rw [← Int.add_emod_right]; exact Int.emod_eq_of_lt (by omega) (by omega)
  simp only [e]
  have : ¬ (p + 2 * (n:Int)).toNat < n := by omega
  simp only [this, if_false]
  omega

theorem symIdx_right (n : Nat) (p : Int) (h0 : (n:Int) ≤ p) (h1 : p < 2 * n) :
    symIdx n p = (2 * (n:Int) - 1 - p).toNat := by
  unfold symIdx
  have : p % (2 * (n:Int)) = p := Int.emod_eq_of_lt (by omega) (by omega)
  simp only [this]
  have : ¬ p.toNat < n := by omega
  simp only [this, if_false]
  omega

theorem symIdx_right2 (n : Nat) (p : Int) (h0 : 2 * (n:Int) ≤ p) (h1 : p < 3 * n) :
    symIdx n p = (p - 2 * n).toNat := by
  unfold symIdx
  have e : p % (2 * (n:Int)) = p - 2 * n := by
    rw [← Int.sub_emod_right]; exact Int.emod_eq_of_lt (by omega) (by omega)
  simp only [e]
  have : (p - 2 * (n:Int)).toNat < n := by omega
  simp [this]

theorem symIdx_lt (n : Nat) (p : Int) (hn : 0 < n) : symIdx n p < n := by
  unfold symIdx
  have h0 : 0 ≤ p % (2 * (n:Int)) := Int.emod_nonneg _ (by omega)
  have h1 : p % (2 * (n:Int)) < 2 * n := Int.emod_lt_of_pos _ (by omega)
  simp only
  split <;> omega

end PdsVerif.SymIdx

/-
  Helper lemmas for C06: floor/ceil characterisations, Python indexing, write sequences, slices.
-/
import PdsVerif.Model.BankIndex
import Mathlib.Tactic

namespace PdsVerif.BankIndexLemmas
open PdsVerif.Model.BankIndex

/-! ## ceil / floor / trunc of an exact quotient -/

theorem ceilDiv_le_iff {a b : Int} (hb : 0 < b) (k : Int) : ceilDiv a b ≤ k ↔ a ≤ k * b := by
  unfold ceilDiv
  constructor
  · intro h
    have : -k ≤ (-a) / b := by omega
    have := (Int.le_ediv_iff_mul_le hb).mp this
    linarith
  · intro h
    have : -k ≤ (-a) / b := (Int.le_ediv_iff_mul_le hb).mpr (by linarith)
    omega

theorem lt_ceilDiv_iff {a b : Int} (hb : 0 < b) (k : Int) : k < ceilDiv a b ↔ k * b < a := by
  have := ceilDiv_le_iff (a := a) hb k
  constructor
  · intro h; by_contra hc; exact absurd (this.mpr (by linarith)) (by omega)
  · intro h; by_contra hc; have := this.mp (by omega); linarith

theorem truncDiv_nonneg_eq {a b : Int} (ha : 0 ≤ a) : truncDiv a b = a / b := by
  unfold truncDiv; exact Int.tdiv_eq_ediv_of_nonneg ha

theorem le_truncDiv_iff {a b : Int} (ha : 0 ≤ a) (hb : 0 < b) (k : Int) :
    k ≤ truncDiv a b ↔ k * b ≤ a := by
  rw [truncDiv_nonneg_eq ha]; exact Int.le_ediv_iff_mul_le hb

theorem truncDiv_lt_iff {a b : Int} (ha : 0 ≤ a) (hb : 0 < b) (k : Int) :
    truncDiv a b < k ↔ a < k * b := by
  rw [truncDiv_nonneg_eq ha]; exact Int.ediv_lt_iff_lt_mul hb

/-! ## `halfLen` -/

theorem halfLen_eq (W : Nat) : halfLen W = W / 2 + 1 := by
  unfold halfLen; split <;> omega

theorem halfLenDoc_eq (W : Nat) : halfLenDoc W = W / 2 + 1 := by
  unfold halfLenDoc; omega

/-! ## `range(a, b)` -/

theorem mem_intRange {a b i : Int} : i ∈ intRange a b ↔ a ≤ i ∧ i < b := by
  unfold intRange
  simp only [List.mem_map, List.mem_range]
  constructor
  · rintro ⟨k, hk, rfl⟩; omega
  · intro h; exact ⟨(i - a).toNat, by omega, by omega⟩

theorem intRange_length (a b : Int) : (intRange a b).length = (b - a).toNat := by
  simp [intRange]

theorem intRange_getElem? (a b : Int) (k : Nat) (hk : k < (b - a).toNat) :
    (intRange a b)[k]? = some (a + k) := by
  simp [intRange, List.getElem?_range hk]

/-! ## Python indices -/

theorem pyIdx_nonneg {n : Nat} {i : Int} (h0 : 0 ≤ i) (h1 : i < n) : pyIdx n i = some i.toNat := by
  simp [pyIdx, h0, h1]

theorem pyIdx_neg {n : Nat} {i : Int} (h0 : 0 < i) (h1 : i ≤ n) : pyIdx n (-i) = some (n - i.toNat) := by
  unfold pyIdx
  have h2 : ¬ (0 ≤ -i ∧ -i < (n : Int)) := by omega
  have h3 : -(n : Int) ≤ -i ∧ -i < 0 := by omega
  simp only [h2, h3, if_false, and_self, if_true]
  congr 1; omega

theorem pyIdx_lt {n : Nat} {i : Int} {k : Nat} (h : pyIdx n i = some k) : k < n := by
  unfold pyIdx at h
  split at h
  · cases h; omega
  · split at h
    · cases h; omega
    · cases h

/-! ## sequences of writes -/

variable {α : Type}

/-- what a sequence of in-range writes leaves in the array: a bin nobody wrote keeps its value; a bin
all of whose writes carry the same value `v` (and there is one) holds `v`. -/
theorem applyWrites_spec (ws : List (Int × α)) :
    ∀ (xs : List α), (∀ w ∈ ws, ∃ k, pyIdx xs.length w.1 = some k) →
    ∃ ys, applyWrites xs ws = some ys ∧ ys.length = xs.length ∧
      ∀ k, ((∀ w ∈ ws, pyIdx xs.length w.1 ≠ some k) → ys[k]? = xs[k]?) ∧
        (∀ v, (∀ w ∈ ws, pyIdx xs.length w.1 = some k → w.2 = v) →
          (∃ w ∈ ws, pyIdx xs.length w.1 = some k) → ys[k]? = some v) := by
  induction ws with
  | nil => intro xs _; exact ⟨xs, rfl, rfl, fun k => ⟨fun _ => rfl, fun v _ h => by simp at h⟩⟩
  | cons w ws ih =>
    intro xs hin
    obtain ⟨i, v⟩ := w
    obtain ⟨k0, hk0⟩ := hin (i, v) (by simp)
    have hk0lt := pyIdx_lt hk0
    have hlen : (xs.set k0 v).length = xs.length := by simp
    obtain ⟨ys, hys, hyl, hspec⟩ := ih (xs.set k0 v) (by
      intro w hw; rw [hlen]; exact hin w (List.mem_cons_of_mem _ hw))
    refine ⟨ys, ?_, by rw [hyl, hlen], ?_⟩
    · simp only [applyWrites, pySet]
      simp only [hk0] at *
      simpa using hys
    · intro k
      rw [hlen] at hspec
      obtain ⟨hs1, hs2⟩ := hspec k
      constructor
      · intro hno
        have hne : k0 ≠ k := by
          intro e; exact hno (i, v) (by simp) (by simpa [e] using hk0)
        rw [hs1 (fun w hw => hno w (List.mem_cons_of_mem _ hw))]
        simp [hne]
      · intro u hall hex
        by_cases htail : ∃ w ∈ ws, pyIdx xs.length w.1 = some k
        · exact hs2 u (fun w hw => hall w (List.mem_cons_of_mem _ hw)) htail
        · have hno : ∀ w ∈ ws, pyIdx xs.length w.1 ≠ some k := by
            intro w hw e; exact htail ⟨w, hw, e⟩
          rw [hs1 hno]
          obtain ⟨w, hw, hwk⟩ := hex
          rcases List.mem_cons.mp hw with rfl | hw'
          · have e : k0 = k := by simpa [hk0] using hwk
            have hv : v = u := hall (i, v) (by simp) hwk
            subst e; subst hv
            simp [hk0lt]
          · exact absurd hwk (hno w hw')

/-! ## slices -/

theorem normBound_nonneg_le {n : Nat} {i : Int} (h0 : 0 ≤ i) (h1 : i ≤ n) : normBound n i = i.toNat := by
  unfold normBound
  have : ¬ i < 0 := by omega
  simp only [this, if_false]; omega

theorem normBound_ge {n : Nat} {i : Int} (h1 : (n : Int) ≤ i) : normBound n i = n := by
  unfold normBound
  have : ¬ i < 0 := by omega
  simp only [this, if_false]; omega

/-- a well-shaped slice assignment -/
theorem setSlice_eq (xs src : List α) (i j : Int) (a : Nat)
    (hi : normBound xs.length i = a) (hj : normBound xs.length j = a + src.length) :
    setSlice xs i j src = some (xs.take a ++ src ++ xs.drop (a + src.length)) := by
  unfold setSlice
  simp only [hi, hj]
  have : src.length = a + src.length - a := by omega
  simp only [← this, if_true]

/-- reading a spliced array -/
theorem splice_getElem? (xs src : List α) (a k : Nat) (h : a + src.length ≤ xs.length) :
    (xs.take a ++ src ++ xs.drop (a + src.length))[k]? =
      if k < a then xs[k]? else if k < a + src.length then src[k - a]? else xs[k]? := by
  have hl : (xs.take a).length = a := by simp; omega
  rw [List.append_assoc, List.getElem?_append, hl]
  split
  · rename_i h1; simp [h1]
  · rename_i h1
    rw [List.getElem?_append]
    split
    · rename_i h2
      have : k < a + src.length := by omega
      simp [this]
    · rename_i h2
      have : ¬ k < a + src.length := by omega
      simp only [this, if_false, List.getElem?_drop]
      congr 1; omega

theorem splice_length (xs src : List α) (a : Nat) (h : a + src.length ≤ xs.length) :
    (xs.take a ++ src ++ xs.drop (a + src.length)).length = xs.length := by
  simp; omega


/-! ## the compact banks' indices -/

/-- what the constructors guarantee about a filter's edges, as exact fractions of the sampling rate,
with the slack float round-off of the vertices needs (`scale_to_hertz(hertz_to_scale(f))` may miss
`0` or the Nyquist by an ulp): `low ≤ high`, `low ≤ 1/2`, `0 ≤ high`,
`-1 < W·low` (`low ≥ 0` up to round-off) and `W·(high − 1/2) < 1/2` (`high ≤ Nyquist` up to
round-off); and a DFT of at least two bins.  `CompactOK.of_exact` : `0 ≤ low ≤ high ≤ 1/2` suffices. -/
structure CompactOK (W : Nat) (lo hi : Frac) : Prop where
  hW : 2 ≤ W
  lden : 0 < lo.den
  hden : 0 < hi.den
  lo0 : -lo.den < (W : Int) * lo.num
  hi0 : 0 ≤ hi.num
  lohi : lo.num * hi.den ≤ hi.num * lo.den
  loNy : 2 * lo.num ≤ lo.den
  hiNy : (W : Int) * (2 * hi.num - hi.den) < hi.den

/-- exact edges `0 ≤ low ≤ high ≤ Nyquist` satisfy `CompactOK` for every width `W ≥ 2` -/
theorem CompactOK.of_exact {W : Nat} {lo hi : Frac} (hW : 2 ≤ W) (lden : 0 < lo.den) (hden : 0 < hi.den)
    (lo0 : 0 ≤ lo.num) (lohi : lo.num * hi.den ≤ hi.num * lo.den) (hiNy : 2 * hi.num ≤ hi.den) :
    CompactOK W lo hi := by
  have hi0 : 0 ≤ hi.num := by
    have h1 : 0 ≤ lo.num * hi.den := mul_nonneg lo0 hden.le
    have h2 : 0 ≤ hi.num * lo.den := le_trans h1 lohi
    by_contra hc
    have : hi.num * lo.den < 0 := mul_neg_of_neg_of_pos (by omega) lden
    omega
  have loNy : 2 * lo.num ≤ lo.den := by
    by_contra hc
    have hc : lo.den < 2 * lo.num := by omega
    have : lo.den * hi.den < 2 * lo.num * hi.den := mul_lt_mul_of_pos_right hc hden
    have : 2 * hi.num * lo.den ≤ hi.den * lo.den := mul_le_mul_of_nonneg_right hiNy lden.le
    nlinarith
  have hWp : (0 : Int) ≤ (W : Int) := by omega
  refine ⟨hW, lden, hden, ?_, hi0, lohi, loNy, ?_⟩
  · have : 0 ≤ (W : Int) * lo.num := mul_nonneg hWp lo0
    omega
  · have : (W : Int) * (2 * hi.num - hi.den) ≤ 0 := mul_nonpos_of_nonneg_of_nonpos hWp (by omega)
    omega

theorem compact_idx {W lo hi} (h : CompactOK W lo hi) :
    0 ≤ leftIdx W lo ∧ leftIdx W lo < W ∧ leftIdx W lo ≤ rightIdx W hi + 1 ∧
    0 ≤ rightIdx W hi ∧ 2 * rightIdx W hi ≤ W ∧ 2 * leftIdx W lo ≤ W + 1 ∧
    assertsOk W lo hi (leftIdx W lo) (rightIdx W hi) = true := by
  have hW := h.hW; have hld := h.lden; have hhd := h.hden; have hl0 := h.lo0
  have hh0 := h.hi0; have hlh := h.lohi; have hny := h.hiNy; have hlny := h.loNy
  have hWp : (0:Int) ≤ (W:Int) := by omega
  have hB : 0 ≤ (W:Int) * hi.num := mul_nonneg hWp hh0
  unfold leftIdx rightIdx
  set L := ceilDiv ((W:Int) * lo.num) lo.den with hL
  set R := truncDiv ((W:Int) * hi.num) hi.den with hR
  have hL1 : (L - 1) * lo.den < (W:Int) * lo.num := (lt_ceilDiv_iff hld (L-1)).mp (by omega)
  have hL2 : (W:Int) * lo.num ≤ L * lo.den := (ceilDiv_le_iff hld L).mp (le_refl _)
  have hR1 : R * hi.den ≤ (W:Int) * hi.num := (le_truncDiv_iff hB hhd R).mp (le_refl _)
  have hR2 : (W:Int) * hi.num < (R + 1) * hi.den := (truncDiv_lt_iff hB hhd (R+1)).mp (by omega)
  have c1 : 0 ≤ L := by
    have : (-1 : Int) < L := (lt_ceilDiv_iff hld (-1)).mpr (by linarith)
    omega
  have c2 : L < W := by
    have : L ≤ (W:Int) - 1 := (ceilDiv_le_iff hld _).mpr (by nlinarith)
    omega
  have c3 : L ≤ R + 1 := by
    apply (ceilDiv_le_iff hld _).mpr
    -- A·e ≤ B·d < (R+1)·e·d
    have h1 : (W:Int) * lo.num * hi.den ≤ (W:Int) * hi.num * lo.den := by nlinarith
    have h2 : (W:Int) * hi.num * lo.den < (R + 1) * hi.den * lo.den := mul_lt_mul_of_pos_right hR2 hld
    have h3 : (W:Int) * lo.num * hi.den < (R + 1) * lo.den * hi.den := by nlinarith
    exact le_of_lt (lt_of_mul_lt_mul_right h3 hhd.le)
  have c4 : 0 ≤ R := (le_truncDiv_iff hB hhd 0).mpr (by simpa using hB)
  have c5 : 2 * R ≤ W := by
    have h1 : 2 * R * hi.den < ((W:Int) + 1) * hi.den := by nlinarith
    have := lt_of_mul_lt_mul_right h1 hhd.le
    omega
  have c6 : 2 * L ≤ W + 1 := by
    have h1 : 2 * (L - 1) * lo.den < (W:Int) * lo.den := by nlinarith
    have := lt_of_mul_lt_mul_right h1 hld.le
    omega
  refine ⟨c1, c2, c3, c4, c5, c6, ?_⟩
  simp only [assertsOk, Bool.and_eq_true, decide_eq_true_eq]
  exact ⟨hL1.le, hR2.le⟩

end PdsVerif.BankIndexLemmas

/-
  Lemmas about the Deltas / Stack model (`Model/Post.lean`): the 1-D numeric core (correlate, convolve,
  pad, crop, the filter recursion, Kaldi's scales) and the N-D assembly (concatenate / stack of
  equally shaped parts, the strided and the reshape path of Stack).
-/
import PdsVerif.Model.Post
import PdsVerif.Lemmas.Tensor
import Mathlib.Algebra.BigOperators.Group.Finset.Basic
import Mathlib.Algebra.BigOperators.Ring.Finset
import Mathlib.Algebra.BigOperators.Intervals
import Mathlib.Algebra.Field.Basic
import Mathlib.Tactic.Ring
import Mathlib.Tactic.FieldSimp
import Mathlib.Tactic.Linarith

namespace PdsVerif.Model.Post
open Finset PdsVerif.Model PdsVerif.Model.Tensor

/-! ## 1-D numeric core -/
section Semiring
variable {α : Type} [Semiring α]

theorem dot_eq_sum : ∀ (xs ys : List α),
    dot xs ys = ∑ n ∈ range (min xs.length ys.length), xs.getD n 0 * ys.getD n 0
  | [], ys => by simp [dot]
  | x :: xs, [] => by simp [dot]
  | x :: xs, y :: ys => by
    have ih := dot_eq_sum xs ys
    simp only [dot, List.zipWith_cons_cons, List.sum_cons, List.length_cons] at ih ⊢
    rw [Nat.succ_min_succ, Finset.sum_range_succ', ih]
    simp [add_comm]

theorem getD_zpad (z1 z2 : Nat) (a : List α) (i : Nat) :
    (List.replicate z1 (0 : α) ++ a ++ List.replicate z2 0).getD i 0
      = if z1 ≤ i then a.getD (i - z1) 0 else 0 := by
  simp only [List.getD_eq_getElem?_getD, List.append_assoc]
  by_cases h : z1 ≤ i
  · simp only [h, if_true]
    rw [List.getElem?_append_right (by simpa using h)]
    simp only [List.length_replicate]
    by_cases h2 : i - z1 < a.length
    · rw [List.getElem?_append_left h2]
    · rw [List.getElem?_append_right (by omega), List.getElem?_replicate]
      have : a[i - z1]? = none := by simp; omega
      rw [this]
      split <;> simp
  · simp only [h, if_false]
    rw [List.getElem?_append_left (by simp; omega), List.getElem?_replicate]
    split <;> simp

@[simp] theorem correlateFull_length (a v : List α) :
    (correlateFull a v).length = a.length + v.length - 1 := by
  simp [correlateFull]

/-- `np.correlate(a, v, "full")[k] = Σ_n a[k - (len v - 1) + n] · v[n]` (zero outside `a`) -/
theorem correlateFull_getElem? (a v : List α) (k : Nat) (hk : k < a.length + v.length - 1) :
    (correlateFull a v)[k]? = some (∑ n ∈ range v.length,
      (if v.length - 1 ≤ k + n then a.getD (k + n - (v.length - 1)) 0 else 0) * v.getD n 0) := by
  unfold correlateFull
  simp only
  rw [List.getElem?_map, List.getElem?_range hk]
  simp only [Option.map_some, Option.some.injEq]
  rw [dot_eq_sum]
  have hmin : min (List.drop k (List.replicate (v.length - 1) (0 : α) ++ a
      ++ List.replicate (v.length - 1) 0)).length v.length = v.length := by
    simp only [List.length_drop, List.length_append, List.length_replicate]
    omega
  rw [hmin]
  apply Finset.sum_congr rfl
  intro n _
  congr 1
  rw [List.getD_eq_getElem?_getD, List.getElem?_drop, ← List.getD_eq_getElem?_getD, getD_zpad]

@[simp] theorem convolve_length (a v : List α) : (convolve a v).length = a.length + v.length - 1 := by
  simp [convolve]

/-- `np.convolve(a, v)[k] = Σ_u a[k-u] · v[u]` -/
theorem convolve_getElem? (a v : List α) (k : Nat) (hk : k < a.length + v.length - 1) :
    (convolve a v)[k]? = some (∑ u ∈ range v.length,
      (if u ≤ k then a.getD (k - u) 0 else 0) * v.getD u 0) := by
  unfold convolve
  rw [correlateFull_getElem? a v.reverse k (by simpa using hk)]
  simp only [List.length_reverse, Option.some.injEq]
  rw [← Finset.sum_range_reflect]
  apply Finset.sum_congr rfl
  intro n hn
  have hn' : n < v.length := by simpa using hn
  have hrev : v.reverse.getD (v.length - 1 - n) 0 = v.getD n 0 := by
    rw [List.getD_eq_getElem?_getD, List.getElem?_reverse (by omega), ← List.getD_eq_getElem?_getD]
    congr 1; omega
  rw [hrev]
  congr 1
  by_cases h : n ≤ k
  · have h1 : v.length - 1 ≤ k + (v.length - 1 - n) := by omega
    simp only [h, h1, if_true]
    congr 1; omega
  · have h1 : ¬ (v.length - 1 ≤ k + (v.length - 1 - n)) := by omega
    simp only [h, h1, if_false]

end Semiring

section Pad
variable {α : Type} [Inhabited α]

@[simp] theorem pad1_length (l r : Nat) (mode : PadMode α) (x : List α) :
    (pad1 l r mode x).length = l + x.length + r := by simp [pad1]

theorem pad1_getElem? (l r : Nat) (mode : PadMode α) (x : List α) (k : Nat) (hk : k < l + x.length + r) :
    (pad1 l r mode x)[k]? = some (ext l r mode x ((k : Int) - (l : Int))) := by
  unfold pad1
  rw [List.getElem?_map, List.getElem?_range hk]
  rfl

omit [Inhabited α] in
/-- the crop `full[len(filt)-1 : -len(filt)+1]` for `len(filt) = 2m+1`, `m ≥ 1` -/
theorem pySlice_crop (xs : List α) (m : Nat) (hm : 1 ≤ m) (hlen : 2 * m ≤ xs.length) :
    pySlice xs (((2 * m + 1 : Nat) : Int) - 1) (-((2 * m + 1 : Nat) : Int) + 1)
      = (xs.drop (2 * m)).take (xs.length - 4 * m) := by
  unfold pySlice pyBound
  have h1 : ¬ ((((2 * m + 1 : Nat) : Int) - 1) < 0) := by omega
  have h2 : (-((2 * m + 1 : Nat) : Int) + 1) < 0 := by omega
  simp only [h1, h2, if_false, if_true]
  have e1 : min ((((2 * m + 1 : Nat) : Int) - 1).toNat) xs.length = 2 * m := by omega
  have e2 : ((-((2 * m + 1 : Nat) : Int) + 1) + (xs.length : Int)).toNat = xs.length - 2 * m := by omega
  rw [e1, e2]
  congr 1
  omega

end Pad

section Delta1d
variable {α : Type} [CommSemiring α] [Inhabited α]

theorem delta1d_length (filt : List α) (mode : PadMode α) (cast : α → α) (x : List α) (m : Nat)
    (hL : filt.length = 2 * m + 1) (hm : 1 ≤ m) :
    (Deltas.delta1d filt mode cast x).length = x.length := by
  unfold Deltas.delta1d
  simp only [hL, show (2 * m + 1 - 1) / 2 = m by omega]
  rw [pySlice_crop _ m hm (by simp [hL])]
  simp [hL]
  omega

/-- one output sample of the inner loop: pad, correlate "full", crop and cast collapse to
`cast (Σ_j filt[j] · ext(x)(t + j - m))` -/
theorem delta1d_getElem? (filt : List α) (mode : PadMode α) (cast : α → α) (x : List α) (m t : Nat)
    (hL : filt.length = 2 * m + 1) (hm : 1 ≤ m) (ht : t < x.length) :
    (Deltas.delta1d filt mode cast x)[t]? = some (cast (∑ j ∈ range (2 * m + 1),
      filt.getD j 0 * ext m m mode x ((t : Int) + (j : Int) - (m : Int)))) := by
  unfold Deltas.delta1d
  simp only [hL, show (2 * m + 1 - 1) / 2 = m by omega]
  rw [pySlice_crop _ m hm (by simp [hL])]
  rw [List.getElem?_map, List.getElem?_take]
  have hlen : (correlateFull (pad1 m m mode x) filt).length = x.length + 4 * m := by
    simp [hL]; omega
  rw [if_pos (by omega), List.getElem?_drop,
    correlateFull_getElem? _ _ _ (by simp [hL]; omega)]
  simp only [Option.map_some, Option.some.injEq, hL]
  congr 1
  apply Finset.sum_congr rfl
  intro j hj
  have hj' : j < 2 * m + 1 := by simpa using hj
  have h1 : 2 * m + 1 - 1 ≤ 2 * m + t + j := by omega
  rw [if_pos h1, mul_comm]
  congr 1
  rw [List.getD_eq_getElem?_getD, pad1_getElem? _ _ _ _ _ (by omega)]
  simp only [Option.getD_some]
  congr 1
  omega

end Delta1d

/-! ## the filter recursion -/
section Filters
variable {α : Type} [Field α]

@[simp] theorem baseFilter_length (W : Nat) : (Deltas.baseFilter (α := α) W).length = 1 + 2 * W := by
  simp [Deltas.baseFilter]

theorem baseFilter_getD (W u : Nat) (hu : u < 1 + 2 * W) :
    (Deltas.baseFilter (α := α) W).getD u 0
      = ((u : α) - (W : α)) /
        ((List.range (1 + 2 * W)).map fun (k : Nat) => ((k : α) - (W : α)) * ((k : α) - (W : α))).sum := by
  unfold Deltas.baseFilter
  simp only [List.getD_eq_getElem?_getD, List.getElem?_map, List.getElem?_range hu, List.map_map]
  rfl

/-- the `d`-th filter has `2·d·W + 1` taps -/
theorem filt_length (W : Nat) : ∀ d, (Deltas.filt (α := α) W d).length = 2 * d * W + 1
  | 0 => by simp [Deltas.filt]
  | d + 1 => by
    simp only [Deltas.filt, convolve_length, baseFilter_length, filt_length W d]
    ring_nf
    omega

/-- the list built by `__init__`'s loop is `[filt 0, …, filt D]` -/
theorem filts_eq (W : Nat) : ∀ D, Deltas.filts (α := α) W D = (List.range (D + 1)).map (Deltas.filt W)
  | 0 => by simp [Deltas.filts, Deltas.filt]
  | D + 1 => by
    have ih := filts_eq W D
    unfold Deltas.filts at ih ⊢
    rw [List.range_succ, List.foldl_append, ih]
    simp only [List.foldl_cons, List.foldl_nil]
    have hD : ((List.range (D + 1)).map (Deltas.filt (α := α) W)).getD D [] = Deltas.filt W D := by
      simp [List.getD_eq_getElem?_getD, List.getElem?_map, List.getElem?_range (Nat.lt_succ_self D)]
    rw [hD]
    conv_rhs => rw [List.range_succ, List.map_append]
    simp [Deltas.filt]

theorem filts_drop_one (W D : Nat) :
    (Deltas.filts (α := α) W D).drop 1 = (List.range D).map fun d => Deltas.filt W (d + 1) := by
  rw [filts_eq, List.range_succ_eq_map]
  simp [List.map_map, Function.comp_def]

/-- Kaldi's constructor step is the code's `np.convolve(prev, delta_filter)` (normalising the window
first or the result afterwards is the same) -/
theorem nextScales_eq_convolve (W : Nat) (prev : List α) (hp : 1 ≤ prev.length) :
    Kaldi.nextScales W prev = convolve prev (Deltas.baseFilter W) := by
  apply List.ext_getElem?
  intro n
  by_cases hn : n < prev.length + 2 * W
  · rw [convolve_getElem? _ _ _ (by simp; omega)]
    unfold Kaldi.nextScales
    rw [List.getElem?_map, List.getElem?_range hn]
    simp only [Option.map_some, Option.some.injEq, baseFilter_length]
    have hsum : ∀ (f : Nat → α) (N : Nat), ((List.range N).map f).sum = ∑ u ∈ range N, f u := by
      intro f N
      induction N with
      | zero => simp
      | succ N ih => rw [List.range_succ, List.map_append, List.sum_append, ih, Finset.sum_range_succ]; simp
    rw [hsum, Finset.sum_mul, show 2 * W + 1 = 1 + 2 * W by omega]
    apply Finset.sum_congr rfl
    intro u hu
    have hu' : u < 1 + 2 * W := by simpa using hu
    rw [baseFilter_getD W u hu']
    by_cases h1 : u ≤ n
    · by_cases h2 : n - u < prev.length
      · simp only [h1, h2, and_self, if_true, Nat.cast_one]
        rw [show 1 + 2 * W = 2 * W + 1 by omega]
        ring
      · have : prev.getD (n - u) 0 = 0 := by
          rw [List.getD_eq_getElem?_getD, List.getElem?_eq_none (by omega)]; rfl
        simp [h1, h2, this]
    · simp [h1]
  · have h1 : (Kaldi.nextScales W prev)[n]? = none := by
      apply List.getElem?_eq_none; simp [Kaldi.nextScales]; omega
    have h2 : (convolve prev (Deltas.baseFilter W))[n]? = none := by
      apply List.getElem?_eq_none; simp; omega
    rw [h1, h2]

/-- the code's filters are Kaldi's scales, for every order and window -/
theorem scales_eq_filt (W : Nat) : ∀ d, Kaldi.scales (α := α) W d = Deltas.filt W d
  | 0 => rfl
  | d + 1 => by
    simp only [Kaldi.scales, Deltas.filt, scales_eq_filt W d]
    exact nextScales_eq_convolve W _ (by rw [filt_length]; omega)

end Filters

end PdsVerif.Model.Post

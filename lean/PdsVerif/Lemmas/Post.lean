/-
  Lemmas about the Deltas / Stack model (`Model/Post.lean`): the 1-D numeric core (correlate, convolve,
  pad, crop, the filter recursion, Kaldi's scales) and the N-D assembly (concatenate / stack of
  equally shaped parts, the strided and the reshape path of Stack).
-/
import PdsVerif.Model.Post
import PdsVerif.Lemmas.Tensor
import Mathlib.Algebra.BigOperators.Group.Finset.Basic
import Mathlib.Algebra.BigOperators.Ring.Finset
import Mathlib.Algebra.BigOperators.Intervals
import Mathlib.Algebra.Field.Basic
import Mathlib.Tactic.Ring
import Mathlib.Tactic.FieldSimp
import Mathlib.Tactic.Linarith

namespace PdsVerif.Model.Post
open Finset PdsVerif.Model PdsVerif.Model.Tensor

/-! ## 1-D numeric core -/
section Semiring
variable {α : Type} [Semiring α]

theorem dot_eq_sum : ∀ (xs ys : List α),
    dot xs ys = ∑ n ∈ range (min xs.length ys.length), xs.getD n 0 * ys.getD n 0
  | [], ys => by simp [dot]
  | x :: xs, [] => by simp [dot]
  | x :: xs, y :: ys => by
    have ih := dot_eq_sum xs ys
    simp only [dot, List.zipWith_cons_cons, List.sum_cons, List.length_cons] at ih ⊢
    rw [Nat.succ_min_succ, Finset.sum_range_succ', ih]
    simp [add_comm]

theorem getD_zpad (z1 z2 : Nat) (a : List α) (i : Nat) :
    (List.replicate z1 (0 : α) ++ a ++ List.replicate z2 0).getD i 0
      = if z1 ≤ i then a.getD (i - z1) 0 else 0 := by
  simp only [List.getD_eq_getElem?_getD, List.append_assoc]
  by_cases h : z1 ≤ i
  · simp only [h, if_true]
    rw [List.getElem?_append_right (by simpa using h)]
    simp only [List.length_replicate]
    by_cases h2 : i - z1 < a.length
    · rw [List.getElem?_append_left h2]
    · rw [List.getElem?_append_right (by omega), List.getElem?_replicate]
      have : a[i - z1]? = none := by simp; omega
      rw [this]
      split <;> simp
  · simp only [h, if_false]
    rw [List.getElem?_append_left (by simp; omega), List.getElem?_replicate]
    split <;> simp

@[simp] theorem correlateFull_length (a v : List α) :
    (correlateFull a v).length = a.length + v.length - 1 := by
  simp [correlateFull]

/-- `np.correlate(a, v, "full")[k] = Σ_n a[k - (len v - 1) + n] · v[n]` (zero outside `a`) -/
theorem correlateFull_getElem? (a v : List α) (k : Nat) (hk : k < a.length + v.length - 1) :
    (correlateFull a v)[k]? = some (∑ n ∈ range v.length,
      (if v.length - 1 ≤ k + n then a.getD (k + n - (v.length - 1)) 0 else 0) * v.getD n 0) := by
  unfold correlateFull
  simp only
  rw [List.getElem?_map, List.getElem?_range hk]
  simp only [Option.map_some, Option.some.injEq]
  rw [dot_eq_sum]
  have hmin : min (List.drop k (List.replicate (v.length - 1) (0 : α) ++ a
      ++ List.replicate (v.length - 1) 0)).length v.length = v.length := by
    simp only [List.length_drop, List.length_append, List.length_replicate]
    omega
  rw [hmin]
  apply Finset.sum_congr rfl
  intro n _
  congr 1
  rw [List.getD_eq_getElem?_getD, List.getElem?_drop, ← List.getD_eq_getElem?_getD, getD_zpad]

@[simp] theorem convolve_length (a v : List α) : (convolve a v).length = a.length + v.length - 1 := by
  simp [convolve]

/-- `np.convolve(a, v)[k] = Σ_u a[k-u] · v[u]` -/
theorem convolve_getElem? (a v : List α) (k : Nat) (hk : k < a.length + v.length - 1) :
    (convolve a v)[k]? = some (∑ u ∈ range v.length,
      (if u ≤ k then a.getD (k - u) 0 else 0) * v.getD u 0) := by
  unfold convolve
  rw [correlateFull_getElem? a v.reverse k (by simpa using hk)]
  simp only [List.length_reverse, Option.some.injEq]
  rw [← Finset.sum_range_reflect]
  apply Finset.sum_congr rfl
  intro n hn
  have hn' : n < v.length := by simpa using hn
  have hrev : v.reverse.getD (v.length - 1 - n) 0 = v.getD n 0 := by
    rw [List.getD_eq_getElem?_getD, List.getElem?_reverse (by omega), ← List.getD_eq_getElem?_getD]
    congr 1; omega
  rw [hrev]
  congr 1
  by_cases h : n ≤ k
  · have h1 : v.length - 1 ≤ k + (v.length - 1 - n) := by omega
    simp only [h, h1, if_true]
    congr 1; omega
  · have h1 : ¬ (v.length - 1 ≤ k + (v.length - 1 - n)) := by omega
    simp only [h, h1, if_false]

end Semiring

section Pad
variable {α : Type} [Inhabited α]

@[simp] theorem pad1_length (l r : Nat) (mode : PadMode α) (x : List α) :
    (pad1 l r mode x).length = l + x.length + r := by simp [pad1]

theorem pad1_getElem? (l r : Nat) (mode : PadMode α) (x : List α) (k : Nat) (hk : k < l + x.length + r) :
    (pad1 l r mode x)[k]? = some (ext l r mode x ((k : Int) - (l : Int))) := by
  unfold pad1
  rw [List.getElem?_map, List.getElem?_range hk]
  rfl

omit [Inhabited α] in
/-- the crop `full[len(filt)-1 : -len(filt)+1]` for `len(filt) = 2m+1`, `m ≥ 1` -/
theorem pySlice_crop (xs : List α) (m : Nat) (hm : 1 ≤ m) (hlen : 2 * m ≤ xs.length) :
    pySlice xs (((2 * m + 1 : Nat) : Int) - 1) (-((2 * m + 1 : Nat) : Int) + 1)
      = (xs.drop (2 * m)).take (xs.length - 4 * m) := by
  unfold pySlice pyBound
  have h1 : ¬ ((((2 * m + 1 : Nat) : Int) - 1) < 0) := by omega
  have h2 : (-((2 * m + 1 : Nat) : Int) + 1) < 0 := by omega
  simp only [h1, h2, if_false, if_true]
  have e1 : min ((((2 * m + 1 : Nat) : Int) - 1).toNat) xs.length = 2 * m := by omega
  have e2 : ((-((2 * m + 1 : Nat) : Int) + 1) + (xs.length : Int)).toNat = xs.length - 2 * m := by omega
  rw [e1, e2]
  congr 1
  omega

end Pad

section Delta1d
variable {α : Type} [CommSemiring α] [Inhabited α]

theorem delta1d_length (filt : List α) (mode : PadMode α) (cast : α → α) (x : List α) (m : Nat)
    (hL : filt.length = 2 * m + 1) (hm : 1 ≤ m) :
    (Deltas.delta1d filt mode cast x).length = x.length := by
  unfold Deltas.delta1d
  simp only [hL, show (2 * m + 1 - 1) / 2 = m by omega]
  rw [pySlice_crop _ m hm (by simp [hL])]
  simp [hL]
  omega

/-- one output sample of the inner loop: pad, correlate "full", crop and cast collapse to
`cast (Σ_j filt[j] · ext(x)(t + j - m))` -/
theorem delta1d_getElem? (filt : List α) (mode : PadMode α) (cast : α → α) (x : List α) (m t : Nat)
    (hL : filt.length = 2 * m + 1) (hm : 1 ≤ m) (ht : t < x.length) :
    (Deltas.delta1d filt mode cast x)[t]? = some (cast (∑ j ∈ range (2 * m + 1),
      filt.getD j 0 * ext m m mode x ((t : Int) + (j : Int) - (m : Int)))) := by
  unfold Deltas.delta1d
  simp only [hL, show (2 * m + 1 - 1) / 2 = m by omega]
  rw [pySlice_crop _ m hm (by simp [hL])]
  rw [List.getElem?_map, List.getElem?_take]
  have hlen : (correlateFull (pad1 m m mode x) filt).length = x.length + 4 * m := by
    simp [hL]; omega
  rw [if_pos (by omega), List.getElem?_drop,
    correlateFull_getElem? _ _ _ (by simp [hL]; omega)]
  simp only [Option.map_some, Option.some.injEq, hL]
  congr 1
  apply Finset.sum_congr rfl
  intro j hj
  have hj' : j < 2 * m + 1 := by simpa using hj
  have h1 : 2 * m + 1 - 1 ≤ 2 * m + t + j := by omega
  rw [if_pos h1, mul_comm]
  congr 1
  rw [List.getD_eq_getElem?_getD, pad1_getElem? _ _ _ _ _ (by omega)]
  simp only [Option.getD_some]
  congr 1
  omega

end Delta1d

/-! ## the filter recursion -/
section Filters
variable {α : Type} [Field α]

/-- the window `[-W, …, W]` before normalisation -/
def rawFilter (W : Nat) : List α := (List.range (1 + 2 * W)).map fun (k : Nat) => (k : α) - (W : α)

/-- the normaliser `Z = Σ_{j=-W}^{W} j²` -/
def normZ (W : Nat) : α :=
  ((List.range (1 + 2 * W)).map fun (k : Nat) => ((k : α) - (W : α)) * ((k : α) - (W : α))).sum

/-- un-normalised taps: `[-W … W]` convolved with itself `d` times -/
def filtNum (W : Nat) : Nat → List α
  | 0 => [1]
  | d + 1 => convolve (filtNum W d) (rawFilter W)

theorem list_sum_range_map (f : Nat → α) (N : Nat) :
    ((List.range N).map f).sum = ∑ u ∈ range N, f u := by
  induction N with
  | zero => simp
  | succ N ih => rw [List.range_succ, List.map_append, List.sum_append, ih, Finset.sum_range_succ]; simp

@[simp] theorem baseFilter_length (W : Nat) : (Deltas.baseFilter (α := α) W).length = 1 + 2 * W := by
  simp [Deltas.baseFilter]

theorem baseFilter_getD (W u : Nat) (hu : u < 1 + 2 * W) :
    (Deltas.baseFilter (α := α) W).getD u 0
      = ((u : α) - (W : α)) / normZ W := by
  unfold Deltas.baseFilter normZ
  simp only [List.getD_eq_getElem?_getD, List.getElem?_map, List.getElem?_range hu, List.map_map]
  rfl

/-- the `d`-th filter has `2·d·W + 1` taps -/
theorem filt_length (W : Nat) : ∀ d, (Deltas.filt (α := α) W d).length = 2 * d * W + 1
  | 0 => by simp [Deltas.filt]
  | d + 1 => by
    simp only [Deltas.filt, convolve_length, baseFilter_length, filt_length W d]
    ring_nf
    omega

/-- the list built by `__init__`'s loop is `[filt 0, …, filt D]` -/
theorem filts_eq (W : Nat) : ∀ D, Deltas.filts (α := α) W D = (List.range (D + 1)).map (Deltas.filt W)
  | 0 => by simp [Deltas.filts, Deltas.filt]
  | D + 1 => by
    have ih := filts_eq W D
    unfold Deltas.filts at ih ⊢
    rw [List.range_succ, List.foldl_append, ih]
    simp only [List.foldl_cons, List.foldl_nil]
    have hD : ((List.range (D + 1)).map (Deltas.filt (α := α) W)).getD D [] = Deltas.filt W D := by
      simp [List.getD_eq_getElem?_getD]
    rw [hD]
    conv_rhs => rw [List.range_succ, List.map_append]
    simp [Deltas.filt]

theorem filts_drop_one (W D : Nat) :
    (Deltas.filts (α := α) W D).drop 1 = (List.range D).map fun d => Deltas.filt W (d + 1) := by
  rw [filts_eq, List.range_succ_eq_map]
  simp [List.map_map, Function.comp_def]

/-- Kaldi's constructor step is the code's `np.convolve(prev, delta_filter)` (normalising the window
first or the result afterwards is the same) -/
theorem nextScales_eq_convolve (W : Nat) (prev : List α) (_hp : 1 ≤ prev.length) :
    Kaldi.nextScales W prev = convolve prev (Deltas.baseFilter W) := by
  apply List.ext_getElem?
  intro n
  by_cases hn : n < prev.length + 2 * W
  · rw [convolve_getElem? _ _ _ (by simp; omega)]
    unfold Kaldi.nextScales
    rw [List.getElem?_map, List.getElem?_range hn]
    simp only [Option.map_some, Option.some.injEq, baseFilter_length]
    rw [list_sum_range_map, Finset.sum_mul, show 2 * W + 1 = 1 + 2 * W by omega]
    apply Finset.sum_congr rfl
    intro u hu
    have hu' : u < 1 + 2 * W := by simpa using hu
    rw [baseFilter_getD W u hu']
    by_cases h1 : u ≤ n
    · by_cases h2 : n - u < prev.length
      · simp only [h1, h2, and_self, if_true, Nat.cast_one, normZ]
        rw [show 1 + 2 * W = 2 * W + 1 by omega]
        ring
      · have : prev.getD (n - u) 0 = 0 := by
          rw [List.getD_eq_getElem?_getD, List.getElem?_eq_none (by omega)]; rfl
        simp [h1, h2]
    · simp [h1]
  · have h1 : (Kaldi.nextScales W prev)[n]? = none := by
      apply List.getElem?_eq_none; simp [Kaldi.nextScales]; omega
    have h2 : (convolve prev (Deltas.baseFilter W))[n]? = none := by
      apply List.getElem?_eq_none; simp; omega
    rw [h1, h2]

/-- the code's filters are Kaldi's scales, for every order and window -/
theorem scales_eq_filt (W : Nat) : ∀ d, Kaldi.scales (α := α) W d = Deltas.filt W d
  | 0 => rfl
  | d + 1 => by
    simp only [Kaldi.scales, Deltas.filt, scales_eq_filt W d]
    exact nextScales_eq_convolve W _ (by rw [filt_length]; omega)


@[simp] theorem rawFilter_length (W : Nat) : (rawFilter (α := α) W).length = 1 + 2 * W := by
  simp [rawFilter]

theorem baseFilter_eq_raw (W : Nat) :
    Deltas.baseFilter (α := α) W = (rawFilter W).map fun v => v / normZ W := by
  unfold Deltas.baseFilter rawFilter normZ
  simp only [List.map_map]
  rfl

theorem filtNum_length (W : Nat) : ∀ d, (filtNum (α := α) W d).length = 2 * d * W + 1
  | 0 => by simp [filtNum]
  | d + 1 => by
    simp only [filtNum, convolve_length, rawFilter_length, filtNum_length W d]
    ring_nf
    omega

theorem getD_map_zero (f : α → α) (hf : f 0 = 0) (l : List α) (i : Nat) :
    (l.map f).getD i 0 = f (l.getD i 0) := by
  simp only [List.getD_eq_getElem?_getD, List.getElem?_map]
  cases l[i]? <;> simp [hf]

/-- convolution is bilinear: scaling both arguments scales the result by the product -/
theorem convolve_map_div (a v : List α) (p q : α) :
    convolve (a.map fun x => x / p) (v.map fun x => x / q) = (convolve a v).map fun x => x / (p * q) := by
  apply List.ext_getElem?
  intro k
  by_cases hk : k < a.length + v.length - 1
  · rw [convolve_getElem? _ _ _ (by simpa using hk), List.getElem?_map, convolve_getElem? _ _ _ hk]
    simp only [List.length_map, Option.map_some, Option.some.injEq]
    rw [div_eq_mul_inv, Finset.sum_mul]
    apply Finset.sum_congr rfl
    intro u _
    rw [getD_map_zero _ (by simp), getD_map_zero _ (by simp)]
    by_cases h : u ≤ k
    · simp only [h, if_true]
      rw [div_mul_div_comm, div_eq_mul_inv]
    · simp [h]
  · have h1 : (convolve (a.map fun x => x / p) (v.map fun x => x / q))[k]? = none := by
      apply List.getElem?_eq_none; simp; omega
    have h2 : ((convolve a v).map fun x => x / (p * q))[k]? = none := by
      apply List.getElem?_eq_none; simp; omega
    rw [h1, h2]

/-- the code's filter is the integer-tap filter divided by `Z^d` -/
theorem filt_eq_num_div (W : Nat) : ∀ d,
    Deltas.filt (α := α) W d = (filtNum W d).map fun v => v / normZ W ^ d
  | 0 => by simp [Deltas.filt, filtNum]
  | d + 1 => by
    simp only [Deltas.filt, filtNum]
    rw [filt_eq_num_div W d, baseFilter_eq_raw, convolve_map_div, pow_succ]

end Filters

/-! ## Deltas: N-D assembly -/

/-- the documented value of the order-`d` delta at frame `t` of a lane: the regression filter applied to
the lane extended by the padding mode, `Σ_j filt_d[j] · ext(lane)(t + j - d·W)` -/
def deltaValue {α : Type} [Field α] [Inhabited α] (W d : Nat) (mode : PadMode α) (lane : List α) (t : Nat) : α :=
  ∑ j ∈ range (2 * (d * W) + 1),
    (Deltas.filt W d).getD j 0 * ext (d * W) (d * W) mode lane ((t : Int) + (j : Int) - ((d * W : Nat) : Int))

section EdgeKaldi
variable {α : Type} [Field α] [Inhabited α]

/-- `edge` padding is Kaldi's frame clamping -/
theorem ext_edge_clamp (l r : Nat) (x : List α) (hT : 0 < x.length) (i : Int) :
    ext l r .edge x i
      = x.getD (if i < 0 then 0 else if i ≥ (x.length : Int) then x.length - 1 else i.toNat) 0 := by
  unfold Tensor.ext
  by_cases h : 0 ≤ i ∧ i < (x.length : Int)
  · simp only [h, and_self, if_true]
    rw [if_neg (by omega), if_neg (by omega)]
    exact getD_irrel _ _ _ _ (by omega)
  · simp only [h, if_false]
    by_cases hneg : i < 0
    · simp only [hneg, if_true]
      exact getD_irrel _ _ _ _ hT
    · simp only [hneg, if_false]
      rw [if_pos (by omega)]
      exact getD_irrel _ _ _ _ (by omega)

theorem deltaValue_edge_eq_kaldi (W d : Nat) (lane : List α) (t : Nat) (ht : t < lane.length) :
    deltaValue W d .edge lane t = (Kaldi.process W d lane).getD t 0 := by
  unfold Kaldi.process deltaValue
  simp only [scales_eq_filt, filt_length]
  rw [List.getD_eq_getElem?_getD, List.getElem?_map, List.getElem?_range ht]
  simp only [Option.map_some, Option.getD_some]
  have hm : (2 * d * W + 1 - 1) / 2 = d * W := by
    rw [Nat.add_sub_cancel, Nat.mul_assoc, Nat.mul_div_cancel_left _ (by omega)]
  rw [hm, list_sum_range_map]
  apply Finset.sum_congr rfl
  intro j _
  rw [ext_edge_clamp _ _ _ (by omega)]

end EdgeKaldi

namespace Deltas
section ND
variable {α : Type} [Field α] [Inhabited α]

/-- `axis % features.ndim` -/
def axisOf (x : Tensor α) (axis : Int) : Nat := (axis % (x.shape.length : Int)).toNat

/-- the condition under which `np.pad` raises inside the loops -/
def padError (c : Deltas α) (x : Tensor α) (axis : Int) : Prop :=
  1 ≤ c.numDeltas ∧ 0 < numel (x.shape.set (axisOf x axis) 1) ∧ x.shape.getD (axisOf x axis) 0 = 0
    ∧ c.padMode.isConstant = false

instance (c : Deltas α) (x : Tensor α) (axis : Int) : Decidable (padError c x axis) := by
  unfold padError; exact inferInstance

/-- `delta_feats[1:]` -/
def feats (c : Deltas α) (ax : Nat) (x : Tensor α) : List (Tensor α) :=
  (List.range c.numDeltas).map fun d =>
    mapLanes ax (delta1d (filt c.contextWindow (d + 1)) c.padMode c.cast) x

theorem apply_padError (c : Deltas α) (x : Tensor α) (axis : Int) (hr : x.shape.length ≠ 0)
    (h : padError c x axis) : c.apply x axis = .error .value := by
  unfold padError axisOf at h
  unfold apply
  simp only [hr, false_and, if_false]
  rw [if_pos h]

theorem apply_eq (c : Deltas α) (x : Tensor α) (axis : Int) (hr : x.shape.length ≠ 0)
    (h : ¬ padError c x axis) :
    c.apply x axis =
      if c.concatenate then Tensor.concatenate (x :: feats c (axisOf x axis) x) c.targetAxis
      else Tensor.stack (x :: feats c (axisOf x axis) x) c.targetAxis := by
  unfold padError axisOf at h
  unfold apply feats axisOf
  simp only [hr, false_and, if_false]
  rw [if_neg h, filts_drop_one, List.map_map]
  rfl

theorem feats_length (c : Deltas α) (ax : Nat) (x : Tensor α) : (feats c ax x).length = c.numDeltas := by
  simp [feats]

theorem feats_shape (c : Deltas α) (ax : Nat) (x : Tensor α) : ∀ t ∈ feats c ax x, t.shape = x.shape := by
  intro t ht
  simp only [feats, List.mem_map] at ht
  obtain ⟨d, _, rfl⟩ := ht
  rfl

theorem feats_getD (c : Deltas α) (ax : Nat) (x : Tensor α) (d : Nat) (hd : d < c.numDeltas) :
    (x :: feats c ax x).getD (d + 1) x
      = mapLanes ax (delta1d (filt c.contextWindow (d + 1)) c.padMode c.cast) x := by
  rw [List.getD_cons_succ, List.getD_eq_getElem?_getD]
  unfold feats
  rw [List.getElem?_map, List.getElem?_range hd]
  rfl

/-- value of `delta_feats[d+1]` at a valid index -/
theorem feats_val (c : Deltas α) (ax : Nat) (x : Tensor α) (d : Nat) (hd : d < c.numDeltas)
    (hW : 0 < c.contextWindow) (idx : List Nat) (hv : valid x.shape idx = true) (hax : ax < x.shape.length) :
    ((x :: feats c ax x).getD (d + 1) x).val idx
      = c.cast (deltaValue c.contextWindow (d + 1) c.padMode (x.lane ax idx) (idx.getD ax 0)) := by
  rw [feats_getD c ax x d hd]
  unfold Tensor.val
  rw [get_mapLanes ax _ x idx hv]
  simp only [Option.getD_some]
  have ht : idx.getD ax 0 < (x.lane ax idx).length := by
    rw [lane_length]; exact valid_getD hv hax
  have hm : 1 ≤ (d + 1) * c.contextWindow := Nat.mul_pos (by omega) hW
  rw [List.getD_eq_getElem?_getD,
    delta1d_getElem? _ _ _ _ ((d + 1) * c.contextWindow) _ (by rw [filt_length]; ring) hm ht]
  rfl


/-- what a successful call with `concatenate=True` returned -/
theorem apply_concat_inv (c : Deltas α) (x out : Tensor α) (axis : Int) (hr : x.shape.length ≠ 0)
    (hc : c.concatenate = true) (h : c.apply x axis = .ok out) :
    ¬ padError c x axis ∧ ∃ ta, normAxis c.targetAxis x.shape.length = some ta ∧
      out = ofFn (x.shape.set ta (x.shape.getD ta 0 * (c.numDeltas + 1)))
        (fun idx => concatVal (x :: feats c (axisOf x axis) x) ta idx) := by
  by_cases hp : padError c x axis
  · rw [apply_padError c x axis hr hp] at h; cases h
  · refine ⟨hp, ?_⟩
    rw [apply_eq c x axis hr hp, if_pos hc] at h
    cases ha : normAxis c.targetAxis x.shape.length with
    | none =>
      rw [concatenate_axisErr _ _ _ (feats_shape c _ x) hr ha] at h; cases h
    | some ta =>
      rw [concatenate_uniform _ _ _ ta (feats_shape c _ x) hr ha, feats_length] at h
      injection h with h
      exact ⟨ta, rfl, h.symm⟩

/-- what a successful call with `concatenate=False` returned -/
theorem apply_stack_inv (c : Deltas α) (x out : Tensor α) (axis : Int) (hr : x.shape.length ≠ 0)
    (hc : c.concatenate = false) (h : c.apply x axis = .ok out) :
    ¬ padError c x axis ∧ ∃ ta, normAxis c.targetAxis (x.shape.length + 1) = some ta ∧
      out = ofFn (x.shape.insertIdx ta (c.numDeltas + 1))
        (fun idx => ((x :: feats c (axisOf x axis) x).getD (idx.getD ta 0) x).val (idx.eraseIdx ta)) := by
  by_cases hp : padError c x axis
  · rw [apply_padError c x axis hr hp] at h; cases h
  · refine ⟨hp, ?_⟩
    rw [apply_eq c x axis hr hp, if_neg (by simp [hc])] at h
    cases ha : normAxis c.targetAxis (x.shape.length + 1) with
    | none =>
      rw [stack_axisErr _ _ _ (feats_shape c _ x) ha] at h; cases h
    | some ta =>
      rw [stack_uniform _ _ _ ta (feats_shape c _ x) ha, feats_length] at h
      injection h with h
      exact ⟨ta, rfl, h.symm⟩

/-- exactly when, and how, the call fails (rank ≥ 1) -/
theorem apply_error_iff (c : Deltas α) (x : Tensor α) (axis : Int) (hr : x.shape.length ≠ 0) (e : Err) :
    c.apply x axis = .error e ↔
      (padError c x axis ∧ e = .value) ∨
      (¬ padError c x axis ∧ e = .axisErr ∧
        normAxis c.targetAxis (if c.concatenate then x.shape.length else x.shape.length + 1) = none) := by
  by_cases hp : padError c x axis
  · rw [apply_padError c x axis hr hp]
    constructor
    · intro h; injection h with h; exact Or.inl ⟨hp, h.symm⟩
    · rintro (⟨_, rfl⟩ | ⟨h, _⟩)
      · rfl
      · exact absurd hp h
  · rw [apply_eq c x axis hr hp]
    cases hc : c.concatenate
    · simp only [Bool.false_eq_true, if_false]
      cases ha : normAxis c.targetAxis (x.shape.length + 1) with
      | none =>
        rw [stack_axisErr _ _ _ (feats_shape c _ x) ha]
        constructor
        · intro h; injection h with h; exact Or.inr ⟨hp, h.symm, rfl⟩
        · rintro (⟨h, _⟩ | ⟨_, rfl, _⟩)
          · exact absurd h hp
          · rfl
      | some ta =>
        rw [stack_uniform _ _ _ ta (feats_shape c _ x) ha]
        constructor
        · intro h; cases h
        · rintro (⟨h, _⟩ | ⟨_, _, h⟩)
          · exact absurd h hp
          · cases h
    · simp only [if_true]
      cases ha : normAxis c.targetAxis x.shape.length with
      | none =>
        rw [concatenate_axisErr _ _ _ (feats_shape c _ x) hr ha]
        constructor
        · intro h; injection h with h; exact Or.inr ⟨hp, h.symm, rfl⟩
        · rintro (⟨h, _⟩ | ⟨_, rfl, _⟩)
          · exact absurd h hp
          · rfl
      | some ta =>
        rw [concatenate_uniform _ _ _ ta (feats_shape c _ x) hr ha]
        constructor
        · intro h; cases h
        · rintro (⟨h, _⟩ | ⟨_, _, h⟩)
          · exact absurd h hp
          · cases h

end ND
end Deltas

/-! ## Stack -/
namespace Stack
section
variable {α : Type} [Inhabited α]

/-- the strided N-D branch succeeds and is a tabulation -/
theorem pathNd_eq (n ta ax nT : Nat) (x1 : Tensor α) (hn : 1 ≤ n) (hax : ax < x1.shape.length)
    (hne : ax ≠ ta) (hle : nT * n ≤ x1.shape.getD ta 0) :
    pathNd n ta ax (nT * n) x1
      = .ok (ofFn ((x1.shape.set ta nT).set ax (x1.shape.getD ax 0 * n))
          (fun idx => concatVal ((List.range n).map fun i => x1.sliceAxis ta i (nT * n) n) ax idx)) := by
  unfold pathNd
  have hsh : ∀ t ∈ (List.range n).map (fun i => x1.sliceAxis ta i (nT * n) n),
      t.shape = x1.shape.set ta nT := by
    intro t ht
    simp only [List.mem_map, List.mem_range] at ht
    obtain ⟨i, hi, rfl⟩ := ht
    rw [sliceAxis_shape, sliceLen_strided i nT n _ hi hle]
  have hF : (x1.shape.set ta nT).getD ax 0 = x1.shape.getD ax 0 := by
    rw [getD_set_eq, if_neg (by intro h; exact hne h.1.symm)]
  rw [concatenate_uniform' _ (x1.shape.set ta nT) (ax : Int) ax
    (by intro h; have := congrArg List.length h; simp at this; omega) hsh
    (by rw [List.length_set]; omega) (normAxis_natCast (by rw [List.length_set]; exact hax))]
  rw [hF, List.length_map, List.length_range]

/-- every element of the strided branch: `out[…, t', …, v·F + f, …] = x1[…, t'·n + v, …, f, …]` -/
theorem pathNd_get (n ta ax nT : Nat) (x1 : Tensor α) (hax : ax < x1.shape.length)
    (hne : ax ≠ ta) (hle : nT * n ≤ x1.shape.getD ta 0) (idx : List Nat)
    (hv : valid ((x1.shape.set ta nT).set ax (x1.shape.getD ax 0 * n)) idx = true) :
    (ofFn ((x1.shape.set ta nT).set ax (x1.shape.getD ax 0 * n))
        (fun idx => concatVal ((List.range n).map fun i => x1.sliceAxis ta i (nT * n) n) ax idx)).get idx
      = some (x1.val ((idx.set ax (idx.getD ax 0 % x1.shape.getD ax 0)).set ta
          (idx.getD ax 0 / x1.shape.getD ax 0 + idx.getD ta 0 * n))) := by
  have hF : (x1.shape.set ta nT).getD ax 0 = x1.shape.getD ax 0 := by
    rw [getD_set_eq, if_neg (by intro h; exact hne h.1.symm)]
  have hlen : idx.length = x1.shape.length := by simpa using valid_length hv
  have hj : idx.getD ax 0 < x1.shape.getD ax 0 * n := by
    have := valid_getD hv (a := ax) (by simpa using hax)
    rwa [getD_set_eq, if_pos ⟨rfl, by simpa using hax⟩] at this
  have hFpos : 0 < x1.shape.getD ax 0 := by
    rcases Nat.eq_zero_or_pos (x1.shape.getD ax 0) with h0 | h0
    · rw [h0] at hj; omega
    · exact h0
  have hvn : idx.getD ax 0 / x1.shape.getD ax 0 < n := Nat.div_lt_of_lt_mul hj
  rw [get_ofFn _ _ _ hv,
    concatVal_uniform ax (x1.shape.getD ax 0) _ idx x1
      (by intro t ht
          simp only [List.mem_map, List.mem_range] at ht
          obtain ⟨i, hi, rfl⟩ := ht
          rw [sliceAxis_shape, sliceLen_strided i nT n _ hi hle, hF])
      (by omega) (by simpa using hj)]
  congr 1
  rw [List.getD_eq_getElem?_getD, List.getElem?_map, List.getElem?_range hvn]
  simp only [Option.map_some, Option.getD_some]
  have hv' : valid (x1.sliceAxis ta (idx.getD ax 0 / x1.shape.getD ax 0) (nT * n) n).shape
      (idx.set ax (idx.getD ax 0 % x1.shape.getD ax 0)) = true := by
    rw [sliceAxis_shape, sliceLen_strided _ nT n _ hvn hle]
    exact valid_of_valid_set hv (by rw [hF]; exact Nat.mod_lt _ hFpos)
  unfold Tensor.val
  rw [get_sliceAxis _ _ _ _ _ _ hv']
  simp only [Option.getD_some]
  have : (idx.set ax (idx.getD ax 0 % x1.shape.getD ax 0)).getD ta 0 = idx.getD ta 0 := by
    rw [getD_set_eq, if_neg (by intro h; exact hne h.1)]
  rw [this]
  rfl

/-- number of output frames: `T // n`, one more if padding is on and there is an incomplete run -/
def frames (c : Stack α) (T0 : Nat) : Nat :=
  if c.padMode.isSome ∧ T0 % c.numVectors ≠ 0 then T0 / c.numVectors + 1 else T0 / c.numVectors

/-- length of the time axis after the optional `np.pad` -/
def paddedLen (c : Stack α) (T0 : Nat) : Nat :=
  if c.padMode.isSome ∧ T0 % c.numVectors ≠ 0 then T0 + (c.numVectors - T0 % c.numVectors) else T0

/-- `features` after the optional `np.pad` -/
def padded (c : Stack α) (ta : Nat) (x : Tensor α) : Tensor α :=
  match c.padMode with
  | some mode =>
    if x.shape.getD ta 0 % c.numVectors ≠ 0 then
      x.padAxis ta 0 (c.numVectors - x.shape.getD ta 0 % c.numVectors) mode
    else x
  | none => x

omit [Inhabited α] in
theorem paddedLen_div (c : Stack α) (T0 : Nat) (hn : 1 ≤ c.numVectors) :
    paddedLen c T0 / c.numVectors = frames c T0 := by
  unfold paddedLen frames
  split
  · have h := Nat.div_add_mod T0 c.numVectors
    have : T0 + (c.numVectors - T0 % c.numVectors) = c.numVectors * (T0 / c.numVectors + 1) := by
      have hm := Nat.mod_lt T0 (show 0 < c.numVectors by omega)
      rw [Nat.mul_add, Nat.mul_one]; omega
    rw [this, Nat.mul_div_cancel_left _ (by omega)]
  · rfl

omit [Inhabited α] in
/-- with a pad mode the number of frames is `⌈T / n⌉`: all of the input is covered, by less than one
extra run -/
theorem frames_some_facts (c : Stack α) (T : Nat) (hn : 1 ≤ c.numVectors) (hpm : c.padMode.isSome = true) :
    frames c T = (T + c.numVectors - 1) / c.numVectors ∧ T ≤ frames c T * c.numVectors
      ∧ frames c T * c.numVectors < T + c.numVectors := by
  have hdm := Nat.div_add_mod T c.numVectors
  have hml := Nat.mod_lt T (show 0 < c.numVectors by omega)
  unfold frames
  simp only [hpm, true_and]
  generalize hq : T / c.numVectors = q at *
  generalize hm : T % c.numVectors = m at *
  generalize c.numVectors = n at *
  by_cases hrem : m ≠ 0
  · rw [if_pos hrem]
    have hceil : (T + n - 1) / n = q + 1 := by
      have : T + n - 1 = n * (q + 1) + (m - 1) := by rw [Nat.mul_add, Nat.mul_one]; omega
      rw [this, Nat.mul_add_div (by omega), Nat.div_eq_of_lt (by omega)]
    refine ⟨hceil.symm, ?_, ?_⟩
    · rw [Nat.add_mul, Nat.one_mul, Nat.mul_comm]; omega
    · rw [Nat.add_mul, Nat.one_mul, Nat.mul_comm]; omega
  · rw [if_neg hrem]
    have hceil : (T + n - 1) / n = q := by
      have : T + n - 1 = n * q + (n - 1) := by omega
      rw [this, Nat.mul_add_div (by omega), Nat.div_eq_of_lt (by omega), Nat.add_zero]
    refine ⟨hceil.symm, ?_, ?_⟩
    · rw [Nat.mul_comm]; omega
    · rw [Nat.mul_comm]; omega

omit [Inhabited α] in
theorem frames_mul_le (c : Stack α) (T0 : Nat) (hn : 1 ≤ c.numVectors) :
    frames c T0 * c.numVectors ≤ paddedLen c T0 := by
  rw [← paddedLen_div c T0 hn]
  exact Nat.div_mul_le_self _ _

theorem padded_shape (c : Stack α) (ta : Nat) (x : Tensor α) :
    (padded c ta x).shape = x.shape.set ta (paddedLen c (x.shape.getD ta 0)) := by
  unfold padded paddedLen
  cases hm : c.padMode with
  | none => simp only [Option.isSome_none, Bool.false_eq_true, false_and, if_false, set_getD_self]
  | some mode =>
    by_cases hrem : x.shape.getD ta 0 % c.numVectors ≠ 0
    · simp only [hrem, Option.isSome_some, true_and, if_true, padAxis_shape, ne_eq, not_false_eq_true]
      congr 1; omega
    · simp only [hrem, if_false, Option.isSome_some, true_and, set_getD_self]

theorem padded_wf (c : Stack α) (ta : Nat) (x : Tensor α) (hwf : x.WF) : (padded c ta x).WF := by
  unfold padded
  cases c.padMode with
  | none => exact hwf
  | some mode =>
    simp only
    split
    · exact padAxis_wf _ _ _ _ _
    · exact hwf

theorem ext_inside (l r : Nat) (mode : PadMode α) (x : List α) (i : Int) (h : 0 ≤ i ∧ i < (x.length : Int)) :
    ext l r mode x i = x.getD i.toNat default := by
  unfold Tensor.ext
  simp only [h, and_self, if_true]

/-- values of the (possibly padded) features: the input where it exists, the extension beyond -/
theorem padded_val (c : Stack α) (ta : Nat) (x : Tensor α) (src : List Nat) (hta : ta < x.shape.length)
    (hv : valid (padded c ta x).shape src = true) :
    (padded c ta x).val src =
      if src.getD ta 0 < x.shape.getD ta 0 then x.val src
      else match c.padMode with
        | some mode =>
          ext 0 (c.numVectors - x.shape.getD ta 0 % c.numVectors) mode (x.lane ta src) (src.getD ta 0 : Nat)
        | none => x.val src := by
  unfold padded at hv ⊢
  cases hm : c.padMode with
  | none => simp only [ite_self]
  | some mode =>
    simp only [hm] at hv
    by_cases hrem : x.shape.getD ta 0 % c.numVectors ≠ 0
    · simp only [hrem, if_true, ne_eq, not_false_eq_true] at hv ⊢
      unfold Tensor.val
      rw [get_padAxis _ _ _ _ _ _ hv]
      simp only [Option.getD_some, Nat.cast_zero, sub_zero]
      by_cases hlt : src.getD ta 0 < x.shape.getD ta 0
      · simp only [hlt, if_true]
        rw [ext_inside _ _ _ _ _ (by rw [lane_length]; omega)]
        simp only [Int.toNat_natCast]
        rw [lane_getD _ _ _ _ hlt, set_getD_self]
        rfl
      · simp only [hlt, if_false]
    · have hrem' : x.shape.getD ta 0 % c.numVectors = 0 := by omega
      simp only [hrem', ne_eq, not_true_eq_false, if_false] at hv ⊢
      have : src.getD ta 0 < x.shape.getD ta 0 := valid_getD hv hta
      simp only [this, if_true]


/-- `axis % ndim`, `time_axis % ndim` -/
def axOf (x : Tensor α) (axis : Int) : Nat := (axis % (x.shape.length : Int)).toNat
def taOf (c : Stack α) (x : Tensor α) : Nat := (c.timeAxis % (x.shape.length : Int)).toNat

theorem prepare_rank0 (c : Stack α) (x : Tensor α) (axis : Int) (hr : x.shape.length = 0) :
    prepare c x axis = .error .zeroDivision := by
  unfold prepare; simp only [hr, if_true]

theorem prepare_same_axis (c : Stack α) (x : Tensor α) (axis : Int) (hr : x.shape.length ≠ 0)
    (he : axOf x axis = taOf c x) : prepare c x axis = .error .runtime := by
  unfold axOf taOf at he
  unfold prepare; simp only [hr, if_false, he, if_true]

theorem prepare_eq (c : Stack α) (x : Tensor α) (axis : Int) (hn : 1 ≤ c.numVectors)
    (hr : x.shape.length ≠ 0) (hne : axOf x axis ≠ taOf c x) :
    prepare c x axis = .ok
      { ta := taOf c x, ax := axOf x axis,
        T := frames c (x.shape.getD (taOf c x) 0) * c.numVectors,
        nT := frames c (x.shape.getD (taOf c x) 0),
        nF := x.shape.getD (axOf x axis) 0 * c.numVectors,
        x1 := padded c (taOf c x) x } := by
  have hdiv := paddedLen_div c (x.shape.getD (taOf c x) 0) hn
  unfold axOf taOf at hne hdiv ⊢
  unfold prepare
  simp only [hr, if_false, hne]
  unfold paddedLen at hdiv
  unfold padded
  cases hm : c.padMode with
  | none =>
    simp only [hm, Option.isSome_none, Bool.false_eq_true, false_and, if_false] at hdiv
    simp only [hdiv]
  | some mode =>
    simp only [hm, Option.isSome_some, true_and] at hdiv
    by_cases hrem : x.shape.getD (c.timeAxis % (x.shape.length : Int)).toNat 0 % c.numVectors ≠ 0
    · simp only [hrem, if_true, ne_eq, not_false_eq_true] at hdiv ⊢
      simp only [hdiv]
    · simp only [hrem, if_false] at hdiv ⊢
      simp only [hdiv]

/-- the N-D branch of `apply`, as a tabulation -/
theorem applyNd_eq (c : Stack α) (x : Tensor α) (axis : Int) (hn : 1 ≤ c.numVectors)
    (hr : x.shape.length ≠ 0) (hne : axOf x axis ≠ taOf c x) :
    applyNd c x axis = .ok
      (ofFn ((x.shape.set (taOf c x) (frames c (x.shape.getD (taOf c x) 0))).set (axOf x axis)
            (x.shape.getD (axOf x axis) 0 * c.numVectors))
        (fun idx => concatVal ((List.range c.numVectors).map fun i =>
          (padded c (taOf c x) x).sliceAxis (taOf c x) i
            (frames c (x.shape.getD (taOf c x) 0) * c.numVectors) c.numVectors) (axOf x axis) idx)) := by
  have hta : taOf c x < x.shape.length := emod_axis_lt _ hr
  have hax : axOf x axis < x.shape.length := emod_axis_lt _ hr
  unfold applyNd
  rw [prepare_eq c x axis hn hr hne]
  show pathNd _ _ _ _ _ = _
  have hsh := padded_shape c (taOf c x) x
  rw [pathNd_eq _ _ _ _ _ hn (by rw [hsh, List.length_set]; exact hax) hne
    (by rw [hsh, getD_set_eq, if_pos ⟨rfl, hta⟩]; exact frames_mul_le c _ hn)]
  rw [hsh, List.set_set, getD_set_eq, if_neg (by intro h; exact hne h.1.symm)]

omit [Inhabited α] in
theorem get_reshape_ofFn (sh sh' : List Nat) (f : List Nat → α) (idx : List Nat)
    (hnum : numel sh' = numel sh) (hv : valid sh' idx = true) :
    (⟨sh', (ofFn sh f).data⟩ : Tensor α).get idx = some (f (unflat sh (flat sh' idx))) := by
  have hl := flat_lt sh' idx hv
  simp only [Tensor.get, hv, if_true, ofFn]
  rw [List.getElem?_map, List.getElem?_range (by omega)]
  rfl

omit [Inhabited α] in
theorem reshape_arith (F n t' c : Nat) (hF : 0 < F) :
    (t' * (F * n) + c) / F = c / F + t' * n ∧ (t' * (F * n) + c) % F = c % F := by
  have : t' * (F * n) + c = F * (t' * n) + c := by ring
  rw [this, Nat.mul_add_div hF, Nat.mul_add_mod]
  exact ⟨by omega, rfl⟩

omit [Inhabited α] in
theorem valid_two {a b : Nat} {idx : List Nat} (h : valid [a, b] idx = true) :
    ∃ i j, idx = [i, j] ∧ i < a ∧ j < b := by
  match idx, h with
  | [], h => simp [valid] at h
  | [_], h => simp [valid] at h
  | [i, j], h => exact ⟨i, j, rfl, by simpa [valid] using h⟩
  | _ :: _ :: _ :: _, h => simp [valid] at h

theorem path2d_eq_pathNd_t0 (ip : Bool) (n nT A B : Nat) (x1 : Tensor α) (hsh : x1.shape = [A, B])
    (hn : 1 ≤ n) (hle : nT * n ≤ A) :
    path2d ip 0 (nT * n) nT (B * n) x1 = pathNd n 0 1 (nT * n) x1 := by
  have hA : x1.shape.getD 0 0 = A := by rw [hsh]; rfl
  have hB : x1.shape.getD 1 0 = B := by rw [hsh]; rfl
  have hslice : x1.sliceAxis 0 0 (nT * n) 1
      = ofFn [nT * n, B] (fun idx => x1.val (idx.set 0 (0 + idx.getD 0 0 * 1))) := by
    unfold sliceAxis; rw [hA, sliceLen_prefix _ _ hle, hsh]; rfl
  have hnum : numel [nT, B * n] = numel [nT * n, B] := by simp only [numel]; ring
  unfold path2d
  simp only [copy_eq, ite_self, ne_eq, not_true_eq_false, if_false, hslice]
  unfold reshape
  rw [if_pos (by rw [hnum]; simp [ofFn])]
  show Except.ok _ = _
  rw [pathNd_eq n 0 1 nT x1 hn (by rw [hsh]; simp) (by omega) (by rw [hA]; exact hle)]
  congr 1
  have hshape : (x1.shape.set 0 nT).set 1 (x1.shape.getD 1 0 * n) = [nT, B * n] := by
    rw [hB, hsh]; rfl
  apply Tensor.ext_get
  · show List.length _ = numel [nT, B * n]
    rw [hnum]; simp [ofFn]
  · exact ofFn_wf _ _
  · exact hshape.symm
  · intro idx hv
    have hv' : valid [nT, B * n] idx = true := hv
    obtain ⟨t', c, rfl, ht', hc⟩ := valid_two hv'
    have hBpos : 0 < B := by
      rcases Nat.eq_zero_or_pos B with h0 | h0
      · subst h0; omega
      · exact h0
    rw [get_reshape_ofFn _ _ _ _ hnum hv', pathNd_get n 0 1 nT x1 (by rw [hsh]; simp) (by omega)
      (by rw [hA]; exact hle) _ (by rw [hshape]; exact hv')]
    congr 2
    obtain ⟨h1, h2⟩ := reshape_arith B n t' c hBpos
    simp only [flat, unflat, numel, hB, Nat.mul_one, Nat.add_zero, Nat.div_one, Nat.zero_add,
      List.set_cons_zero, List.set_cons_succ, List.getD_cons_zero, List.getD_cons_succ, h1, h2]


theorem path2d_eq_pathNd_t1 (ip : Bool) (n nT A B : Nat) (x1 : Tensor α) (hsh : x1.shape = [B, A])
    (hn : 1 ≤ n) (hle : nT * n ≤ A) :
    path2d ip 1 (nT * n) nT (B * n) x1 = pathNd n 1 0 (nT * n) x1 := by
  have hA : x1.shape.getD 1 0 = A := by rw [hsh]; rfl
  have hB : x1.shape.getD 0 0 = B := by rw [hsh]; rfl
  have hslice : x1.transpose.sliceAxis 0 0 (nT * n) 1
      = ofFn [nT * n, B] (fun idx => x1.transpose.val (idx.set 0 (0 + idx.getD 0 0 * 1))) := by
    unfold sliceAxis
    rw [transpose_shape, hsh]
    show ofFn ([A, B].set 0 (sliceLen 0 (nT * n) 1 A)) _ = _
    rw [sliceLen_prefix _ _ hle]; rfl
  have hnum : numel [nT, B * n] = numel [nT * n, B] := by simp only [numel]; ring
  unfold path2d
  simp only [copy_eq, ite_self, ne_eq, not_false_eq_true, if_true, hslice,
    one_ne_zero]
  unfold reshape
  rw [if_pos (by rw [hnum]; simp [ofFn])]
  show Except.ok _ = _
  rw [pathNd_eq n 1 0 nT x1 hn (by rw [hsh]; simp) (by omega) (by rw [hA]; exact hle)]
  congr 1
  have hshape : (x1.shape.set 1 nT).set 0 (x1.shape.getD 0 0 * n) = [B * n, nT] := by
    rw [hB, hsh]; rfl
  apply Tensor.ext_get
  · exact transpose_wf _
  · exact ofFn_wf _ _
  · exact hshape.symm
  · intro idx hv
    have hv' : valid [B * n, nT] idx = true := hv
    obtain ⟨c, t', rfl, hc, ht'⟩ := valid_two hv'
    have hBpos : 0 < B := by
      rcases Nat.eq_zero_or_pos B with h0 | h0
      · subst h0; omega
      · exact h0
    obtain ⟨h1, h2⟩ := reshape_arith B n t' c hBpos
    have hvr : valid [nT, B * n] [t', c] = true := by simp [valid, ht', hc]
    have hrow : c / B + t' * n < nT * n := by
      have : c / B < n := Nat.div_lt_of_lt_mul hc
      calc c / B + t' * n < n + t' * n := by omega
        _ = (t' + 1) * n := by ring
        _ ≤ nT * n := Nat.mul_le_mul_right _ ht'
    rw [get_transpose _ _ (show valid (Tensor.shape ⟨[nT, B * n], _⟩).reverse [c, t'] = true from hv'), pathNd_get n 1 0 nT x1 (by rw [hsh]; simp) (by omega)
      (by rw [hA]; exact hle) _ (by rw [hshape]; exact hv')]
    congr 1
    show Tensor.val _ [t', c] = _
    unfold Tensor.val
    rw [get_reshape_ofFn _ _ _ _ hnum hvr]
    simp only [Option.getD_some, flat, unflat, numel, Nat.mul_one, Nat.add_zero, Nat.div_one,
      Nat.zero_add, List.set_cons_zero, List.getD_cons_zero, h1, h2]
    rw [get_transpose _ _ (by rw [hsh]; simp [valid, Nat.mod_lt _ hBpos]; omega)]
    simp only [Option.getD_some, hB, List.reverse_cons, List.reverse_nil, List.nil_append,
      List.cons_append, List.set_cons_zero, List.set_cons_succ, List.getD_cons_zero, List.getD_cons_succ]
    rfl


/-- rank 2: the reshape path and the strided path return the same tensor, for both `time_axis` values,
every `num_vectors`, every number of frames, and whatever `in_place` is -/
theorem path2d_eq_pathNd (ip : Bool) (n ta ax nT : Nat) (x1 : Tensor α) (hrank : x1.shape.length = 2)
    (hax : ax < 2) (hta : ta < 2) (hne : ax ≠ ta) (hn : 1 ≤ n) (hle : nT * n ≤ x1.shape.getD ta 0) :
    path2d ip ta (nT * n) nT (x1.shape.getD ax 0 * n) x1 = pathNd n ta ax (nT * n) x1 := by
  match hs : x1.shape, hrank with
  | [a, b], _ =>
    have hta' : ta = 0 ∨ ta = 1 := by omega
    rcases hta' with rfl | rfl
    · have : ax = 1 := by omega
      subst this
      have hle' : nT * n ≤ a := by simpa [hs] using hle
      simpa [hs] using path2d_eq_pathNd_t0 ip n nT a b x1 hs hn hle'
    · have : ax = 0 := by omega
      subst this
      have hle' : nT * n ≤ b := by simpa [hs] using hle
      simpa [hs] using path2d_eq_pathNd_t1 ip n nT b a x1 hs hn hle'

/-- the `ndim == 2` special case of `apply` changes nothing -/
theorem apply_eq_applyNd (c : Stack α) (x : Tensor α) (axis : Int) (ip : Bool) (hn : 1 ≤ c.numVectors) :
    c.apply x axis ip = c.applyNd x axis := by
  by_cases hr : x.shape.length = 0
  · unfold apply applyNd; rw [prepare_rank0 c x axis hr]; rfl
  · by_cases hne : axOf x axis = taOf c x
    · unfold apply applyNd; rw [prepare_same_axis c x axis hr hne]; rfl
    · have hta : taOf c x < x.shape.length := emod_axis_lt _ hr
      have hax : axOf x axis < x.shape.length := emod_axis_lt _ hr
      unfold apply applyNd
      rw [prepare_eq c x axis hn hr hne]
      show (if x.shape.length = 2 then _ else _) = pathNd _ _ _ _ _
      by_cases h2 : x.shape.length = 2
      · rw [if_pos h2]
        have hsh := padded_shape c (taOf c x) x
        have hF : (padded c (taOf c x) x).shape.getD (axOf x axis) 0 = x.shape.getD (axOf x axis) 0 := by
          rw [hsh, getD_set_eq, if_neg (by intro h; exact hne h.1.symm)]
        rw [← hF]
        exact path2d_eq_pathNd _ c.numVectors (taOf c x) (axOf x axis) (frames c (x.shape.getD (taOf c x) 0))
          (padded c (taOf c x) x) (by rw [hsh, List.length_set]; exact h2)
          (show axOf x axis < 2 by omega) (show taOf c x < 2 by omega) hne hn (by rw [hsh, getD_set_eq, if_pos ⟨rfl, hta⟩]; exact frames_mul_le c _ hn)
      · rw [if_neg h2]


/-- what a successful `apply` returned (any rank ≥ 2, either branch) -/
theorem apply_inv (c : Stack α) (x out : Tensor α) (axis : Int) (ip : Bool) (hn : 1 ≤ c.numVectors)
    (h : c.apply x axis ip = .ok out) :
    x.shape.length ≠ 0 ∧ axOf x axis ≠ taOf c x ∧
    out = ofFn ((x.shape.set (taOf c x) (frames c (x.shape.getD (taOf c x) 0))).set (axOf x axis)
            (x.shape.getD (axOf x axis) 0 * c.numVectors))
        (fun idx => concatVal ((List.range c.numVectors).map fun i =>
          (padded c (taOf c x) x).sliceAxis (taOf c x) i
            (frames c (x.shape.getD (taOf c x) 0) * c.numVectors) c.numVectors) (axOf x axis) idx) := by
  rw [apply_eq_applyNd c x axis ip hn] at h
  by_cases hr : x.shape.length = 0
  · unfold applyNd at h; rw [prepare_rank0 c x axis hr] at h; cases h
  · by_cases hne : axOf x axis = taOf c x
    · unfold applyNd at h; rw [prepare_same_axis c x axis hr hne] at h; cases h
    · rw [applyNd_eq c x axis hn hr hne] at h
      injection h with h
      exact ⟨hr, hne, h.symm⟩

/-- exactly when and how `Stack.apply` raises -/
theorem apply_error_iff (c : Stack α) (x : Tensor α) (axis : Int) (ip : Bool) (hn : 1 ≤ c.numVectors)
    (e : Err) :
    c.apply x axis ip = .error e ↔
      (x.shape.length = 0 ∧ e = .zeroDivision) ∨
      (x.shape.length ≠ 0 ∧ axOf x axis = taOf c x ∧ e = .runtime) := by
  rw [apply_eq_applyNd c x axis ip hn]
  by_cases hr : x.shape.length = 0
  · unfold applyNd; rw [prepare_rank0 c x axis hr]
    constructor
    · intro h; injection h with h; exact Or.inl ⟨hr, h.symm⟩
    · rintro (⟨_, rfl⟩ | ⟨h, _⟩)
      · rfl
      · exact absurd hr h
  · by_cases hne : axOf x axis = taOf c x
    · unfold applyNd; rw [prepare_same_axis c x axis hr hne]
      constructor
      · intro h; injection h with h; exact Or.inr ⟨hr, hne, h.symm⟩
      · rintro (⟨h, _⟩ | ⟨_, _, rfl⟩)
        · exact absurd h hr
        · rfl
    · rw [applyNd_eq c x axis hn hr hne]
      constructor
      · intro h; cases h
      · rintro (⟨h, _⟩ | ⟨_, h, _⟩)
        · exact absurd h hr
        · exact absurd h hne

/-- every element of the result, in terms of the (possibly padded) features -/
theorem result_get (c : Stack α) (x : Tensor α) (axis : Int) (hn : 1 ≤ c.numVectors)
    (hr : x.shape.length ≠ 0) (hne : axOf x axis ≠ taOf c x) (idx : List Nat)
    (hv : valid ((x.shape.set (taOf c x) (frames c (x.shape.getD (taOf c x) 0))).set (axOf x axis)
            (x.shape.getD (axOf x axis) 0 * c.numVectors)) idx = true) :
    let ta := taOf c x
    let ax := axOf x axis
    let F := x.shape.getD ax 0
    let t := idx.getD ax 0 / F + idx.getD ta 0 * c.numVectors
    let src := (idx.set ax (idx.getD ax 0 % F)).set ta t
    (ofFn ((x.shape.set ta (frames c (x.shape.getD ta 0))).set ax (F * c.numVectors))
        (fun idx => concatVal ((List.range c.numVectors).map fun i =>
          (padded c ta x).sliceAxis ta i (frames c (x.shape.getD ta 0) * c.numVectors) c.numVectors) ax idx)).get idx
      = some ((padded c ta x).val src)
    ∧ valid (padded c ta x).shape src = true
    ∧ t < paddedLen c (x.shape.getD ta 0)
    ∧ (t < x.shape.getD ta 0 → valid x.shape src = true) := by
  intro ta ax F t src
  have hta : ta < x.shape.length := emod_axis_lt _ hr
  have hax : ax < x.shape.length := emod_axis_lt _ hr
  have hsh := padded_shape c ta x
  have hF : (padded c ta x).shape.getD ax 0 = F := by
    rw [hsh, getD_set_eq, if_neg (by intro h; exact hne h.1.symm)]
  have hshape : ((padded c ta x).shape.set ta (frames c (x.shape.getD ta 0))).set ax
      ((padded c ta x).shape.getD ax 0 * c.numVectors)
      = (x.shape.set ta (frames c (x.shape.getD ta 0))).set ax (F * c.numVectors) := by
    rw [hF, hsh, List.set_set]
  have hle : frames c (x.shape.getD ta 0) * c.numVectors ≤ (padded c ta x).shape.getD ta 0 := by
    rw [hsh, getD_set_eq, if_pos ⟨rfl, hta⟩]; exact frames_mul_le c _ hn
  have hget := pathNd_get c.numVectors ta ax (frames c (x.shape.getD ta 0)) (padded c ta x)
    (by rw [hsh, List.length_set]; exact hax) hne hle idx (by rw [hshape]; exact hv)
  rw [hshape, hF] at hget
  -- bounds on the source position
  have hlen : idx.length = x.shape.length := by simpa using valid_length hv
  have hj : idx.getD ax 0 < F * c.numVectors := by
    have := valid_getD hv (a := ax) (by simpa using hax)
    rwa [getD_set_eq, if_pos ⟨rfl, by simpa using hax⟩] at this
  have ht' : idx.getD ta 0 < frames c (x.shape.getD ta 0) := by
    have := valid_getD hv (a := ta) (by simpa using hta)
    rwa [getD_set_eq, if_neg (by intro h; exact hne h.1), getD_set_eq, if_pos ⟨rfl, hta⟩] at this
  have hFpos : 0 < F := by
    rcases Nat.eq_zero_or_pos F with h0 | h0
    · rw [h0] at hj; omega
    · exact h0
  have hvn : idx.getD ax 0 / F < c.numVectors := Nat.div_lt_of_lt_mul hj
  have htlt : t < paddedLen c (x.shape.getD ta 0) := by
    have h1 : t < (idx.getD ta 0 + 1) * c.numVectors := by
      show idx.getD ax 0 / F + idx.getD ta 0 * c.numVectors < _
      rw [Nat.add_mul, Nat.one_mul]; omega
    have h2 : (idx.getD ta 0 + 1) * c.numVectors ≤ frames c (x.shape.getD ta 0) * c.numVectors :=
      Nat.mul_le_mul_right _ ht'
    have h3 := frames_mul_le c (x.shape.getD ta 0) hn
    omega
  have hv1 : valid (x.shape.set ta (frames c (x.shape.getD ta 0))) (idx.set ax (idx.getD ax 0 % F)) = true :=
    valid_of_valid_set hv (by
      rw [getD_set_eq, if_neg (by intro h; exact hne h.1.symm)]; exact Nat.mod_lt _ hFpos)
  refine ⟨hget, ?_, htlt, ?_⟩
  · rw [hsh]
    have := valid_set (a := ta) (n := paddedLen c (x.shape.getD ta 0)) (v := t) hv1 htlt
    rwa [List.set_set] at this
  · intro hlt
    have := valid_set (a := ta) (n := x.shape.getD ta 0) (v := t) hv1 hlt
    rwa [List.set_set, set_getD_self] at this

end
end Stack

end PdsVerif.Model.Post

/-
  Refinement of the streaming STFT model to "the samples seen so far":
  `canon c xs` is the state after the samples `xs` (a function of `xs` only), `chunk` maps
  `canon xs` to `canon (xs ++ ys)` emitting exactly the frames `emitted |xs| ≤ k < emitted |xs ++ ys|`,
  and `finalize` emits the remaining frames of `full`.
-/
import PdsVerif.Lemmas.Seg
import PdsVerif.Lemmas.SymIdx
import PdsVerif.Lemmas.StftArith
set_option linter.unusedSectionVars false
namespace PdsVerif.StftCanon
open PdsVerif.Model.Stft PdsVerif.Seg PdsVerif.SymIdx PdsVerif.StftArith

variable {α : Type} [Inhabited α]

/-- position `p` of the left-reflected signal (valid for `-|xs| ≤ p < |xs|`) -/
def vget (xs : List α) (p : Int) : α :=
  if p < 0 then xs.getD (-1 - p).toNat default else xs.getD p.toNat default

/-- position `p` of the symmetric periodic extension (what `np.pad(…,'symmetric')` reads) -/
def ext (xs : List α) (p : Int) : α := xs.getD (symIdx xs.length p) default

/-- the `k`-th frame of a source `f` -/
def frameAt (c : Cfg) (f : Int → α) (k : Nat) : List α :=
  seg f (((k * c.S : Nat) : Int) - (padL c : Int)) c.L

theorem ext_eq_vget (xs : List α) (p : Int) (h0 : -(xs.length : Int) ≤ p) (h1 : p < xs.length) :
    ext xs p = vget xs p := by
  unfold ext vget
  by_cases hp : p < 0
  · rw [symIdx_left _ _ h0 hp]; simp [hp]
  · rw [symIdx_mid _ _ (by omega) h1]; simp [hp]

theorem vget_append (xs ys : List α) (p : Int) (h0 : -(xs.length : Int) ≤ p) (h1 : p < xs.length) :
    vget (xs ++ ys) p = vget xs p := by
  unfold vget
  by_cases hp : p < 0
  · simp only [hp, if_true, List.getD_eq_getElem?_getD]
    rw [List.getElem?_append_left (by omega)]
  · simp only [hp, if_false, List.getD_eq_getElem?_getD]
    rw [List.getElem?_append_left (by omega)]

theorem list_eq_seg_vget (xs : List α) : xs = seg (vget xs) 0 xs.length := by
  apply List.ext_getElem (by simp)
  intro i h1 h2
  simp only [seg_getElem, vget]
  have : ¬ ((0:Int) + (i:Int) < 0) := by omega
  rw [if_neg this]
  simp [List.getD_eq_getElem?_getD, h1]

theorem symPad_eq_seg (xs : List α) (pl pr : Nat) :
    symPad xs pl pr = seg (ext xs) (-(pl : Int)) (pl + xs.length + pr) := by
  unfold symPad seg ext
  apply List.map_congr_left
  intro i _
  congr 2; omega

/-- the reflected first frame: `np.pad(frame, (pl, 0), 'symmetric')` of the first `m` samples is the
segment `[-pl, m)` of the left-reflected signal -/
theorem symPad_first (zs : List α) (m pl : Nat) (hm : m ≤ zs.length) (hpl : pl ≤ m) :
    symPad (zs.take m) pl 0 = seg (vget zs) (-(pl : Int)) (pl + m) := by
  rw [symPad_eq_seg]
  have hlen : (zs.take m).length = m := by simp [hm]
  rw [hlen]
  apply seg_congr
  intro i hi
  rw [ext_eq_vget _ _ (by rw [hlen]; omega) (by rw [hlen]; omega)]
  unfold vget
  by_cases hp : -(pl:Int) + (i:Int) < 0
  · simp only [hp, if_true, List.getD_eq_getElem?_getD]
    rw [List.getElem?_take_of_lt (by omega)]
  · simp only [hp, if_false, List.getD_eq_getElem?_getD]
    rw [List.getElem?_take_of_lt (by omega)]


theorem takeLast_all (l : List α) (k : Nat) (h : l.length ≤ k) : takeLast l k = l := by
  simp [takeLast, Nat.sub_eq_zero_of_le h]

theorem takeLast_seg (f : Int → α) (a : Int) (len k : Nat) (h : k ≤ len) :
    takeLast (seg f a len) k = seg f (a + ((len - k : Nat) : Int)) k := by
  unfold takeLast; rw [seg_length, seg_drop]; congr 1; omega

theorem cut_seg (c : Cfg) (f : Int → α) (a : Int) (len nf : Nat)
    (h : ∀ k, k < nf → k * c.S + c.L ≤ len) :
    cut c (seg f a len) nf = (List.range nf).map fun k => seg f (a + ((k * c.S : Nat) : Int)) c.L := by
  unfold cut
  apply List.map_congr_left
  intro k hk
  rw [seg_drop, seg_take]
  have := h k (List.mem_range.mp hk)
  congr 1; omega

/-! ### what `chunk` does, by kind of state (pure unfolding) -/

theorem chunk_later (c : Cfg) (s : St α) (ch : List α) (hf : s.first = false) :
    chunk c s ch =
      ({ buf := takeLast (s.buf ++ ch) c.L,
         rem := ch.length + s.rem - nfOf c (ch.length + s.rem) c.L * c.S,
         first := false, started := true },
       cut c (takeLast s.buf s.rem ++ ch) (nfOf c (ch.length + s.rem) c.L)) := by
  simp [chunk, hf, nfOf]

theorem chunk_first_causal (c : Cfg) (s : St α) (ch : List α) (hc : c.centered = false) :
    chunk c s ch =
      ({ buf := takeLast (s.buf ++ ch) c.L,
         rem := ch.length + s.rem - nfOf c (ch.length + s.rem) c.L * c.S,
         first := s.first && nfOf c (ch.length + s.rem) c.L == 0, started := true },
       cut c (takeLast s.buf s.rem ++ ch) (nfOf c (ch.length + s.rem) c.L)) := by
  simp [chunk, hc, nfOf]

/-- centred, first frame not yet possible -/
theorem chunk_first_centered_wait (c : Cfg) (s : St α) (ch : List α) (hc : c.centered = true)
    (hf : s.first = true)
    (h : ch.length + s.rem < flen0 c ∨ ch.length + s.rem < c.L / 2 + 1) :
    chunk c s ch =
      ({ buf := takeLast (s.buf ++ ch) c.L, rem := ch.length + s.rem, first := true, started := true },
       []) := by
  rcases h with h | h
  · simp [chunk, hc, hf, h, cut]
  · simp [chunk, hc, hf, h, cut]

/-- centred, first frame emitted in this chunk -/
theorem chunk_first_centered_emit (c : Cfg) (s : St α) (ch : List α) (hc : c.centered = true)
    (hf : s.first = true)
    (h1 : ¬ ch.length + s.rem < flen0 c) (h2 : ¬ ch.length + s.rem < c.L / 2 + 1) :
    chunk c s ch =
      (let pending := takeLast s.buf s.rem ++ ch
       let stream := symPad (pending.take (flen0 c)) (c.L - flen0 c) 0 ++ pending.drop (flen0 c)
       let nf := (ch.length + s.rem - flen0 c) / c.S + 1
       ({ buf := takeLast stream c.L, rem := stream.length - nf * c.S, first := false, started := true },
        cut c stream nf)) := by
  simp [chunk, hc, hf, h1, h2]

/-! ### the canonical state -/

/-- the state after the samples `xs` of the current utterance -/
def canon (c : Cfg) (xs : List α) (st : Bool) : St α :=
  if emitted c xs.length = 0 then { buf := xs, rem := xs.length, first := true, started := st }
  else { buf := seg (vget xs) ((xs.length : Int) - c.L) c.L,
         rem := padL c + xs.length - emitted c xs.length * c.S, first := false, started := st }

/-- frames `a ≤ k < a + len` of a source -/
def framesFrom (c : Cfg) (f : Int → α) (a len : Nat) : List (List α) :=
  (List.range len).map fun k => frameAt c f (a + k)

theorem chunk_canon (c : Cfg) (w : WF c) (xs ys : List α) (st : Bool) :
    chunk c (canon c xs st) ys =
      (canon c (xs ++ ys) true,
       framesFrom c (vget (xs ++ ys)) (emitted c xs.length)
         (emitted c (xs ++ ys).length - emitted c xs.length)) := by
  have hS := w.hS; have hSL := w.hSL
  have hlen : (xs ++ ys).length = xs.length + ys.length := List.length_append
  have hseg := list_eq_seg_vget (xs ++ ys)
  rw [hlen] at hseg
  simp only [canon, hlen]
  by_cases hE : emitted c xs.length = 0
  · -- nothing emitted so far: the buffer is the raw signal
    have hn := emitted_zero_lt w _ hE
    rw [if_pos hE]
    have hpend : takeLast xs xs.length ++ ys = xs ++ ys := by rw [takeLast_all _ _ (Nat.le_refl _)]
    cases hc : c.centered
    · -- causal
      rw [chunk_first_causal c _ ys hc]
      simp only [hpend]
      obtain ⟨a1, a2⟩ := count_first_causal hc xs.length ys.length
      have hp := padL_causal hc
      rw [a2, a1, hE, Nat.sub_zero]
      by_cases hE' : emitted c (xs.length + ys.length) = 0
      · have := emitted_zero_lt w _ hE'
        have hl : (xs ++ ys).length ≤ c.L := by rw [hlen]; omega
        simp [hE', framesFrom, cut, takeLast_all _ _ hl, hp]
      · have hpos : 0 < emitted c (xs.length + ys.length) := Nat.pos_of_ne_zero hE'
        obtain ⟨_, b1, _, _, _⟩ := emitted_pos w _ hpos
        obtain ⟨r1, r2, r3⟩ := rem_bounds w _ hpos
        rw [hp] at b1 r3
        have hcut : cut c (xs ++ ys) (emitted c (xs.length + ys.length))
            = framesFrom c (vget (xs ++ ys)) 0 (emitted c (xs.length + ys.length)) := by
          conv => lhs; rw [hseg]
          rw [cut_seg]
          · unfold framesFrom frameAt; apply List.map_congr_left; intro k _; rw [hp]; congr 1; simp
          · intro k hk
            have : k * c.S ≤ (emitted c (xs.length + ys.length) - 1) * c.S :=
              Nat.mul_le_mul_right _ (by omega)
            omega
        have hbuf : takeLast (xs ++ ys) c.L
            = seg (vget (xs ++ ys)) (((xs.length + ys.length : Nat) : Int) - c.L) c.L := by
          conv => lhs; rw [hseg]
          rw [takeLast_seg _ _ _ _ (by omega)]; congr 1; omega
        simp [hE', hcut, hbuf]
    · -- centred
      have hfl := padL_add_flen0 w hc
      by_cases hw : ys.length + xs.length < flen0 c ∨ ys.length + xs.length < c.L / 2 + 1
      · rw [chunk_first_centered_wait c _ ys hc rfl hw]
        have hE' : emitted c (xs.length + ys.length) = 0 :=
          emitted_centered_wait hc _ (by omega)
        have := emitted_zero_lt w _ hE'
        have hl : (xs ++ ys).length ≤ c.L := by rw [hlen]; omega
        simp [hE', hE, framesFrom, takeLast_all _ _ hl, Nat.add_comm]
      · have h1 : ¬ ys.length + xs.length < flen0 c := by omega
        have h2 : ¬ ys.length + xs.length < c.L / 2 + 1 := by omega
        rw [chunk_first_centered_emit c _ ys hc rfl h1 h2]
        simp only [hpend]
        have hcnt := count_first_centered w hc xs.length ys.length h1 h2
        have hpos : 0 < emitted c (xs.length + ys.length) := by rw [← hcnt]; exact Nat.succ_pos _
        have hE' : emitted c (xs.length + ys.length) ≠ 0 := by omega
        obtain ⟨_, b1, b2, _, b4⟩ := emitted_pos w _ hpos
        obtain ⟨r1, r2, r3⟩ := rem_bounds w _ hpos
        have b4' := b4 hc
        have hpl : c.L - flen0 c = padL c := by omega
        have hle := padL_le_flen0 w
        have hstream : symPad ((xs ++ ys).take (flen0 c)) (c.L - flen0 c) 0 ++ (xs ++ ys).drop (flen0 c)
            = seg (vget (xs ++ ys)) (-(padL c : Int)) (padL c + (xs.length + ys.length)) := by
          rw [hpl, symPad_first _ _ _ (by rw [hlen]; exact b4') hle]
          have hd : (xs ++ ys).drop (flen0 c)
              = seg (vget (xs ++ ys)) (flen0 c) (xs.length + ys.length - flen0 c) := by
            conv => lhs; rw [hseg]
            rw [seg_drop]; congr 1; omega
          rw [hd, seg_append' _ _ _ _ _ (by omega)]
          congr 1; omega
        rw [hstream, hcnt]
        have hcut : cut c (seg (vget (xs ++ ys)) (-(padL c : Int)) (padL c + (xs.length + ys.length)))
              (emitted c (xs.length + ys.length))
            = framesFrom c (vget (xs ++ ys)) 0 (emitted c (xs.length + ys.length)) := by
          rw [cut_seg]
          · unfold framesFrom frameAt; apply List.map_congr_left; intro k _; congr 1; simp; omega
          · intro k hk
            have : k * c.S ≤ (emitted c (xs.length + ys.length) - 1) * c.S :=
              Nat.mul_le_mul_right _ (by omega)
            omega
        have hbuf : takeLast (seg (vget (xs ++ ys)) (-(padL c : Int)) (padL c + (xs.length + ys.length))) c.L
            = seg (vget (xs ++ ys)) (((xs.length + ys.length : Nat) : Int) - c.L) c.L := by
          rw [takeLast_seg _ _ _ _ (by omega)]; congr 1; omega
        simp [hE', hE, hcut, hbuf]
  · -- frames have been emitted already
    have hpos : 0 < emitted c xs.length := Nat.pos_of_ne_zero hE
    obtain ⟨_, b1, b2, _, _⟩ := emitted_pos w _ hpos
    obtain ⟨r1, r2, r3⟩ := rem_bounds w _ hpos
    rw [if_neg hE, chunk_later c _ ys rfl]
    obtain ⟨a1, a2, a3⟩ := count_later w xs.length ys.length hpos
    simp only at a1 a2 a3 ⊢
    rw [a3, a1]
    have hpos' : 0 < emitted c (xs.length + ys.length) := by omega
    have hE' : emitted c (xs.length + ys.length) ≠ 0 := by omega
    -- the old buffer, read through the longer signal
    have hold : seg (vget xs) ((xs.length : Int) - c.L) c.L
        = seg (vget (xs ++ ys)) ((xs.length : Int) - c.L) c.L := by
      apply seg_congr; intro i hi
      rw [vget_append _ _ _ (by omega) (by omega)]
    have hys : ys = seg (vget (xs ++ ys)) (xs.length : Int) ys.length := by
      have hd : (xs ++ ys).drop xs.length = ys := by simp
      conv => lhs; rw [← hd, hseg]
      rw [seg_drop]; congr 1 <;> simp
    have happ : ∀ (a : Int) (m : Nat), a + m = xs.length →
        seg (vget (xs ++ ys)) a m ++ ys = seg (vget (xs ++ ys)) a (m + ys.length) := by
      intro a m h
      have h' := seg_append' (vget (xs ++ ys)) a m ys.length (xs.length) (by omega)
      rw [← hys] at h'
      exact h'
    have hbuf : takeLast (seg (vget xs) ((xs.length : Int) - c.L) c.L ++ ys) c.L
        = seg (vget (xs ++ ys)) (((xs.length + ys.length : Nat) : Int) - c.L) c.L := by
      rw [hold, happ _ _ (by omega), takeLast_seg _ _ _ _ (by omega)]
      congr 1; omega
    have hpend : takeLast (seg (vget xs) ((xs.length : Int) - c.L) c.L)
          (padL c + xs.length - emitted c xs.length * c.S) ++ ys
        = seg (vget (xs ++ ys)) (((emitted c xs.length * c.S : Nat) : Int) - padL c)
            (padL c + xs.length - emitted c xs.length * c.S + ys.length) := by
      rw [hold, takeLast_seg _ _ _ _ (by omega), happ _ _ (by omega)]
      congr 1; omega
    rw [hbuf, hpend]
    obtain ⟨r1', r2', r3'⟩ := rem_bounds w _ hpos'
    have hcut : cut c (seg (vget (xs ++ ys)) (((emitted c xs.length * c.S : Nat) : Int) - padL c)
          (padL c + xs.length - emitted c xs.length * c.S + ys.length))
          (emitted c (xs.length + ys.length) - emitted c xs.length)
        = framesFrom c (vget (xs ++ ys)) (emitted c xs.length)
            (emitted c (xs.length + ys.length) - emitted c xs.length) := by
      rw [cut_seg]
      · unfold framesFrom frameAt; apply List.map_congr_left; intro k _; congr 1
        rw [Nat.add_mul]; simp; omega
      · intro k hk
        have h3 : (emitted c xs.length + k) * c.S ≤ (emitted c (xs.length + ys.length) - 1) * c.S :=
          Nat.mul_le_mul_right _ (by omega)
        rw [Nat.add_mul] at h3
        omega
    rw [hcut]
    simp [hE']

/-! ### finalize -/

theorem finalize_first (c : Cfg) (buf : List α) (rem : Nat) (st : Bool) :
    (finalize c { buf := buf, rem := rem, first := true, started := st }).2 =
      (let nf := if rem < c.L / 2 + 1 then 0 else (((rem : Int) + (c.S : Int) / 2 - 0) / (c.S : Int)).toNat
       if nf ≥ 1 then
         cut c ((symPad buf (padL c) ((((nf : Int) - 1) * c.S + c.L - rem) - (padL c : Nat)).toNat).drop
           (buf.length - rem)) nf
       else []) := by
  unfold finalize
  by_cases h : rem < c.L / 2 + 1 <;> simp only [h, Bool.true_and, decide_true, decide_false, if_true, if_false] <;> rfl

theorem finalize_later (c : Cfg) (buf : List α) (rem : Nat) (st : Bool) :
    (finalize c { buf := buf, rem := rem, first := false, started := st }).2 =
      (let nf := (((rem : Int) + (c.S : Int) / 2 - (padL c : Nat)) / (c.S : Int)).toNat
       if nf ≥ 1 then
         cut c ((symPad buf 0 ((((nf : Int) - 1) * c.S + c.L - rem) - (0 : Nat)).toNat).drop
           (buf.length - rem)) nf
       else []) := by
  unfold finalize
  simp only [Bool.false_and, if_false, Bool.false_eq_true]

/-- reflecting the last frame's worth of history about its end is reflecting the whole signal -/
theorem symPad_hist (c : Cfg) (xs : List α) (pr : Nat) (hpr : pr ≤ c.L)
    (h1 : c.L ≤ padL c + xs.length) (h2 : padL c ≤ xs.length) :
    symPad (seg (vget xs) ((xs.length : Int) - c.L) c.L) 0 pr
      = seg (ext xs) ((xs.length : Int) - c.L) (c.L + pr) := by
  rw [symPad_eq_seg]
  have h0 : (-(((0:Nat)) : Int)) = 0 := by simp
  rw [h0]
  simp only [seg_length, Nat.zero_add]
  apply seg_congr'
  intro i hi
  unfold ext
  simp only [seg_length]
  by_cases hiL : i < c.L
  · rw [symIdx_mid _ _ (by omega) (by omega)]
    rw [seg_getD _ _ _ _ _ (by omega)]
    have := ext_eq_vget xs ((xs.length : Int) - c.L + i) (by omega) (by omega)
    unfold ext at this
    rw [this]; congr 1; omega
  · rw [symIdx_right _ _ (by omega) (by omega)]
    rw [seg_getD _ _ _ _ _ (by omega)]
    by_cases ht : i - c.L < xs.length
    · rw [symIdx_right _ _ (by omega) (by omega)]
      unfold vget
      have : ¬ ((xs.length : Int) - c.L + ((2 * (c.L : Int) - 1 - ((0:Int) + i)).toNat : Nat) < 0) := by omega
      rw [if_neg this]; congr 1; omega
    · rw [symIdx_right2 _ _ (by omega) (by omega)]
      unfold vget
      have : ((xs.length : Int) - c.L + ((2 * (c.L : Int) - 1 - ((0:Int) + i)).toNat : Nat) < 0) := by omega
      rw [if_pos this]; congr 1; omega

theorem finalize_canon (c : Cfg) (w : WF c) (xs : List α) (st : Bool) :
    (finalize c (canon c xs st)).2 =
      framesFrom c (ext xs) (emitted c xs.length) (numFull c xs.length - emitted c xs.length) := by
  have hS := w.hS; have hSL := w.hSL
  by_cases hE : emitted c xs.length = 0
  · have hn := emitted_zero_lt w _ hE
    simp only [canon, hE, if_true]
    rw [finalize_first]
    simp only [Nat.sub_self, List.drop_zero]
    rw [fin_count_first]
    by_cases hshort : xs.length < c.L / 2 + 1
    · simp [hshort, numFull, framesFrom]
    · have hF : numFull c xs.length = (xs.length + c.S / 2) / c.S := by simp [numFull, hshort]
      simp only [hshort, if_false]
      rw [← hF]
      by_cases hnf : numFull c xs.length ≥ 1
      · rw [if_pos hnf, symPad_eq_seg, cut_seg]
        · unfold framesFrom frameAt; apply List.map_congr_left; intro k _; congr 1; simp; omega
        · intro k hk
          have : k * c.S ≤ (numFull c xs.length - 1) * c.S := Nat.mul_le_mul_right _ (by omega)
          have e : ((numFull c xs.length : Int) - 1) * c.S = (((numFull c xs.length - 1) * c.S : Nat) : Int) := by
            rw [Int.natCast_mul]; congr 1; omega
          rw [e]; omega
      · have : numFull c xs.length = 0 := by omega
        simp [this, framesFrom]
  · have hpos : 0 < emitted c xs.length := Nat.pos_of_ne_zero hE
    obtain ⟨_, b1, b2, b3, _⟩ := emitted_pos w _ hpos
    obtain ⟨r1, r2, r3⟩ := rem_bounds w _ hpos
    simp only [canon, hE, if_false]
    rw [finalize_later]
    simp only [seg_length]
    rw [fin_count_later w _ hpos]
    by_cases hnf : numFull c xs.length - emitted c xs.length ≥ 1
    · rw [if_pos hnf]
      have hF := numFull_pos_of_emitted w _ hpos
      -- pr = (nf-1)·S + L - rem ≤ L
      obtain ⟨d1, d2⟩ := div_facts (xs.length + c.S / 2) c.S hS
      rw [← hF] at d1 d2
      have hmul : (numFull c xs.length - emitted c xs.length - 1) * c.S + emitted c xs.length * c.S + c.S
          = c.S * numFull c xs.length := by
        have : numFull c xs.length = (numFull c xs.length - emitted c xs.length - 1) + emitted c xs.length + 1 := by omega
        conv => rhs; rw [this]
        simp [Nat.mul_add, Nat.mul_comm]
      have e : (((numFull c xs.length - emitted c xs.length : Nat) : Int) - 1) * c.S
          = (((numFull c xs.length - emitted c xs.length - 1) * c.S : Nat) : Int) := by
        rw [Int.natCast_mul]; congr 1; omega
      rw [e]
      generalize hq : (numFull c xs.length - emitted c xs.length - 1) * c.S = q at *
      have hpr : ((q : Int) + c.L - ((padL c + xs.length - emitted c xs.length * c.S : Nat) : Int) - ((0:Nat):Int)).toNat
          = q + c.L - (padL c + xs.length - emitted c xs.length * c.S) := by omega
      rw [hpr, symPad_hist c xs _ (by omega) b1 b2, seg_drop, cut_seg]
      · unfold framesFrom frameAt; apply List.map_congr_left; intro k _; congr 1
        rw [Nat.add_mul]; simp; omega
      · intro k hk
        have : k * c.S ≤ q := by rw [← hq]; exact Nat.mul_le_mul_right _ (by omega)
        omega
    · have : numFull c xs.length - emitted c xs.length = 0 := by omega
      simp [this, framesFrom]

/-! ### compute_full -/

/-- `compute_full`'s frames in closed form — no hypothesis on the configuration (in particular also for
`frame_shift > frame_length`, which `compute_full` supports) -/
theorem full_eq' (c : Cfg) (xs : List α) :
    full c xs = framesFrom c (ext xs) 0 (numFull c xs.length) := by
  unfold full
  simp only
  by_cases hshort : xs.length < c.L / 2 + 1
  · simp [hshort, numFull, framesFrom]
  · have hF : numFull c xs.length = (xs.length + c.S / 2) / c.S := by simp [numFull, hshort]
    rw [if_neg hshort, ← hF, symPad_eq_seg, cut_seg]
    · unfold framesFrom frameAt; apply List.map_congr_left; intro k _; congr 1; simp; omega
    · intro k hk
      have : k * c.S ≤ (numFull c xs.length - 1) * c.S := Nat.mul_le_mul_right _ (by omega)
      have e : ((numFull c xs.length : Int) - 1) * c.S = (((numFull c xs.length - 1) * c.S : Nat) : Int) := by
        rw [Int.natCast_mul]; congr 1; omega
      rw [e]; omega

theorem full_eq (c : Cfg) (_w : WF c) (xs : List α) :
    full c xs = framesFrom c (ext xs) 0 (numFull c xs.length) := full_eq' c xs

end PdsVerif.StftCanon

/-
  Lemmas about the SPHERE model: `unpack` (np.frombuffer), `mapE`, the read loop invariant,
  `reads`, item encode/decode.  Core Lean only.
-/
import PdsVerif.Model.Sphere

namespace PdsVerif.Model.Sphere
open PdsVerif.Gen.Sphere

/-! ## unpack -/

theorem unpack_append_of_le (k : Nat) (dec : Bytes → Int) :
    ∀ (c : Nat) (a b : Bytes), c * k ≤ a.length → unpack k dec c (a ++ b) = unpack k dec c a := by
  intro c
  induction c with
  | zero => intro a b _; simp [unpack]
  | succ c ih =>
    intro a b h
    have hk : k ≤ a.length := by
      have : k ≤ (c + 1) * k := Nat.le_mul_of_pos_left k (Nat.succ_pos c)
      omega
    simp only [unpack]
    rw [List.take_append_of_le_length hk, List.drop_append_of_le_length hk]
    rw [ih]
    simp only [List.length_drop]
    have : (c + 1) * k = c * k + k := Nat.succ_mul c k
    omega

theorem unpack_add (k : Nat) (dec : Bytes → Int) :
    ∀ (c1 c2 : Nat) (a : Bytes), c1 * k ≤ a.length →
      unpack k dec (c1 + c2) a = unpack k dec c1 a ++ unpack k dec c2 (a.drop (c1 * k)) := by
  intro c1
  induction c1 with
  | zero => intro c2 a _; simp [unpack]
  | succ c ih =>
    intro c2 a h
    have e : c + 1 + c2 = (c + c2) + 1 := by omega
    have hmul : (c + 1) * k = c * k + k := Nat.succ_mul c k
    rw [e]
    simp only [unpack]
    rw [ih c2 (a.drop k) (by simp only [List.length_drop]; omega)]
    simp only [List.drop_drop, List.cons_append]
    rw [hmul, Nat.add_comm (c * k) k]

theorem length_unpack (k : Nat) (dec : Bytes → Int) : ∀ (c : Nat) (a : Bytes), (unpack k dec c a).length = c := by
  intro c
  induction c with
  | zero => intro a; simp [unpack]
  | succ c ih => intro a; simp [unpack, ih]

theorem unpack_flatMap (k : Nat) (dec : Bytes → Int) (enc : Int → Bytes)
    (hlen : ∀ x, (enc x).length = k) :
    ∀ (xs : List Int) (rest : Bytes), (∀ x ∈ xs, dec (enc x) = x) →
      unpack k dec xs.length (xs.flatMap enc ++ rest) = xs := by
  intro xs
  induction xs with
  | nil => intro rest _; simp [unpack]
  | cons x xs ih =>
    intro rest h
    simp only [List.length_cons, unpack, List.flatMap_cons, List.append_assoc]
    have hx : (enc x).length ≤ k := Nat.le_of_eq (hlen x)
    rw [List.take_append_of_le_length (by rw [hlen x]; exact Nat.le_refl k), List.drop_append_of_le_length (by rw [hlen x]; exact Nat.le_refl k)]
    rw [← hlen x, List.take_length, List.drop_length, List.nil_append]
    rw [hlen x, ih rest (fun y hy => h y (List.mem_cons_of_mem _ hy)), h x List.mem_cons_self]

/-! ## mapE -/

theorem mapE_eq_map {α β : Type} (f : α → Except Err β) (g : α → β) :
    ∀ (l : List α), (∀ x ∈ l, f x = .ok (g x)) → mapE f l = .ok (l.map g) := by
  intro l
  induction l with
  | nil => intro _; rfl
  | cons a t ih =>
    intro h
    simp only [mapE, h a List.mem_cons_self, ih (fun x hx => h x (List.mem_cons_of_mem _ hx)), List.map_cons]

/-! ## the read loop -/

theorem shn_magic_len : SHN_MAGIC.length = SHN_MAGIC_LEN := by decide

/-- number of frames the loop still delivers from `avail` bytes -/
def framesLeft (p : Plan) (st : St) (avail : Nat) : Nat := min (p.count - st.done) (avail / p.frame)

/--
  Invariant of `while sampsdone < sampcount`: whatever the sizes of the (non-empty) reads, the loop
  delivers exactly the first `min (count - done) (avail / frame)` whole frames of
  `leftover ++ (all bytes still to be read)`; the bytes of a partial frame are carried in `leftover`.
-/
theorem copyLoop_spec (p : Plan) (f : Int → Int)
    (hframe : p.frame = p.chans * p.itemBytes) (hpos : 0 < p.frame)
    (hitem : ∀ (c : Nat) (bs : Bytes), (∀ b ∈ bs, b < 256) →
      mapE p.item (unpack p.itemBytes p.dec c bs) = .ok ((unpack p.itemBytes p.dec c bs).map f)) :
    ∀ (rs : List Bytes) (st : St), (∀ r ∈ rs, r ≠ []) →
      (∀ b ∈ st.left ++ rs.flatten, b < 256) →
      (st.done < p.count → st.left.length < p.frame) →
      (st.done = 0 → (st.left ++ rs.flatten).take SHN_MAGIC_LEN ≠ SHN_MAGIC) →
      ∃ st', copyLoop p rs st = .ok st' ∧
        st'.done = st.done + framesLeft p st (st.left ++ rs.flatten).length ∧
        st'.out = st.out ++
          (unpack p.itemBytes p.dec (framesLeft p st (st.left ++ rs.flatten).length * p.chans)
            (st.left ++ rs.flatten)).map f := by
  intro rs
  induction rs with
  | nil =>
    intro st _ _ hl _
    refine ⟨st, rfl, ?_, ?_⟩
    · simp only [framesLeft, List.flatten_nil, List.append_nil]
      by_cases h : st.done < p.count
      · have := hl h
        rw [Nat.div_eq_of_lt this]; simp
      · have : p.count - st.done = 0 := by omega
        rw [this]; simp
    · have h0 : framesLeft p st (st.left ++ ([] : List Bytes).flatten).length = 0 := by
        simp only [framesLeft, List.flatten_nil, List.append_nil]
        by_cases h : st.done < p.count
        · have := hl h
          rw [Nat.div_eq_of_lt this]; simp
        · have : p.count - st.done = 0 := by omega
          rw [this]; simp
      rw [h0]; simp [unpack]
  | cons r rs ih =>
    intro st hne hb hl hm
    have hr : r ≠ [] := hne r List.mem_cons_self
    by_cases hlt : st.done < p.count
    · -- one more read is processed
      have hflat : st.left ++ (r :: rs).flatten = (st.left ++ r) ++ rs.flatten := by
        simp [List.flatten_cons, List.append_assoc]
      have hnomagic : ¬ (st.done = 0 ∧ (st.left ++ r).take SHN_MAGIC_LEN = SHN_MAGIC) := by
        rintro ⟨h0, hmg⟩
        apply hm h0
        rw [hflat]
        have hlen : SHN_MAGIC_LEN ≤ (st.left ++ r).length := by
          have := congrArg List.length hmg
          rw [List.length_take, shn_magic_len] at this
          omega
        rw [List.take_append_of_le_length hlen]; exact hmg
      -- abbreviations
      generalize hbuf : st.left ++ r = buf at *
      generalize hns0 : buf.length / p.frame = ns0 at *
      let ns := if st.done + ns0 > p.count then p.count - st.done else ns0
      have hns_le0 : ns ≤ ns0 := by
        show (if st.done + ns0 > p.count then p.count - st.done else ns0) ≤ ns0
        split <;> omega
      have hns_le : ns ≤ p.count - st.done := by
        show (if st.done + ns0 > p.count then p.count - st.done else ns0) ≤ p.count - st.done
        split <;> omega
      have hnb : ns * p.frame ≤ buf.length := by
        have h1 : ns * p.frame ≤ ns0 * p.frame := Nat.mul_le_mul_right _ hns_le0
        have h2 : ns0 * p.frame ≤ buf.length := by rw [← hns0]; exact Nat.div_mul_le_self _ _
        omega
      have hbbuf : ∀ b ∈ buf, b < 256 := by
        intro b hbm; apply hb b; rw [hflat]; exact List.mem_append_left _ hbm
      have hstep : copyLoop p (r :: rs) st =
          copyLoop p rs { left := buf.drop (ns * p.frame), done := st.done + ns,
                          out := st.out ++ (unpack p.itemBytes p.dec (ns * p.chans) buf).map f } := by
        rw [copyLoop]
        simp only [hlt, if_true, hbuf, hns0]
        have : r.isEmpty = false := by cases r with | nil => exact absurd rfl hr | cons _ _ => rfl
        simp only [this, Bool.false_eq_true, if_false, hnomagic, hitem _ _ hbbuf]
        rfl
      -- induction hypothesis on the new state
      have hmulF : ns * p.chans * p.itemBytes = ns * p.frame := by rw [hframe, Nat.mul_assoc]
      obtain ⟨st', hrun, hdone, hout⟩ := ih
        { left := buf.drop (ns * p.frame), done := st.done + ns,
          out := st.out ++ (unpack p.itemBytes p.dec (ns * p.chans) buf).map f }
        (fun x hx => hne x (List.mem_cons_of_mem _ hx))
        (by
          intro b hbm
          apply hb b; rw [hflat]
          rcases List.mem_append.mp hbm with h | h
          · exact List.mem_append_left _ (List.mem_of_mem_drop h)
          · exact List.mem_append_right _ h)
        (by
          intro hlt'
          show (buf.drop (ns * p.frame)).length < p.frame
          have hns_eq : ns = ns0 := by
            show (if st.done + ns0 > p.count then p.count - st.done else ns0) = ns0
            split
            · rename_i hc
              exfalso
              have : ns = p.count - st.done := by
                show (if st.done + ns0 > p.count then p.count - st.done else ns0) = _
                rw [if_pos hc]
              simp only at hlt'; omega
            · rfl
          rw [List.length_drop, hns_eq, ← hns0]
          have := Nat.mod_lt buf.length hpos
          have h3 := Nat.div_add_mod buf.length p.frame
          rw [Nat.mul_comm] at h3
          omega)
        (by
          intro h0
          have hns0' : ns = 0 := by simp only at h0; omega
          show ((buf.drop (ns * p.frame)) ++ rs.flatten).take SHN_MAGIC_LEN ≠ SHN_MAGIC
          rw [hns0', Nat.zero_mul, List.drop_zero, ← hflat]
          exact hm (by simp only at h0; omega))
      refine ⟨st', by rw [hstep]; exact hrun, ?_, ?_⟩
      · -- frame count
        rw [hdone]
        simp only [framesLeft, hflat, List.length_append, List.length_drop]
        have hq : (buf.length - ns * p.frame + rs.flatten.length) / p.frame
            = (buf.length + rs.flatten.length) / p.frame - ns := by
          have : buf.length - ns * p.frame + rs.flatten.length = (buf.length + rs.flatten.length) - p.frame * ns := by
            rw [Nat.mul_comm p.frame ns]; omega
          rw [this, Nat.sub_mul_div]
        rw [hq]
        have hq2 : ns0 ≤ (buf.length + rs.flatten.length) / p.frame := by
          rw [← hns0]; exact Nat.div_le_div_right (Nat.le_add_right _ _)
        generalize (buf.length + rs.flatten.length) / p.frame = q at *
        omega
      · -- delivered samples
        rw [hout]
        simp only [framesLeft, hflat, List.length_append, List.length_drop]
        have hq : (buf.length - ns * p.frame + rs.flatten.length) / p.frame
            = (buf.length + rs.flatten.length) / p.frame - ns := by
          have : buf.length - ns * p.frame + rs.flatten.length = (buf.length + rs.flatten.length) - p.frame * ns := by
            rw [Nat.mul_comm p.frame ns]; omega
          rw [this, Nat.sub_mul_div]
        rw [hq]
        have hq2 : ns0 ≤ (buf.length + rs.flatten.length) / p.frame := by
          rw [← hns0]; exact Nat.div_le_div_right (Nat.le_add_right _ _)
        generalize (buf.length + rs.flatten.length) / p.frame = q at *
        have hm' : min (p.count - (st.done + ns)) (q - ns) = min (p.count - st.done) q - ns := by omega
        have hsum : min (p.count - st.done) q = ns + (min (p.count - st.done) q - ns) := by omega
        rw [hm']
        generalize min (p.count - st.done) q - ns = m' at *
        have key : unpack p.itemBytes p.dec ((ns + m') * p.chans) (buf ++ rs.flatten)
            = unpack p.itemBytes p.dec (ns * p.chans) buf
              ++ unpack p.itemBytes p.dec (m' * p.chans) (buf.drop (ns * p.frame) ++ rs.flatten) := by
          rw [Nat.add_mul, unpack_add p.itemBytes p.dec (ns * p.chans) (m' * p.chans) (buf ++ rs.flatten)
            (by rw [hmulF, List.length_append]; omega)]
          rw [unpack_append_of_le p.itemBytes p.dec (ns * p.chans) buf rs.flatten (by rw [hmulF]; exact hnb)]
          rw [hmulF, List.drop_append_of_le_length hnb]
        rw [hsum, key]
        simp only [List.map_append, List.append_assoc]
    · -- loop condition false
      refine ⟨st, ?_, ?_, ?_⟩
      · rw [copyLoop]; simp only [hlt, if_false]
      · have : p.count - st.done = 0 := by omega
        simp [framesLeft, this]
      · have : p.count - st.done = 0 := by omega
        simp [framesLeft, this, unpack]

/-! ## reads of a regular file -/

theorem chunks_flatten (n : Nat) (hn : 0 < n) :
    ∀ (fuel : Nat) (d : Bytes), d.length ≤ fuel → (chunks n fuel d).flatten = d := by
  intro fuel
  induction fuel with
  | zero =>
    intro d h
    have : d = [] := List.eq_nil_of_length_eq_zero (by omega)
    simp [chunks, this]
  | succ fuel ih =>
    intro d h
    cases d with
    | nil => simp [chunks]
    | cons b t =>
      have hn0 : n ≠ 0 := by omega
      simp only [chunks, List.isEmpty_cons, Bool.false_eq_true, hn0, or_self, if_false, List.flatten_cons]
      rw [ih _ (by simp only [List.length_drop, List.length_cons] at *; omega)]
      exact List.take_append_drop n (b :: t)

theorem chunks_ne_nil (n : Nat) :
    ∀ (fuel : Nat) (d : Bytes), ∀ r ∈ chunks n fuel d, r ≠ [] := by
  intro fuel
  induction fuel with
  | zero => intro d r h; simp [chunks] at h
  | succ fuel ih =>
    intro d r h
    cases d with
    | nil => simp [chunks] at h
    | cons b t =>
      by_cases hn0 : n = 0
      · simp [chunks, hn0] at h
      · simp only [chunks, List.isEmpty_cons, Bool.false_eq_true, hn0, or_self, if_false, List.mem_cons] at h
        rcases h with h | h
        · rw [h]
          cases n with
          | zero => exact absurd rfl hn0
          | succ m => simp
        · exact ih _ r h

theorem reads_flatten (n : Nat) (hn : 0 < n) (d : Bytes) : (reads n d).flatten = d :=
  chunks_flatten n hn d.length d (Nat.le_refl _)

theorem reads_ne_nil (n : Nat) (d : Bytes) : ∀ r ∈ reads n d, r ≠ [] :=
  chunks_ne_nil n d.length d

/-! ## `copy_samples` delivers the whole frames present, capped by the promised count -/

/-- frames delivered from `avail` data bytes -/
def delivered (p : Plan) (avail : Nat) : Nat := min p.count (avail / p.frame)

theorem copySamplesReads_spec (h : Header) (dtype : Option DT) (p : Plan) (f : Int → Int)
    (hp : mkPlan h dtype = .ok p)
    (hframe : p.frame = p.chans * p.itemBytes) (hpos : 0 < p.frame)
    (hitem : ∀ (c : Nat) (bs : Bytes), (∀ b ∈ bs, b < 256) →
      mapE p.item (unpack p.itemBytes p.dec c bs) = .ok ((unpack p.itemBytes p.dec c bs).map f))
    (rs : List Bytes) (hne : ∀ r ∈ rs, r ≠ [])
    (hb : ∀ b ∈ rs.flatten, b < 256)
    (hm : rs.flatten.take SHN_MAGIC_LEN ≠ SHN_MAGIC) :
    copySamplesReads h dtype rs = .ok
      { dtype := p.dtype
        shape := shapeOf p.chans (delivered p rs.flatten.length)
        samples := (unpack p.itemBytes p.dec (delivered p rs.flatten.length * p.chans) rs.flatten).map f
        warn := delivered p rs.flatten.length != p.count } := by
  obtain ⟨st', hrun, hdone, hout⟩ := copyLoop_spec p f hframe hpos hitem rs {} hne
    (by simpa using hb) (by intro _; exact hpos) (by intro _; simpa using hm)
  simp only [copySamplesReads, hp, hrun]
  have e : framesLeft p {} (([] : Bytes) ++ rs.flatten).length = delivered p rs.flatten.length := by
    simp [framesLeft, delivered]
  have hdone' : st'.done = delivered p rs.flatten.length := by
    rw [hdone, e]; simp
  have hout' : st'.out = (unpack p.itemBytes p.dec (delivered p rs.flatten.length * p.chans) rs.flatten).map f := by
    rw [hout, e]; simp
  rw [hdone', hout']

/-! ## items, plans -/

theorem length_encLE : ∀ (k : Nat) (x : Int), (encLE k x).length = k := by
  intro k; induction k with
  | zero => intro x; rfl
  | succ k ih => intro x; simp [encLE, ih]

theorem length_encItem (k : Nat) (be : Bool) (x : Int) : (encItem k be x).length = k := by
  unfold encItem; split <;> simp [length_encLE]

theorem encLE_lt : ∀ (k : Nat) (x : Int), ∀ b ∈ encLE k x, b < 256 := by
  intro k; induction k with
  | zero => intro x b h; simp [encLE] at h
  | succ k ih =>
    intro x b h
    simp only [encLE, List.mem_cons] at h
    rcases h with h | h
    · omega
    · exact ih _ b h

theorem encItem_lt (k : Nat) (be : Bool) (x : Int) : ∀ b ∈ encItem k be x, b < 256 := by
  intro b h
  unfold encItem at h
  split at h
  · exact encLE_lt k x b (List.mem_reverse.mp h)
  · exact encLE_lt k x b h

theorem decItem_encItem_i16 (be : Bool) (x : Int) (h : -32768 ≤ x ∧ x < 32768) :
    decItem 2 true be (encItem 2 be x) = x := by
  have e : (if be then (encItem 2 be x).reverse else encItem 2 be x) = encLE 2 x := by
    cases be <;> simp [encItem]
  simp only [decItem, e, encLE, unsignedLE]
  simp only [Bool.true_and, decide_eq_true_eq]
  split <;> omega

theorem decItem_encItem_u8 (be : Bool) (x : Int) (h : 0 ≤ x ∧ x < 256) :
    decItem 1 false be (encItem 1 be x) = x := by
  have e : (if be then (encItem 1 be x).reverse else encItem 1 be x) = encLE 1 x := by
    cases be <;> simp [encItem, encLE]
  simp only [decItem, e, encLE, unsignedLE]
  simp
  omega



/-- a parsed header that says what `s`, `count` say (sample rate and, for 1-byte codings, byte order are free) -/
structure Matches (h : Header) (s : Spec) (count : Nat) : Prop where
  samptype : h.samptype = s.codingText
  sampsize : h.sampsize = .int s.nbytes
  sampcount : h.sampcount = .int count
  chancount : h.chancount = .int s.chans
  inporder : s.coding = .pcm → h.inporder = some (.str s.orderText)

theorem plan_pcm (h : Header) (s : Spec) (count : Nat) (hm : Matches h s count) (hc : s.coding = .pcm)
    (hchans : 1 ≤ s.chans) (hcount : 1 ≤ count) :
    ∃ p, mkPlan h none = .ok p ∧ p.frame = s.chans * 2 ∧ p.chans = s.chans ∧ p.count = count ∧ p.itemBytes = 2
      ∧ p.dec = decItem 2 true s.be ∧ (∀ x, p.item x = .ok (wrapS 16 x)) ∧ p.dtype = .i16 := by
  obtain ⟨samptype, sampsize, sampcount, samprate, chancount, inporder⟩ := h
  obtain ⟨h1, h2, h3, h4, h5⟩ := hm
  simp only at h1 h2 h3 h4 h5
  have h5 := h5 hc
  subst h1 h2 h3 h4 h5
  simp [mkPlan, Spec.nbytes, Spec.codingText, hc, IN_TYPES, DT.ofKind, ALAW, ULAW, DT.itemsize, DT.cast]
  have hbe : decide (s.orderText = BE_FLAG) = s.be := by
    cases hbe : s.be <;> simp [Spec.orderText, hc, hbe, BE_FLAG]
  rw [if_neg (by omega), hbe]
  exact ⟨_, rfl, rfl, rfl, rfl, rfl, rfl, fun _ => rfl, rfl⟩



/-- the table as a total function (only ever used inside its range) -/
def tableFn (table : List Int) (x : Int) : Int := table.getD x.toNat 0

theorem lookup_ok (table : List Int) (x : Int) (h0 : 0 ≤ x) (h1 : x < table.length) :
    lookup table x = .ok (tableFn table x) := by
  unfold lookup tableFn
  have hx : ¬ x < 0 := by omega
  simp only [hx, if_false]
  have hlt : x.toNat < table.length := by omega
  simp [h0, h1, List.getD_eq_getElem?_getD]

theorem unpack_u8_range (be : Bool) :
    ∀ (c : Nat) (bs : Bytes), (∀ b ∈ bs, b < 256) →
      ∀ x ∈ unpack 1 (decItem 1 false be) c bs, 0 ≤ x ∧ x < 256 := by
  intro c
  induction c with
  | zero => intro bs _ x h; simp [unpack] at h
  | succ c ih =>
    intro bs hb x h
    simp only [unpack, List.mem_cons] at h
    rcases h with h | h
    · subst h
      cases bs with
      | nil => simp [decItem, unsignedLE]
      | cons b t =>
        have := hb b List.mem_cons_self
        cases be <;> simp [decItem, unsignedLE] <;> omega
    · exact ih _ (fun b hb' => hb b (List.mem_of_mem_drop hb')) x h

theorem plan_g711_expand (h : Header) (s : Spec) (count : Nat) (hm : Matches h s count) (hc : s.coding ≠ .pcm)
    (hchans : 1 ≤ s.chans) (hcount : 1 ≤ count) :
    ∃ p, mkPlan h none = .ok p ∧ p.frame = s.chans * 1 ∧ p.chans = s.chans ∧ p.count = count ∧ p.itemBytes = 1
      ∧ p.dec = decItem 1 false (decide (h.inporder = some (.str BE_FLAG)))
      ∧ (∀ x, p.item x = (lookup (if s.coding = .alaw then ALAW2PCM else ULAW2PCM) x).map (wrapS 16))
      ∧ p.dtype = .i16 := by
  obtain ⟨samptype, sampsize, sampcount, samprate, chancount, inporder⟩ := h
  obtain ⟨h1, h2, h3, h4, _⟩ := hm
  simp only at h1 h2 h3 h4
  subst h1 h2 h3 h4
  cases hcd : s.coding with
  | pcm => exact absurd hcd hc
  | ulaw =>
    simp [mkPlan, Spec.nbytes, Spec.codingText, hcd, IN_TYPES, DT.ofKind, ALAW, ULAW, DT.itemsize,
      G711_DEFAULT_DTYPE]
    rw [if_neg (by omega)]
    exact ⟨_, rfl, rfl, rfl, rfl, rfl, rfl, fun _ => rfl, rfl⟩
  | alaw =>
    simp [mkPlan, Spec.nbytes, Spec.codingText, hcd, IN_TYPES, DT.ofKind, ALAW, ULAW, DT.itemsize,
      G711_DEFAULT_DTYPE]
    rw [if_neg (by omega)]
    exact ⟨_, rfl, rfl, rfl, rfl, rfl, rfl, fun _ => rfl, rfl⟩

theorem plan_g711_raw (h : Header) (s : Spec) (count : Nat) (hm : Matches h s count) (hc : s.coding ≠ .pcm)
    (hchans : 1 ≤ s.chans) (hcount : 1 ≤ count) (dt : DT) (hdt : dt = .u8 ∨ dt = .i8) :
    ∃ p, mkPlan h (some dt) = .ok p ∧ p.frame = s.chans * 1 ∧ p.chans = s.chans ∧ p.count = count ∧ p.itemBytes = 1
      ∧ p.dec = decItem 1 false (decide (h.inporder = some (.str BE_FLAG)))
      ∧ (∀ x, p.item x = .ok (dt.cast x))
      ∧ p.dtype = dt := by
  obtain ⟨samptype, sampsize, sampcount, samprate, chancount, inporder⟩ := h
  obtain ⟨h1, h2, h3, h4, _⟩ := hm
  simp only at h1 h2 h3 h4
  subst h1 h2 h3 h4
  rcases hdt with rfl | rfl <;> cases hcd : s.coding with
  | pcm => exact absurd hcd hc
  | _ =>
    simp [mkPlan, Spec.nbytes, Spec.codingText, hcd, IN_TYPES, DT.ofKind, ALAW, ULAW, DT.itemsize, DT.cast]
    rw [if_neg (by omega)]
    exact ⟨_, rfl, rfl, rfl, rfl, rfl, rfl, fun _ => rfl, rfl⟩


/-! ## whole files -/

theorem length_flatMap_const (enc : Int → Bytes) (k : Nat) (hlen : ∀ x, (enc x).length = k) :
    ∀ (xs : List Int), (xs.flatMap enc).length = xs.length * k := by
  intro xs
  induction xs with
  | nil => simp
  | cons x xs ih => simp only [List.flatMap_cons, List.length_append, hlen, ih, List.length_cons, Nat.succ_mul]; omega

theorem take_flatMap_split (enc : Int → Bytes) (k : Nat) (hlen : ∀ x, (enc x).length = k)
    (items : List Int) (j n : Nat) (hj : j ≤ items.length) (hn : j * k ≤ n) :
    (items.flatMap enc).take n
      = (items.take j).flatMap enc ++ ((items.drop j).flatMap enc).take (n - j * k) := by
  have hA : ((items.take j).flatMap enc).length = j * k := by
    rw [length_flatMap_const enc k hlen, List.length_take, Nat.min_eq_left hj]
  conv => lhs; rw [← List.take_append_drop j items, List.flatMap_append]
  rw [List.take_append, hA, List.take_of_length_le (by omega)]

/-- `decode` once the header has been read and the plan is known -/
theorem decode_spec (R : Nat) (hR : 0 < R) (dtype : Option DT) (file : Bytes) (h : Header) (data : Bytes)
    (hh : readHeader file = .ok (h, data))
    (p : Plan) (f : Int → Int) (hp : mkPlan h dtype = .ok p)
    (hframe : p.frame = p.chans * p.itemBytes) (hpos : 0 < p.frame)
    (hitem : ∀ (c : Nat) (bs : Bytes), (∀ b ∈ bs, b < 256) →
      mapE p.item (unpack p.itemBytes p.dec c bs) = .ok ((unpack p.itemBytes p.dec c bs).map f))
    (enc : Int → Bytes) (henc : ∀ x, (enc x).length = p.itemBytes)
    (xs : List Int) (rest : Bytes) (hdata : data = xs.flatMap enc ++ rest)
    (hdec : ∀ x ∈ xs, p.dec (enc x) = x)
    (hxs : xs.length = delivered p data.length * p.chans)
    (hb : ∀ b ∈ data, b < 256) (hm : data.take SHN_MAGIC_LEN ≠ SHN_MAGIC) :
    decode R dtype file = .ok
      { dtype := p.dtype, shape := shapeOf p.chans (delivered p data.length), samples := xs.map f,
        warn := delivered p data.length != p.count } := by
  have hspec := copySamplesReads_spec h dtype p f hp hframe hpos hitem (reads R data) (reads_ne_nil R data)
    (by rw [reads_flatten R hR]; exact hb) (by rw [reads_flatten R hR]; exact hm)
  rw [reads_flatten R hR] at hspec
  simp only [decode, hh, copySamples, hspec]
  rw [← hxs, hdata, unpack_flatMap p.itemBytes p.dec enc henc xs rest hdec]

/-- the whole frames present in a (possibly truncated) data section are delivered, no more, no less -/
theorem frames_present_core (R : Nat) (hR : 0 < R) (dtype : Option DT) (file : Bytes) (h : Header) (data : Bytes)
    (hh : readHeader file = .ok (h, data))
    (p : Plan) (f : Int → Int) (hp : mkPlan h dtype = .ok p)
    (hframe : p.frame = p.chans * p.itemBytes) (hpos : 0 < p.frame)
    (hitem : ∀ (c : Nat) (bs : Bytes), (∀ b ∈ bs, b < 256) →
      mapE p.item (unpack p.itemBytes p.dec c bs) = .ok ((unpack p.itemBytes p.dec c bs).map f))
    (enc : Int → Bytes) (henc : ∀ x, (enc x).length = p.itemBytes) (hencb : ∀ x, ∀ b ∈ enc x, b < 256)
    (items : List Int) (hdec : ∀ x ∈ items, p.dec (enc x) = x) (hlen : items.length = p.count * p.chans)
    (n : Nat) (hdata : data = (items.flatMap enc).take n)
    (hm : data.take SHN_MAGIC_LEN ≠ SHN_MAGIC) :
    decode R dtype file = .ok
      { dtype := p.dtype
        shape := shapeOf p.chans (min p.count (min n (items.length * p.itemBytes) / p.frame))
        samples := (items.take (min p.count (min n (items.length * p.itemBytes) / p.frame) * p.chans)).map f
        warn := min p.count (min n (items.length * p.itemBytes) / p.frame) != p.count } := by
  have hdl : data.length = min n (items.length * p.itemBytes) := by
    rw [hdata, List.length_take, length_flatMap_const enc p.itemBytes henc]
  have hdel : delivered p data.length = min p.count (min n (items.length * p.itemBytes) / p.frame) := by
    rw [delivered, hdl]
  generalize hmdef : min p.count (min n (items.length * p.itemBytes) / p.frame) = m at *
  have hmc : m ≤ p.count := by rw [← hmdef]; exact Nat.min_le_left _ _
  have hj : m * p.chans ≤ items.length := by rw [hlen]; exact Nat.mul_le_mul_right _ hmc
  have hmf : m * p.frame ≤ min n (items.length * p.itemBytes) := by
    have : m ≤ min n (items.length * p.itemBytes) / p.frame := by rw [← hmdef]; exact Nat.min_le_right _ _
    calc m * p.frame ≤ (min n (items.length * p.itemBytes) / p.frame) * p.frame := Nat.mul_le_mul_right _ this
      _ ≤ _ := Nat.div_mul_le_self _ _
  have hjk : m * p.chans * p.itemBytes ≤ n := by
    rw [Nat.mul_assoc, ← hframe]; exact Nat.le_trans hmf (Nat.min_le_left _ _)
  have hsplit := take_flatMap_split enc p.itemBytes henc items (m * p.chans) n hj hjk
  have := decode_spec R hR dtype file h data hh p f hp hframe hpos hitem enc henc (items.take (m * p.chans))
    (((items.drop (m * p.chans)).flatMap enc).take (n - m * p.chans * p.itemBytes))
    (by rw [hdata, hsplit])
    (fun x hx => hdec x (List.mem_of_mem_take hx))
    (by rw [hdel, List.length_take, Nat.min_eq_left hj])
    (by
      intro b hbm
      rw [hdata] at hbm
      have := List.mem_of_mem_take hbm
      rcases List.mem_flatMap.mp this with ⟨x, _, hx⟩
      exact hencb x b hx)
    hm
  rw [hdel] at this
  exact this

/-! ## per-read conversion is pure on real bytes -/

theorem hitem_cast (p : Plan) (g : Int → Int) (h : ∀ x, p.item x = .ok (g x)) :
    ∀ (c : Nat) (bs : Bytes), (∀ b ∈ bs, b < 256) →
      mapE p.item (unpack p.itemBytes p.dec c bs) = .ok ((unpack p.itemBytes p.dec c bs).map g) :=
  fun _ _ _ => mapE_eq_map _ _ _ (fun x _ => h x)

theorem hitem_table (p : Plan) (table : List Int) (be : Bool) (hlen : table.length = 256)
    (hk : p.itemBytes = 1) (hdec : p.dec = decItem 1 false be)
    (h : ∀ x, p.item x = (lookup table x).map (wrapS 16)) :
    ∀ (c : Nat) (bs : Bytes), (∀ b ∈ bs, b < 256) →
      mapE p.item (unpack p.itemBytes p.dec c bs)
        = .ok ((unpack p.itemBytes p.dec c bs).map (fun x => wrapS 16 (tableFn table x))) := by
  intro c bs hb
  apply mapE_eq_map
  intro x hx
  rw [hk, hdec] at hx
  have := unpack_u8_range be c bs hb x hx
  rw [h x, lookup_ok table x this.1 (by rw [hlen]; exact this.2)]
  rfl

theorem map_wrapS16_id (xs : List Int) (h : ∀ x ∈ xs, -32768 ≤ x ∧ x < 32768) : xs.map (wrapS 16) = xs := by
  induction xs with
  | nil => rfl
  | cons x t ih =>
    have hx := h x List.mem_cons_self
    simp only [List.map_cons, ih (fun y hy => h y (List.mem_cons_of_mem _ hy))]
    congr 1
    simp only [wrapS]; omega

theorem map_wrapU8_id (xs : List Int) (h : ∀ x ∈ xs, 0 ≤ x ∧ x < 256) : xs.map (wrapU 8) = xs := by
  induction xs with
  | nil => rfl
  | cons x t ih =>
    have hx := h x List.mem_cons_self
    simp only [List.map_cons, ih (fun y hy => h y (List.mem_cons_of_mem _ hy))]
    congr 1
    simp only [wrapU]; omega

end PdsVerif.Model.Sphere

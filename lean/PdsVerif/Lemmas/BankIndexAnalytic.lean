/-
  C06: real-analysis helpers for the effective supports of the Gabor / gammatone banks
  (exponent bookkeeping, `|H|` of the complex gammatone, sums over the periodic images).
-/
import PdsVerif.Model.BankIndex
import PdsVerif.RealNum
import Mathlib.Analysis.SpecialFunctions.Exp
import Mathlib.Analysis.SpecialFunctions.Complex.Circle
import Mathlib.Tactic

namespace PdsVerif.C06
open PdsVerif PdsVerif.Model.BankIndex

/-- exponent of one Gabor image, and of the two support radii -/
theorem gabor_exponent_le (l2 : Bool) (eps std c ω extra : ℝ) (hstd : 0 < std)
    (hout : Real.sqrt ((if l2 then Real.log std + gaborFConst l2 eps else gaborFConst l2 eps) + extra) / std
      ≤ |c - ω|) :
    (-(std * std) / 2) * ((c - ω) * (c - ω)) + gaborConstTerm l2 std ≤ Real.log eps - extra / 2 := by
  have hd : |c - ω| * |c - ω| = (c - ω) * (c - ω) := abs_mul_abs_self _
  have h1 := (div_le_iff₀ hstd).mp hout
  have h2 := (Real.sqrt_le_iff.mp h1).2
  have h3 : (|c - ω| * std) ^ 2 = std * std * ((c - ω) * (c - ω)) := by rw [← hd]; ring
  rw [h3] at h2
  cases l2
  · simp only [Bool.false_eq_true, if_false, gaborFConst, gaborConstTerm, transc_log] at h2 ⊢
    norm_num at h2 ⊢
    linarith
  · simp only [if_true, gaborFConst, gaborConstTerm, transc_log, transc_pi] at h2 ⊢
    have hl : Real.log (2 * std) = Real.log 2 + Real.log std :=
      Real.log_mul (by norm_num) hstd.ne'
    norm_num at h2 ⊢
    rw [hl]
    linarith

/-- `ComplexGammatoneFilterBank._H`:
`exp(-1j * omega * offset) * c * (n-1)! / (alpha + 1j * (omega - xi)) ** n` -/
noncomputable def gammatoneH (n : ℕ) (c α ξ offset ω : ℝ) : ℂ :=
  Complex.exp (-Complex.I * ω * offset) * c * ((n - 1).factorial : ℂ)
    / ((α : ℂ) + Complex.I * ((ω - ξ : ℝ) : ℂ)) ^ n

theorem gammatoneH_norm (n : ℕ) (c α ξ offset ω : ℝ) (hc : 0 < c) :
    ‖gammatoneH n c α ξ offset ω‖ = c * (n - 1).factorial / (Real.sqrt (α ^ 2 + (ω - ξ) ^ 2)) ^ n := by
  unfold gammatoneH
  have e1 : -Complex.I * (ω : ℂ) * (offset : ℂ) = ((-(ω * offset) : ℝ) : ℂ) * Complex.I := by
    push_cast; ring
  have e2 : (α : ℂ) + Complex.I * ((ω - ξ : ℝ) : ℂ) = (α : ℂ) + ((ω - ξ : ℝ) : ℂ) * Complex.I := by ring
  rw [norm_div, norm_mul, norm_mul, e1, Complex.norm_exp_ofReal_mul_I, norm_pow, e2,
    Complex.norm_add_mul_I, Complex.norm_real, Complex.norm_natCast, Real.norm_eq_abs, abs_of_pos hc]
  ring

/-- the common core of the two gammatone bounds: beyond the radius at which the magnitude reaches
the level `e`, it stays at or below `e` -/
theorem gammatone_level (n : ℕ) (hn : 0 < n) (c la ξ offset ω Lp e : ℝ) (hc : 0 < c) (he : 0 < e)
    (hLp : Real.exp Lp = c * (n - 1).factorial / e)
    (hout : Real.sqrt (Real.exp ((2 / (n : ℝ)) * Lp) - Real.exp (2 * la)) ≤ |ω - ξ|) :
    ‖gammatoneH n c (Real.exp la) ξ offset ω‖ ≤ e := by
  rw [gammatoneH_norm n c _ ξ offset ω hc]
  have hn' : (0 : ℝ) < n := by exact_mod_cast hn
  have hfac : (0 : ℝ) < (n - 1).factorial := by exact_mod_cast Nat.factorial_pos _
  have h2 := (Real.sqrt_le_iff.mp hout).2
  rw [sq_abs] at h2
  have hα2 : Real.exp (2 * la) = Real.exp la ^ 2 := by
    have := Real.exp_nat_mul la 2; push_cast at this; exact this
  rw [hα2] at h2
  -- √(α² + d²) ≥ exp(Lp / n)
  have h3 : Real.exp (Lp / n) ≤ Real.sqrt (Real.exp la ^ 2 + (ω - ξ) ^ 2) := by
    have : Real.exp (Lp / n) = Real.sqrt (Real.exp ((2 / (n : ℝ)) * Lp)) := by
      rw [← Real.exp_half]; congr 1; field_simp
    rw [this]
    exact Real.sqrt_le_sqrt (by linarith)
  have h4 : Real.exp Lp ≤ Real.sqrt (Real.exp la ^ 2 + (ω - ξ) ^ 2) ^ n := by
    have : Real.exp Lp = Real.exp (Lp / n) ^ n := by
      rw [← Real.exp_nat_mul]; congr 1; field_simp
    rw [this]
    exact pow_le_pow_left₀ (Real.exp_pos _).le h3 n
  have hX : 0 < Real.sqrt (Real.exp la ^ 2 + (ω - ξ) ^ 2) ^ n := lt_of_lt_of_le (Real.exp_pos _) h4
  rw [div_le_iff₀ hX]
  rw [hLp, div_le_iff₀ he] at h4
  linarith

/-- three images `y − T, y, y + T` of a point, none of them within `D` of the centre `0`:
one is bounded by the level at `D`, one by the level at `T/2`, one by the level at `T` -/
theorem three_images_le (T y D ε ε₂ ε₃ : ℝ) (m : ℝ → ℝ) (hT : 0 < T)
    (ha : ∀ d, D ≤ |d| → m d ≤ ε) (hb : ∀ d, T / 2 ≤ |d| → m d ≤ ε₂) (hc : ∀ d, T ≤ |d| → m d ≤ ε₃)
    (h1 : D ≤ |y - T|) (h2 : D ≤ |y|) (h3 : D ≤ |y + T|) :
    m (y - T) + m y + m (y + T) ≤ ε + ε₂ + ε₃ := by
  rcases le_or_gt y (-(T / 2)) with hy | hy
  · -- y ≤ -T/2
    have e1 : T ≤ |y - T| := by rw [abs_of_nonpos (by linarith)]; linarith
    have e2 : T / 2 ≤ |y| := by rw [abs_of_nonpos (by linarith)]; linarith
    have := hc _ e1; have := hb _ e2; have := ha _ h3
    linarith
  · rcases le_or_gt y 0 with hy0 | hy0
    · -- -T/2 < y ≤ 0
      have e1 : T ≤ |y - T| := by rw [abs_of_nonpos (by linarith)]; linarith
      have e3 : T / 2 ≤ |y + T| := by rw [abs_of_nonneg (by linarith)]; linarith
      have := hc _ e1; have := ha _ h2; have := hb _ e3
      linarith
    · rcases le_or_gt y (T / 2) with hy2 | hy2
      · -- 0 < y ≤ T/2
        have e1 : T / 2 ≤ |y - T| := by rw [abs_of_nonpos (by linarith)]; linarith
        have e3 : T ≤ |y + T| := by rw [abs_of_nonneg (by linarith)]; linarith
        have := hb _ e1; have := ha _ h2; have := hc _ e3
        linarith
      · -- T/2 < y
        have e2 : T / 2 ≤ |y| := by rw [abs_of_nonneg (by linarith)]; linarith
        have e3 : T ≤ |y + T| := by rw [abs_of_nonneg (by linarith)]; linarith
        have := ha _ h1; have := hb _ e2; have := hc _ e3
        linarith

/-- the sum over any duplicate-free sub-list of the periods `-1, 0, 1` -/
theorem periods_sum_le {E : Type*} [SeminormedAddCommGroup E] (g : ℤ → E) (ps : List ℤ) (hnd : ps.Nodup)
    (hsub : ∀ p ∈ ps, p = -1 ∨ p = 0 ∨ p = 1) :
    ‖(ps.map g).sum‖ ≤ ‖g (-1)‖ + ‖g 0‖ + ‖g 1‖ := by
  rw [← List.sum_toFinset g hnd]
  calc ‖∑ p ∈ ps.toFinset, g p‖ ≤ ∑ p ∈ ps.toFinset, ‖g p‖ := norm_sum_le _ _
    _ ≤ ∑ p ∈ ({-1, 0, 1} : Finset ℤ), ‖g p‖ := by
        apply Finset.sum_le_sum_of_subset_of_nonneg
        · intro p hp
          rcases hsub p (List.mem_toFinset.mp hp) with h | h | h <;> simp [h]
        · intros; exact norm_nonneg _
    _ = ‖g (-1)‖ + ‖g 0‖ + ‖g 1‖ := by
        rw [Finset.sum_insert (by decide), Finset.sum_insert (by decide), Finset.sum_singleton]; ring

/-- removing one term: what is left are at most two terms -/
theorem periods_sum_sub_le {E : Type*} [SeminormedAddCommGroup E] (g : ℤ → E) (ps : List ℤ)
    (hnd : ps.Nodup) (hsub : ∀ p ∈ ps, p = -1 ∨ p = 0 ∨ p = 1) (p0 : ℤ) (hp0 : p0 ∈ ps) (e : ℝ)
    (he0 : 0 ≤ e) (he : ∀ p ∈ ps, p ≠ p0 → ‖g p‖ ≤ e) :
    ‖(ps.map g).sum - g p0‖ ≤ 2 * e := by
  rw [← List.sum_toFinset g hnd]
  have hmem : p0 ∈ ps.toFinset := List.mem_toFinset.mpr hp0
  rw [← Finset.add_sum_erase _ _ hmem, add_sub_cancel_left]
  have hcard : (ps.toFinset.erase p0).card ≤ 2 := by
    rw [Finset.card_erase_of_mem hmem]
    have : ps.toFinset ⊆ ({-1, 0, 1} : Finset ℤ) := by
      intro p hp
      rcases hsub p (List.mem_toFinset.mp hp) with h | h | h <;> simp [h]
    have := Finset.card_le_card this
    have h3 : ({-1, 0, 1} : Finset ℤ).card = 3 := by decide
    omega
  calc ‖∑ p ∈ ps.toFinset.erase p0, g p‖ ≤ ∑ p ∈ ps.toFinset.erase p0, ‖g p‖ := norm_sum_le _ _
    _ ≤ ∑ _p ∈ ps.toFinset.erase p0, e := by
        apply Finset.sum_le_sum
        intro p hp
        have := Finset.mem_erase.mp hp
        exact he p (List.mem_toFinset.mp this.2) this.1
    _ = (ps.toFinset.erase p0).card * e := by rw [Finset.sum_const, nsmul_eq_mul]
    _ ≤ 2 * e := mul_le_mul_of_nonneg_right (by exact_mod_cast hcard) he0

/-- `wrap_diff_ang` in terms of the peak level `const_term`: `√(2(const − log ε) + log 2) / std` -/
theorem gaborWrapDiffAng_eq (l2 : Bool) (eps std : ℝ) (hstd : 0 < std) :
    gaborWrapDiffAng l2 eps std
      = Real.sqrt (2 * (gaborConstTerm l2 std - Real.log eps) + Real.log 2) / std := by
  cases l2
  · simp only [gaborWrapDiffAng, gaborFConst, gaborConstTerm, Bool.false_eq_true, if_false,
      transc_sqrt, transc_log]
    norm_num
  · simp only [gaborWrapDiffAng, gaborFConst, gaborConstTerm, if_true, transc_sqrt, transc_log, transc_pi]
    have hl : Real.log (2 * std) = Real.log 2 + Real.log std := Real.log_mul (by norm_num) hstd.ne'
    norm_num
    rw [hl]
    congr 2; ring

theorem gaborImage_pos (l2 : Bool) (std c ω : ℝ) : 0 < gaborImage l2 std c ω := by
  unfold gaborImage; simp only [transc_exp]; exact Real.exp_pos _

theorem inv_sqrt_two_le : (1 : ℝ) / Real.sqrt 2 ≤ 3 / 4 := by
  have h : (4 / 3 : ℝ) ≤ Real.sqrt 2 := Real.le_sqrt_of_sq_le (by norm_num)
  rw [div_le_iff₀ (by positivity)]
  linarith

/-- distance of another image: `|a − 2π k| ≥ 2π − |a|` for a non-zero integer `k` -/
theorem other_image_far (a : ℝ) (k : ℤ) (hk : k ≠ 0) : 2 * Real.pi - |a| ≤ |a - 2 * Real.pi * k| := by
  have h1 : (1 : ℝ) ≤ |(k : ℝ)| := by exact_mod_cast Int.one_le_abs hk
  have h2 : |2 * Real.pi * (k : ℝ)| = 2 * Real.pi * |(k : ℝ)| := by
    rw [abs_mul, abs_of_pos (by positivity)]
  have h3 := abs_sub_abs_le_abs_sub (2 * Real.pi * (k : ℝ)) a
  rw [abs_sub_comm] at h3
  have hp : 0 < Real.pi := Real.pi_pos
  nlinarith

/-- `ε = 5e-4 ≥ e⁻¹⁶` -/
theorem log_eps_ge : (-16 : ℝ) ≤ Real.log (5e-4 : ℝ) := by
  rw [Real.le_log_iff_exp_le (by norm_num)]
  have h2 : (2 : ℝ) ≤ Real.exp 1 := by have := Real.add_one_le_exp (1 : ℝ); linarith
  have h16 : (2 : ℝ) ^ 16 ≤ Real.exp 16 := by
    have : Real.exp 16 = Real.exp 1 ^ 16 := by
      rw [← Real.exp_nat_mul]; norm_num
    rw [this]; exact pow_le_pow_left₀ (by norm_num) h2 16
  rw [Real.exp_neg, inv_le_comm₀ (Real.exp_pos _) (by norm_num)]
  calc ((5e-4 : ℝ))⁻¹ ≤ 2 ^ 16 := by norm_num
    _ ≤ Real.exp 16 := h16

end PdsVerif.C06

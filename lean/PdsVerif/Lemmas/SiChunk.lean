/-
  `compute_chunk` of the short-integration model against a fixed stream `X : Int → α` (zero before
  the utterance): well-formedness, the invariant tying the state to "the first `n` samples of `X`
  have been consumed", `_handle_skip`, the `_x_buf` bookkeeping of the DFT loop.
-/
import PdsVerif.Lemmas.SiAcc
set_option linter.unusedSectionVars false
set_option linter.unusedVariables false
set_option linter.unnecessarySeqFocus false
set_option linter.unusedTactic false
namespace PdsVerif.SiChunk
open PdsVerif.Model.Si PdsVerif.Seg PdsVerif.SiBasic PdsVerif.SiAcc

variable {α : Type} [CommRing α]

/-- well-formed configuration + bank.  `hM` is the property's precondition: causal style — the frame
shift is shorter than the largest right support `M - tr`; centred style — met by every computer whose
bank has a non-empty support (`tr = M / 2 < M`). -/
structure WF (c : Cfg) (B : Bank α) : Prop where
  hS : 0 < c.S
  hD : c.M + c.S ≤ c.D + 1
  hM : if c.centered then c.tr + 1 ≤ c.M else c.S + c.tr + 1 ≤ c.M
  hfilt : ∀ h ∈ B.filts, h.length = c.M
  hwin : B.window.length = 2 * c.S

/-- samples skipped at the start of an utterance -/
def skip0 (c : Cfg) : Nat := if c.centered then c.tr - c.S else c.tr
/-- virtual zero samples in front of an utterance (centred, `tr < S`) -/
def xrem0 (c : Cfg) : Nat := if c.centered then c.S - c.tr else 0
/-- raw samples (virtual zeros included) once `n` signal samples have been consumed -/
def rawN (c : Cfg) (n : Nat) : Nat := xrem0 c + (n - skip0 c)
/-- frames emitted by `compute_chunk` calls once `n` signal samples have been consumed -/
def emitted (c : Cfg) (n : Nat) : Nat := rawN c n / c.S - 1

theorem offs_eq (c : Cfg) : offs c = (skip0 c : Int) - xrem0 c := by
  unfold offs skip0 xrem0
  cases c.centered <;> simp <;> omega

theorem skip_or_xrem (c : Cfg) : skip0 c = 0 ∨ xrem0 c = 0 := by
  unfold skip0 xrem0
  cases c.centered <;> simp <;> omega

theorem xrem0_le (c : Cfg) : xrem0 c ≤ c.S := by
  unfold xrem0; cases c.centered <;> simp

theorem div_facts (x S : Nat) (hS : 0 < S) : (x / S) * S ≤ x ∧ x < (x / S) * S + S := by
  rw [Nat.mul_comm]
  constructor
  · exact Nat.mul_div_le x S
  · have := Nat.div_add_mod x S; have := Nat.mod_lt x hS; omega

theorem vPerDft_ge {c : Cfg} {B : Bank α} (w : WF c B) : c.S ≤ vPerDft c ∧ vPerDft c + c.M = c.D + 1 := by
  have := w.hD; have := w.hS
  unfold vPerDft; omega

/-- the state has consumed exactly the first `n` samples of the stream `X` -/
structure Inv (c : Cfg) (B : Bank α) (X : Int → α) (n : Nat) (st : St α) : Prop where
  xbuf : st.xbuf = seg X ((n : Int) - c.D) c.D
  skip : st.skip = skip0 c - n
  split : st.xRem + st.yRem + emitted c n * c.S = rawN c n
  xle : st.xRem ≤ vPerDft c
  ybuf : st.ybuf = canonY c B X (emitted c n) st.yRem
  started : st.started = true

/-- `_compute_preamble`'s reset establishes the invariant at `n = 0` -/
theorem inv_reset (c : Cfg) (B : Bank α) (w : WF c B) (X : Int → α) (hX : ∀ p : Int, p < 0 → X p = 0)
    (dt : DType) : Inv c B X 0 (reset c B dt) := by
  have hS := w.hS
  have hV := (vPerDft_ge w).1
  have e0 : emitted c 0 = 0 := by
    unfold emitted rawN
    have := xrem0_le c
    have : (xrem0 c + (0 - skip0 c)) / c.S ≤ 1 := by
      rw [Nat.zero_sub, Nat.add_zero]
      calc xrem0 c / c.S ≤ c.S / c.S := Nat.div_le_div_right this
        _ = 1 := Nat.div_self hS
    omega
  refine ⟨?_, ?_, ?_, ?_, ?_, rfl⟩
  · simp only [reset]
    apply seg_replicate_zero
    intro i hi
    apply hX; push_cast; omega
  · simp only [reset, skip0]
    cases c.centered <;> simp <;> (try split_ifs) <;> omega
  · rw [e0]
    simp only [reset, rawN, xrem0, skip0]
    cases c.centered <;> simp <;> (try split_ifs) <;> omega
  · simp only [reset]
    cases c.centered <;> simp <;> (try split_ifs) <;> omega
  · rw [e0]
    simp only [reset]
    rw [canonY_zero]
  
/-! ### `_handle_skip` -/

theorem handleSkip_spec (c : Cfg) (B : Bank α) (w : WF c B) (X : Int → α) (n m : Nat) (st : St α)
    (inv : Inv c B X n st) :
    handleSkip st.xbuf st.skip st.xRem (seg X n m)
      = (seg X (((n + min st.skip m : Nat) : Int) - c.D) c.D, st.skip - min st.skip m,
         seg X ((n + min st.skip m : Nat) : Int) (m - min st.skip m), true) := by
  unfold handleSkip
  by_cases h0 : st.skip = 0
  · simp [h0, inv.xbuf]
  · rw [if_neg h0]
    have hx : st.xRem = 0 := by
      have h1 := inv.skip
      have h2 := inv.split
      have h3 := skip_or_xrem c
      unfold rawN at h2
      have : n - skip0 c = 0 := by omega
      have : xrem0 c = 0 := by omega
      omega
    simp only [seg_length, inv.xbuf, hx]
    refine Prod.ext ?_ (Prod.ext rfl (Prod.ext ?_ (by simp)))
    · simp only
      by_cases hc : min st.skip m < c.D
      · rw [if_pos hc, seg_drop, seg_take]
        have e : min (min st.skip m) m = min st.skip m := by omega
        rw [e]
        have := seg_append' X ((n : Int) - c.D + (min st.skip m : Nat)) (c.D - min st.skip m) (min st.skip m) n (by omega)
        rw [this]
        congr 1 <;> omega
      · rw [if_neg hc, slice_seg]
        congr 1 <;> omega
    · simp only
      rw [seg_drop]
      congr 1

/-! ### the `_x_buf` part of one DFT-loop iteration -/

theorem xStep_spec (D : Nat) (X : Int → α) (n1 : Int) (L copied e : Nat) (hce : copied ≤ e) (heL : e ≤ L) :
    xStep D (seg X n1 L) (seg X (n1 + copied - D) D) copied e
      = (seg X (n1 + (if e < D then e else copied) - D) D, (if e < D then e else copied),
         seg X (n1 + e - D) D, true) := by
  unfold xStep
  by_cases h : e < D
  · simp only [if_pos h]
    have e1 : (seg X (n1 + copied - D) D).drop (e - copied) ++ slice (seg X n1 L) copied e
        = seg X (n1 + e - D) D := by
      rw [seg_drop, slice_seg]
      have := seg_append' X (n1 + copied - D + ((e - copied : Nat) : Int)) (D - (e - copied)) (min e L - copied)
        (n1 + copied) (by omega)
      rw [this]
      congr 1 <;> omega
    rw [e1]
    simp; omega
  · simp only [if_neg h]
    rw [slice_seg]
    refine Prod.ext rfl (Prod.ext rfl (Prod.ext ?_ rfl))
    simp only
    congr 1 <;> omega


/-! ### the DFT loop -/

/-- `end_idx` of the previous iteration (0 before the first) -/
def ePrev (c : Cfg) (L xRem0 d : Nat) : Nat := min (d * vPerDft c) (xRem0 + L) - xRem0

/-- loop invariant after `d` iterations; `n1` = stream position where the (skip-stripped) chunk of
length `L` starts, `E0`/`yRem0`/`xRem0` = emitted frames / `_y_rem` / `_x_rem` on entry -/
def LoopInv (c : Cfg) (B : Bank α) (X : Int → α) (n1 L xRem0 yRem0 E0 d : Nat) (s : Loop α) : Prop :=
  ∃ E' : Nat,
    s.xbuf = seg X ((n1 : Int) + s.copied - c.D) c.D ∧
    s.copied ≤ ePrev c L xRem0 d ∧
    s.ybuf = canonY c B X E' s.yRem ∧
    E' * c.S + s.yRem = E0 * c.S + yRem0 + min (d * vPerDft c) (xRem0 + L) ∧
    s.yRem < 2 * c.S ∧ E0 ≤ E' ∧ (E' = E0 ∨ c.S ≤ s.yRem) ∧
    s.frames = (List.range' E0 (E' - E0)).map (mFrame c B X) ∧
    s.ok = true

theorem map_phi_seg (f : α → α) (g : Int → α) (a : Int) (k : Nat) :
    (seg g a k).map f = seg (fun p => f (g p)) a k := by
  simp [seg, List.map_map, Function.comp]

theorem dftStep_spec (c : Cfg) (B : Bank α) (w : WF c B) (X : Int → α) (n1 L xRem0 yRem0 E0 d : Nat)
    (hpos : skip0 c ≤ n1) (hP : E0 * c.S + yRem0 + xRem0 = rawN c n1) (hxle : xRem0 ≤ vPerDft c)
    (hdV : d * vPerDft c < xRem0 + L) (s : Loop α)
    (inv : LoopInv c B X n1 L xRem0 yRem0 E0 d s) :
    LoopInv c B X n1 L xRem0 yRem0 E0 (d + 1) (dftStep c B (seg X n1 L) xRem0 d s) := by
  obtain ⟨E', ix, ic, iy, iT, i2, iE, iD, iF, iok⟩ := inv
  have hS := w.hS
  have hM1 : 1 ≤ c.M := by have := w.hM; split_ifs at this <;> omega
  obtain ⟨hVS, hVM⟩ := vPerDft_ge w
  have eV : (d + 1) * vPerDft c = d * vPerDft c + vPerDft c := Nat.succ_mul _ _
  -- end_idx and y_keep as naturals
  have he : endIdxI c L xRem0 d = ((ePrev c L xRem0 (d + 1) : Nat) : Int) := by
    unfold endIdxI ePrev
    rw [eV]
    have : ((d : Int) + 1) * (vPerDft c : Int) = ((d * vPerDft c : Nat) : Int) + vPerDft c := by
      push_cast; ring
    rw [this]
    generalize d * vPerDft c = dV at *
    omega
  have hk : yKeepI c L xRem0 d = ((min (vPerDft c) (xRem0 + L - d * vPerDft c) : Nat) : Int) := by
    unfold yKeepI
    rw [he]
    unfold ePrev
    rw [eV]
    have : (d : Int) * (vPerDft c : Int) = ((d * vPerDft c : Nat) : Int) := by push_cast; ring
    rw [this]
    generalize d * vPerDft c = dV at *
    omega
  have heL : ePrev c L xRem0 (d + 1) ≤ L := by unfold ePrev; omega
  have hmono : ePrev c L xRem0 d ≤ ePrev c L xRem0 (d + 1) := by unfold ePrev; rw [eV]; omega
  have hkpos : 0 < min (vPerDft c) (xRem0 + L - d * vPerDft c) := by omega
  have hcur := xStep_spec c.D X n1 L s.copied (ePrev c L xRem0 (d + 1)) (by omega) heL
  -- what `_fill_y_buf` sees: the next `y_keep` filtered samples of every filter
  have hy : ∀ h ∈ B.filts,
      (lastK (circConv c.D (seg X ((n1 : Int) + (ePrev c L xRem0 (d + 1) : Nat) - c.D) c.D) h)
          (min (vPerDft c) (xRem0 + L - d * vPerDft c))).map B.phi
        = seg (vOf c B X h) (((E' * c.S : Nat) : Int) + (s.yRem : Int))
            (min (vPerDft c) (xRem0 + L - d * vPerDft c)) := by
    intro h hh
    have hl := w.hfilt h hh
    rw [lastK_circConv_seg c.D X _ h _ hkpos (by omega) (by omega), map_phi_seg]
    apply seg_congr'
    intro i hi
    unfold vOf
    rw [linY_eq_lin, offs_eq]
    congr 2
    unfold rawN at hP
    unfold ePrev
    rw [eV]
    generalize d * vPerDft c = dV at *
    generalize E' * c.S = ES at *
    generalize E0 * c.S = E0S at *
    push_cast
    omega
  have hfit : s.yRem + min (vPerDft c) (xRem0 + L - d * vPerDft c) ≤ yBlocks c * c.S := by
    have := (yBlocks_ge c hS).2
    omega
  unfold dftStep
  simp only [seg_length, he, hk, Int.toNat_natCast]
  rw [ix, hcur]
  simp only
  rw [iy, fillYBuf_spec c B X hS w.hwin _ E' s.yRem _ hfit hy]
  simp only
  rw [frameLoop_spec c B X hS _ E' _ s.frames (Nat.le_refl _) hfit]
  simp only
  obtain ⟨q1, q2⟩ := div_facts (s.yRem + min (vPerDft c) (xRem0 + L - d * vPerDft c)) c.S hS
  generalize hyR : s.yRem + min (vPerDft c) (xRem0 + L - d * vPerDft c) = yR at *
  generalize hq : yR / c.S = q at *
  refine ⟨E' + (q - 1), rfl, ?_, rfl, ?_, ?_, by omega, ?_, ?_, ?_⟩ <;> dsimp only
  · split_ifs <;> omega
  · -- E''·S + yRem'' = P0 + cum (d+1)
    rw [eV]
    rw [Nat.add_mul]
    have hq1 : (q - 1) * c.S ≤ yR := by
      have : (q - 1) * c.S ≤ q * c.S := Nat.mul_le_mul_right _ (by omega)
      omega
    generalize d * vPerDft c = dV at *
    generalize (q - 1) * c.S = qS at *
    omega
  · -- yRem'' < 2S
    rcases Nat.lt_or_ge q 2 with h | h
    · have : q - 1 = 0 := by omega
      rw [this, Nat.zero_mul]
      have : q * c.S ≤ 1 * c.S := Nat.mul_le_mul_right _ (by omega)
      omega
    · obtain ⟨q', rfl⟩ : ∃ q', q = q' + 1 := ⟨q - 1, by omega⟩
      rw [Nat.add_sub_cancel]
      rw [Nat.succ_mul] at q1 q2
      omega
  · rcases Nat.lt_or_ge q 2 with h | h
    · have : q - 1 = 0 := by omega
      rw [this, Nat.zero_mul]
      rcases iD with h1 | h1
      · left; omega
      · right; omega
    · right
      obtain ⟨q', rfl⟩ : ∃ q', q = q' + 1 := ⟨q - 1, by omega⟩
      rw [Nat.add_sub_cancel]
      rw [Nat.succ_mul] at q1 q2
      omega
  · rw [iF, ← List.map_append]
    congr 1
    have e : E' + (q - 1) - E0 = (E' - E0) + (q - 1) := by omega
    have e2 : List.range' E' (q - 1) = List.range' (E0 + (E' - E0)) (q - 1) := by congr 1; omega
    rw [e, e2, List.range'_append_1]
  · simp [iok]


theorem dftLoop_spec (c : Cfg) (B : Bank α) (w : WF c B) (X : Int → α) (n1 L xRem0 yRem0 E0 : Nat)
    (hpos : 0 < xRem0 + L → skip0 c ≤ n1) (hP : E0 * c.S + yRem0 + xRem0 = rawN c n1)
    (hxle : xRem0 ≤ vPerDft c) :
    ∀ (k d : Nat) (s : Loop α), LoopInv c B X n1 L xRem0 yRem0 E0 d s →
      (∀ d', d' < d + k → d' * vPerDft c < xRem0 + L) →
      LoopInv c B X n1 L xRem0 yRem0 E0 (d + k) (dftLoop c B (seg X n1 L) xRem0 k d s) := by
  intro k
  induction k with
  | zero => intro d s inv _; simpa [dftLoop] using inv
  | succ k ih =>
    intro d s inv hd
    unfold dftLoop
    have hdV := hd d (by omega)
    have h1 := dftStep_spec c B w X n1 L xRem0 yRem0 E0 d (hpos (by omega)) hP hxle hdV s inv
    have h2 := ih (d + 1) _ h1 (by intro d' hd'; exact hd d' (by omega))
    have e : d + 1 + k = d + (k + 1) := by omega
    rw [e] at h2
    exact h2

/-! ### counting: how many DFTs, how many frames -/

/-- `num_dfts` of `compute_chunk` -/
def numDftsOf (S V xr yr L : Nat) : Nat :=
  if (if ((xr + L + yr) / S - 1) ≠ 0 then ((xr + L + yr) / S - 1 + 1) * S else yr) - yr > (xr + L) / V * V
  then (xr + L) / V + 1 else (xr + L) / V

theorem numDfts_valid (S V xr yr L : Nat) (hS : 0 < S) (hV : 0 < V) :
    ∀ d', d' < numDftsOf S V xr yr L → d' * V < xr + L := by
  intro d' hd'
  unfold numDftsOf at hd'
  obtain ⟨a1, a2⟩ := div_facts (xr + L + yr) S hS
  obtain ⟨b1, b2⟩ := div_facts (xr + L) V hV
  generalize (xr + L + yr) / S = qa at *
  generalize (xr + L) / V = qb at *
  split_ifs at hd' with h1 h2 h2
  · -- extra DFT, frames pending
    have e1 : (qa - 1 + 1) * S = qa * S := by congr 1; omega
    rw [e1] at h2
    have : d' * V ≤ qb * V := Nat.mul_le_mul_right V (by omega)
    omega
  · have : (d' + 1) * V ≤ qb * V := Nat.mul_le_mul_right V (by omega)
    rw [Nat.succ_mul] at this
    omega
  · omega
  · have : (d' + 1) * V ≤ qb * V := Nat.mul_le_mul_right V (by omega)
    rw [Nat.succ_mul] at this
    omega

theorem count_arith (S V xr yr L E0 E' yR' : Nat) (hS : 0 < S) (hV : 0 < V)
    (hE0 : E0 = (E0 * S + xr + yr) / S - 1)
    (hT : E' * S + yR' = E0 * S + yr + min (numDftsOf S V xr yr L * V) (xr + L))
    (h2 : yR' < 2 * S) (hE : E0 ≤ E') (hD : E' = E0 ∨ S ≤ yR') :
    E' - E0 = (xr + L + yr) / S - 1 ∧
    E' = (E0 * S + xr + yr + L) / S - 1 ∧
    (xr + L - numDftsOf S V xr yr L * V) + yR' + E' * S = E0 * S + xr + yr + L ∧
    xr + L - numDftsOf S V xr yr L * V ≤ V := by
  obtain ⟨a1, a2⟩ := div_facts (xr + L + yr) S hS
  obtain ⟨b1, b2⟩ := div_facts (xr + L) V hV
  have hdiv : (E0 * S + xr + yr + L) / S = E0 + (xr + L + yr) / S := by
    have : E0 * S + xr + yr + L = (xr + L + yr) + E0 * S := by omega
    rw [this, Nat.add_mul_div_right _ _ hS]; omega
  have hdiv0 : (E0 * S + xr + yr) / S = E0 + (xr + yr) / S := by
    have : E0 * S + xr + yr = (xr + yr) + E0 * S := by omega
    rw [this, Nat.add_mul_div_right _ _ hS]; omega
  rw [hdiv0] at hE0
  rw [hdiv]
  obtain ⟨c1, c2⟩ := div_facts (xr + yr) S hS
  -- value of min (nd·V) numRaw and of numRaw - nd·V
  have hnd : (min (numDftsOf S V xr yr L * V) (xr + L) = xr + L ∧ xr + L - numDftsOf S V xr yr L * V = 0 ∧
        ((xr + L + yr) / S - 1 ≠ 0 ∨ True)) ∨
      (numDftsOf S V xr yr L = (xr + L) / V ∧
        (if ((xr + L + yr) / S - 1) ≠ 0 then ((xr + L + yr) / S - 1 + 1) * S else yr) ≤ yr + (xr + L) / V * V) := by
    unfold numDftsOf
    split_ifs with h1 h2 h2
    · left
      rw [Nat.succ_mul]
      omega
    · right; exact ⟨rfl, by omega⟩
    · left
      rw [Nat.succ_mul]
      omega
    · right; exact ⟨rfl, by omega⟩
  generalize (xr + L + yr) / S = qa at *
  generalize (xr + L) / V = qb at *
  generalize (xr + yr) / S = qc at *
  generalize hnd' : numDftsOf S V xr yr L = nd at *
  -- E0 = 0 unless a frame's worth was already pending
  have hE0' : qc = 0 → E0 = 0 := by intro h; omega
  have hqc : qc ≤ qa := by
    by_contra hc
    have : (qa + 1) * S ≤ qc * S := Nat.mul_le_mul_right S (by omega)
    rw [Nat.succ_mul] at this
    omega
  rcases hnd with ⟨m1, m2, _⟩ | ⟨m1, m2⟩
  · rw [m1] at hT
    rw [m2]
    -- all raw samples were filtered: E'·S + yR' = E0·S + (xr + L + yr)
    have key : E' - E0 = qa - 1 := by
      rcases hD with h | h
      · subst h
        have : qa * S ≤ 1 * S + S := by omega
        have : qa ≤ 2 := by
          by_contra hc
          have : 3 * S ≤ qa * S := Nat.mul_le_mul_right S (by omega)
          omega
        rcases Nat.lt_or_ge qa 2 with h' | h'
        · omega
        · have : qa = 2 := by omega
          subst this
          omega
      · obtain ⟨g, rfl⟩ : ∃ g, E' = E0 + g := ⟨E' - E0, by omega⟩
        rw [Nat.add_mul] at hT
        have hg1 : g * S + S ≤ xr + L + yr := by omega
        have hg2 : xr + L + yr < g * S + 2 * S := by omega
        have : g + 1 = qa := by
          apply Nat.le_antisymm
          · by_contra hc
            have : (qa + 1) * S ≤ (g + 1) * S := Nat.mul_le_mul_right S (by omega)
            rw [Nat.succ_mul, Nat.succ_mul] at this
            omega
          · by_contra hc
            have : (g + 2) * S ≤ qa * S := Nat.mul_le_mul_right S (by omega)
            rw [Nat.add_mul] at this
            omega
        omega
    refine ⟨key, ?_, by omega, by omega⟩
    rcases Nat.eq_zero_or_pos qa with h | h
    · have : qc = 0 := by omega
      have := hE0' this
      omega
    · omega
  · rw [m1] at hT ⊢
    have hmin : min (qb * V) (xr + L) = qb * V := by omega
    rw [hmin] at hT
    have key : E' - E0 = qa - 1 := by
      by_cases hnf : qa - 1 ≠ 0
      · rw [if_pos hnf] at m2
        have e1 : (qa - 1 + 1) * S = qa * S := by congr 1; omega
        rw [e1] at m2
        -- qa·S ≤ yr + qb·V ≤ xr + L + yr < qa·S + S
        rcases hD with h | h
        · subst h
          have : 2 * S ≤ qa * S := Nat.mul_le_mul_right S (by omega)
          omega
        · obtain ⟨g, rfl⟩ : ∃ g, E' = E0 + g := ⟨E' - E0, by omega⟩
          rw [Nat.add_mul] at hT
          have : g + 1 = qa := by
            apply Nat.le_antisymm
            · by_contra hc
              have : (qa + 1) * S ≤ (g + 1) * S := Nat.mul_le_mul_right S (by omega)
              rw [Nat.succ_mul, Nat.succ_mul] at this
              omega
            · by_contra hc
              have : (g + 2) * S ≤ qa * S := Nat.mul_le_mul_right S (by omega)
              rw [Nat.add_mul] at this
              omega
          omega
      · have hq : qa ≤ 1 := by omega
        have : qa * S ≤ 1 * S := Nat.mul_le_mul_right S hq
        rcases hD with h | h
        · omega
        · obtain ⟨g, rfl⟩ : ∃ g, E' = E0 + g := ⟨E' - E0, by omega⟩
          rw [Nat.add_mul] at hT
          rcases Nat.eq_zero_or_pos g with h0 | h0
          · omega
          · have : 1 * S ≤ g * S := Nat.mul_le_mul_right S h0
            omega
    refine ⟨key, ?_, by omega, by omega⟩
    rcases Nat.eq_zero_or_pos qa with h | h
    · have : qc = 0 := by omega
      have := hE0' this
      omega
    · omega


/-! ### `compute_chunk` -/

theorem split_bounds (c : Cfg) (hS : 0 < c.S) (n xr yr : Nat)
    (h : xr + yr + emitted c n * c.S = rawN c n) :
    emitted c n = (emitted c n * c.S + xr + yr) / c.S - 1 ∧ xr + yr < 2 * c.S := by
  have e : emitted c n * c.S + xr + yr = rawN c n := by omega
  rw [e]
  refine ⟨rfl, ?_⟩
  obtain ⟨q1, q2⟩ := div_facts (rawN c n) c.S hS
  unfold emitted at h
  generalize rawN c n / c.S = q at *
  rcases Nat.eq_zero_or_pos q with h0 | h0
  · subst h0; simp at h q2; omega
  · obtain ⟨q', rfl⟩ : ∃ q', q = q' + 1 := ⟨q - 1, by omega⟩
    rw [Nat.add_sub_cancel] at h
    rw [Nat.succ_mul] at q1 q2
    omega

theorem final_xbuf (D : Nat) (X : Int → α) (n1 : Int) (L cp : Nat) (hcp : cp ≤ L) :
    (if L - cp ≠ 0 then
        (seg X (n1 + cp - D) D).drop (min D (L - cp)) ++ (seg X n1 L).drop (L - min D (L - cp))
      else seg X (n1 + cp - D) D) = seg X (n1 + L - D) D := by
  by_cases h : L - cp ≠ 0
  · rw [if_pos h, seg_drop, seg_drop]
    by_cases hk : L - cp ≤ D
    · have := seg_append' X (n1 + cp - D + ((min D (L - cp) : Nat) : Int)) (D - min D (L - cp))
        (L - (L - min D (L - cp))) (n1 + ((L - min D (L - cp) : Nat) : Int)) (by omega)
      rw [this]
      congr 1 <;> omega
    · have e1 : D - min D (L - cp) = 0 := by omega
      rw [e1, seg_zero, List.nil_append]
      congr 1 <;> omega
  · rw [if_neg h]
    congr 1
    omega

/-- **one `compute_chunk` call.**  From a state that has consumed the first `n` samples of `X`, feeding
the next `m` samples succeeds (every run-time check of the code holds), returns exactly the frames
`emitted n ≤ k < emitted (n+m)`, and leaves a state that has consumed `n + m` samples. -/
theorem chunkCore_spec (c : Cfg) (B : Bank α) (w : WF c B) (X : Int → α) (n m : Nat) (st : St α)
    (inv : Inv c B X n st) :
    ∃ st', chunkCore c B st (seg X n m)
        = .ok (st', (List.range' (emitted c n) (emitted c (n + m) - emitted c n)).map (mFrame c B X)) ∧
      Inv c B X (n + m) st' ∧ st'.dtype = st.dtype ∧ emitted c n ≤ emitted c (n + m) := by
  have hS := w.hS
  obtain ⟨hVS, hVM⟩ := vPerDft_ge w
  have hV : 0 < vPerDft c := by omega
  obtain ⟨hE0, h2S⟩ := split_bounds c hS n st.xRem st.yRem inv.split
  have hskip := inv.skip
  have hsplit := inv.split
  have hsx := skip_or_xrem c
  -- positions
  have hraw1 : rawN c (n + min st.skip m) = rawN c n := by unfold rawN; omega
  have hrawL : rawN c (n + m) = rawN c n + (m - min st.skip m) := by unfold rawN; omega
  have hpos : 0 < st.xRem + (m - min st.skip m) → skip0 c ≤ n + min st.skip m := by
    intro h
    by_contra hc
    unfold rawN at hsplit
    omega
  have hP : emitted c n * c.S + st.yRem + st.xRem = rawN c (n + min st.skip m) := by omega
  -- the loop
  have inv0 : LoopInv c B X (n + min st.skip m) (m - min st.skip m) st.xRem st.yRem (emitted c n) 0
      { xbuf := seg X (((n + min st.skip m : Nat) : Int) - c.D) c.D, copied := 0, ybuf := st.ybuf,
        yRem := st.yRem, frames := [], ok := true } := by
    refine ⟨emitted c n, ?_, ?_, inv.ybuf, ?_, ?_, Nat.le_refl _, Or.inl rfl, ?_, rfl⟩
    · simp
    · simp [ePrev]
    · simp
    · dsimp only; omega
    · simp
  have hloop := dftLoop_spec c B w X (n + min st.skip m) (m - min st.skip m) st.xRem st.yRem (emitted c n)
    hpos hP inv.xle (numDftsOf c.S (vPerDft c) st.xRem st.yRem (m - min st.skip m)) 0 _ inv0
    (by intro d' hd'; rw [Nat.zero_add] at hd'
        exact numDfts_valid c.S (vPerDft c) st.xRem st.yRem (m - min st.skip m) hS hV d' hd')
  rw [Nat.zero_add] at hloop
  unfold chunkCore
  rw [handleSkip_spec c B w X n m st inv]
  simp only [seg_length]
  obtain ⟨E', ix, ic, iy, iT, i2, iE, iD, iF, iok⟩ := hloop
  obtain ⟨k1, k2, k3, k4⟩ := count_arith c.S (vPerDft c) st.xRem st.yRem (m - min st.skip m)
    (emitted c n) E' _ hS hV hE0 iT i2 iE iD
  unfold numDftsOf at ix ic iy iT i2 iD iF iok k3 k4
  generalize dftLoop c B (seg X ((n + min st.skip m : Nat) : Int) (m - min st.skip m)) st.xRem
      _ 0 _ = r at *
  have hE' : E' = emitted c (n + m) := by
    have : emitted c n * c.S + st.xRem + st.yRem + (m - min st.skip m) = rawN c (n + m) := by omega
    rw [k2, this]; rfl
  have hlen : r.frames.length = (st.xRem + (m - min st.skip m) + st.yRem) / c.S - 1 := by
    rw [iF]; simp [k1]
  rw [if_pos (by rw [iok, hlen]; simp)]
  rw [iF, hE']
  refine ⟨_, rfl, ?_, rfl, by omega⟩
  · have hcp : r.copied ≤ m - min st.skip m := by unfold ePrev at ic; omega
    refine ⟨?_, ?_, ?_, ?_, ?_, rfl⟩
    · dsimp only
      rw [ix, final_xbuf c.D X _ _ _ hcp]
      congr 1; omega
    · dsimp only; omega
    · dsimp only
      rw [← hE', hrawL, ← hsplit]
      omega
    · dsimp only; exact k4
    · dsimp only; rw [iy, hE']

end PdsVerif.SiChunk

/-
  C20 — `GammaWindow`: the kernel `t ↦ t^(n−1)·e^(−αt)` is maximised at `t = (n−1)/α`, increasing before and
  decreasing after it; the model's samples are that kernel (times the normaliser `α^n/(n−1)!`) at
  `t = width−1−k`, and the code's `α = (n−1)/(width − peak·width)` puts the maximiser at sample index
  `peak·width − 1`.
-/
import PdsVerif.Model.Windows
import PdsVerif.RealNum
import Mathlib.Data.Nat.Factorial.Basic
import Mathlib.Tactic

namespace PdsVerif.C20.Gam
open PdsVerif PdsVerif.Model.Windows PdsVerif.Gen.UtilFns

theorem fact_eq (n : ℕ) : fact n = n.factorial := by
  induction n with
  | zero => rfl
  | succ n ih => simp [fact, Nat.factorial_succ, ih]

/-- `x^m e^{−bx} ≤ y^m e^{−by}` as soon as `m·(x/y − 1) ≤ b·(x − y)`; everything below is an instance.
(`u ≤ e^{u−1}` with `u = x/y`, raised to the power `m`.) -/
theorem kernel_le (m : ℕ) {x y b : ℝ} (hx : 0 ≤ x) (hy : 0 < y)
    (hb : (m : ℝ) * (x / y - 1) ≤ b * (x - y)) :
    x ^ m * Real.exp (-b * x) ≤ y ^ m * Real.exp (-b * y) := by
  have hu0 : 0 ≤ x / y := div_nonneg hx hy.le
  have hu : x / y ≤ Real.exp (x / y - 1) := by linarith [Real.add_one_le_exp (x / y - 1)]
  have hpow : (x / y) ^ m ≤ Real.exp (x / y - 1) ^ m := pow_le_pow_left₀ hu0 hu m
  rw [← Real.exp_nat_mul] at hpow
  have h2 : (x / y) ^ m ≤ Real.exp (b * (x - y)) := hpow.trans (Real.exp_le_exp.mpr hb)
  have hxm : x ^ m = (x / y) ^ m * y ^ m := by rw [← mul_pow, div_mul_cancel₀ x hy.ne']
  have hym : 0 ≤ y ^ m := pow_nonneg hy.le m
  have hexp : Real.exp (b * (x - y)) * Real.exp (-b * x) = Real.exp (-b * y) := by
    rw [← Real.exp_add]; congr 1; ring
  calc x ^ m * Real.exp (-b * x) = (x / y) ^ m * y ^ m * Real.exp (-b * x) := by rw [hxm]
    _ ≤ Real.exp (b * (x - y)) * y ^ m * Real.exp (-b * x) := by
        apply mul_le_mul_of_nonneg_right _ (Real.exp_pos _).le
        exact mul_le_mul_of_nonneg_right h2 hym
    _ = y ^ m * Real.exp (-b * y) := by rw [← hexp]; ring

/-- global maximum at `t = m/α` -/
theorem kernel_le_mode {m : ℕ} (hm : 1 ≤ m) {a t : ℝ} (ha : 0 < a) (ht : 0 ≤ t) :
    t ^ m * Real.exp (-a * t) ≤ ((m : ℝ) / a) ^ m * Real.exp (-a * ((m : ℝ) / a)) := by
  have hm' : (0:ℝ) < m := by exact_mod_cast hm
  apply kernel_le m ht (div_pos hm' ha)
  apply le_of_eq; field_simp

/-- increasing up to the mode -/
theorem kernel_mono_before {m : ℕ} {a s t : ℝ} (ha : 0 < a) (hs : 0 ≤ s) (hst : s ≤ t)
    (ht : t ≤ (m : ℝ) / a) : s ^ m * Real.exp (-a * s) ≤ t ^ m * Real.exp (-a * t) := by
  rcases eq_or_lt_of_le (hs.trans hst) with h0 | h0
  · have : s = 0 := by linarith
    rw [this, ← h0]
  · apply kernel_le m hs h0
    have h1 : a ≤ (m : ℝ) / t := by rw [le_div_iff₀ h0]; rw [le_div_iff₀ ha] at ht; linarith
    have h2 : (m : ℝ) * (s / t - 1) = (m : ℝ) / t * (s - t) := by field_simp
    rw [h2]
    nlinarith

/-- decreasing after the mode -/
theorem kernel_anti_after {m : ℕ} (hm : 1 ≤ m) {a s t : ℝ} (ha : 0 < a) (hs : (m : ℝ) / a ≤ s) (hst : s ≤ t) :
    t ^ m * Real.exp (-a * t) ≤ s ^ m * Real.exp (-a * s) := by
  have hm' : (0:ℝ) < m := by exact_mod_cast hm
  have s0 : 0 < s := lt_of_lt_of_le (div_pos hm' ha) hs
  apply kernel_le m (s0.le.trans hst) s0
  have h1 : (m : ℝ) / s ≤ a := by rw [div_le_iff₀ s0]; rw [div_le_iff₀ ha] at hs; linarith
  have h2 : (m : ℝ) * (t / s - 1) = (m : ℝ) / s * (t - s) := by field_simp
  rw [h2]
  nlinarith

/-! ## the generated sub-expressions at `ℝ` -/

theorem hi_iff (order : ℕ) : gamma_hi (α := ℝ) (order : ℝ) = decide (1 < order) := by
  unfold gamma_hi
  have : ((1.0:ℝ) < (order : ℝ)) ↔ 1 < order := by
    rw [show (1.0:ℝ) = ((1:ℕ):ℝ) by norm_num, Nat.cast_lt]
  simp only [this]

/-- the code's `alpha` for `order ≥ 2` -/
theorem alpha_hi {order : ℕ} (ho : 2 ≤ order) (peak : ℝ) (w : ℝ) :
    gamma_alpha (α := ℝ) order peak w = (((order - 1 : ℕ) : ℝ)) / (w - peak * w) := by
  have : gamma_hi (α := ℝ) (order : ℝ) = true := by rw [hi_iff]; simp; omega
  simp only [gamma_alpha, this, if_true]
  have : (order : ℝ) - 1.0 = ((order - 1 : ℕ) : ℝ) := by
    rw [Nat.cast_sub (by omega)]; norm_num
  rw [this]

/-- so the mode `(n−1)/α` is `width − peak·width`, i.e. sample index `peak·width − 1` -/
theorem mode_location {order : ℕ} (ho : 2 ≤ order) {peak w : ℝ} (hp : peak * w < w) :
    (((order - 1 : ℕ) : ℝ)) / gamma_alpha (α := ℝ) order peak w = w - peak * w := by
  rw [alpha_hi ho]
  have h1 : (((order - 1 : ℕ) : ℝ)) ≠ 0 := by
    have : 0 < order - 1 := by omega
    exact_mod_cast this.ne'
  have h2 : w - peak * w ≠ 0 := by linarith
  field_simp

theorem alpha_pos {order : ℕ} (ho : 2 ≤ order) {peak w : ℝ} (hp : peak * w < w) :
    0 < gamma_alpha (α := ℝ) order peak w := by
  rw [alpha_hi ho]
  have : 0 < order - 1 := by omega
  have h1 : (0:ℝ) < (((order - 1 : ℕ) : ℝ)) := by exact_mod_cast this
  exact div_pos h1 (by linarith)

/-- the generated kernel at `ℝ`, for `order ≥ 1` and `t ≥ 0`: `e^{ln_c} · t^(n−1) · e^{−αt}` -/
theorem kernel_real {order : ℕ} (ho : 1 ≤ order) (a lnc t : ℝ) :
    gamma_kernel (α := ℝ) order a lnc t = Real.exp lnc * (t ^ (order - 1) * Real.exp (-a * t)) := by
  simp only [gamma_kernel, transc_rpow, transc_exp]
  have : (order : ℝ) - 1.0 = ((order - 1 : ℕ) : ℝ) := by
    rw [Nat.cast_sub ho]; norm_num
  rw [this, Real.rpow_natCast, Real.exp_add]; ring

/-- `e^{ln_c} = α^n / (n−1)!` : the gamma density's normaliser (needs `α > 0`) -/
theorem exp_ln_c {order : ℕ} {a : ℝ} (ha : 0 < a) :
    Real.exp (gamma_ln_c (α := ℝ) order a ((fact (order - 1) : ℕ) : ℝ)) = a ^ order / ((order - 1).factorial : ℝ) := by
  simp only [gamma_ln_c, transc_log]
  have hf : (0:ℝ) < ((order - 1).factorial : ℝ) := by exact_mod_cast Nat.factorial_pos _
  rw [fact_eq, Real.exp_sub, Real.exp_log hf, ← Real.log_pow, Real.exp_log (pow_pos ha _)]

end PdsVerif.C20.Gam

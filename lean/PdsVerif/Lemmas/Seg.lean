/-
  `seg f a len` = `[f a, f (a+1), …, f (a+len-1)]` for an integer-indexed source `f`.
  Every buffer and frame of the STFT model is such a segment of (an extension of) the signal; the
  lemmas here turn `take` / `drop` / `++` / indexing of segments into index arithmetic.
-/
namespace PdsVerif.Seg

def seg {α} (f : Int → α) (a : Int) (len : Nat) : List α :=
  (List.range len).map fun (i : Nat) => f (a + (i : Int))

variable {α : Type} (f g : Int → α) (a : Int) (len : Nat)

@[simp] theorem seg_length : (seg f a len).length = len := by simp [seg]

theorem seg_getElem (i : Nat) (h : i < (seg f a len).length) : (seg f a len)[i] = f (a + i) := by
  simp [seg]

theorem seg_getElem? (i : Nat) (h : i < len) : (seg f a len)[i]? = some (f (a + i)) := by
  simp [seg, h]

theorem seg_zero : seg f a 0 = [] := by simp [seg]

theorem seg_congr {f g : Int → α} {a : Int} {len : Nat}
    (h : ∀ i : Nat, i < len → f (a + i) = g (a + i)) : seg f a len = seg g a len := by
  apply List.ext_getElem (by simp)
  intro i h1 _
  simp only [seg_getElem]
  exact h i (by simpa using h1)

theorem seg_congr' {f g : Int → α} {a b : Int} {len : Nat}
    (h : ∀ i : Nat, i < len → f (a + i) = g (b + i)) : seg f a len = seg g b len := by
  apply List.ext_getElem (by simp)
  intro i h1 _
  simp only [seg_getElem]
  exact h i (by simpa using h1)

theorem seg_getD (k : Nat) (d : α) (h : k < len) : (seg f a len).getD k d = f (a + k) := by
  simp [List.getD_eq_getElem?_getD, seg_getElem? f a len k h]

theorem seg_drop (k : Nat) : (seg f a len).drop k = seg f (a + k) (len - k) := by
  apply List.ext_getElem (by simp)
  intro i h1 h2
  simp only [List.getElem_drop, seg_getElem]
  congr 1; omega

theorem seg_take (k : Nat) : (seg f a len).take k = seg f a (min k len) := by
  apply List.ext_getElem (by simp)
  intro i h1 h2
  simp only [List.getElem_take, seg_getElem]

theorem seg_append (m k : Nat) : seg f a m ++ seg f (a + m) k = seg f a (m + k) := by
  apply List.ext_getElem (by simp)
  intro i h1 h2
  by_cases hi : i < m
  · rw [List.getElem_append_left (by simpa using hi)]; simp only [seg_getElem]
  · rw [List.getElem_append_right (by simpa using hi)]
    simp only [seg_getElem, seg_length]
    congr 1; omega

theorem seg_append' (m k : Nat) (b : Int) (hb : b = a + m) :
    seg f a m ++ seg f b k = seg f a (m + k) := by subst hb; exact seg_append f a m k

/-- a list is the segment `[0, n)` of its own indexing function -/
theorem list_eq_seg [Inhabited α] (xs : List α) :
    xs = seg (fun p => xs.getD p.toNat default) 0 xs.length := by
  apply List.ext_getElem (by simp)
  intro i h1 h2
  simp only [seg_getElem]
  simp [List.getD_eq_getElem?_getD, h1]

end PdsVerif.Seg

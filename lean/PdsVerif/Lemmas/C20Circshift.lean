/-
  C20 — the DFT shift theorem for the index-level model of `circshift_fourier`, over `ℂ`.

  The "inverse DFT of a segment" is defined for an arbitrary list of bin indices `ks` (entry `j` of the
  segment sits at bin `ks[j]`; bins may repeat when the segment is longer than the DFT — the code allows
  it and reduces the indices modulo `D`):

      idftSeg D ks X n = (1/D) · Σ_j X[j] · exp(2πi · ks[j] · n / D).
-/
import PdsVerif.Model.Circshift
import PdsVerif.RealNum
import Mathlib.Analysis.SpecialFunctions.Trigonometric.Basic
import Mathlib.Tactic

namespace PdsVerif.C20.Circ
open PdsVerif PdsVerif.Model.Circshift Complex

/-- the factor the code multiplies bin `k` with: `exp(-2j * pi * s / D * k)` (same association as the source) -/
noncomputable def phaseC (s : ℤ) (D k : ℕ) : ℂ :=
  cexp ((-2 * (Real.pi : ℂ) * I) * (s : ℂ) / (D : ℂ) * (k : ℂ))

noncomputable def mulPhaseC (x : ℂ) (s : ℤ) (D k : ℕ) : ℂ := x * phaseC s D k

/-- the polymorphic `phase` of the model, instantiated at `ℝ`, is exactly this complex exponential -/
theorem phase_real_eq (s : ℤ) (D k : ℕ) :
    (((phase (α := ℝ) s D k).1 : ℝ) : ℂ) + (((phase (α := ℝ) s D k).2 : ℝ) : ℂ) * I = phaseC s D k := by
  simp only [phase, phaseC, transc_cos, transc_sin, transc_pi]
  have h : (-2 * (Real.pi : ℂ) * I) * (s : ℂ) / (D : ℂ) * (k : ℂ)
      = (((-2.0 * Real.pi * (s : ℝ) / (D : ℝ) * (k : ℝ) : ℝ)) : ℂ) * I := by
    push_cast; norm_num; ring
  rw [h, Complex.exp_mul_I, ← Complex.ofReal_cos, ← Complex.ofReal_sin]

/-- ... and the pair product of the model is complex multiplication by it -/
theorem mulPhasePair_real_eq (x : ℂ) (s : ℤ) (D k : ℕ) :
    (⟨(mulPhasePair (α := ℝ) (x.re, x.im) s D k).1, (mulPhasePair (α := ℝ) (x.re, x.im) s D k).2⟩ : ℂ)
      = mulPhaseC x s D k := by
  rw [mulPhaseC, ← phase_real_eq]
  apply Complex.ext <;> simp [mulPhasePair, cmul]

/-- `exp(2πi·k·n/D)` -/
noncomputable def basis (D k : ℕ) (n : ℤ) : ℂ := cexp (2 * (Real.pi : ℂ) * I * (k : ℂ) * (n : ℂ) / (D : ℂ))

/-- inverse DFT of size `D`, evaluated at (any integer) time `n`, of the spectrum that has `X[j]` at bin `ks[j]` -/
noncomputable def idftSeg (D : ℕ) (ks : List ℕ) (X : List ℂ) (n : ℤ) : ℂ :=
  (List.zipWith (fun x k => x * basis D k n) X ks).sum / (D : ℂ)

theorem basis_add_mul (D k : ℕ) (hD : D ≠ 0) (n m : ℤ) : basis D k (n + m * D) = basis D k n := by
  unfold basis
  have hD' : (D : ℂ) ≠ 0 := by exact_mod_cast hD
  have : 2 * (Real.pi : ℂ) * I * (k : ℂ) * ((n + m * D : ℤ) : ℂ) / (D : ℂ)
      = 2 * (Real.pi : ℂ) * I * (k : ℂ) * (n : ℂ) / (D : ℂ) + ((k * m : ℤ) : ℂ) * (2 * (Real.pi : ℂ) * I) := by
    push_cast; field_simp
  rw [this, Complex.exp_add, Complex.exp_int_mul_two_pi_mul_I, mul_one]

/-- the heart of the shift theorem, one bin: reducing the shift modulo `D` is harmless because `k` is an integer -/
theorem phase_mul_basis (D : ℕ) (hD : D ≠ 0) (shift : ℤ) (k : ℕ) (n : ℤ) :
    phaseC (shift % (D : ℤ)) D k * basis D k n = basis D k (n - shift) := by
  have hb := basis_add_mul D k hD (n - shift) (shift / (D : ℤ))
  have e : n - shift + shift / (D : ℤ) * D = n - shift % (D : ℤ) := by
    have := Int.emod_def shift D; rw [this]; ring
  rw [e] at hb
  rw [← hb]
  unfold phaseC basis
  rw [← Complex.exp_add]
  have hD' : (D : ℂ) ≠ 0 := by exact_mod_cast hD
  congr 1
  push_cast; field_simp; ring

theorem idftSeg_periodic (D : ℕ) (hD : D ≠ 0) (ks : List ℕ) (X : List ℂ) (n m : ℤ) :
    idftSeg D ks X (n + m * D) = idftSeg D ks X n := by
  unfold idftSeg
  simp only [basis_add_mul D _ hD]

theorem idftSeg_emod (D : ℕ) (hD : D ≠ 0) (ks : List ℕ) (X : List ℂ) (n : ℤ) :
    idftSeg D ks X (n % (D : ℤ)) = idftSeg D ks X n := by
  have := idftSeg_periodic D hD ks X n (-(n / (D : ℤ)))
  rw [← this]; congr 1
  rw [Int.emod_def]; ring

/-- shift theorem for a list spectrum: multiplying entry `j` by the code's factor for bin `ks[j]`
shifts the inverse DFT by `shift` samples. -/
theorem idftSeg_shift (D : ℕ) (hD : D ≠ 0) (shift : ℤ) (X : List ℂ) (ks : List ℕ) (n : ℤ) :
    idftSeg D ks (List.zipWith (fun x k => mulPhaseC x (shift % (D : ℤ)) D k) X ks) n
      = idftSeg D ks X (n - shift) := by
  unfold idftSeg
  congr 1
  induction X generalizing ks with
  | nil => simp
  | cons x xs ih =>
    cases ks with
    | nil => simp
    | cons k ks =>
      simp only [List.zipWith_cons_cons, List.sum_cons, ih ks]
      rw [mulPhaseC, mul_assoc, phase_mul_basis D hD]

/-! ## the full-band case is the textbook inverse DFT -/

theorem bins_full (D : ℕ) : bins D 0 D = List.range D := by
  unfold bins
  rw [List.range_eq_range']
  conv_rhs => rw [← List.map_id (List.range' 0 D)]
  apply List.map_congr_left
  intro k hk
  simp only [List.mem_range'_1] at hk
  exact Nat.mod_eq_of_lt (by omega)

theorem zipWith_range (X : List ℂ) (f : ℂ → ℕ → ℂ) :
    List.zipWith f X (List.range X.length) = (List.range X.length).map (fun k => f (X.getD k 0) k) := by
  apply List.ext_getElem
  · simp
  · intro i h1 h2
    simp at h1 h2 ⊢
    simp [h1]

theorem list_sum_range_map' (f : ℕ → ℂ) (n : ℕ) :
    ((List.range n).map f).sum = ∑ i ∈ Finset.range n, f i := by
  induction n with
  | zero => simp
  | succ n ih => rw [List.sum_range_succ, Finset.sum_range_succ, ih]

/-- textbook inverse DFT of a full spectrum `X[0..D)` -/
noncomputable def idft (X : List ℂ) (n : ℤ) : ℂ :=
  (∑ k ∈ Finset.range X.length, X.getD k 0 * cexp (2 * (Real.pi : ℂ) * I * (k : ℂ) * (n : ℂ) / (X.length : ℂ)))
    / (X.length : ℂ)

/-- for a full-band spectrum (`start = 0`, `D = len`) `idftSeg` is the textbook inverse DFT -/
theorem idftSeg_fullband (X : List ℂ) (n : ℤ) :
    idftSeg X.length (bins X.length 0 X.length) X n = idft X n := by
  unfold idftSeg idft
  rw [bins_full, zipWith_range, list_sum_range_map']
  rfl

end PdsVerif.C20.Circ

/-
  Numeric interface used by the executable models.

  Models that do arithmetic are written once, against the *standard* operator classes
  (`Add`, `Sub`, `Mul`, `Div`, `Neg`, `OfScientific`, `Max`, `Min`, `LT` + decidability) and the
  law-free class `Transc` below for transcendental functions.  They are instantiated at

  * `Float` (this file; executable; compared with the implementation under a tolerance),
  * `ℝ`     (`PdsVerif/RealNum.lean`; noncomputable; the instance the theorems are about).

  No law is assumed here: every algebraic fact used by a theorem comes from Mathlib's `ℝ`
  (or from `Int`/`Nat`/`Rat` for the exact models).
-/
namespace PdsVerif

/-- Transcendental primitives the Python source calls (`np.exp`, `np.log`, `np.log2`, `2 ** x`,
`np.sqrt`, `np.cos`, `np.sin`, `x ** y`).  Law-free. -/
class Transc (α : Type) where
  exp  : α → α
  log  : α → α
  log2 : α → α
  /-- `2 ** x` -/
  pow2 : α → α
  sqrt : α → α
  cos  : α → α
  sin  : α → α
  /-- `x ** y` for real exponents -/
  rpow : α → α → α
  pi   : α

instance : Transc Float where
  exp := Float.exp
  log := Float.log
  log2 := Float.log2
  pow2 := Float.exp2
  sqrt := Float.sqrt
  cos := Float.cos
  sin := Float.sin
  rpow := Float.pow
  pi := 3.141592653589793

/-- Decimal rendering used by the line protocol: the IEEE bit pattern, so no float is ever
compared through a decimal string. -/
def floatBits (x : Float) : String := toString x.toBits.toNat

def floatOfBits? (s : String) : Option Float :=
  s.toNat?.map fun n => Float.ofBits n.toUInt64

end PdsVerif

/-
  C16 — Standardize normalises with exactly the statistics it was given.

  Theorems about the executable model `PdsVerif.Model.Standardize` (the same definitions the driver
  runs at `Rat` / `Float`), for every history of `accumulate` calls, every split / order / mix of
  vectors and tensors, every rank and axis (a tensor enters through its feature vectors along the axis,
  `vectorsAlong`), every `norm_var`.  Accumulation: any commutative semiring.  `apply`: any field, with
  `sqrt` and the `isclose(·, 0)` test as parameters; the `ℝ` corollaries use `Real.sqrt`.
-/
import PdsVerif.Lemmas.StandardizeBasic
import PdsVerif.Lemmas.StandardizeView
import Mathlib.Analysis.SpecialFunctions.Sqrt
import Mathlib.Tactic

namespace PdsVerif.C16
open PdsVerif.Model.Standardize

/-! ## accumulate -/

section accumulate
variable {α : Type} [CommSemiring α]

/-- `stats (xs ++ ys) = stats xs + stats ys`: accumulation is additive over any split. -/
theorem acc_additive {F : Nat} (xs ys : List (List α)) (hx : ∀ v ∈ xs, v.length = F)
    (hy : ∀ v ∈ ys, v.length = F) :
    statsOf F (xs ++ ys) = statsOf F xs + statsOf F ys := by
  simp only [statsOf, Stats.add_def, List.map_append, List.length_append, Nat.cast_add, add_zero]
  exact Stats.ext_fields (colSum_append _ _ hx hy) rfl
    (colSum_append _ _ (map_vsq_length hx) (map_vsq_length hy)) rfl

/-- `xs ~ ys → stats xs = stats ys`: the order of the feature vectors is irrelevant. -/
theorem acc_perm {F : Nat} {xs ys : List (List α)} (h : xs.Perm ys) :
    statsOf F xs = statsOf F ys := by
  simp only [statsOf]
  rw [colSum_perm h, colSum_perm (h.map vsq), h.length_eq]

/-- an `accumulate` call the code accepts for feature dimension `F`: non-empty, vectors of length `F` -/
def CallOK (F : Nat) (c : Call α) : Prop :=
  c.dim = F ∧ c.vectors ≠ [] ∧ ∀ v ∈ c.vectors, v.length = F

theorem initOrCheck_ok {F : Nat} (st : Option (Stats α)) (hst : ∀ s, st = some s → s.dim = F) :
    initOrCheck st F = .ok (st.getD (Stats.zero F)) := by
  cases st with
  | none => rfl
  | some s => simp [initOrCheck, hst s rfl]

/-- one call adds exactly the closed-form statistics of its feature vectors to the matrix -/
theorem accCall_eq {F : Nat} (hF : F ≠ 0) (st : Option (Stats α))
    (hst : ∀ s, st = some s → s.dim = F) (c : Call α) (hc : CallOK F c) :
    accCall st c = .ok (st.getD (Stats.zero F) + statsOf F c.vectors) := by
  obtain ⟨hd, hne, hlen⟩ := hc
  cases c with
  | vec v =>
    have hv : v.length = F := hd
    have hne' : v.isEmpty = false := by
      cases v with
      | nil => exact absurd hv.symm hF
      | cons _ _ => rfl
    simp only [accCall, hne', Bool.false_eq_true, if_false, accVec, hv, initOrCheck_ok st hst]
    congr 1
    simp only [Stats.add_def, statsOf, Call.vectors, List.map_cons, List.map_nil, List.length_singleton,
      Nat.cast_one, add_zero]
    refine Stats.ext_fields ?_ rfl ?_ rfl
    · show vadd _ v = vadd _ (colSum F [v]); rw [colSum_singleton hv]
    · show vadd _ (vsq v) = vadd _ (colSum F [vsq v]); rw [colSum_singleton (by simpa using hv)]
  | tens F' vs =>
    have hF' : F' = F := hd
    subst hF'
    have hne' : vs.isEmpty = false := by
      cases vs with
      | nil => exact absurd rfl hne
      | cons _ _ => rfl
    simp only [accCall, hF, hne', Bool.false_eq_true, or_self, if_false, accTensor, initOrCheck_ok st hst]
    congr 1
    simp only [Stats.add_def, statsOf, Call.vectors, add_zero]

theorem run_some {F : Nat} (hF : F ≠ 0) (cs : List (Call α)) (hcs : ∀ c ∈ cs, CallOK F c)
    (s : Stats α) (hd : s.dim = F) (hw : s.WF) :
    run (some s) cs = .ok (some (s + statsOf F (cs.flatMap Call.vectors))) := by
  induction cs generalizing s with
  | nil => simp [run, Stats.add_statsOf_nil s hd hw]
  | cons c cs ih =>
    have hc := hcs c List.mem_cons_self
    have hcs' : ∀ c' ∈ cs, CallOK F c' := fun c' h => hcs c' (List.mem_cons_of_mem _ h)
    have hflat : ∀ v ∈ cs.flatMap Call.vectors, v.length = F := by
      intro v hv
      obtain ⟨c', hc', hv'⟩ := List.mem_flatMap.1 hv
      exact (hcs' c' hc').2.2 v hv'
    simp only [run, accCall_eq hF (some s) (fun s' h => by cases h; exact hd) c hc, Option.getD_some]
    rw [ih hcs' _ (Stats.add_dim _ _ hd (statsOf_dim hc.2.2)) (Stats.add_wf _ _ hw (statsOf_wf hc.2.2)),
      List.flatMap_cons, acc_additive _ _ hc.2.2 hflat, Stats.add_assoc_stats]

/-- **Closed form of any history.**  Starting from a fresh object, any non-empty sequence of accepted
`accumulate` calls — vectors, tensors along any axis, in any mix — leaves exactly `statsOf` of the
concatenation of their feature vectors. -/
theorem run_eq_statsOf {F : Nat} (hF : F ≠ 0) (cs : List (Call α)) (hne : cs ≠ [])
    (hcs : ∀ c ∈ cs, CallOK F c) :
    run none cs = .ok (some (statsOf F (cs.flatMap Call.vectors))) := by
  cases cs with
  | nil => exact absurd rfl hne
  | cons c cs =>
    have hc := hcs c List.mem_cons_self
    have hcs' : ∀ c' ∈ cs, CallOK F c' := fun c' h => hcs c' (List.mem_cons_of_mem _ h)
    have hflat : ∀ v ∈ cs.flatMap Call.vectors, v.length = F := by
      intro v hv
      obtain ⟨c', hc', hv'⟩ := List.mem_flatMap.1 hv
      exact (hcs' c' hc').2.2 v hv'
    simp only [run, accCall_eq hF none (fun s' h => by cases h) c hc, Option.getD_none,
      Stats.zero_add_statsOf _ hc.2.2]
    rw [run_some hF cs hcs' _ (statsOf_dim hc.2.2) (statsOf_wf hc.2.2), List.flatMap_cons,
      acc_additive _ _ hc.2.2 hflat]

omit [CommSemiring α] in
theorem flatMap_vec (vs : List (List α)) : (vs.map Call.vec).flatMap Call.vectors = vs := by
  induction vs with
  | nil => rfl
  | cons v vs ih => simp [List.flatMap_cons, Call.vectors, ih]

/-- accumulating a tensor (along any axis: `vs` are its feature vectors there) = accumulating its
feature vectors one by one, from any state of matching dimension. -/
theorem acc_tensor_eq_vectors {F : Nat} (hF : F ≠ 0) (st : Option (Stats α))
    (hst : ∀ s, st = some s → s.dim = F ∧ s.WF) (vs : List (List α)) (hne : vs ≠ [])
    (hvs : ∀ v ∈ vs, v.length = F) :
    run st [Call.tens F vs] = run st (vs.map Call.vec) := by
  have h1 : ∀ c ∈ [Call.tens F vs], CallOK F c := by
    intro c hc
    rw [List.mem_singleton] at hc; subst hc
    exact ⟨rfl, hne, hvs⟩
  have h2 : ∀ c ∈ vs.map Call.vec, CallOK F c := by
    intro c hc
    obtain ⟨v, hv, rfl⟩ := List.mem_map.1 hc
    exact ⟨hvs v hv, by simp [Call.vectors], by simpa [Call.vectors] using hvs v hv⟩
  cases st with
  | none =>
    rw [run_eq_statsOf hF _ (by simp) h1, run_eq_statsOf hF _ (by simpa using hne) h2, flatMap_vec]
    simp [Call.vectors]
  | some s =>
    obtain ⟨hd, hw⟩ := hst s rfl
    rw [run_some hF _ h1 s hd hw, run_some hF _ h2 s hd hw, flatMap_vec]
    simp [Call.vectors]

/-- **Corollary.**  Two histories over the same data — any split into calls, any order, any mix of
vector and tensor calls — end in the same statistics matrix. -/
theorem same_data_same_stats {F : Nat} (hF : F ≠ 0) (cs₁ cs₂ : List (Call α))
    (hne₁ : cs₁ ≠ []) (hne₂ : cs₂ ≠ []) (h₁ : ∀ c ∈ cs₁, CallOK F c) (h₂ : ∀ c ∈ cs₂, CallOK F c)
    (hp : (cs₁.flatMap Call.vectors).Perm (cs₂.flatMap Call.vectors)) :
    run none cs₁ = run none cs₂ := by
  rw [run_eq_statsOf hF cs₁ hne₁ h₁, run_eq_statsOf hF cs₂ hne₂ h₂, acc_perm hp]

/-- a feature vector of the wrong length is rejected (`ValueError`), vector and tensor path -/
theorem dim_mismatch_accumulate (s : Stats α) (c : Call α) (h : c.dim ≠ s.dim) :
    accCall (some s) c = .error .ValueError := by
  cases c with
  | vec v =>
    have : ¬ s.dim = v.length := fun e => h e.symm
    by_cases hv : v.isEmpty <;> simp [accCall, accVec, initOrCheck, this, hv]
  | tens F vs =>
    have : ¬ s.dim = F := fun e => h e.symm
    by_cases hv : (F = 0 ∨ vs.isEmpty) <;> simp [accCall, accTensor, initOrCheck, this]

end accumulate

/-! ## apply -/

section applyField
variable {α : Type} [Field α]

theorem activeStats_some [DecidableEq α] (s : Stats α) (hc : s.cnt ≠ 0) : activeStats (some s) = some s := by
  simp [activeStats, hc]

theorem affine_get {x sc mu : List α} {i : Nat} {xi ci mi : α} (hx : x[i]? = some xi)
    (hs : sc[i]? = some ci) (hm : mu[i]? = some mi) :
    (affine x sc mu)[i]? = some ((xi - mi) * ci) := by
  unfold affine
  rw [getElem?_zipWith_some (getElem?_zipWith_some hx hs) (getElem?_zipWith_some hm hs)]
  congr 1; ring

theorem affine_length {F : Nat} {x sc mu : List α} (hx : x.length = F) (hs : sc.length = F)
    (hm : mu.length = F) : (affine x sc mu).length = F := by
  simp [affine, hx, hs, hm]

/-- the documented scale of coefficient `i`: `1/√σ²` with `σ² = sumsq/count − μ²` (replaced by `1` when
`isclose(σ², 0)`), or `1` when `norm_var` is off -/
def specScale (sqrt : α → α) (cz : α → Bool) (nv : Bool) (cnt si qi : α) : α :=
  if nv then 1 / sqrt (if cz (qi / cnt - (si / cnt) ^ 2) then 1 else qi / cnt - (si / cnt) ^ 2) else 1

theorem means_get {s : Stats α} {i : Nat} {si : α} (h : s.sum[i]? = some si) :
    (means s)[i]? = some (si / s.cnt) := by
  simp [means, h]

theorem varOf_get (cnt : α) {sq mu : List α} {i : Nat} {qi mi : α} (hq : sq[i]? = some qi)
    (hm : mu[i]? = some mi) : (varOf cnt sq mu)[i]? = some (qi / cnt - mi ^ 2) := by
  unfold varOf
  rw [getElem?_zipWith_some hq hm, pow_two]

theorem scales_get (sqrt : α → α) (cz : α → Bool) {v : List α} {i : Nat} {vi : α}
    (h : v[i]? = some vi) :
    (scales sqrt cz v)[i]? = some (1 / sqrt (if cz vi then 1 else vi)) := by
  simp [scales, h]

theorem ones_get {n i : Nat} (h : i < n) : (ones n : List α)[i]? = some 1 := by
  simp [ones, h]

/-- the scale vector both paths use, given the matrix -/
def scaleVec (sqrt : α → α) (cz : α → Bool) (nv : Bool) (s : Stats α) (F : Nat) : List α :=
  if nv then scales sqrt cz (varOf s.cnt s.sq (means s)) else ones F

theorem scaleVec_get (sqrt : α → α) (cz : α → Bool) (nv : Bool) (s : Stats α) {F i : Nat}
    (hi : i < F) {si qi : α} (hsi : s.sum[i]? = some si) (hqi : s.sq[i]? = some qi) :
    (scaleVec sqrt cz nv s F)[i]? = some (specScale sqrt cz nv s.cnt si qi) := by
  unfold scaleVec specScale
  cases nv with
  | false => simpa using ones_get hi
  | true => simpa using scales_get sqrt cz (varOf_get _ hqi (means_get hsi))

theorem applyVec_global [DecidableEq α] (sqrt : α → α) (cz : α → Bool) (nv : Bool) (s : Stats α) (hc : s.cnt ≠ 0)
    (x : List α) (hx : x.length = s.dim) :
    applyVec sqrt cz nv (some s) x = .ok (affine x (scaleVec sqrt cz nv s x.length) (means s)) := by
  simp only [applyVec, dimCheck, hx, if_true, activeStats_some s hc, scaleVec]

/-- **apply, with statistics (vector path).**  `(apply s x)_i = (x_i − μ_i)·scale_i`, `μ = sum/count`,
`σ² = sumsq/count − μ²`, `scale = 1/√σ²` (or `1/√1` where `isclose(σ², 0)`; or `1` without `norm_var`). -/
theorem apply_formula [DecidableEq α] (sqrt : α → α) (cz : α → Bool) (nv : Bool) (s : Stats α) (hc : s.cnt ≠ 0)
    (x : List α) (hx : x.length = s.dim) (i : Nat) (xi si qi : α) (hxi : x[i]? = some xi)
    (hsi : s.sum[i]? = some si) (hqi : s.sq[i]? = some qi) :
    ∃ y, applyVec sqrt cz nv (some s) x = .ok y ∧
      y[i]? = some ((xi - si / s.cnt) * specScale sqrt cz nv s.cnt si qi) := by
  refine ⟨_, applyVec_global sqrt cz nv s hc x hx, ?_⟩
  have hi : i < x.length := by
    rcases Nat.lt_or_ge i x.length with h | h
    · exact h
    · rw [List.getElem?_eq_none h] at hxi; cases hxi
  exact affine_get hxi (scaleVec_get sqrt cz nv s hi hsi hqi) (means_get hsi)

/-- **apply, with statistics (tensor path, any axis).**  Every feature vector of the tensor is
transformed exactly as the vector path transforms it, so `apply_formula` holds entry-wise. -/
theorem apply_tensor_eq_vectors [DecidableEq α] (sqrt : α → α) (cz : α → Bool) (nv : Bool) (s : Stats α)
    (hc : s.cnt ≠ 0) (single : Bool) (F : Nat) (hd : s.dim = F) (vs : List (List α))
    (hvs : ∀ v ∈ vs, v.length = F) :
    ∃ ys, applyTens sqrt cz nv (some s) single F vs = .ok ys ∧ ys.length = vs.length ∧
      ∀ (k : Nat) (v : List α), vs[k]? = some v → ∃ y, applyVec sqrt cz nv (some s) v = .ok y ∧ ys[k]? = some y := by
  refine ⟨vs.map fun v => affine v (scaleVec sqrt cz nv s F) (means s), ?_, by simp, ?_⟩
  · simp only [applyTens, dimCheck, hd, if_true, activeStats_some s hc, scaleVec]
  · intro k v hk
    have hv : v.length = F := hvs v (List.mem_of_getElem? hk)
    refine ⟨_, applyVec_global sqrt cz nv s hc v (by rw [hv, hd]), ?_⟩
    simp [hk, hv]

/-- a tensor / vector whose feature dimension differs from the statistics' is rejected -/
theorem dim_mismatch_apply [DecidableEq α] (sqrt : α → α) (cz : α → Bool) (nv : Bool) (s : Stats α)
    (x : List α) (h : x.length ≠ s.dim) :
    applyVec sqrt cz nv (some s) x = .error .ValueError := by
  have : ¬ s.dim = x.length := fun e => h e.symm
  simp [applyVec, dimCheck, this]

theorem dim_mismatch_apply_tensor [DecidableEq α] (sqrt : α → α) (cz : α → Bool) (nv : Bool) (s : Stats α)
    (single : Bool) (F : Nat) (vs : List (List α)) (h : F ≠ s.dim) :
    applyTens sqrt cz nv (some s) single F vs = .error .ValueError := by
  have : ¬ s.dim = F := fun e => h e.symm
  simp [applyTens, dimCheck, this]

/-- histories over the same data give the same transform (vector and tensor path) -/
theorem same_data_same_transform [DecidableEq α] {F : Nat} (hF : F ≠ 0) (cs₁ cs₂ : List (Call α))
    (hne₁ : cs₁ ≠ []) (hne₂ : cs₂ ≠ []) (h₁ : ∀ c ∈ cs₁, CallOK F c) (h₂ : ∀ c ∈ cs₂, CallOK F c)
    (hp : (cs₁.flatMap Call.vectors).Perm (cs₂.flatMap Call.vectors))
    (st₁ st₂ : Option (Stats α)) (hr₁ : run none cs₁ = .ok st₁) (hr₂ : run none cs₂ = .ok st₂)
    (sqrt : α → α) (cz : α → Bool) (nv : Bool) :
    (∀ x, applyVec sqrt cz nv st₁ x = applyVec sqrt cz nv st₂ x) ∧
    (∀ single G vs, applyTens sqrt cz nv st₁ single G vs = applyTens sqrt cz nv st₂ single G vs) := by
  have h := same_data_same_stats hF cs₁ cs₂ hne₁ hne₂ h₁ h₂ hp
  rw [hr₁, hr₂] at h
  cases h
  exact ⟨fun _ => rfl, fun _ _ _ => rfl⟩

/-! ### the no-statistics (local) path -/

theorem sum_map_affine (l : List α) (m c : α) :
    (l.map fun x => (x - m) * c).sum = (l.sum - l.length * m) * c := by
  induction l with
  | nil => simp
  | cons x l ih => simp only [List.map_cons, List.sum_cons, ih, List.length_cons, Nat.cast_succ]; ring

theorem sum_map_affine_sq (l : List α) (m c : α) :
    (l.map fun x => (x - m) * c * ((x - m) * c)).sum =
      c * c * ((l.map fun x => x * x).sum - 2 * m * l.sum + l.length * (m * m)) := by
  induction l with
  | nil => simp
  | cons x l ih =>
    simp only [List.map_cons, List.sum_cons, ih, List.length_cons, Nat.cast_succ]; ring

theorem col_vsq (i : Nat) (vs : List (List α)) :
    col i (vs.map vsq) = (col i vs).map fun x => x * x := by
  simp only [col, List.map_map]
  apply List.map_congr_left
  intro v _
  simp only [Function.comp, vsq, List.getD]
  rcases Nat.lt_or_ge i v.length with h | h
  · simp [List.getElem?_eq_getElem h]
  · simp [List.getElem?_eq_none h]

theorem col_map_affine {F i : Nat} (hi : i < F) (vs : List (List α)) (hvs : ∀ v ∈ vs, v.length = F)
    {sc mu : List α} {c m : α} (hs : sc[i]? = some c) (hm : mu[i]? = some m) :
    col i (vs.map fun v => affine v sc mu) = (col i vs).map fun x => (x - m) * c := by
  simp only [col, List.map_map]
  apply List.map_congr_left
  intro v hv
  have hlt : i < v.length := by rw [hvs v hv]; exact hi
  have hx : v[i]? = some (v.getD i 0) := by simp [List.getD, List.getElem?_eq_getElem hlt]
  simp only [Function.comp, List.getD, affine_get hx hs hm, Option.getD_some]

/-- what the local path computes, in closed form -/
theorem applyTens_local [DecidableEq α] (sqrt : α → α) (cz : α → Bool) (nv : Bool) (F : Nat) (vs : List (List α)) :
    applyTens sqrt cz nv none false F vs =
      .ok (vs.map fun v => affine v
        (if nv then scales sqrt cz (varOf (vs.length : α) (colSum F (vs.map vsq))
            ((colSum F vs).map (· / (vs.length : α)))) else ones F)
        ((colSum F vs).map (· / (vs.length : α)))) := by
  simp [applyTens, dimCheck, activeStats]

/-- **Local standardisation has mean 0** in every coefficient (sum over the other axes is 0), with or
without `norm_var`; `(N : α) ≠ 0` holds in characteristic 0 for the non-empty tensors the code accepts. -/
theorem local_mean_zero [DecidableEq α] (sqrt : α → α) (cz : α → Bool) (nv : Bool) {F : Nat} (vs : List (List α))
    (hvs : ∀ v ∈ vs, v.length = F) (hN : (vs.length : α) ≠ 0) (ys : List (List α))
    (h : applyTens sqrt cz nv none false F vs = .ok ys) (i : Nat) (hi : i < F) :
    (colSum F ys)[i]? = some 0 := by
  rw [applyTens_local] at h
  cases h
  set mu := (colSum F vs).map (· / (vs.length : α)) with hmu
  set sc := (if nv then scales sqrt cz (varOf (vs.length : α) (colSum F (vs.map vsq)) mu)
    else ones F) with hsc
  have hmui : mu[i]? = some ((col i vs).sum / (vs.length : α)) := by
    simp [hmu, colSum_get hi vs hvs]
  have hq := colSum_get hi (vs.map vsq) (map_vsq_length hvs)
  obtain ⟨c, hci⟩ : ∃ c, sc[i]? = some c := by
    cases nv with
    | false => exact ⟨1, by simpa [hsc] using ones_get hi⟩
    | true => exact ⟨_, by simpa [hsc] using scales_get sqrt cz (varOf_get _ hq hmui)⟩
  have hmul : mu.length = F := by simp [hmu, colSum_length vs hvs]
  have hscl : sc.length = F := by
    cases nv with
    | false => simp [hsc, ones]
    | true =>
      simp [hsc, scales, varOf, hmul, colSum_length _ (map_vsq_length hvs)]
  have hys : ∀ w ∈ vs.map (fun v => affine v sc mu), w.length = F := by
    intro w hw
    obtain ⟨v, hv, rfl⟩ := List.mem_map.1 hw
    exact affine_length (hvs v hv) hscl hmul
  rw [colSum_get hi _ hys, col_map_affine hi vs hvs hci hmui, sum_map_affine, col_length]
  congr 1
  field_simp
  ring

/-- **Local standardisation has variance 1** in coefficient `i` (`E[y²] = 1`, the mean being 0 by
`local_mean_zero`) whenever `sqrt` really is a square root of that coefficient's variance
`σ² = E[x²] − E[x]²`, `σ² ≠ 0`, and the `isclose(σ², 0)` replacement does not fire. -/
theorem local_var_one [DecidableEq α] (sqrt : α → α) (cz : α → Bool) {F : Nat} (vs : List (List α))
    (hvs : ∀ v ∈ vs, v.length = F) (hN : (vs.length : α) ≠ 0) (ys : List (List α))
    (h : applyTens sqrt cz true none false F vs = .ok ys) (i : Nat) (hi : i < F)
    (var : α)
    (hvar : var = ((col i vs).map fun x => x * x).sum / (vs.length : α)
      - ((col i vs).sum / (vs.length : α)) ^ 2)
    (hcz : cz var = false) (hsq : sqrt var * sqrt var = var) (hv0 : var ≠ 0) :
    ∃ Q, (colSum F (ys.map vsq))[i]? = some Q ∧ Q / (vs.length : α) = 1 := by
  rw [applyTens_local, if_pos rfl] at h
  cases h
  set mu := (colSum F vs).map (· / (vs.length : α)) with hmu
  set sc := scales sqrt cz (varOf (vs.length : α) (colSum F (vs.map vsq)) mu) with hsc
  have hmui : mu[i]? = some ((col i vs).sum / (vs.length : α)) := by
    simp [hmu, colSum_get hi vs hvs]
  have hq := colSum_get hi (vs.map vsq) (map_vsq_length hvs)
  rw [col_vsq] at hq
  have hci : sc[i]? = some (1 / sqrt var) := by
    have := scales_get sqrt cz (varOf_get (vs.length : α) hq hmui)
    rw [← hvar, hcz] at this
    simpa [hsc] using this
  have hmul : mu.length = F := by simp [hmu, colSum_length vs hvs]
  have hscl : sc.length = F := by
    simp [hsc, scales, varOf, hmul, colSum_length _ (map_vsq_length hvs)]
  have hys : ∀ w ∈ vs.map (fun v => affine v sc mu), w.length = F := by
    intro w hw
    obtain ⟨v, hv, rfl⟩ := List.mem_map.1 hw
    exact affine_length (hvs v hv) hscl hmul
  refine ⟨_, colSum_get hi _ (map_vsq_length hys), ?_⟩
  rw [col_vsq, col_map_affine hi vs hvs hci hmui, List.map_map]
  show (List.map (fun x => (x - _) * _ * ((x - _) * _)) (col i vs)).sum / _ = 1
  rw [sum_map_affine_sq, col_length]
  have hs0 : sqrt var ≠ 0 := by
    intro h0; rw [h0, mul_zero] at hsq; exact hv0 hsq.symm
  have key : ((col i vs).map fun x => x * x).sum
      = (vs.length : α) * (var + ((col i vs).sum / (vs.length : α)) ^ 2) := by
    rw [hvar]; field_simp; ring
  rw [key]
  generalize sqrt var = s at hsq hs0 ⊢
  rw [← hsq]
  field_simp
  ring

end applyField

/-! ### over ℝ with `Real.sqrt` -/

/-- `local_var_one` at `ℝ`: positive variance not caught by the `isclose` replacement → variance 1. -/
theorem local_var_one_real (cz : ℝ → Bool) {F : Nat} (vs : List (List ℝ))
    (hvs : ∀ v ∈ vs, v.length = F) (hne : vs ≠ []) (ys : List (List ℝ))
    (h : applyTens Real.sqrt cz true none false F vs = .ok ys) (i : Nat) (hi : i < F)
    (var : ℝ)
    (hvar : var = ((col i vs).map fun x => x * x).sum / (vs.length : ℝ)
      - ((col i vs).sum / (vs.length : ℝ)) ^ 2)
    (hpos : 0 < var) (hcz : cz var = false) :
    ∃ Q, (colSum F (ys.map vsq))[i]? = some Q ∧ Q / (vs.length : ℝ) = 1 := by
  have hN : (vs.length : ℝ) ≠ 0 := by
    have : vs.length ≠ 0 := fun h0 => hne (List.length_eq_zero_iff.1 h0)
    exact_mod_cast this
  exact local_var_one Real.sqrt cz vs hvs hN ys h i hi var hvar hcz
    (Real.mul_self_sqrt hpos.le) hpos.ne'

/-- `local_mean_zero` at `ℝ` for the non-empty tensors the code accepts -/
theorem local_mean_zero_real (cz : ℝ → Bool) (nv : Bool) {F : Nat} (vs : List (List ℝ))
    (hvs : ∀ v ∈ vs, v.length = F) (hne : vs ≠ []) (ys : List (List ℝ))
    (h : applyTens Real.sqrt cz nv none false F vs = .ok ys) (i : Nat) (hi : i < F) :
    (colSum F ys)[i]? = some 0 := by
  have hN : (vs.length : ℝ) ≠ 0 := by
    have : vs.length ≠ 0 := fun h0 => hne (List.length_eq_zero_iff.1 h0)
    exact_mod_cast this
  exact local_mean_zero Real.sqrt cz nv vs hvs hN ys h i hi

/-- at `ℝ` the replaced variance gives scale exactly 1, and a positive variance gives `1/√σ²` -/
theorem specScale_real (cz : ℝ → Bool) (cnt si qi : ℝ) :
    specScale Real.sqrt cz true cnt si qi =
      if cz (qi / cnt - (si / cnt) ^ 2) then 1 else 1 / Real.sqrt (qi / cnt - (si / cnt) ^ 2) := by
  simp only [specScale, ↓reduceIte]
  split_ifs <;> simp

/-! ## the public entry points: dtype tag, purity, axis handling -/

section api
variable {α : Type} [Field α] [DecidableEq α]

/-- shape of every successful `apply` result -/
theorem apply_ok_form (sqrt : α → α) (cz : α → Bool) (nv : Bool) (st : Option (Stats α))
    (t : Tensor α) (axis : Int) (ip : Bool) (o : ApplyOut α)
    (h : apply sqrt cz nv st t axis ip = .ok o) :
    o.dtype = .f64 ∧ o.shape = t.shape ∧
      o.inputAfter = if ip && t.dtype == .f64 then o.data else t.data := by
  unfold apply at h
  repeat' split at h
  all_goals first
    | (cases h; done)
    | (cases h; refine ⟨rfl, rfl, ?_⟩; simp [*])

/-- the result is always tagged float64 and keeps the input's shape -/
theorem result_dtype_f64 (sqrt : α → α) (cz : α → Bool) (nv : Bool) (st : Option (Stats α))
    (t : Tensor α) (axis : Int) (ip : Bool) (o : ApplyOut α)
    (h : apply sqrt cz nv st t axis ip = .ok o) : o.dtype = .f64 ∧ o.shape = t.shape :=
  let ⟨h1, h2, _⟩ := apply_ok_form sqrt cz nv st t axis ip o h
  ⟨h1, h2⟩

/-- without `in_place` the caller's array is left as it was (for any dtype); with `in_place` it is
overwritten (by the result) only when it already is float64 -/
theorem not_in_place_pure (sqrt : α → α) (cz : α → Bool) (nv : Bool) (st : Option (Stats α))
    (t : Tensor α) (axis : Int) (o : ApplyOut α)
    (h : apply sqrt cz nv st t axis false = .ok o) : o.inputAfter = t.data := by
  have := (apply_ok_form sqrt cz nv st t axis false o h).2.2
  simpa using this

omit [DecidableEq α] in
/-- the n-D entry point is the list-of-vectors model applied to `vectorsAlong` of the array -/
theorem accumulate_tensor_eq (st : Option (Stats α)) (t : Tensor α) (axis : Int)
    (hrank : t.shape.length > 1) (hg : emptyGuard t = .ok ()) (w : View α)
    (hv : t.view axis = .ok w) : accumulate st t axis = accTensor st w.F w.vecs := by
  simp [accumulate, hg, hrank, hv]

end api

section apiFormula
variable {α : Type} [Field α] [DecidableEq α]

/-- a successful `apply` on an n-D array went through view → `applyTens` → `unview` -/
theorem apply_tensor_inv (sqrt : α → α) (cz : α → Bool) (nv : Bool) (st : Option (Stats α))
    (t : Tensor α) (axis : Int) (ip : Bool) (o : ApplyOut α) (hrank : t.shape.length > 1)
    (h : apply sqrt cz nv st t axis ip = .ok o) :
    ∃ w ys d, t.view axis = .ok w ∧
      applyTens sqrt cz nv st (singleVector t.shape axis) w.F w.vecs = .ok ys ∧
      unview w.A w.F w.B ys = some d ∧ o.data = d := by
  cases hg : emptyGuard t with
  | error e => simp [apply, hg] at h
  | ok u =>
    cases hw : t.view axis with
    | error e => simp [apply, hg, hrank, hw] at h
    | ok w =>
      cases hys : applyTens sqrt cz nv st (singleVector t.shape axis) w.F w.vecs with
      | error e => simp [apply, hg, hrank, hw, hys] at h
      | ok ys =>
        cases hd : unview w.A w.F w.B ys with
        | none => simp [apply, hg, hrank, hw, hys, hd] at h
        | some d =>
          simp only [apply, hg, hrank, hw, hys, hd, if_true, Except.ok.injEq] at h
          exact ⟨w, ys, d, rfl, hys, hd, by rw [← h]⟩

/-- **apply on an n-D array, any rank, any axis, element by element.**  With `shape = pre ++ [F] ++ post`,
`A = prod pre`, `B = prod post`, the output element at flat (row-major) index `(a*F + i)*B + b` — i.e. at
multi-index `(pre-index a, i, post-index b)`, see `ravel_split` — is
`(x − μ_i)·scale_i` of the input element at the same index. -/
theorem apply_tensor_formula (sqrt : α → α) (cz : α → Bool) (nv : Bool) (s : Stats α) (hc : s.cnt ≠ 0)
    (t : Tensor α) (axis : Int) (ip : Bool) (o : ApplyOut α) (hrank : t.shape.length > 1)
    (h : apply sqrt cz nv (some s) t axis ip = .ok o) :
    ∃ w, t.view axis = .ok w ∧ s.dim = w.F ∧
      ∀ a i b, a < w.A → i < w.F → b < w.B → ∀ x si qi,
        t.data[(a * w.F + i) * w.B + b]? = some x → s.sum[i]? = some si → s.sq[i]? = some qi →
        o.data[(a * w.F + i) * w.B + b]? =
          some ((x - si / s.cnt) * specScale sqrt cz nv s.cnt si qi) := by
  obtain ⟨w, ys, d, hw, hys, hd, hod⟩ := apply_tensor_inv sqrt cz nv (some s) t axis ip o hrank h
  subst hod
  have hdim : s.dim = w.F := by
    by_contra hne
    rw [dim_mismatch_apply_tensor sqrt cz nv s _ w.F w.vecs (fun e => hne e.symm)] at hys
    cases hys
  refine ⟨w, hw, hdim, ?_⟩
  intro a i b ha hi hb x si qi hx hsi hqi
  obtain ⟨_, _, _, _, _, _, hvecs⟩ := view_spec hw
  obtain ⟨_, hlen, hspec⟩ := vectorsAlong_spec hvecs
  obtain ⟨v, x', hv, hvi, hx'⟩ := hspec a b i ha hb hi
  rw [hx] at hx'
  cases hx'
  obtain ⟨ys', hys', _, hmap⟩ :=
    apply_tensor_eq_vectors sqrt cz nv s hc (singleVector t.shape axis) w.F hdim w.vecs hlen
  rw [hys] at hys'
  cases hys'
  obtain ⟨y, hy, hyk⟩ := hmap _ v hv
  have hvl : v.length = s.dim := by rw [hdim]; exact hlen v (List.mem_of_getElem? hv)
  obtain ⟨y', hy', hyi⟩ := apply_formula sqrt cz nv s hc v hvl i x si qi hvi hsi hqi
  rw [hy] at hy'
  cases hy'
  obtain ⟨v2, x2, hv2, hx2, hd2⟩ := unview_spec hd ha hi hb
  rw [hyk] at hv2
  cases hv2
  rw [hyi] at hx2
  cases hx2
  exact hd2

/-- accumulating an n-D array through the public entry point = accumulating its feature vectors along
the axis one at a time as 1-D arrays (non-empty array: `w.F ≠ 0`, `w.vecs ≠ []`). -/
theorem accumulate_tensor_as_vectors {R : Type} [CommSemiring R] (st : Option (Stats R)) (t : Tensor R)
    (axis : Int) (hrank : t.shape.length > 1) (hg : emptyGuard t = .ok ()) (w : View R)
    (hv : t.view axis = .ok w) (hF : w.F ≠ 0) (hne : w.vecs ≠ [])
    (hst : ∀ s, st = some s → s.dim = w.F ∧ s.WF) :
    (accumulate st t axis).map some = run st (w.vecs.map Call.vec) := by
  obtain ⟨_, _, _, _, _, _, hvecs⟩ := view_spec hv
  obtain ⟨_, hlen, _⟩ := vectorsAlong_spec hvecs
  rw [← acc_tensor_eq_vectors hF st hst w.vecs hne hlen]
  have hacc : accumulate st t axis = accTensor st w.F w.vecs := by
    simp [accumulate, hg, hrank, hv]
  have hemp : w.vecs.isEmpty = false := by
    cases hw : w.vecs with
    | nil => exact absurd hw hne
    | cons _ _ => rfl
  rw [hacc]
  simp only [run, accCall, hF, hemp, Bool.false_eq_true, or_self, if_false]
  cases accTensor st w.F w.vecs <;> rfl

end apiFormula

/-! ## hypotheses are satisfiable -/

example : CallOK (α := ℚ) 2 (Call.tens 2 [[1, -2], [3, 4]]) :=
  ⟨rfl, by simp [Call.vectors], by simp [Call.vectors]⟩

example : ∃ var : ℝ, 0 < var ∧
    var = ((col 0 [[(1:ℝ)], [3]]).map fun x => x * x).sum / (2:ℕ) - ((col 0 [[(1:ℝ)], [3]]).sum / (2:ℕ)) ^ 2 :=
  ⟨1, by norm_num, by norm_num [col]⟩

end PdsVerif.C16

/-
  C06 — frequency-domain representations of a filter agree.

  Model: `PdsVerif/Model/BankIndex.lean` (index arithmetic of `get_truncated_response` /
  `get_frequency_response` of the four banks, NumPy slice assignment, the documented rebuild
  recipes, the `half` length rule, the closed-form support constants).

  * discrete part (all widths `W ≥ 2`, all supports `0 ≤ low ≤ high ≤ Nyquist` — `CompactOK`, which
    also admits vertices that miss `0` / the Nyquist by float round-off —, no bounds):
    start bin in range, truncated length, real banks inside the half spectrum, recipe(truncated) =
    full response *bin for bin* for the triangular and Fbank banks, `half=True` is a prefix,
    Hermitian symmetry, analytic banks vanish on negative frequencies, what the two recipes put
    in which bin (the link to C02's `walk_covers` / `walk_bins_distinct`);
  * periodic banks (Gabor, gammatone): `bin_idx = left_idx % W` in range, the fallback predicate
    and `len ≤ W` when it is not taken, what it returns when it is, the period ranges summed;
  * analytic part over `ℝ`: a principal image outside `supports_ang` is at most
    `EFFECTIVE_SUPPORT_THRESHOLD` in magnitude, the "wrap" supports' levels, and — fallback not taken —
    the sum of the periodic images `get_frequency_response` adds up differs from what the rebuilt
    response holds by at most `2·EFFECTIVE_SUPPORT_THRESHOLD` (`gabor_within_2eps`,
    `gammatone_within_2eps`).
-/
import PdsVerif.Lemmas.BankIndexClosed
import PdsVerif.Lemmas.BankIndexRecipe
import PdsVerif.Model.Walk
import PdsVerif.Lemmas.BankIndexAnalytic
import Mathlib.Analysis.Real.Pi.Bounds

namespace PdsVerif.C06
open PdsVerif.Model PdsVerif.Model.BankIndex PdsVerif.BankIndexLemmas

variable {α : Type}

/-! ## the `half` length rule -/

/-- the documented length of a `half=True` response (`W//2 + 1` for even `W`, `(W+1)//2` for odd
`W`), the recipe docstring's `half_width`, and `len(np.fft.rfft(·, n=W))` of C02 are one number -/
theorem halfLen_doc (W : Nat) :
    halfLen W = (if W % 2 = 0 then W / 2 + 1 else (W + 1) / 2) ∧ halfLen W = halfLenDoc W ∧
      halfLen W = Walk.halfLen W := by
  rw [halfLen_eq, halfLenDoc_eq]; unfold Walk.halfLen
  refine ⟨?_, rfl, rfl⟩
  split <;> omega

/-! ## compact banks: indices -/

/-- `get_truncated_response` / `get_frequency_response` of the triangular and Fbank banks never
raise: both `assert`s hold and no buffer has a negative size -/
theorem compact_defined (k : Compact) (z : α) (val : Int → α) {W : Nat} {lo hi : Frac}
    (h : CompactOK W lo hi) (analytic half : Bool) :
    (truncCompact k z val W lo hi).isSome ∧ (fullCompact z val W lo hi analytic half).isSome := by
  rw [truncCompact_closed k z val h, fullCompact_closed z val h]; exact ⟨rfl, rfl⟩

/-- **start_in_range** (triangular, Fbank): `0 ≤ bin_idx < width` -/
theorem start_in_range (k : Compact) (z : α) (val : Int → α) {W : Nat} {lo hi : Frac}
    (h : CompactOK W lo hi) (s : Int) (t : List α) (ht : truncCompact k z val W lo hi = some (s, t)) :
    0 ≤ s ∧ s < W := by
  rw [truncCompact_closed k z val h] at ht
  obtain ⟨c1, c2, -⟩ := compact_idx h
  cases ht; exact ⟨c1, c2⟩

/-- the truncated response holds exactly the loop's values for bins `left_idx … right_idx` -/
theorem trunc_values (k : Compact) (z : α) (val : Int → α) {W : Nat} {lo hi : Frac}
    (h : CompactOK W lo hi) (s : Int) (t : List α) (ht : truncCompact k z val W lo hi = some (s, t)) :
    s = leftIdx W lo ∧ (t.length : Int) = rightIdx W hi + 1 - leftIdx W lo ∧
      ∀ j, j < t.length → t[j]? = some (val (s + (j : Int))) := by
  rw [truncCompact_closed k z val h] at ht
  obtain ⟨c1, c2, c3, -⟩ := compact_idx h
  cases ht
  refine ⟨rfl, by simp; omega, ?_⟩
  intro j hj
  simp only [List.length_map, List.length_range] at hj
  rw [List.getElem?_map, List.getElem?_range hj]; rfl

/-- **trunc_len_le** (triangular, Fbank): the truncated response is no longer than the DFT -/
theorem trunc_len_le (k : Compact) (z : α) (val : Int → α) {W : Nat} {lo hi : Frac}
    (h : CompactOK W lo hi) (s : Int) (t : List α) (ht : truncCompact k z val W lo hi = some (s, t)) :
    t.length ≤ W := by
  obtain ⟨-, hl, -⟩ := trunc_values k z val h s t ht
  obtain ⟨c1, c2, c3, c4, c5, -⟩ := compact_idx h
  have := h.hW
  omega

/-- **real_within_half**: a triangular / Fbank truncated response ends at or before the Nyquist
bin: `bin_idx + len ≤ W/2 + 1` — the hypothesis of C02's `walk_real_within_half` / `real_doubling` -/
theorem real_within_half (k : Compact) (z : α) (val : Int → α) {W : Nat} {lo hi : Frac}
    (h : CompactOK W lo hi) (s : Int) (t : List α) (ht : truncCompact k z val W lo hi = some (s, t)) :
    s.toNat + t.length ≤ Walk.halfLen W := by
  obtain ⟨hs, hl, -⟩ := trunc_values k z val h s t ht
  obtain ⟨c1, c2, c3, c4, c5, -⟩ := compact_idx h
  unfold Walk.halfLen
  omega

/-! ## what the recipes put where -/

/-- **rebuildComplex_get.** For a start bin in range and at most `W` taps the wrap recipe succeeds,
returns `W` bins, puts tap `j` on bin `(start + j) mod W` — pairwise distinct bins by C02's
`walk_bins_distinct` — and zero on every other bin. -/
theorem rebuildComplex_get (z : α) (W b : Nat) (taps : List α) (hb : b < W) (hlen : taps.length ≤ W) :
    ∃ full, rebuildComplex z W b taps = some full ∧ full.length = W ∧
      (∀ j, j < taps.length → full[(b + j) % W]? = taps[j]?) ∧
      (∀ k, k < W → (∀ j, j < taps.length → (b + j) % W ≠ k) → full[k]? = some z) := by
  obtain ⟨ys, hys, hyl, hk⟩ := rebuildComplex_spec z W b taps hb hlen
  refine ⟨ys, hys, hyl, ?_, ?_⟩
  · intro j hj
    have hW : 0 < W := by omega
    rw [hk _ (Nat.mod_lt _ hW), getElem?_getD taps j z hj]
    unfold wrapBin
    by_cases hc : b + j < W
    · rw [Nat.mod_eq_of_lt hc]
      simp only [show b ≤ b + j by omega, if_true, show b + j - b = j by omega, hj]
    · have e : (b + j) % W = b + j - W := by
        rw [Nat.mod_eq_sub_mod (by omega), Nat.mod_eq_of_lt (by omega)]
      rw [e]
      simp only [show ¬ b ≤ b + j - W by omega, if_false, show b + j - W + W - b = j by omega, hj, if_true]
  · intro k hkW hno
    rw [hk k hkW]
    unfold wrapBin
    by_cases hc : b ≤ k
    · simp only [hc, if_true]
      by_cases hj : k - b < taps.length
      · exact absurd (by rw [show b + (k - b) = k by omega, Nat.mod_eq_of_lt hkW]) (hno (k - b) hj)
      · simp only [hj, if_false]
    · simp only [hc, if_false]
      by_cases hj : k + W - b < taps.length
      · exact absurd (by
          rw [show b + (k + W - b) = k + W by omega, Nat.add_mod_right, Nat.mod_eq_of_lt hkW])
          (hno (k + W - b) hj)
      · simp only [hj, if_false]

/-- **rebuildReal_get.** For a truncated response inside the half spectrum the mirror recipe
succeeds, returns `W` bins, leaves tap `j` on bin `start + j` (its conjugate if that bin is the
Nyquist bin, which the mirrored assignment overwrites), the conjugate of tap `j` on bin
`W − (start + j)` (DC has no mirror: the `bin_idx = 0` special case), and zero elsewhere. -/
theorem rebuildReal_get (conj : α → α) (z : α) (W b : Nat) (taps : List α) (hW : 1 ≤ W)
    (hhalf : b + taps.length ≤ Walk.halfLen W) :
    ∃ full, rebuildReal conj z W b taps = some full ∧ full.length = W ∧
      (∀ j, j < taps.length →
        full[b + j]? = (if 2 * (b + j) = W then taps[j]?.map conj else taps[j]?)) ∧
      (∀ j, j < taps.length → 0 < b + j → full[W - (b + j)]? = taps[j]?.map conj) ∧
      (∀ k, k < W → (∀ j, j < taps.length → b + j ≠ k ∧ W - (b + j) ≠ k) → full[k]? = some z) := by
  unfold Walk.halfLen at hhalf
  obtain ⟨ys, hys, hyl, hk⟩ := rebuildReal_spec conj z W b taps hW hhalf
  refine ⟨ys, hys, hyl, ?_, ?_, ?_⟩
  · intro j hj
    rw [hk _ (by omega), getElem?_getD taps j z hj]
    unfold realBin
    by_cases hn : 2 * (b + j) = W
    · have : 0 < b + j ∧ b ≤ W - (b + j) ∧ W - (b + j) < b + taps.length := by omega
      simp only [this, and_self, if_true, hn, Option.map_some, show W - (b + j) - b = j by omega]
    · have : ¬ (0 < b + j ∧ b ≤ W - (b + j) ∧ W - (b + j) < b + taps.length) := by omega
      have hd : b ≤ b + j ∧ b + j < b + taps.length := by omega
      simp only [this, if_false, hd, and_self, if_true, hn, show b + j - b = j by omega]
  · intro j hj hpos
    rw [hk _ (by omega), getElem?_getD taps j z hj]
    unfold realBin
    have : 0 < W - (b + j) ∧ b ≤ W - (W - (b + j)) ∧ W - (W - (b + j)) < b + taps.length := by omega
    simp only [this, and_self, if_true, Option.map_some, show W - (W - (b + j)) - b = j by omega]
  · intro k hkW hno
    rw [hk k hkW]
    unfold realBin
    have h1 : ¬ (0 < k ∧ b ≤ W - k ∧ W - k < b + taps.length) := by
      rintro ⟨h0, h1, h2⟩
      have := (hno (W - k - b) (by omega)).2
      omega
    have h2 : ¬ (b ≤ k ∧ k < b + taps.length) := by
      rintro ⟨h1, h2⟩
      have := (hno (k - b) (by omega)).1
      omega
    simp only [h1, h2, if_false]

/-- **real_hermitian.** The response rebuilt by the real recipe is Hermitian-symmetric,
`full[(W − k) mod W] = conj full[k]` for every bin, provided the taps that land on DC or on the
Nyquist bin are their own conjugates (all taps of the library's real banks are real numbers). -/
theorem real_hermitian (conj : α → α) (z : α) (W b : Nat) (taps : List α) (hW : 1 ≤ W)
    (hhalf : b + taps.length ≤ Walk.halfLen W)
    (hinv : ∀ x, conj (conj x) = x) (hz : conj z = z)
    (hself : ∀ j, j < taps.length → (b + j = 0 ∨ 2 * (b + j) = W) →
      conj (taps.getD j z) = taps.getD j z) :
    ∃ full, rebuildReal conj z W b taps = some full ∧
      ∀ k, k < W → full[(W - k) % W]? = full[k]?.map conj := by
  unfold Walk.halfLen at hhalf
  obtain ⟨ys, hys, hyl, hk⟩ := rebuildReal_spec conj z W b taps hW hhalf
  refine ⟨ys, hys, ?_⟩
  intro k hkW
  have hW0 : 0 < W := by omega
  rw [hk _ (Nat.mod_lt _ hW0), hk k hkW, Option.map_some]
  congr 1
  by_cases hk0 : k = 0
  · subst hk0
    simp only [Nat.sub_zero, Nat.mod_self]
    unfold realBin
    simp only [Nat.lt_irrefl, false_and, if_false]
    by_cases hd : b ≤ 0 ∧ 0 < b + taps.length
    · simp only [hd, and_self, if_true]
      have hb : b = 0 := by omega
      subst hb
      exact (hself 0 (by omega) (Or.inl rfl)).symm
    · simp only [hd, if_false, hz]
  · have e : (W - k) % W = W - k := Nat.mod_eq_of_lt (by omega)
    rw [e]
    unfold realBin
    have e2 : W - (W - k) = k := by omega
    rw [e2]
    by_cases hm : b ≤ W - k ∧ W - k < b + taps.length
    · by_cases hd : b ≤ k ∧ k < b + taps.length
      · -- both on the support: the Nyquist bin
        have hny : W - k = k := by omega
        have h1 : 0 < W - k ∧ b ≤ k ∧ k < b + taps.length := by omega
        have h2 : 0 < k ∧ b ≤ W - k ∧ W - k < b + taps.length := by omega
        simp only [h1, h2, and_self, if_true, hny]
        have := hself (k - b) (by omega) (Or.inr (by omega))
        rw [this, this]
      · have h1 : ¬ (0 < W - k ∧ b ≤ k ∧ k < b + taps.length) := by omega
        have h2 : 0 < k ∧ b ≤ W - k ∧ W - k < b + taps.length := by omega
        simp only [h1, if_false, hm, and_self, if_true, h2, hinv]
    · by_cases hd : b ≤ k ∧ k < b + taps.length
      · have h1 : 0 < W - k ∧ b ≤ k ∧ k < b + taps.length := by omega
        have h2 : ¬ (0 < k ∧ b ≤ W - k ∧ W - k < b + taps.length) := by omega
        simp only [h1, and_self, if_true, h2, if_false]
      · have h1 : ¬ (0 < W - k ∧ b ≤ k ∧ k < b + taps.length) := by omega
        have h2 : ¬ (0 < k ∧ b ≤ W - k ∧ W - k < b + taps.length) := by omega
        rw [if_neg h1, if_neg h2, if_neg hm, if_neg hd, hz]

/-! ## compact banks: recipe (truncated) = full response, bin for bin -/

/-- the common statement behind `rebuild_eq_full_tri` / `rebuild_eq_full_fbank` -/
theorem rebuild_eq_full_compact (k : Compact) (z : α) (val : Int → α) (conj : α → α)
    (hreal : ∀ i, conj (val i) = val i) {W : Nat} {lo hi : Frac} (h : CompactOK W lo hi)
    (analytic : Bool) :
    ∃ s t full, truncCompact k z val W lo hi = some (s, t) ∧
      fullCompact z val W lo hi analytic false = some full ∧
      rebuildCompact z conj W analytic s t = some full := by
  obtain ⟨c1, c2, c3, c4, c5, c6, c7⟩ := compact_idx h
  have hW := h.hW
  refine ⟨_, _, _, truncCompact_closed k z val h, fullCompact_closed z val h analytic false, ?_⟩
  set L := leftIdx W lo with hL
  set R := rightIdx W hi with hR
  set n := (R + 1 - L).toNat with hn
  set t := (List.range n).map fun (j : Nat) => val (L + (j : Int)) with ht
  have htl : t.length = n := by simp [ht]
  have htj : ∀ j, j < n → t.getD j z = val (L + (j : Int)) := fun j hj => getD_map_range _ n j z hj
  unfold rebuildCompact
  simp only [show ¬ L < 0 by omega, if_false, dftSize, Bool.false_eq_true]
  cases analytic
  · -- real bank: mirror recipe
    obtain ⟨ys, hys, hyl, hk⟩ := rebuildReal_spec conj z W L.toNat t (by omega) (by rw [htl]; omega)
    simp only [Bool.false_eq_true, if_false, hys, Option.some.injEq]
    apply List.ext_getElem?
    intro k
    by_cases hkW : k < W
    swap
    · rw [List.getElem?_eq_none_iff.mpr (by omega), List.getElem?_eq_none_iff.mpr (by simp; omega)]
    · rw [hk k hkW, List.getElem?_map, List.getElem?_range hkW]
      simp only [Option.map_some, Option.some.injEq, Bool.not_false, Bool.and_self]
      unfold realBin fullBin
      rw [htl]
      simp only [true_and]
      by_cases hA : L ≤ (k : Int) ∧ (k : Int) ≤ R
      · by_cases hB : 0 < k ∧ L.toNat ≤ W - k ∧ W - k < L.toNat + n
        · -- the Nyquist bin, written twice
          simp only [hA, hB, and_self, if_true]
          rw [htj _ (by omega), hreal]; congr 1; omega
        · have hd : L.toNat ≤ k ∧ k < L.toNat + n := by omega
          simp only [hA, hB, hd, and_self, if_true, if_false]
          rw [htj _ (by omega)]; congr 1; omega
      · by_cases hB : 0 < k ∧ L.toNat ≤ W - k ∧ W - k < L.toNat + n
        · have hB' : 0 < k ∧ L ≤ (W : Int) - k ∧ (W : Int) - k ≤ R := by omega
          simp only [hA, hB, hB', and_self, if_true, if_false]
          rw [htj _ (by omega), hreal]; congr 1; omega
        · have hB' : ¬ (0 < k ∧ L ≤ (W : Int) - k ∧ (W : Int) - k ≤ R) := by omega
          have hd : ¬ (L.toNat ≤ k ∧ k < L.toNat + n) := by omega
          simp only [hA, hB, hB', hd, if_false]
  · -- analytic bank: wrap recipe
    obtain ⟨ys, hys, hyl, hk⟩ := rebuildComplex_spec z W L.toNat t (by omega) (by rw [htl]; omega)
    simp only [if_true, hys, Option.some.injEq]
    apply List.ext_getElem?
    intro k
    by_cases hkW : k < W
    swap
    · rw [List.getElem?_eq_none_iff.mpr (by omega), List.getElem?_eq_none_iff.mpr (by simp; omega)]
    · rw [hk k hkW, List.getElem?_map, List.getElem?_range hkW]
      simp only [Option.map_some, Option.some.injEq, Bool.not_false, Bool.not_true, Bool.and_false]
      unfold wrapBin fullBin
      rw [htl]
      simp only [Bool.false_eq_true, false_and, if_false]
      by_cases hA : L ≤ (k : Int) ∧ (k : Int) ≤ R
      · have h1 : L.toNat ≤ k := by omega
        have h2 : k - L.toNat < n := by omega
        simp only [hA, and_self, h1, h2, if_true]
        rw [htj _ h2]; congr 1; omega
      · simp only [hA, if_false]
        by_cases h1 : L.toNat ≤ k
        · have h2 : ¬ k - L.toNat < n := by omega
          simp only [h1, if_true, h2, if_false]
        · have h2 : ¬ k + W - L.toNat < n := by omega
          simp only [h1, if_false, h2]

/-- **rebuild_eq_full_tri.** For every width `W ≥ 2` and every filter `0 ≤ low ≤ high ≤ Nyquist` of
a triangular bank, the response rebuilt from `get_truncated_response` by the documented recipe
(mirror for a real bank, wrap for an analytic one) is `get_frequency_response`, bin for bin —
identical, not approximately equal. -/
theorem rebuild_eq_full_tri (z : α) (val : Int → α) (conj : α → α)
    (hreal : ∀ i, conj (val i) = val i) {W : Nat} {lo hi : Frac} (h : CompactOK W lo hi)
    (analytic : Bool) :
    ∃ s t full, truncCompact .tri z val W lo hi = some (s, t) ∧
      fullCompact z val W lo hi analytic false = some full ∧
      rebuildCompact z conj W analytic s t = some full :=
  rebuild_eq_full_compact .tri z val conj hreal h analytic

/-- **rebuild_eq_full_fbank.** The same for `Fbank` (whose truncated buffer is sized
`min(width, right_idx + 1) - left_idx`). -/
theorem rebuild_eq_full_fbank (z : α) (val : Int → α) (conj : α → α)
    (hreal : ∀ i, conj (val i) = val i) {W : Nat} {lo hi : Frac} (h : CompactOK W lo hi)
    (analytic : Bool) :
    ∃ s t full, truncCompact .fbank z val W lo hi = some (s, t) ∧
      fullCompact z val W lo hi analytic false = some full ∧
      rebuildCompact z conj W analytic s t = some full :=
  rebuild_eq_full_compact .fbank z val conj hreal h analytic

/-- **half_is_prefix** (triangular, Fbank): `get_frequency_response(…, half=True)` is the first
`halfLen W` bins of `get_frequency_response(…, half=False)` -/
theorem half_is_prefix (z : α) (val : Int → α) {W : Nat} {lo hi : Frac} (h : CompactOK W lo hi)
    (analytic : Bool) :
    fullCompact z val W lo hi analytic true =
      (fullCompact z val W lo hi analytic false).map fun full => full.take (halfLen W) := by
  obtain ⟨c1, c2, c3, c4, c5, c6, c7⟩ := compact_idx h
  have hW := h.hW
  rw [fullCompact_closed z val h, fullCompact_closed z val h]
  simp only [Option.map_some, Option.some.injEq, dftSize, if_true, Bool.false_eq_true, if_false,
    Bool.not_true, Bool.false_and, Bool.not_false, Bool.true_and]
  rw [← List.map_take, List.take_range, halfLen_eq, Nat.min_eq_left (by omega)]
  apply List.map_congr_left
  intro k hk
  have hk := List.mem_range.mp hk
  unfold fullBin
  by_cases hA : leftIdx W lo ≤ (k : Int) ∧ (k : Int) ≤ rightIdx W hi
  · simp only [hA, and_self, if_true]
  · have : ¬ ((!analytic) = true ∧ 0 < k ∧ leftIdx W lo ≤ (W : Int) - k ∧ (W : Int) - k ≤ rightIdx W hi) := by
      omega
    simp only [hA, this, if_false, Bool.false_eq_true, false_and]

/-- **half_is_prefix** (Gabor, gammatone): every bin is computed independently of `half` -/
theorem half_is_prefix_periodic (W : Nat) (hW : 1 ≤ W) (bin : Nat → α) :
    fullPeriodic W true bin = (fullPeriodic W false bin).take (halfLen W) := by
  unfold fullPeriodic dftSize
  simp only [if_true, Bool.false_eq_true, if_false]
  rw [← List.map_take, List.take_range, halfLen_eq]
  congr 2
  omega

/-- **analytic_neg_zero.** An analytic triangular / Fbank response is zero on every
negative-frequency bin `W/2 < k < W`. -/
theorem analytic_neg_zero (z : α) (val : Int → α) {W : Nat} {lo hi : Frac} (h : CompactOK W lo hi) :
    ∃ full, fullCompact z val W lo hi true false = some full ∧
      ∀ k, W / 2 < k → k < W → full[k]? = some z := by
  obtain ⟨c1, c2, c3, c4, c5, c6, c7⟩ := compact_idx h
  refine ⟨_, fullCompact_closed z val h true false, ?_⟩
  intro k h1 h2
  simp only [dftSize, Bool.false_eq_true, if_false]
  rw [List.getElem?_map, List.getElem?_range h2]
  simp only [Option.map_some, Option.some.injEq]
  unfold fullBin
  have hA : ¬ (leftIdx W lo ≤ (k : Int) ∧ (k : Int) ≤ rightIdx W hi) := by omega
  simp only [hA, if_false, Bool.not_false, Bool.not_true, Bool.and_false, Bool.false_eq_true, false_and]

/-- **full_hermitian.** The full response of a real triangular / Fbank bank is Hermitian:
`full[(W − k) mod W] = conj full[k]` (its values are real: `conj (val i) = val i`). -/
theorem full_hermitian (z : α) (val : Int → α) (conj : α → α) (hreal : ∀ i, conj (val i) = val i)
    (hz : conj z = z) {W : Nat} {lo hi : Frac} (h : CompactOK W lo hi) :
    ∃ full, fullCompact z val W lo hi false false = some full ∧
      ∀ k, k < W → full[(W - k) % W]? = full[k]?.map conj := by
  obtain ⟨c1, c2, c3, c4, c5, c6, c7⟩ := compact_idx h
  have hW := h.hW
  refine ⟨_, fullCompact_closed z val h false false, ?_⟩
  intro k hk
  have hW0 : 0 < W := by omega
  simp only [dftSize, Bool.false_eq_true, if_false]
  rw [List.getElem?_map, List.getElem?_range (Nat.mod_lt _ hW0), List.getElem?_map,
    List.getElem?_range hk]
  simp only [Option.map_some, Option.some.injEq, Bool.not_false, Bool.and_self]
  set L := leftIdx W lo
  set R := rightIdx W hi
  -- every bin of the closed form is a `val` or `z`: real
  have hfix : ∀ k, conj (fullBin z val W L R true k) = fullBin z val W L R true k := by
    intro k; unfold fullBin; split
    · exact hreal _
    · split
      · exact hreal _
      · exact hz
  rw [hfix]
  by_cases hk0 : k = 0
  · subst hk0; simp
  · rw [Nat.mod_eq_of_lt (by omega)]
    unfold fullBin
    have e : ((W - k : Nat) : Int) = (W : Int) - k := by omega
    rw [e]
    have e2 : (W : Int) - ((W : Int) - k) = k := by omega
    rw [e2]
    simp only [true_and]
    by_cases hA : L ≤ (k : Int) ∧ (k : Int) ≤ R
    · by_cases hB : L ≤ (W : Int) - k ∧ (W : Int) - k ≤ R
      · have : (W : Int) - k = k := by omega
        simp only [hA, and_self, if_true, this]
      · have h2 : 0 < W - k ∧ L ≤ (k : Int) ∧ (k : Int) ≤ R := by omega
        rw [if_neg hB, if_pos h2, if_pos hA]
    · by_cases hB : L ≤ (W : Int) - k ∧ (W : Int) - k ≤ R
      · have h2 : 0 < k ∧ L ≤ (W : Int) - k ∧ (W : Int) - k ≤ R := by omega
        rw [if_pos hB, if_neg hA, if_pos h2]
      · have h1 : ¬ (0 < W - k ∧ L ≤ (k : Int) ∧ (k : Int) ≤ R) := by omega
        have h2 : ¬ (0 < k ∧ L ≤ (W : Int) - k ∧ (W : Int) - k ≤ R) := by omega
        rw [if_neg hB, if_neg h1, if_neg hA, if_neg h2]

/-! ## periodic banks (Gabor, complex gammatone): indices -/

/-- a periodic filter's effective support `[lo, hi]` as fractions of the period `2π`:
`lo ≤ hi`, `0 ≤ hi` (centre frequencies are non-negative, so `int()` is a floor) -/
structure PeriodicOK (lo hi : Frac) : Prop where
  lden : 0 < lo.den
  hden : 0 < hi.den
  hi0 : 0 ≤ hi.num
  lohi : lo.num * hi.den ≤ hi.num * lo.den

/-- the support is narrower than one period -/
def Narrow (lo hi : Frac) : Prop := hi.num * lo.den - lo.num * hi.den < lo.den * hi.den

/-- **start_in_range** (Gabor, gammatone): `bin_idx = left_idx % width` (or `0` on fallback) lies in
`[0, width)`, whatever the support -/
theorem start_in_range_periodic (W : Nat) (hW : 0 < W) (lo hi : Frac) (fb : Bool) (s n : Nat)
    (h : truncPeriodicIdx W lo hi fb = some (s, n)) : s < W := by
  unfold truncPeriodicIdx at h
  cases fb
  · simp only [Bool.false_eq_true, if_false] at h
    split at h
    · cases h
    · cases h
      have h1 := Int.emod_nonneg (leftIdx W lo) (show (W : Int) ≠ 0 by omega)
      have h2 := Int.emod_lt_of_pos (leftIdx W lo) (show (0 : Int) < W by omega)
      omega
  · simp only [if_true] at h; cases h; exact hW

/-- **trunc_len_le** (Gabor, gammatone), fallback not taken: for a support narrower than one period
the truncated response is defined and has `0 ≤ len ≤ W` taps (so the wrap recipe applies and the
taps land on distinct bins) -/
theorem trunc_len_le_periodic (W : Nat) (hW : 0 < W) {lo hi : Frac} (ok : PeriodicOK lo hi)
    (hn : Narrow lo hi) :
    ∃ s n, truncPeriodicIdx W lo hi false = some (s, n) ∧ s < W ∧ n ≤ W ∧
      (n : Int) = 1 + rightIdx W hi - leftIdx W lo := by
  have hld := ok.lden; have hhd := ok.hden; have hh0 := ok.hi0; have hlh := ok.lohi
  unfold Narrow at hn
  have hWp : (0 : Int) < (W : Int) := by omega
  have hB : 0 ≤ (W : Int) * hi.num := mul_nonneg hWp.le hh0
  have key : 0 ≤ 1 + rightIdx W hi - leftIdx W lo ∧ 1 + rightIdx W hi - leftIdx W lo ≤ W := by
    unfold leftIdx rightIdx
    set L := ceilDiv ((W : Int) * lo.num) lo.den
    set R := truncDiv ((W : Int) * hi.num) hi.den
    have hL1 : (L - 1) * lo.den < (W : Int) * lo.num := (lt_ceilDiv_iff hld (L - 1)).mp (by omega)
    have hL2 : (W : Int) * lo.num ≤ L * lo.den := (ceilDiv_le_iff hld L).mp (le_refl _)
    have hR1 : R * hi.den ≤ (W : Int) * hi.num := (le_truncDiv_iff hB hhd R).mp (le_refl _)
    have hR2 : (W : Int) * hi.num < (R + 1) * hi.den := (truncDiv_lt_iff hB hhd (R + 1)).mp (by omega)
    constructor
    · -- L ≤ R + 1
      have h1 : (W : Int) * lo.num * hi.den ≤ (W : Int) * hi.num * lo.den := by nlinarith
      have h2 : (W : Int) * hi.num * lo.den < (R + 1) * hi.den * lo.den := mul_lt_mul_of_pos_right hR2 hld
      have h3 : L - 1 < R + 1 := by
        have : (L - 1) * lo.den * hi.den < (R + 1) * lo.den * hi.den := by nlinarith
        have := lt_of_mul_lt_mul_right this hhd.le
        exact lt_of_mul_lt_mul_right this hld.le
      omega
    · -- R - L < W
      have h1 : R * hi.den * lo.den ≤ (W : Int) * hi.num * lo.den := mul_le_mul_of_nonneg_right hR1 hld.le
      have h2 : (W : Int) * lo.num * hi.den ≤ L * lo.den * hi.den := mul_le_mul_of_nonneg_right hL2 hhd.le
      have h3 : (W : Int) * (hi.num * lo.den - lo.num * hi.den) < (W : Int) * (lo.den * hi.den) :=
        mul_lt_mul_of_pos_left hn hWp
      have h4 : (R - L) * (lo.den * hi.den) < (W : Int) * (lo.den * hi.den) := by nlinarith
      have := lt_of_mul_lt_mul_right h4 (mul_pos hld hhd).le
      omega
  refine ⟨(leftIdx W lo % (W : Int)).toNat, (1 + rightIdx W hi - leftIdx W lo).toNat, ?_, ?_, ?_, ?_⟩
  · unfold truncPeriodicIdx
    simp only [Bool.false_eq_true, if_false, show ¬ (1 + rightIdx W hi - leftIdx W lo < 0) by omega]
  · have h1 := Int.emod_nonneg (leftIdx W lo) (show (W : Int) ≠ 0 by omega)
    have h2 := Int.emod_lt_of_pos (leftIdx W lo) hWp
    omega
  · omega
  · omega

/-- Gabor: when the fallback is not taken (`wrap_supports_ang < 2π`) the effective support — which is
never wider than the wrap support — is narrower than one period -/
theorem gabor_no_fallback_narrow {lo hi wrap : Frac} (ok : PeriodicOK lo hi) (hwd : 0 < wrap.den)
    (hle : (hi.num * lo.den - lo.num * hi.den) * wrap.den ≤ wrap.num * (lo.den * hi.den))
    (hf : gaborFallback wrap = false) : Narrow lo hi := by
  unfold gaborFallback at hf
  simp only [decide_eq_false_iff_not, not_le] at hf
  unfold Narrow
  have hp := mul_pos ok.lden ok.hden
  have : (hi.num * lo.den - lo.num * hi.den) * wrap.den < (lo.den * hi.den) * wrap.den := by nlinarith
  exact lt_of_mul_lt_mul_right this hwd.le

/-- gammatone: when the fallback is not taken (`right_sup - left_sup + wrap_ang < 2π`, with a
non-negative `wrap_ang`) the effective support is narrower than one period -/
theorem gammatone_no_fallback_narrow {lo hi wrap : Frac} (ok : PeriodicOK lo hi) (hwd : 0 < wrap.den)
    (hw0 : 0 ≤ wrap.num) (hf : gammatoneFallback lo hi wrap = false) : Narrow lo hi := by
  unfold gammatoneFallback at hf
  simp only [decide_eq_false_iff_not, not_le] at hf
  unfold Narrow
  have hp := mul_pos ok.lden ok.hden
  have h0 : 0 ≤ wrap.num * lo.den * hi.den := mul_nonneg (mul_nonneg hw0 ok.lden.le) ok.hden.le
  have : (hi.num * lo.den - lo.num * hi.den) * wrap.den < (lo.den * hi.den) * wrap.den := by nlinarith
  exact lt_of_mul_lt_mul_right this hwd.le

/-- **fallback_whole_period.** When the whole-period fallback is taken, `get_truncated_response`
returns `(0, get_frequency_response(filt_idx, width))`: start bin `0`, exactly `W` taps, and the wrap
recipe gives the full response back unchanged. -/
theorem fallback_whole_period (z : α) (W : Nat) (hW : 0 < W) (lo hi : Frac) (tap : Int → α)
    (full : List α) (hfull : full.length = W) :
    truncPeriodicIdx W lo hi true = some (0, W) ∧
      truncPeriodic W lo hi true tap full = some (0, full) ∧
      rebuildComplex z W 0 full = some full := by
  refine ⟨rfl, rfl, ?_⟩
  obtain ⟨ys, hys, hyl, hk⟩ := rebuildComplex_spec z W 0 full hW (by omega)
  rw [hys]; congr 1
  apply List.ext_getElem?
  intro k
  by_cases hkW : k < W
  · rw [hk k hkW]
    unfold wrapBin
    simp only [Nat.zero_le, if_true, Nat.sub_zero, hfull, hkW]
    exact (getElem?_getD full k z (by omega)).symm
  · rw [List.getElem?_eq_none_iff.mpr (by omega), List.getElem?_eq_none_iff.mpr (by omega)]

/-- **periodic_rebuild_get.** Fallback not taken, support narrower than a period: the wrap recipe
applied to the truncated response puts the tap computed for lattice point `left_idx + j` on bin
`(left_idx + j) mod W`, and zero on the bins no lattice point of `[left_idx, right_idx]` reduces to. -/
theorem periodic_rebuild_get (z : α) (W : Nat) (hW : 0 < W) {lo hi : Frac} (ok : PeriodicOK lo hi)
    (hn : Narrow lo hi) (tap : Int → α) (full : List α) :
    ∃ s taps ys, truncPeriodic W lo hi false tap full = some (s, taps) ∧
      rebuildComplex z W s taps = some ys ∧ ys.length = W ∧
      (∀ j : Nat, j < taps.length →
        ys[((leftIdx W lo + (j : Int)) % (W : Int)).toNat]? = some (tap (leftIdx W lo + (j : Int)))) ∧
      (∀ k, k < W → (∀ j : Nat, j < taps.length → ((leftIdx W lo + (j : Int)) % (W : Int)).toNat ≠ k) →
        ys[k]? = some z) := by
  obtain ⟨s, n, hidx, hs, hnW, hnn⟩ := trunc_len_le_periodic W hW ok hn
  have hWp : (0 : Int) < (W : Int) := by omega
  unfold truncPeriodicIdx at hidx
  simp only [Bool.false_eq_true, if_false, show ¬ (1 + rightIdx W hi - leftIdx W lo < 0) by omega,
    Option.some.injEq, Prod.mk.injEq] at hidx
  obtain ⟨hs', hn'⟩ := hidx
  set L := leftIdx W lo
  set taps := (intRange L (rightIdx W hi + 1)).map tap with htaps
  have htl : taps.length = n := by simp [htaps, intRange_length]; omega
  obtain ⟨ys, hys, hyl, hget, hzero⟩ := rebuildComplex_get z W s taps hs (by omega)
  have hbin : ∀ j : Nat, (s + j) % W = ((L + (j : Int)) % (W : Int)).toNat := by
    intro j
    have h1 : ((s + j : Nat) : Int) % (W : Int) = (L + (j : Int)) % (W : Int) := by
      have : ((s + j : Nat) : Int) = L % (W : Int) + (j : Int) := by
        have := Int.emod_nonneg L (show (W : Int) ≠ 0 by omega); omega
      rw [this, Int.emod_add_emod]
    have h2 := Int.emod_nonneg (L + (j : Int)) (show (W : Int) ≠ 0 by omega)
    have h3 : (((s + j) % W : Nat) : Int) = ((s + j : Nat) : Int) % (W : Int) := by simp
    omega
  refine ⟨s, taps, ys, ?_, hys, hyl, ?_, ?_⟩
  · unfold truncPeriodic
    have hneg : ¬ (1 + rightIdx W hi - leftIdx W lo < 0) := by omega
    simp only [Bool.false_eq_true, if_false, hneg, htaps]
    rw [← hs']
  · intro j hj
    rw [← hbin j, hget j hj, htaps, List.getElem?_map, intRange_getElem? _ _ _ (by omega)]
    rfl
  · intro k hk hno
    exact hzero k hk (fun j hj => by rw [hbin j]; exact hno j hj)

/-- the periods the code sums over, for a support inside `(-2π, 2π)` whose upper edge is positive:
Gabor truncated: only the principal image; Gabor full: images `-1, 0, 1`;
gammatone full: images `-1, 0, 1` when the support reaches below 0, else `0, 1`
(the gammatone truncated response is the principal image by construction). -/
theorem periodic_periods {lo hi : Frac} (ok : PeriodicOK lo hi) (hlo : -lo.den < lo.num)
    (hhi0 : 0 < hi.num) (hhi1 : hi.num < hi.den) :
    gaborPeriodsTrunc lo hi = [0] ∧ gaborPeriodsFull lo hi = [-1, 0, 1] ∧
      gammatonePeriodsFull lo hi = (if lo.num < 0 then [-1, 0, 1] else [0, 1]) := by
  have hld := ok.lden; have hhd := ok.hden
  have e1 : truncDiv (max (-lo.num) 0) lo.den = 0 := by
    rw [truncDiv_nonneg_eq (by omega)]; exact Int.ediv_eq_zero_of_lt (by omega) (by omega)
  have e2 : truncDiv hi.num hi.den = 0 := by
    rw [truncDiv_nonneg_eq (by omega)]; exact Int.ediv_eq_zero_of_lt (by omega) hhi1
  have e3 : ceilDiv hi.num hi.den = 1 := by
    have h1 := (ceilDiv_le_iff hhd (a := hi.num) 1).mpr (by omega)
    have h2 := (lt_ceilDiv_iff hhd (a := hi.num) 0).mpr (by omega)
    omega
  refine ⟨?_, ?_, ?_⟩
  · unfold gaborPeriodsTrunc; rw [e1, e2]; decide
  · unfold gaborPeriodsFull; rw [e1, e2]; decide
  · unfold gammatonePeriodsFull floorDiv; rw [e3]
    split
    · rename_i hneg
      have : lo.num / lo.den = -1 := by
        have h1 : -1 ≤ lo.num / lo.den := (Int.le_ediv_iff_mul_le hld).mpr (by omega)
        have h2 : lo.num / lo.den < 0 := (Int.ediv_lt_iff_lt_mul hld).mpr (by omega)
        omega
      rw [this]; decide
    · rename_i hpos
      -- lo ≤ hi < 1
      have hl1 : lo.num < lo.den := by
        have := ok.lohi
        by_contra hc
        have h1 : lo.den * hi.den ≤ lo.num * hi.den := mul_le_mul_of_nonneg_right (by omega) hhd.le
        have h2 : hi.num * lo.den < hi.den * lo.den := mul_lt_mul_of_pos_right hhi1 hld
        nlinarith
      have : lo.num / lo.den = 0 := Int.ediv_eq_zero_of_lt (by omega) hl1
      rw [this]; decide

/-! ## non-vacuity: concrete instances of every implication above -/

/-- rate 8 kHz, filter 1–3 kHz, `W = 16`: bins 2…6 -/
example : CompactOK 16 ⟨1, 8⟩ ⟨3, 8⟩ :=
  CompactOK.of_exact (by decide) (by decide) (by decide) (by decide) (by decide) (by decide)
example : truncCompact .tri (-1 : Int) id 16 ⟨1, 8⟩ ⟨3, 8⟩ = some (2, [2, 3, 4, 5, 6]) := by decide +kernel
example : fullCompact (-1 : Int) id 16 ⟨1, 8⟩ ⟨3, 8⟩ false false
    = some [-1, -1, 2, 3, 4, 5, 6, -1, -1, -1, 6, 5, 4, 3, 2, -1] := by decide +kernel
example : rebuildCompact (-1 : Int) id 16 false 2 [2, 3, 4, 5, 6]
    = fullCompact (-1 : Int) id 16 ⟨1, 8⟩ ⟨3, 8⟩ false false := by decide +kernel
/-- a filter reaching DC and Nyquist, odd width: the `bin_idx = 0` special case -/
example : CompactOK 7 ⟨0, 1⟩ ⟨1, 2⟩ :=
  CompactOK.of_exact (by decide) (by decide) (by decide) (by decide) (by decide) (by decide)
example : truncCompact .fbank (-1 : Int) id 7 ⟨0, 1⟩ ⟨1, 2⟩ = some (0, [0, 1, 2, 3]) ∧
    rebuildCompact (-1 : Int) id 7 false 0 [0, 1, 2, 3] = some [0, 1, 2, 3, 3, 2, 1] ∧
    fullCompact (-1 : Int) id 7 ⟨0, 1⟩ ⟨1, 2⟩ false false = some [0, 1, 2, 3, 3, 2, 1] ∧
    fullCompact (-1 : Int) id 7 ⟨0, 1⟩ ⟨1, 2⟩ false true = some [0, 1, 2, 3] := by decide +kernel
/-- float round-off: a top vertex one part in 10¹⁶ above the Nyquist and a bottom vertex just below 0
still satisfy the hypotheses (for widths up to 10¹⁵) -/
example : CompactOK 4096 ⟨-1, 10000000000000000⟩ ⟨5000000000000001, 10000000000000000⟩ :=
  ⟨by decide, by decide, by decide, by decide, by decide, by decide, by decide, by decide⟩
/-- a filter between two bins: an empty truncated response -/
example : CompactOK 2 ⟨3, 10⟩ ⟨4, 10⟩ ∧ truncCompact .tri (-1 : Int) id 2 ⟨3, 10⟩ ⟨4, 10⟩ = some (1, []) :=
  ⟨CompactOK.of_exact (by decide) (by decide) (by decide) (by decide) (by decide) (by decide), by decide +kernel⟩
/-- wrap recipe, 5 taps from bin 6 of 8 -/
example : rebuildComplex (0 : Int) 8 6 [1, 2, 3, 4, 5] = some [3, 4, 5, 0, 0, 0, 1, 2] := by decide +kernel
/-- mirror recipe, Gaussian-integer-like taps with `conj = negation of the second component` -/
example : rebuildReal (fun p : Int × Int => (p.1, -p.2)) (0, 0) 8 2 [(1, 1), (2, 5), (3, 0)]
    = some [(0, 0), (0, 0), (1, 1), (2, 5), (3, 0), (2, -5), (1, -1), (0, 0)] := by decide +kernel
/-- a Gabor-like support `[-0.1, 0.3]·2π`, `W = 16`: lattice points `-1 … 4`, start `-1 mod 16 = 15`, 6 taps, wrap -/
example : PeriodicOK ⟨-1, 10⟩ ⟨3, 10⟩ ∧ Narrow ⟨-1, 10⟩ ⟨3, 10⟩ ∧
    gaborFallback ⟨9, 10⟩ = false ∧ gaborFallback ⟨11, 10⟩ = true ∧
    truncPeriodicIdx 16 ⟨-1, 10⟩ ⟨3, 10⟩ false = some (15, 6) ∧
    gammatoneFallback ⟨-1, 10⟩ ⟨3, 10⟩ ⟨5, 10⟩ = false ∧
    gammatoneFallback ⟨-1, 10⟩ ⟨3, 10⟩ ⟨6, 10⟩ = true := by
  refine ⟨⟨by decide, by decide, by decide, by decide⟩, by unfold Narrow; decide, ?_, ?_, ?_, ?_, ?_⟩ <;> decide +kernel

/-! ## analytic part: the effective supports of the Gabor and gammatone banks (over `ℝ`)

`gaborDiffAng`, `gaborWrapDiffAng`, `gammatoneDiffAng`, `gammatoneWrapDiffAng` are the constructors'
closed forms (`Model/BankIndex.lean`, run at `Float` by the driver against `supports_hz`);
`supports_ang = (centre − diff_ang, centre + diff_ang)`. -/

/-- **gabor_outside_le_eps.** An angular frequency outside `supports_ang` (at least `diff_ang` from
the centre) has a principal image of magnitude at most `EFFECTIVE_SUPPORT_THRESHOLD`, with or
without `scale_l2_norm`.  (The image is a positive real: the filter is zero-phase.) -/
theorem gabor_outside_le_eps (l2 : Bool) (eps std c ω : ℝ) (heps : 0 < eps) (hstd : 0 < std)
    (hout : gaborDiffAng l2 eps std ≤ |c - ω|) :
    0 < gaborImage l2 std c ω ∧ gaborImage l2 std c ω ≤ eps := by
  have h := gabor_exponent_le l2 eps std c ω 0 hstd (by
    cases l2 <;> simpa [gaborDiffAng] using hout)
  unfold gaborImage
  simp only [transc_exp]
  norm_num at h ⊢
  refine ⟨Real.exp_pos _, ?_⟩
  calc Real.exp _ ≤ Real.exp (Real.log eps) := Real.exp_le_exp.mpr h
    _ = eps := Real.exp_log heps

/-- **gabor_wrap_le.** At least `wrap_diff_ang` from the centre an image is at most `ε/√2`
(the constructor adds one `log 2` under the root, which halves the *squared* magnitude). -/
theorem gabor_wrap_le (l2 : Bool) (eps std c ω : ℝ) (heps : 0 < eps) (hstd : 0 < std)
    (hout : gaborWrapDiffAng l2 eps std ≤ |c - ω|) :
    gaborImage l2 std c ω ≤ eps / Real.sqrt 2 := by
  have h := gabor_exponent_le l2 eps std c ω (Real.log 2) hstd (by
    cases l2
    · simp only [gaborWrapDiffAng, Bool.false_eq_true, if_false, transc_sqrt, transc_log] at hout
      norm_num at hout
      simpa using hout
    · simp only [gaborWrapDiffAng, if_true, transc_sqrt, transc_log] at hout
      norm_num at hout
      simpa using hout)
  unfold gaborImage
  simp only [transc_exp]
  norm_num at h ⊢
  calc Real.exp _ ≤ Real.exp (Real.log eps - Real.log 2 / 2) := Real.exp_le_exp.mpr h
    _ = eps / Real.sqrt 2 := by
      rw [Real.exp_sub, Real.exp_log heps, Real.exp_half, Real.exp_log (by norm_num)]

/-- the effective support is inside the wrap support: `diff_ang ≤ wrap_diff_ang` -/
theorem gabor_diff_le_wrap (l2 : Bool) (eps std : ℝ) (hstd : 0 < std) :
    gaborDiffAng l2 eps std ≤ gaborWrapDiffAng l2 eps std := by
  have h2 : 0 ≤ Real.log 2 := Real.log_nonneg (by norm_num)
  cases l2
  · simp only [gaborDiffAng, gaborWrapDiffAng, Bool.false_eq_true, if_false, transc_sqrt, transc_log]
    norm_num
    exact div_le_div_of_nonneg_right (Real.sqrt_le_sqrt (by linarith)) hstd.le
  · simp only [gaborDiffAng, gaborWrapDiffAng, if_true, transc_sqrt, transc_log]
    norm_num
    exact div_le_div_of_nonneg_right (Real.sqrt_le_sqrt (by linarith)) hstd.le

/-- **gammatone_outside_le_eps.** An angular frequency at least `diff_ang` from the carrier `ξ` has a
principal image `H(ω)` of magnitude at most `EFFECTIVE_SUPPORT_THRESHOLD`, for every order,
`max_centered` offset and normalisation constant `c`. -/
theorem gammatone_outside_le_eps (n : ℕ) (hn : 0 < n) (c la ξ offset ω eps : ℝ) (hc : 0 < c)
    (heps : 0 < eps)
    (hout : gammatoneDiffAng (n : ℝ) (Real.log c + Real.log (n - 1).factorial) la eps ≤ |ω - ξ|) :
    ‖gammatoneH n c (Real.exp la) ξ offset ω‖ ≤ eps := by
  have hfac : (0 : ℝ) < (n - 1).factorial := by exact_mod_cast Nat.factorial_pos _
  apply gammatone_level n hn c la ξ offset ω
    (Real.log c + Real.log (n - 1).factorial - Real.log eps) eps hc heps
  · rw [Real.exp_sub, Real.exp_add, Real.exp_log hc, Real.exp_log hfac, Real.exp_log heps]
  · simp only [gammatoneDiffAng, gammatoneSuppA, transc_sqrt, transc_exp, transc_log] at hout
    norm_num at hout ⊢
    exact hout

/-- **gammatone_wrap_le.** At least `wrap_diff_ang` from the carrier the magnitude is at most `ε/2`. -/
theorem gammatone_wrap_le (n : ℕ) (hn : 0 < n) (c la ξ offset ω eps : ℝ) (hc : 0 < c)
    (heps : 0 < eps)
    (hout : gammatoneWrapDiffAng (n : ℝ) (Real.log c + Real.log (n - 1).factorial) la eps ≤ |ω - ξ|) :
    ‖gammatoneH n c (Real.exp la) ξ offset ω‖ ≤ eps / 2 := by
  have hfac : (0 : ℝ) < (n - 1).factorial := by exact_mod_cast Nat.factorial_pos _
  apply gammatone_level n hn c la ξ offset ω
    (Real.log c + Real.log (n - 1).factorial - Real.log eps + Real.log 2) (eps / 2) hc (by linarith)
  · rw [Real.exp_add, Real.exp_sub, Real.exp_add, Real.exp_log hc, Real.exp_log hfac,
      Real.exp_log heps, Real.exp_log (by norm_num)]
    field_simp
  · simp only [gammatoneWrapDiffAng, gammatoneSuppA, transc_sqrt, transc_exp, transc_log] at hout
    norm_num at hout ⊢
    rw [show 2 / (n : ℝ) * (Real.log c + Real.log (n - 1).factorial - Real.log eps + Real.log 2)
      = 2 / (n : ℝ) * (Real.log c + Real.log (n - 1).factorial - Real.log eps)
        + 2 / (n : ℝ) * Real.log 2 by ring]
    exact hout

/-- the effective support is inside the wrap support: `diff_ang ≤ wrap_diff_ang` -/
theorem gammatone_diff_le_wrap (n : ℕ) (hn : 0 < n) (lp la eps : ℝ) :
    gammatoneDiffAng (n : ℝ) lp la eps ≤ gammatoneWrapDiffAng (n : ℝ) lp la eps := by
  have hn' : (0 : ℝ) < n := by exact_mod_cast hn
  have h2 : 0 ≤ 2 / (n : ℝ) * Real.log 2 :=
    mul_nonneg (div_nonneg (by norm_num) hn'.le) (Real.log_nonneg (by norm_num))
  simp only [gammatoneDiffAng, gammatoneWrapDiffAng, gammatoneSuppA, transc_sqrt, transc_exp, transc_log]
  norm_num
  apply Real.sqrt_le_sqrt
  have := Real.exp_le_exp.mpr (le_add_of_nonneg_right h2 (a := 2 / (n : ℝ) * (lp - Real.log eps)))
  linarith

/-! ## the `2·EFFECTIVE_SUPPORT_THRESHOLD` bound between the rebuilt and the full response

`get_frequency_response` sums the images of the periods `periodic_periods` names (a sub-list of
`-1, 0, 1`); the rebuilt response holds, on the bin of lattice point `k ∈ [left_idx, right_idx]`, the
principal image at `2πk/W` (`periodic_rebuild_get`, `lattice_in_support_iff`, `tap_period_mem`) and
zero on the other bins.  Below: for *any* frequency `x` the sum of the images differs from the image
inside the support — or from zero when no image is inside — by at most `2ε`. -/

/-! ### Gabor -/

/-- **gabor_far_le.** A filter whose peak is at least the threshold, at a distance of at least twice
the wrap radius: the image is at most `ε/4`. -/
theorem gabor_far_le (l2 : Bool) (eps std c ω T : ℝ) (heps : 0 < eps) (hstd : 0 < std)
    (hpeak : Real.log eps ≤ gaborConstTerm l2 std)
    (hT : 2 * gaborWrapDiffAng l2 eps std ≤ T) (hout : T ≤ |c - ω|) :
    gaborImage l2 std c ω ≤ eps / 4 := by
  rw [gaborWrapDiffAng_eq l2 eps std hstd] at hT
  set K := 2 * (gaborConstTerm l2 std - Real.log eps) + Real.log 2 with hK
  have hlog2 : 0 < Real.log 2 := Real.log_pos (by norm_num)
  have hK0 : 0 ≤ K := by rw [hK]; linarith
  have hd : |c - ω| * |c - ω| = (c - ω) * (c - ω) := abs_mul_abs_self _
  -- 2√K ≤ d·std
  have h1 : 2 * Real.sqrt K ≤ |c - ω| * std := by
    have : 2 * (Real.sqrt K / std) * std ≤ |c - ω| * std :=
      mul_le_mul_of_nonneg_right (le_trans hT hout) hstd.le
    have e : 2 * (Real.sqrt K / std) * std = 2 * Real.sqrt K := by field_simp
    linarith
  have h2 : 4 * K ≤ std * std * ((c - ω) * (c - ω)) := by
    have := pow_le_pow_left₀ (by positivity) h1 2
    rw [mul_pow, Real.sq_sqrt hK0] at this
    rw [← hd]; nlinarith
  unfold gaborImage
  simp only [transc_exp]
  norm_num
  calc Real.exp (-(std * std) / 2 * ((c - ω) * (c - ω)) + gaborConstTerm l2 std)
      ≤ Real.exp (Real.log eps - 2 * Real.log 2) := by
        apply Real.exp_le_exp.mpr
        rw [hK] at h2
        linarith
    _ = eps / 4 := by
        rw [Real.exp_sub, Real.exp_log heps, show (2 : ℝ) * Real.log 2 = Real.log 2 + Real.log 2 by ring,
          Real.exp_add, Real.exp_log (by norm_num)]
        norm_num

/-- **gabor_within_2eps.**  Fallback not taken (`wrap_supports_ang = 2·wrap_diff_ang < 2π`), peak at
least the threshold.  For any angular frequency `x` (a bin `2π b / W`) and any duplicate-free list
`ps ⊆ {-1, 0, 1}` of periods summed by `get_frequency_response`:
* if the image of period `p0` lies in `supports_ang` (the bin carries the tap for that lattice point)
  the sum of all images differs from that image by at most `2ε`;
* if no image lies in `supports_ang` (the rebuilt response is zero there) the sum is at most `2ε`. -/
theorem gabor_within_2eps (l2 : Bool) (eps std c x : ℝ) (heps : 0 < eps) (hstd : 0 < std)
    (hpeak : Real.log eps ≤ gaborConstTerm l2 std)
    (hnf : 2 * gaborWrapDiffAng l2 eps std < 2 * Real.pi)
    (ps : List ℤ) (hnd : ps.Nodup) (hsub : ∀ p ∈ ps, p = -1 ∨ p = 0 ∨ p = 1) :
    (∀ p0 ∈ ps, |c - (x + 2 * Real.pi * p0)| ≤ gaborDiffAng l2 eps std →
      |(ps.map fun p : ℤ => gaborImage l2 std c (x + 2 * Real.pi * p)).sum
        - gaborImage l2 std c (x + 2 * Real.pi * p0)| ≤ 2 * eps) ∧
    ((∀ p : ℤ, p = -1 ∨ p = 0 ∨ p = 1 → gaborDiffAng l2 eps std ≤ |c - (x + 2 * Real.pi * p)|) →
      |(ps.map fun p : ℤ => gaborImage l2 std c (x + 2 * Real.pi * p)).sum| ≤ 2 * eps) := by
  have hpi : 0 < Real.pi := Real.pi_pos
  have hDle := gabor_diff_le_wrap l2 eps std hstd
  have hs2 : 0 < Real.sqrt 2 := by positivity
  have hi2 := inv_sqrt_two_le
  have he2 : eps / Real.sqrt 2 ≤ eps * (3 / 4) := by
    rw [div_eq_mul_one_div]; exact mul_le_mul_of_nonneg_left hi2 heps.le
  set g : ℤ → ℝ := fun p => gaborImage l2 std c (x + 2 * Real.pi * p) with hg
  have hgpos : ∀ p, 0 ≤ g p := fun p => (gaborImage_pos l2 std c _).le
  constructor
  · intro p0 hp0 hin
    have := periods_sum_sub_le g ps hnd hsub p0 hp0 (eps / Real.sqrt 2) (by positivity) (by
      intro p hp hne
      rw [Real.norm_eq_abs, abs_of_nonneg (hgpos p)]
      apply gabor_wrap_le l2 eps std c _ heps hstd
      have hfar := other_image_far (c - (x + 2 * Real.pi * p0)) (p - p0) (sub_ne_zero.mpr hne)
      have e : c - (x + 2 * Real.pi * p0) - 2 * Real.pi * ((p - p0 : ℤ) : ℝ) = c - (x + 2 * Real.pi * p) := by
        push_cast; ring
      rw [e] at hfar
      linarith)
    rw [Real.norm_eq_abs] at this
    linarith
  · intro hout
    have h3 := periods_sum_le g ps hnd hsub
    rw [Real.norm_eq_abs, Real.norm_eq_abs, Real.norm_eq_abs, Real.norm_eq_abs,
      abs_of_nonneg (hgpos _), abs_of_nonneg (hgpos _), abs_of_nonneg (hgpos _)] at h3
    -- the three images as offsets from the centre
    set m : ℝ → ℝ := fun d => gaborImage l2 std c (c + d) with hm
    have hmg : ∀ p : ℤ, g p = m ((x - c) + 2 * Real.pi * p) := by
      intro p; simp only [hg, hm]; congr 1; ring
    have habs : ∀ d, |c - (c + d)| = |d| := by intro d; rw [show c - (c + d) = -d by ring, abs_neg]
    have hbound := three_images_le (2 * Real.pi) (x - c) (gaborDiffAng l2 eps std) eps
      (eps / Real.sqrt 2) (eps / 4) m (by positivity)
      (fun d hd => (gabor_outside_le_eps l2 eps std c (c + d) heps hstd (by rw [habs]; exact hd)).2)
      (fun d hd => gabor_wrap_le l2 eps std c (c + d) heps hstd (by rw [habs]; linarith))
      (fun d hd => gabor_far_le l2 eps std c (c + d) (2 * Real.pi) heps hstd hpeak hnf.le (by rw [habs]; exact hd))
      (by have := hout (-1) (Or.inl rfl); rw [show c - (x + 2 * Real.pi * ((-1 : ℤ) : ℝ)) = -((x - c) - 2 * Real.pi) by push_cast; ring, abs_neg] at this; exact this)
      (by have := hout 0 (Or.inr (Or.inl rfl)); rw [show c - (x + 2 * Real.pi * ((0 : ℤ) : ℝ)) = -(x - c) by push_cast; ring, abs_neg] at this; exact this)
      (by have := hout 1 (Or.inr (Or.inr rfl)); rw [show c - (x + 2 * Real.pi * ((1 : ℤ) : ℝ)) = -((x - c) + 2 * Real.pi) by push_cast; ring, abs_neg] at this; exact this)
    have e1 : g (-1) = m ((x - c) - 2 * Real.pi) := by rw [hmg]; congr 1; push_cast; ring
    have e2 : g 0 = m (x - c) := by rw [hmg]; congr 1; push_cast; ring
    have e3 : g 1 = m ((x - c) + 2 * Real.pi) := by rw [hmg]; congr 1; push_cast; ring
    rw [e1, e2, e3] at h3
    linarith

/-! ### complex gammatone -/

/-- **gammatone_within_2eps.**  Fallback not taken (`right_sup − left_sup + wrap_ang < 2π`, i.e.
`2·diff_ang + 2·wrap_diff_ang < 2π`).  For any angular frequency `x` and any duplicate-free list
`ps ⊆ {-1, 0, 1}` of periods summed by `get_frequency_response`:
* if the image of period `p0` lies in `supports_ang`, the sum of all images differs from `H` at that
  image by at most `2ε` (in fact `ε`);
* if no image lies in `supports_ang`, the sum is at most `2ε` in magnitude. -/
theorem gammatone_within_2eps (n : ℕ) (hn : 0 < n) (c la ξ offset x eps : ℝ) (hc : 0 < c) (heps : 0 < eps)
    (hnf : 2 * gammatoneDiffAng (n : ℝ) (Real.log c + Real.log (n - 1).factorial) la eps
      + 2 * gammatoneWrapDiffAng (n : ℝ) (Real.log c + Real.log (n - 1).factorial) la eps < 2 * Real.pi)
    (ps : List ℤ) (hnd : ps.Nodup) (hsub : ∀ p ∈ ps, p = -1 ∨ p = 0 ∨ p = 1) :
    (∀ p0 ∈ ps,
      |(x + 2 * Real.pi * p0) - ξ| ≤ gammatoneDiffAng (n : ℝ) (Real.log c + Real.log (n - 1).factorial) la eps →
      ‖(ps.map fun p : ℤ => gammatoneH n c (Real.exp la) ξ offset (x + 2 * Real.pi * p)).sum
        - gammatoneH n c (Real.exp la) ξ offset (x + 2 * Real.pi * p0)‖ ≤ 2 * eps) ∧
    ((∀ p : ℤ, p = -1 ∨ p = 0 ∨ p = 1 →
      gammatoneDiffAng (n : ℝ) (Real.log c + Real.log (n - 1).factorial) la eps ≤ |(x + 2 * Real.pi * p) - ξ|) →
      ‖(ps.map fun p : ℤ => gammatoneH n c (Real.exp la) ξ offset (x + 2 * Real.pi * p)).sum‖ ≤ 2 * eps) := by
  have hpi : 0 < Real.pi := Real.pi_pos
  set D := gammatoneDiffAng (n : ℝ) (Real.log c + Real.log (n - 1).factorial) la eps with hD
  set Dw := gammatoneWrapDiffAng (n : ℝ) (Real.log c + Real.log (n - 1).factorial) la eps with hDw
  have hD0 : 0 ≤ D := by rw [hD]; unfold gammatoneDiffAng; simp only [transc_sqrt]; exact Real.sqrt_nonneg _
  have hDw0 : 0 ≤ Dw := by rw [hDw]; unfold gammatoneWrapDiffAng; simp only [transc_sqrt]; exact Real.sqrt_nonneg _
  set g : ℤ → ℂ := fun p => gammatoneH n c (Real.exp la) ξ offset (x + 2 * Real.pi * p) with hg
  constructor
  · intro p0 hp0 hin
    have := periods_sum_sub_le g ps hnd hsub p0 hp0 (eps / 2) (by positivity) (by
      intro p hp hne
      apply gammatone_wrap_le n hn c la ξ offset _ eps hc heps
      have hfar := other_image_far (ξ - (x + 2 * Real.pi * p0)) (p - p0) (sub_ne_zero.mpr hne)
      have e : ξ - (x + 2 * Real.pi * p0) - 2 * Real.pi * ((p - p0 : ℤ) : ℝ) = ξ - (x + 2 * Real.pi * p) := by
        push_cast; ring
      rw [e, abs_sub_comm ξ, abs_sub_comm ξ] at hfar
      rw [← hDw]
      linarith)
    linarith
  · intro hout
    have h3 := periods_sum_le g ps hnd hsub
    set m : ℝ → ℝ := fun d => ‖gammatoneH n c (Real.exp la) ξ offset (ξ + d)‖ with hm
    have hmg : ∀ p : ℤ, ‖g p‖ = m ((x - ξ) + 2 * Real.pi * p) := by
      intro p; simp only [hg, hm]; congr 2; ring
    have habs : ∀ d, |ξ + d - ξ| = |d| := by intro d; rw [show ξ + d - ξ = d by ring]
    have hbound := three_images_le (2 * Real.pi) (x - ξ) D eps (eps / 2) (eps / 2) m (by positivity)
      (fun d hd => gammatone_outside_le_eps n hn c la ξ offset (ξ + d) eps hc heps (by rw [habs, ← hD]; exact hd))
      (fun d hd => gammatone_wrap_le n hn c la ξ offset (ξ + d) eps hc heps (by rw [habs, ← hDw]; linarith))
      (fun d hd => gammatone_wrap_le n hn c la ξ offset (ξ + d) eps hc heps (by rw [habs, ← hDw]; linarith))
      (by have := hout (-1) (Or.inl rfl); rw [show x + 2 * Real.pi * ((-1 : ℤ) : ℝ) - ξ = (x - ξ) - 2 * Real.pi by push_cast; ring] at this; exact this)
      (by have := hout 0 (Or.inr (Or.inl rfl)); rw [show x + 2 * Real.pi * ((0 : ℤ) : ℝ) - ξ = x - ξ by push_cast; ring] at this; exact this)
      (by have := hout 1 (Or.inr (Or.inr rfl)); rw [show x + 2 * Real.pi * ((1 : ℤ) : ℝ) - ξ = (x - ξ) + 2 * Real.pi by push_cast; ring] at this; exact this)
    have e1 : ‖g (-1)‖ = m ((x - ξ) - 2 * Real.pi) := by rw [hmg]; congr 1; push_cast; ring
    have e2 : ‖g 0‖ = m (x - ξ) := by rw [hmg]; congr 1; push_cast; ring
    have e3 : ‖g 1‖ = m ((x - ξ) + 2 * Real.pi) := by rw [hmg]; congr 1; push_cast; ring
    rw [e1, e2, e3] at h3
    linarith


/-! ### glue to the index model -/

/-- a lattice point gets a tap exactly when its frequency `k/W` (as a fraction of the period) lies in
the support `[lo, hi]`: `left_idx ≤ k ≤ right_idx ↔ lo ≤ k/W ≤ hi` -/
theorem lattice_in_support_iff (W : Nat) {lo hi : Frac} (ok : PeriodicOK lo hi) (k : Int) :
    (leftIdx W lo ≤ k ∧ k ≤ rightIdx W hi) ↔
      ((W : Int) * lo.num ≤ k * lo.den ∧ k * hi.den ≤ (W : Int) * hi.num) := by
  have hB : 0 ≤ (W : Int) * hi.num := mul_nonneg (by omega) ok.hi0
  unfold leftIdx rightIdx
  rw [ceilDiv_le_iff ok.lden, le_truncDiv_iff hB ok.hden]

/-- the image that the tap of lattice point `k` is: period `⌊k/W⌋ ∈ {-1, 0}`, and that period is one
of those `get_frequency_response` sums (Gabor and gammatone) -/
theorem tap_period_mem (W : Nat) (hW : 0 < W) {lo hi : Frac} (ok : PeriodicOK lo hi)
    (hlo : -lo.den < lo.num) (hhi0 : 0 < hi.num) (hhi1 : hi.num < hi.den) (k : Int)
    (hk : leftIdx W lo ≤ k ∧ k ≤ rightIdx W hi) :
    k / (W : Int) ∈ gaborPeriodsFull lo hi ∧ k / (W : Int) ∈ gammatonePeriodsFull lo hi ∧
      k = (k % (W : Int)) + (k / (W : Int)) * W := by
  obtain ⟨h1, h2, h3⟩ := periodic_periods ok hlo hhi0 hhi1
  have hWp : (0 : Int) < (W : Int) := by omega
  obtain ⟨hk1, hk2⟩ := (lattice_in_support_iff W ok k).mp hk
  have hld := ok.lden; have hhd := ok.hden
  -- -W < k < W
  have hkl : -(W : Int) < k := by
    have : (W : Int) * (-lo.den) < (W : Int) * lo.num := mul_lt_mul_of_pos_left hlo hWp
    have : -(W : Int) * lo.den < k * lo.den := by nlinarith
    exact lt_of_mul_lt_mul_right this hld.le
  have hku : k < (W : Int) := by
    have : (W : Int) * hi.num < (W : Int) * hi.den := mul_lt_mul_of_pos_left hhi1 hWp
    have : k * hi.den < (W : Int) * hi.den := by nlinarith
    exact lt_of_mul_lt_mul_right this hhd.le
  have hdm := Int.emod_add_mul_ediv k (W : Int)
  refine ⟨?_, ?_, by rw [mul_comm] at hdm; omega⟩
  · rw [h2]
    by_cases hneg : k < 0
    · have : k / (W : Int) = -1 := by
        have a1 : -1 ≤ k / (W : Int) := (Int.le_ediv_iff_mul_le hWp).mpr (by omega)
        have a2 : k / (W : Int) < 0 := (Int.ediv_lt_iff_lt_mul hWp).mpr (by omega)
        omega
      rw [this]; decide
    · have : k / (W : Int) = 0 := Int.ediv_eq_zero_of_lt (by omega) hku
      rw [this]; decide
  · rw [h3]
    by_cases hneg : k < 0
    · have : k / (W : Int) = -1 := by
        have a1 : -1 ≤ k / (W : Int) := (Int.le_ediv_iff_mul_le hWp).mpr (by omega)
        have a2 : k / (W : Int) < 0 := (Int.ediv_lt_iff_lt_mul hWp).mpr (by omega)
        omega
      -- a negative lattice point in the support: the support reaches below 0
      have hlneg : lo.num < 0 := by
        by_contra hc
        have : 0 ≤ (W : Int) * lo.num := mul_nonneg hWp.le (by omega)
        have : k * lo.den < 0 := mul_neg_of_neg_of_pos hneg hld
        omega
      rw [this, if_pos hlneg]; decide
    · have : k / (W : Int) = 0 := Int.ediv_eq_zero_of_lt (by omega) hku
      rw [this]; split <;> decide

/-
  What is *not* assembled into one statement: the identification of bin `b` with the frequency
  `x = 2πb/W` and of `supports_ang` (floats) with `centre ± diff_ang` (reals) — i.e. float round-off
  of the support edges and of the response values — which the oracle covers on the implementation.
-/

/-! non-vacuity of the analytic hypotheses: order 4, unit peak, `ε = 5e-4` gives a positive radius,
and any frequency far enough from the carrier satisfies the hypothesis -/
example : ∃ ω : ℝ, gaborDiffAng false (5e-4 : ℝ) 2 ≤ |1 - ω| :=
  ⟨1 + gaborDiffAng false (5e-4 : ℝ) 2 + 1, by
    rw [abs_sub_comm]
    have h0 : 0 ≤ gaborDiffAng false (5e-4 : ℝ) 2 := by
      simp only [gaborDiffAng, Bool.false_eq_true, if_false, transc_sqrt]
      exact div_nonneg (Real.sqrt_nonneg _) (by norm_num)
    rw [abs_of_nonneg (by linarith)]; linarith⟩
example : ∃ ω : ℝ, gammatoneDiffAng ((4 : ℕ) : ℝ) (Real.log 1 + Real.log (Nat.factorial 3)) 0 (5e-4 : ℝ) ≤ |ω - 1| :=
  ⟨1 + gammatoneDiffAng ((4 : ℕ) : ℝ) (Real.log 1 + Real.log (Nat.factorial 3)) 0 (5e-4 : ℝ), by
    have h0 : 0 ≤ gammatoneDiffAng ((4 : ℕ) : ℝ) (Real.log 1 + Real.log (Nat.factorial 3)) 0 (5e-4 : ℝ) := by
      simp only [gammatoneDiffAng, transc_sqrt]; exact Real.sqrt_nonneg _
    rw [abs_of_nonneg (by linarith)]; linarith⟩

/-- the hypotheses of `gabor_within_2eps` are satisfiable: `ε = 5e-4`, unit peak, `std = 10` -/
example : Real.log (5e-4 : ℝ) ≤ gaborConstTerm false 10 ∧
    2 * gaborWrapDiffAng false (5e-4 : ℝ) 10 < 2 * Real.pi := by
  have hl := log_eps_ge
  have hl2 : Real.log 2 ≤ 1 := by
    have := Real.log_le_sub_one_of_pos (show (0 : ℝ) < 2 by norm_num); linarith
  constructor
  · simp only [gaborConstTerm, Bool.false_eq_true, if_false]
    have : Real.log (5e-4 : ℝ) ≤ 0 := Real.log_nonpos (by norm_num) (by norm_num)
    norm_num; linarith
  · simp only [gaborWrapDiffAng, gaborFConst, Bool.false_eq_true, if_false, transc_sqrt, transc_log]
    norm_num
    have h1 : Real.sqrt (-(2 * Real.log (1 / 2000)) + Real.log 2) ≤ Real.sqrt 36 := by
      apply Real.sqrt_le_sqrt; norm_num at hl; linarith
    have h2 : Real.sqrt 36 = 6 := by
      rw [show (36 : ℝ) = 6 ^ 2 by norm_num]; exact Real.sqrt_sq (by norm_num)
    have := Real.pi_gt_three
    linarith

/-- the hypotheses of `gammatone_within_2eps` are satisfiable: order 4, a narrow, low filter -/
example : 2 * gammatoneDiffAng ((4 : ℕ) : ℝ) (Real.log (Real.exp (-40) / 6) + Real.log (Nat.factorial (4 - 1))) (-20) (5e-4 : ℝ)
    + 2 * gammatoneWrapDiffAng ((4 : ℕ) : ℝ) (Real.log (Real.exp (-40) / 6) + Real.log (Nat.factorial (4 - 1))) (-20) (5e-4 : ℝ)
    < 2 * Real.pi := by
  have hl := log_eps_ge
  have hl2 : Real.log 2 ≤ 1 := by
    have := Real.log_le_sub_one_of_pos (show (0 : ℝ) < 2 by norm_num); linarith
  have hlp : Real.log (Real.exp (-40) / 6) + Real.log (Nat.factorial (4 - 1)) = -40 := by
    rw [Real.log_div (Real.exp_pos _).ne' (by norm_num), Real.log_exp]
    norm_num [Nat.factorial]
  rw [hlp]
  have h1 : gammatoneDiffAng ((4 : ℕ) : ℝ) (-40) (-20) (5e-4 : ℝ) ≤ 1 := by
    simp only [gammatoneDiffAng, gammatoneSuppA, transc_sqrt, transc_exp, transc_log]
    norm_num
    norm_num at hl
    have hpos := Real.exp_pos (-40 : ℝ)
    refine le_trans (Real.exp_le_one_iff.mpr ?_) (by linarith)
    linarith
  have h2 : gammatoneWrapDiffAng ((4 : ℕ) : ℝ) (-40) (-20) (5e-4 : ℝ) ≤ 1 := by
    simp only [gammatoneWrapDiffAng, gammatoneSuppA, transc_sqrt, transc_exp, transc_log]
    norm_num
    norm_num at hl
    have hpos := Real.exp_pos (-40 : ℝ)
    refine le_trans (Real.exp_le_one_iff.mpr ?_) (by linarith)
    linarith
  have := Real.pi_gt_three
  linarith


end PdsVerif.C06

/-
  C05 — filter banks are laid out on the scale as documented, with unit gain.

  The definitions these theorems are about are *generated from*
  `/repo/src/pydrobert/speech/filters.py` (`Generated/BankConsts.lean`) and `scales.py`
  (`Generated/Scales.lean`) on every run, instantiated at `ℝ`, and plugged into the Python plumbing of
  `Model/BankLayout.lean`.
-/
import PdsVerif.Lemmas.BankReal
import PdsVerif.Props.C19
import Mathlib.Analysis.SpecialFunctions.Gaussian.GaussianIntegral
import Mathlib.Analysis.SpecialFunctions.Gamma.Basic
import Mathlib.Tactic

namespace PdsVerif.C05
open PdsVerif PdsVerif.Gen PdsVerif.Gen.BankConsts PdsVerif.Gen.Scales PdsVerif.Gen.UtilFns
open PdsVerif.Model.BankLayout PdsVerif.BankReal Set

/-! ## 1. scales: what the layout needs, from the C19 theorems -/

/-- constructor / domain conditions under which a scale is usable from `lo` Hz upwards
(linear: positive slope; octave: positive `low_hz`; mel / Bark: above the pole of the formula) -/
def Scale.Valid : Scale ℝ → ℝ → Prop
  | .linear _ slope, _ => 0 < slope
  | .octave _, lo => 0 < lo
  | .mel, lo => -700 < lo
  | .bark, lo => -1960 < lo

/-- the four facts every layout theorem uses, on the band `[lo, hi]` -/
structure ScaleOK (sc : Scale ℝ) (lo hi : ℝ) : Prop where
  left_inv : ∀ f, lo ≤ f → sc.s2h (sc.h2s f) = f
  right_inv : ∀ s, s ≤ sc.h2s hi → sc.h2s (sc.s2h s) = s
  h2s_lt : ∀ a b, lo ≤ a → a < b → sc.h2s a < sc.h2s b
  s2h_lt : ∀ s t, s < t → t ≤ sc.h2s hi → sc.s2h s < sc.s2h t

theorem z_lt_pole (f : ℝ) (hf : -1960 < f) : C19.z f < 26.28 := by
  unfold C19.z
  have h : (0:ℝ) < 1960.0 + f := by norm_num; linarith
  have : (26.81:ℝ) * f / (1960.0 + f) < 26.81 := by
    rw [div_lt_iff₀ h]; norm_num
  norm_num at this ⊢; linarith

theorem uncorr_lt_pole (s hi : ℝ) (hhi : -1960 < hi) (hs : s ≤ bark_h2s hi) : C19.uncorr s < 26.28 := by
  have h1 : C19.uncorr s ≤ C19.uncorr (bark_h2s hi) := C19.uncorr_strictMono.monotone hs
  rw [C19.bark_h2s_eq, C19.uncorr_corr] at h1
  exact lt_of_le_of_lt h1 (z_lt_pole hi hhi)

/-- all four scales satisfy `ScaleOK` on every band that starts inside their domain -/
theorem scaleOK (sc : Scale ℝ) (lo hi : ℝ) (hv : Scale.Valid sc lo) (hlh : lo ≤ hi) : ScaleOK sc lo hi := by
  cases sc with
  | linear l s =>
    have hs : 0 < s := hv
    exact ⟨fun f _ => C19.linear_left_inv l s f hs.ne', fun x _ => C19.linear_right_inv l s x hs.ne',
      fun a b _ hab => C19.linear_h2s_strictMono l s hs hab, fun a b hab _ => C19.linear_s2h_strictMono l s hs hab⟩
  | octave l =>
    have hl : 0 < lo := hv
    exact ⟨fun f hf => C19.octave_left_inv l f (lt_of_lt_of_le hl hf), fun x _ => C19.octave_right_inv l x,
      fun a b ha hab => C19.octave_h2s_strictMonoOn l (mem_Ioi.mpr (lt_of_lt_of_le hl ha))
        (mem_Ioi.mpr (lt_trans (lt_of_lt_of_le hl ha) hab)) hab,
      fun a b hab _ => C19.octave_s2h_strictMono l hab⟩
  | mel =>
    have hl : -700 < lo := hv
    exact ⟨fun f hf => C19.mel_left_inv f (lt_of_lt_of_le hl hf), fun x _ => C19.mel_right_inv x,
      fun a b ha hab => C19.mel_h2s_strictMonoOn (mem_Ioi.mpr (lt_of_lt_of_le hl ha))
        (mem_Ioi.mpr (lt_trans (lt_of_lt_of_le hl ha) hab)) hab,
      fun a b hab _ => C19.mel_s2h_strictMono hab⟩
  | bark =>
    have hl : -1960 < lo := hv
    have hhi : -1960 < hi := lt_of_lt_of_le hl hlh
    refine ⟨fun f hf => C19.bark_left_inv f (lt_of_lt_of_le hl hf), fun x hx => ?_, fun a b ha hab => ?_,
      fun a b hab hb => ?_⟩
    · exact C19.bark_right_inv x (uncorr_lt_pole x hi hhi hx).ne
    · exact C19.bark_h2s_strictMonoOn (mem_Ioi.mpr (lt_of_lt_of_le hl ha))
        (mem_Ioi.mpr (lt_trans (lt_of_lt_of_le hl ha) hab)) hab
    · exact C19.bark_s2h_strictMonoOn (uncorr_lt_pole a hi hhi (le_trans hab.le hb))
        (uncorr_lt_pole b hi hhi hb) hab

/-! ## 2. the grid on the scale -/

/-- position `t` (in steps) on the scale: `scale_low + scale_delta * t` -/
noncomputable def gridPos (sc : Scale ℝ) (lo hi : ℝ) (n : ℕ) (t : ℝ) : ℝ :=
  sc.h2s lo + (sc.h2s hi - sc.h2s lo) / ((n:ℝ) + 1) * t

/-- the step `scale_delta` -/
noncomputable def gridStep (sc : Scale ℝ) (lo hi : ℝ) (n : ℕ) : ℝ := (sc.h2s hi - sc.h2s lo) / ((n:ℝ) + 1)

theorem gridPos_eq (sc : Scale ℝ) (lo hi : ℝ) (n : ℕ) (t : ℝ) :
    gridPos sc lo hi n t = sc.h2s lo + t * gridStep sc lo hi n := by
  unfold gridPos gridStep; ring

theorem tri_vertex_eq (sc : Scale ℝ) (lo hi : ℝ) (n : ℕ) (t : ℝ) :
    tri_vertex sc.h2s sc.s2h lo hi n t = sc.s2h (gridPos sc lo hi n t) := by
  simp only [tri_vertex, gridPos]; norm_num

theorem fbank_vertex_eq (lo hi : ℝ) (n : ℕ) (t : ℝ) :
    fbank_vertex lo hi n t = (Scale.mel : Scale ℝ).s2h (gridPos .mel lo hi n t) := by
  simp only [fbank_vertex, gridPos, Scale.s2h, Scale.h2s]; norm_num

theorem gabor_edge_eq (sc : Scale ℝ) (lo hi : ℝ) (n : ℕ) (t : ℝ) :
    gabor_edge sc.h2s sc.s2h lo hi n t = sc.s2h (gridPos sc lo hi n (t + 1/2)) := by
  simp only [gabor_edge, gridPos]; norm_num

theorem gammatone_edge_eq (sc : Scale ℝ) (lo hi : ℝ) (n : ℕ) (t : ℝ) :
    gammatone_edge sc.h2s sc.s2h lo hi n t = sc.s2h (gridPos sc lo hi n (t + 1/2)) := by
  simp only [gammatone_edge, gridPos]; norm_num

section Grid
variable {sc : Scale ℝ} {lo hi : ℝ} (ok : ScaleOK sc lo hi) (hlt : lo < hi) (n : ℕ)
include ok hlt

theorem gridStep_pos : 0 < gridStep sc lo hi n := by
  unfold gridStep
  have := ok.h2s_lt lo hi le_rfl hlt
  have hn : (0:ℝ) < (n:ℝ) + 1 := by positivity
  exact div_pos (by linarith) hn

theorem gridPos_le_top (t : ℝ) (ht : t ≤ (n:ℝ) + 1) : gridPos sc lo hi n t ≤ sc.h2s hi := by
  have hn : (0:ℝ) < (n:ℝ) + 1 := by positivity
  have hs := gridStep_pos ok hlt n
  rw [gridPos_eq]
  have : ((n:ℝ) + 1) * gridStep sc lo hi n = sc.h2s hi - sc.h2s lo := by
    unfold gridStep; field_simp
  nlinarith

omit ok hlt in
theorem gridPos_top : gridPos sc lo hi n ((n:ℝ) + 1) = sc.h2s hi := by
  have hn : ((n:ℝ) + 1) ≠ 0 := by positivity
  unfold gridPos; field_simp; ring

omit ok hlt in
theorem gridPos_zero : gridPos sc lo hi n 0 = sc.h2s lo := by
  unfold gridPos; ring

theorem gridPos_lt (s t : ℝ) (hst : s < t) : gridPos sc lo hi n s < gridPos sc lo hi n t := by
  have hs := gridStep_pos ok hlt n
  rw [gridPos_eq, gridPos_eq]; nlinarith

/-- **Equal spacing.**  Going back to the scale from the Hz value placed at step `t` gives exactly
`scale_low + t * scale_delta`, for every (real) step `t ≤ num_filts + 1` — vertices are `t = 0, 1, …`,
Gabor / gammatone edges are `t = 1/2, 3/2, …`. -/
theorem edges_equally_spaced (t : ℝ) (ht : t ≤ (n:ℝ) + 1) :
    sc.h2s (sc.s2h (gridPos sc lo hi n t)) = sc.h2s lo + t * gridStep sc lo hi n := by
  rw [ok.right_inv _ (gridPos_le_top ok hlt n t ht), gridPos_eq]

/-- the first position is `low_hz`, the last is `high_hz` -/
theorem vertex_ends :
    sc.s2h (gridPos sc lo hi n 0) = lo ∧ sc.s2h (gridPos sc lo hi n ((n:ℝ) + 1)) = hi := by
  rw [gridPos_zero, gridPos_top]
  exact ⟨ok.left_inv lo le_rfl, ok.left_inv hi hlt.le⟩

/-- Hz values placed on the grid are strictly increasing in the step -/
theorem grid_hz_strictMono (s t : ℝ) (hst : s < t) (ht : t ≤ (n:ℝ) + 1) :
    sc.s2h (gridPos sc lo hi n s) < sc.s2h (gridPos sc lo hi n t) :=
  ok.s2h_lt _ _ (gridPos_lt ok hlt n s t hst) (gridPos_le_top ok hlt n t ht)

end Grid

/-! ## 3. constructor range validation -/

/-- the property's rejection clause: `low_hz < 0`, or a positive `high_hz` that is not above `low_hz`
or lies more than 1 Hz above the Nyquist frequency -/
def MustReject (low : ℝ) (high : Option ℝ) (rate : ℝ) : Prop :=
  low < 0 ∨ ∃ h, high = some h ∧ 0 < h ∧ (h ≤ low ∨ rate / 2 + 1 < h)

/-- `TriangularOverlappingFilterBank.__init__` accepts exactly `0 ≤ low < high ≤ rate/2 + 1`
(`high` defaulting to `rate/2`). -/
theorem tri_rejects_iff (low : ℝ) (high : Option ℝ) (rate : ℝ) :
    tri_ctor_rejects low high rate = false ↔
      0 ≤ low ∧ low < high.getD (rate / 2) ∧ high.getD (rate / 2) ≤ rate / 2 + 1 := by
  cases high <;> simp [tri_ctor_rejects, Option.getD, and_assoc] <;> norm_num

/-- the other three constructors (`Fbank`, `GaborFilterBank`, `ComplexGammatoneFilterBank`) accept exactly
`0 ≤ low` with `high` absent, `0`, or `low < high ≤ ⌊rate/2⌋` (`sampling_rate // 2`, not `rate/2 + 1`). -/
theorem floor_style_rejects_iff (low : ℝ) (high : Option ℝ) (rate : ℝ) :
    (fbank_ctor_rejects low high rate = false ↔
      0 ≤ low ∧ ∀ h, high = some h → h ≠ 0 → low < h ∧ h ≤ (⌊rate / 2⌋ : ℝ)) ∧
    gabor_ctor_rejects low high rate = fbank_ctor_rejects low high rate ∧
    gammatone_ctor_rejects low high rate = fbank_ctor_rejects low high rate := by
  refine ⟨?_, rfl, rfl⟩
  cases high with
  | none => simp [fbank_ctor_rejects]; norm_num
  | some h =>
    simp only [fbank_ctor_rejects, Bool.or_eq_false_iff, decide_eq_false_iff_not, not_lt,
      Bool.and_eq_false_imp, Bool.or_eq_true, decide_eq_true_eq, not_le, floorI_real,
      Option.some.injEq, forall_eq']
    norm_num

theorem floor_half_le (rate : ℝ) : ((⌊rate / 2⌋ : ℤ) : ℝ) ≤ rate / 2 := Int.floor_le _

/-- **range_rejected**, `TriangularOverlappingFilterBank` -/
theorem tri_range_rejected (sc : Scale ℝ) (n : ℕ) (high : Option ℝ) (low rate : ℝ)
    (h : MustReject low high rate) : triVertices sc n high low rate = .error "ValueError" := by
  have : tri_ctor_rejects low high rate = true := by
    by_contra hc
    rw [Bool.not_eq_true] at hc
    have := (tri_rejects_iff low high rate).mp hc
    rcases h with h | ⟨x, rfl, hx, h | h⟩
    · linarith
    · simp only [Option.getD] at this; linarith
    · simp only [Option.getD] at this; linarith
  simp [triVertices, this]

theorem floor_style_rejected (high : Option ℝ) (low rate : ℝ) (h : MustReject low high rate) :
    fbank_ctor_rejects low high rate = true := by
  by_contra hc
  rw [Bool.not_eq_true] at hc
  have := (floor_style_rejects_iff low high rate).1.mp hc
  have hf := floor_half_le rate
  rcases h with h | ⟨x, rfl, hx, h | h⟩
  · linarith
  · have := this.2 x rfl hx.ne'; linarith
  · have := this.2 x rfl hx.ne'; linarith

/-- **range_rejected**, `Fbank` -/
theorem fbank_range_rejected (n : ℕ) (high : Option ℝ) (low rate : ℝ)
    (h : MustReject low high rate) : fbankVertices n high low rate = .error "ValueError" := by
  simp [fbankVertices, floor_style_rejected high low rate h]

/-- **range_rejected**, `GaborFilterBank` -/
theorem gabor_range_rejected (sc : Scale ℝ) (n : ℕ) (high : Option ℝ) (low rate : ℝ) (l2 erb : Bool)
    (h : MustReject low high rate) : gaborBank sc n high low rate l2 erb = .error "ValueError" := by
  have := floor_style_rejected high low rate h
  rw [← (floor_style_rejects_iff low high rate).2.1] at this
  simp [gaborBank, gaborEdges, this, Except.map]

/-- **range_rejected**, `ComplexGammatoneFilterBank` (a non-positive `order` is rejected too) -/
theorem gammatone_range_rejected (sc : Scale ℝ) (n : ℕ) (high : Option ℝ) (low rate : ℝ) (order : ℤ)
    (mc l2 erb : Bool) (h : MustReject low high rate ∨ order ≤ 0) :
    gammaBank sc n high low rate order mc l2 erb = .error "ValueError" := by
  rcases h with h | h
  · have := floor_style_rejected high low rate h
    rw [← (floor_style_rejects_iff low high rate).2.2] at this
    simp [gammaBank, gammaEdges, this, Except.map]
  · have : gammatone_order_rejects order = true := by simp [gammatone_order_rejects, h]
    simp only [gammaBank, gammaEdges, this]
    split_ifs <;> rfl

example : MustReject (-1) none 8000 := Or.inl (by norm_num)
example : MustReject 300 (some 200) 8000 := Or.inr ⟨200, rfl, by norm_num, Or.inl (by norm_num)⟩
example : MustReject 20 (some 4001.5) 8000 := Or.inr ⟨4001.5, rfl, by norm_num, Or.inr (by norm_num)⟩
/-- the two validation styles differ between the Nyquist frequency and 1 Hz above it:
`high_hz = 4000.5` at 8 kHz is accepted by the triangular bank (and clamped) and rejected by the others -/
example : tri_ctor_rejects (20:ℝ) (some 4000.5) 8000 = false ∧ fbank_ctor_rejects (20:ℝ) (some 4000.5) 8000 = true := by
  constructor
  · rw [tri_rejects_iff]; simp only [Option.getD]; norm_num
  · by_contra hc
    rw [Bool.not_eq_true] at hc
    have := ((floor_style_rejects_iff 20 (some 4000.5) 8000).1.mp hc).2 4000.5 rfl (by norm_num)
    have h2 := floor_half_le 8000
    norm_num at this h2

/-! ## 4. layout of the constructed banks -/

/-- a list of Hz values placed at steps `off, off+1, …` of the grid -/
noncomputable def onGrid (sc : Scale ℝ) (lo hi : ℝ) (n m : ℕ) (off : ℝ) : List ℝ :=
  tabulate m fun i => sc.s2h (gridPos sc lo hi n ((i:ℝ) + off))

theorem triVertices_ok {sc : Scale ℝ} {n : ℕ} {high : Option ℝ} {low rate : ℝ} {vs : List ℝ}
    (h : triVertices sc n high low rate = .ok vs) :
    tri_ctor_rejects low high rate = false ∧ vs = onGrid sc low (tri_high high rate) n (n + 2) 0 := by
  unfold triVertices at h
  split_ifs at h with hr
  simp only [Except.ok.injEq] at h
  refine ⟨by simpa using hr, ?_⟩
  rw [← h]; unfold onGrid tri_num_vertices
  congr 1; funext i; rw [tri_vertex_eq]; simp

theorem fbankVertices_ok {n : ℕ} {high : Option ℝ} {low rate : ℝ} {vs : List ℝ}
    (h : fbankVertices n high low rate = .ok vs) :
    fbank_ctor_rejects low high rate = false ∧ vs = onGrid .mel low (fbank_high high rate) n (n + 2) 0 := by
  unfold fbankVertices at h
  split_ifs at h with hr
  simp only [Except.ok.injEq] at h
  refine ⟨by simpa using hr, ?_⟩
  rw [← h]; unfold onGrid fbank_num_vertices
  congr 1; funext i; rw [fbank_vertex_eq]; simp

theorem gaborEdges_ok {sc : Scale ℝ} {n : ℕ} {high : Option ℝ} {low rate : ℝ} {es : List ℝ}
    (h : gaborEdges sc n high low rate = .ok es) :
    gabor_ctor_rejects low high rate = false ∧ es = onGrid sc low (gabor_high high rate) n (n + 1) (1/2) := by
  unfold gaborEdges at h
  split_ifs at h with hr
  simp only [Except.ok.injEq] at h
  refine ⟨by simpa using hr, ?_⟩
  rw [← h]; unfold onGrid gabor_num_edges
  congr 1; funext i; rw [gabor_edge_eq]

theorem gammaEdges_ok {sc : Scale ℝ} {n : ℕ} {high : Option ℝ} {low rate : ℝ} {order : ℤ} {es : List ℝ}
    (h : gammaEdges sc n high low rate order = .ok es) :
    gammatone_ctor_rejects low high rate = false ∧ 0 < order ∧
      es = onGrid sc low (gammatone_high high rate) n (n + 1) (1/2) := by
  unfold gammaEdges at h
  split_ifs at h with hr ho
  simp only [Except.ok.injEq] at h
  refine ⟨by simpa using hr, by simpa [gammatone_order_rejects] using ho, ?_⟩
  rw [← h]; unfold onGrid gammatone_num_edges
  congr 1; funext i; rw [gammatone_edge_eq]

section OnGrid
variable {sc : Scale ℝ} {lo hi : ℝ} (ok : ScaleOK sc lo hi) (hlt : lo < hi) (n m : ℕ) (off : ℝ)

@[simp] theorem onGrid_length : (onGrid sc lo hi n m off).length = m := by simp [onGrid]

theorem onGrid_getElem (i : ℕ) (h : i < (onGrid sc lo hi n m off).length) :
    (onGrid sc lo hi n m off)[i] = sc.s2h (gridPos sc lo hi n ((i:ℝ) + off)) := by
  simp [onGrid, tabulate_getElem]

include ok hlt in
/-- positions on the scale are `scale_low + (i + off) * scale_delta` -/
theorem onGrid_scale (hm : (m:ℝ) - 1 + off ≤ (n:ℝ) + 1) (i : ℕ) (h : i < (onGrid sc lo hi n m off).length) :
    sc.h2s (onGrid sc lo hi n m off)[i] = sc.h2s lo + ((i:ℝ) + off) * gridStep sc lo hi n := by
  rw [onGrid_getElem]
  have hi' : i < m := by simpa using h
  have : ((i:ℝ) + 1) ≤ m := by exact_mod_cast hi'
  exact edges_equally_spaced ok hlt n _ (by linarith)

include ok hlt in
/-- strictly increasing in Hz -/
theorem onGrid_strictMono (hm : (m:ℝ) - 1 + off ≤ (n:ℝ) + 1) (i j : ℕ) (hij : i < j)
    (hj : j < (onGrid sc lo hi n m off).length) :
    (onGrid sc lo hi n m off)[i]'(lt_trans hij hj) < (onGrid sc lo hi n m off)[j] := by
  rw [onGrid_getElem, onGrid_getElem]
  have hj' : j < m := by simpa using hj
  have h1 : ((j:ℝ) + 1) ≤ m := by exact_mod_cast hj'
  have h2 : (i:ℝ) < j := by exact_mod_cast hij
  exact grid_hz_strictMono ok hlt n _ _ (by linarith) (by linarith)

end OnGrid

end PdsVerif.C05
